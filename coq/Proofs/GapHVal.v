(* Gap audit (C07), part 3: the OUTBOARD-only validators (valid_outboard_ranges, sync and fsm) in the states of a
   decode history.  They check the hash chain from the root down to a group and never look at the data, so
   what they report is governed by the set P of SAVED pairs, not by the set D of delivered chunks:
     - in every state of the history invariant (any initial content) the groups they report are exactly the
       touched groups whose whole path holds the blob's pairs; every touched group with a delivered chunk is
       among them;
     - from the all-zero initial state, when no pair of the blob is the zero pair: exactly the touched groups
       all of whose path nodes have been saved (which may include groups none of whose chunks has arrived yet:
       a stream cut between a parent and the leaf below it). *)
From BaoV Require Import Model.IO Spec.RangeSpec Spec.PlanSpec Spec.PlanWf Spec.NodeSpec Spec.EncSpec Spec.HashAssm.
From BaoV Require Import Proofs.RangeBase Proofs.PlanBase Proofs.BridgeBase Proofs.EncMain
  Proofs.DecForest Proofs.DecRanges
  Proofs.ValSpec Proofs.ValPath Proofs.ValTop Proofs.ValSound
  Proofs.HistOb Proofs.HistPath Proofs.HistEnc Proofs.HistInv Proofs.HistStep
  Proofs.FinalStore Proofs.FinalConv Proofs.FinalVal Proofs.GapHNodes Proofs.GapHFrame.
From Coq Require Import ZArith Lia.
Open Scope N_scope.
Arguments N.add : simpl never.
Arguments N.sub : simpl never.
Arguments N.mul : simpl never.
Arguments N.pow : simpl never.
Arguments N.div : simpl never.
Arguments N.modulo : simpl never.
Arguments N.log2 : simpl never.
Arguments N.min : simpl never.
Arguments N.max : simpl never.

Section ObVal.
Variable HO : hops.
Hypothesis HOK : hash_ok HO.
Notation bytes := (bytes HO).
Notation hash := (hash HO).
Notation outboard := (outboard HO).

Variable data : bytes.
Variable bs : N.
Hypothesis Hsize : blen HO data <= 2 ^ 63.
Hypothesis Hbs : bs <= 10.
Let size := blen HO data.
Let nc := nchunks size.
Let g := 2 ^ bs.
Let B := sp_blocks size bs.

(* on a pre-sized store with the blob's root the verdict of the outboard validator for a group is: the whole
   path holds the blob's pairs *)
Lemma ob_verdict_path (ob : outboard) ga : ob_sized HO ob size bs -> ob_root ob = root_hash HO data ->
  2 <= B -> ga < B ->
  (grp_verdict HO false ob [] size bs ga = true <-> path_true HO data bs ob ga).
Proof.
  intros Hs Hr HB Hga. rewrite (grp_verdict_iff HO size bs ob false [] ga HB). split.
  - intros [C _]. exact (chain_ok_true HO HOK data bs ob Hsize Hbs Hr ga Hga C).
  - intro Hp. split; [exact (true_chain_ok HO HOK data bs ob Hsize Hbs Hr ga Hga Hp)|discriminate].
Qed.

Lemma sized_loads_ok (ob : outboard) : ob_sized HO ob size bs -> loads_ok HO ob size bs.
Proof. intros Hs nd Hin. exact (proj1 (sized_loads HO size bs Hsize Hbs ob nd Hs Hin)). Qed.

Lemma sized_fsm_eq (ob : outboard) q : ob_sized HO ob size bs ->
  valid_outboard_ranges_fsm HO ob q = valid_outboard_ranges HO ob q.
Proof.
  intro Hs.
  assert (Hag : forall nd, In nd (sp_pre_nodes size bs) -> load_fsm HO ob nd = load_sync HO ob nd).
  { intros nd Hin. exact (proj2 (sized_loads HO size bs Hsize Hbs ob nd Hs Hin)). }
  exact (proj2 (c06_sync_eq_fsm_tree HO size bs Hsize Hbs ob (os_tree HO ob _ _ Hs) Hag [] q)).
Qed.

(* ---- any initial content ---- *)
Theorem obval_reported_iff t0 ob0 D P t ob q : InvR HO data bs t0 ob0 D P (t, ob) -> 2 <= B -> wf_ranges q = true ->
  valid_outboard_ranges_fsm HO ob q = valid_outboard_ranges HO ob q /\
  snd (valid_outboard_ranges HO ob q) = Ok tt /\
  (forall a e, In (a, e) (fst (valid_outboard_ranges HO ob q)) <->
     exists ga, ga < B /\ a = grp_start bs ga /\ e = grp_end size bs ga /\
                touched q size bs ga /\ path_true HO data bs ob ga) /\
  (forall c, c < nc -> D c = true -> touched q size bs (c / g) ->
     In (grp_start bs (c / g), grp_end size bs (c / g)) (fst (valid_outboard_ranges HO ob q))).
Proof.
  intros I HB Hwf. pose proof (ir_sized _ _ _ _ _ _ _ _ I) as Hs. pose proof (ir_root _ _ _ _ _ _ _ _ I) as Hr.
  pose proof (ir_slots _ _ _ _ _ _ _ _ I) as Hsl. pose proof (ir_paths _ _ _ _ _ _ _ _ I) as Hpa.
  cbn [snd] in Hs, Hr, Hsl.
  split; [exact (sized_fsm_eq ob q Hs)|].
  pose proof (outboard_exact_groups HO size bs q ob Hsize Hbs Hwf (os_tree HO ob _ _ Hs) (sized_loads_ok ob Hs) HB) as E.
  fold B in E.
  assert (M : forall a e, In (a, e) (fst (valid_outboard_ranges HO ob q)) <->
     exists ga, ga < B /\ a = grp_start bs ga /\ e = grp_end size bs ga /\
                touched q size bs ga /\ path_true HO data bs ob ga).
  { intros a e. rewrite E. cbn [fst]. rewrite in_flat_map. split.
    - intros (ga & Hga & Hin). apply crl_in in Hga.
      destruct (touchedb q size bs ga) eqn:Et; [|destruct Hin].
      destruct (grp_verdict HO false ob [] size bs ga) eqn:Ev; [|destruct Hin]. cbn [andb] in Hin.
      destruct Hin as [Hin|[]]. injection Hin as <- <-.
      exists ga. split; [lia|]. split; [reflexivity|]. split; [reflexivity|]. split.
      + now apply touched_iff.
      + apply (ob_verdict_path ob ga Hs Hr HB ltac:(lia)). exact Ev.
    - intros (ga & Hga & -> & -> & T & Hp). exists ga. split; [apply crl_in; lia|].
      apply touched_iff in T. rewrite T.
      rewrite (proj2 (ob_verdict_path ob ga Hs Hr HB Hga) Hp). now left. }
  split; [rewrite E; reflexivity|]. split; [exact M|].
  intros c Hc Hd T. apply M. exists (c / g).
  assert (Hga : c / g < B).
  { pose proof (nchunks_le_blocks size bs) as Hle. fold B in Hle. fold nc in Hle. fold g in Hle.
    pose proof (pow2_ge1 bs) as Pg. fold g in Pg. apply N.div_lt_upper_bound; [lia|]. lia. }
  split; [exact Hga|]. split; [reflexivity|]. split; [reflexivity|]. split; [exact T|].
  intros nd rt Hin. fold size in Hin.
  rewrite (Hsl nd (top_path_pnode size bs Hsize Hbs (c / g) nd rt Hin)).
  rewrite (Hpa c Hc Hd nd rt Hin). reflexivity.
Qed.

(* ---- from the all-zero initial state ---- *)
Lemma init_slot_zero k : hist_kind k ->
  forall nd, pnode size bs nd -> stored_pair HO (init_ob HO data bs k) nd = Some (zero_pair HO).
Proof.
  intros Hk nd Hn. pose proof (init_sized HO data bs Hsize Hbs k Hk) as Hs.
  destruct (pnode_offset HO size bs Hsize Hbs (init_ob HO data bs k) nd Hs Hn) as (o & Ho & Hlt).
  unfold stored_pair. rewrite (proj1 (sized_load HO size bs Hsize Hbs (init_ob HO data bs k) nd o Hs Ho Hlt)).
  cbn [init_ob ob_data]. unfold slice, take, drop, zero_pair, zero_hash. fold size. fold B in Hlt. fold B.
  rewrite zeros_slice by lia. replace (N.to_nat 64) with (32 + 32)%nat by reflexivity.
  unfold zeros. rewrite repeat_app. rewrite parse_combine by apply repeat_length. reflexivity.
Qed.

(* no pair of the blob is the zero pair *)
Definition pairs_nondegenerate : Prop := forall nd, pnode size bs nd -> true_pair HO data nd <> zero_pair HO.

Theorem obval_exact_zero k D P t ob q : hist_kind k ->
  InvR HO data bs (init_target HO data) (init_ob HO data bs k) D P (t, ob) ->
  pairs_nondegenerate -> 2 <= B -> wf_ranges q = true ->
  valid_outboard_ranges HO ob q =
  (flat_map (fun ga => if touchedb q size bs ga && forallb P (map fst (top_path size bs ga))
                       then [(grp_start bs ga, grp_end size bs ga)] else [])
            (chunk_range_list 0 B), Ok tt) /\
  valid_outboard_ranges_fsm HO ob q = valid_outboard_ranges HO ob q /\
  (forall c, c < nc -> D c = true -> forallb P (map fst (top_path size bs (c / g))) = true).
Proof.
  intros Hk I Hnd HB Hwf. pose proof (ir_sized _ _ _ _ _ _ _ _ I) as Hs. pose proof (ir_root _ _ _ _ _ _ _ _ I) as Hr.
  pose proof (ir_slots _ _ _ _ _ _ _ _ I) as Hsl. pose proof (ir_paths _ _ _ _ _ _ _ _ I) as Hpa.
  cbn [snd] in Hs, Hr, Hsl.
  pose proof (init_slot_zero k Hk) as Hzero.
  split; [|split; [exact (sized_fsm_eq ob q Hs)|]].
  - rewrite (outboard_exact_groups HO size bs q ob Hsize Hbs Hwf (os_tree HO ob _ _ Hs) (sized_loads_ok ob Hs) HB).
    fold B. f_equal. apply flat_map_ext_in. intros ga Hga. apply crl_in in Hga.
    assert (Ev : grp_verdict HO false ob [] size bs ga = forallb P (map fst (top_path size bs ga))).
    { destruct (forallb P (map fst (top_path size bs ga))) eqn:Ef.
      - apply (ob_verdict_path ob ga Hs Hr HB ltac:(lia)). intros nd rt Hin. fold size in Hin.
        rewrite (Hsl nd (top_path_pnode size bs Hsize Hbs ga nd rt Hin)).
        rewrite forallb_forall in Ef. rewrite (Ef nd (in_map fst _ _ Hin)). reflexivity.
      - destruct (grp_verdict HO false ob [] size bs ga) eqn:Ev; [exfalso|reflexivity].
        apply (ob_verdict_path ob ga Hs Hr HB ltac:(lia)) in Ev.
        apply forallb_false_ex in Ef. destruct Ef as (nd & Hin & HP). apply in_map_iff in Hin.
        destruct Hin as ([nd' rt] & E1 & Hin). cbn [fst] in E1. subst nd'.
        pose proof (top_path_pnode size bs Hsize Hbs ga nd rt Hin) as Hpn.
        pose proof (Ev nd rt Hin) as Et. rewrite (Hsl nd Hpn), HP, (Hzero nd Hpn) in Et.
        exact (Hnd nd Hpn (eq_sym (EncMain.Some_inj _ _ Et))). }
    rewrite Ev. reflexivity.
  - intros c Hc Hd. apply forallb_forall. intros nd Hin. apply in_map_iff in Hin.
    destruct Hin as ([nd' rt] & E1 & Hin). cbn [fst] in E1. subst nd'.
    exact (Hpa c Hc Hd nd rt Hin).
Qed.

End ObVal.

(* ---------- closed forms used by Props/C07.v ---------- *)
Theorem gaph_obval_reported : forall (HO : hops), hash_ok HO ->
  forall (data : bytes HO) (bs : N), blen HO data <= 2 ^ 63 -> bs <= 10 ->
  forall (t0 : bytes HO) (ob0 : outboard HO) (D P : N -> bool) (t : bytes HO) (ob : outboard HO) (q : ranges),
  InvR HO data bs t0 ob0 D P (t, ob) -> 2 <= sp_blocks (blen HO data) bs -> wf_ranges q = true ->
  valid_outboard_ranges_fsm HO ob q = valid_outboard_ranges HO ob q /\
  snd (valid_outboard_ranges HO ob q) = Ok tt /\
  (forall a e, In (a, e) (fst (valid_outboard_ranges HO ob q)) <->
     exists ga, ga < sp_blocks (blen HO data) bs /\ a = grp_start bs ga /\ e = grp_end (blen HO data) bs ga /\
                touched q (blen HO data) bs ga /\ path_true HO data bs ob ga) /\
  (forall c, c < nchunks (blen HO data) -> D c = true -> touched q (blen HO data) bs (c / 2 ^ bs) ->
     In (grp_start bs (c / 2 ^ bs), grp_end (blen HO data) bs (c / 2 ^ bs)) (fst (valid_outboard_ranges HO ob q))).
Proof. intros HO HOK data bs Hs Hb. exact (obval_reported_iff HO HOK data bs Hs Hb). Qed.

Theorem gaph_pairs_nondegenerate_def : forall (HO : hops) (data : bytes HO) (bs : N),
  pairs_nondegenerate HO data bs <->
  (forall nd, pnode (blen HO data) bs nd -> true_pair HO data nd <> zero_pair HO).
Proof. intros. reflexivity. Qed.

Theorem gaph_obval_exact_zero : forall (HO : hops), hash_ok HO ->
  forall (data : bytes HO) (bs : N), blen HO data <= 2 ^ 63 -> bs <= 10 ->
  forall k (D P : N -> bool) (t : bytes HO) (ob : outboard HO) (q : ranges), hist_kind k ->
  InvR HO data bs (init_target HO data) (init_ob HO data bs k) D P (t, ob) ->
  pairs_nondegenerate HO data bs -> 2 <= sp_blocks (blen HO data) bs -> wf_ranges q = true ->
  valid_outboard_ranges HO ob q =
  (flat_map (fun ga => if touchedb q (blen HO data) bs ga && forallb P (map fst (top_path (blen HO data) bs ga))
                       then [(grp_start bs ga, grp_end (blen HO data) bs ga)] else [])
            (chunk_range_list 0 (sp_blocks (blen HO data) bs)), Ok tt) /\
  valid_outboard_ranges_fsm HO ob q = valid_outboard_ranges HO ob q /\
  (forall c, c < nchunks (blen HO data) -> D c = true ->
     forallb P (map fst (top_path (blen HO data) bs (c / 2 ^ bs))) = true).
Proof. intros HO HOK data bs Hs Hb. exact (obval_exact_zero HO HOK data bs Hs Hb). Qed.

(* non-vacuity: over the term-algebra hash no chaining value is all zeros, so every blob has non-degenerate pairs;
   a blob of three chunks at block size 0 (two stored pairs) in the initial state *)
Lemma cv_rec_step (HO : hops) f (data : bytes HO) a b r :
  cv_rec HO (S f) data a b r =
  if b - a <=? 1 then chunk_cv HO a (chunk_bytes HO data a b) r
  else parent_cv HO (cv_rec HO f data a (a + next_pow2 (b - a) / 2) false)
                    (cv_rec HO f data (a + next_pow2 (b - a) / 2) b false) r.
Proof. reflexivity. Qed.

Lemma term_cv_not_zero (data : bytes DecWitness.term_hops) a b r :
  cv DecWitness.term_hops data a b r <> zero_hash DecWitness.term_hops.
Proof.
  unfold cv. change 64%nat with (S 63). rewrite cv_rec_step.
  destruct (b - a <=? 1).
  - generalize (chunk_bytes DecWitness.term_hops data a b). intros d H. discriminate H.
  - generalize (cv_rec DecWitness.term_hops 63 data a (a + next_pow2 (b - a) / 2) false)
               (cv_rec DecWitness.term_hops 63 data (a + next_pow2 (b - a) / 2) b false).
    intros x y H. discriminate H.
Qed.

Lemma true_pair_fst (HO : hops) (data : bytes HO) nd :
  fst (true_pair HO data nd) = cv HO data (sp_chunk_start nd) (nd + 1) false.
Proof. reflexivity. Qed.

Theorem gaph_obval_nonvacuous :
  exists (HO : hops) (data : bytes HO) (bs : N) (k : ob_kind) (q : ranges),
    hash_ok HO /\ blen HO data <= 2 ^ 63 /\ bs <= 10 /\ hist_kind k /\
    InvR HO data bs (init_target HO data) (init_ob HO data bs k) (fun _ => false) (fun _ => false)
         (init_target HO data, init_ob HO data bs k) /\
    pairs_nondegenerate HO data bs /\ sp_blocks (blen HO data) bs = 3 /\ wf_ranges q = true.
Proof.
  exists DecWitness.term_hops, (repeat DecWitness.TZ 3000), 0, PreIO, [0].
  assert (Hs : blen DecWitness.term_hops (repeat DecWitness.TZ 3000) <= 2 ^ 63).
  { unfold blen. rewrite repeat_length. cbn. lia. }
  assert (Hk : hist_kind PreIO) by now left.
  split; [exact DecWitness.term_hops_ok|]. split; [exact Hs|]. split; [lia|]. split; [exact Hk|]. split.
  - apply InvR_init.
    + unfold init_target, zeros. apply repeat_length.
    + exact (init_sized DecWitness.term_hops _ 0 Hs ltac:(lia) PreIO Hk).
    + reflexivity.
  - split; [|split; [unfold blen; rewrite repeat_length; reflexivity|reflexivity]].
    intros nd _ E. apply (term_cv_not_zero (repeat DecWitness.TZ 3000) (sp_chunk_start nd) (nd + 1) false).
    rewrite <- true_pair_fst, E. reflexivity.
Qed.
