(* Semantics of the query summaries q_any / q_full of Spec/PlanSpec.v over a sorted boundary list. *)
From BaoV Require Import Model.Iter Spec.PlanSpec Proofs.RangeBase Proofs.RangeTrunc Proofs.RangeUnion.
From Coq Require Import Lia Arith PeanoNat ZArith ZifyN ZifyNat ZifyBool.
Open Scope N_scope.

(* c lies in the chunk interval seen by a node: [a, e), or [a, infinity) on the right spine *)
Definition inrng (a e : N) (rm : bool) (c : N) : Prop := a <= c /\ (rm = true \/ c < e).

Lemma inrng_start a e rm : a < e -> inrng a e rm a.
Proof. intro H. split; [lia|right; assumption]. Qed.

Lemma Forall_in {A} (P : A -> Prop) l x : Forall P l -> In x l -> P x.
Proof. intros H Hx. rewrite Forall_forall in H. auto. Qed.

(* no boundary in (x, y]: same count *)
Lemma cnt_no_bnd q x y : x <= y -> (forall b, In b q -> x < b -> b <= y -> False) -> cnt q x = cnt q y.
Proof.
  intros Hxy. induction q as [|b t IH]; intro H; cbn [cnt]; [reflexivity|].
  destruct (N.leb_spec b x) as [L|L].
  - assert (E : (b <=? y) = true) by (apply N.leb_le; lia). rewrite E. f_equal. apply IH.
    intros b' Hb'. apply H. now right.
  - destruct (N.leb_spec b y) as [L'|L']; [|reflexivity]. exfalso. apply (H b); [now left|lia|lia].
Qed.

Lemma mem_no_bnd q x y : x <= y -> (forall b, In b q -> x < b -> b <= y -> False) -> mem q y = mem q x.
Proof. intros. rewrite !mem_cnt. f_equal. symmetry. now apply cnt_no_bnd. Qed.

(* after a there is a boundary b: the first boundary c in (a, b] flips membership *)
Lemma first_flip q : ssorted q -> forall a b, In b q -> a < b ->
  exists c, a < c /\ c <= b /\ In c q /\ mem q c = negb (mem q a).
Proof.
  induction q as [|x t IH]; intros Hs a b Hb Hab; [destruct Hb|].
  pose proof (ss_head_lt _ _ Hs) as Hgt. pose proof (ss_tail _ _ Hs) as Hst.
  destruct (N.leb_spec x a) as [L|L].
  - destruct Hb as [->|Hb]; [lia|].
    destruct (IH Hst a b Hb Hab) as (c & C1 & C2 & C3 & C4).
    exists c. split; [assumption|]. split; [assumption|]. split; [now right|].
    cbn [mem]. assert (E1 : (x <=? c) = true) by (apply N.leb_le; lia).
    assert (E2 : (x <=? a) = true) by (apply N.leb_le; lia). rewrite E1, E2, C4. reflexivity.
  - exists x. split; [assumption|]. split.
    + destruct Hb as [->|Hb]; [lia|]. pose proof (Forall_in _ _ _ Hgt Hb). cbn in H. lia.
    + split; [now left|]. cbn [mem]. rewrite N.leb_refl.
      assert (E2 : (x <=? a) = false) by (apply N.leb_gt; lia). rewrite E2.
      rewrite mem_all_gt by assumption. reflexivity.
Qed.

Lemma filter_nil_iff {A} (f : A -> bool) l : filter f l = [] <-> forall x, In x l -> f x = false.
Proof.
  split.
  - intros H x Hx. destruct (f x) eqn:E; [|reflexivity].
    assert (In x (filter f l)) by (apply filter_In; now split). rewrite H in H0. destruct H0.
  - intro H. induction l as [|a l IH]; [reflexivity|]. cbn [filter]. rewrite (H a) by now left.
    apply IH. intros x Hx. apply H. now right.
Qed.

Lemma r_is_empty_filter (f : N -> bool) q :
  r_is_empty (filter f q) = true <-> forall x, In x q -> f x = false.
Proof.
  rewrite <- filter_nil_iff. unfold r_is_empty. destruct (filter f q); split; intro H; congruence.
Qed.

Lemma r_is_empty_filter_false (f : N -> bool) q :
  r_is_empty (filter f q) = false <-> exists x, In x q /\ f x = true.
Proof.
  unfold r_is_empty. destruct (filter f q) as [|b t] eqn:E; split; intro H; try congruence.
  - destruct H as (x & H1 & H2). rewrite filter_nil_iff in E. rewrite E in H2 by assumption. discriminate.
  - exists b. apply filter_In. rewrite E. now left.
Qed.

Lemma cnt_ge_last q c : ssorted q -> last q 0 <= c -> cnt q c = length q.
Proof.
  intros Hs Hc. pose proof (last_gt_cnt q c Hs) as H.
  assert (E : (c <? last q 0) = false) by (apply N.ltb_ge; lia). rewrite E in H.
  pose proof (cnt_le_length q c). symmetry in H. apply Nat.ltb_ge in H. lia.
Qed.

Lemma last_in (q : list N) d : q <> [] -> In (last q d) q.
Proof.
  induction q as [|x t IH]; [congruence|]. intros _. destruct t as [|y t']; [now left|].
  right. apply IH. congruence.
Qed.

(* ---- reaches ---- *)
Lemma reaches_spec q a : ssorted q -> (reaches q a = true <-> exists c, a <= c /\ mem q c = true).
Proof.
  intro Hs. rewrite reaches_cnt by assumption. split.
  - intro H. apply orb_true_iff in H. destruct H as [H|H].
    + exists (N.max a (last q 0)). split; [lia|]. rewrite mem_cnt, cnt_ge_last by (assumption || lia). exact H.
    + apply Nat.ltb_lt in H. destruct (mem q a) eqn:Ea; [exists a; split; [lia|assumption]|].
      assert (Hne : q <> []) by (intros ->; cbn in H; lia).
      assert (Hl : a < last q 0).
      { destruct (N.lt_ge_cases a (last q 0)) as [|G]; [assumption|].
        rewrite (cnt_ge_last q a Hs G) in H. lia. }
      destruct (first_flip q Hs a (last q 0) (last_in q 0 Hne) Hl) as (c & C1 & C2 & C3 & C4).
      exists c. split; [lia|]. now rewrite C4, Ea.
  - intros (c & Hc & Hm). destruct (Nat.odd (length q)) eqn:Eo; [reflexivity|]. cbn [orb].
    apply Nat.ltb_lt. rewrite mem_cnt in Hm. pose proof (cnt_mono q a c Hc). pose proof (cnt_le_length q c).
    assert (cnt q c <> length q) by (intro E; rewrite E in Hm; congruence). lia.
Qed.

Lemma reaches_mono q a b : ssorted q -> a <= b -> reaches q b = true -> reaches q a = true.
Proof.
  intros Hs Hab H. apply reaches_spec in H; [|assumption]. apply reaches_spec; [assumption|].
  destruct H as (c & Hc & Hm). exists c. split; [lia|assumption].
Qed.

(* ---- q_any ---- *)
Lemma q_any_spec q a e rm : ssorted q -> a < e ->
  (q_any q a e rm = true <-> exists c, inrng a e rm c /\ mem q c = true).
Proof.
  intros Hs Hae. unfold q_any, inrng. destruct rm.
  - rewrite reaches_spec by assumption. split; intros (c & H1 & H2); exists c.
    + split; [split; [assumption|now left]|assumption].
    + split; [apply H1|assumption].
  - rewrite orb_true_iff, negb_true_iff, r_is_empty_filter_false. split.
    + intros [(b & Hb & Hf)|Hm].
      * apply andb_true_iff in Hf. destruct Hf as [F1 F2]. apply N.ltb_lt in F1. apply N.ltb_lt in F2.
        destruct (mem q a) eqn:Ea; [exists a; split; [split; [lia|now right]|assumption]|].
        destruct (first_flip q Hs a b Hb F1) as (c & C1 & C2 & C3 & C4).
        exists c. split; [split; [lia|right; lia]|]. now rewrite C4, Ea.
      * exists a. split; [split; [lia|now right]|assumption].
    + intros (c & [H1 [H2|H2]] & Hm); [discriminate|].
      destruct (mem q a) eqn:Ea; [now right|left].
      destruct (r_is_empty (filter (fun b => (a <? b) && (b <? e)) q)) eqn:Ef.
      * exfalso. rewrite r_is_empty_filter in Ef.
        rewrite (mem_no_bnd q a c H1) in Hm; [congruence|].
        intros b Hb B1 B2. specialize (Ef b Hb). apply andb_false_iff in Ef.
        destruct Ef as [Ef|Ef]; [apply N.ltb_ge in Ef|apply N.ltb_ge in Ef]; lia.
      * now apply r_is_empty_filter_false.
Qed.

Lemma q_any_false q a e rm : ssorted q -> a < e ->
  (q_any q a e rm = false <-> forall c, inrng a e rm c -> mem q c = false).
Proof.
  intros Hs Hae. split.
  - intros H c Hc. destruct (mem q c) eqn:E; [|reflexivity].
    assert (q_any q a e rm = true) by (apply q_any_spec; [assumption|assumption|exists c; now split]). congruence.
  - intro H. destruct (q_any q a e rm) eqn:E; [|reflexivity].
    apply q_any_spec in E; [|assumption|assumption]. destruct E as (c & Hc & Hm). rewrite H in Hm by assumption. discriminate.
Qed.

(* ---- q_full ---- *)
Lemma q_full_spec q a e rm : ssorted q -> a < e ->
  (q_full q a e rm = true <-> forall c, inrng a e rm c -> mem q c = true).
Proof.
  intros Hs Hae. unfold q_full.
  set (f := fun b => if rm then a <? b else (a <? b) && (b <? e)).
  assert (Ef : (if rm then r_is_empty (filter (fun b => a <? b) q)
                else r_is_empty (filter (fun b => (a <? b) && (b <? e)) q)) = r_is_empty (filter f q)).
  { unfold f. destruct rm; reflexivity. }
  rewrite Ef. clear Ef. rewrite andb_true_iff, r_is_empty_filter.
  assert (Hf : forall b, f b = true <-> a < b /\ (rm = true \/ b < e)).
  { intro b. unfold f. destruct rm.
    - rewrite N.ltb_lt. split; [intro; split; [assumption|now left]|intros [? _]; assumption].
    - rewrite andb_true_iff, !N.ltb_lt. split; [intros [? ?]; split; [assumption|now right]|].
      intros [? [?|?]]; [discriminate|now split]. }
  split.
  - intros [Hm Hn] c [C1 C2]. rewrite (mem_no_bnd q a c C1); [assumption|].
    intros b Hb B1 B2. specialize (Hn b Hb).
    assert (f b = true); [|congruence]. apply Hf. split; [assumption|]. destruct C2 as [C2|C2]; [now left|right; lia].
  - intro H. split; [apply H; now apply inrng_start|].
    intros b Hb. destruct (f b) eqn:E; [exfalso|reflexivity]. apply Hf in E. destruct E as [E1 E2].
    destruct (first_flip q Hs a b Hb E1) as (c & C1 & C2 & C3 & C4).
    rewrite (H a (inrng_start a e rm Hae)) in C4. cbn [negb] in C4.
    rewrite H in C4; [discriminate|]. split; [lia|]. destruct E2 as [E2|E2]; [now left|right; lia].
Qed.

(* nonempty sorted query reaches 0 *)
Lemma reaches_zero q : ssorted q -> q <> [] -> reaches q 0 = true.
Proof.
  intros Hs Hne. apply reaches_spec; [assumption|].
  destruct q as [|x t]; [congruence|]. exists x. split; [lia|].
  cbn [mem]. rewrite N.leb_refl. rewrite mem_all_gt; [reflexivity|]. now apply ss_head_lt.
Qed.
