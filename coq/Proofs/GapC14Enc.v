(* Gap audit C14, encoders: two queries selecting the same chunks give identical results
   - for the non-validating encoders (sync / fsm) on EVERY store and data file,
   - for the validating encoders (sync / fsm) and traverse_ranges_validated on every store that carries the
     tree and the root of a blob (pairs and data file arbitrary: partial, corrupted, failing), under hash_ok. *)
From BaoV Require Import Model.Fsm Spec.RangeSpec Spec.NodeSpec Spec.PlanSpec Spec.PlanWf Spec.EncSpec Spec.HashAssm.
From BaoV Require Import Proofs.NodeLevel Proofs.NodeBits Proofs.NodeAlgebra Proofs.RangeBase Proofs.RangeTrunc Proofs.PlanBase Proofs.PlanQuery Proofs.PlanPreCover Proofs.PlanProps.
From BaoV Require Import Proofs.EncPlan Proofs.EncLoop Proofs.EncMain Proofs.EncTop Proofs.EncThm.
From Coq Require Import Lia Arith PeanoNat ZArith.
Open Scope N_scope.
Arguments N.add : simpl never.
Arguments N.sub : simpl never.
Arguments N.mul : simpl never.
Arguments N.pow : simpl never.
Arguments N.div : simpl never.
Arguments N.modulo : simpl never.
Arguments N.log2 : simpl never.
Arguments N.min : simpl never.
Arguments N.max : simpl never.
Ltac Zify.zify_post_hook ::= Z.to_euclidean_division_equations.

(* ------------------------------------------------------------------------------------------- *)
(* 1. with min level 0 the chunk plan of a RAW (not canonicalised) query is a function of the selection *)
(* ------------------------------------------------------------------------------------------- *)
Section Plan0.
Variables (size bs : N) (q1 q2 : ranges).
Hypothesis S1 : ssorted q1.
Hypothesis S2 : ssorted q2.
Hypothesis Hsel : forall c, sel q1 size c = sel q2 size c.

Lemma any_half qa qb a e (rm : bool) : ssorted qa -> ssorted qb -> (forall c, sel qa size c = sel qb size c) ->
  a < e -> a < nchunks size -> (if rm return Prop then nchunks size <= e else e < nchunks size) ->
  q_any qa a e rm = true -> q_any qb a e rm = true.
Proof.
  intros Sa Sb Hab Hae Ha Hrm Hq.
  destruct (any_sel qa size a e rm Sa Hae Ha ltac:(destruct rm; lia) Hq) as (c & Hc & Hs).
  rewrite Hab in Hs. apply (sel_any qb size a e rm c Sb Hae); [intros ->; exact Hrm| |exact Hs].
  split; [lia|]. destruct rm; [now left|right; lia].
Qed.

Lemma any_sel_ext a e (rm : bool) : a < e -> a < nchunks size ->
  (if rm return Prop then nchunks size <= e else e < nchunks size) ->
  q_any q1 a e rm = q_any q2 a e rm.
Proof.
  intros Hae Ha Hrm. apply b2. split; apply any_half; auto.
Qed.

Lemma plan0_sel_ext : forall f ga n ir rm,
  node_ok size bs ga n rm -> (rm = false -> ga + n < sp_blocks size bs) ->
  pre_plan_rec f size bs 0 q1 ga n ir rm = pre_plan_rec f size bs 0 q2 ga n ir rm.
Proof.
  induction f as [|f IH]; intros ga n ir rm Hok Hrm; [reflexivity|].
  rewrite !pre_plan_rec_eq. cbv zeta.
  destruct (node_geom size bs ga n rm Hok Hrm) as (G1 & G2 & G3).
  assert (L0 : (N.log2 (capof n * 2 ^ bs) - 1 <? 0) = false) by (apply N.ltb_ge; lia).
  rewrite L0, !andb_false_r.
  rewrite (any_sel_ext _ _ rm G1 G2 G3).
  destruct (q_any q2 (ga * 2 ^ bs) ((ga + capof n) * 2 ^ bs) rm); cbn [negb]; [|reflexivity].
  pose proof (nk_pos _ _ _ _ _ Hok) as Hn. pose proof (pow2_pos bs) as Hg.
  rewrite (capof_eq2 n Hn). destruct (N.leb_spec n 2) as [L|L].
  - destruct (N.leb_spec size ((ga + 1) * 2 ^ bs * 1024)) as [L'|L']; [reflexivity|].
    rewrite (capof_small n L) in *.
    assert (Hm : (ga + 1) * 2 ^ bs < nchunks size) by (apply nchunks_spec; right; exact L').
    rewrite (any_sel_ext (ga * 2 ^ bs) ((ga + 1) * 2 ^ bs) false ltac:(nia) G2 Hm).
    rewrite (any_sel_ext ((ga + 1) * 2 ^ bs) ((ga + 2) * 2 ^ bs) rm ltac:(nia) Hm G3).
    reflexivity.
  - assert (Hn3 : 3 <= n) by lia.
    destruct (capof_inner n Hn3) as (k & E & Eh & L1 & L2 & C1 & C2).
    pose proof (node_ok_left size bs ga n rm Hok Hn3) as Hokl.
    pose proof (node_ok_right size bs ga n rm Hok Hn3) as Hokr.
    assert (Hin : ga + capof n / 2 < sp_blocks size bs) by (destruct Hok as [_ _ I _]; lia).
    assert (Hm : (ga + capof n / 2) * 2 ^ bs < nchunks size) by (apply PlanBase.group_inside; exact Hin).
    pose proof (pow2_pos (k + 1)) as Hk.
    assert (X1 : ga * 2 ^ bs < (ga + capof n / 2) * 2 ^ bs) by (rewrite Eh; apply N.mul_lt_mono_pos_r; lia).
    assert (X2 : (ga + capof n / 2) * 2 ^ bs < (ga + capof n) * 2 ^ bs).
    { rewrite Eh, E. replace (k + 2) with (k + 1 + 1) by lia. rewrite (pow2_succ (k + 1)). apply N.mul_lt_mono_pos_r; lia. }
    rewrite (any_sel_ext (ga * 2 ^ bs) ((ga + capof n / 2) * 2 ^ bs) false X1 G2 Hm).
    rewrite (any_sel_ext ((ga + capof n / 2) * 2 ^ bs) ((ga + capof n) * 2 ^ bs) rm X2 Hm G3).
    rewrite (IH ga (capof n / 2) false false Hokl ltac:(intros _; lia)).
    rewrite (IH (ga + capof n / 2) (n - capof n / 2) false rm Hokr ltac:(intro Er; specialize (Hrm Er); lia)).
    reflexivity.
Qed.
End Plan0.

Theorem pre_plan0_of_selection : forall size bs q1 q2, wf_ranges q1 = true -> wf_ranges q2 = true ->
  (forall c, sel q1 size c = sel q2 size c) -> pre_plan size bs 0 q1 = pre_plan size bs 0 q2.
Proof.
  intros size bs q1 q2 W1 W2 Hsel. apply wf_iff in W1. apply wf_iff in W2.
  unfold pre_plan. apply plan0_sel_ext; [apply W1|apply W2|assumption|apply node_ok_root|discriminate].
Qed.

(* the stack machine, ranges dropped *)
Theorem chunk_iter0_of_selection : forall size bs q1 q2, size <= 2 ^ 63 -> bs <= 10 ->
  wf_ranges q1 = true -> wf_ranges q2 = true -> (forall c, sel q1 size c = sel q2 size c) ->
  map without_ranges (pre_order_chunks_iter (mkTree size bs) q1 0) = map without_ranges (pre_order_chunks_iter (mkTree size bs) q2 0).
Proof.
  intros size bs q1 q2 Hs Hb W1 W2 Hsel.
  rewrite (c15_pre_plan size bs 0 q1 Hs Hb W1), (c15_pre_plan size bs 0 q2 Hs Hb W2).
  now apply pre_plan0_of_selection.
Qed.

(* ------------------------------------------------------------------------------------------- *)
(* 2. the non-validating encoders: any store, any data file                                      *)
(* ------------------------------------------------------------------------------------------- *)
Section Nonval.
Variable HO : hops.

Lemma nloop_without (load : loader HO) (data : bytes HO) : forall items,
  nloop HO load (map without_ranges items) data = nloop HO load items data.
Proof.
  induction items as [|c rest IH]; [reflexivity|].
  destruct c as [node ir lf rt rs|start sz ir rs]; cbn [map without_ranges nloop]; now rewrite IH.
Qed.

Theorem encode_ranges_of_selection : forall (data : bytes HO) (ob : outboard HO) (q1 q2 : ranges),
  tsize (ob_tree ob) <= 2 ^ 63 -> tbs (ob_tree ob) <= 10 -> wf_ranges q1 = true -> wf_ranges q2 = true ->
  (forall c, sel q1 (tsize (ob_tree ob)) c = sel q2 (tsize (ob_tree ob)) c) ->
  encode_ranges HO data ob q1 = encode_ranges HO data ob q2 /\
  encode_ranges_fsm HO data ob q1 = encode_ranges_fsm HO data ob q2.
Proof.
  intros data ob q1 q2 Hs Hb W1 W2 Hsel. rewrite !er_nloop, !er_fsm_nloop.
  destruct (ob_tree ob) as [size bs]. cbn [tsize tbs] in *.
  pose proof (chunk_iter0_of_selection size bs q1 q2 Hs Hb W1 W2 Hsel) as E.
  split.
  - rewrite <- (nloop_without (load_sync HO ob) data (pre_order_chunks_iter (mkTree size bs) q1 0)), E. apply nloop_without.
  - rewrite <- (nloop_without (load_fsm HO ob) data (pre_order_chunks_iter (mkTree size bs) q1 0)), E. apply nloop_without.
Qed.
End Nonval.

(* ------------------------------------------------------------------------------------------- *)
(* 3. the validating encoders: any pairs, any data file, on a store carrying a blob's tree and root *)
(* ------------------------------------------------------------------------------------------- *)
Lemma sel_nonempty q size : wf_ranges q = true -> q <> [] -> exists c, sel q size c = true.
Proof.
  intros Hwf Hne. apply wf_iff in Hwf. destruct Hwf as [Hs _]. pose proof (nchunks_pos size) as Hn.
  destruct (any_sel q size 0 (nchunks size) true Hs ltac:(lia) ltac:(lia) (N.le_refl _)) as (c & _ & Hc).
  - unfold q_any. now apply reaches_zero.
  - now exists c.
Qed.

Lemma sel_empty_iff q1 q2 size : wf_ranges q1 = true -> wf_ranges q2 = true ->
  (forall c, sel q1 size c = sel q2 size c) -> (q1 = [] <-> q2 = []).
Proof.
  intros W1 W2 Hsel. split; intros ->.
  - destruct q2 as [|x t]; [reflexivity|exfalso].
    destruct (sel_nonempty (x :: t) size W2 ltac:(discriminate)) as (c & Hc). rewrite <- Hsel, sel_nil in Hc. discriminate.
  - destruct q1 as [|x t]; [reflexivity|exfalso].
    destruct (sel_nonempty (x :: t) size W1 ltac:(discriminate)) as (c & Hc). rewrite Hsel, sel_nil in Hc. discriminate.
Qed.

Section ValEnc.
Variable HO : hops.
Hypothesis HOK : hash_ok HO.
Variable data : bytes HO.
Variable bs : N.
Variables q1 q2 : ranges.
Hypothesis W1 : wf_ranges q1 = true.
Hypothesis W2 : wf_ranges q2 = true.
Hypothesis Hsize : blen HO data <= 2 ^ 63.
Hypothesis Hbs : bs <= 10.
Hypothesis Hsel : forall c, sel q1 (blen HO data) c = sel q2 (blen HO data) c.
Local Notation size := (blen HO data).

Section Scan.
Variable load : loader HO.
Variable data' : bytes HO.

Lemma ENC_ext (S1 S2 : N -> bool) a b : (forall c, S1 c = S2 c) -> EncRec.ENC HO data bs S1 a b = EncRec.ENC HO data bs S2 a b.
Proof. intro H. unfold EncRec.ENC. apply BridgePlan.enc_rec_ext. exact H. Qed.
Lemma hbL_ext s : hbL HO data bs q1 s = hbL HO data bs q2 s.
Proof. unfold hbL. rewrite (ENC_ext _ _ s (gE HO data bs s) Hsel). reflexivity. Qed.
Lemma hb_parent q nd ir lf rt rs : hb HO data bs q (CParent nd ir lf rt rs) = hbP HO data nd.
Proof. reflexivity. Qed.
Lemma hb_leaf q s sz ir rs : hb HO data bs q (CLeaf s sz ir rs) = hbL HO data bs q s.
Proof. reflexivity. Qed.

Lemma hb_ext c : hb HO data bs q1 c = hb HO data bs q2 c.
Proof.
  destruct c as [nd ir lf rt rs|s sz ir rs].
  - rewrite !hb_parent. reflexivity.
  - rewrite !hb_leaf. exact (hbL_ext s).
Qed.

Lemma hb_wr q c : hb HO data bs q (without_ranges c) = hb HO data bs q c.
Proof.
  destruct c as [nd ir lf rt rs|s sz ir rs]; cbn [without_ranges].
  - rewrite !hb_parent. reflexivity.
  - rewrite !hb_leaf. reflexivity.
Qed.

Lemma unit_ok_wr c : unit_ok HO data bs load data' c -> unit_ok HO data bs load data' (without_ranges c).
Proof. destruct c; cbn [without_ranges unit_ok]; auto. Qed.

Lemma unit_fail_wr c e : unit_fail HO data bs load data' c e -> unit_fail HO data bs load data' (without_ranges c) e.
Proof.
  intro H.
  destruct H as [nd ir lf rt rs p H1 H2|nd ir lf rt rs H1|nd ir lf rt rs k H1|nd ir lf rt rs H1
                |s sz ir rs buf H1 H2|s sz ir rs k H1|s sz ir rs H1]; cbn [without_ranges];
    [eapply uf_pair; eassumption|now apply uf_none|now apply uf_lerr|now apply uf_lpanic
    |eapply uf_leaf; eassumption|now apply uf_rerr|now apply uf_rpanic].
Qed.

Lemma srun_transfer P ro : srun HO data bs q1 load data' P ro -> srun HO data bs q2 load data' (map without_ranges P) ro.
Proof.
  induction 1 as [|c rest r o Hok _ IH|c rest e Hf]; cbn [map].
  - constructor.
  - rewrite hb_ext, <- (hb_wr q2 c). constructor; [now apply unit_ok_wr|exact IH].
  - constructor. now apply unit_fail_wr.
Qed.

Lemma srun_wr P ro : srun HO data bs q2 load data' P ro -> srun HO data bs q2 load data' (map without_ranges P) ro.
Proof.
  induction 1 as [|c rest r o Hok _ IH|c rest e Hf]; cbn [map].
  - constructor.
  - rewrite <- (hb_wr q2 c). constructor; [now apply unit_ok_wr|exact IH].
  - constructor. now apply unit_fail_wr.
Qed.

Lemma unit_fail_det c e1 e2 : unit_fail HO data bs load data' c e1 -> unit_fail HO data bs load data' c e2 -> e1 = e2.
Proof. intros H1 H2. destruct H1; inversion H2; subst; try reflexivity; congruence. Qed.

Lemma srun_det q P : forall ro1 ro2, srun HO data bs q load data' P ro1 -> srun HO data bs q load data' P ro2 -> ro1 = ro2.
Proof.
  induction P as [|c rest IH]; intros ro1 ro2 H1 H2.
  - inversion H1; inversion H2; reflexivity.
  - inversion H1 as [|? ? r1 o1 Hok1 Hr1|? ? e1 Hf1]; subst; inversion H2 as [|? ? r2 o2 Hok2 Hr2|? ? e2 Hf2]; subst.
    + pose proof (IH _ _ Hr1 Hr2) as E. apply pair_inj in E. destruct E as [-> ->]. reflexivity.
    + exfalso. eapply unit_fail_not_ok; eauto.
    + exfalso. eapply unit_fail_not_ok; eauto.
    + now rewrite (unit_fail_det _ _ _ Hf1 Hf2).
Qed.
End Scan.

Lemma plans_agree :
  map without_ranges (rplan size bs (truncate_ranges q1 size)) = map without_ranges (rplan size bs (truncate_ranges q2 size)).
Proof.
  rewrite <- !(rplan_refines size bs _ Hsize Hbs).
  apply chunk_iter0_of_selection; try assumption; try (now apply truncate_wf).
  intro c. rewrite !truncate_sel by assumption. apply Hsel.
Qed.

Lemma bloop_of_selection (load : loader HO) (data' : bytes HO) :
  (forall nd l r, load nd = Ok (Some (l, r)) -> length l = 32%nat /\ length r = 32%nat) ->
  q1 <> [] -> q2 <> [] ->
  bloop HO load (rplan size bs (truncate_ranges q1 size)) [root_hash HO data] bs data' =
  bloop HO load (rplan size bs (truncate_ranges q2 size)) [root_hash HO data] bs data'.
Proof.
  intros Hlen N1 N2.
  pose proof (bloop_srun HO data bs q1 W1 Hsize Hbs load data' HOK Hlen N1) as R1.
  pose proof (bloop_srun HO data bs q2 W2 Hsize Hbs load data' HOK Hlen N2) as R2.
  apply srun_transfer in R1. apply srun_wr in R2. rewrite plans_agree in R1.
  exact (srun_det load data' q2 _ _ _ R1 R2).
Qed.

Theorem validated_encoders_of_selection : forall (ob : outboard HO) (data' : bytes HO),
  ob_tree ob = mkTree size bs -> ob_root ob = root_hash HO data ->
  encode_ranges_validated HO data' ob q1 = encode_ranges_validated HO data' ob q2 /\
  encode_ranges_validated_fsm HO data' ob q1 = encode_ranges_validated_fsm HO data' ob q2.
Proof.
  intros ob data' Ht Hr.
  pose proof (sel_empty_iff q1 q2 size W1 W2 Hsel) as Hemp.
  destruct q1 as [|x1 t1] eqn:E1.
  - rewrite (proj1 Hemp eq_refl). split; reflexivity.
  - destruct q2 as [|x2 t2] eqn:E2; [destruct Hemp as [_ H]; discriminate (H eq_refl)|].
    rewrite <- E1, <- E2 in *.
    assert (N1 : q1 <> []) by (rewrite E1; discriminate). assert (N2 : q2 <> []) by (rewrite E2; discriminate).
    split.
    + rewrite (erv_plan HO data bs q1 W1 Hsize Hbs ob Ht Hr data' N1), (erv_plan HO data bs q2 W2 Hsize Hbs ob Ht Hr data' N2).
      apply bloop_of_selection; [apply load_sync_len|assumption|assumption].
    + rewrite (erv_fsm_plan HO data bs q1 Hsize Hbs ob Ht Hr data'), (erv_fsm_plan HO data bs q2 Hsize Hbs ob Ht Hr data').
      apply bloop_of_selection; [apply load_fsm_len|assumption|assumption].
Qed.
End ValEnc.

(* non-vacuity: see gap_c14_nonvacuous in Proofs/GapC14.v (queries [4] and [3] on a blob of 4000 bytes; hash_ok is
   inhabited by the term algebra instance of Proofs/DecWitness.v); here the plans of the two raw queries *)
Lemma gap_c14_enc_nonvacuous :
  pre_order_chunks_iter (mkTree 4000 1) [4] 0 <> pre_order_chunks_iter (mkTree 4000 1) [3] 0 /\
  map without_ranges (pre_order_chunks_iter (mkTree 4000 1) [4] 0) = map without_ranges (pre_order_chunks_iter (mkTree 4000 1) [3] 0).
Proof. split; [vm_compute; discriminate|vm_compute; reflexivity]. Qed.

Print Assumptions pre_plan0_of_selection.
Print Assumptions chunk_iter0_of_selection.
Print Assumptions encode_ranges_of_selection.
Print Assumptions validated_encoders_of_selection.
Print Assumptions gap_c14_enc_nonvacuous.
