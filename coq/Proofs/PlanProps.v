(* The C15 statements in the exact form used by Props/C15.v. *)
From BaoV Require Import Model.Iter Spec.PlanSpec Spec.PlanWf.
From BaoV Require Proofs.PlanPreIter Proofs.PlanPreStruct Proofs.PlanPreLeaves Proofs.PlanPreCover Proofs.PlanPost.
Open Scope N_scope.

Lemma c15_pre_plan : forall size bs ml q, size <= 2 ^ 63 -> bs <= 10 -> wf_ranges q = true ->
  map without_ranges (pre_order_chunks_iter (mkTree size bs) q ml) = pre_plan size bs ml q.
Proof. exact PlanPreIter.pre_plan_refines. Qed.

Lemma c15_response_plan : forall size bs q, size <= 2 ^ 63 -> bs <= 10 -> wf_ranges q = true ->
  response_iter (mkTree size bs) q = pre_plan size 0 bs q.
Proof. exact PlanPreIter.response_plan_refines. Qed.

Lemma c15_pre_leaves : forall size bs ml q, size <= 2 ^ 63 -> bs <= 10 -> wf_ranges q = true -> q <> [] ->
  leaves_increasing (pre_plan size bs ml q) 0 = true /\
  forall s z ir rs, In (CLeaf s z ir rs) (pre_plan size bs ml q) -> leaf_shape_ok size s z = true.
Proof.
  intros size bs ml q H1 H2 H3 H4. split.
  - now apply PlanPreLeaves.pre_leaves_increasing_plan.
  - now apply PlanPreLeaves.pre_leaf_shape_plan.
Qed.

Lemma c15_pre_cover : forall size bs ml q, size <= 2 ^ 63 -> bs <= 10 -> wf_ranges q = true -> q <> [] ->
  (forall c, sel q size c = true -> in_leaves (leaves_of_plan (pre_plan size bs ml q)) c = true) /\
  (forall lo hi, In (lo, hi) (leaves_of_plan (pre_plan size bs ml q)) ->
     exists c, lo <= c < hi /\ sel q size c = true).
Proof.
  intros size bs ml q H1 H2 H3 H4. split.
  - now apply PlanPreCover.pre_cover_sel_plan.
  - now apply PlanPreCover.pre_cover_leaf_plan.
Qed.
