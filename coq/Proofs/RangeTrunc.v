(* C14: truncate_ranges *)
From BaoV Require Import Spec.RangeSpec Proofs.RangeBase.
From Coq Require Import Lia Arith PeanoNat ZArith ZifyN ZifyNat ZifyBool.
Ltac Zify.zify_post_hook ::= Z.div_mod_to_equations.

Lemma last_gt_cnt r n : ssorted r -> (n <? last r 0) = (cnt r n <? length r)%nat.
Proof.
  induction r as [|b t IH]; intro Hs; [destruct n; reflexivity|].
  specialize (IH (ss_tail _ _ Hs)). pose proof (ss_head_lt _ _ Hs) as Hgt.
  destruct t as [|b' t'].
  - cbn [last cnt length]. destruct (b <=? n) eqn:E.
    + apply N.leb_le in E. apply N.ltb_ge in E. rewrite E. reflexivity.
    + apply N.leb_gt in E. apply N.ltb_lt in E. rewrite E. reflexivity.
  - change (last (b :: b' :: t') 0) with (last (b' :: t') 0). rewrite IH.
    cbn [cnt length]. destruct (b <=? n) eqn:E.
    + reflexivity.
    + apply N.leb_gt in E. inversion Hgt as [|? ? Hb _]; subst.
      assert (E2 : (b' <=? n) = false) by (apply N.leb_gt; lia). rewrite E2. reflexivity.
Qed.

Lemma reaches_cnt r n : ssorted r -> reaches r n = Nat.odd (length r) || (cnt r n <? length r)%nat.
Proof. intro Hs. unfold reaches. rewrite last_gt_cnt by assumption. destruct (Nat.odd (length r)); reflexivity. Qed.

Lemma nchunks_lc size : nchunks size = chunks size - 1 + 1.
Proof. unfold nchunks. lia. Qed.

Lemma truncated_len_cases q size :
  ssorted q ->
  let lc := chunks size - 1 in
  let K := cnt q lc in let L := length q in let k := truncated_len q size in
  (k = L /\ K = L) \/
  (k = K /\ Nat.odd K = true) \/
  (k = S K /\ Nat.even K = true /\ (K < L)%nat /\ forall y, y + 1 = lc -> cnt q y = K) \/
  (S k = K /\ Nat.even K = true /\ (K < L)%nat /\ forall y, y < lc -> (cnt q y <= k)%nat).
Proof.
  intros Hs. cbn zeta. unfold truncated_len.
  destruct (bsearch q (chunks size - 1)) as [f i] eqn:E.
  destruct (bsearch_spec _ _ _ _ Hs E) as (B & S1 & S2).
  destruct f.
  - destruct (S1 eq_refl) as (Hl & C & Clt). rewrite C.
    destruct (Nat.even i) eqn:Ev.
    + right. left. split; [reflexivity|]. now rewrite Nat.odd_succ.
    + destruct (Nat.eqb (length q) (S i)) eqn:El.
      * apply Nat.eqb_eq in El. left. split; congruence.
      * apply Nat.eqb_neq in El. right. right. right.
        split; [reflexivity|]. split; [rewrite Nat.even_succ; now apply even_false_odd|]. split; [lia | intros y Hy; specialize (Clt y Hy); lia].
  - rewrite (S2 eq_refl).
    destruct (Nat.even i) eqn:Ev.
    + destruct (Nat.eqb (length q) i) eqn:El.
      * apply Nat.eqb_eq in El. left. split; congruence.
      * apply Nat.eqb_neq in El. right. right. left. split; [reflexivity|]. split; [reflexivity|]. split; [lia|].
        intros y Hy. unfold bsearch in E. rewrite (bsearch_from_notfound _ _ _ _ Hs E y Hy). lia.
    + right. left. split; [reflexivity | now apply even_false_odd].
Qed.

Lemma b2 (a b : bool) : (a = true <-> b = true) -> a = b.
Proof. destruct a, b; intuition congruence. Qed.

Lemma truncate_sel q size c :
  wf_ranges q = true -> sel (truncate_ranges q size) size c = sel q size c.
Proof.
  intro Hwf. apply wf_iff in Hwf. destruct Hwf as [Hs _].
  unfold sel. rewrite nchunks_lc. set (lc := chunks size - 1).
  destruct (c <? lc + 1) eqn:Ec; [|reflexivity]. apply N.ltb_lt in Ec. cbn [andb].
  replace (lc + 1 - 1) with lc by lia.
  unfold truncate_ranges.
  pose proof (truncated_len_cases q size Hs) as H. cbn zeta in H. fold lc in H.
  set (k := truncated_len q size) in *.
  assert (Hs' : ssorted (firstn k q)) by now apply ss_firstn.
  pose proof (cnt_mono q c lc ltac:(lia)) as Hc.
  pose proof (cnt_le_length q lc) as HKL.
  pose proof (cnt_le_length q (lc + 1)) as HnL.
  pose proof (cnt_succ q lc Hs) as Hn.
  destruct H as [[H _] | H]; [rewrite H, firstn_all; reflexivity|].
  rewrite (reaches_cnt (firstn k q)), (reaches_cnt q) by assumption.
  rewrite !mem_cnt, !cnt_firstn, firstn_length.
  destruct H as [[H Ho] | [(H & He & Hl & _) | (H & He & Hl & Hlt)]].
  - rewrite (Nat.min_r k (cnt q c)) by lia.
    destruct (c =? lc) eqn:Ecl; [|rewrite !andb_false_l; reflexivity].
    apply N.eqb_eq in Ecl. subst c. rewrite Ho. reflexivity.
  - rewrite (Nat.min_r k (cnt q c)) by lia.
    destruct (c =? lc) eqn:Ecl; [|rewrite !andb_false_l; reflexivity].
    rewrite !andb_true_l. f_equal.
    rewrite (Nat.min_l k (length q)) by lia.
    assert (E1 : Nat.odd k = true) by parity_goal. rewrite E1. cbn [orb].
    symmetry. destruct (Nat.odd (length q)) eqn:Eo; [reflexivity|]. cbn [orb].
    apply Nat.ltb_lt. parity_hyps. lia.
  - destruct (c =? lc) eqn:Ecl.
    + apply N.eqb_eq in Ecl. subst c. rewrite !andb_true_l.
      rewrite (Nat.min_l k (cnt q lc)) by lia.
      assert (E1 : Nat.odd k = true) by parity_goal. rewrite E1. cbn [orb].
      symmetry. apply orb_true_iff. right.
      destruct (Nat.odd (length q)) eqn:Eo; [reflexivity|]. cbn [orb].
      apply Nat.ltb_lt. parity_hyps. lia.
    + apply N.eqb_neq in Ecl. rewrite !andb_false_l, !orb_false_r.
      specialize (Hlt c ltac:(lia)). rewrite (Nat.min_r k (cnt q c)) by lia. reflexivity.
Qed.

Lemma truncated_len_firstn q size :
  ssorted q -> truncated_len (firstn (truncated_len q size) q) size = truncated_len q size.
Proof.
  intro Hs. unfold truncated_len at 2 3.
  destruct (bsearch q (chunks size - 1)) as [f i] eqn:E.
  destruct (bsearch_spec _ _ _ _ Hs E) as (B & S1 & S2).
  destruct f.
  - destruct (S1 eq_refl) as (Hl & _).
    destruct (Nat.even i) eqn:Ev.
    + unfold truncated_len. rewrite (bsearch_firstn _ _ _ _ (S i) E) by lia. now rewrite Ev.
    + destruct (Nat.eqb (length q) (S i)) eqn:El.
      * apply Nat.eqb_eq in El. rewrite <- El, firstn_all. unfold truncated_len. rewrite E, Ev, El, Nat.eqb_refl. reflexivity.
      * unfold truncated_len. rewrite (bsearch_firstn_found _ _ _ E). now rewrite Ev.
  - destruct (Nat.even i) eqn:Ev.
    + destruct (Nat.eqb (length q) i) eqn:El.
      * apply Nat.eqb_eq in El. rewrite <- El, firstn_all. unfold truncated_len. rewrite E, Ev, El, Nat.eqb_refl. reflexivity.
      * apply Nat.eqb_neq in El. unfold truncated_len. rewrite (bsearch_firstn _ _ _ _ (S i) E) by lia. rewrite Ev.
        rewrite firstn_length, Nat.min_l by lia.
        assert (E2 : Nat.eqb (S i) i = false) by (apply Nat.eqb_neq; lia). now rewrite E2.
    + unfold truncated_len. rewrite (bsearch_firstn _ _ _ _ i E) by lia. now rewrite Ev.
Qed.

Lemma truncate_idem q size :
  wf_ranges q = true -> truncate_ranges (truncate_ranges q size) size = truncate_ranges q size.
Proof.
  intro Hwf. apply wf_iff in Hwf. destruct Hwf as [Hs _].
  unfold truncate_ranges. rewrite truncated_len_firstn by assumption.
  rewrite firstn_firstn, Nat.min_id. reflexivity.
Qed.

Lemma truncate_wf q size : wf_ranges q = true -> wf_ranges (truncate_ranges q size) = true.
Proof. intro. unfold truncate_ranges. now apply wf_firstn. Qed.

Lemma truncate_owned_eq q size : truncate_ranges_owned q size = truncate_ranges q size.
Proof. reflexivity. Qed.

(* membership below the last chunk is untouched *)
Lemma truncate_mem_below q size c :
  wf_ranges q = true -> c < nchunks size - 1 -> mem (truncate_ranges q size) c = mem q c.
Proof.
  intros Hwf Hc. apply wf_iff in Hwf. destruct Hwf as [Hs _].
  rewrite nchunks_lc in Hc. set (lc := chunks size - 1) in *.
  pose proof (truncated_len_cases q size Hs) as H. cbn zeta in H. fold lc in H.
  unfold truncate_ranges. set (k := truncated_len q size) in *.
  pose proof (cnt_mono q c lc ltac:(lia)) as Hc'.
  pose proof (cnt_le_length q c) as HcL.
  rewrite !mem_cnt, cnt_firstn. f_equal.
  destruct H as [[H _] | [[H Ho] | [(H & He & Hl & _) | (H & He & Hl & Hlt)]]]; try lia.
  specialize (Hlt c ltac:(lia)). lia.
Qed.

(* membership of the last chunk after truncation *)
Lemma truncate_mem_last q size :
  wf_ranges q = true ->
  let lc := nchunks size - 1 in
  mem (truncate_ranges q size) lc = mem q lc || ((0 <? lc) && mem q (lc - 1) && reaches q (lc + 1)).
Proof.
  intros Hwf. apply wf_iff in Hwf. destruct Hwf as [Hs _]. cbn zeta.
  rewrite nchunks_lc. replace (chunks size - 1 + 1 - 1) with (chunks size - 1) by lia.
  set (lc := chunks size - 1).
  pose proof (truncated_len_cases q size Hs) as H. cbn zeta in H. fold lc in H.
  unfold truncate_ranges. set (k := truncated_len q size) in *.
  pose proof (cnt_le_length q lc) as HKL.
  pose proof (cnt_le_length q (lc + 1)) as HnL.
  pose proof (cnt_succ q lc Hs) as Hn.
  pose proof (cnt_mono q lc (lc + 1) ltac:(lia)) as Hm.
  rewrite (reaches_cnt q) by assumption.
  rewrite !mem_cnt, cnt_firstn.
  destruct H as [[H HK] | [[H Ho] | [(H & He & Hl & Hnf) | (H & He & Hl & Hlt)]]].
  - rewrite H, Nat.min_r by lia.
    destruct (Nat.odd (cnt q lc)) eqn:Eo; [reflexivity|]. cbn [orb].
    rewrite <- HK, Eo. cbn [orb].
    assert (E : (cnt q (lc + 1) <? cnt q lc)%nat = false) by (apply Nat.ltb_ge; lia).
    rewrite E. now rewrite andb_false_r.
  - rewrite H, Nat.min_id, Ho. reflexivity.
  - rewrite Nat.min_r by lia.
    assert (Eo : Nat.odd (cnt q lc) = false) by now apply even_true_odd. rewrite Eo. cbn [orb].
    destruct (0 <? lc) eqn:E0; [|reflexivity]. apply N.ltb_lt in E0.
    rewrite (Hnf (lc - 1) ltac:(lia)), Eo. reflexivity.
  - rewrite Nat.min_l by lia.
    assert (Ek : Nat.odd k = true) by parity_goal. rewrite Ek. symmetry.
    apply orb_true_iff. right.
    assert (E0 : 0 < lc).
    { destruct (N.eq_0_gt_0_cases lc) as [Z|Z]; [|assumption]. exfalso.
      pose proof (cnt_zero_le1 q Hs). rewrite Z in *. parity_hyps. lia. }
    assert (E0' : (0 <? lc) = true) by now apply N.ltb_lt. rewrite E0'. cbn [andb].
    pose proof (cnt_succ q (lc - 1) Hs) as Hp. replace (lc - 1 + 1) with lc in Hp by lia.
    specialize (Hlt (lc - 1) ltac:(lia)).
    assert (Ec : cnt q (lc - 1) = k) by lia. rewrite Ec, Ek. cbn [andb].
    destruct (Nat.odd (length q)) eqn:Eo; [reflexivity|]. cbn [orb].
    apply Nat.ltb_lt. parity_hyps. lia.
Qed.
