(* Leaves of the pre-order partial plan: where they lie (pre_leaves_bounds), that they are strictly
   increasing and disjoint (pre_leaves_increasing_plan) and that each is the in-blob part of one aligned
   power-of-two block of chunks with the right byte size (pre_leaf_shape_plan). *)
From BaoV Require Import Model.Iter Spec.PlanSpec Spec.PlanWf Proofs.NodeLevel Proofs.NodeBits Proofs.NodeAlgebra
  Proofs.PlanBase.
From Coq Require Import ZArith Lia.
Open Scope N_scope.
Arguments N.add : simpl never.
Arguments N.sub : simpl never.
Arguments N.mul : simpl never.
Arguments N.pow : simpl never.
Arguments N.shiftl : simpl never.
Arguments N.shiftr : simpl never.
Arguments N.land : simpl never.
Arguments N.div : simpl never.
Arguments N.modulo : simpl never.
Arguments N.log2 : simpl never.
Arguments N.min : simpl never.
Arguments N.max : simpl never.
Ltac Zify.zify_post_hook ::= Z.to_euclidean_division_equations.

(* ---- chunk geometry of one leaf ---- *)
Lemma nchunks_bytes size : size <= nchunks size * 1024.
Proof.
  assert (H : ~ nchunks size < nchunks size) by lia. rewrite nchunks_spec in H.
  pose proof (nchunks_pos size). lia.
Qed.

(* clipping the end of a span to the blob does not change its byte size *)
Lemma span_bytes_clip size a e : span_bytes size a (N.min e (nchunks size)) = span_bytes size a e.
Proof.
  unfold span_bytes. f_equal. pose proof (nchunks_bytes size).
  destruct (N.le_gt_cases e (nchunks size)) as [L|L].
  - now rewrite (N.min_l e) by lia.
  - rewrite (N.min_r e) by lia. lia.
Qed.

(* end chunk of the leaf over [a, e) *)
Lemma leaf_end size a e : a < e -> a < nchunks size ->
  a + leaf_chunks (span_bytes size a e) = N.min e (nchunks size).
Proof. intros H1 H2. rewrite leaf_chunks_span by assumption. lia. Qed.

(* the leaf over an aligned power-of-two block [a, e) of chunks that starts inside the blob *)
Lemma leaf_shape_block size a e j k : a = k * 2 ^ j -> e = a + 2 ^ j -> a < nchunks size ->
  leaf_shape_ok size a (span_bytes size a e) = true.
Proof.
  intros Ha He Hin. pose proof (pow2_pos j) as Hj. assert (Hae : a < e) by lia.
  unfold leaf_shape_ok. cbn zeta.
  pose proof (leaf_end size a e Hae Hin) as Hend.
  pose proof (leaf_chunks_span size a e Hae Hin) as Hk.
  set (c := leaf_chunks (span_bytes size a e)) in *.
  rewrite Hend, span_bytes_clip, N.eqb_refl. cbn [andb].
  assert (C1 : 1 <= c) by lia. assert (C2 : c <= 2 ^ j) by lia.
  destruct (next_pow2_spec c C1) as (i & Ei & I1 & I2).
  pose proof (next_pow2_le c j C2) as Hle. rewrite Ei in *. apply pow2_le_inv in Hle.
  destruct (pow2_divides i j Hle) as (d & D).
  assert (M : a mod 2 ^ i = 0).
  { rewrite Ha, D. replace (k * (d * 2 ^ i)) with (k * d * 2 ^ i) by lia. apply N.mod_mul. pose proof (pow2_pos i). lia. }
  rewrite M, N.eqb_refl. cbn [andb]. apply orb_true_iff.
  destruct (N.le_gt_cases e (nchunks size)) as [L|L].
  - left. apply N.eqb_eq. rewrite N.min_l in Hk by lia.
    assert (E : c = 2 ^ j) by lia. rewrite <- Ei, E. symmetry. apply next_pow2_pow2.
  - right. apply N.eqb_eq. lia.
Qed.

(* ---- geometry of a node ---- *)
Section Geom.
Variables (size bs : N).
Let g := 2 ^ bs.

(* the whole interval of a node: an aligned power-of-two block starting inside the blob *)
Lemma node_block ga n rm : node_ok size bs ga n rm ->
  exists j k, ga * g = k * 2 ^ j /\ (ga + capof n) * g = ga * g + 2 ^ j /\ ga * g < nchunks size.
Proof.
  intros [P [k A] I R]. exists (cexp n + 1 + bs), k.
  rewrite pow2_add, <- capof_pow2 by assumption. fold g.
  split; [rewrite A; lia|]. split; [lia|].
  apply group_inside. lia.
Qed.

(* one chunk group *)
Lemma group_block ga : exists j k, ga * g = k * 2 ^ j /\ (ga + 1) * g = ga * g + 2 ^ j.
Proof. exists bs, ga. fold g. split; lia. Qed.

Lemma node_start_inside ga n rm : node_ok size bs ga n rm -> ga * g < nchunks size.
Proof. intros [P _ I _]. apply group_inside. lia. Qed.

Lemma mid_inside ga : (ga + 1) * g * 1024 < size -> (ga + 1) * g < nchunks size.
Proof. intro H. apply nchunks_spec. now right. Qed.
End Geom.

(* ---- where the leaves of a node's plan lie ---- *)
Section Bounds.
Variables (size bs ml : N) (q : ranges).
Let g := 2 ^ bs.

Definition leaves_within (lo hi : N) (pl : list chunk) : Prop :=
  forall a b, In (a, b) (leaves_of_plan pl) -> lo <= a /\ a < b /\ b <= hi.

Lemma leaves_of_plan_app l1 l2 : leaves_of_plan (l1 ++ l2) = leaves_of_plan l1 ++ leaves_of_plan l2.
Proof. apply flat_map_app. Qed.

Lemma leaves_within_mono lo hi lo' hi' pl : lo' <= lo -> hi <= hi' ->
  leaves_within lo hi pl -> leaves_within lo' hi' pl.
Proof. intros H1 H2 H a b Hab. specialize (H a b Hab). lia. Qed.

Lemma leaves_within_app lo hi l1 l2 : leaves_within lo hi l1 -> leaves_within lo hi l2 ->
  leaves_within lo hi (l1 ++ l2).
Proof.
  intros H1 H2 a b Hab. rewrite leaves_of_plan_app in Hab. apply in_app_or in Hab.
  destruct Hab; [now apply H1|now apply H2].
Qed.

Lemma leaves_within_nil lo hi : leaves_within lo hi [].
Proof. intros a b []. Qed.

Lemma leaves_within_parent lo hi nd ir l r rs pl : leaves_within lo hi pl ->
  leaves_within lo hi (CParent nd ir l r rs :: pl).
Proof. intros H a b Hab. apply H. exact Hab. Qed.

(* the leaf over the chunks [a, e) *)
Lemma leaves_within_leaf a e ir rs : a < e -> a < nchunks size ->
  leaves_within a (N.min e (nchunks size)) [CLeaf a (span_bytes size a e) ir rs].
Proof.
  intros H1 H2 x y Hxy. cbn [leaves_of_plan flat_map app In] in Hxy.
  destruct Hxy as [Hxy|[]]. injection Hxy as <- <-. rewrite leaf_end by assumption. lia.
Qed.

Theorem pre_leaves_bounds : forall fuel ga n ir rm,
  node_ok size bs ga n rm -> N.log2 (capof n) <= N.of_nat fuel ->
  leaves_within (ga * g) (N.min ((ga + capof n) * g) (nchunks size))
    (pre_plan_rec fuel size bs ml q ga n ir rm).
Proof.
  apply (pre_plan_rec_ind size bs ml q
    (fun ga n ir rm pl => leaves_within (ga * g) (N.min ((ga + capof n) * g) (nchunks size)) pl)).
  - intros. apply leaves_within_nil.
  - intros ga n ir rm Hok _ _ _. fold g.
    pose proof (node_start_inside size bs ga n rm Hok) as Hin. fold g in Hin.
    destruct (capof_spec n (nk_pos _ _ _ _ _ Hok)) as (k & Ek & _). pose proof (pow2_pos (k + 1)).
    pose proof (pow2_pos bs). fold g in H0.
    apply leaves_within_leaf; [nia|assumption].
  - intros ga n ir rm Hok _ _ _ _. fold g.
    pose proof (node_start_inside size bs ga n rm Hok) as Hin. fold g in Hin.
    destruct (capof_spec n (nk_pos _ _ _ _ _ Hok)) as (k & Ek & _). pose proof (pow2_pos (k + 1)).
    pose proof (pow2_pos bs). fold g in H0.
    apply leaves_within_leaf; [nia|assumption].
  - intros ga n ir rm Hok Hn _ _ Hm. fold g in Hm |- *. cbn zeta.
    pose proof (node_start_inside size bs ga n rm Hok) as Hin. fold g in Hin.
    pose proof (mid_inside size bs ga Hm) as Hmid. fold g in Hmid.
    rewrite (capof_small n Hn). pose proof (pow2_pos bs). fold g in H.
    apply leaves_within_parent. apply leaves_within_app.
    + destruct (q_any q (ga * g) ((ga + 1) * g) false); [|apply leaves_within_nil].
      eapply leaves_within_mono; [| |apply leaves_within_leaf]; try assumption; lia.
    + destruct (q_any q ((ga + 1) * g) ((ga + 2) * g) rm); [|apply leaves_within_nil].
      eapply leaves_within_mono; [| |apply leaves_within_leaf]; try assumption; lia.
  - intros ga n ir rm pl pr Hok Hn _ _. cbn zeta. intros Hl Hr IHl IHr. fold g in IHl, IHr |- *.
    destruct (capof_inner n Hn) as (j & E & Eh & L1 & L2 & C1 & C2).
    rewrite Eh in *. rewrite C1 in IHl. rewrite E.
    replace (j + 2) with (j + 1 + 1) by lia. rewrite (pow2_succ (j + 1)).
    pose proof (pow2_pos bs). fold g in H. pose proof (pow2_pos (j + 1)).
    apply leaves_within_parent. apply leaves_within_app.
    + eapply leaves_within_mono; [| |exact IHl]; [lia|].
      apply N.min_glb; [nia|lia].
    + eapply leaves_within_mono; [| |exact IHr]; [nia|].
      apply N.min_glb; [|lia].
      set (c := capof (n - 2 ^ (j + 1))) in *. clearbody c. nia.
Qed.
End Bounds.

Lemma pre_leaves_bounds_plan : forall size bs ml q, size <= 2 ^ 63 -> bs <= 10 -> wf_ranges q = true -> q <> [] ->
  forall a b, In (a, b) (leaves_of_plan (pre_plan size bs ml q)) -> a < b /\ b <= nchunks size.
Proof.
  intros size bs ml q Hs _ _ _ a b. unfold pre_plan. intro Hab.
  pose proof (pre_leaves_bounds size bs ml q 65 0 (sp_blocks size bs) true true (node_ok_root size bs) (root_fuel size bs Hs) a b Hab).
  lia.
Qed.

(* ---- leaves strictly increasing ---- *)
Section Incr.
Variables (size bs ml : N) (q : ranges).
Let g := 2 ^ bs.

(* the plan of a node in front of any continuation that is increasing from the end of the node *)
Definition incr_before (lo hi : N) (pl : list chunk) : Prop :=
  forall rest pos, pos <= lo ->
    (forall pos', pos' <= hi -> leaves_increasing rest pos' = true) ->
    leaves_increasing (pl ++ rest) pos = true.

Lemma incr_before_nil lo hi : lo <= hi -> incr_before lo hi [].
Proof. intros H rest pos Hp Hr. cbn [app]. apply Hr. lia. Qed.

Lemma incr_before_leaf a e ir rs : a < e -> a < nchunks size ->
  incr_before a (N.min e (nchunks size)) [CLeaf a (span_bytes size a e) ir rs].
Proof.
  intros H1 H2 rest pos Hp Hr. cbn [app leaves_increasing].
  rewrite leaf_end by assumption. apply andb_true_iff. split; [apply N.leb_le; lia|].
  apply Hr. lia.
Qed.

Lemma incr_before_mono lo hi lo' hi' pl : lo' <= lo -> hi <= hi' ->
  incr_before lo hi pl -> incr_before lo' hi' pl.
Proof.
  intros H1 H2 H rest pos Hp Hr. apply H; [lia|]. intros pos' Hp'. apply Hr. lia.
Qed.

(* sequencing: l1 within [lo, mid), l2 within [mid, hi) *)
Lemma incr_before_app lo mid hi l1 l2 : incr_before lo mid l1 -> incr_before mid hi l2 ->
  incr_before lo hi (l1 ++ l2).
Proof.
  intros H1 H2 rest pos Hp Hr. rewrite <- app_assoc. apply H1; [assumption|].
  intros pos' Hp'. apply H2; assumption.
Qed.

Lemma incr_before_parent lo hi nd ir l r rs pl : incr_before lo hi pl ->
  incr_before lo hi (CParent nd ir l r rs :: pl).
Proof. intros H rest pos Hp Hr. cbn [app leaves_increasing]. now apply H. Qed.

Theorem pre_leaves_incr : forall fuel ga n ir rm,
  node_ok size bs ga n rm -> N.log2 (capof n) <= N.of_nat fuel ->
  incr_before (ga * g) (N.min ((ga + capof n) * g) (nchunks size))
    (pre_plan_rec fuel size bs ml q ga n ir rm).
Proof.
  apply (pre_plan_rec_ind size bs ml q
    (fun ga n ir rm pl => incr_before (ga * g) (N.min ((ga + capof n) * g) (nchunks size)) pl)).
  - intros ga n ir rm Hok _. fold g.
    pose proof (node_start_inside size bs ga n rm Hok) as Hin. fold g in Hin.
    destruct (capof_spec n (nk_pos _ _ _ _ _ Hok)) as (k & Ek & _). pose proof (pow2_pos (k + 1)).
    pose proof (pow2_pos bs). fold g in H0.
    apply incr_before_nil. apply N.min_glb; [nia|lia].
  - intros ga n ir rm Hok _ _ _. fold g.
    pose proof (node_start_inside size bs ga n rm Hok) as Hin. fold g in Hin.
    destruct (capof_spec n (nk_pos _ _ _ _ _ Hok)) as (k & Ek & _). pose proof (pow2_pos (k + 1)).
    pose proof (pow2_pos bs). fold g in H0.
    apply incr_before_leaf; [nia|assumption].
  - intros ga n ir rm Hok _ _ _ _. fold g.
    pose proof (node_start_inside size bs ga n rm Hok) as Hin. fold g in Hin.
    destruct (capof_spec n (nk_pos _ _ _ _ _ Hok)) as (k & Ek & _). pose proof (pow2_pos (k + 1)).
    pose proof (pow2_pos bs). fold g in H0.
    apply incr_before_leaf; [nia|assumption].
  - intros ga n ir rm Hok Hn _ _ Hm. fold g in Hm |- *. cbn zeta.
    pose proof (node_start_inside size bs ga n rm Hok) as Hin. fold g in Hin.
    pose proof (mid_inside size bs ga Hm) as Hmid. fold g in Hmid.
    rewrite (capof_small n Hn). pose proof (pow2_pos bs). fold g in H.
    apply incr_before_parent.
    apply (incr_before_app _ ((ga + 1) * g)).
    + destruct (q_any q (ga * g) ((ga + 1) * g) false); [|apply incr_before_nil; lia].
      eapply incr_before_mono; [| |apply incr_before_leaf]; try assumption; lia.
    + destruct (q_any q ((ga + 1) * g) ((ga + 2) * g) rm); [|apply incr_before_nil; lia].
      apply incr_before_leaf; [lia|assumption].
  - intros ga n ir rm pl pr Hok Hn _ _. cbn zeta. intros Hl Hr IHl IHr. fold g in IHl, IHr |- *.
    destruct (capof_inner n Hn) as (j & E & Eh & L1 & L2 & C1 & C2).
    rewrite Eh in *. rewrite C1 in IHl. rewrite E.
    replace (j + 2) with (j + 1 + 1) by lia. rewrite (pow2_succ (j + 1)).
    pose proof (pow2_pos bs). fold g in H. pose proof (pow2_pos (j + 1)).
    apply incr_before_parent. apply (incr_before_app _ ((ga + 2 ^ (j + 1)) * g)).
    + eapply incr_before_mono; [| |exact IHl]; [lia|]. lia.
    + eapply incr_before_mono; [| |exact IHr]; [lia|].
      apply N.min_glb; [|lia].
      set (c := capof (n - 2 ^ (j + 1))) in *. clearbody c. nia.
Qed.
End Incr.

Theorem pre_leaves_increasing_plan : forall size bs ml q, size <= 2 ^ 63 -> bs <= 10 -> wf_ranges q = true -> q <> [] ->
  leaves_increasing (pre_plan size bs ml q) 0 = true.
Proof.
  intros size bs ml q Hs _ _ _. unfold pre_plan.
  pose proof (pre_leaves_incr size bs ml q 65 0 (sp_blocks size bs) true true (node_ok_root size bs) (root_fuel size bs Hs)) as H.
  specialize (H [] 0). rewrite app_nil_r in H. apply H; [lia|]. intros. reflexivity.
Qed.

(* ---- shape of the leaves ---- *)
Section Shape.
Variables (size bs ml : N) (q : ranges).
Let g := 2 ^ bs.

Definition leaves_shaped (pl : list chunk) : Prop :=
  forall s z ir rs, In (CLeaf s z ir rs) pl -> leaf_shape_ok size s z = true.

Lemma leaves_shaped_nil : leaves_shaped [].
Proof. intros s z ir rs []. Qed.

Lemma leaves_shaped_app l1 l2 : leaves_shaped l1 -> leaves_shaped l2 -> leaves_shaped (l1 ++ l2).
Proof. intros H1 H2 s z ir rs H. apply in_app_or in H. destruct H; [eapply H1|eapply H2]; eassumption. Qed.

Lemma leaves_shaped_parent nd ir l r rs pl : leaves_shaped pl -> leaves_shaped (CParent nd ir l r rs :: pl).
Proof. intros H s z ir' rs' [Hd|Hd]; [discriminate|]. eapply H; eassumption. Qed.

Lemma leaves_shaped_leaf a e ir rs : leaf_shape_ok size a (span_bytes size a e) = true ->
  leaves_shaped [CLeaf a (span_bytes size a e) ir rs].
Proof. intros H s z ir' rs' [Hd|[]]. injection Hd as <- <- _ _. exact H. Qed.

Theorem pre_leaves_shaped : forall fuel ga n ir rm,
  node_ok size bs ga n rm -> N.log2 (capof n) <= N.of_nat fuel ->
  leaves_shaped (pre_plan_rec fuel size bs ml q ga n ir rm).
Proof.
  apply (pre_plan_rec_ind size bs ml q (fun ga n ir rm pl => leaves_shaped pl)).
  - intros. apply leaves_shaped_nil.
  - intros ga n ir rm Hok _ _ _. destruct (node_block size bs ga n rm Hok) as (j & k & B1 & B2 & B3).
    apply leaves_shaped_leaf. eapply leaf_shape_block; eassumption.
  - intros ga n ir rm Hok _ _ _ _. destruct (node_block size bs ga n rm Hok) as (j & k & B1 & B2 & B3).
    apply leaves_shaped_leaf. eapply leaf_shape_block; eassumption.
  - intros ga n ir rm Hok Hn _ _ Hm. cbn zeta.
    pose proof (node_start_inside size bs ga n rm Hok) as Hin.
    pose proof (mid_inside size bs ga Hm) as Hmid.
    rewrite (capof_small n Hn).
    apply leaves_shaped_parent. apply leaves_shaped_app.
    + destruct (q_any q (ga * 2 ^ bs) ((ga + 1) * 2 ^ bs) false); [|apply leaves_shaped_nil].
      destruct (group_block bs ga) as (j & k & B1 & B2).
      apply leaves_shaped_leaf. eapply leaf_shape_block; eassumption.
    + destruct (q_any q ((ga + 1) * 2 ^ bs) ((ga + 2) * 2 ^ bs) rm); [|apply leaves_shaped_nil].
      destruct (group_block bs (ga + 1)) as (j & k & B1 & B2).
      replace (ga + 2) with (ga + 1 + 1) by lia.
      apply leaves_shaped_leaf. eapply leaf_shape_block; eassumption.
  - intros ga n ir rm pl pr _ _ _ _. cbn zeta. intros _ _ IHl IHr.
    apply leaves_shaped_parent. now apply leaves_shaped_app.
Qed.
End Shape.

Theorem pre_leaf_shape_plan : forall size bs ml q, size <= 2 ^ 63 -> bs <= 10 -> wf_ranges q = true -> q <> [] ->
  forall s z ir rs, In (CLeaf s z ir rs) (pre_plan size bs ml q) -> leaf_shape_ok size s z = true.
Proof.
  intros size bs ml q Hs _ _ _. unfold pre_plan.
  apply (pre_leaves_shaped size bs ml q 65 0 (sp_blocks size bs) true true (node_ok_root size bs) (root_fuel size bs Hs)).
Qed.

Print Assumptions pre_leaves_bounds.
Print Assumptions pre_leaves_bounds_plan.
Print Assumptions pre_leaves_increasing_plan.
Print Assumptions pre_leaf_shape_plan.
