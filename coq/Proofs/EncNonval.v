(* C08: the non-validating encoders (encode_ranges, sync and fsm) on an intact store emit the honest
   encoding when every touched chunk group is fully selected; without that they do not (F6). *)
From BaoV Require Import Model.Fsm Spec.RangeSpec Spec.PlanSpec Spec.EncSpec Spec.HashAssm.
From BaoV Require Import Proofs.NodeBits Proofs.RangeBase Proofs.RangeTrunc Proofs.PlanQuery Proofs.PlanRs.
From BaoV Require Import Proofs.BridgeBase Proofs.BridgeTree Proofs.BridgeGeom Proofs.BridgePlan.
From BaoV Require Import Proofs.EncPlan Proofs.EncRec Proofs.EncGeom Proofs.EncLoop Proofs.EncMain Proofs.EncTop Proofs.EncThm.
From Coq Require Import Lia Arith PeanoNat ZArith ZifyN ZifyNat ZifyBool.
Ltac Zify.zify_post_hook ::= Z.div_mod_to_equations.
Arguments N.add : simpl never.
Arguments N.sub : simpl never.
Arguments N.mul : simpl never.
Arguments N.pow : simpl never.
Arguments N.div : simpl never.
Arguments N.modulo : simpl never.
Arguments N.log2 : simpl never.
Arguments N.min : simpl never.
Arguments N.max : simpl never.

(* every chunk group touched by the selection is fully selected (inside the blob) *)
Definition groups_full (bs : N) (q : ranges) (size : N) : Prop :=
  forall c c', sel q size c = true -> c' / 2 ^ bs = c / 2 ^ bs -> c' < nchunks size -> sel q size c' = true.

(* the parents of the plan of the raw (untruncated) query *)
Definition enc_nodes_raw (size bs : N) (q : ranges) : list N := plan_nodes (pre_plan size bs 0 q).

Lemma groups_full_def bs q size :
  groups_full bs q size <->
  (forall c c', sel q size c = true -> c' / 2 ^ bs = c / 2 ^ bs -> c' < nchunks size -> sel q size c' = true).
Proof. unfold groups_full. tauto. Qed.
Lemma enc_nodes_raw_def size bs q : enc_nodes_raw size bs q = plan_nodes (pre_plan size bs 0 q).
Proof. unfold enc_nodes_raw. reflexivity. Qed.

Section Nonval.
Variable HO : hops.
Notation bytes := (bytes HO).
Variable data : bytes.
Variable bs : N.
Variable q : ranges.
Hypothesis Hwf : wf_ranges q = true.
Hypothesis Hsize : blen HO data <= 2 ^ 63.
Hypothesis Hbs : bs <= 10.
Local Notation size := (blen HO data).
Local Notation nn := (nchunks (blen HO data)).
Local Notation Sel := (sel q (blen HO data)).
Local Notation rawplan := (rplan (blen HO data) bs q).
Local Notation gE := (gE HO data bs).
Local Notation hb := (hb HO data bs q).
Local Notation hbs := (hbs HO data bs q).

Lemma q_sorted : ssorted q.
Proof. pose proof Hwf as W. apply wf_iff in W. tauto. Qed.

Lemma empty_is_sel_raw : empty_is_sel HO data q q.
Proof.
  intros rs a E rm Hrs Hae HE H1 H2. rewrite (rs_ok_empty q rs a E rm q_sorted Hae Hrs). f_equal.
  destruct rm.
  - rewrite (H1 eq_refl). apply any_rm; [exact Hwf|]. specialize (H1 eq_refl). lia.
  - apply any_inner; [exact Hwf|exact Hae|now apply H2].
Qed.

Definition leaf_whole (c : chunk) : Prop :=
  match c with CLeaf s _ _ _ => hb c = chunk_bytes HO data s (gE s) | CParent _ _ _ _ _ => True end.

Lemma nloop_ok (load : loader HO) data' : forall P,
  Forall (unit_ok HO data bs load data') P -> Forall leaf_whole P ->
  nloop HO load P data' = (Ok tt, hbs P).
Proof.
  induction P as [|c P IH]; intros Hok Hw; [reflexivity|].
  inversion Hok as [|? ? Hc Hok']; subst. inversion Hw as [|? ? Wc Hw']; subst.
  specialize (IH Hok' Hw').
  destruct c as [nd ir lf rt rs|s sz ir rs]; cbn [nloop]; cbn [unit_ok] in Hc; rewrite Hc.
  - destruct (true_pair HO data nd) as [l r] eqn:Etp. cbv zeta. rewrite IH. cbn [fst snd].
    rewrite hbs_cons. cbn [EncMain.hb]. unfold hbP. rewrite Etp. cbn [fst snd]. now rewrite <- app_assoc.
  - cbv zeta. rewrite IH. cbn [fst snd]. rewrite hbs_cons. cbn [leaf_whole] in Wc. now rewrite Wc.
Qed.

Lemma group_div ga g c : 0 < g -> ga * g <= c -> c < ga * g + g -> c / g = ga.
Proof. intros Hg H1 H2. symmetry. apply (N.div_unique c g ga (c - ga * g)); lia. Qed.

Lemma raw_geom : q <> [] -> Forall (unit_geom HO data bs q) rawplan.
Proof. intro Hne. now apply plan_geom. Qed.

Lemma raw_whole : q <> [] -> groups_full bs q size -> Forall leaf_whole rawplan.
Proof.
  intros Hne Hfull. pose proof (raw_geom Hne) as Hg. rewrite Forall_forall in *. intros c Hc.
  specialize (Hg c Hc). destruct c as [nd ir lf rt rs|s sz ir rs]; cbn [leaf_whole]; [exact I|].
  destruct Hg as (E & rm & Hl & _).
  destruct (leaf_group HO data bs q Hsize Hbs q s E rm rs Hl) as [HgE Hgb].
  destruct Hl as [H1 H2 H3 H4 H5 H6 H7 [ga Hga]].
  pose proof (empty_is_sel_raw rs s E rm H4 H1 H2 H5 H6) as X.
  assert (Ex : existsb Sel (chunk_range_list s E) = true).
  { destruct rs; [congruence|]. cbn [r_is_empty] in X. now destruct (existsb Sel (chunk_range_list s E)). }
  apply existsb_exists in Ex. destruct Ex as (c & Hc1 & Hc2). apply crl_in in Hc1.
  pose proof (pow2_pos bs) as Hp.
  assert (Hall : forallb Sel (chunk_range_list s E) = true).
  { apply forallb_forall. intros c' Hc'. apply crl_in in Hc'.
    apply (Hfull c c' Hc2); [|lia].
    rewrite (group_div ga (2 ^ bs) c), (group_div ga (2 ^ bs) c'); try lia. }
  cbn [EncMain.hb]. unfold hbL. rewrite HgE.
  rewrite (ENC_all HO data bs Sel s E H1 Hgb Hall). now rewrite flat_leaf.
Qed.

Variable ob : outboard HO.
Hypothesis Htree : ob_tree ob = mkTree size bs.

Lemma raw_units (load : loader HO) : q <> [] ->
  (forall nd, In nd (enc_nodes_raw size bs q) -> load nd = Ok (Some (true_pair HO data nd))) ->
  Forall (unit_ok HO data bs load data) rawplan.
Proof.
  intros Hne Hst. pose proof (raw_geom Hne) as Hg. rewrite Forall_forall in *. intros c Hc.
  destruct c as [nd ir lf rt rs|s sz ir rs]; cbn [unit_ok].
  - apply Hst. unfold enc_nodes_raw. rewrite <- (rplan_nodes size bs q Hsize Hbs Hwf). eapply in_plan_nodes; eauto.
  - apply (geom_leaf_read HO data bs q Hsize Hbs q s sz ir rs). apply (Hg _ Hc).
Qed.

Lemma nonval_gen (load : loader HO) : groups_full bs q size ->
  (forall nd, In nd (enc_nodes_raw size bs q) -> load nd = Ok (Some (true_pair HO data nd))) ->
  nloop HO load rawplan data = (Ok tt, flat HO (honest HO data bs q)).
Proof.
  intros Hfull Hst. destruct q as [|x t] eqn:Eq.
  - rewrite rplan_nil. cbn [nloop]. now rewrite honest_nil.
  - rewrite <- Eq in *. assert (Hne : q <> []) by (rewrite Eq; discriminate).
    rewrite (nloop_ok load data rawplan (raw_units load Hne Hst) (raw_whole Hne Hfull)).
    f_equal. apply hbs_plan_gen; try assumption. exact empty_is_sel_raw.
Qed.

Theorem c08_nonval_sync : groups_full bs q size ->
  (forall nd, In nd (enc_nodes_raw size bs q) -> stored_ok HO data ob nd) ->
  encode_ranges HO data ob q = (Ok tt, flat HO (honest HO data bs q)).
Proof.
  intros Hfull Hst. rewrite er_nloop, Htree, (rplan_refines size bs q Hsize Hbs). now apply nonval_gen.
Qed.

Theorem c08_nonval_fsm : groups_full bs q size ->
  (forall nd, In nd (enc_nodes_raw size bs q) -> stored_ok_fsm HO data ob nd) ->
  encode_ranges_fsm HO data ob q = (Ok tt, flat HO (honest HO data bs q)).
Proof.
  intros Hfull Hst. rewrite er_fsm_nloop, Htree, (rplan_refines size bs q Hsize Hbs). now apply nonval_gen.
Qed.

End Nonval.

(* ---- F6: without groups_full the statement fails.  Witness over a trivial hash instance (the lengths
   differ, so the hash functions are irrelevant): 4 chunks, one chunk group (bs = 2), query = chunk 1;
   the non-validating encoder sends the whole group (4096 bytes), the honest encoding is two pairs and
   one chunk (1152 bytes). ---- *)
Definition HT : hops := mkHops bool Bool.eqb false (fun _ _ _ => repeat false 32) (fun _ _ _ => repeat false 32).
Definition wit_data : bytes HT := repeat false 4096.
Definition wit_ob : outboard HT := mkOb PreMem (root_hash HT wit_data) (mkTree 4096 2) [].

Lemma c08_nonvalidating_refuted :
  exists (HO : hops) (data : bytes HO) (bs : N) (ob : outboard HO) (q : ranges),
    beq_correct HO /\ wf_ranges q = true /\ q <> [] /\ blen HO data <= 2 ^ 63 /\ bs <= 10 /\
    ob_tree ob = mkTree (blen HO data) bs /\ ob_root ob = root_hash HO data /\
    (forall nd, In nd (enc_nodes_raw (blen HO data) bs q) -> stored_ok HO data ob nd) /\
    (forall nd, In nd (enc_nodes (blen HO data) bs q) -> stored_ok HO data ob nd) /\
    encode_ranges_validated HO data ob q = (Ok tt, flat HO (honest HO data bs q)) /\
    length (snd (encode_ranges HO data ob q)) <> length (flat HO (honest HO data bs q)) /\
    length (snd (encode_ranges_fsm HO data ob q)) <> length (flat HO (honest HO data bs q)).
Proof.
  exists HT, wit_data, 2, wit_ob, [1; 2].
  split; [intros a b; destruct a, b; cbn; split; congruence|].
  split; [reflexivity|]. split; [discriminate|].
  split; [vm_compute; discriminate|]. split; [vm_compute; discriminate|].
  split; [vm_compute; reflexivity|]. split; [reflexivity|].
  split; [intros nd H; vm_compute in H; contradiction|].
  split; [intros nd H; vm_compute in H; contradiction|].
  split; [vm_compute; reflexivity|].
  split; vm_compute; discriminate.
Qed.
