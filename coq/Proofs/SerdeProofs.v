(* L7: postcard round trips of the wire items *)
From BaoV Require Import Model.Serde.
From Coq Require Import Lia ZArith.
Ltac Zify.zify_post_hook ::= Z.to_euclidean_division_equations.

Arguments N.mul : simpl never. Arguments N.pow : simpl never. Arguments N.div : simpl never.
Arguments N.modulo : simpl never. Arguments N.add : simpl never. Arguments N.sub : simpl never.

(* generalised: decoding at position i of an encoding of n with enough fuel, n < 2^(64 - 7i) *)
Lemma varint_rt_gen : forall (f : nat) (i : nat) (n : N) (rest : list N),
  (i + f = 10)%nat -> (1 <= f)%nat ->
  n < 2 ^ (64 - 7 * N.of_nat i) ->
  varint_dec i f (varint_enc f n ++ rest) = Some (n * 2 ^ (7 * N.of_nat i), rest).
Proof.
  induction f as [|f IH]; intros i n rest Hif Hf Hn; [lia|].
  cbn [varint_enc varint_dec].
  destruct (n <? 128) eqn:E.
  - apply N.ltb_lt in E. cbn [app]. rewrite (proj2 (N.ltb_lt _ _) E).
    destruct (Nat.eqb i 9) eqn:Ei; cbn [andb].
    + apply Nat.eqb_eq in Ei. subst i.
      assert (Hn2 : n < 2) by (change (2 ^ (64 - 7 * N.of_nat 9)) with 2 in Hn; exact Hn).
      destruct (1 <? n) eqn:E1; [apply N.ltb_lt in E1; lia|reflexivity].
    + reflexivity.
  - apply N.ltb_ge in E.
    assert (Hi : (i < 9)%nat).
    { destruct (Nat.eq_dec i 9) as [->|]; [|lia].
      change (2 ^ (64 - 7 * N.of_nat 9)) with 2 in Hn. lia. }
    cbn [app].
    assert (Hb : (n mod 128 + 128 <? 128) = false) by (apply N.ltb_ge; lia).
    rewrite Hb.
    assert (Hdiv : n / 128 < 2 ^ (64 - 7 * N.of_nat (S i))).
    { apply N.div_lt_upper_bound; [lia|].
      replace (128 * 2 ^ (64 - 7 * N.of_nat (S i))) with (2 ^ (64 - 7 * N.of_nat i)); [exact Hn|].
      replace (64 - 7 * N.of_nat i) with (7 + (64 - 7 * N.of_nat (S i))) by lia.
      rewrite N.pow_add_r. reflexivity. }
    rewrite (IH (S i) (n / 128) rest); [|lia|lia|exact Hdiv].
    f_equal. f_equal.
    replace (n mod 128 + 128 - 128) with (n mod 128) by lia.
    replace (7 * N.of_nat (S i)) with (7 + 7 * N.of_nat i) by lia.
    rewrite N.pow_add_r. change (2 ^ 7) with 128.
    pose proof (N.div_mod n 128 ltac:(lia)) as Hdm.
    rewrite Hdm at 3. lia.
Qed.

Lemma varint_roundtrip n rest : n < 2 ^ 64 -> take_varint (varint n ++ rest) = Some (n, rest).
Proof.
  intros Hn. unfold take_varint, varint.
  rewrite (varint_rt_gen 10 0 n rest) by (try lia; exact Hn).
  cbn. rewrite N.mul_1_r. reflexivity.
Qed.

Lemma take_n_app (a rest : list N) n : length a = n -> take_n n (a ++ rest) = Some (a, rest).
Proof.
  intros <-. unfold take_n.
  rewrite (proj2 (Nat.leb_le _ _)) by (rewrite app_length; lia).
  rewrite firstn_app, Nat.sub_diag, firstn_all, firstn_O, app_nil_r.
  rewrite skipn_app, Nat.sub_diag, skipn_all, skipn_O. reflexivity.
Qed.

Lemma de_bytes_rt d rest : N.of_nat (length d) < 2 ^ 64 -> de_bytes (ser_bytes d ++ rest) = Some (d, rest).
Proof.
  intros H. unfold de_bytes, ser_bytes. rewrite <- app_assoc, varint_roundtrip by exact H.
  cbn [obind]. rewrite Nat2N.id. apply take_n_app. reflexivity.
Qed.

Definition parent_ok (p : parent_v) : Prop := p_node p < 2 ^ 64 /\ length (p_l p) = 32%nat /\ length (p_r p) = 32%nat.
Definition leaf_ok (l : leaf_v) : Prop := l_off l < 2 ^ 64 /\ N.of_nat (length (l_data l)) < 2 ^ 64.
Definition eerr_ok (e : eerr_v) : Prop :=
  match e with
  | VParentHashMismatch n | VLeafHashMismatch n | VParentWrite n | VLeafWrite n => n < 2 ^ 64
  | VSizeMismatch => True
  | VIo t => N.of_nat (length t) < 2 ^ 64
  end.

Lemma de_parent_rt p rest hint : 3 <= hint -> hint < 2 ^ 64 -> parent_ok p ->
  de_parent (ser_parent hint p ++ rest) = Some (p, rest).
Proof.
  intros Hh Hh2 (Hn & Hl & Hr). unfold de_parent, ser_parent.
  repeat rewrite <- app_assoc.
  rewrite varint_roundtrip by exact Hh2. cbn [obind].
  destruct (hint <? 1) eqn:E1; [apply N.ltb_lt in E1; lia|].
  rewrite varint_roundtrip by exact Hn. cbn [obind].
  destruct (hint <? 2) eqn:E2; [apply N.ltb_lt in E2; lia|].
  rewrite take_n_app by exact Hl. cbn [obind].
  destruct (hint <? 3) eqn:E3; [apply N.ltb_lt in E3; lia|].
  rewrite take_n_app by exact Hr. cbn [obind].
  destruct p; reflexivity.
Qed.

(* the pinned snapshot's hint: the third element is never reached *)
Lemma de_parent_hint2_fails p rest : parent_ok p -> de_parent (ser_parent 2 p ++ rest) = None.
Proof.
  intros (Hn & Hl & Hr). unfold de_parent, ser_parent.
  repeat rewrite <- app_assoc.
  rewrite varint_roundtrip by (cbv; reflexivity). cbn [obind].
  change (2 <? 1) with false. cbv iota.
  rewrite varint_roundtrip by exact Hn. cbn [obind].
  change (2 <? 2) with false. cbv iota.
  rewrite take_n_app by exact Hl. cbn [obind].
  reflexivity.
Qed.

Lemma de_leaf_rt l rest : leaf_ok l -> de_leaf (ser_leaf l ++ rest) = Some (l, rest).
Proof.
  intros (Ho & Hd). unfold de_leaf, ser_leaf. rewrite <- app_assoc.
  rewrite varint_roundtrip by exact Ho. cbn [obind].
  rewrite de_bytes_rt by exact Hd. cbn [obind]. destruct l; reflexivity.
Qed.

Lemma de_content_rt c rest :
  match c with CParentV p => parent_ok p | CLeafV l => leaf_ok l end ->
  de_content (ser_content PARENT_HINT c ++ rest) = Some (c, rest).
Proof.
  destruct c as [p|l]; intros H; unfold de_content, ser_content; rewrite <- app_assoc;
    rewrite varint_roundtrip by (cbv; reflexivity); cbn [obind].
  - change (0 =? 0) with true. cbv iota. rewrite de_parent_rt; [reflexivity| cbv; discriminate | cbv; reflexivity | exact H].
  - change (1 =? 0) with false. change (1 =? 1) with true. cbv iota. rewrite de_leaf_rt by exact H. reflexivity.
Qed.

Lemma de_eerr_rt e rest : eerr_ok e -> de_eerr (ser_eerr e ++ rest) = Some (e, rest).
Proof.
  destruct e; intros H; unfold de_eerr, ser_eerr; try rewrite <- app_assoc;
    rewrite varint_roundtrip by (cbv; reflexivity); cbn [obind];
    repeat match goal with |- context [?a =? ?b] => let v := eval vm_compute in (a =? b) in change (a =? b) with v end;
    cbv iota;
    try (rewrite varint_roundtrip by exact H; reflexivity);
    try reflexivity.
  rewrite de_bytes_rt by exact H. reflexivity.
Qed.

Definition eitem_ok (i : eitem_v) : Prop :=
  match i with
  | VSize n => n < 2 ^ 64 | VParent p => parent_ok p | VLeaf l => leaf_ok l | VError e => eerr_ok e | VDone => True
  end.
Lemma de_eitem_rt i rest : eitem_ok i -> de_eitem (ser_eitem PARENT_HINT i ++ rest) = Some (i, rest).
Proof.
  destruct i; intros H; unfold de_eitem, ser_eitem; try rewrite <- app_assoc;
    rewrite varint_roundtrip by (cbv; reflexivity); cbn [obind];
    repeat match goal with |- context [?a =? ?b] => let v := eval vm_compute in (a =? b) in change (a =? b) with v end;
    cbv iota.
  - rewrite varint_roundtrip by exact H. reflexivity.
  - rewrite de_parent_rt; [reflexivity| cbv; discriminate | cbv; reflexivity | exact H].
  - rewrite de_leaf_rt by exact H. reflexivity.
  - rewrite de_eerr_rt by exact H. reflexivity.
  - reflexivity.
Qed.
