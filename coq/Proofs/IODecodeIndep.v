(* C11 (3, 4): the decoders and the outboard creation over a scheduled reader yield what they yield over
   the plain byte list. *)
From BaoV Require Import Model.IOSched Proofs.IOReadExact.
From Coq Require Import Lia.

(* lock-step simulation of two loop2 runs *)
Definition sum_rel {S1 S2 R1 R2} (RS : S1 -> S2 -> Prop) (RR : R1 -> R2 -> Prop) (a : S1 + R1) (b : S2 + R2) : Prop :=
  match a, b with
  | inl s, inl t => RS s t
  | inr x, inr y => RR x y
  | _, _ => False
  end.
Lemma loop2_sim {S1 S2 R1 R2} (RS : S1 -> S2 -> Prop) (RR : R1 -> R2 -> Prop)
      (f : S1 -> S1 + R1) (g : S2 -> S2 + R2) :
  (forall s t, RS s t -> sum_rel RS RR (f s) (g t)) ->
  forall d s t, RS s t -> sum_rel RS RR (loop2 d f s) (loop2 d g t).
Proof.
  intros H. induction d as [|d IH]; intros s t Hst; cbn [loop2]; [now apply H|].
  pose proof (IH s t Hst) as H1. unfold sum_rel in H1.
  destruct (loop2 d f s) as [s1|r1], (loop2 d g t) as [t1|r2]; try contradiction.
  - now apply IH.
  - exact H1.
Qed.

Section DecodeIndep.
Variable HO : hops.
Notation bytes := (bytes HO).
Notation hash := (hash HO).
Notation item := (item HO).
Notation reader := (reader HO).

(* the error is an end-of-stream one: the two models leave different remainders behind it *)
Definition is_not_found (x : res dec_err item) : bool :=
  match x with Err (DParentNotFound _) | Err (DLeafNotFound _) => true | _ => false end.

(* ---------- sync ---------- *)
Definition drel (a : dstate_r HO) (b : dstate HO) : Prop :=
  dr_inner HO a = d_inner HO b /\ dr_stack HO a = d_stack HO b /\
  rd_rest HO (dr_rd HO a) = d_enc HO b /\ rd_fail HO (dr_rd HO a) = None.
(* after a step: everything but (behind a not-found error) the remainder *)
Definition drel_after (x : res dec_err item) (a : dstate_r HO) (b : dstate HO) : Prop :=
  dr_inner HO a = d_inner HO b /\ dr_stack HO a = d_stack HO b /\ rd_fail HO (dr_rd HO a) = None /\
  (is_not_found x = false -> rd_rest HO (dr_rd HO a) = d_enc HO b).

Lemma dec_next_sim a b : drel a b ->
  match dec_next_r HO a, dec_next HO b with
  | None, None => True
  | Some (x, a'), Some (y, b') => x = y /\ drel_after x a' b'
  | _, _ => False
  end.
Proof.
  destruct a as [inner stack rd], b as [inner' stack' enc]. unfold drel. cbn [dr_inner dr_stack dr_rd d_inner d_stack d_enc].
  intros (<- & <- & Hrest & Hnf). unfold dec_next_r, dec_next. cbn [dr_inner dr_stack dr_rd d_inner d_stack d_enc].
  destruct (response_next inner) as [[c inner1]|]; [|exact I].
  destruct c as [node is_root lf rt rs | start size is_root rs].
  - destruct (N.le_gt_cases 64 (blen HO (rd_rest HO rd))) as [Hle|Hlt].
    + destruct (read_exact_sync_enough HO rd 64 Hnf Hle) as (rd' & Er & Hr' & Hf' & _). rewrite Er.
      rewrite <- Hrest. replace (blen HO (rd_rest HO rd) <? 64) with false by (symmetry; apply N.ltb_ge; exact Hle).
      destruct (parse_pair HO (take HO 64 (rd_rest HO rd))) as [l r].
      destruct stack as [|ph stk].
      * split; [reflexivity|]. unfold drel_after. cbn. now repeat split.
      * destruct (negb (bytes_eqb HO ph (parent_cv HO l r is_root))).
        -- split; [reflexivity|]. unfold drel_after. cbn. now repeat split.
        -- split; [reflexivity|]. unfold drel_after. cbn. now repeat split.
    + destruct (read_exact_sync_short HO rd 64 Hnf Hlt) as (rd' & Er & Hf' & _). rewrite Er.
      rewrite <- Hrest. replace (blen HO (rd_rest HO rd) <? 64) with true by (symmetry; apply N.ltb_lt; exact Hlt).
      split; [reflexivity|]. unfold drel_after. cbn. repeat split; [exact Hf' | discriminate].
  - destruct (N.le_gt_cases size (blen HO (rd_rest HO rd))) as [Hle|Hlt].
    + destruct (read_exact_sync_enough HO rd size Hnf Hle) as (rd' & Er & Hr' & Hf' & _). rewrite Er.
      rewrite <- Hrest. replace (blen HO (rd_rest HO rd) <? size) with false by (symmetry; apply N.ltb_ge; exact Hle).
      destruct stack as [|lh stk].
      * split; [reflexivity|]. unfold drel_after. cbn. now repeat split.
      * destruct (negb (bytes_eqb HO lh (hash_subtree HO start (take HO size (rd_rest HO rd)) is_root))).
        -- split; [reflexivity|]. unfold drel_after. cbn. now repeat split.
        -- split; [reflexivity|]. unfold drel_after. cbn. now repeat split.
    + destruct (read_exact_sync_short HO rd size Hnf Hlt) as (rd' & Er & Hf' & _). rewrite Er.
      rewrite <- Hrest. replace (blen HO (rd_rest HO rd) <? size) with true by (symmetry; apply N.ltb_lt; exact Hlt).
      split; [reflexivity|]. unfold drel_after. cbn. repeat split; [exact Hf' | discriminate].
Qed.

Definition outcome_not_found (o : outcome) : bool :=
  match o with Failed (DParentNotFound _) | Failed (DLeafNotFound _) => true | _ => false end.
(* final results: same items, same outcome, same iterator and stack, and - unless the run ended at the end
   of the stream - the same unread remainder *)
Definition dres_rel (x : list item * outcome * dstate_r HO) (y : list item * outcome * dstate HO) : Prop :=
  fst x = fst y /\ dr_inner HO (snd x) = d_inner HO (snd y) /\ dr_stack HO (snd x) = d_stack HO (snd y) /\
  (outcome_not_found (snd (fst x)) = false -> rd_rest HO (dr_rd HO (snd x)) = d_enc HO (snd y)).

(* the run, at any loop depth and from any accumulator *)
Definition dec_step_r (sa : dstate_r HO * list item) : dstate_r HO * list item + list item * outcome * dstate_r HO :=
  match dec_next_r HO (fst sa) with
  | None => inr (rev (snd sa), Finished, fst sa)
  | Some (Ok it, st') => inl (st', it :: snd sa)
  | Some (Err e, st') => inr (rev (snd sa), Failed e, st')
  | Some (Panic, st') => inr (rev (snd sa), Panicked, st')
  end.
Definition dec_step_p (sa : dstate HO * list item) : dstate HO * list item + list item * outcome * dstate HO :=
  match dec_next HO (fst sa) with
  | None => inr (rev (snd sa), Finished, fst sa)
  | Some (Ok it, st') => inl (st', it :: snd sa)
  | Some (Err e, st') => inr (rev (snd sa), Failed e, st')
  | Some (Panic, st') => inr (rev (snd sa), Panicked, st')
  end.
Definition drel_acc (s : dstate_r HO * list item) (t : dstate HO * list item) : Prop :=
  drel (fst s) (fst t) /\ snd s = snd t.

Lemma dec_step_sim s t : drel_acc s t -> sum_rel drel_acc dres_rel (dec_step_r s) (dec_step_p t).
Proof.
  destruct s as [s acc], t as [t acc']. intros [Hst Hacc]. cbn [fst snd] in *. subst acc'.
  unfold dec_step_r, dec_step_p. cbn [fst snd].
  pose proof (dec_next_sim s t Hst) as Hn.
  destruct (dec_next_r HO s) as [[x s']|], (dec_next HO t) as [[y t']|]; try contradiction.
  - destruct Hn as [<- (Hi & Hs & Hf & Hr)].
    destruct x as [it|e|]; unfold sum_rel.
    + split; [|reflexivity]. cbn [fst]. unfold drel. repeat split; try assumption. now apply Hr.
    + unfold dres_rel. cbn [fst snd]. repeat split; assumption.
    + unfold dres_rel. cbn [fst snd]. repeat split; assumption.
  - unfold sum_rel, dres_rel. cbn [fst snd]. destruct Hst as (Hi & Hs & Hr & Hf). now repeat split.
Qed.

Lemma dec_run_sim_d d a b :
  drel a b ->
  dres_rel (match loop2 d dec_step_r (a, []) with inr r => r | inl sa => (rev (snd sa), OutOfFuel, fst sa) end)
           (match loop2 d dec_step_p (b, []) with inr r => r | inl sa => (rev (snd sa), OutOfFuel, fst sa) end).
Proof.
  intros Hab.
  pose proof (loop2_sim drel_acc dres_rel dec_step_r dec_step_p dec_step_sim d (a, []) (b, []) (conj Hab eq_refl)) as Hsim.
  unfold sum_rel in Hsim.
  destruct (loop2 d dec_step_r (a, [])) as [[s acc]|rx], (loop2 d dec_step_p (b, [])) as [[t acc']|ry]; try contradiction.
  - destruct Hsim as [(Hi & Hs & Hr & Hf) Hacc]. cbn [fst snd] in *. subst acc'.
    unfold dres_rel. cbn [fst snd]. now repeat split.
  - exact Hsim.
Qed.

Lemma dec_run_sim a b : drel a b -> dres_rel (dec_run_r HO a) (dec_run HO b).
Proof. exact (dec_run_sim_d LOOP_DEPTH a b). Qed.

Lemma drel_init root t stream sched q :
  drel (dec_new_r HO root t (mkRd HO stream sched 0 None) q) (dec_new HO root t stream q).
Proof. unfold drel, dec_new_r, dec_new. cbn [dr_inner dr_stack dr_rd d_inner d_stack d_enc rd_rest rd_fail]. now repeat split. Qed.

Theorem decode_indep_sync root t stream sched q :
  fst (dec_run_r HO (dec_new_r HO root t (mkRd HO stream sched 0 None) q))
  = fst (dec_run HO (dec_new HO root t stream q)).
Proof. exact (proj1 (dec_run_sim _ _ (drel_init root t stream sched q))). Qed.

Lemma dres_rel_elim x y : dres_rel x y ->
  dr_inner HO (snd x) = d_inner HO (snd y) /\ dr_stack HO (snd x) = d_stack HO (snd y) /\
  (match snd (fst x) with Failed (DParentNotFound _) | Failed (DLeafNotFound _) => true | _ => false end = false ->
   rd_rest HO (dr_rd HO (snd x)) = d_enc HO (snd y)).
Proof. intros H. exact (proj2 H). Qed.

Theorem decode_indep_sync_state root t (stream : bytes) (sched : list ev) q :
  let x := dec_run_r HO (dec_new_r HO root t (mkRd HO stream sched 0 None) q) in
  let y := dec_run HO (dec_new HO root t stream q) in
  dr_inner HO (snd x) = d_inner HO (snd y) /\ dr_stack HO (snd x) = d_stack HO (snd y) /\
  (match snd (fst x) with Failed (DParentNotFound _) | Failed (DLeafNotFound _) => true | _ => false end = false ->
   rd_rest HO (dr_rd HO (snd x)) = d_enc HO (snd y)).
Proof. intros x y. apply dres_rel_elim. exact (dec_run_sim _ _ (drel_init root t stream sched q)). Qed.

(* ---------- outboard creation ---------- *)
Lemma outboard_po_loop_sim : forall items stack rd data out,
  rd_fail HO rd = None -> rd_rest HO rd = data ->
  let x := outboard_po_loop_r HO items stack rd out in
  let y := outboard_po_loop HO items stack data out in
  fst x = fst y /\ (fst (fst x) <> Err KUnexpectedEof -> rd_rest HO (snd x) = snd y).
Proof.
  induction items as [|c rest IH]; intros stack rd data out Hnf Hrest; cbv zeta.
  - cbn [outboard_po_loop_r outboard_po_loop]. destruct stack as [|h [|h2 stk]]; cbn [fst snd]; now split.
  - destruct c as [node is_root lf rt rs | start size is_root rs]; cbn [outboard_po_loop_r outboard_po_loop].
    + destruct stack as [|rh [|lh stk]]; try (cbn [fst snd]; now split). now apply IH.
    + subst data. destruct (N.le_gt_cases size (blen HO (rd_rest HO rd))) as [Hle|Hlt].
      * destruct (read_exact_sync_enough HO rd size Hnf Hle) as (rd' & Er & Hr' & Hf' & _). rewrite Er.
        replace (blen HO (rd_rest HO rd) <? size) with false by (symmetry; apply N.ltb_ge; exact Hle).
        now apply IH.
      * destruct (read_exact_sync_short HO rd size Hnf Hlt) as (rd' & Er & Hf' & _). rewrite Er.
        replace (blen HO (rd_rest HO rd) <? size) with true by (symmetry; apply N.ltb_lt; exact Hlt).
        cbn [fst snd]. split; [reflexivity|]. intros H. now elim H.
Qed.

Theorem outboard_indep t data sched :
  fst (outboard_post_order_r HO t (mkRd HO data sched 0 None)) = fst (outboard_post_order HO t data).
Proof. unfold outboard_post_order_r, outboard_post_order. exact (proj1 (outboard_po_loop_sim _ _ (mkRd HO data sched 0 None) data _ eq_refl eq_refl)). Qed.
Theorem outboard_indep_rest t data sched :
  fst (fst (outboard_post_order_r HO t (mkRd HO data sched 0 None))) <> Err KUnexpectedEof ->
  rd_rest HO (snd (outboard_post_order_r HO t (mkRd HO data sched 0 None))) = snd (outboard_post_order HO t data).
Proof. unfold outboard_post_order_r, outboard_post_order. exact (proj2 (outboard_po_loop_sim _ _ (mkRd HO data sched 0 None) data _ eq_refl eq_refl)). Qed.

End DecodeIndep.

(* ---------- fsm: tokio read_exact for the parents, tokio take(len).read_to_end for the leaves: neither
   retries an Interrupted, so schedules without Interrupted ---------- *)
Section DecodeIndepFsm.
Variable HO : hops.
Notation bytes := (bytes HO).
Notation item := (item HO).

Definition rrel (a : rstate_r HO) (b : rstate HO) : Prop :=
  rr_iter HO a = r_iter HO b /\ rr_stack HO a = r_stack HO b /\
  rd_rest HO (rr_rd HO a) = r_enc HO b /\ rd_fail HO (rr_rd HO a) = None /\ no_intr HO (rr_rd HO a).
Definition rrel_after (x : res dec_err item) (a : rstate_r HO) (b : rstate HO) : Prop :=
  rr_iter HO a = r_iter HO b /\ rr_stack HO a = r_stack HO b /\ rd_fail HO (rr_rd HO a) = None /\
  no_intr HO (rr_rd HO a) /\
  (is_not_found HO x = false -> rd_rest HO (rr_rd HO a) = r_enc HO b).

Lemma rd_next_sim a b : rrel a b ->
  match rd_next_r HO a, rd_next HO b with
  | None, RDone _ => True
  | Some (x, a'), RMore b' y => x = y /\ rrel_after x a' b'
  | _, _ => False
  end.
Proof.
  destruct a as [iter stack rd], b as [iter' stack' enc root]. unfold rrel. cbn [rr_iter rr_stack rr_rd r_iter r_stack r_enc].
  intros (<- & <- & Hrest & Hnf & Hni). unfold rd_next_r, rd_next. cbn [rr_iter rr_stack rr_rd r_iter r_stack r_enc r_root].
  destruct (response_next iter) as [[c iter1]|]; [|exact I].
  destruct c as [node is_root lf rt rs | start size is_root rs].
  - destruct (N.le_gt_cases 64 (blen HO (rd_rest HO rd))) as [Hle|Hlt].
    + destruct (tokio_read_n_enough HO rd 64 Hnf Hni Hle) as (rd' & Er & Hr' & Hf' & Hs'). rewrite Er.
      pose proof (no_intr_suffix HO rd rd' Hs' Hni) as Hni'.
      rewrite <- Hrest. replace (blen HO (rd_rest HO rd) <? 64) with false by (symmetry; apply N.ltb_ge; exact Hle).
      destruct (parse_pair HO (take HO 64 (rd_rest HO rd))) as [l r].
      destruct stack as [|ph stk].
      * split; [reflexivity|]. unfold rrel_after. cbn. now repeat split.
      * destruct (negb (bytes_eqb HO ph (parent_cv HO l r is_root))).
        -- split; [reflexivity|]. unfold rrel_after. cbn. now repeat split.
        -- split; [reflexivity|]. unfold rrel_after. cbn. now repeat split.
    + destruct (tokio_read_n_short HO rd 64 Hnf Hni Hlt) as (rd' & Er & Hf' & Hs'). rewrite Er.
      pose proof (no_intr_suffix HO rd rd' Hs' Hni) as Hni'.
      rewrite <- Hrest. replace (blen HO (rd_rest HO rd) <? 64) with true by (symmetry; apply N.ltb_lt; exact Hlt).
      split; [reflexivity|]. unfold rrel_after. cbn. repeat split; [exact Hf' | exact Hni' | discriminate].
  - destruct (N.le_gt_cases size (blen HO (rd_rest HO rd))) as [Hle|Hlt].
    + destruct (tokio_read_bytes_exact_enough HO rd size Hnf Hni Hle) as (rd' & Er & Hr' & Hf' & Hs'). rewrite Er.
      pose proof (no_intr_suffix HO rd rd' Hs' Hni) as Hni'.
      rewrite <- Hrest. replace (blen HO (rd_rest HO rd) <? size) with false by (symmetry; apply N.ltb_ge; exact Hle).
      destruct stack as [|lh stk].
      * split; [reflexivity|]. unfold rrel_after. cbn. now repeat split.
      * destruct (negb (bytes_eqb HO lh (hash_subtree HO start (take HO size (rd_rest HO rd)) is_root))).
        -- split; [reflexivity|]. unfold rrel_after. cbn. now repeat split.
        -- split; [reflexivity|]. unfold rrel_after. cbn. now repeat split.
    + destruct (tokio_read_bytes_exact_short HO rd size Hnf Hni Hlt) as (rd' & Er & Hf' & Hs'). rewrite Er.
      pose proof (no_intr_suffix HO rd rd' Hs' Hni) as Hni'.
      rewrite <- Hrest. replace (blen HO (rd_rest HO rd) <? size) with true by (symmetry; apply N.ltb_lt; exact Hlt).
      split; [reflexivity|]. unfold rrel_after. cbn. repeat split; [exact Hf' | exact Hni' | discriminate].
Qed.

Definition rres_rel (x : list item * outcome * rstate_r HO) (y : list item * outcome * rstate HO) : Prop :=
  fst x = fst y /\ rr_iter HO (snd x) = r_iter HO (snd y) /\ rr_stack HO (snd x) = r_stack HO (snd y) /\
  (outcome_not_found (snd (fst x)) = false -> rd_rest HO (rr_rd HO (snd x)) = r_enc HO (snd y)).

Definition rd_step_r (sa : rstate_r HO * list item) : rstate_r HO * list item + list item * outcome * rstate_r HO :=
  match rd_next_r HO (fst sa) with
  | None => inr (rev (snd sa), Finished, fst sa)
  | Some (Ok it, st') => inl (st', it :: snd sa)
  | Some (Err e, st') => inr (rev (snd sa), Failed e, st')
  | Some (Panic, st') => inr (rev (snd sa), Panicked, st')
  end.
Definition rd_step_p (sa : rstate HO * list item) : rstate HO * list item + list item * outcome * rstate HO :=
  match rd_next HO (fst sa) with
  | RDone _ => inr (rev (snd sa), Finished, fst sa)
  | RMore st' (Ok it) => inl (st', it :: snd sa)
  | RMore st' (Err e) => inr (rev (snd sa), Failed e, st')
  | RMore st' Panic => inr (rev (snd sa), Panicked, st')
  end.
Definition rrel_acc (s : rstate_r HO * list item) (t : rstate HO * list item) : Prop :=
  rrel (fst s) (fst t) /\ snd s = snd t.

Lemma rd_step_sim s t : rrel_acc s t -> sum_rel rrel_acc rres_rel (rd_step_r s) (rd_step_p t).
Proof.
  destruct s as [s acc], t as [t acc']. intros [Hst Hacc]. cbn [fst snd] in *. subst acc'.
  unfold rd_step_r, rd_step_p. cbn [fst snd].
  pose proof (rd_next_sim s t Hst) as Hn.
  destruct (rd_next_r HO s) as [[x s']|], (rd_next HO t) as [t' y|rest]; try contradiction.
  - destruct Hn as [<- (Hi & Hs & Hf & Hni & Hr)].
    destruct x as [it|e|]; unfold sum_rel.
    + split; [|reflexivity]. cbn [fst]. unfold rrel. repeat split; try assumption. now apply Hr.
    + unfold rres_rel. cbn [fst snd]. repeat split; assumption.
    + unfold rres_rel. cbn [fst snd]. repeat split; assumption.
  - unfold sum_rel, rres_rel. cbn [fst snd]. destruct Hst as (Hi & Hs & Hr & Hf & Hni). now repeat split.
Qed.

Lemma rd_run_sim_d d a b :
  rrel a b ->
  rres_rel (match loop2 d rd_step_r (a, []) with inr r => r | inl sa => (rev (snd sa), OutOfFuel, fst sa) end)
           (match loop2 d rd_step_p (b, []) with inr r => r | inl sa => (rev (snd sa), OutOfFuel, fst sa) end).
Proof.
  intros Hab.
  pose proof (loop2_sim rrel_acc rres_rel rd_step_r rd_step_p rd_step_sim d (a, []) (b, []) (conj Hab eq_refl)) as Hsim.
  unfold sum_rel in Hsim.
  destruct (loop2 d rd_step_r (a, [])) as [[s acc]|rx], (loop2 d rd_step_p (b, [])) as [[t acc']|ry]; try contradiction.
  - destruct Hsim as [(Hi & Hs & Hr & Hf & Hni) Hacc]. cbn [fst snd] in *. subst acc'.
    unfold rres_rel. cbn [fst snd]. now repeat split.
  - exact Hsim.
Qed.

Lemma rd_run_sim a b : rrel a b -> rres_rel (rd_run_r HO a) (rd_run HO b).
Proof. exact (rd_run_sim_d LOOP_DEPTH a b). Qed.

Lemma rrel_init root q t (stream : bytes) (sched : list ev) :
  (forall e, In e sched -> e <> EIntr) ->
  rrel (rd_new_r HO root q t (mkRd HO stream sched 0 None)) (rd_new HO root q t stream).
Proof.
  intros Hni. unfold rrel, rd_new_r, rd_new. cbn [rr_iter rr_stack rr_rd r_iter r_stack r_enc rd_rest rd_fail].
  repeat split. exact Hni.
Qed.

Theorem decode_indep_fsm root q t (stream : bytes) (sched : list ev) :
  (forall e, In e sched -> e <> EIntr) ->
  fst (rd_run_r HO (rd_new_r HO root q t (mkRd HO stream sched 0 None)))
  = fst (rd_run HO (rd_new HO root q t stream)).
Proof. intros Hni. exact (proj1 (rd_run_sim _ _ (rrel_init root q t stream sched Hni))). Qed.

Lemma rres_rel_elim x y : rres_rel x y ->
  rr_iter HO (snd x) = r_iter HO (snd y) /\ rr_stack HO (snd x) = r_stack HO (snd y) /\
  (match snd (fst x) with Failed (DParentNotFound _) | Failed (DLeafNotFound _) => true | _ => false end = false ->
   rd_rest HO (rr_rd HO (snd x)) = r_enc HO (snd y)).
Proof. intros H. exact (proj2 H). Qed.

Theorem decode_indep_fsm_state root q t (stream : bytes) (sched : list ev) :
  (forall e, In e sched -> e <> EIntr) ->
  let x := rd_run_r HO (rd_new_r HO root q t (mkRd HO stream sched 0 None)) in
  let y := rd_run HO (rd_new HO root q t stream) in
  rr_iter HO (snd x) = r_iter HO (snd y) /\ rr_stack HO (snd x) = r_stack HO (snd y) /\
  (match snd (fst x) with Failed (DParentNotFound _) | Failed (DLeafNotFound _) => true | _ => false end = false ->
   rd_rest HO (rr_rd HO (snd x)) = r_enc HO (snd y)).
Proof. intros Hni x y. apply rres_rel_elim. exact (rd_run_sim _ _ (rrel_init root q t stream sched Hni)). Qed.

(* why no Interrupted: neither the parent read (tokio read_exact) nor the leaf read (tokio
   take(len).read_to_end) retries it *)
Theorem tokio_read_n_interrupted :
  tokio_read_n HO (mkRd HO [bzero HO] [EIntr] 0 None) 1 = (Err KInterrupted, mkRd HO [bzero HO] [] 1 None).
Proof. reflexivity. Qed.

(* ... and the decoder turns it into Io(Interrupted), where the plain run reports ParentNotFound *)
Theorem decode_fsm_interrupted_differs :
  fst (rd_run_r HO (rd_new_r HO [] [0] (mkTree 2048 0) (mkRd HO [] [EIntr] 0 None))) = ([], Failed (DIo KInterrupted)) /\
  fst (rd_run HO (rd_new HO [] [0] (mkTree 2048 0) [])) = ([], Failed (DParentNotFound 0)).
Proof. split; vm_compute; reflexivity. Qed.

(* the leaf read (iroh-io read_bytes = tokio take(len).read_to_end) does not retry it either: one byte, then an
   Interrupted, with both bytes of the read available *)
Theorem tokio_read_bytes_interrupted_is_propagated :
  tokio_read_bytes_exact HO (mkRd HO [bzero HO; bzero HO] [EFrag 1; EIntr] 0 None) 2
  = (Err KInterrupted, mkRd HO [bzero HO] [] 2 None).
Proof. reflexivity. Qed.

(* the run over the plain bytes never reports an io error *)
Lemma loop2_inr_inv {S1 R1} (P : R1 -> Prop) (f : S1 -> S1 + R1) :
  (forall s r, f s = inr r -> P r) -> forall d s r, loop2 d f s = inr r -> P r.
Proof.
  intros H. induction d as [|d IH]; intros s r; cbn [loop2]; [apply H|].
  destruct (loop2 d f s) as [s'|r'] eqn:E.
  - apply IH.
  - intros [= <-]. eapply IH. exact E.
Qed.
Lemma rd_next_no_io b : match rd_next HO b with RMore _ (Err (DIo _)) => False | _ => True end.
Proof.
  unfold rd_next. destruct (response_next (r_iter HO b)) as [[c it']|]; [|exact I].
  destruct c as [node is_root lf rt rs | start size is_root rs]; cbv zeta.
  - destruct (blen HO (r_enc HO b) <? 64); [exact I|].
    destruct (parse_pair HO (take HO 64 (r_enc HO b))) as [l r].
    destruct (r_stack HO b) as [|ph stk]; [exact I|].
    destruct (negb (bytes_eqb HO ph (parent_cv HO l r is_root))); exact I.
  - destruct (blen HO (r_enc HO b) <? size); [exact I|].
    destruct (r_stack HO b) as [|lh stk]; [exact I|].
    destruct (negb (bytes_eqb HO lh (hash_subtree HO start (take HO size (r_enc HO b)) is_root))); exact I.
Qed.
Lemma rd_step_p_no_io k s r : rd_step_p s = inr r -> snd (fst r) <> Failed (DIo k).
Proof.
  unfold rd_step_p. pose proof (rd_next_no_io (fst s)) as Hn.
  destruct (rd_next HO (fst s)) as [st' [it|e|]|rest]; intros [= <-]; cbn [fst snd]; try discriminate.
  destruct e; try discriminate. contradiction.
Qed.
Lemma rd_run_no_io_d k d b :
  snd (fst (match loop2 d rd_step_p (b, []) with inr r => r | inl sa => (rev (snd sa), OutOfFuel, fst sa) end))
  <> Failed (DIo k).
Proof.
  destruct (loop2 d rd_step_p (b, [])) as [sa|r] eqn:E; [cbn [fst snd]; discriminate|].
  exact (loop2_inr_inv (fun r => snd (fst r) <> Failed (DIo k)) rd_step_p (rd_step_p_no_io k) d _ _ E).
Qed.
Theorem rd_run_no_io b k : snd (fst (rd_run HO b)) <> Failed (DIo k).
Proof. exact (rd_run_no_io_d k LOOP_DEPTH b). Qed.

(* the fsm decoder with the Interrupted hitting a LEAF read (one leaf of 2 bytes): Io(Interrupted), which the
   run over the plain bytes never reports *)
Theorem decode_fsm_leaf_interrupted_is_propagated root :
  fst (rd_run_r HO (rd_new_r HO root [0] (mkTree 2 0) (mkRd HO [bzero HO; bzero HO] [EFrag 1; EIntr] 0 None)))
    = ([], Failed (DIo KInterrupted)) /\
  snd (fst (rd_run HO (rd_new HO root [0] (mkTree 2 0) [bzero HO; bzero HO]))) <> Failed (DIo KInterrupted).
Proof. split; [vm_compute; reflexivity | apply rd_run_no_io]. Qed.

End DecodeIndepFsm.
