(* Gap audit (C07), part 2: the frame of a decode history as an explicit theorem, relative to an ARBITRARY
   initial state (any target bytes of the blob's length, any pre-sized outboard of any content).
     InvR t0 ob0 D P (t, ob):   D = chunks delivered so far, P = nodes whose pair has been saved so far
       - chunk c of the target holds the blob's bytes if D c, and the bytes of t0 otherwise;
       - the slot of a persisted node nd holds the blob's pair if P nd, and what ob0 held otherwise;
       - every node on the path of the group of a delivered chunk has been saved.
   Every step of a history (any stream, any sink faults, sync or fsm) takes InvR to InvR with
   D := D or delivered ys, P := P or saved ys for the prefix ys of the honest encoding that the step applied. *)
From BaoV Require Import Model.IO Spec.RangeSpec Spec.PlanSpec Spec.PlanWf Spec.NodeSpec Spec.EncSpec Spec.HashAssm.
From BaoV Require Import Proofs.RangeBase Proofs.BridgeBase Proofs.BridgeTree Proofs.BridgeLeaves
  Proofs.DecForest Proofs.DecRanges Proofs.IOSinkFaults Proofs.E2EMisc
  Proofs.ValSpec Proofs.ValPath Proofs.ValTop Proofs.ValSound
  Proofs.HistOb Proofs.HistPath Proofs.HistEnc Proofs.HistInv Proofs.HistStep
  Proofs.FinalStore Proofs.FinalConv
  Proofs.E2EDownload Proofs.E2EDownloadStep Proofs.E2EDownloadConv Proofs.GapPairs Proofs.GapHNodes.
From Coq Require Import ZArith Lia.
Open Scope N_scope.
Arguments N.add : simpl never.
Arguments N.sub : simpl never.
Arguments N.mul : simpl never.
Arguments N.pow : simpl never.
Arguments N.div : simpl never.
Arguments N.modulo : simpl never.
Arguments N.log2 : simpl never.
Arguments N.min : simpl never.
Arguments N.max : simpl never.

(* ---------- a store all of whose slots hold the pair (h, h) ---------- *)
Section Fill.
Variable HO : hops.
Notation bytes := (bytes HO).
Notation hash := (hash HO).

Definition fill (h : hash) (n : nat) : bytes := concat (repeat (h ++ h) n).

Lemma fill_length h n : length h = 32%nat -> length (fill h n) = (n * 64)%nat.
Proof.
  intro Hl. unfold fill. induction n as [|n IH]; [reflexivity|].
  cbn [repeat concat]. rewrite !app_length, IH, Hl. lia.
Qed.

Lemma block_slot (x : bytes) : forall n o, (o < n)%nat ->
  firstn (length x) (skipn (o * length x) (concat (repeat x n))) = x.
Proof.
  induction n as [|n IH]; intros o Ho; [lia|].
  change (concat (repeat x (S n))) with (x ++ concat (repeat x n)).
  destruct o as [|o].
  - rewrite Nat.mul_0_l. change (skipn 0 (x ++ concat (repeat x n))) with (x ++ concat (repeat x n)).
    rewrite firstn_app, Nat.sub_diag, firstn_all, firstn_O. apply app_nil_r.
  - replace (S o * length x)%nat with (length x + o * length x)%nat by lia.
    rewrite skipn_app, skipn_all2 by lia. replace (length x + o * length x - length x)%nat with (o * length x)%nat by lia.
    rewrite app_nil_l. apply IH. lia.
Qed.

Lemma fill_slot h : length h = 32%nat -> forall n o, (o < n)%nat ->
  firstn 64 (skipn (o * 64) (fill h n)) = h ++ h.
Proof.
  intros Hl n o Ho. assert (L : length (h ++ h) = 64%nat) by (rewrite app_length, Hl; reflexivity).
  rewrite <- L. apply block_slot. exact Ho.
Qed.
End Fill.

Section Frame.
Variable HO : hops.
Hypothesis HOK : hash_ok HO.
Notation bytes := (bytes HO).
Notation hash := (hash HO).
Notation outboard := (outboard HO).
Notation item := (item HO).

Variable data : bytes.
Variable bs : N.
Hypothesis Hsize : blen HO data <= 2 ^ 63.
Hypothesis Hbs : bs <= 10.
Let size := blen HO data.
Let nc := nchunks size.
Let g := 2 ^ bs.
Let B := sp_blocks size bs.

(* two different 32-byte values *)
Definition hA : hash := chunk_cv HO 0 [] false.
Definition hB : hash := chunk_cv HO 1 [] false.

Lemma hA_len : length hA = 32%nat.
Proof. exact (ho_len HO HOK (InChunk HO 0 [] false) ltac:(cbn; lia)). Qed.
Lemma hB_len : length hB = 32%nat.
Proof. exact (ho_len HO HOK (InChunk HO 1 [] false) ltac:(cbn; lia)). Qed.
Lemma hA_neq_hB : hA <> hB.
Proof.
  intro E. pose proof (ho_inj HO HOK (InChunk HO 0 [] false) (InChunk HO 1 [] false) ltac:(cbn; lia) ltac:(cbn; lia) E) as X.
  discriminate X.
Qed.

Definition fill_ob (h : hash) : outboard := mkOb PreMem (root_hash HO data) (mkTree size bs) (fill HO h (N.to_nat (B - 1))).

Lemma fill_sized h : length h = 32%nat -> ob_sized HO (fill_ob h) size bs.
Proof.
  intro Hl. constructor; cbn [fill_ob ob_k ob_tree ob_data]; [right; right; now left|reflexivity|].
  unfold blen. rewrite fill_length by exact Hl. fold B. lia.
Qed.

Lemma fill_stored h nd : length h = 32%nat -> pnode size bs nd -> stored_pair HO (fill_ob h) nd = Some (h, h).
Proof.
  intros Hl Hp. pose proof (fill_sized h Hl) as Hs.
  destruct (pnode_offset HO size bs Hsize Hbs (fill_ob h) nd Hs Hp) as (o & Ho & Hlt). fold B in Hlt.
  unfold stored_pair. rewrite (proj1 (sized_load HO size bs Hsize Hbs (fill_ob h) nd o Hs Ho Hlt)).
  cbn [fill_ob ob_data]. unfold slice, take, drop.
  replace (N.to_nat (o * 64)) with (N.to_nat o * 64)%nat by lia. change (N.to_nat 64) with 64%nat.
  rewrite (fill_slot HO h Hl) by lia. now rewrite parse_combine.
Qed.

(* parents are saved before the leaves below them: in a prefix of the honest encoding, every node on the path of
   the group of a delivered chunk is the node of a parent item of the prefix *)
Lemma path_saved q ys c nd rt : wf_ranges q = true -> is_prefix ys (honest HO data bs q) ->
  delivered HO ys c = true -> In (nd, rt) (top_path size bs (c / g)) -> saved HO ys nd = true.
Proof.
  intros Hwf Hp Hd Hin. destruct (saved HO ys nd) eqn:Es; [reflexivity|exfalso].
  pose proof (top_path_pnode size bs Hsize Hbs (c / g) nd rt Hin) as Hpn.
  pose proof (honest_parents_ok HO (ho_len HO HOK) data bs Hsize Hbs q ys Hwf Hp) as Hok.
  destruct Hp as [rest Hp].
  assert (X : forall h, length h = 32%nat -> Some (h, h) = Some (true_pair HO data nd)).
  { intros h Hl. pose proof (fill_sized h Hl) as Hs.
    destruct (honest_good HO HOK data bs Hsize Hbs q ys rest data (fill_ob h) Hp eq_refl Hs) as (t' & ob' & A1 & _ & _ & A4).
    destruct (apply_items_slots HO data bs Hsize Hbs ys data (fill_ob h) Hok Hs) as (t2 & ob2 & A1' & _ & _ & _ & F).
    rewrite A1 in A1'. injection A1' as <- <-.
    specialize (F nd Hpn). rewrite Es, (fill_stored h nd Hl Hpn) in F.
    destruct (A4 c Hd) as [_ Z]. rewrite <- F. apply Z. apply (in_map fst) in Hin. exact Hin. }
  pose proof (X hA hA_len) as E1. pose proof (X hB hB_len) as E2. rewrite <- E2 in E1.
  injection E1 as E _. exact (hA_neq_hB E).
Qed.

(* ---------- the invariant relative to an initial state ---------- *)
Record InvR (t0 : bytes) (ob0 : outboard) (D P : N -> bool) (st : bytes * outboard) : Prop := mk_InvR {
  ir_len : length (fst st) = length data;
  ir_target : forall c, c < nc ->
    chunk_bytes HO (fst st) c (c + 1) = if D c then chunk_bytes HO data c (c + 1) else chunk_bytes HO t0 c (c + 1);
  ir_sized : ob_sized HO (snd st) size bs;
  ir_root : ob_root (snd st) = root_hash HO data;
  ir_kind : ob_k (snd st) = ob_k ob0;
  ir_slots : forall nd, pnode size bs nd ->
    stored_pair HO (snd st) nd = if P nd then Some (true_pair HO data nd) else stored_pair HO ob0 nd;
  ir_paths : forall c, c < nc -> D c = true -> forall nd rt, In (nd, rt) (top_path size bs (c / g)) -> P nd = true }.

Lemma InvR_init (t0 : bytes) (ob0 : outboard) : length t0 = length data -> ob_sized HO ob0 size bs ->
  ob_root ob0 = root_hash HO data -> InvR t0 ob0 (fun _ => false) (fun _ => false) (t0, ob0).
Proof.
  intros Hl Hs Hr. constructor; cbn [fst snd]; try assumption; try reflexivity.
  - intros c _ H. discriminate.
Qed.

(* applying a prefix of the honest encoding of a well-formed query *)
Lemma InvR_apply t0 ob0 D P t ob q ys : wf_ranges q = true -> InvR t0 ob0 D P (t, ob) -> is_prefix ys (honest HO data bs q) ->
  exists t' ob', apply_items HO ys t ob = (SOk, t', ob') /\
    InvR t0 ob0 (fun c => D c || delivered HO ys c) (fun nd => P nd || saved HO ys nd) (t', ob').
Proof.
  intros Hwf [I1 I2 I3 I4 I5 I6 I7] Hp. cbn [fst snd] in *.
  pose proof (honest_parents_ok HO (ho_len HO HOK) data bs Hsize Hbs q ys Hwf Hp) as Hok.
  pose proof Hp as [rest Hp'].
  destruct (honest_good HO HOK data bs Hsize Hbs q ys rest t ob Hp' I1 I3) as (t' & ob' & A1 & [T1 T2] & _ & _).
  destruct (apply_items_slots HO data bs Hsize Hbs ys t ob Hok I3) as (t2 & ob2 & A1' & S' & R' & K' & F).
  rewrite A1 in A1'. injection A1' as <- <-.
  exists t', ob'. split; [exact A1|]. constructor; cbn [fst snd].
  - exact T1.
  - intros c Hc. fold size in T2. fold nc in T2. rewrite (T2 c Hc), (I2 c Hc).
    destruct (D c), (delivered HO ys c); reflexivity.
  - exact S'.
  - congruence.
  - congruence.
  - intros nd Hn. rewrite (F nd Hn), (I6 nd Hn). destruct (P nd), (saved HO ys nd); reflexivity.
  - intros c Hc Hd nd rt Hin. destruct (delivered HO ys c) eqn:Ed.
    + rewrite (path_saved q ys c nd rt Hwf Hp Ed Hin). apply orb_true_r.
    + rewrite orb_false_r in Hd. rewrite (I7 c Hc Hd nd rt Hin). reflexivity.
Qed.

(* a step of a history *)
Theorem InvR_step t0 ob0 D P st (o : op HO) : wf_ranges (op_q HO o) = true -> InvR t0 ob0 D P st ->
  exists ys, is_prefix ys (honest HO data bs (op_q HO o)) /\
    InvR t0 ob0 (fun c => D c || delivered HO ys c) (fun nd => P nd || saved HO ys nd) (hist_step HO st o).
Proof.
  intros Hwf I. destruct st as [t ob]. destruct o as [q enc sf fsm]. cbn [op_q] in *.
  pose proof (os_tree HO ob size bs (ir_sized _ _ _ _ _ I)) as Ht.
  pose proof (ir_root _ _ _ _ _ I) as Hr. cbn [snd] in Ht, Hr.
  destruct fsm.
  - destruct (fsm_step_prefix HO HOK data bs Hsize Hbs sf enc q t ob Hwf Ht Hr) as (ys & Hp & Hres).
    destruct (InvR_apply t0 ob0 D P t ob q ys Hwf I Hp) as (t' & ob' & A1 & I').
    exists ys. split; [exact Hp|].
    rewrite (step_result_fsm HO t ob q enc sf t' ob' (Hres t' ob' A1)). exact I'.
  - destruct (sync_step_prefix HO HOK data bs Hsize Hbs sf enc q t ob Hwf Ht Hr) as (ys & Hp & Hres).
    destruct (InvR_apply t0 ob0 D P t ob q ys Hwf I Hp) as (t' & ob' & A1 & I').
    exists ys. split; [exact Hp|].
    rewrite (step_result_sync HO t ob q enc sf t' ob' (Hres t' ob' A1)). exact I'.
Qed.

Theorem InvR_history t0 ob0 ops : Forall (fun o => wf_ranges (op_q HO o) = true) ops ->
  forall D P st, InvR t0 ob0 D P st ->
  exists D' P', InvR t0 ob0 D' P' (fold_left (hist_step HO) ops st) /\
    (forall c, D c = true -> D' c = true) /\ (forall nd, P nd = true -> P' nd = true).
Proof.
  induction 1 as [|o ops Ho _ IH]; intros D P st I; cbn [fold_left].
  - exists D, P. split; [exact I|]. split; auto.
  - destruct (InvR_step t0 ob0 D P st o Ho I) as (ys & _ & I1).
    destruct (IH _ _ _ I1) as (D' & P' & I2 & HmD & HmP). exists D', P'. split; [exact I2|]. split.
    + intros c Hc. apply HmD. now rewrite Hc.
    + intros nd Hn. apply HmP. now rewrite Hn.
Qed.

(* the bytes of the slots of nodes that were not saved are those of the initial store; with C12_pre_offsets /
   C12_post_offsets (every slot index below blocks - 1 is the offset of a persisted node) this covers every byte *)
Theorem InvR_slot_bytes t0 ob0 D P st nd : InvR t0 ob0 D P st -> ob_sized HO ob0 size bs ->
  pnode size bs nd -> P nd = false ->
  exists o, ob_offset HO (snd st) nd = Some o /\ ob_offset HO ob0 nd = Some o /\ o < B - 1 /\
            slice HO (o * 64) 64 (ob_data (snd st)) = slice HO (o * 64) 64 (ob_data ob0).
Proof.
  intros I Hs0 Hp HP.
  apply (stored_pair_slot HO data bs Hsize Hbs (snd st) ob0 nd (ir_sized _ _ _ _ _ I) Hs0 (ir_kind _ _ _ _ _ I) Hp).
  rewrite (ir_slots _ _ _ _ _ I nd Hp), HP. reflexivity.
Qed.

(* the invariant of Props/C07.v is the instance for the all-zero initial state *)
Theorem InvR_zero_Inv k D P st : hist_kind k ->
  InvR (init_target HO data) (init_ob HO data bs k) D P st -> Inv HO data bs D st.
Proof.
  intros Hk [I1 I2 I3 I4 I5 I6 I7].
  pose proof (init_inv HO data bs Hsize Hbs k Hk) as [_ _ _ _ _ Z6 _]. cbn [snd] in Z6.
  constructor; try assumption.
  - intros c Hc Hd. fold size in I2. rewrite (I2 c Hc), Hd. reflexivity.
  - intros c Hc Hd. rewrite (I2 c Hc), Hd. reflexivity.
  - intros nd Hn. rewrite (I6 nd Hn). destruct (P nd); [now right|]. destruct (Z6 nd Hn) as [E|E]; [now left|now right].
  - intros c Hc Hd nd rt Hin. fold size in Hin. rewrite (I6 nd (top_path_pnode size bs Hsize Hbs (c / g) nd rt Hin)).
    rewrite (I7 c Hc Hd nd rt Hin). reflexivity.
Qed.

(* convergence from ANY initial content: once every chunk is delivered the target is the blob and the store is
   the blob's created store *)
Theorem InvR_converges t0 ob0 D P st : InvR t0 ob0 D P st -> hist_kind (ob_k ob0) ->
  (forall c, c < nc -> D c = true) ->
  fst st = data /\ created_store HO data bs (snd st).
Proof.
  intros [I1 I2 I3 I4 I5 I6 I7] Hk HD. split.
  - apply chunks_eq_all; [exact I1|]. intros c Hc. fold size in Hc. fold nc in Hc. rewrite (I2 c Hc), (HD c Hc). reflexivity.
  - assert (Hall : forall nd, pnode size bs nd -> stored_pair HO (snd st) nd = Some (true_pair HO data nd)).
    { intros nd Hp. destruct (pnode_on_top_path size bs Hsize Hbs nd Hp) as (ga & rt & Hga & Hin).
      destruct (grp_bounds HO data bs Hsize Hbs ga Hga) as (G1 & G2 & G3). fold size in G1, G2, G3.
      rewrite (I6 nd Hp).
      assert (Hc : grp_start bs ga < nc) by (unfold nc; lia).
      rewrite (I7 (grp_start bs ga) Hc (HD _ Hc) nd rt); [reflexivity|].
      unfold g. rewrite (G3 (grp_start bs ga)) by lia. exact Hin. }
    pose proof (sized_true_is_spec HO (ho_len HO HOK) data bs Hsize Hbs (snd st) I3 Hall) as Hd.
    destruct I3 as [K T L]. constructor; assumption.
Qed.

(* ---------- histories with faults in the middle ---------- *)
Lemma prefix_dec : forall h s : bytes, (exists rest, s = h ++ rest) \/ ~ (exists rest, s = h ++ rest).
Proof.
  induction h as [|x h IH]; intros s; [left; now exists s|].
  destruct s as [|y s]; [right; intros [r Hr]; discriminate|].
  destruct (beq HO x y) eqn:E.
  - apply (ho_beq HO HOK) in E. subst y. destruct (IH s) as [[r Hr]|Hn].
    + left. exists r. cbn [app]. now rewrite Hr.
    + right. intros [r Hr]. cbn [app] in Hr. injection Hr as Hr. apply Hn. now exists r.
  - right. intros [r Hr]. cbn [app] in Hr. injection Hr as Hx _.
    assert (X : beq HO x y = true) by (apply (ho_beq HO HOK); now symmetry). congruence.
Qed.

Lemma sf_eq_dec (a b : sink_faults) : {a = b} + {a <> b}.
Proof. repeat decide equality. Qed.

Lemma honest_op_dec (o : op HO) : honest_op HO data bs o \/ ~ honest_op HO data bs o.
Proof.
  unfold honest_op. destruct (wf_ranges (op_q HO o)) eqn:Ew; [|right; intros (H & _); discriminate].
  destruct (sf_eq_dec (op_sf HO o) no_faults) as [Es|Es]; [|right; intros (_ & H & _); contradiction].
  destruct (prefix_dec (flat HO (honest HO data bs (op_q HO o))) (op_enc HO o)) as [Hp|Hp].
  - left. split; [reflexivity|]. split; assumption.
  - right. intros (_ & _ & H). contradiction.
Qed.

(* the steps of ops that are fault-free and read the complete honest encoding of their query (followed by any
   bytes) deliver their whole selection, whatever the other steps (failed, truncated, corrupted) did *)
Lemma mixed_history_inv ops : Forall (fun o => wf_ranges (op_q HO o) = true) ops ->
  forall D st, Inv HO data bs D st ->
  exists D', Inv HO data bs D' (fold_left (hist_step HO) ops st) /\ (forall c, D c = true -> D' c = true) /\
    (forall o c, In o ops -> honest_op HO data bs o -> sel (op_q HO o) size c = true -> D' c = true).
Proof.
  induction 1 as [|o ops Ho _ IH]; intros D st I; cbn [fold_left].
  - exists D. split; [exact I|]. split; [auto|]. intros o c [].
  - destruct (honest_op_dec o) as [Hh|Hh].
    + pose proof (honest_op_step HO HOK data bs Hsize Hbs D st o Hh I) as I1.
      destruct (IH _ _ I1) as (D' & I2 & Hm & Hg). exists D'. split; [exact I2|]. split.
      * intros c Hc. apply Hm. now rewrite Hc.
      * intros o' c [<-|Hin] Hh' Hs; [apply Hm; fold size; rewrite Hs; apply orb_true_r|exact (Hg o' c Hin Hh' Hs)].
    + destruct (inv_step HO HOK data bs Hsize Hbs D st o Ho I) as (ys & _ & I1).
      destruct (IH _ _ I1) as (D' & I2 & Hm & Hg). exists D'. split; [exact I2|]. split.
      * intros c Hc. apply Hm. now rewrite Hc.
      * intros o' c [<-|Hin] Hh' Hs; [contradiction|exact (Hg o' c Hin Hh' Hs)].
Qed.

End Frame.

(* ---------- closed forms used by Props/C07.v ---------- *)
Theorem gaph_InvR_def : forall (HO : hops) (data : bytes HO) (bs : N) (t0 : bytes HO) (ob0 : outboard HO)
  (D P : N -> bool) (st : bytes HO * outboard HO),
  InvR HO data bs t0 ob0 D P st <->
  (length (fst st) = length data /\
   (forall c, c < nchunks (blen HO data) ->
      chunk_bytes HO (fst st) c (c + 1) = if D c then chunk_bytes HO data c (c + 1) else chunk_bytes HO t0 c (c + 1)) /\
   ob_sized HO (snd st) (blen HO data) bs /\
   ob_root (snd st) = root_hash HO data /\
   ob_k (snd st) = ob_k ob0 /\
   (forall nd, pnode (blen HO data) bs nd ->
      stored_pair HO (snd st) nd = if P nd then Some (true_pair HO data nd) else stored_pair HO ob0 nd) /\
   (forall c, c < nchunks (blen HO data) -> D c = true ->
      forall nd rt, In (nd, rt) (top_path (blen HO data) bs (c / 2 ^ bs)) -> P nd = true)).
Proof.
  intros. split.
  - intros [I1 I2 I3 I4 I5 I6 I7]. split; [exact I1|]. split; [exact I2|]. split; [exact I3|]. split; [exact I4|]. split; [exact I5|]. split; [exact I6|exact I7].
  - intros (I1 & I2 & I3 & I4 & I5 & I6 & I7). constructor; assumption.
Qed.

Theorem gaph_saved_def : forall (HO : hops) (ys : list (item HO)) (nd : N),
  saved HO ys nd = true <-> exists l r, In (IParent nd l r) ys.
Proof. exact saved_In. Qed.

Theorem gaph_InvR_init : forall (HO : hops) (data : bytes HO) (bs : N) (t0 : bytes HO) (ob0 : outboard HO),
  length t0 = length data -> ob_sized HO ob0 (blen HO data) bs -> ob_root ob0 = root_hash HO data ->
  InvR HO data bs t0 ob0 (fun _ => false) (fun _ => false) (t0, ob0).
Proof. exact InvR_init. Qed.

Theorem gaph_InvR_step : forall (HO : hops), hash_ok HO ->
  forall (data : bytes HO) (bs : N), blen HO data <= 2 ^ 63 -> bs <= 10 ->
  forall (t0 : bytes HO) (ob0 : outboard HO) (D P : N -> bool) (st : bytes HO * outboard HO) (o : op HO),
  wf_ranges (op_q HO o) = true -> InvR HO data bs t0 ob0 D P st ->
  exists ys, is_prefix ys (honest HO data bs (op_q HO o)) /\
    InvR HO data bs t0 ob0 (fun c => D c || delivered HO ys c) (fun nd => P nd || saved HO ys nd) (hist_step HO st o).
Proof. intros HO HOK data bs Hs Hb. exact (InvR_step HO HOK data bs Hs Hb). Qed.

Theorem gaph_InvR_history : forall (HO : hops), hash_ok HO ->
  forall (data : bytes HO) (bs : N), blen HO data <= 2 ^ 63 -> bs <= 10 ->
  forall (t0 : bytes HO) (ob0 : outboard HO) (ops : list (op HO)),
  Forall (fun o => wf_ranges (op_q HO o) = true) ops ->
  forall (D P : N -> bool) (st : bytes HO * outboard HO), InvR HO data bs t0 ob0 D P st ->
  exists D' P', InvR HO data bs t0 ob0 D' P' (fold_left (hist_step HO) ops st) /\
    (forall c, D c = true -> D' c = true) /\ (forall nd, P nd = true -> P' nd = true).
Proof. intros HO HOK data bs Hs Hb t0 ob0. exact (InvR_history HO HOK data bs Hs Hb t0 ob0). Qed.

Theorem gaph_path_saved : forall (HO : hops), hash_ok HO ->
  forall (data : bytes HO) (bs : N), blen HO data <= 2 ^ 63 -> bs <= 10 ->
  forall (q : ranges) (ys : list (item HO)) (c nd : N) (rt : bool),
  wf_ranges q = true -> is_prefix ys (honest HO data bs q) -> delivered HO ys c = true ->
  In (nd, rt) (top_path (blen HO data) bs (c / 2 ^ bs)) -> saved HO ys nd = true.
Proof. intros HO HOK data bs Hs Hb. exact (path_saved HO HOK data bs Hs Hb). Qed.

Theorem gaph_InvR_slot_bytes : forall (HO : hops) (data : bytes HO) (bs : N), blen HO data <= 2 ^ 63 -> bs <= 10 ->
  forall (t0 : bytes HO) (ob0 : outboard HO) (D P : N -> bool) (st : bytes HO * outboard HO) (nd : N),
  InvR HO data bs t0 ob0 D P st -> ob_sized HO ob0 (blen HO data) bs ->
  pnode (blen HO data) bs nd -> P nd = false ->
  exists o, ob_offset HO (snd st) nd = Some o /\ ob_offset HO ob0 nd = Some o /\ o < sp_blocks (blen HO data) bs - 1 /\
            slice HO (o * 64) 64 (ob_data (snd st)) = slice HO (o * 64) 64 (ob_data ob0).
Proof. intros HO data bs Hs Hb. exact (InvR_slot_bytes HO data bs Hs Hb). Qed.

Theorem gaph_InvR_zero_Inv : forall (HO : hops) (data : bytes HO) (bs : N), blen HO data <= 2 ^ 63 -> bs <= 10 ->
  forall k D P st, hist_kind k ->
  InvR HO data bs (init_target HO data) (init_ob HO data bs k) D P st -> Inv HO data bs D st.
Proof. intros HO data bs Hs Hb. exact (InvR_zero_Inv HO data bs Hs Hb). Qed.

Theorem gaph_InvR_converges : forall (HO : hops), hash_ok HO ->
  forall (data : bytes HO) (bs : N), blen HO data <= 2 ^ 63 -> bs <= 10 ->
  forall (t0 : bytes HO) (ob0 : outboard HO) (D P : N -> bool) (st : bytes HO * outboard HO),
  InvR HO data bs t0 ob0 D P st -> hist_kind (ob_k ob0) ->
  (forall c, c < nchunks (blen HO data) -> D c = true) ->
  fst st = data /\ created_store HO data bs (snd st).
Proof. intros HO HOK data bs Hs Hb. exact (InvR_converges HO HOK data bs Hs Hb). Qed.

(* any history from ANY initial content (a target of the blob's length, a pre-sized outboard with the blob's root):
   if the steps that were fault-free and read the complete honest encoding of their query select every chunk
   between them, the final state is the blob and the blob's created store - whatever the other steps did *)
Theorem gaph_converges_any_init : forall (HO : hops), hash_ok HO ->
  forall (data : bytes HO) (bs : N), blen HO data <= 2 ^ 63 -> bs <= 10 ->
  forall (t0 : bytes HO) (ob0 : outboard HO),
  length t0 = length data -> ob_sized HO ob0 (blen HO data) bs -> ob_root ob0 = root_hash HO data ->
  forall ops : list (op HO), Forall (fun o => wf_ranges (op_q HO o) = true) ops ->
  exists D' P', InvR HO data bs t0 ob0 D' P' (fold_left (hist_step HO) ops (t0, ob0)) /\
    ((forall c, c < nchunks (blen HO data) -> D' c = true) ->
     fst (fold_left (hist_step HO) ops (t0, ob0)) = data /\
     created_store HO data bs (snd (fold_left (hist_step HO) ops (t0, ob0)))).
Proof.
  intros HO HOK data bs Hs Hb t0 ob0 Hl Hz Hr ops Hops.
  destruct (InvR_history HO HOK data bs Hs Hb t0 ob0 ops Hops _ _ _ (InvR_init HO data bs t0 ob0 Hl Hz Hr)) as (D' & P' & I & _ & _).
  exists D', P'. split; [exact I|]. intro HD.
  exact (InvR_converges HO HOK data bs Hs Hb t0 ob0 D' P' _ I (os_kind HO ob0 _ _ Hz) HD).
Qed.

(* (e) histories with faults in the middle, from the all-zero initial state of any kind: failed, truncated and
   corrupted steps may be interleaved at will with the good ones (honest stream, no sink fault); if the good ones
   select every chunk between them, the final state is the blob and the blob's created store of that kind *)
Theorem gaph_converges_with_faults : forall (HO : hops), hash_ok HO ->
  forall (data : bytes HO) (bs : N), blen HO data <= 2 ^ 63 -> bs <= 10 ->
  forall k, hist_kind k ->
  forall ops : list (op HO), Forall (fun o => wf_ranges (op_q HO o) = true) ops ->
  (forall c, c < nchunks (blen HO data) ->
     exists o, In o ops /\ op_sf HO o = no_faults /\
       (exists rest, op_enc HO o = flat HO (honest HO data bs (op_q HO o)) ++ rest) /\
       sel (op_q HO o) (blen HO data) c = true) ->
  fst (fold_left (hist_step HO) ops (init_target HO data, init_ob HO data bs k)) = data /\
  created_store HO data bs (snd (fold_left (hist_step HO) ops (init_target HO data, init_ob HO data bs k))) /\
  ob_k (snd (fold_left (hist_step HO) ops (init_target HO data, init_ob HO data bs k))) = k.
Proof.
  intros HO HOK data bs Hs Hb k Hk ops Hops Hcov.
  destruct (mixed_history_inv HO HOK data bs Hs Hb ops Hops _ _ (init_inv HO data bs Hs Hb k Hk)) as (D' & I & _ & Hg).
  assert (HD : forall c, c < nchunks (blen HO data) -> D' c = true).
  { intros c Hc. destruct (Hcov c Hc) as (o & Hin & Hsf & Hen & Hsel).
    apply (Hg o c Hin); [|exact Hsel]. split; [|split; assumption].
    rewrite Forall_forall in Hops. exact (Hops o Hin). }
  destruct (inv_converges HO HOK data bs Hs Hb D' _ I HD) as [E C].
  split; [exact E|]. split; [exact C|].
  pose proof (init_sized HO data bs Hs Hb k Hk) as Hz.
  assert (Hroot : ob_root (init_ob HO data bs k) = root_hash HO data) by (unfold init_ob; reflexivity).
  assert (Hlen : length (init_target HO data) = length data) by (unfold init_target, zeros; apply repeat_length).
  pose proof (InvR_init HO data bs (init_target HO data) (init_ob HO data bs k) Hlen Hz Hroot) as I0.
  destruct (InvR_history HO HOK data bs Hs Hb (init_target HO data) (init_ob HO data bs k) ops Hops _ _ _ I0)
    as (D2 & P2 & I2 & _ & _).
  pose proof (ir_kind HO data bs _ _ _ _ _ I2) as Hkk. rewrite Hkk. unfold init_ob. reflexivity.
Qed.

(* the hypotheses are satisfiable with a failing step in the middle: the query "all" decoded with a target write
   that fails at the first leaf, then retried without fault by the other decoder *)
Theorem gaph_converges_with_faults_nonvacuous :
  exists (HO : hops) (data : bytes HO) (bs : N) (k : ob_kind) (ops : list (op HO)),
    hash_ok HO /\ blen HO data <= 2 ^ 63 /\ bs <= 10 /\ hist_kind k /\ length ops = 2%nat /\
    Forall (fun o => wf_ranges (op_q HO o) = true) ops /\
    (exists o, In o ops /\ op_sf HO o <> no_faults) /\
    (forall c, c < nchunks (blen HO data) ->
       exists o, In o ops /\ op_sf HO o = no_faults /\
         (exists rest, op_enc HO o = flat HO (honest HO data bs (op_q HO o)) ++ rest) /\
         sel (op_q HO o) (blen HO data) c = true).
Proof.
  destruct DecWitness.hash_ok_inhabited as [HO HOK].
  set (data := zeros HO 3000). set (bs := 1).
  set (enc := flat HO (honest HO data bs [0]) ++ []).
  set (o1 := mkOp HO [0] enc (mkSF (Some 0) None KOther) false).
  set (o2 := mkOp HO [0] enc no_faults true).
  exists HO, data, bs, PostIO, [o1; o2].
  split; [exact HOK|]. split; [unfold data, blen, zeros; rewrite repeat_length; cbn; lia|].
  split; [unfold bs; lia|]. split; [right; now left|]. split; [reflexivity|].
  split; [repeat constructor|]. split.
  - exists o1. split; [now left|]. cbn [o1 op_sf]. discriminate.
  - intros c Hc. exists o2. split; [right; now left|]. split; [reflexivity|]. split; [exists []; reflexivity|].
    cbn [o2 op_q]. rewrite sel_all. now apply N.ltb_lt.
Qed.
