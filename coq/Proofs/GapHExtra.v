(* Gap audit (C02 / C07), part 7: two complements.
   - C07: the data validators (sync and fsm) in a state of the history invariant of a SINGLE-group blob
     (sp_blocks = 1: C07_validator_exact needs two groups): the blob is reported iff every chunk is delivered,
     whatever the query;
   - C02: the bytes of the target after the decode_ranges round trip into a target of any length, chunk by chunk. *)
From BaoV Require Import Model.IO Model.Sync Model.Fsm Spec.RangeSpec Spec.PlanSpec Spec.NodeSpec Spec.EncSpec Spec.HashAssm.
From BaoV Require Import Proofs.RangeBase Proofs.BridgeBase Proofs.BridgeLeaves Proofs.DecForest Proofs.DecRanges
  Proofs.ValSpec Proofs.ValPath Proofs.ValTop Proofs.ValSound
  Proofs.HistOb Proofs.HistEnc Proofs.HistInv Proofs.HistStep Proofs.FinalConv
  Proofs.GapTarget Proofs.GapHNodes Proofs.GapHShort Proofs.GapHFault.
From Coq Require Import ZArith Lia.
Open Scope N_scope.
Arguments N.add : simpl never.
Arguments N.sub : simpl never.
Arguments N.mul : simpl never.
Arguments N.pow : simpl never.
Arguments N.div : simpl never.
Arguments N.modulo : simpl never.

Theorem val_exact_single : forall (HO : hops), hash_ok HO ->
  forall (data : bytes HO) (bs : N), blen HO data <= 2 ^ 63 -> bs <= 10 ->
  forall D (t : bytes HO) (ob : outboard HO) q,
  Inv HO data bs D (t, ob) -> nondegenerate HO data -> sp_blocks (blen HO data) bs = 1 ->
  valid_ranges HO ob t q =
    ((if forallb D (chunk_range_list 0 (nchunks (blen HO data))) then [(0, chunks (blen HO data))] else []), Ok tt) /\
  valid_ranges_fsm HO ob t q = valid_ranges HO ob t q.
Proof.
  intros HO HOK data bs Hs Hb D t ob q I Hnd HB.
  split; [|exact (proj1 (proj1 (c07_validator_exact_fsm HO HOK data bs Hs Hb D t ob q I)))].
  pose proof I as [I1 I2 I3 I4 I5 I6 I7]. cbn [fst snd] in *.
  pose proof (os_tree HO ob _ _ I4) as Ht.
  assert (Hbt : blen HO t = blen HO data) by (unfold blen; now rewrite I1).
  destruct (forallb D (chunk_range_list 0 (nchunks (blen HO data)))) eqn:Ef.
  - assert (E : t = data).
    { apply (inv_converges_target HO data bs D (t, ob) I). intros c Hc.
      rewrite forallb_forall in Ef. apply Ef. apply crl_in. lia. }
    subst t. exact (single_valid_is_reported HO HOK data bs ob Hs I5 q Ht HB).
  - pose proof (data_single HO (blen HO data) bs q ob Ht t Hbt HB) as E.
    destruct (bytes_eqb HO (hash_subtree HO 0 t true) (ob_root ob)) eqn:Eb; [exfalso|exact E].
    assert (Hne : fst (valid_ranges HO ob t q) <> []) by (rewrite E; discriminate).
    pose proof (single_reported_is_true HO HOK data bs ob Hs Hb I5 q Ht t Hbt HB Hne) as Et.
    apply forallb_false_ex in Ef. destruct Ef as (c & Hc & Hd). apply crl_in in Hc.
    pose proof (I3 c ltac:(lia) Hd) as Ez. rewrite Et in Ez. exact (Hnd c ltac:(lia) Ez).
Qed.

(* the target after the round trip into any sink and any target: nothing from the blob's length on is touched, the
   target never shrinks, and below the blob's length (pad: Props/C01.v) exactly the selected chunks are the blob's *)
Theorem roundtrip_sinks_bytes : forall (HO : hops), hash_ok HO ->
  forall (data : bytes HO) (bs : N), blen HO data <= 2 ^ 63 -> bs <= 10 ->
  forall (q : ranges) (target : bytes HO), wf_ranges q = true ->
  let n := length data in
  let target' := write_leaves HO target (honest HO data bs q) in
  skipn n target' = skipn n target /\ (length target <= length target')%nat /\
  (forall c, c < nchunks (blen HO data) ->
     chunk_bytes HO (pad HO n target') c (c + 1) =
     if sel q (blen HO data) c then chunk_bytes HO data c (c + 1) else chunk_bytes HO (pad HO n target) c (c + 1)) /\
  (length target = length data -> length target' = length data /\
     forall c, c < nchunks (blen HO data) ->
       chunk_bytes HO target' c (c + 1) =
       if sel q (blen HO data) c then chunk_bytes HO data c (c + 1) else chunk_bytes HO target c (c + 1)).
Proof.
  intros HO HOK data bs Hs Hb q target Hwf. cbv zeta.
  destruct (gaph_sinks_nonvacuous HO data bs Hs Hb EmptyOb) as (sink & _ & Hr & Ht & Hk).
  destruct (roundtrip_sinks HO HOK data bs Hs Hb q [] target sink Hwf Hr Ht Hk) as (ob' & (st' & D1 & _) & _).
  remember (write_leaves HO target (honest HO data bs q)) as target' eqn:Et. clear Et.
  pose proof (e2e_decode_ranges_bytes_any_target HO HOK data bs q Hs Hb Hwf
                (flat HO (honest HO data bs q) ++ []) target sink Hr Ht (Ok tt) target' ob'
                (or_introl (ex_intro _ st' D1))) as X. cbv zeta in X.
  destruct X as (S1 & _ & S3 & _ & S5). specialize (S5 eq_refl).
  split; [exact S1|]. split; [exact S3|]. split; [exact S5|].
  intro Hl.
  assert (Hl' : length target' = length data).
  { pose proof (f_equal (@length _) S1) as X. rewrite !skipn_length in X. lia. }
  split; [exact Hl'|]. intros c Hc. pose proof (S5 c Hc) as X.
  rewrite (pad_id HO _ _ Hl'), (pad_id HO _ _ Hl) in X. exact X.
Qed.

Lemma val_exact_single_nonvacuous :
  exists (HO : hops) (data : bytes HO) (bs : N) (k : ob_kind),
    hash_ok HO /\ blen HO data <= 2 ^ 63 /\ bs <= 10 /\ hist_kind k /\
    Inv HO data bs (fun _ => false) (init_target HO data, init_ob HO data bs k) /\
    nondegenerate HO data /\ sp_blocks (blen HO data) bs = 1 /\ nchunks (blen HO data) = 2.
Proof.
  exists DecWitness.term_hops, (repeat wit_byte 2000), 1, PostMem.
  assert (Hl : blen DecWitness.term_hops (repeat wit_byte 2000) = 2000) by (unfold blen; rewrite repeat_length; reflexivity).
  assert (Hs : blen DecWitness.term_hops (repeat wit_byte 2000) <= 2 ^ 63) by (rewrite Hl; cbn; lia).
  assert (Hk : hist_kind PostMem) by (right; right; now right).
  split; [exact DecWitness.term_hops_ok|]. split; [exact Hs|]. split; [lia|]. split; [exact Hk|].
  split; [exact (init_inv DecWitness.term_hops _ 1 Hs ltac:(lia) PostMem Hk)|].
  split; [|rewrite Hl; split; reflexivity].
  unfold nondegenerate. rewrite Hl. change (nchunks 2000) with 2. intros c Hc.
  assert (Hcases : c = 0 \/ c = 1) by lia.
  destruct Hcases as [->| ->]; vm_compute; intro H; discriminate H.
Qed.
