(* Final composition, part 3 (C08): the sync and fsm implementations agree.
   - creation: the two creation loops are the same generic loop (any tree, data, store);
   - decoding: on EVERY stream dec_run and rd_run (set up for the blob's root, tree and a well-formed query)
     yield the same items and the same outcome.  Case split on the longest common prefix of the stream and
     the honest encoding: the whole encoding (both finish, C01_complete) or a departure at byte d
     (both fail at the same item with the same error, C09_exact). *)
From BaoV Require Import Model.Sync Model.Fsm Spec.RangeSpec Spec.PlanSpec Spec.EncSpec Spec.HashAssm Spec.PTree Spec.SpecTree.
From BaoV Require Import Proofs.ObBase Proofs.ObLoop Proofs.ObCreate.
From BaoV Require Import Proofs.DecLoop Proofs.DecHash Proofs.DecForest Proofs.DecConst Proofs.DecRanges Proofs.DecTheorems.
From BaoV Require Import Proofs.E2EGlue Proofs.E2EDecode Proofs.E2ERanges Proofs.E2EMisc.
From Coq Require Import Lia Arith.
Open Scope N_scope.

(* ---------- creation ---------- *)
Section Create.
Variable HO : hops.

Lemma outboard_impl_agree (t : tree) (data : bytes HO) (ob : outboard HO) :
  outboard_impl HO t data ob = outboard_impl_fsm HO t data ob.
Proof.
  unfold outboard_impl, outboard_impl_fsm.
  rewrite outboard_loop_gloop, outboard_loop_fsm_gloop. reflexivity.
Qed.

Lemma outboard_post_order_agree (t : tree) (data : bytes HO) :
  outboard_post_order HO t data = outboard_post_order_fsm HO t data.
Proof.
  unfold outboard_post_order, outboard_post_order_fsm.
  rewrite outboard_po_loop_gloop, outboard_po_loop_fsm_gloop. reflexivity.
Qed.

Lemma init_from_agree (ob : outboard HO) (data : bytes HO) : init_from HO ob data = init_from_fsm HO ob data.
Proof. unfold init_from, init_from_fsm. rewrite outboard_impl_agree. reflexivity. Qed.

Lemma create_sized_agree (k : ob_kind) (data : bytes HO) (size bs : N) :
  create_sized HO k data size bs = create_sized_fsm HO k data size bs.
Proof. unfold create_sized, create_sized_fsm. apply init_from_agree. Qed.
End Create.

Theorem c08_outboard_agree : forall (HO : hops) (data : bytes HO),
  (forall (k : ob_kind) (size bs : N), create_sized HO k data size bs = create_sized_fsm HO k data size bs) /\
  (forall ob : outboard HO, init_from HO ob data = init_from_fsm HO ob data) /\
  (forall (t : tree) (ob : outboard HO), outboard_impl HO t data ob = outboard_impl_fsm HO t data ob) /\
  (forall t : tree, outboard_post_order HO t data = outboard_post_order_fsm HO t data).
Proof.
  intros HO data. split; [intros; apply create_sized_agree|]. split; [intros; apply init_from_agree|].
  split; [intros; apply outboard_impl_agree|intros; apply outboard_post_order_agree].
Qed.

(* ---------- the longest common prefix exists ---------- *)
Section Lcp.
Variable HO : hops.
Hypothesis Hbeq : beq_correct HO.

Lemma byte_eq_dec (x y : B HO) : x = y \/ x <> y.
Proof.
  destruct (beq HO x y) eqn:E.
  - left. apply Hbeq. exact E.
  - right. intro H. apply Hbeq in H. congruence.
Qed.

Lemma lcp_exists : forall (h s : bytes HO),
  (exists r, s = h ++ r) \/ (exists d, (d < length h)%nat /\ lcp_len HO s h d).
Proof.
  induction h as [|y h IH]; intro s.
  - left. exists s. reflexivity.
  - destruct s as [|x s].
    + right. exists 0%nat. cbn [length]. split; [lia|]. unfold lcp_len. cbn [firstn length].
      split; [reflexivity|]. split; [lia|]. split; [lia|]. intros H. lia.
    + destruct (byte_eq_dec x y) as [->|Hne].
      * destruct (IH s) as [(r & ->)|(d & Hd & (L1 & L2 & L3 & L4))].
        -- left. exists r. reflexivity.
        -- right. exists (S d). cbn [length]. split; [lia|]. unfold lcp_len. cbn [firstn length nth_error].
           split; [f_equal; exact L1|]. split; [lia|]. split; [lia|].
           intros A1 A2. apply L4; lia.
      * right. exists 0%nat. cbn [length]. split; [lia|]. unfold lcp_len. cbn [firstn length nth_error].
        split; [reflexivity|]. split; [lia|]. split; [lia|]. intros _ _ H. injection H as H. exact (Hne H).
Qed.
End Lcp.

(* ---------- decoding ---------- *)
(* generic part: an abstract plan tree T with items hon, an iterator yielding its plan (as in Proofs/E2EDecode.v) *)
Section GenericCases.
Variable HO : hops.
Hypothesis HOK : hash_ok HO.
Variable T : ptree HO.
Variable hon : list (item HO).
Variable it0 : ppstate.
Variable root : hash HO.
Hypothesis C : consistent HO T.
Hypothesis L : leaves_ok HO T.
Hypothesis I : items_of HO T = hon.
Hypothesis F : Forall2 (names_item_s HO) (plan_of HO T) hon.
Hypothesis P : run_iter response_next it0 = plan_of HO T.
Variable n : nat.
Hypothesis En : ends_within response_next it0 n.
Hypothesis Bn : N.of_nat n < 2 ^ 64.

Lemma g_cases (stream : bytes HO) :
  (exists rest, stream = flat HO hon ++ rest /\
     (exists st, dec_run HO (mkD HO it0 [cv_of HO T] stream) = (hon, Finished, st) /\ d_enc HO st = rest) /\
     (exists st, rd_run HO (mkR HO it0 [cv_of HO T] stream root) = (hon, Finished, st) /\ Fsm.r_enc HO st = rest)) \/
  (exists (d k : nat) (it : item HO),
     (d < length (flat HO hon))%nat /\ lcp_len HO stream (flat HO hon) d /\
     (length (flat HO (firstn k hon)) <= d)%nat /\ (d < length (flat HO (firstn (S k) hon)))%nat /\
     nth_error hon k = Some it /\
     (forall ys o st, dec_run HO (mkD HO it0 [cv_of HO T] stream) = (ys, o, st) ->
        ys = firstn k hon /\
        o = Failed (item_err HO (length stream <? length (flat HO (firstn (S k) hon)))%nat it)) /\
     (forall ys o st, rd_run HO (mkR HO it0 [cv_of HO T] stream root) = (ys, o, st) ->
        ys = firstn k hon /\
        o = Failed (item_err HO (length stream <? length (flat HO (firstn (S k) hon)))%nat it))).
Proof.
  destruct (lcp_exists HO (ho_beq HO HOK) (flat HO hon) stream) as [(rest & Es)|(d & Hd & Hl)].
  - left. exists rest. split; [exact Es|]. rewrite Es. split.
    + exact (g_roundtrip_sync HO HOK T hon it0 C L I P n En Bn rest).
    + destruct (g_roundtrip_fsm HO HOK T hon it0 root C L I P n En Bn rest) as (st & E1 & E2 & _).
      exists st. split; assumption.
  - right. destruct (g_item_index_exists HO hon d Hd) as (k & Hk).
    pose proof Hk as [K1 K2].
    destruct (g_item_index_at HO T hon I n Bn d k Hk) as [Ek Hp].
    destruct (g_exact_gen HO T hon it0 root F P n En Bn stream d k
                (length stream <? length (flat HO (firstn (S k) hon)))%nat Hk) as (it & Hit & G1 & G2).
    { intros c Ec. rewrite Ek in Ec.
      assert (Hl' : lcp_len HO stream (flat_items HO (items_of HO T)) d) by (rewrite I; exact Hl).
      pose proof (both_exact HO HOK T stream d c C L Hl' Hp Ec) as H. cbv zeta in H.
      rewrite <- Ek in H. rewrite I in H. exact H. }
    exists d, k, it. split; [exact Hd|]. split; [exact Hl|]. split; [exact K1|]. split; [exact K2|].
    split; [exact Hit|]. split; [exact G1|exact G2].
Qed.
End GenericCases.

Section Decode.
Variable HO : hops.
Hypothesis HOK : hash_ok HO.
Variable data : bytes HO.
Variables (bs : N) (q : ranges).
Hypothesis Hsize : blen HO data <= 2 ^ 63.
Hypothesis Hbs : bs <= 10.
Hypothesis Hwf : wf_ranges q = true.

Notation size := (blen HO data).
Notation t := (mkTree (blen HO data) bs).
Notation root := (root_hash HO data).
Notation hon := (honest HO data bs q).

(* what both decoders do on an arbitrary stream, by the longest common prefix with the honest encoding *)
Theorem decode_cases (stream : bytes HO) : q <> [] ->
  (exists rest, stream = flat HO hon ++ rest /\
     (exists st, dec_run HO (dec_new HO root t stream q) = (hon, Finished, st) /\ d_enc HO st = rest) /\
     (exists st, rd_run HO (rd_new HO root q t stream) = (hon, Finished, st) /\ Fsm.r_enc HO st = rest)) \/
  (exists (d k : nat) (it : item HO),
     (d < length (flat HO hon))%nat /\ lcp_len HO stream (flat HO hon) d /\
     (length (flat HO (firstn k hon)) <= d)%nat /\ (d < length (flat HO (firstn (S k) hon)))%nat /\
     nth_error hon k = Some it /\
     (forall ys o st, dec_run HO (dec_new HO root t stream q) = (ys, o, st) ->
        ys = firstn k hon /\
        o = Failed (item_err HO (length stream <? length (flat HO (firstn (S k) hon)))%nat it)) /\
     (forall ys o st, rd_run HO (rd_new HO root q t stream) = (ys, o, st) ->
        ys = firstn k hon /\
        o = Failed (item_err HO (length stream <? length (flat HO (firstn (S k) hon)))%nat it))).
Proof.
  intro Hne.
  destruct (e2e_tree HO HOK data bs q Hsize Hbs Hwf Hne) as (T & C & L & I & F & D1 & D2 & P & n & En & Bn).
  rewrite D1, D2.
  exact (g_cases HO HOK T _ _ root C L I F P n En Bn stream).
Qed.

Theorem decode_agree (stream : bytes HO) :
  fst (dec_run HO (dec_new HO root t stream q)) = fst (rd_run HO (rd_new HO root q t stream)).
Proof.
  destruct q as [|x q0] eqn:Eq.
  - destruct (e2e_empty_query HO data stream bs root t) as (_ & _ & (s1 & E1 & _) & (s2 & E2 & _)).
    rewrite E1, E2. reflexivity.
  - rewrite <- Eq in *. assert (Hne : q <> []) by (rewrite Eq; discriminate).
    destruct (decode_cases stream Hne) as [(rest & _ & (s1 & E1 & _) & (s2 & E2 & _))|
                                           (d & k & it & _ & _ & _ & _ & _ & G1 & G2)].
    + rewrite E1, E2. reflexivity.
    + destruct (dec_run HO (dec_new HO root t stream q)) as [[ys1 o1] st1] eqn:R1.
      destruct (rd_run HO (rd_new HO root q t stream)) as [[ys2 o2] st2] eqn:R2.
      destruct (G1 ys1 o1 st1 eq_refl) as [-> ->]. destruct (G2 ys2 o2 st2 eq_refl) as [-> ->]. reflexivity.
Qed.

End Decode.

Theorem c08_decode_agree : forall (HO : hops), hash_ok HO ->
  forall (data : bytes HO) (bs : N) (q : ranges),
  blen HO data <= 2 ^ 63 -> bs <= 10 -> wf_ranges q = true ->
  forall (stream : bytes HO) ys1 o1 st1 ys2 o2 st2,
  dec_run HO (dec_new HO (root_hash HO data) (mkTree (blen HO data) bs) stream q) = (ys1, o1, st1) ->
  rd_run HO (rd_new HO (root_hash HO data) q (mkTree (blen HO data) bs) stream) = (ys2, o2, st2) ->
  ys1 = ys2 /\ o1 = o2.
Proof.
  intros HO HOK data bs q Hsize Hbs Hwf stream ys1 o1 st1 ys2 o2 st2 R1 R2.
  pose proof (decode_agree HO HOK data bs q Hsize Hbs Hwf stream) as H.
  rewrite R1, R2 in H. cbn [fst] in H. injection H as H1 H2. split; assumption.
Qed.

Theorem c08_decode_cases : forall (HO : hops), hash_ok HO ->
  forall (data : bytes HO) (bs : N) (q : ranges),
  blen HO data <= 2 ^ 63 -> bs <= 10 -> wf_ranges q = true -> q <> [] ->
  forall stream : bytes HO,
  (exists rest, stream = flat HO (honest HO data bs q) ++ rest /\
     (exists st, dec_run HO (dec_new HO (root_hash HO data) (mkTree (blen HO data) bs) stream q)
                 = (honest HO data bs q, Finished, st) /\ d_enc HO st = rest) /\
     (exists st, rd_run HO (rd_new HO (root_hash HO data) q (mkTree (blen HO data) bs) stream)
                 = (honest HO data bs q, Finished, st) /\ Fsm.r_enc HO st = rest)) \/
  (exists (d k : nat) (it : item HO),
     (d < length (flat HO (honest HO data bs q)))%nat /\ lcp_len HO stream (flat HO (honest HO data bs q)) d /\
     (length (flat HO (firstn k (honest HO data bs q))) <= d)%nat /\
     (d < length (flat HO (firstn (S k) (honest HO data bs q))))%nat /\
     nth_error (honest HO data bs q) k = Some it /\
     (forall ys o st,
        dec_run HO (dec_new HO (root_hash HO data) (mkTree (blen HO data) bs) stream q) = (ys, o, st) ->
        ys = firstn k (honest HO data bs q) /\
        o = Failed (item_err HO (length stream <? length (flat HO (firstn (S k) (honest HO data bs q))))%nat it)) /\
     (forall ys o st,
        rd_run HO (rd_new HO (root_hash HO data) q (mkTree (blen HO data) bs) stream) = (ys, o, st) ->
        ys = firstn k (honest HO data bs q) /\
        o = Failed (item_err HO (length stream <? length (flat HO (firstn (S k) (honest HO data bs q))))%nat it))).
Proof.
  intros HO HOK data bs q Hsize Hbs Hwf Hne stream.
  exact (decode_cases HO HOK data bs q Hsize Hbs Hwf stream Hne).
Qed.
