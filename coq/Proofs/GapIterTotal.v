(* Gap audit (C01 / C09 / C16 / C20, "no panic"): the plan iterator INSIDE the decoders never panics.
   Model/Iter.v keeps the panics of PreOrderPartialChunkIterRef::next (the two unwrap()s on a child /
   descendant) as pp_next st = Some None, and response_next - hence dec_next / rd_next - turns such a
   state into "iterator exhausted".  The decoder theorems "o <> Panicked" therefore say nothing about a
   panic of the inner iterator.  Here: in every state the iterator of a decoder can reach (any geometry
   up to 2^63 bytes, block size <= 10, well-formed query) pp_next is never Some None, so "exhausted"
   always means exhausted: after the last item the iterator state has an empty stack and buffer. *)
From BaoV Require Import Model.Fsm Spec.RangeSpec Spec.PlanSpec Spec.PlanWf.
From BaoV Require Import Proofs.NodeLevel Proofs.NodeBits Proofs.NodeAlgebra
  Proofs.RangeBase Proofs.PlanBase Proofs.PlanQuery Proofs.PlanRs Proofs.PlanNav Proofs.PlanRun Proofs.PlanPreIter.
From BaoV Require Proofs.RangeTrunc.
From BaoV Require Import Proofs.DecLoop Proofs.DecConst Proofs.GapPolls.
From Coq Require Import ZArith Lia.
Open Scope N_scope.

(* pre_plan_trace (Proofs/PlanPreIter.v) with the final state exposed *)
Lemma pre_plan_trace_final size bs ml q : size <= 2 ^ 63 -> bs <= 10 -> wf_ranges q = true ->
  exists items, steps pp_next' (pp_new (mkTree size bs) q ml) items (ST size bs ml [] []).
Proof.
  intros Hsize Hbs Hwf. pose proof Hwf as Hwf'. apply wf_iff in Hwf'. destruct Hwf' as [Hq _].
  pose proof (node_ok_root size bs) as Hok.
  pose proof (Pnode_all size bs ml q Hsize Hbs Hq 65 0 (sp_blocks size bs) true true Hok (root_fuel size bs Hsize))
    as PP.
  set (plan := pre_plan_rec 65 size bs ml q 0 (sp_blocks size bs) true true) in *. clearbody plan.
  destruct PP as (P1 & P2 & P3).
  rewrite pp_new_eq. destruct q as [|x q'] eqn:Eq; cbn [r_is_empty].
  - exists []. constructor.
  - rewrite <- Eq in *.
    destruct (P3 q []) as (items & St & Mp).
    + rewrite N.mul_0_l. apply rs_ok_root. exact Hwf.
    + rewrite N.mul_0_l. apply reaches_zero; [assumption|]. rewrite Eq. discriminate.
    + right. right. reflexivity.
    + symmetry. apply N.eqb_refl.
    + exists items. exact St.
Qed.

Lemma pp_next_final size bs ml : pp_next (ST size bs ml [] []) = None.
Proof. reflexivity. Qed.

Section Steps.
Context {St A B : Type} (next : St -> option (A * St)) (f : A -> B).
Let next' (s : St) : option (B * St) := match next s with Some (c, s') => Some (f c, s') | None => None end.

Lemma steps_unmap : forall st l st', steps next' st l st' -> exists l0, steps next st l0 st' /\ map f l0 = l.
Proof.
  induction 1 as [st|st b st1 l st' Hn _ (l0 & Hs & Hm)].
  - exists []. split; [constructor|reflexivity].
  - unfold next' in Hn. destruct (next st) as [[c s1]|] eqn:E; [|discriminate]. injection Hn as <- <-.
    exists (c :: l0). split; [econstructor; eauto|cbn; now rewrite Hm].
Qed.

Lemma steps_suffix : forall st l st1, steps next st l st1 ->
  forall full stf, steps next st full stf -> next stf = None ->
  exists rest, full = l ++ rest /\ steps next st1 rest stf.
Proof.
  induction 1 as [st|st a st1 l st' Hn _ IH]; intros full stf Hf He.
  - exists full. split; [reflexivity|exact Hf].
  - inversion Hf as [|? ? st1' ? ? Hn' Hf']; subst.
    + rewrite He in Hn. discriminate.
    + rewrite Hn in Hn'. injection Hn' as <- <-.
      destruct (IH _ _ Hf' He) as (rest & -> & Hr). exists rest. split; [reflexivity|exact Hr].
Qed.
End Steps.

Theorem iter_never_panics : forall size bs q, size <= 2 ^ 63 -> bs <= 10 -> wf_ranges q = true ->
  forall plan st, steps response_next (response_new (mkTree size bs) q) plan st ->
  pp_next st <> Some None /\
  (response_next st = None -> pp_stack st = [] /\ pp_buffer st = []).
Proof.
  intros size bs q Hsize Hbs Hwf plan st Hs.
  unfold response_new in Hs. cbn [tsize tbs] in Hs.
  destruct (steps_unmap pp_next' without_ranges _ _ _ Hs) as (items & Hs' & _).
  destruct (pre_plan_trace_final size 0 bs q Hsize ltac:(lia) Hwf) as (full & Hf).
  assert (He : pp_next' (ST size 0 bs [] []) = None) by reflexivity.
  destruct (steps_suffix pp_next' _ _ _ Hs' _ _ Hf He) as (rest & _ & Hr).
  inversion Hr as [|? c st1 ? ? Hn _]; subst.
  - split; [rewrite pp_next_final; discriminate|]. intros _. split; reflexivity.
  - unfold pp_next' in Hn. split.
    + destruct (pp_next st) as [[x|]|]; try discriminate.
    + intro Hnone. rewrite response_next_eq in Hnone. unfold pp_next' in Hnone.
      destruct (pp_next st) as [[[c0 s0]|]|]; discriminate.
Qed.

(* the decoders: whatever the stream, the expected root and the calls of next made so far *)
Theorem decoders_iter_never_panics : forall HO (root : hash HO) (size bs : N) (q : ranges) (stream : bytes HO),
  size <= 2 ^ 63 -> bs <= 10 -> wf_ranges q = true ->
  (forall tr st, dec_polls HO (dec_new HO root (mkTree size bs) stream q) tr st ->
     pp_next (d_inner HO st) <> Some None /\
     (dec_next HO st = None -> pp_stack (d_inner HO st) = [] /\ pp_buffer (d_inner HO st) = [])) /\
  (forall tr st, rd_polls HO (rd_new HO root q (mkTree size bs) stream) tr st ->
     pp_next (Fsm.r_iter HO st) <> Some None /\
     (forall rd, rd_next HO st = RDone rd -> pp_stack (Fsm.r_iter HO st) = [] /\ pp_buffer (Fsm.r_iter HO st) = [])).
Proof.
  intros HO root size bs q stream Hsize Hbs Hwf.
  assert (Hwf' : wf_ranges (truncate_ranges q size) = true) by (apply RangeTrunc.truncate_wf; exact Hwf).
  split; intros tr st Hp.
  - destruct (dec_polls_plan HO _ _ _ Hp) as (plan & Hs & _).
    unfold dec_new in Hs. cbn [d_inner tsize] in Hs.
    destruct (iter_never_panics size bs _ Hsize Hbs Hwf' plan _ Hs) as [A B]. split; [exact A|].
    intro Hn. apply B. rewrite dec_next_step in Hn.
    destruct (response_next (d_inner HO st)) as [[c it']|]; [|reflexivity].
    destruct (step_sync HO c (d_stack HO st) (d_enc HO st)) as [[r0 stk] enc]. discriminate.
  - destruct (rd_polls_plan HO _ _ _ Hp) as (plan & Hs & _).
    unfold rd_new in Hs. cbn [Fsm.r_iter tsize] in Hs. rewrite RangeTrunc.truncate_owned_eq in Hs.
    destruct (iter_never_panics size bs _ Hsize Hbs Hwf' plan _ Hs) as [A B]. split; [exact A|].
    intros rd Hn. apply B. rewrite rd_next_step in Hn.
    destruct (response_next (Fsm.r_iter HO st)) as [[c it']|]; [|reflexivity].
    destruct (step_fsm HO c (Fsm.r_stack HO st) (Fsm.r_enc HO st)) as [[r0 stk] enc]. discriminate.
Qed.
