(* Part 3 (C20): the tree and root hash of a decoder are constant over its life; the reader handed back
   is the stream minus exactly the bytes of the items yielded. *)
From BaoV Require Import Model.Fsm Spec.PTree Proofs.DecLoop Proofs.DecForest.
From Coq Require Import Lia Arith.

Local Arguments hash_subtree : simpl never.
Local Arguments parent_cv : simpl never.

(* ---------- the plan iterator never changes its tree / min_full_level ---------- *)
Lemma pp_next_tree : forall st c st', pp_next st = Some (Some (c, st')) ->
  pp_tree st' = pp_tree st /\ pp_min_full_level st' = pp_min_full_level st.
Proof.
  intros st c st' H. unfold pp_next in H. cbv zeta in H.
  repeat match type of H with
  | context [match ?x with _ => _ end] => destruct x eqn:?; try discriminate
  end; inversion H; subst; cbn; auto.
Qed.

Lemma response_next_tree : forall st c st', response_next st = Some (c, st') ->
  response_tree st' = response_tree st.
Proof.
  intros st c st' H. unfold response_next, pp_next' in H.
  destruct (pp_next st) as [[[c0 st0]|]|] eqn:E; inversion H; subst.
  apply pp_next_tree in E. destruct E as [E1 E2]. unfold response_tree. rewrite E1, E2. reflexivity.
Qed.

Lemma response_new_tree : forall t q, response_tree (response_new t q) = t.
Proof.
  intros t q. unfold response_new, pp_new, response_tree.
  destruct (shifted (mkTree (tsize t) 0)) as [root filled]. cbn. destruct t; reflexivity.
Qed.

Section Const.
Variable HO : hops.
Notation bytes := (bytes HO).
Notation hash := (hash HO).
Notation item := (item HO).

(* ---------- states reached by any number of calls of next (errors included) ---------- *)
Inductive dec_reach (st0 : dstate HO) : dstate HO -> Prop :=
| dec_reach_refl : dec_reach st0 st0
| dec_reach_step : forall st r st', dec_reach st0 st -> dec_next HO st = Some (r, st') -> dec_reach st0 st'.

Inductive rd_reach (st0 : rstate HO) : rstate HO -> Prop :=
| rd_reach_refl : rd_reach st0 st0
| rd_reach_step : forall st r st', rd_reach st0 st -> rd_next HO st = RMore st' r -> rd_reach st0 st'.

Lemma dec_next_tree : forall st r st', dec_next HO st = Some (r, st') -> dec_tree HO st' = dec_tree HO st.
Proof.
  intros st r st' H. rewrite dec_next_step in H.
  destruct (response_next (d_inner HO st)) as [[c inner']|] eqn:E; [|discriminate].
  destruct (step_sync HO c (d_stack HO st) (d_enc HO st)) as [[r0 stk] enc]. inversion H; subst.
  unfold dec_tree. cbn. eapply response_next_tree. exact E.
Qed.

Lemma rd_next_tree_root : forall st r st', rd_next HO st = RMore st' r ->
  rd_tree HO st' = rd_tree HO st /\ r_root HO st' = r_root HO st.
Proof.
  intros st r st' H. rewrite rd_next_step in H.
  destruct (response_next (Fsm.r_iter HO st)) as [[c it']|] eqn:E; [|discriminate].
  destruct (step_fsm HO c (Fsm.r_stack HO st) (Fsm.r_enc HO st)) as [[r0 stk] enc]. inversion H; subst.
  unfold rd_tree. cbn. split; [|reflexivity]. eapply response_next_tree. exact E.
Qed.

Theorem dec_tree_const : forall root t enc q st,
  dec_reach (dec_new HO root t enc q) st -> dec_tree HO st = t.
Proof.
  intros root t enc q st H. induction H.
  - unfold dec_tree, dec_new. cbn. apply response_new_tree.
  - rewrite (dec_next_tree _ _ _ H0). exact IHdec_reach.
Qed.

Theorem rd_tree_const : forall root q t enc st,
  rd_reach (rd_new HO root q t enc) st -> rd_tree HO st = t.
Proof.
  intros root q t enc st H. induction H.
  - unfold rd_tree, rd_new. cbn. apply response_new_tree.
  - destruct (rd_next_tree_root _ _ _ H0) as [E _]. rewrite E. exact IHrd_reach.
Qed.

Lemma reach_def : forall (st0 : dstate HO) (r0 : rstate HO),
  dec_reach st0 st0 /\
  (forall st r st', dec_reach st0 st -> dec_next HO st = Some (r, st') -> dec_reach st0 st') /\
  rd_reach r0 r0 /\
  (forall st r st', rd_reach r0 st -> rd_next HO st = RMore st' r -> rd_reach r0 st').
Proof.
  intros. repeat split; try constructor; intros; econstructor; eauto.
Qed.

Theorem tree_const : forall root t enc q,
  (forall st, dec_reach (dec_new HO root t enc q) st ->
     dec_tree HO st = t /\ dec_tree HO st = mkTree (tsize t) (tbs t)) /\
  (forall st, rd_reach (rd_new HO root q t enc) st ->
     rd_tree HO st = t /\ rd_tree HO st = mkTree (tsize t) (tbs t)).
Proof.
  intros root t enc q. split; intros st H.
  - rewrite (dec_tree_const _ _ _ _ _ H). split; [reflexivity|destruct t; reflexivity].
  - rewrite (rd_tree_const _ _ _ _ _ H). split; [reflexivity|destruct t; reflexivity].
Qed.

Theorem rd_hash_const : forall root q t enc st,
  rd_reach (rd_new HO root q t enc) st -> rd_hash HO st = Some root.
Proof.
  intros root q t enc st H. unfold rd_hash. f_equal. induction H.
  - reflexivity.
  - destruct (rd_next_tree_root _ _ _ H0) as [_ E]. rewrite E. exact IHrd_reach.
Qed.

(* ---------- reader position ---------- *)
Lemma step_sync_ok_bytes : forall c stk enc it stk' enc',
  step_sync HO c stk enc = (Ok it, stk', enc') -> enc = item_bytes HO it ++ enc'.
Proof.
  intros c stk enc it stk' enc' H. destruct c as [node ir lf rt rs|st sz ir rs]; unfold step_sync in H.
  - destruct (blen HO enc <? 64) eqn:Hs; [discriminate|].
    destruct (pair_read HO enc Hs) as (_ & _ & P).
    destruct (parse_pair HO (take HO 64 enc)) as [l r]. cbn [fst snd] in P.
    destruct stk as [|ph stk]; [discriminate|].
    destruct (negb (bytes_eqb HO ph (parent_cv HO l r ir))); [discriminate|].
    inversion H; subst. exact P.
  - destruct (blen HO enc <? sz) eqn:Hs; [discriminate|]. cbv zeta in H.
    destruct stk as [|lh stk]; [discriminate|].
    destruct (negb (bytes_eqb HO lh _)); [discriminate|].
    inversion H; subst. cbn. symmetry. apply firstn_skipn.
Qed.

Lemma step_fsm_ok_bytes : forall c stk enc it stk' enc',
  step_fsm HO c stk enc = (Ok it, stk', enc') -> enc = item_bytes HO it ++ enc'.
Proof.
  intros c stk enc it stk' enc' H. destruct c as [node ir lf rt rs|st sz ir rs]; unfold step_fsm in H.
  - destruct (blen HO enc <? 64) eqn:Hs; [discriminate|].
    destruct (pair_read HO enc Hs) as (_ & _ & P).
    destruct (parse_pair HO (take HO 64 enc)) as [l r]. cbn [fst snd] in P. cbv zeta in H.
    destruct stk as [|ph stk]; [discriminate|].
    destruct (negb (bytes_eqb HO ph (parent_cv HO l r ir))); [discriminate|].
    inversion H; subst. exact P.
  - destruct (blen HO enc <? sz) eqn:Hs; [discriminate|]. cbv zeta in H.
    destruct stk as [|lh stk]; [discriminate|].
    destruct (negb (bytes_eqb HO lh _)); [discriminate|].
    inversion H; subst. cbn. symmetry. apply firstn_skipn.
Qed.

(* j successful calls of next, yielding ys *)
Inductive rd_ok_run (st0 : rstate HO) : list item -> rstate HO -> Prop :=
| rd_ok_nil : rd_ok_run st0 [] st0
| rd_ok_step : forall ys st it st', rd_ok_run st0 ys st -> rd_next HO st = RMore st' (Ok it) ->
    rd_ok_run st0 (ys ++ [it]) st'.

Inductive dec_ok_run (st0 : dstate HO) : list item -> dstate HO -> Prop :=
| dec_ok_nil : dec_ok_run st0 [] st0
| dec_ok_step : forall ys st it st', dec_ok_run st0 ys st -> dec_next HO st = Some (Ok it, st') ->
    dec_ok_run st0 (ys ++ [it]) st'.

Lemma ok_run_def : forall (st0 : rstate HO),
  rd_ok_run st0 [] st0 /\
  (forall ys st it st', rd_ok_run st0 ys st -> rd_next HO st = RMore st' (Ok it) ->
     rd_ok_run st0 (ys ++ [it]) st').
Proof. intros. split; [constructor|intros; econstructor; eauto]. Qed.

Lemma rd_ok_run_enc : forall st0 ys st, rd_ok_run st0 ys st ->
  Fsm.r_enc HO st0 = flat_items HO ys ++ Fsm.r_enc HO st.
Proof.
  intros st0 ys st H. induction H; [reflexivity|].
  rewrite IHrd_ok_run. rewrite rd_next_step in H0.
  destruct (response_next (Fsm.r_iter HO st)) as [[c it']|]; [|discriminate].
  destruct (step_fsm HO c (Fsm.r_stack HO st) (Fsm.r_enc HO st)) as [[r0 stk] enc] eqn:Es.
  inversion H0; subst. apply step_fsm_ok_bytes in Es. rewrite Es.
  unfold flat_items. rewrite map_app, concat_app. cbn. rewrite app_nil_r, <- app_assoc. reflexivity.
Qed.

Lemma dec_ok_run_enc : forall st0 ys st, dec_ok_run st0 ys st ->
  d_enc HO st0 = flat_items HO ys ++ d_enc HO st.
Proof.
  intros st0 ys st H. induction H; [reflexivity|].
  rewrite IHdec_ok_run. rewrite dec_next_step in H0.
  destruct (response_next (d_inner HO st)) as [[c it']|]; [|discriminate].
  destruct (step_sync HO c (d_stack HO st) (d_enc HO st)) as [[r0 stk] enc] eqn:Es.
  inversion H0; subst. apply step_sync_ok_bytes in Es. rewrite Es.
  unfold flat_items. rewrite map_app, concat_app. cbn. rewrite app_nil_r, <- app_assoc. reflexivity.
Qed.

Theorem rd_reader_position : forall root q t stream ys st,
  rd_ok_run (rd_new HO root q t stream) ys st ->
  stream = flat_items HO ys ++ rd_finish HO st /\
  (forall reader, rd_next HO st = RDone reader -> stream = flat_items HO ys ++ reader).
Proof.
  intros root q t stream ys st H. apply rd_ok_run_enc in H. cbn in H. split; [exact H|].
  intros reader Hd. rewrite rd_next_step in Hd.
  destruct (response_next (Fsm.r_iter HO st)) as [[c it']|].
  - destruct (step_fsm HO c (Fsm.r_stack HO st) (Fsm.r_enc HO st)) as [[r0 stk] enc]. discriminate.
  - injection Hd as <-. exact H.
Qed.

Theorem dec_reader_position : forall root t stream q ys st,
  dec_ok_run (dec_new HO root t stream q) ys st ->
  stream = flat_items HO ys ++ d_enc HO st.
Proof. intros root t stream q ys st H. apply dec_ok_run_enc in H. exact H. Qed.

End Const.
