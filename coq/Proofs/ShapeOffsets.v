(* L7: offsets of listed nodes: normal forms, stability (C12 item 5, C13 items 7 and 9). *)
From BaoV Require Import Model.Iter Spec.NodeSpec Proofs.NodeLevel Proofs.NodeBits Proofs.NodeAlgebra
  Proofs.NodeRestricted Proofs.ShapeBase Proofs.ShapeIter.
From Coq Require Import ZArith Lia.
Open Scope N_scope.
Ltac Zify.zify_post_hook ::= Z.to_euclidean_division_equations.

(* ---- nodes below the block level are never stored ---- *)
Lemma below_block size bs nd : level nd < bs ->
  pre_order_offset (mkTree size bs) nd = None /\ post_order_offset (mkTree size bs) nd = None.
Proof.
  intros H. unfold pre_order_offset, post_order_offset. cbn [tbs].
  rewrite add_block_size_gen. destruct (N.leb_spec bs (level nd)); [lia|]. now split.
Qed.

(* ---- a stable node keeps its slot when the blob grows ---- *)
Lemma keeps_slot size size' bs nd v : size <= size' ->
  post_order_offset (mkTree size bs) nd = Some (Stable v) ->
  post_order_offset (mkTree size' bs) nd = Some (Stable v).
Proof.
  intros Hs. unfold post_order_offset. cbn [tbs tsize].
  destruct (add_block_size nd bs) as [sh|]; [|discriminate].
  destruct (N.leb_spec (snd (node_byte_range nd)) size) as [Le|Gt].
  - intros H. destruct (N.leb_spec (snd (node_byte_range nd)) size'); [exact H|lia].
  - destruct (is_leaf sh && (size <=? to_bytes (mid nd))); [discriminate|].
    unfold outboard_hash_pairs.
    destruct (blocks (mkTree size bs) - 1 <? right_count nd + 1); discriminate.
Qed.

Lemma keeps_slot_bounded size bs nd v : forall size', size <= size' -> size' <= 2 ^ 63 ->
  post_order_offset (mkTree size bs) nd = Some (Stable v) ->
  post_order_offset (mkTree size' bs) nd = Some (Stable v).
Proof. intros size' H _. now apply keeps_slot. Qed.

(* ---- byte positions of listed nodes do not wrap ---- *)
Lemma to_bytes_small c : c * 1024 < 2 ^ 64 -> to_bytes c = c * 1024.
Proof.
  intros H. unfold to_bytes, shl64. rewrite N.shiftl_mul_pow2. change (2 ^ 10) with 1024.
  apply N.mod_small. exact H.
Qed.

Lemma pow63_split bs : bs <= 10 -> 2 ^ 63 = (1024 * 2 ^ bs) * (2 * 2 ^ (52 - bs)).
Proof.
  intros H. change 1024 with (2 ^ 10). rewrite <- pow2_add, <- pow2_succ, <- pow2_add. f_equal. lia.
Qed.

Lemma sp_blocks_cap size bs : size <= 2 ^ 63 -> bs <= 10 -> sp_blocks size bs <= 2 * 2 ^ (52 - bs).
Proof.
  intros Hs Hb. unfold sp_blocks. pose proof (pow63_split bs Hb) as E.
  pose proof (pow2_pos bs) as P. pose proof (pow2_pos (52 - bs)) as P'.
  set (Q := 1024 * 2 ^ bs) in *. set (T := 2 ^ (52 - bs)) in *.
  assert ((size + Q - 1) / Q < 2 * T + 1).
  { apply N.div_lt_upper_bound; [lia|]. rewrite E in Hs. nia. }
  lia.
Qed.

Lemma shlen_bytes size bs : size <= 2 ^ 63 -> bs <= 10 ->
  shlen (sp_blocks size bs) * (1024 * 2 ^ bs) < 2 ^ 63.
Proof.
  intros Hs Hb. pose proof (sp_blocks_cap size bs Hs Hb) as C. pose proof (sp_blocks_pos size bs) as P1.
  rewrite (pow63_split bs Hb).
  pose proof (pow2_pos bs) as P. pose proof (pow2_pos (52 - bs)) as P'.
  set (Q := 1024 * 2 ^ bs) in *. set (T := 2 ^ (52 - bs)) in *. set (nb := sp_blocks size bs) in *.
  assert (H : shlen nb <= 2 * T - 1) by (unfold shlen; lia).
  apply N.le_lt_trans with ((2 * T - 1) * Q); [apply N.mul_le_mono_r; exact H|].
  assert (0 < Q) by (unfold Q; lia). clearbody Q T nb. nia.
Qed.

(* facts about one listed node nd = unshift bs s *)
Section Listed.
Variables size bs s : N.
Hypothesis Hs : size <= 2 ^ 63.
Hypothesis Hb : bs <= 10.
Hypothesis Hin : s + 1 <= shlen (sp_blocks size bs).
Let nd := unshift bs s.
Let nb := sp_blocks size bs.

Lemma listed_mid : (nd + 1) * 1024 = (s + 1) * (1024 * 2 ^ bs) /\ (nd + 1) * 1024 < 2 ^ 63.
Proof using Hs Hb Hin.
  pose proof (shlen_bytes size bs Hs Hb) as SB. pose proof (pow2_pos bs) as P.
  unfold nd, unshift. split; [nia|].
  eapply N.le_lt_trans; [|exact SB]. nia.
Qed.

Lemma listed_end : sp_chunk_end nd * 1024 = (sp_node_start s + 2 ^ (level s + 1)) * (1024 * 2 ^ bs) /\
  sp_chunk_end nd * 1024 < 2 ^ 64.
Proof using Hs Hb Hin.
  destruct listed_mid as [E1 E2].
  unfold sp_chunk_end. rewrite <- level_is_sp_level. unfold nd in *.
  rewrite unshift_level, unshift_index, start_eq. rewrite pow2_add, pow2_succ.
  pose proof (unshift_decomp bs s) as D. rewrite pow2_add in D.
  pose proof (pow2_pos bs) as P. pose proof (pow2_pos (level s)) as P'.
  split; [nia|].
  assert (X : (2 * sp_index s + 2) * (2 ^ level s * 2 ^ bs) <= 2 * (unshift bs s + 1)) by nia.
  change (2 ^ 64) with (2 * 2 ^ 63). nia.
Qed.

Lemma listed_s62 : s < 2 ^ 62.
Proof using Hs Hb Hin.
  destruct listed_mid as [E1 E2]. pose proof (pow2_pos bs) as P.
  rewrite E1 in E2. change (2 ^ 63) with (2 * 2 ^ 62) in E2. nia.
Qed.

Lemma listed_persisted :
  sp_persisted size bs nd = (0 <? level s) || ((level s =? 0) && ((nd + 1) * 1024 <? size)).
Proof using.
  clear Hs Hb Hin. unfold sp_persisted. rewrite <- level_is_sp_level. unfold nd. rewrite unshift_level.
  destruct (N.ltb_spec bs (level s + bs)), (N.ltb_spec 0 (level s)); try lia; cbn [orb]; try reflexivity.
  destruct (N.eqb_spec bs (level s + bs)), (N.eqb_spec (level s) 0); try lia; reflexivity.
Qed.

Lemma inside_persisted : sp_subtree_inside size nd = true -> sp_persisted size bs nd = true.
Proof using Hs Hb Hin.
  unfold sp_subtree_inside. intros H. apply N.leb_le in H.
  rewrite listed_persisted.
  destruct (N.ltb_spec 0 (level s)); [reflexivity|]. cbn [orb].
  destruct (N.eqb_spec (level s) 0); [|lia]. cbn [andb].
  apply N.ltb_lt. eapply N.lt_le_trans; [|exact H].
  unfold sp_chunk_end. pose proof (level_index_decomp nd) as D. rewrite D at 1.
  pose proof (pow2_pos (sp_level nd)). nia.
Qed.

(* popcount of the index: the left ancestors each own at least two groups *)
Lemma listed_rank : sp_persisted size bs nd = true -> popcount (sp_index s) + 2 <= nb.
Proof using Hs Hb Hin.
  intros Hp. pose proof (popcount_le (sp_index s)) as PC.
  pose proof (level_decomp s) as D. pose proof (pow2_pos (level s)) as P.
  pose proof (shlen_le nb (sp_blocks_pos size bs)) as SL. fold nb in Hin.
  assert (2 * sp_index s + 1 <= s + 1) by nia.
  destruct (N.le_gt_cases 3 nb) as [G|G].
  - unfold shlen in *. lia.
  - (* nb <= 2: only s = 0, which is persisted only when nb = 2 *)
    assert (Es : s = 0) by (unfold shlen in *; lia).
    assert (E0 : sp_index s = 0) by (rewrite Es; apply (proj2 (decomp_unique 0 0 0 eq_refl))).
    rewrite E0. cbn [popcount].
    destruct (N.eq_dec nb 2) as [E|E]; [lia|exfalso].
    assert (E1 : nb = 1) by (pose proof (sp_blocks_pos size bs); unfold nb in *; lia).
    rewrite listed_persisted in Hp.
    assert (L0 : level s = 0) by (rewrite Es; reflexivity). rewrite L0 in Hp.
    change (0 <? 0) with false in Hp. change (0 =? 0) with true in Hp. cbn [orb andb] in Hp.
    apply N.ltb_lt in Hp. destruct listed_mid as [M1 _]. rewrite M1, Es in Hp.
    unfold nb, sp_blocks in E1. pose proof (pow2_pos bs).
    set (Q := 1024 * 2 ^ bs) in *.
    assert ((size + Q - 1) / Q <= 1) by lia.
    assert (size + Q - 1 < Q * 2).
    { destruct (N.lt_ge_cases (size + Q - 1) (Q * 2)) as [|Ge]; [assumption|exfalso].
      assert (2 <= (size + Q - 1) / Q) by (apply N.div_le_lower_bound; lia). lia. }
    lia.
Qed.

Lemma post_offset_listed :
  post_order_offset (mkTree size bs) nd =
    if sp_subtree_inside size nd then Some (Stable (sp_post_offset s))
    else if sp_persisted size bs nd then Some (Unstable (nb - 1 - (popcount (sp_index s) + 1)))
    else None.
Proof using Hs Hb Hin.
  unfold post_order_offset. cbn [tbs tsize]. unfold nd at 1. rewrite unshift_add.
  unfold node_byte_range. rewrite chunk_range_gen. cbn [snd].
  destruct listed_end as [_ E2]. destruct listed_mid as [_ M2].
  rewrite (to_bytes_small _ E2). fold (sp_subtree_inside size nd).
  destruct (sp_subtree_inside size nd) eqn:Ei.
  - now rewrite (post_order_offset_spec s listed_s62).
  - unfold mid. rewrite to_bytes_small by (change (2 ^ 64) with (2 * 2 ^ 63); lia).
    rewrite is_leaf_level. rewrite listed_persisted.
    destruct (N.eqb_spec (level s) 0) as [L0|L0].
    + rewrite L0. change (0 <? 0) with false. cbn [orb andb].
      destruct (N.leb_spec size ((nd + 1) * 1024)), (N.ltb_spec ((nd + 1) * 1024) size); try lia; [reflexivity|].
      assert (Hp : sp_persisted size bs nd = true).
      { rewrite listed_persisted, L0. change (0 <? 0) with false. cbn [orb andb]. apply N.ltb_lt. assumption. }
      pose proof (listed_rank Hp) as R.
      unfold outboard_hash_pairs. rewrite blocks_spec. fold nb.
      rewrite right_count_spec. unfold nd. rewrite unshift_index.
      destruct (N.ltb_spec (nb - 1) (popcount (sp_index s) + 1)); [lia|reflexivity].
    + destruct (N.ltb_spec 0 (level s)); [|lia]. cbn [orb andb].
      assert (Hp : sp_persisted size bs nd = true).
      { rewrite listed_persisted. destruct (N.ltb_spec 0 (level s)); [reflexivity|lia]. }
      pose proof (listed_rank Hp) as R.
      unfold outboard_hash_pairs. rewrite blocks_spec. fold nb.
      rewrite right_count_spec. unfold nd. rewrite unshift_index.
      destruct (N.ltb_spec (nb - 1) (popcount (sp_index s) + 1)); [lia|reflexivity].
Qed.

Lemma pre_offset_listed :
  pre_order_offset (mkTree size bs) nd =
    if sp_persisted size bs nd then Some (pre_order_offset_loop s (shlen nb)) else None.
Proof using Hs Hb Hin.
  unfold pre_order_offset. cbn [tbs tsize]. unfold nd at 1. rewrite unshift_add.
  destruct (shifted_spec size bs) as (l & W & E). rewrite E. cbn [snd]. fold nb.
  destruct listed_mid as [_ M2].
  unfold mid. rewrite to_bytes_small by (change (2 ^ 64) with (2 * 2 ^ 63); lia).
  rewrite is_leaf_level, listed_persisted.
  destruct (N.eqb_spec (level s) 0) as [L0|L0].
  - rewrite L0. change (0 <? 0) with false. cbn [orb andb].
    destruct (N.leb_spec size ((nd + 1) * 1024)), (N.ltb_spec ((nd + 1) * 1024) size); try lia; reflexivity.
  - destruct (N.ltb_spec 0 (level s)); [|lia]. reflexivity.
Qed.
End Listed.

(* ---- listed nodes ---- *)
Lemma sp_post_nodes_eq size bs : sp_post_nodes size bs = map (unshift bs) (sh_post 65 0 (sp_blocks size bs)).
Proof. reflexivity. Qed.
Lemma sp_pre_nodes_eq size bs : sp_pre_nodes size bs = map (unshift bs) (sh_pre 65 0 (sp_blocks size bs)).
Proof. reflexivity. Qed.

Lemma post_listed size bs nd : size <= 2 ^ 63 -> In nd (sp_post_nodes size bs) ->
  exists s, nd = unshift bs s /\ s + 1 <= shlen (sp_blocks size bs) /\ In s (sh_post 65 0 (sp_blocks size bs)).
Proof.
  intros Hs H. rewrite sp_post_nodes_eq in H. apply in_map_iff in H. destruct H as (s & <- & H).
  exists s. split; [reflexivity|]. split; [|exact H].
  destruct (shifted_spec size bs) as (l & W & _).
  apply (sh_post_range _ 64 _ _ _ _ W (fuel64 _ (sp_blocks_60 size bs Hs))) in H. lia.
Qed.

Lemma pre_listed size bs nd : size <= 2 ^ 63 -> In nd (sp_pre_nodes size bs) ->
  exists s, nd = unshift bs s /\ s + 1 <= shlen (sp_blocks size bs) /\ In s (sh_pre 65 0 (sp_blocks size bs)).
Proof.
  intros Hs H. rewrite sp_pre_nodes_eq in H. apply in_map_iff in H. destruct H as (s & <- & H).
  exists s. split; [reflexivity|]. split; [|exact H].
  destruct (shifted_spec size bs) as (l & W & _).
  apply (sh_pre_range _ 64 _ _ _ _ W (fuel64 _ (sp_blocks_60 size bs Hs))) in H. lia.
Qed.

(* ---- C13: stable iff the whole subtree is inside the blob ---- *)
Theorem stable_iff size bs nd : size <= 2 ^ 63 -> bs <= 10 -> In nd (sp_post_nodes size bs) ->
  ((exists v, post_order_offset (mkTree size bs) nd = Some (Stable v)) <->
   (sp_persisted size bs nd = true /\ sp_subtree_inside size nd = true)) /\
  (sp_persisted size bs nd = true -> sp_subtree_inside size nd = false ->
   exists v, post_order_offset (mkTree size bs) nd = Some (Unstable v)).
Proof.
  intros Hs Hb H. destruct (post_listed size bs nd Hs H) as (s & -> & Hin & _).
  rewrite (post_offset_listed size bs s Hs Hb Hin).
  pose proof (inside_persisted size bs s Hs Hb Hin) as IP.
  destruct (sp_subtree_inside size (unshift bs s)) eqn:Ei.
  - split.
    + split; [intros _; split; [now apply IP|reflexivity]|intros _; eexists; reflexivity].
    + intros _ D. discriminate.
  - destruct (sp_persisted size bs (unshift bs s)) eqn:Ep.
    + split; [|intros _ _; eexists; reflexivity].
      split; [intros [v D]; discriminate|intros [_ D]; discriminate].
    + split; [|intros D; discriminate].
      split; [intros [v D]; discriminate|intros [D _]; discriminate].
Qed.
