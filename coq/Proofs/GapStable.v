(* Gap audit of C13 ("post-order outboards only ever grow at the end"), geometry part.
   G1: the Stable classification of EVERY node id (not only the listed ones), with the wrap-around of
       ChunkNum::to_bytes (self.0 << 10) beyond 2^64 exhibited;
   G2: the exact picture of the post-order slots in traversal order: the i-th stored node has slot i and is
       Stable exactly when i < sp_stable_count; the stable stored nodes of a blob are exactly the first
       sp_stable_count stored nodes of every larger tree;
   G3: monotonicity of the number of blocks and of the number of stable pairs along growth. *)
From BaoV Require Import Model.Sync Spec.EncSpec Spec.PlanSpec Spec.NodeSpec Spec.HashAssm.
From BaoV Require Import Proofs.NodeLevel Proofs.NodeBits Proofs.NodeAlgebra Proofs.RangeRound
  Proofs.ShapeBase Proofs.ShapeIter Proofs.ShapeOffsets Proofs.ShapePos Proofs.ShapePost Proofs.ShapeLayout
  Proofs.ObBase Proofs.ObLoop Proofs.ObCreate Proofs.ObSize Proofs.ObStable Proofs.ObLayout Proofs.ObLayoutC Proofs.ObPrefix.
From Coq Require Import Lia Arith PeanoNat ZArith ZifyN ZifyNat ZifyBool.
Open Scope N_scope.
Arguments N.add : simpl never.
Arguments N.sub : simpl never.
Arguments N.mul : simpl never.
Arguments N.pow : simpl never.
Arguments N.div : simpl never.
Arguments N.modulo : simpl never.
Arguments N.min : simpl never.
Arguments N.max : simpl never.

(* ================= G1: classification of every node id ================= *)

(* As long as the byte end of the node's subtree does not wrap around 2^64, a node (any u64, listed in the tree
   or not, any block size) is classified Stable exactly when it is at or above the block level and its whole
   subtree lies inside the blob. *)
Theorem gap_stable_iff_all size bs nd : sp_chunk_end nd * 1024 < 2 ^ 64 ->
  ((exists v, post_order_offset (mkTree size bs) nd = Some (Stable v)) <->
   (bs <= level nd /\ sp_chunk_end nd * 1024 <= size)).
Proof.
  intros Hw. unfold post_order_offset. cbn [tbs tsize].
  rewrite add_block_size_gen. unfold node_byte_range. rewrite chunk_range_gen. cbn [snd].
  rewrite (to_bytes_small _ Hw).
  destruct (N.leb_spec bs (level nd)) as [Hl|Hl].
  - destruct (N.leb_spec (sp_chunk_end nd * 1024) size) as [Hi|Hi].
    + split; [intros _; split; assumption|intros _; eexists; reflexivity].
    + split; [|lia]. intros [v Hv]. exfalso.
      destruct (is_leaf (nd / 2 ^ bs) && (size <=? to_bytes (mid nd))); [discriminate|].
      cbv zeta in Hv.
      destruct (outboard_hash_pairs (mkTree size bs) <? right_count nd + 1); discriminate.
  - split; [intros [v Hv]; discriminate|lia].
Qed.

(* the slot of a stable node *)
Theorem gap_stable_value size bs nd v : post_order_offset (mkTree size bs) nd = Some (Stable v) ->
  bs <= level nd /\ v = post_order_offset_node (nd / 2 ^ bs).
Proof.
  unfold post_order_offset. cbn [tbs tsize]. rewrite add_block_size_gen.
  destruct (N.leb_spec bs (level nd)) as [Hl|Hl]; [|discriminate].
  destruct (snd (node_byte_range nd) <=? size).
  - intro H. injection H as <-. split; [exact Hl|reflexivity].
  - destruct (is_leaf (nd / 2 ^ bs) && (size <=? to_bytes (mid nd))); [discriminate|].
    cbv zeta. destruct (outboard_hash_pairs (mkTree size bs) <? right_count nd + 1); discriminate.
Qed.

(* Beyond the hypothesis the classification is false: node 2^53 - 1 (level 53) covers chunks [0, 2^54), its
   byte end 2^64 wraps to 0 (ChunkNum::to_bytes is `self.0 << 10` in src/tree.rs:214, and
   TreeNode::byte_range / BaoTree::post_order_offset compare `node.byte_range().end <= self.size`), so the
   EMPTY blob classifies it Stable although nothing of its subtree is inside the blob.  This is the behaviour of
   the Rust code for a node id far outside the tree (a tree that contained the node would need > 2^63 bytes). *)
Theorem gap_stable_wrap_refuted : exists size bs nd v,
  post_order_offset (mkTree size bs) nd = Some (Stable v) /\ size < sp_chunk_end nd * 1024.
Proof.
  exists 0, 0, (2 ^ 53 - 1), 18014398509481982. split; vm_compute; reflexivity.
Qed.

(* ================= G2: the exact slot picture ================= *)

Lemma slots_split {A} (f : A -> option post_offset) (s : N) : forall (l : list A) (a k : nat),
  map (fun x => option_map po_value (f x)) l = map (fun i => Some (N.of_nat i)) (seq a k) ->
  (forall x v, In x l -> (f x = Some (Stable v) -> v < s) /\ (f x = Some (Unstable v) -> s <= v)) ->
  map f l = map (fun i => Some (if N.of_nat i <? s then Stable (N.of_nat i) else Unstable (N.of_nat i))) (seq a k).
Proof.
  induction l as [|x l IH]; intros a k E Hl.
  - destruct k; [reflexivity|discriminate].
  - destruct k as [|k]; [discriminate|]. cbn [map seq] in *.
    injection E as E1 E2. f_equal.
    + destruct (Hl x (N.of_nat a) (or_introl eq_refl)) as [H1 H2].
      destruct (f x) as [[v|v]|]; cbn [option_map po_value] in E1; [| |discriminate]; injection E1 as ->.
      * specialize (H1 eq_refl). destruct (N.ltb_spec (N.of_nat a) s); [reflexivity|lia].
      * specialize (H2 eq_refl). destruct (N.ltb_spec (N.of_nat a) s); [lia|reflexivity].
    + apply IH; [exact E2|]. intros y v Hy. apply Hl. right. exact Hy.
Qed.

(* In traversal order the stored nodes have the slots 0, 1, 2, ...; the first sp_stable_count of them are
   Stable, all the others Unstable. *)
Theorem gap_post_slots_exact size bs : size <= 2 ^ 63 -> bs <= 10 ->
  map (post_order_offset (mkTree size bs)) (filter (sp_persisted size bs) (sp_post_nodes size bs))
  = map (fun i => Some (if N.of_nat i <? sp_stable_count size bs then Stable (N.of_nat i) else Unstable (N.of_nat i)))
        (seq 0 (N.to_nat (sp_blocks size bs - 1))).
Proof.
  intros Hs Hb.
  apply (slots_split (post_order_offset (mkTree size bs)) (sp_stable_count size bs)).
  - exact (post_offsets_spec size bs Hs Hb).
  - intros x v Hx. apply filter_In in Hx. destruct Hx as [Hx _].
    exact (layout_spec size bs x v Hs Hb Hx).
Qed.

Theorem gap_stable_count_le size bs : size <= 2 ^ 63 -> bs <= 10 ->
  sp_stable_count size bs <= sp_blocks size bs - 1.
Proof.
  intros Hs Hb. rewrite (stable_count_eq size bs Hs Hb).
  destruct (shifted_spec size bs) as (l0 & W & _).
  pose proof (sp_blocks_60 size bs Hs) as HB.
  destruct (full_blocks_bounds size bs) as [F1 F2].
  destruct (layout_shape (sp_blocks size bs) (size / (1024 * 2 ^ bs)) F1 F2 64 0 (sp_blocks size bs) l0 0 W
              (fuel64 _ HB)) as (Q & _ & _).
  exact Q.
Qed.

(* ================= the stored nodes as the nodes of the interval recursion ================= *)

(* a byte type to build blobs of a given length with (the facts used below do not look at the bytes) *)
Definition gap_hops : hops :=
  mkHops unit (fun _ _ => true) tt (fun _ _ _ => repeat tt 32) (fun _ _ _ => repeat tt 32).

Lemma gap_hops_len32 : cv_len32 gap_hops.
Proof. intros [c d r|l r f] _; reflexivity. Qed.

Definition gap_blob (n : N) : bytes gap_hops := zeros gap_hops (N.to_nat n).
Lemma gap_blob_len n : blen gap_hops (gap_blob n) = n.
Proof. unfold gap_blob. rewrite blen_zeros. lia. Qed.
Lemma gap_blob_app n m : gap_blob (n + m) = gap_blob n ++ gap_blob m.
Proof.
  unfold gap_blob, zeros. rewrite <- repeat_app. f_equal. lia.
Qed.
Global Opaque gap_blob.

Section Stored.
Variable HO : hops.

Lemma stored_post_shape_d (d : bytes HO) bs : blen HO d <= 2 ^ 63 ->
  filter (sp_persisted (blen HO d) bs) (sp_post_nodes (blen HO d) bs)
  = map (nname bs) (shp 64 0 (sp_blocks (blen HO d) bs)).
Proof.
  intro Hs. pose proof (sp_blocks_pos (blen HO d) bs) as Hb1. pose proof (blocks_m63 HO d bs Hs) as Hm.
  rewrite sp_post_nodes_eq.
  change (sh_post 65 0 (sp_blocks (blen HO d) bs)) with (sh_list true 65 0 (sp_blocks (blen HO d) bs)).
  rewrite (shape_nodes HO d bs true 63 65 64 0 (sp_blocks (blen HO d) bs) ltac:(lia) ltac:(lia) Hb1 Hm
             ltac:(exact (sp_blocks_last (blen HO d) bs))
             ltac:(exists 63, 0; split; [lia|split; [lia|split; [exact Hm|right]]];
                   rewrite N.add_0_l; apply sp_blocks_cover)).
  apply pairs_nodes_shp.
Qed.
End Stored.

Lemma stored_post_shape size bs : size <= 2 ^ 63 ->
  filter (sp_persisted size bs) (sp_post_nodes size bs) = map (nname bs) (shp 64 0 (sp_blocks size bs)).
Proof.
  intro Hs. pose proof (stored_post_shape_d gap_hops (gap_blob size) bs) as H.
  rewrite gap_blob_len in H. exact (H Hs).
Qed.

Lemma shp_pal size bs : size <= 2 ^ 63 -> Forall pal (shp 64 0 (sp_blocks size bs)).
Proof.
  intro Hs. pose proof (sp_blocks_pos size bs) as Hb1.
  pose proof (blocks_m63 gap_hops (gap_blob size) bs) as Hm. rewrite gap_blob_len in Hm. specialize (Hm Hs).
  apply (shp_aligned 63 64 0 (sp_blocks size bs) ltac:(lia) Hb1 Hm). exists 63, 0. split; [lia|exact Hm].
Qed.

Lemma blocks_le63 size bs : size <= 2 ^ 63 -> sp_blocks size bs <= 2 ^ N.of_nat 63.
Proof.
  intro Hs. pose proof (blocks_m63 gap_hops (gap_blob size) bs) as Hm. rewrite gap_blob_len in Hm. exact (Hm Hs).
Qed.

(* ================= G3: growth ================= *)

Theorem gap_blocks_mono size size' bs : size <= size' -> sp_blocks size bs <= sp_blocks size' bs.
Proof.
  intro H. unfold sp_blocks. pose proof (pow2_pos bs) as P.
  assert ((size + 1024 * 2 ^ bs - 1) / (1024 * 2 ^ bs) <= (size' + 1024 * 2 ^ bs - 1) / (1024 * 2 ^ bs))
    by (apply N.div_le_mono; lia).
  lia.
Qed.

Lemma full_le_blocks size bs : size / (1024 * 2 ^ bs) <= sp_blocks size bs.
Proof. exact (proj1 (full_blocks_bounds size bs)). Qed.

Lemma stable_count_shape size bs : size <= 2 ^ 63 ->
  sp_stable_count size bs
  = N.of_nat (length (filter (stq (size / (1024 * 2 ^ bs))) (shp 64 0 (sp_blocks size bs)))).
Proof.
  intro Hs. pose proof (stable_count gap_hops (gap_blob size) [] bs) as H.
  rewrite app_nil_r, gap_blob_len in H. specialize (H Hs). rewrite H.
  unfold stable_shape. rewrite gap_blob_len. reflexivity.
Qed.

(* the stable part of the listing does not depend on how far the tree extends beyond it *)
Lemma stable_shape_mono size size' bs : size <= size' -> size' <= 2 ^ 63 ->
  filter (stq (size / (1024 * 2 ^ bs))) (shp 64 0 (sp_blocks size bs))
  = filter (stq (size / (1024 * 2 ^ bs))) (shp 64 0 (sp_blocks size' bs)).
Proof.
  intros H1 H2.
  apply (shp_stable_eq _ 63 64 0); try lia.
  - apply sp_blocks_pos.
  - apply gap_blocks_mono; exact H1.
  - apply blocks_le63; exact H2.
  - rewrite N.add_0_l. apply full_le_blocks.
Qed.

Lemma filter_length_impl {A} (P Q : A -> bool) (l : list A) : (forall x, In x l -> P x = true -> Q x = true) ->
  (length (filter P l) <= length (filter Q l))%nat.
Proof.
  induction l as [|x l IH]; intro H; [cbn; lia|].
  cbn [filter]. specialize (IH (fun y Hy => H y (or_intror Hy))).
  pose proof (H x (or_introl eq_refl)) as Hx.
  destruct (P x); [rewrite (Hx eq_refl)|destruct (Q x)]; cbn [length]; lia.
Qed.

Theorem gap_stable_count_mono size size' bs : size <= size' -> size' <= 2 ^ 63 ->
  sp_stable_count size bs <= sp_stable_count size' bs.
Proof.
  intros H1 H2. rewrite (stable_count_shape size bs ltac:(lia)), (stable_count_shape size' bs H2).
  rewrite (stable_shape_mono size size' bs H1 H2).
  pose proof (pow2_pos bs) as P.
  assert (Hq : size / (1024 * 2 ^ bs) <= size' / (1024 * 2 ^ bs)) by (apply N.div_le_mono; lia).
  pose proof (filter_length_impl (stq (size / (1024 * 2 ^ bs))) (stq (size' / (1024 * 2 ^ bs)))
                (shp 64 0 (sp_blocks size' bs))) as L.
  assert (length (filter (stq (size / (1024 * 2 ^ bs))) (shp 64 0 (sp_blocks size' bs)))
          <= length (filter (stq (size' / (1024 * 2 ^ bs))) (shp 64 0 (sp_blocks size' bs))))%nat.
  { apply L. intros x _. unfold stq. intro Hx. apply N.leb_le in Hx. apply N.leb_le. lia. }
  lia.
Qed.

(* The stable stored nodes of a blob, in post order, are exactly the first sp_stable_count stored nodes (in
   post order) of the tree of every extension, and of its own tree. *)
Theorem gap_stable_nodes_prefix size size' bs : size <= size' -> size' <= 2 ^ 63 ->
  filter (fun nd => sp_persisted size bs nd && sp_subtree_inside size nd) (sp_post_nodes size bs)
  = firstn (N.to_nat (sp_stable_count size bs)) (filter (sp_persisted size' bs) (sp_post_nodes size' bs)).
Proof.
  intros H1 H2. assert (Hs : size <= 2 ^ 63) by lia.
  rewrite (filter_andb (sp_persisted size bs) (sp_subtree_inside size)).
  rewrite (stored_post_shape size bs Hs), (stored_post_shape size' bs H2).
  rewrite (stable_count_shape size bs Hs), Nat2N.id.
  rewrite filter_map_comm, firstn_map. f_equal.
  pose proof (shp_pal size bs Hs) as Hal. rewrite Forall_forall in Hal.
  rewrite (filter_ext_in (fun p => sp_subtree_inside size (nname bs p)) (stq (size / (1024 * 2 ^ bs))))
    by (intros p Hp; apply pal_inside, Hal, Hp).
  rewrite (shp_split (size / (1024 * 2 ^ bs)) 63 64 0 (sp_blocks size' bs) ltac:(lia)
             ltac:(pose proof (sp_blocks_pos size' bs); lia) (blocks_le63 size' bs H2)).
  rewrite <- (stable_shape_mono size size' bs H1 H2).
  rewrite firstn_app, firstn_all, Nat.sub_diag, firstn_O, app_nil_r. reflexivity.
Qed.

Lemma firstn_In' {A} (x : A) : forall n l, In x (firstn n l) -> In x l.
Proof.
  induction n as [|n IH]; intros l H; [destruct H|].
  destruct l as [|y l]; [destruct H|]. cbn [firstn] in H. destruct H as [H|H].
  - left; exact H.
  - right; apply IH; exact H.
Qed.

(* a listed node classified Stable is a stored node of every larger tree (and of its own) *)
Theorem gap_stable_stays_listed size size' bs nd v : size <= size' -> size' <= 2 ^ 63 -> bs <= 10 ->
  In nd (sp_post_nodes size bs) -> post_order_offset (mkTree size bs) nd = Some (Stable v) ->
  In nd (sp_post_nodes size' bs) /\ sp_persisted size' bs nd = true /\ sp_subtree_inside size' nd = true /\
  sp_persisted size bs nd = true /\ sp_subtree_inside size nd = true.
Proof.
  intros H1 H2 Hb Hin Hst. assert (Hs : size <= 2 ^ 63) by lia.
  destruct (stable_iff size bs nd Hs Hb Hin) as [[S1 _] _].
  destruct (S1 (ex_intro _ v Hst)) as [Hp Hi].
  assert (Hf : In nd (filter (fun nd => sp_persisted size bs nd && sp_subtree_inside size nd) (sp_post_nodes size bs))).
  { apply filter_In. split; [exact Hin|]. rewrite Hp, Hi. reflexivity. }
  rewrite (gap_stable_nodes_prefix size size' bs H1 H2) in Hf.
  apply firstn_In' in Hf. apply filter_In in Hf. destruct Hf as [A1 A2].
  split; [exact A1|]. split; [exact A2|]. split; [|split; assumption].
  unfold sp_subtree_inside in *. apply N.leb_le in Hi. apply N.leb_le. lia.
Qed.

(* ================= completeness: the nodes inside the blob are listed ================= *)
Lemma pow2_le_inv a b : 2 ^ a <= 2 ^ b -> a <= b.
Proof. intro H. apply N.pow_le_mono_r_iff in H; lia. Qed.

(* every aligned interval node that ends inside [b, b + n) is a node of the interval recursion *)
Lemma shp_complete : forall (m : nat) f b n k J,
  (m < f)%nat -> 1 <= n -> n <= 2 ^ N.of_nat m ->
  (exists c j, b = j * 2 ^ c /\ n <= 2 ^ c) ->
  b <= 2 * J * 2 ^ k -> 2 * J * 2 ^ k + 2 * 2 ^ k <= b + n ->
  In (2 * J * 2 ^ k, 2 ^ k) (shp f b n).
Proof.
  induction m as [|m IH]; intros f b n k J Hf H1 Hm Hal Hlo Hhi; (destruct f as [|f]; [lia|]);
    pose proof (pow2_pos k) as Pk.
  - apply le1_pow0 in Hm. lia.
  - destruct (N.eq_dec n 1) as [->|Hn1]; [lia|].
    rewrite shp_unfold by lia. cbv zeta.
    destruct (half_facts n m ltac:(lia) Hm) as (Hh1 & Hh2 & Hh3 & Hh4 & (j & Hj)).
    set (h := next_pow2 n / 2) in *.
    destruct Hal as (c & j0 & Hb & Hnc).
    pose proof (pow2_pos j) as Pj.
    assert (Hcj : j + 1 <= c).
    { assert (A : 2 ^ j < 2 ^ c) by lia. apply N.pow_lt_mono_r_iff in A; lia. }
    assert (Hc2 : 2 ^ c = 2 ^ (c - (j + 1)) * (2 * 2 ^ j)).
    { rewrite <- pow2_succ, <- pow2_add. f_equal. lia. }
    set (J0 := j0 * 2 ^ (c - (j + 1))).
    assert (HbJ : b = 2 * J0 * 2 ^ j) by (unfold J0; rewrite Hb, Hc2; lia).
    assert (Hkj : k <= j).
    { apply pow2_le_inv. lia. }
    apply in_or_app.
    destruct (N.eq_dec k j) as [Ekj|Nkj].
    + (* the root of this interval *)
      right. apply in_or_app. right. left. subst k.
      assert (J = J0) by nia. subst J. rewrite <- HbJ, <- Hj. reflexivity.
    + assert (Hd : 2 ^ j = 2 ^ (j - (k + 1)) * (2 * 2 ^ k)).
      { rewrite <- pow2_succ, <- pow2_add. f_equal. lia. }
      pose proof (pow2_pos (j - (k + 1))) as Pd.
      set (u := 2 * 2 ^ k) in *. set (w := 2 ^ (j - (k + 1))) in *.
      assert (Ha : 2 * J * 2 ^ k = J * u) by (unfold u; lia).
      assert (Hbh : b + h = (2 * J0 + 1) * w * u) by (rewrite HbJ, Hj, Hd; lia).
      destruct (N.lt_ge_cases J ((2 * J0 + 1) * w)) as [Lt|Ge].
      * left. apply (IH f b h k J); try lia.
        -- exists j, (2 * J0). split; [lia|lia].
        -- assert ((J + 1) * u <= (2 * J0 + 1) * w * u) by (apply N.mul_le_mono_r; lia). lia.
      * right. apply in_or_app. left. apply (IH f (b + h) (n - h) k J); try lia.
        -- exists j, (2 * J0 + 1). split; [rewrite HbJ, Hj; lia|lia].
        -- assert ((2 * J0 + 1) * w * u <= J * u) by (apply N.mul_le_mono_r; lia). lia.
Qed.

(* every node id at or above the block level whose whole subtree lies inside the blob is a stored node of the
   blob's tree (any block size) *)
Theorem gap_inside_listed size bs nd : size <= 2 ^ 63 -> bs <= level nd -> sp_chunk_end nd * 1024 <= size ->
  In nd (sp_post_nodes size bs) /\ sp_persisted size bs nd = true.
Proof.
  intros Hs Hl Hi.
  set (k := level nd - bs). set (K := sp_index nd).
  pose proof (level_decomp nd) as D. fold K in D.
  pose proof (pow2_pos bs) as Pb. pose proof (pow2_pos k) as Pk.
  assert (El : 2 ^ level nd = 2 ^ k * 2 ^ bs) by (rewrite <- pow2_add; f_equal; unfold k; lia).
  destruct (true_pair_node bs (2 * K * 2 ^ k) k K eq_refl) as (T1 & _ & T3). cbv zeta in T1, T3.
  assert (En : unshift bs (2 * K * 2 ^ k + 2 ^ k - 1) = nd).
  { assert (unshift bs (2 * K * 2 ^ k + 2 ^ k - 1) + 1 = nd + 1) by (rewrite T1, D, El; lia). lia. }
  rewrite En in T3.
  assert (Hq : 2 * K * 2 ^ k + 2 * 2 ^ k <= size / (1024 * 2 ^ bs)).
  { apply div_le_iff; [lia|]. rewrite T3 in Hi. lia. }
  pose proof (full_le_blocks size bs) as Fb.
  assert (Hin : In (2 * K * 2 ^ k, 2 ^ k) (shp 64 0 (sp_blocks size bs))).
  { pose proof (sp_blocks_pos size bs) as Bp. pose proof (blocks_le63 size bs Hs) as B63.
    apply (shp_complete 63 64 0 (sp_blocks size bs) k K); try lia.
    exists 63, 0. split; [lia|exact B63]. }
  apply (in_map (nname bs)) in Hin. unfold nname at 1 in Hin. cbn [fst snd] in Hin. rewrite En in Hin.
  rewrite <- (stored_post_shape size bs Hs) in Hin. apply filter_In in Hin. exact Hin.
Qed.

(* hence a node id classified Stable whose byte end does not wrap is a stored node of the tree with its subtree
   inside the blob: the Stable nodes are exactly the stable stored nodes of gap_post_slots_exact *)
Theorem gap_stable_listed_all size bs nd v : size <= 2 ^ 63 -> sp_chunk_end nd * 1024 < 2 ^ 64 ->
  post_order_offset (mkTree size bs) nd = Some (Stable v) ->
  In nd (sp_post_nodes size bs) /\ sp_persisted size bs nd = true /\ sp_subtree_inside size nd = true.
Proof.
  intros Hs Hw Hst.
  destruct (proj1 (gap_stable_iff_all size bs nd Hw) (ex_intro _ v Hst)) as [Hl Hi].
  destruct (gap_inside_listed size bs nd Hs Hl Hi) as [A1 A2].
  split; [exact A1|]. split; [exact A2|]. unfold sp_subtree_inside. apply N.leb_le. exact Hi.
Qed.
