(* C16, part 3: the right-spine invariant.  A decoder (sync or fsm step) that walks the plan of a
   CLAIMED size size' whose query selects the last claimed chunk, against expected values of the TRUE
   tree of `data`, can only finish if size' = blen data. *)
From BaoV Require Import Model.Fsm Spec.HashAssm Spec.EncSpec Spec.RangeSpec Spec.PlanSpec Spec.PlanWf.
From BaoV Require Import Proofs.DecLoop Proofs.DecHash Proofs.BridgeBase Proofs.BridgeTree Proofs.BridgePlan.
From BaoV Require Import Proofs.RangeProofs Proofs.PlanBase Proofs.SizeHash Proofs.SizeDec.
From Coq Require Import Lia Arith.


Section SizeSpine.
Variable HO : hops.
Notation bytes := (bytes HO).
Notation hash := (hash HO).
Hypothesis HOK : hash_ok HO.
Variable step : stepT HO.
Hypothesis Hok : step_ok HO step.

Variable data : bytes.
Variables (size' bs : N) (q : ranges).
Hypothesis Hsize' : size' <= 2 ^ 63.
Hypothesis Hdata : blen HO data <= 2 ^ 63.
Hypothesis Hwf : wf_ranges q = true.
Hypothesis Hsel : sel q size' (nchunks size' - 1) = true.

Let q' := truncate_ranges q size'.
Let NT := nchunks (blen HO data).
Notation capof := PlanBase.capof.
Notation fin := (fin HO step).

(* every right-spine node of the claimed tree is reached by the query *)
Lemma any_rm_true : forall a e, a < nchunks size' -> q_any q' a e true = true.
Proof.
  intros a e Ha. unfold q'. rewrite (bridge_q_any q size' a e true Hwf Ha) by discriminate.
  apply existsb_exists. exists (nchunks size' - 1). split; [|exact Hsel].
  apply crl_in. clear - Ha. lia.
Qed.

Lemma NT_small : NT <= 2 ^ 63.
Proof.
  unfold NT. pose proof (nchunks_small (blen HO data) Hdata) as H.
  assert (2 ^ 53 <= 2 ^ 63) by (apply pow2_le_mono; lia). lia.
Qed.

(* the invariant, per node of the claimed plan:
   (1) an unreached node has an empty plan;
   (2) a reached node whose plan is decoded successfully pops exactly one expected value;
   (3) a right-spine node decoded successfully against the value of ANY right-spine node
       [a_t, NT) of the true tree forces size' = blen data. *)
Definition Pnode (ga n : N) (ir rm : bool) (plan : list chunk) : Prop :=
  (q_any q' ga (ga + capof n) rm = false -> plan = []) /\
  (q_any q' ga (ga + capof n) rm = true -> forall rest stk enc, fin (plan ++ rest) stk enc ->
     exists h stk' enc', stk = h :: stk' /\ fin rest stk' enc') /\
  (rm = true -> forall rest stk enc h a_t f, fin (plan ++ rest) (h :: stk) enc ->
     h = cv HO data a_t NT f -> a_t < NT -> size' = blen HO data).

(* geometry of a right-spine node *)
Lemma rm_geom : forall ga n, node_ok size' 0 ga n true ->
  ga < nchunks size' /\ nchunks size' <= ga + capof n.
Proof.
  intros ga n [P _ _ R]. rewrite sp_blocks_0 in R.
  destruct (capof_spec n P) as (k & _ & L & _). lia.
Qed.

(* a single leaf item *)
Lemma P_single : forall ga n ir rm, node_ok size' 0 ga n rm ->
  q_any q' ga (ga + capof n) rm = true ->
  Pnode ga n ir rm [CLeaf ga (span_bytes size' ga (ga + capof n)) ir []].
Proof.
  intros ga n ir rm Hnode Hany. split; [congruence|]. split.
  - intros _ rest stk enc H. cbn [app] in H.
    destruct (fin_leaf HO step Hok _ _ _ _ _ _ _ H) as (buf & stk0 & enc' & -> & _ & Hf).
    eauto.
  - intros -> rest stk enc h a_t f H Hh Ha. cbn [app] in H.
    destruct (fin_leaf HO step Hok _ _ _ _ _ _ _ H) as (buf & stk0 & enc' & E & Hlen & Hf).
    injection E as E _. destruct (rm_geom ga n Hnode) as [G1 G2].
    apply (leaf_size_eq HO HOK data buf size' ga (ga + capof n) a_t f ir); auto.
    fold NT. congruence.
Qed.

(* what an accepted parent item against a true right-spine value gives for its right child *)
Lemma parent_spine : forall (l r : hash) ir a_t f,
  length l = 32%nat -> length r = 32%nat -> a_t < NT ->
  parent_cv HO l r ir = cv HO data a_t NT f ->
  exists a2, a2 < NT /\ r = cv HO data a2 NT false.
Proof.
  intros l r ir a_t f L1 L2 Ha H. pose proof NT_small as HN.
  destruct (parent_eq_cv HO HOK data a_t NT f l r ir ltac:(lia) L1 L2 H) as (H2 & _ & Hr).
  pose proof (half_bounds (NT - a_t) 62 H2 ltac:(lia)) as (A1 & A2 & _).
  cbv zeta in A1, A2. exists (a_t + next_pow2 (NT - a_t) / 2). split; [lia|exact Hr].
Qed.

Lemma Pnode_all : forall fuel ga n ir rm,
  node_ok size' 0 ga n rm -> N.log2 (capof n) <= N.of_nat fuel ->
  Pnode ga n ir rm (pre_plan_rec fuel size' 0 bs q' ga n ir rm).
Proof.
  apply (pre_plan_rec_ind size' 0 bs q' Pnode); change (2 ^ 0) with 1.
  - (* unreached *)
    intros ga n ir rm Hnode Hany. rewrite !N.mul_1_r in Hany.
    split; [reflexivity|]. split; [congruence|].
    intros -> . exfalso. destruct (rm_geom ga n Hnode) as [G1 _].
    rewrite any_rm_true in Hany by assumption. discriminate.
  - (* fully selected small subtree: one leaf *)
    intros ga n ir rm Hnode Hany _ _. rewrite !N.mul_1_r in *. now apply P_single.
  - (* a single chunk *)
    intros ga n ir rm Hnode _ Hany _ _. rewrite !N.mul_1_r in *. now apply P_single.
  - (* parent of two chunks *)
    intros ga n ir rm Hnode Hn Hany _ Hsz. rewrite !N.mul_1_r in *. cbv zeta. rewrite ?N.mul_1_r.
    rewrite unshift0.
    set (lf := q_any q' ga (ga + 1) false). set (rf := q_any q' (ga + 1) (ga + capof n) rm).
    split; [congruence|]. split.
    + intros _ rest stk enc H. cbn [app] in H.
      destruct (fin_parent HO step Hok _ _ _ _ _ _ _ _ H) as (l & r & stk0 & enc1 & -> & _ & _ & Hf).
      exists (parent_cv HO l r ir), stk0.
      destruct lf; cbn [app] in Hf.
      * destruct (fin_leaf HO step Hok _ _ _ _ _ _ _ Hf) as (b1 & s1 & enc2 & E1 & _ & Hf1).
        injection E1 as _ <-.
        destruct rf; cbn [app] in Hf1.
        -- destruct (fin_leaf HO step Hok _ _ _ _ _ _ _ Hf1) as (b2 & s2 & enc3 & E2 & _ & Hf2).
           injection E2 as _ <-. eauto.
        -- eauto.
      * destruct rf; cbn [app] in Hf.
        -- destruct (fin_leaf HO step Hok _ _ _ _ _ _ _ Hf) as (b2 & s2 & enc3 & E2 & _ & Hf2).
           injection E2 as _ <-. eauto.
        -- eauto.
    + intros -> rest stk enc h a_t f H Hh Ha. cbn [app] in H.
      destruct (rm_geom ga n Hnode) as [G1 G2].
      assert (Hm : ga + 1 < nchunks size').
      { apply nchunks_spec. right. lia. }
      assert (Er : rf = true) by (apply any_rm_true; exact Hm). rewrite Er in H.
      destruct (fin_parent HO step Hok _ _ _ _ _ _ _ _ H) as (l & r & stk0 & enc1 & E & L1 & L2 & Hf).
      injection E as E _. rewrite Hh in E. symmetry in E.
      destruct (parent_spine l r ir a_t f L1 L2 Ha E) as (a2 & Ha2 & Hr).
      assert (Hright : forall stk1 enc2,
                fin ([CLeaf (ga + 1) (span_bytes size' (ga + 1) (ga + capof n)) false []] ++ rest)
                    (r :: stk1) enc2 -> size' = blen HO data).
      { intros stk1 enc2 Hf2. cbn [app] in Hf2.
        destruct (fin_leaf HO step Hok _ _ _ _ _ _ _ Hf2) as (b2 & s2 & enc3 & E2 & Hlen & _).
        injection E2 as E2 _.
        apply (leaf_size_eq HO HOK data b2 size' (ga + 1) (ga + capof n) a2 false false); auto.
        fold NT. congruence. }
      destruct lf; cbn [app] in Hf.
      * destruct (fin_leaf HO step Hok _ _ _ _ _ _ _ Hf) as (b1 & s1 & enc2 & E1 & _ & Hf1).
        injection E1 as _ <-. eapply Hright. exact Hf1.
      * eapply Hright. exact Hf.
  - (* inner parent *)
    intros ga n ir rm pl pr Hnode Hn Hany _. cbv zeta. rewrite !N.mul_1_r in *.
    intros Hnl Hnr PL PR.
    destruct (capof_inner n Hn) as (j & Ecap & Eh & L1 & L2 & C1 & C2).
    set (half := capof n / 2) in *.
    assert (Echalf : capof half = half) by (rewrite Eh; exact C1).
    assert (Ecap' : capof n = 2 * half).
    { rewrite Eh, Ecap. replace (j + 2) with (j + 1 + 1) by lia. now rewrite pow2_succ. }
    set (lf := q_any q' ga (ga + half) false).
    set (rf := q_any q' (ga + half) (ga + capof n) rm).
    destruct PL as (PL1 & PL2 & _). destruct PR as (PR1 & PR2 & PR3).
    rewrite Echalf in PL1, PL2. fold lf in PL1, PL2.
    assert (Eany : q_any q' (ga + half) (ga + half + capof (n - half)) rm = rf).
    { unfold rf. destruct rm; [reflexivity|]. pose proof (nk_rm _ _ _ _ _ Hnode) as R. cbn in R.
      assert (Hnh : n - half = half) by lia. rewrite Hnh, Echalf, Ecap'. f_equal. lia. }
    rewrite Eany in PR1, PR2.
    (* running the two children after the parent item *)
    assert (Hkids : forall (l r : hash) stk0 rest enc1,
              fin (pl ++ pr ++ rest) ((if lf then [l] else []) ++ (if rf then [r] else []) ++ stk0) enc1 ->
              exists enc2, fin (pr ++ rest) ((if rf then [r] else []) ++ stk0) enc2).
    { intros l r stk0 rest enc1 Hf. destruct lf.
      - destruct (PL2 eq_refl _ _ _ Hf) as (h1 & s1 & enc2 & E1 & Hf1).
        cbn [app] in E1. injection E1 as _ <-. eauto.
      - rewrite (PL1 eq_refl) in Hf. cbn [app] in Hf. eauto. }
    unfold unshift. change (2 ^ 0) with 1. rewrite N.mul_1_r.
    replace (ga + half - 1 + 1 - 1) with (ga + half - 1) by lia.
    split; [congruence|]. split.
    + intros _ rest stk enc H. cbn [app] in H. rewrite <- app_assoc in H.
      destruct (fin_parent HO step Hok _ _ _ _ _ _ _ _ H) as (l & r & stk0 & enc1 & -> & _ & _ & Hf).
      exists (parent_cv HO l r ir), stk0.
      destruct (Hkids l r stk0 rest enc1 Hf) as (enc2 & Hf2).
      destruct rf.
      * destruct (PR2 eq_refl _ _ _ Hf2) as (h2 & s2 & enc3 & E2 & Hf3).
        cbn [app] in E2. injection E2 as _ <-. eauto.
      * rewrite (PR1 eq_refl) in Hf2. cbn [app] in Hf2. eauto.
    + intros -> rest stk enc h a_t f H Hh Ha. cbn [app] in H. rewrite <- app_assoc in H.
      destruct (rm_geom ga n Hnode) as [G1 G2].
      destruct (rm_geom _ _ Hnr) as [G3 _].
      assert (Er : rf = true) by (apply any_rm_true; exact G3).
      destruct (fin_parent HO step Hok _ _ _ _ _ _ _ _ H) as (l & r & stk0 & enc1 & E & L1' & L2' & Hf).
      injection E as E _. rewrite Hh in E. symmetry in E.
      destruct (parent_spine l r ir a_t f L1' L2' Ha E) as (a2 & Ha2 & Hr).
      destruct (Hkids l r stk0 rest enc1 Hf) as (enc2 & Hf2).
      rewrite Er in Hf2. cbn [app] in Hf2.
      exact (PR3 eq_refl rest stk0 enc2 r a2 false Hf2 Hr Ha2).
Qed.

(* the whole plan of the claimed geometry, from the root value of the true tree.
   (plan and root are abstracted: never compute with pre_plan / root_hash) *)
Theorem plan_size_authenticated : forall plan root stk enc,
  plan = pre_plan size' 0 bs (truncate_ranges q size') -> root = root_hash HO data ->
  fin plan (root :: stk) enc -> size' = blen HO data.
Proof.
  intros plan root stk enc Hplan Hroot H.
  assert (PP : Pnode 0 (sp_blocks size' 0) true true plan).
  { rewrite Hplan. unfold pre_plan. apply Pnode_all; [apply node_ok_root|apply root_fuel; exact Hsize']. }
  destruct PP as (_ & _ & P3).
  apply (P3 eq_refl [] stk enc root 0 true).
  - rewrite app_nil_r. exact H.
  - subst root. reflexivity.
  - unfold NT. pose proof (nchunks_bounds (blen HO data)). lia.
Qed.

(* the truncated query is not empty, so the plan has a sound stack discipline *)
Lemma q'_nonempty : truncate_ranges q size' <> [].
Proof.
  intro E. assert (H0 : 0 < nchunks size') by (clear; pose proof (nchunks_bounds size'); lia).
  pose proof (any_rm_true 0 1 H0) as H.
  unfold q' in H. rewrite E in H. discriminate.
Qed.

End SizeSpine.
