(* PostOrderChunkIter (src/iter.rs:389-465) against the recursive plan [post_plan]:
   (a) the chunk iterator is the node iterator with every node expanded into its items,
   (b) expanding the Shape listing [sh_post] node by node gives [post_plan_rec]. *)
From BaoV Require Import Model.Iter Spec.NodeSpec Spec.PlanSpec
  Proofs.NodeLevel Proofs.NodeBits Proofs.NodeAlgebra Proofs.RangeRound Proofs.PlanRun.
From Coq Require Import ZArith Lia.
Open Scope N_scope.
Arguments N.add : simpl never.
Arguments N.sub : simpl never.
Arguments N.mul : simpl never.
Arguments N.pow : simpl never.
Arguments N.shiftl : simpl never.
Arguments N.shiftr : simpl never.
Arguments N.land : simpl never.
Arguments N.div : simpl never.
Arguments N.modulo : simpl never.
Arguments N.log2 : simpl never.
Arguments N.min : simpl never.
Arguments N.max : simpl never.

(* ---- next_pow2 ---- *)
Lemma ppi_pow2_lt_inv a b : 2 ^ a < 2 ^ b -> a < b.
Proof. intro H. apply (N.pow_lt_mono_r_iff 2); [lia|assumption]. Qed.

Lemma ppi_next_pow2_spec n : 1 <= n -> exists k, next_pow2 n = 2 ^ k /\ n <= 2 ^ k /\ 2 ^ k < 2 * n.
Proof.
  intro H. destruct n as [|p]; [lia|]. unfold next_pow2. set (n := N.pos p) in *.
  destruct (N.log2_spec n ltac:(lia)) as [L1 L2]. rewrite N.pow_succ_r' in L2.
  destruct (N.eqb_spec n (2 ^ N.log2 n)) as [Q|Q].
  - exists (N.log2 n). rewrite <- Q. lia.
  - exists (N.succ (N.log2 n)). rewrite N.pow_succ_r'. lia.
Qed.

Lemma ppi_next_pow2_unique n k : n <= 2 ^ k -> 2 ^ k < 2 * n -> next_pow2 n = 2 ^ k.
Proof.
  intros A B. pose proof (pow2_pos k).
  destruct (ppi_next_pow2_spec n ltac:(lia)) as (j & -> & C & D). f_equal.
  assert (H1 : 2 ^ k < 2 ^ (j + 1)) by (rewrite pow2_succ; lia).
  assert (H2 : 2 ^ j < 2 ^ (k + 1)) by (rewrite pow2_succ; lia).
  apply ppi_pow2_lt_inv in H1. apply ppi_pow2_lt_inv in H2. lia.
Qed.

(* the split point of a subtree over n >= 3 groups *)
Lemma ppi_half_spec n : 3 <= n ->
  exists h, next_pow2 n / 2 = 2 ^ (h + 1) /\ 2 ^ (h + 1) < n /\ n <= 2 * 2 ^ (h + 1).
Proof.
  intro H. destruct (ppi_next_pow2_spec n ltac:(lia)) as (k & E & A & B).
  destruct (N.eq_dec k 0) as [->|K0]; [rewrite N.pow_0_r in A; lia|].
  destruct (N.eq_dec k 1) as [->|K1]; [rewrite N.pow_1_r in A; lia|].
  exists (k - 2). replace k with (k - 2 + 1 + 1) in E, A, B by lia.
  rewrite pow2_succ in E, A, B. rewrite E.
  split; [|lia]. rewrite N.mul_comm. apply N.div_mul. discriminate.
Qed.


(* ---- (a) the chunk iterator expands the node iterator ---- *)
Section PocSteps.
Variables (t : tree) (root : N).

(* the items PostOrderChunkIter yields for one node of the inner iterator *)
Definition items_of (sh : N) : list chunk :=
  let is_root := sh =? root in
  let node := subtract_block_size sh (tbs t) in
  if is_leaf sh then
    let '(s, m, e) := leaf_byte_ranges3 t node in
    let l_start := fst (chunk_range node) in
    let r_start := l_start + chunk_group_chunks t in
    let is_half_leaf := m =? e in
    CLeaf l_start (m - s) (is_root && is_half_leaf) [] ::
      (if is_half_leaf then []
       else [CLeaf r_start (e - m) false []; CParent node is_root true true []])
  else [CParent node is_root true true []].

Lemma poc_next_items f ist sh ist' :
  post_next NEXT_FUEL ist = Some (sh, ist') ->
  steps (poc_next (S (S f))) (mkPoc t ist [] root) (items_of sh) (mkPoc t ist' [] root).
Proof.
  intro H. unfold items_of.
  destruct (is_leaf sh) eqn:EL.
  - destruct (leaf_byte_ranges3 t (subtract_block_size sh (tbs t))) as [[s m] e] eqn:E3.
    econstructor.
    + cbn [poc_next poc_stack poc_inner poc_tree poc_root]. rewrite H, EL, E3. reflexivity.
    + destruct (m =? e).
      * constructor.
      * econstructor; [reflexivity|]. econstructor; [reflexivity|]. constructor.
  - econstructor; [|constructor].
    cbn [poc_next poc_stack poc_inner poc_tree poc_root]. rewrite H, EL. reflexivity.
Qed.

Lemma poc_next_end f ist :
  post_next NEXT_FUEL ist = None -> poc_next (S f) (mkPoc t ist [] root) = None.
Proof. intro H. cbn [poc_next poc_stack poc_inner]. now rewrite H. Qed.

Lemma poc_steps_nodes ist nodes ist' :
  steps (post_next NEXT_FUEL) ist nodes ist' ->
  steps (poc_next 4) (mkPoc t ist [] root) (flat_map items_of nodes) (mkPoc t ist' [] root).
Proof.
  induction 1 as [|st a st1 l st' Hn _ IH]; cbn [flat_map]; [constructor|].
  eapply steps_app; [|exact IH]. now apply (poc_next_items 2).
Qed.

Lemma poc_trace_nodes ist nodes :
  trace (post_next NEXT_FUEL) ist nodes ->
  trace (poc_next 4) (mkPoc t ist [] root) (flat_map items_of nodes).
Proof.
  intros (ist' & Hs & He). exists (mkPoc t ist' [] root).
  split; [now apply poc_steps_nodes|now apply poc_next_end].
Qed.

Lemma items_of_len sh : len (items_of sh) <= 3.
Proof.
  unfold items_of, len. destruct (is_leaf sh); [|cbn [length]; lia].
  destruct (leaf_byte_ranges3 _ _) as [[s m] e]. destruct (m =? e); cbn [length]; lia.
Qed.

Lemma flat_items_len l : len (flat_map items_of l) <= 3 * len l.
Proof.
  induction l as [|a l IH]; cbn [flat_map]; [unfold len; cbn [length]; lia|].
  rewrite len_app. pose proof (items_of_len a).
  replace (len (a :: l)) with (1 + len l) by (unfold len; cbn [length]; lia). lia.
Qed.
End PocSteps.

Lemma poc_new_eq t :
  poc_new t = mkPoc t (niter_new (fst (shifted t)) (snd (shifted t))) [] (fst (shifted t)).
Proof. unfold poc_new. now destruct (shifted t). Qed.

Lemma post_order_chunks_iter_unfold t :
  post_order_chunks_iter t = run_iter (poc_next 4) (poc_new t).
Proof. reflexivity. Qed.
Lemma post_order_nodes_shifted_unfold root len :
  post_order_nodes_shifted root len = run_iter (post_next NEXT_FUEL) (niter_new root len).
Proof. reflexivity. Qed.

(* (a): the plan is the node listing with every node expanded *)
Lemma chunks_iter_from_nodes t nodes :
  post_order_nodes_shifted (fst (shifted t)) (snd (shifted t)) = nodes ->
  3 * len nodes < 2 ^ 64 ->
  post_order_chunks_iter t = flat_map (items_of t (fst (shifted t))) nodes.
Proof.
  intros H Hl. rewrite post_order_chunks_iter_unfold, poc_new_eq.
  rewrite post_order_nodes_shifted_unfold in H.
  apply run_iter_trace.
  - apply poc_trace_nodes. apply run_iter_inv; [exact H|lia].
  - eapply N.le_lt_trans; [apply flat_items_len|exact Hl].
Qed.

(* ---- (b) geometry of the leaves ---- *)
Lemma is_leaf_even k : is_leaf (2 * k) = true.
Proof. destruct k; reflexivity. Qed.
Lemma is_leaf_odd k : is_leaf (2 * k + 1) = false.
Proof. destruct k; reflexivity. Qed.

Lemma ppi_to_bytes_small c : c * 1024 < 2 ^ 64 -> to_bytes c = c * 1024.
Proof.
  intro H. unfold to_bytes, shl64. rewrite N.shiftl_mul_pow2. change (2 ^ 10) with 1024.
  apply N.mod_small. exact H.
Qed.

Lemma blocks_raw_cdiv size bs : blocks_raw size bs = cdiv size (1024 * 2 ^ bs).
Proof.
  unfold blocks_raw, cdiv. rewrite mask_ones, N.land_ones, b2n_part, N.shiftr_div_pow2.
  replace (2 ^ (bs + 10)) with (1024 * 2 ^ bs); [reflexivity|].
  rewrite pow2_add. change (2 ^ 10) with 1024. lia.
Qed.

Lemma sp_blocks_cdiv size bs : sp_blocks size bs = N.max 1 (cdiv size (1024 * 2 ^ bs)).
Proof.
  unfold sp_blocks. rewrite cdiv_alt; [reflexivity|]. pose proof (pow2_pos bs). lia.
Qed.

Lemma shifted_root size bs :
  fst (shifted (mkTree size bs)) = next_pow2 (div_ceil2 (sp_blocks size bs)) - 1.
Proof.
  unfold shifted. cbn [fst tsize tbs]. rewrite sp_blocks_cdiv, blocks_raw_cdiv.
  now rewrite N.max_comm.
Qed.

Section Geometry.
Variables (size bs : N).
Hypothesis Hsize : size <= 2 ^ 63.
Hypothesis Hbs : bs <= 10.
Let g := 2 ^ bs.
Let B := sp_blocks size bs.
Let t := mkTree size bs.

Lemma g_bounds : 1 <= g /\ g <= 1024.
Proof.
  unfold g. pose proof (pow2_pos bs). split; [lia|].
  change 1024 with (2 ^ 10). apply N.pow_le_mono_r; lia.
Qed.

(* group j is inside the blob iff j < B *)
Lemma B_ge1 : 1 <= B.
Proof. unfold B. rewrite sp_blocks_cdiv. lia. Qed.
Lemma B_inside j : j < B -> j = 0 \/ j * g * 1024 < size.
Proof.
  unfold B. rewrite sp_blocks_cdiv. intro H. pose proof g_bounds.
  destruct (N.eq_dec j 0) as [->|J]; [now left|right].
  assert (H' : j < cdiv size (1024 * 2 ^ bs)) by lia.
  apply cdiv_iff in H'; [fold g in H'; lia|fold g; lia].
Qed.
Lemma B_outside : size <= B * g * 1024.
Proof.
  unfold B. rewrite sp_blocks_cdiv. pose proof g_bounds.
  assert (H' : size <= cdiv size (1024 * 2 ^ bs) * (1024 * 2 ^ bs)) by (apply cdiv_mul_ge; fold g; lia).
  fold g in H' |- *. set (c := cdiv size (1024 * g)) in *.
  destruct (N.max_spec 1 c) as [[? ->]|[? ->]]; nia.
Qed.
Lemma B_upper : B * g * 1024 <= size + g * 1024.
Proof.
  unfold B. rewrite sp_blocks_cdiv. pose proof g_bounds.
  assert (H' : cdiv size (1024 * 2 ^ bs) * (1024 * 2 ^ bs) < size + 1024 * 2 ^ bs) by (apply cdiv_mul_lt; fold g; lia).
  fold g in H' |- *. set (c := cdiv size (1024 * g)) in *.
  destruct (N.max_spec 1 c) as [[? ->]|[? ->]]; nia.
Qed.
Lemma B_small : B < 2 ^ 54.
Proof.
  pose proof B_upper. pose proof g_bounds.
  assert (B * 1 * 1024 <= B * g * 1024) by nia.
  change (2 ^ 63) with 9223372036854775808 in Hsize. change (2 ^ 54) with 18014398509481984. nia.
Qed.

Lemma node_unshift a : a < B -> subtract_block_size a bs = unshift bs a.
Proof.
  intro H. unfold unshift. apply subtract_block_size_gen. fold g.
  pose proof B_small. pose proof g_bounds.
  assert ((a + 1) * g <= 18014398509481984 * 1024) by (apply N.mul_le_mono; change (2 ^ 54) with 18014398509481984 in *; lia).
  change (2 ^ 64) with 18446744073709551616. lia.
Qed.

Lemma ppi_unshift_succ a : unshift bs a + 1 = (a + 1) * g.
Proof. unfold unshift. fold g. pose proof g_bounds. nia. Qed.

Lemma bytes_bound a : a < B -> (a + 2) * g * 1024 < 2 ^ 64.
Proof.
  intro H. pose proof B_upper. pose proof g_bounds.
  assert ((a + 2) * (g * 1024) <= (B + 1) * (g * 1024)) by (apply N.mul_le_mono_r; lia).
  change (2 ^ 63) with 9223372036854775808 in Hsize. change (2 ^ 64) with 18446744073709551616. lia.
Qed.

Lemma leaf_geometry k : 2 * k < B ->
  chunk_range (unshift bs (2 * k)) = (2 * k * g, (2 * k + 2) * g) /\
  leaf_byte_ranges3 t (unshift bs (2 * k)) =
    (2 * k * g * 1024, N.min ((2 * k + 1) * g * 1024) size, N.min ((2 * k + 2) * g * 1024) size).
Proof.
  intro H. pose proof (ppi_unshift_succ (2 * k)) as Hs. pose proof (bytes_bound _ H) as Hb.
  pose proof g_bounds.
  destruct (decomp_unique (unshift bs (2 * k)) bs k) as [Hl Hi]; [rewrite Hs; reflexivity|].
  assert (Hcr : chunk_range (unshift bs (2 * k)) = (2 * k * g, (2 * k + 2) * g)).
  { rewrite chunk_range_gen. unfold sp_chunk_start, sp_chunk_end.
    rewrite <- level_is_sp_level, Hl, Hi. fold g. f_equal; lia. }
  split; [exact Hcr|].
  unfold leaf_byte_ranges3, node_byte_range, mid. rewrite Hcr, Hs. unfold t. cbn [tsize].
  rewrite !ppi_to_bytes_small by lia. reflexivity.
Qed.

Variable root : N.

(* the last leaf with only its left group inside the blob *)
Lemma items_leaf1 k : 2 * k + 1 = B ->
  items_of t root (2 * k) =
  [CLeaf (2 * k * g) (span_bytes size (2 * k * g) ((2 * k + 1) * g)) (2 * k =? root) []].
Proof.
  intro H. assert (Hlt : 2 * k < B) by lia.
  destruct (leaf_geometry k Hlt) as [Hcr H3]. pose proof g_bounds.
  pose proof B_outside as Ho. rewrite <- H in Ho.
  assert (Hin : 2 * k * g * 1024 <= size) by (destruct (B_inside _ Hlt) as [E|E]; [rewrite E|]; lia).
  unfold items_of. cbv zeta. rewrite is_leaf_even. change (tbs t) with bs.
  rewrite (node_unshift _ Hlt). rewrite H3, Hcr. cbn [fst].
  rewrite (N.min_r ((2 * k + 1) * g * 1024) size) by lia.
  rewrite (N.min_r ((2 * k + 2) * g * 1024) size) by lia.
  rewrite N.eqb_refl, andb_true_r. unfold span_bytes.
  rewrite (N.min_r ((2 * k + 1) * g * 1024) size) by lia.
  rewrite (N.min_l (2 * k * g * 1024) size) by lia. reflexivity.
Qed.

(* a leaf with both groups inside the blob *)
Lemma items_leaf2 k : 2 * k + 2 <= B ->
  items_of t root (2 * k) =
  [CLeaf (2 * k * g) (span_bytes size (2 * k * g) ((2 * k + 1) * g)) false [];
   CLeaf ((2 * k + 1) * g) (span_bytes size ((2 * k + 1) * g) ((2 * k + 2) * g)) false [];
   CParent (unshift bs (2 * k)) (2 * k =? root) true true []].
Proof.
  intro H. assert (Hlt : 2 * k < B) by lia.
  destruct (leaf_geometry k Hlt) as [Hcr H3]. pose proof g_bounds.
  assert (Hin : (2 * k + 1) * g * 1024 < size) by (destruct (B_inside (2 * k + 1)) as [E|E]; lia).
  unfold items_of. cbv zeta. rewrite is_leaf_even. change (tbs t) with bs.
  rewrite (node_unshift _ Hlt). rewrite H3, Hcr. cbn [fst].
  unfold chunk_group_chunks, t. cbn [tbs]. rewrite N.shiftl_1_l. fold g.
  rewrite (N.min_l ((2 * k + 1) * g * 1024) size) by lia.
  destruct (N.eqb_spec ((2 * k + 1) * g * 1024) (N.min ((2 * k + 2) * g * 1024) size)) as [E|E]; [lia|].
  rewrite andb_false_r. unfold span_bytes.
  rewrite (N.min_l ((2 * k + 1) * g * 1024) size) by lia.
  rewrite (N.min_l (2 * k * g * 1024) size) by lia.
  replace (2 * k * g + g) with ((2 * k + 1) * g) by lia. reflexivity.
Qed.

(* an inner node of the shifted tree *)
Lemma items_inner k : 2 * k + 1 < B ->
  items_of t root (2 * k + 1) = [CParent (unshift bs (2 * k + 1)) (2 * k + 1 =? root) true true []].
Proof.
  intro H. unfold items_of. cbv zeta. rewrite is_leaf_odd. change (tbs t) with bs.
  now rewrite (node_unshift _ H).
Qed.

(* id of the top node of Shape(a, n) *)
Definition sh_top (a n : N) : N := if n <=? 2 then a else a + next_pow2 n / 2 - 1.

(* (b): expanding the Shape listing gives the recursive plan.  The subtree over groups [a, a+n)
   sits in a slot of capacity 2^(j+1); it is either full or the right edge of the tree.
   [flag] says whether its top node is the root of the whole tree. *)
Lemma plan_rec_eq : forall fuel a n j flag,
  1 <= n -> n <= 2 ^ (j + 1) -> a + n <= B -> (exists k, a = 2 * k) ->
  (a + n = B \/ n = 2 ^ (j + 1)) ->
  (flag = true -> root = sh_top a n) ->
  (flag = false -> root < a \/ a + 2 ^ (j + 1) - 1 <= root) ->
  flat_map (items_of t root) (sh_post fuel a n) = post_plan_rec fuel size bs a n flag.
Proof.
  induction fuel as [|f IH]; intros a n j flag Hn Hc HB [k ->] Hfull Ht Hf; [reflexivity|].
  cbn [sh_post post_plan_rec]. fold g.
  pose proof (pow2_pos j) as Pj. rewrite pow2_succ in Hc, Hfull, Hf.
  destruct (N.leb_spec n 2) as [L|L].
  - cbn [flat_map]. rewrite app_nil_r.
    assert (Ef : (2 * k =? root) = flag).
    { destruct flag.
      - rewrite (Ht eq_refl). unfold sh_top. destruct (N.leb_spec n 2); [apply N.eqb_refl|lia].
      - apply N.eqb_neq. specialize (Hf eq_refl). lia. }
    destruct (N.eqb_spec n 1) as [->|N1].
    + rewrite items_leaf1 by lia. rewrite Ef. reflexivity.
    + destruct (N.eqb_spec n 2) as [->|N2]; [|lia]. rewrite items_leaf2 by lia. rewrite Ef. reflexivity.
  - destruct (N.eqb_spec n 1); [lia|]. destruct (N.eqb_spec n 2); [lia|].
    destruct (ppi_half_spec n) as (h & Eh & H1 & H2); [lia|].
    unfold sh_top in Ht. destruct (N.leb_spec n 2) as [|_]; [lia|]. rewrite Eh in Ht |- *. clear Eh.
    pose proof (pow2_pos h) as Ph. rewrite pow2_succ in H1, H2, Ht |- *.
    assert (Hhj : h < j) by (apply ppi_pow2_lt_inv; lia).
    assert (Hhj' : 2 * 2 ^ h <= 2 ^ j).
    { rewrite <- pow2_succ. apply N.pow_le_mono_r; lia. }
    assert (Hfull' : n = 2 * 2 ^ j -> n = 2 * (2 * 2 ^ h)).
    { intro E. assert (J : j < h + 1 + 1) by (apply ppi_pow2_lt_inv; rewrite !pow2_succ; lia).
      replace j with (h + 1) in E by lia. now rewrite pow2_succ in E. }
    rewrite !flat_map_app. cbn [flat_map]. rewrite app_nil_r.
    rewrite (IH (2 * k) (2 * 2 ^ h) h false), (IH (2 * k + 2 * 2 ^ h) (n - 2 * 2 ^ h) h false).
    + f_equal. f_equal.
      replace (2 * k + 2 * 2 ^ h - 1) with (2 * (k + 2 ^ h - 1) + 1) by lia.
      rewrite items_inner by lia.
      replace (2 * (k + 2 ^ h - 1) + 1 =? root) with flag; [reflexivity|].
      destruct flag.
      * rewrite (Ht eq_refl). symmetry. apply N.eqb_eq. lia.
      * symmetry. apply N.eqb_neq. specialize (Hf eq_refl). lia.
    + lia.
    + rewrite pow2_succ. lia.
    + lia.
    + exists (k + 2 ^ h). lia.
    + destruct Hfull as [E|E]; [left; lia|right]. rewrite pow2_succ. specialize (Hfull' E). lia.
    + discriminate.
    + intros _. rewrite pow2_succ. destruct flag; [rewrite (Ht eq_refl); lia|specialize (Hf eq_refl); lia].
    + lia.
    + rewrite pow2_succ. lia.
    + lia.
    + now exists k.
    + right. now rewrite pow2_succ.
    + discriminate.
    + intros _. rewrite pow2_succ. destruct flag; [rewrite (Ht eq_refl); lia|specialize (Hf eq_refl); lia].
Qed.
End Geometry.

(* ---- putting (a) and (b) together ---- *)
Lemma sh_post_len : forall fuel a n, 1 <= n -> len (sh_post fuel a n) + 1 <= 2 * n.
Proof.
  induction fuel as [|f IH]; intros a n Hn; cbn [sh_post].
  - unfold len. cbn [length]. lia.
  - destruct (N.leb_spec n 2) as [L|L]; [unfold len; cbn [length]; lia|].
    destruct (ppi_half_spec n) as (h & Eh & H1 & H2); [lia|]. rewrite Eh.
    pose proof (pow2_pos (h + 1)) as Ph.
    rewrite !len_app.
    pose proof (IH a (2 ^ (h + 1)) ltac:(lia)).
    pose proof (IH (a + 2 ^ (h + 1)) (n - 2 ^ (h + 1)) ltac:(lia)).
    replace (len [a + 2 ^ (h + 1) - 1]) with 1 by reflexivity. lia.
Qed.

Lemma root_is_top b : 1 <= b -> next_pow2 (div_ceil2 b) - 1 = sh_top 0 b.
Proof.
  intro H. unfold sh_top, div_ceil2. destruct (N.leb_spec b 2) as [L|L].
  - assert (E : b = 1 \/ b = 2) by lia. destruct E as [->| ->]; reflexivity.
  - destruct (ppi_half_spec b) as (h & Eh & H1 & H2); [lia|]. rewrite Eh.
    pose proof (pow2_pos h) as Ph. rewrite pow2_succ in H1, H2.
    pose proof (N.div_mod (b + 1) 2 ltac:(discriminate)) as D.
    pose proof (N.mod_lt (b + 1) 2 ltac:(discriminate)) as M.
    rewrite (ppi_next_pow2_unique ((b + 1) / 2) (h + 1)); rewrite ?pow2_succ; lia.
Qed.

Lemma post_plan_from_nodes : forall size bs, size <= 2 ^ 63 -> bs <= 10 ->
  let t := mkTree size bs in
  post_order_nodes_shifted (fst (shifted t)) (snd (shifted t)) = sh_post 65 0 (sp_blocks size bs) ->
  post_order_chunks_iter t = post_plan size bs.
Proof.
  intros size bs Hsize Hbs t H.
  pose proof (B_ge1 size bs Hsize Hbs) as B1. pose proof (B_small size bs Hsize Hbs) as B2.
  pose proof (sh_post_len 65 0 (sp_blocks size bs) B1) as HL.
  rewrite (chunks_iter_from_nodes t _ H).
  - unfold post_plan, t. rewrite shifted_root.
    apply (plan_rec_eq size bs Hsize Hbs _ 65 0 (sp_blocks size bs) 53 true).
    + exact B1.
    + change (2 ^ (53 + 1)) with (2 ^ 54). lia.
    + lia.
    + now exists 0.
    + left. lia.
    + intros _. now apply root_is_top.
    + discriminate.
  - change (2 ^ 54) with 18014398509481984 in B2. change (2 ^ 64) with 18446744073709551616. lia.
Qed.

