(* C15 (post-order part): the recursive post-order plan satisfies the well-formedness checkers. *)
From BaoV Require Import Model.Iter Spec.PlanSpec Spec.PlanWf Proofs.NodeLevel Proofs.NodeBits Proofs.NodeAlgebra.
From BaoV Require Import Proofs.RangeRound.
From Coq Require Import Lia.

Arguments N.add : simpl never.
Arguments N.sub : simpl never.
Arguments N.mul : simpl never.
Arguments N.pow : simpl never.
Arguments N.shiftl : simpl never.
Arguments N.shiftr : simpl never.
Arguments N.land : simpl never.
Arguments N.div : simpl never.
Arguments N.modulo : simpl never.
Arguments N.min : simpl never.
Arguments N.max : simpl never.

(* ---- next_pow2 ---- *)
Lemma next_pow2_spec n : 1 <= n -> exists k, next_pow2 n = 2 ^ k /\ n <= 2 ^ k /\ 2 ^ k < 2 * n.
Proof.
  intros H. unfold next_pow2. destruct n as [|p] eqn:E; [lia|]. rewrite <- E in *. clear E p.
  destruct (N.log2_spec n) as [L1 L2]; [lia|].
  rewrite N.pow_succ_r' in L2.
  destruct (N.eqb_spec n (2 ^ N.log2 n)) as [Eq|Ne].
  - exists (N.log2 n). lia.
  - exists (N.succ (N.log2 n)). rewrite N.pow_succ_r'. lia.
Qed.

Lemma pow2_lt_inv a b : 2 ^ a < 2 ^ b -> a < b.
Proof. intros H. apply (N.pow_lt_mono_r_iff 2); [lia|assumption]. Qed.

(* the split of a node over n >= 3 groups *)
Lemma half_spec n : 3 <= n -> exists h, 1 <= h /\ next_pow2 n / 2 = 2 ^ h /\ 2 ^ h < n /\ n <= 2 * 2 ^ h.
Proof.
  intros H. destruct (next_pow2_spec n) as (k & E & H1 & H2); [lia|].
  assert (1 < k).
  { destruct (N.eq_dec k 0) as [->|]; [rewrite N.pow_0_r in *; lia|].
    destruct (N.eq_dec k 1) as [->|]; [change (2 ^ 1) with 2 in *; lia|]. lia. }
  exists (k - 1). rewrite E. rewrite (pow2_pred k) in * by lia.
  split; [lia|]. split; [|lia].
  rewrite N.mul_comm. apply N.div_mul. lia.
Qed.

(* ---- induction principle over the recursive plan ---- *)
Definition leaf_of (size bs j : N) (r : bool) : chunk :=
  CLeaf (j * 2 ^ bs) (span_bytes size (j * 2 ^ bs) ((j + 1) * 2 ^ bs)) r [].

Lemma post_plan_rec_S f size bs ga n r :
  post_plan_rec (S f) size bs ga n r =
  if n =? 1 then [leaf_of size bs ga r]
  else if n =? 2 then [leaf_of size bs ga false; leaf_of size bs (ga + 1) false; CParent (unshift bs ga) r true true []]
  else post_plan_rec f size bs ga (next_pow2 n / 2) false
       ++ post_plan_rec f size bs (ga + next_pow2 n / 2) (n - next_pow2 n / 2) false
       ++ [CParent (unshift bs (ga + next_pow2 n / 2 - 1)) r true true []].
Proof.
  unfold leaf_of. replace (ga + 1 + 1) with (ga + 2) by lia. reflexivity.
Qed.

(* alignment of a node over n groups starting at group ga *)
Definition aligned (ga n : N) : Prop := exists c k, 1 <= c /\ n <= 2 ^ c /\ ga = k * 2 ^ c.

Section PlanInd.
Variables (size bs B : N).
Variable P : N -> N -> bool -> list chunk -> Prop.
Hypothesis Hleaf : forall ga r, ga + 1 <= B -> P ga 1 r [leaf_of size bs ga r].
Hypothesis Hpair : forall ga r k, ga = 2 * k -> ga + 2 <= B ->
  P ga 2 r [leaf_of size bs ga false; leaf_of size bs (ga + 1) false; CParent (unshift bs ga) r true true []].
Hypothesis Hnode : forall ga n r h k l1 l2,
  3 <= n -> 1 <= h -> 2 ^ h < n -> n <= 2 * 2 ^ h -> ga = k * (2 * 2 ^ h) -> ga + n <= B ->
  P ga (2 ^ h) false l1 -> P (ga + 2 ^ h) (n - 2 ^ h) false l2 ->
  P ga n r (l1 ++ l2 ++ [CParent (unshift bs (ga + 2 ^ h - 1)) r true true []]).

Lemma plan_ind : forall f ga n r,
  1 <= n -> n <= 2 ^ N.of_nat f -> aligned ga n -> ga + n <= B ->
  P ga n r (post_plan_rec (S f) size bs ga n r).
Proof.
  induction f as [|f IH]; intros ga n r H1 Hf Hal HB; rewrite post_plan_rec_S.
  - change (2 ^ N.of_nat 0) with 1 in Hf. assert (n = 1) as -> by lia.
    change (1 =? 1) with true. cbv iota. apply Hleaf; assumption.
  - destruct (N.eqb_spec n 1) as [->|N1]; [apply Hleaf; assumption|].
    destruct Hal as (c & k & Hc & Hnc & Hga).
    destruct (N.eqb_spec n 2) as [->|N2].
    + apply (Hpair ga r (k * 2 ^ (c - 1))); [|assumption].
      rewrite Hga, (pow2_pred c) by lia. lia.
    + destruct (half_spec n) as (h & Hh & Eh & Hlo & Hhi); [lia|]. rewrite Eh.
      assert (h < c) by (apply pow2_lt_inv; lia).
      assert (h < N.of_nat (S f)) by (apply pow2_lt_inv; lia).
      assert (2 ^ h <= 2 ^ N.of_nat f) by (apply N.pow_le_mono_r; lia).
      assert (Ec : 2 ^ c = 2 ^ (c - h - 1) * (2 * 2 ^ h)).
      { rewrite <- pow2_succ, <- pow2_add. f_equal. lia. }
      pose proof (pow2_pos h).
      apply (Hnode ga n r h (k * 2 ^ (c - h - 1))); try assumption; [lia|..].
      * rewrite Hga, Ec. lia.
      * apply IH; [lia|assumption| |lia].
        exists h, (2 * (k * 2 ^ (c - h - 1))). repeat split; [assumption|lia|]. rewrite Hga, Ec. lia.
      * apply IH; [lia|lia| |lia].
        exists h, (2 * (k * 2 ^ (c - h - 1)) + 1). repeat split; [assumption|lia|]. rewrite Hga, Ec. lia.
Qed.
End PlanInd.

(* ---- arithmetic of chunks, groups and leaves ---- *)
Lemma max1_cdiv_bounds e D : 0 < D ->
  let c := N.max 1 (cdiv e D) in 1 <= c /\ e <= c * D /\ (c = 1 \/ (c - 1) * D < e).
Proof.
  intros HD c. pose proof (cdiv_mul_ge e D HD). pose proof (cdiv_mul_lt e D HD).
  subst c. destruct (N.max_spec 1 (cdiv e D)) as [[? ->]|[? ->]]; nia.
Qed.

Lemma nchunks_bounds size :
  1 <= nchunks size /\ size <= nchunks size * 1024 /\ (nchunks size = 1 \/ (nchunks size - 1) * 1024 < size).
Proof. unfold nchunks. rewrite chunks_eq. apply max1_cdiv_bounds. lia. Qed.

Lemma leaf_chunks_bounds z :
  1 <= leaf_chunks z /\ z <= leaf_chunks z * 1024 /\ (leaf_chunks z = 1 \/ (leaf_chunks z - 1) * 1024 < z).
Proof.
  unfold leaf_chunks. replace (z + 1023) with (z + 1024 - 1) by lia. rewrite cdiv_alt by lia.
  apply max1_cdiv_bounds. lia.
Qed.

Lemma blocks_bounds size bs :
  1 <= sp_blocks size bs /\ size <= sp_blocks size bs * (2 ^ bs * 1024) /\
  (sp_blocks size bs = 1 \/ (sp_blocks size bs - 1) * (2 ^ bs * 1024) < size).
Proof.
  unfold sp_blocks. rewrite (N.mul_comm 1024). pose proof (NodeBits.pow2_pos bs).
  rewrite cdiv_alt by lia. apply max1_cdiv_bounds. lia.
Qed.

Lemma group_inside size bs j : j < sp_blocks size bs -> j = 0 \/ j * 2 ^ bs * 1024 < size.
Proof.
  intros H. destruct (blocks_bounds size bs) as (H1 & H2 & H3). pose proof (NodeBits.pow2_pos bs).
  destruct (N.eq_dec j 0); [now left|right]. nia.
Qed.

Lemma min_inside size bs m : m < sp_blocks size bs -> N.min (m * 2 ^ bs) (nchunks size) = m * 2 ^ bs.
Proof.
  intros H. destruct (group_inside size bs m H) as [->|Hm]; [lia|].
  destruct (nchunks_bounds size) as (H1 & H2 & H3). lia.
Qed.

Lemma leaf_end size bs j : j < sp_blocks size bs ->
  j * 2 ^ bs + leaf_chunks (span_bytes size (j * 2 ^ bs) ((j + 1) * 2 ^ bs)) = N.min ((j + 1) * 2 ^ bs) (nchunks size).
Proof.
  intros H. pose proof (group_inside size bs j H) as Hj.
  pose proof (NodeBits.pow2_pos bs) as Hg.
  replace ((j + 1) * 2 ^ bs) with (j * 2 ^ bs + 2 ^ bs) by lia.
  assert (Ha : j = 0 -> j * 2 ^ bs = 0) by (intros ->; lia).
  set (a := j * 2 ^ bs) in *. set (g := 2 ^ bs) in *. clearbody a g. unfold span_bytes.
  set (z := N.min ((a + g) * 1024) size - N.min (a * 1024) size).
  destruct (leaf_chunks_bounds z) as (L1 & L2 & L3).
  destruct (nchunks_bounds size) as (C1 & C2 & C3).
  set (L := leaf_chunks z) in *. set (nc := nchunks size) in *. clearbody L nc. subst z.
  lia.
Qed.

(* ---- the root call ---- *)
Lemma blocks_le size bs : size <= 2 ^ 63 -> sp_blocks size bs <= 2 ^ 64.
Proof.
  intros H. destruct (blocks_bounds size bs) as (H1 & H2 & H3). pose proof (NodeBits.pow2_pos bs).
  change (2 ^ 63) with 9223372036854775808 in H. change (2 ^ 64) with 18446744073709551616.
  destruct H3 as [->|H3]; [lia|]. nia.
Qed.

Lemma post_plan_ind size bs (P : N -> N -> bool -> list chunk -> Prop) :
  size <= 2 ^ 63 ->
  (forall ga r, ga + 1 <= sp_blocks size bs -> P ga 1 r [leaf_of size bs ga r]) ->
  (forall ga r k, ga = 2 * k -> ga + 2 <= sp_blocks size bs ->
     P ga 2 r [leaf_of size bs ga false; leaf_of size bs (ga + 1) false; CParent (unshift bs ga) r true true []]) ->
  (forall ga n r h k l1 l2,
     3 <= n -> 1 <= h -> 2 ^ h < n -> n <= 2 * 2 ^ h -> ga = k * (2 * 2 ^ h) -> ga + n <= sp_blocks size bs ->
     P ga (2 ^ h) false l1 -> P (ga + 2 ^ h) (n - 2 ^ h) false l2 ->
     P ga n r (l1 ++ l2 ++ [CParent (unshift bs (ga + 2 ^ h - 1)) r true true []])) ->
  P 0 (sp_blocks size bs) true (post_plan size bs).
Proof.
  intros Hs H1 H2 H3. unfold post_plan. change 65%nat with (S 64).
  apply (plan_ind size bs (sp_blocks size bs) P H1 H2 H3).
  - apply blocks_bounds.
  - change (N.of_nat 64) with 64. apply blocks_le, Hs.
  - exists 64, 0. split; [lia|]. split; [apply blocks_le, Hs|lia].
  - lia.
Qed.

(* ---- 1. hash-stack discipline ---- *)
Lemma post_stack_ok_plan : forall size bs, size <= 2 ^ 63 -> bs <= 10 ->
  post_stack_ok (post_plan size bs) 0 = true.
Proof.
  intros size bs Hs _.
  enough (H : forall rest d, post_stack_ok (post_plan size bs ++ rest) d = post_stack_ok rest (d + 1)).
  { specialize (H [] 0). rewrite app_nil_r in H. rewrite H. reflexivity. }
  apply (post_plan_ind size bs (fun _ _ _ l => forall rest d, post_stack_ok (l ++ rest) d = post_stack_ok rest (d + 1)) Hs).
  - intros ga r _ rest d. reflexivity.
  - intros ga r k _ _ rest d. cbn [app post_stack_ok leaf_of].
    replace (d + 1 + 1 - 1) with (d + 1) by lia.
    destruct (N.leb_spec 2 (d + 1 + 1)); [reflexivity|lia].
  - intros ga n r h k l1 l2 _ _ _ _ _ _ IH1 IH2 rest d.
    rewrite <- !app_assoc, IH1, IH2. cbn [app post_stack_ok].
    replace (d + 1 + 1 - 1) with (d + 1) by lia.
    destruct (N.leb_spec 2 (d + 1 + 1)); [reflexivity|lia].
Qed.

(* ---- 2. the leaves tile the blob ---- *)
Lemma post_tiles_plan : forall size bs, size <= 2 ^ 63 -> bs <= 10 ->
  post_tiles (post_plan size bs) 0 = Some (nchunks size).
Proof.
  intros size bs Hs _.
  enough (H : forall rest, post_tiles (post_plan size bs ++ rest) (0 * 2 ^ bs) =
                           post_tiles rest (N.min ((0 + sp_blocks size bs) * 2 ^ bs) (nchunks size))).
  { specialize (H []). rewrite app_nil_r, N.mul_0_l in H. rewrite H. cbn [post_tiles]. f_equal.
    destruct (blocks_bounds size bs) as (B1 & B2 & B3). destruct (nchunks_bounds size) as (C1 & C2 & C3).
    pose proof (NodeBits.pow2_pos bs). rewrite N.add_0_l. nia. }
  apply (post_plan_ind size bs (fun ga n _ l => forall rest, post_tiles (l ++ rest) (ga * 2 ^ bs) =
           post_tiles rest (N.min ((ga + n) * 2 ^ bs) (nchunks size))) Hs).
  - intros ga r HB rest. cbn [app post_tiles leaf_of]. rewrite N.eqb_refl, leaf_end by lia. reflexivity.
  - intros ga r k _ HB rest. cbn [app post_tiles leaf_of].
    rewrite N.eqb_refl, leaf_end, min_inside by lia.
    rewrite N.eqb_refl, leaf_end by lia. replace (ga + 1 + 1) with (ga + 2) by lia. reflexivity.
  - intros ga n r h k l1 l2 H3 Hh Hlo Hhi Hga HB IH1 IH2 rest.
    rewrite <- !app_assoc, IH1, min_inside, IH2 by lia. cbn [app post_tiles].
    replace (ga + 2 ^ h + (n - 2 ^ h)) with (ga + n) by lia. reflexivity.
Qed.

(* ---- 3. parent/child structure ---- *)
Lemma parent_geom bs k h :
  let ga := k * (2 * 2 ^ h) in
  let nd := unshift bs (ga + 2 ^ h - 1) in
  nd + 1 = (ga + 2 ^ h) * 2 ^ bs /\ sp_chunk_start nd = ga * 2 ^ bs /\ sp_chunk_end nd = (ga + 2 * 2 ^ h) * 2 ^ bs.
Proof.
  intros ga nd. pose proof (NodeBits.pow2_pos h) as Hh. pose proof (NodeBits.pow2_pos bs) as Hg.
  assert (E : nd + 1 = (ga + 2 ^ h) * 2 ^ bs).
  { subst nd. unfold unshift. replace (ga + 2 ^ h - 1 + 1) with (ga + 2 ^ h) by lia. nia. }
  split; [exact E|].
  assert (D : nd + 1 = (2 * k + 1) * 2 ^ (h + bs)).
  { rewrite E, pow2_add. subst ga. lia. }
  apply decomp_unique in D. destruct D as [DL DI]. rewrite level_is_sp_level in DL.
  unfold sp_chunk_start, sp_chunk_end. rewrite DL, DI, pow2_add. subst ga. split; lia.
Qed.

Lemma post_struct_plan : forall size bs, size <= 2 ^ 63 -> bs <= 10 ->
  post_struct (post_plan size bs) [] = true.
Proof.
  intros size bs Hs _.
  enough (H : forall rest stk, post_struct (post_plan size bs ++ rest) stk =
     post_struct rest ((0 * 2 ^ bs, N.min ((0 + sp_blocks size bs) * 2 ^ bs) (nchunks size)) :: stk)).
  { specialize (H [] []). rewrite app_nil_r in H. rewrite H. reflexivity. }
  apply (post_plan_ind size bs (fun ga n _ l => forall rest stk, post_struct (l ++ rest) stk =
     post_struct rest ((ga * 2 ^ bs, N.min ((ga + n) * 2 ^ bs) (nchunks size)) :: stk)) Hs).
  - intros ga r HB rest stk. cbn [app post_struct leaf_of]. rewrite leaf_end by lia. reflexivity.
  - intros ga r k Hga HB rest stk. cbn [app post_struct leaf_of].
    rewrite !leaf_end by lia. rewrite (min_inside size bs (ga + 1)) by lia.
    replace (ga + 1 + 1) with (ga + 2) by lia.
    destruct (parent_geom bs k 0) as (G1 & G2 & G3).
    rewrite N.pow_0_r in G1, G2, G3. replace (k * (2 * 1)) with ga in G1, G2, G3 by lia.
    replace (ga + 1 - 1) with ga in G1, G2, G3 by lia.
    rewrite G1, G2, G3, !N.eqb_refl. cbn [andb].
    destruct (N.leb_spec (N.min ((ga + 2) * 2 ^ bs) (nchunks size)) ((ga + 2 * 1) * 2 ^ bs)); [reflexivity|lia].
  - intros ga n r h k l1 l2 H3 Hh Hlo Hhi Hga HB IH1 IH2 rest stk.
    rewrite <- !app_assoc, IH1, IH2. cbn [app post_struct].
    rewrite (min_inside size bs (ga + 2 ^ h)) by lia.
    replace (ga + 2 ^ h + (n - 2 ^ h)) with (ga + n) by lia.
    destruct (parent_geom bs k h) as (G1 & G2 & G3). rewrite <- Hga in G1, G2, G3.
    rewrite G1, G2, G3, !N.eqb_refl. cbn [andb].
    pose proof (NodeBits.pow2_pos bs).
    destruct (N.leb_spec (N.min ((ga + n) * 2 ^ bs) (nchunks size)) ((ga + 2 * 2 ^ h) * 2 ^ bs)); [reflexivity|nia].
Qed.

(* ---- 4. root flag: only the last item carries it ---- *)
Definition root_flag (c : chunk) : bool := match c with CParent _ ir _ _ _ => ir | CLeaf _ _ ir _ => ir end.
Definition no_root_flag (c : chunk) : bool := negb (root_flag c).

Lemma forallb_rev {A} (f : A -> bool) l : forallb f (rev l) = forallb f l.
Proof.
  induction l as [|a l IH]; [reflexivity|].
  cbn [rev forallb]. rewrite forallb_app, IH. cbn [forallb]. rewrite andb_true_r. apply andb_comm.
Qed.

Lemma root_flag_last_snoc l x : root_flag_last (l ++ [x]) = root_flag x && forallb no_root_flag l.
Proof.
  unfold root_flag_last. rewrite rev_app_distr. cbn [rev app root_flag_first].
  fold (root_flag x). f_equal. change (forallb no_root_flag (rev l) = forallb no_root_flag l). apply forallb_rev.
Qed.

Lemma post_root_flag_plan : forall size bs, size <= 2 ^ 63 -> bs <= 10 ->
  root_flag_last (post_plan size bs) = true.
Proof.
  intros size bs Hs _.
  enough (H : exists l x, post_plan size bs = l ++ [x] /\ root_flag x = true /\ forallb no_root_flag l = true).
  { destruct H as (l & x & -> & Hx & Hl). now rewrite root_flag_last_snoc, Hx, Hl. }
  apply (post_plan_ind size bs (fun _ _ r p => exists l x, p = l ++ [x] /\ root_flag x = r /\ forallb no_root_flag l = true) Hs).
  - intros ga r _. exists [], (leaf_of size bs ga r). repeat split.
  - intros ga r k _ _. exists [leaf_of size bs ga false; leaf_of size bs (ga + 1) false], (CParent (unshift bs ga) r true true []).
    repeat split.
  - intros ga n r h k l1 l2 _ _ _ _ _ _ (l1' & x1 & -> & Hx1 & Hl1) (l2' & x2 & -> & Hx2 & Hl2).
    exists ((l1' ++ [x1]) ++ l2' ++ [x2]), (CParent (unshift bs (ga + 2 ^ h - 1)) r true true []).
    split; [now rewrite <- !app_assoc|]. split; [reflexivity|].
    rewrite !forallb_app, Hl1, Hl2. cbn [forallb]. unfold no_root_flag. now rewrite Hx1, Hx2.
Qed.

(* ---- 5. the composite checker ---- *)
Definition post_leaf_ok (size bs : N) (c : chunk) : bool :=
  match c with
  | CLeaf s z _ _ => (z =? span_bytes size s (s + leaf_chunks z)) && (s mod 2 ^ bs =? 0) && (leaf_chunks z <=? 2 ^ bs)
  | _ => true
  end.

Lemma leaf_of_ok size bs j r : j < sp_blocks size bs -> post_leaf_ok size bs (leaf_of size bs j r) = true.
Proof.
  intros H. unfold post_leaf_ok, leaf_of. pose proof (leaf_end size bs j H) as E.
  pose proof (NodeBits.pow2_pos bs) as Hg.
  rewrite N.mod_mul by lia. rewrite N.eqb_refl, andb_true_r.
  set (z := span_bytes size (j * 2 ^ bs) ((j + 1) * 2 ^ bs)) in *.
  apply andb_true_intro. split.
  - apply N.eqb_eq. destruct (nchunks_bounds size) as (C1 & C2 & C3).
    set (L := leaf_chunks z) in *. clearbody L. subst z. unfold span_bytes.
    replace ((j + 1) * 2 ^ bs) with (j * 2 ^ bs + 2 ^ bs) in * by lia.
    set (a := j * 2 ^ bs) in *. set (g := 2 ^ bs) in *. set (nc := nchunks size) in *. clearbody a g nc. lia.
  - apply N.leb_le. lia.
Qed.

Lemma post_leaves_plan : forall size bs, size <= 2 ^ 63 -> bs <= 10 ->
  forallb (post_leaf_ok size bs) (post_plan size bs) = true.
Proof.
  intros size bs Hs _.
  apply (post_plan_ind size bs (fun _ _ _ l => forallb (post_leaf_ok size bs) l = true) Hs).
  - intros ga r HB. cbn [forallb]. rewrite leaf_of_ok by lia. reflexivity.
  - intros ga r k _ HB. cbn [forallb]. rewrite !leaf_of_ok by lia. reflexivity.
  - intros ga n r h k l1 l2 _ _ _ _ _ _ IH1 IH2. rewrite !forallb_app, IH1, IH2. reflexivity.
Qed.

Lemma holds_post_plan_ok : forall size bs, size <= 2 ^ 63 -> bs <= 10 ->
  holds_post_plan size bs (post_plan size bs) = true.
Proof.
  intros size bs Hs Hb. unfold holds_post_plan.
  rewrite post_stack_ok_plan, post_root_flag_plan, post_tiles_plan, post_struct_plan by assumption.
  rewrite N.eqb_refl. change (forallb _ (post_plan size bs)) with (forallb (post_leaf_ok size bs) (post_plan size bs)).
  rewrite post_leaves_plan by assumption. reflexivity.
Qed.

Print Assumptions post_stack_ok_plan.
Print Assumptions post_tiles_plan.
Print Assumptions post_struct_plan.
Print Assumptions post_root_flag_plan.
Print Assumptions post_leaves_plan.
Print Assumptions holds_post_plan_ok.
