(* C12, last sentence: "converting an outboard between pre- and post-order, or copying it, loses and
   invents nothing".  sync::copy / fsm::copy (Model/Sync.v copy, Model/Fsm.v copy_fsm) and flip.
   This file must not depend on Proofs/HistOb.v (which imports Props/C12.v). *)
From BaoV Require Import Model.Sync Model.Fsm Spec.NodeSpec.
From BaoV Require Import Proofs.NodeLevel Proofs.NodeBits Proofs.ShapeBase Proofs.ShapeIter Proofs.ShapeOffsets
  Proofs.ShapePre Proofs.ShapePost Proofs.ShapeList Proofs.ObBase Proofs.ObLayout.
From BaoV Require Import Proofs.DecWitness.
From Coq Require Import Lia ZArith ZifyBool ZifyNat ZifyN Permutation.
Open Scope N_scope.
Arguments N.add : simpl never.
Arguments N.sub : simpl never.
Arguments N.mul : simpl never.
Arguments N.pow : simpl never.
Arguments N.div : simpl never.
Arguments N.modulo : simpl never.
Arguments N.min : simpl never.
Arguments N.max : simpl never.

(* ---- lists of options numbered by a sequence ---- *)
Lemma gc_seq_bound {A} (f : A -> option N) l k :
  map f l = map (fun i => Some (N.of_nat i)) (seq 0 k) ->
  forall x, In x l -> exists o, f x = Some o /\ o < N.of_nat k.
Proof.
  intros H x Hx. assert (Hi : In (f x) (map f l)) by (apply in_map; exact Hx).
  rewrite H in Hi. apply in_map_iff in Hi. destruct Hi as (i & E & Hi). apply in_seq in Hi.
  exists (N.of_nat i). split; [now symmetry|lia].
Qed.

Lemma gc_nodup_inj {A B} (f : A -> B) l : NoDup (map f l) ->
  forall x y, In x l -> In y l -> f x = f y -> x = y.
Proof.
  induction l as [|a l IH]; intros Hn x y Hx Hy E; [destruct Hx|].
  cbn [map] in Hn. inversion Hn as [|? ? Hna Hn']; subst.
  destruct Hx as [->|Hx], Hy as [->|Hy].
  - reflexivity.
  - exfalso. apply Hna. rewrite E. apply in_map. exact Hy.
  - exfalso. apply Hna. rewrite <- E. apply in_map. exact Hx.
  - now apply IH.
Qed.

Lemma gc_seq_inj {A} (f : A -> option N) l k :
  map f l = map (fun i => Some (N.of_nat i)) (seq 0 k) ->
  forall x y, In x l -> In y l -> f x = f y -> x = y.
Proof.
  intro H. apply gc_nodup_inj. rewrite H. apply FinFun.Injective_map_NoDup; [|apply seq_NoDup].
  intros i j E. injection E as E. lia.
Qed.

Lemma gc_seq_surj {A} (f : A -> option N) l k :
  map f l = map (fun i => Some (N.of_nat i)) (seq 0 k) ->
  forall o, o < N.of_nat k -> exists x, In x l /\ f x = Some o.
Proof.
  intros H o Ho.
  assert (Hi : In (Some o) (map (fun i => Some (N.of_nat i)) (seq 0 k))).
  { apply in_map_iff. exists (N.to_nat o). split; [f_equal; lia|]. apply in_seq. lia. }
  rewrite <- H in Hi. apply in_map_iff in Hi. destruct Hi as (x & E & Hx). exists x. split; assumption.
Qed.

(* the four outboards with 64-byte slots *)
Definition okind (k : ob_kind) : Prop := k = PreIO \/ k = PostIO \/ k = PreMem \/ k = PostMem.
Definition kpost (k : ob_kind) : bool := match k with PostIO | PostMem => true | _ => false end.

Section Copy.
Variable HO : hops.
Notation bytes := (bytes HO).
Notation hash := (hash HO).
Notation outboard := (outboard HO).

(* ---- the copy loops over an abstract loader (specification side; the two loops of the model are
        its instances at load_sync / load_fsm of the source) ---- *)
Fixpoint copy_gen (ld : N -> res io_kind (option (hash * hash))) (nodes : list N) (to : outboard)
  : res io_kind outboard :=
  match nodes with
  | [] => Ok to
  | n :: rest =>
      match ld n with
      | Ok (Some (l, r)) =>
          match save HO to n l r with
          | Ok to' => copy_gen ld rest to'
          | Err k => Err k
          | Panic => Panic
          end
      | Ok None => copy_gen ld rest to
      | Err k => Err k
      | Panic => Panic
      end
  end.

Lemma copy_loop_is_gen (from : outboard) : forall nodes to,
  copy_loop HO nodes from to = copy_gen (load_sync HO from) nodes to.
Proof.
  induction nodes as [|n rest IH]; intro to; [reflexivity|].
  cbn [copy_loop copy_gen]. destruct (load_sync HO from n) as [[[l r]|]|k|]; try reflexivity.
  - destruct (save HO to n l r) as [to'|k|]; try reflexivity. apply IH.
  - apply IH.
Qed.

Lemma copy_loop_fsm_is_gen (from : outboard) : forall nodes to,
  copy_loop_fsm HO nodes from to = copy_gen (load_fsm HO from) nodes to.
Proof.
  induction nodes as [|n rest IH]; intro to; [reflexivity|].
  cbn [copy_loop_fsm copy_gen]. destruct (load_fsm HO from n) as [[[l r]|]|k|]; try reflexivity.
  - destruct (save HO to n l r) as [to'|k|]; try reflexivity. apply IH.
  - apply IH.
Qed.

(* ---- offsets depend on kind and tree only ---- *)
Definition koff (k : ob_kind) (t : tree) (nd : N) : option N := ob_offset HO (mkOb k [] t []) nd.
Lemma ob_offset_koff (ob : outboard) nd : ob_offset HO ob nd = koff (ob_k ob) (ob_tree ob) nd.
Proof. destruct ob as [k r t d]. reflexivity. Qed.

(* ---- pairs and 64-byte strings ---- *)
Lemma parse_app (l r : hash) : length l = 32%nat -> parse_pair HO (l ++ r) = (l, r).
Proof.
  intro H. unfold parse_pair. rewrite <- H. f_equal.
  - rewrite firstn_app, Nat.sub_diag, firstn_all, firstn_O. apply app_nil_r.
  - rewrite skipn_app, Nat.sub_diag, skipn_all. reflexivity.
Qed.
Lemma parse_join (c : bytes) : fst (parse_pair HO c) ++ snd (parse_pair HO c) = c.
Proof. unfold parse_pair. cbn [fst snd]. apply firstn_skipn. Qed.
Lemma parse_inj (c1 c2 : bytes) : parse_pair HO c1 = parse_pair HO c2 -> c1 = c2.
Proof. intro H. rewrite <- (parse_join c1), <- (parse_join c2), H. reflexivity. Qed.
Lemma parse_len (c : bytes) l r : blen HO c = 64 -> parse_pair HO c = (l, r) ->
  length l = 32%nat /\ length r = 32%nat.
Proof.
  unfold parse_pair, blen. intros H E.
  pose proof (f_equal fst E) as E1. pose proof (f_equal snd E) as E2. cbn [fst snd] in E1, E2.
  subst l r. rewrite firstn_length, skipn_length. lia.
Qed.
Lemma zero_hash_len : length (zero_hash HO) = 32%nat.
Proof. unfold zero_hash, zeros. apply repeat_length. Qed.
Lemma gc_blen_zeros n : blen HO (zeros HO n) = N.of_nat n.
Proof. unfold blen, zeros. now rewrite repeat_length. Qed.
Lemma blen_slice_in (d : bytes) o : o * 64 + 64 <= blen HO d -> blen HO (slice HO (o * 64) 64 d) = 64.
Proof. intro H. unfold slice. rewrite blen_take, blen_drop. lia. Qed.
Lemma blen_slice_64 (d : bytes) o : blen HO (slice HO (o * 64) 64 d) = 64 -> o * 64 + 64 <= blen HO d.
Proof. unfold slice. rewrite blen_take, blen_drop. lia. Qed.

Lemma ok_some_inj {E A} (a b : A) : @Ok E (option A) (Some a) = Ok (Some b) -> a = b.
Proof. intro H. injection H as H. exact H. Qed.
Lemma pair_inj {A C} (a a' : A) (b b' : C) : (a, b) = (a', b') -> a = a' /\ b = b'.
Proof. intro H. injection H as H1 H2. split; assumption. Qed.

(* every pair a loader of the crate returns consists of two 32-byte hashes *)
Lemma load_sync_len (ob : outboard) nd l r : load_sync HO ob nd = Ok (Some (l, r)) ->
  length l = 32%nat /\ length r = 32%nat.
Proof.
  unfold load_sync. destruct (ob_offset HO ob nd) as [o|]; [|discriminate].
  pose proof zero_hash_len as Z.
  destruct (ob_k ob).
  - destruct (blen HO (slice HO (o * 64) 64 (ob_data ob)) =? 64) eqn:E; [|discriminate].
    intro H. apply ok_some_inj in H. apply N.eqb_eq in E. exact (parse_len _ _ _ E H).
  - destruct (blen HO (slice HO (o * 64) 64 (ob_data ob)) =? 64) eqn:E; [|discriminate].
    intro H. apply ok_some_inj in H. apply N.eqb_eq in E. exact (parse_len _ _ _ E H).
  - destruct (o * 64 + 64 <=? blen HO (ob_data ob)) eqn:E; [|discriminate].
    intro H. apply ok_some_inj in H. apply N.leb_le in E. exact (parse_len _ _ _ (blen_slice_in _ _ E) H).
  - destruct (o * 64 + 64 <=? blen HO (ob_data ob)) eqn:E; [|discriminate].
    intro H. apply ok_some_inj in H. apply N.leb_le in E. exact (parse_len _ _ _ (blen_slice_in _ _ E) H).
  - unfold zero_pair. intro H. apply ok_some_inj, pair_inj in H. destruct H as [<- <-]. split; exact Z.
Qed.

Lemma load_fsm_len (ob : outboard) nd l r : load_fsm HO ob nd = Ok (Some (l, r)) ->
  length l = 32%nat /\ length r = 32%nat.
Proof.
  unfold load_fsm. destruct (ob_offset HO ob nd) as [o|]; [|discriminate].
  pose proof zero_hash_len as Z.
  destruct (ob_k ob).
  - destruct (blen HO (slice HO (o * 64) 64 (ob_data ob)) =? 64) eqn:E.
    + intro H. apply ok_some_inj in H. apply N.eqb_eq in E. exact (parse_len _ _ _ E H).
    + unfold zero_pair. intro H. apply ok_some_inj, pair_inj in H. destruct H as [<- <-]. split; exact Z.
  - destruct (blen HO (slice HO (o * 64) 64 (ob_data ob)) =? 64) eqn:E.
    + intro H. apply ok_some_inj in H. apply N.eqb_eq in E. exact (parse_len _ _ _ E H).
    + unfold zero_pair. intro H. apply ok_some_inj, pair_inj in H. destruct H as [<- <-]. split; exact Z.
  - destruct (o * 64 + 64 <=? blen HO (ob_data ob)) eqn:E; [|discriminate].
    intro H. apply ok_some_inj in H. apply N.leb_le in E. exact (parse_len _ _ _ (blen_slice_in _ _ E) H).
  - destruct (o * 64 + 64 <=? blen HO (ob_data ob)) eqn:E; [|discriminate].
    intro H. apply ok_some_inj in H. apply N.leb_le in E. exact (parse_len _ _ _ (blen_slice_in _ _ E) H).
  - unfold zero_pair. intro H. apply ok_some_inj, pair_inj in H. destruct H as [<- <-]. split; exact Z.
Qed.

(* fsm loads never fail with an io error *)
Lemma load_fsm_no_err (ob : outboard) nd k : load_fsm HO ob nd <> Err k.
Proof.
  unfold load_fsm. destruct (ob_offset HO ob nd) as [o|]; [|discriminate].
  destruct (ob_k ob); try discriminate.
  - destruct (blen HO (slice HO (o * 64) 64 (ob_data ob)) =? 64); discriminate.
  - destruct (blen HO (slice HO (o * 64) 64 (ob_data ob)) =? 64); discriminate.
  - destruct (o * 64 + 64 <=? blen HO (ob_data ob)); discriminate.
  - destruct (o * 64 + 64 <=? blen HO (ob_data ob)); discriminate.
Qed.

(* ---- a load / a save at a slot ---- *)
Lemma slot_load (ob : outboard) nd o : okind (ob_k ob) -> ob_offset HO ob nd = Some o ->
  o * 64 + 64 <= blen HO (ob_data ob) ->
  load_sync HO ob nd = Ok (Some (parse_pair HO (slice HO (o * 64) 64 (ob_data ob)))) /\
  load_fsm HO ob nd = Ok (Some (parse_pair HO (slice HO (o * 64) 64 (ob_data ob)))).
Proof.
  intros K Ho Hin. unfold load_sync, load_fsm. rewrite Ho.
  pose proof (blen_slice_in _ _ Hin) as Hs.
  assert (Hle : (o * 64 + 64 <=? blen HO (ob_data ob)) = true) by (apply N.leb_le; exact Hin).
  destruct K as [K|[K|[K|K]]]; rewrite K; rewrite ?Hs, ?Hle; cbn [N.eqb Pos.eqb]; split; reflexivity.
Qed.

Lemma none_load (ob : outboard) nd : ob_offset HO ob nd = None ->
  load_sync HO ob nd = Ok None /\ load_fsm HO ob nd = Ok None.
Proof. intro H. unfold load_sync, load_fsm. rewrite H. split; reflexivity. Qed.

End Copy.

Section Sized.
Variable HO : hops.
Notation bytes := (bytes HO).
Notation hash := (hash HO).
Notation outboard := (outboard HO).
Variables (size bs : N).
Hypothesis Hsize : size <= 2 ^ 63.
Hypothesis Hbs : bs <= 10.
Notation t := (mkTree size bs).
Notation B := (sp_blocks size bs).
Notation listed nd := (In nd (sp_pre_nodes size bs)).
Notation pers nd := (sp_persisted size bs nd = true).

(* ---- geometry of the slots (C12 offsets theorems, all four kinds) ---- *)
Lemma listed_post nd : listed nd <-> In nd (sp_post_nodes size bs).
Proof.
  pose proof (pre_post_perm size bs Hsize) as P. split; intro H.
  - eapply Permutation_in; eauto.
  - eapply Permutation_in; [apply Permutation_sym|]; eauto.
Qed.

Lemma koff_pre k nd : k = PreIO \/ k = PreMem -> koff HO k t nd = pre_order_offset t nd.
Proof. intros [->| ->]; reflexivity. Qed.
Lemma koff_post k nd : k = PostIO \/ k = PostMem ->
  koff HO k t nd = option_map po_value (post_order_offset t nd).
Proof. intros [->| ->]; reflexivity. Qed.

Lemma koff_seq k : okind k ->
  exists L, (forall nd, In nd L <-> listed nd /\ pers nd) /\
    map (koff HO k t) L = map (fun i => Some (N.of_nat i)) (seq 0 (N.to_nat (B - 1))).
Proof.
  intros K.
  pose proof (pre_offsets_spec size bs Hsize Hbs) as Pre.
  pose proof (post_offsets_spec size bs Hsize Hbs) as Post.
  assert (Kc : (k = PreIO \/ k = PreMem) \/ (k = PostIO \/ k = PostMem)) by (unfold okind in K; tauto).
  destruct Kc as [Kc|Kc].
  - exists (filter (sp_persisted size bs) (sp_pre_nodes size bs)). split.
    + intro nd. apply filter_In.
    + rewrite <- Pre. apply map_ext. intro nd. apply koff_pre. exact Kc.
  - exists (filter (sp_persisted size bs) (sp_post_nodes size bs)). split.
    + intro nd. rewrite filter_In. split; intros [H1 H2]; (split; [|exact H2]).
      * exact (proj2 (listed_post nd) H1).
      * exact (proj1 (listed_post nd) H1).
    + rewrite <- Post. apply map_ext. intro nd. apply koff_post. exact Kc.
Qed.

Lemma koff_some k nd : okind k -> listed nd -> pers nd -> exists o, koff HO k t nd = Some o /\ o < B - 1.
Proof.
  intros K Hl Hp. destruct (koff_seq k K) as (L & HL & E).
  destruct (gc_seq_bound _ _ _ E nd (proj2 (HL nd) (conj Hl Hp))) as (o & Ho & Hlt).
  exists o. split; [exact Ho|lia].
Qed.

Lemma koff_inj k nd nd' : okind k -> listed nd -> pers nd -> listed nd' -> pers nd' ->
  koff HO k t nd = koff HO k t nd' -> nd = nd'.
Proof.
  intros K Hl Hp Hl' Hp'. destruct (koff_seq k K) as (L & HL & E).
  apply (gc_seq_inj _ _ _ E); apply HL; split; assumption.
Qed.

Lemma koff_surj k o : okind k -> o < B - 1 -> exists nd, listed nd /\ pers nd /\ koff HO k t nd = Some o.
Proof.
  intros K Ho. destruct (koff_seq k K) as (L & HL & E).
  destruct (gc_seq_surj _ _ _ E o ltac:(lia)) as (nd & Hin & Hnd).
  exists nd. apply HL in Hin. destruct Hin. repeat split; assumption.
Qed.

Lemma koff_none k nd : okind k -> listed nd -> sp_persisted size bs nd = false -> koff HO k t nd = None.
Proof.
  intros K Hl Hp.
  assert (Kc : (k = PreIO \/ k = PreMem) \/ (k = PostIO \/ k = PostMem)) by (unfold okind in K; tauto).
  destruct Kc as [Kc|Kc].
  - rewrite (koff_pre k nd Kc). exact (pre_none_spec size bs nd Hsize Hbs Hl Hp).
  - rewrite (koff_post k nd Kc). exact (post_none_spec size bs nd Hsize Hbs (proj1 (listed_post nd) Hl) Hp).
Qed.

Lemma listed_unshift nd : listed nd -> exists s, nd = unshift bs s /\ s + 1 <= shlen B.
Proof. intro H. destruct (pre_listed size bs nd Hsize H) as (s & E & Hs & _). exists s. split; assumption. Qed.

Lemma listed_level nd : listed nd -> bs <= level nd.
Proof. intro H. destruct (listed_unshift nd H) as (s & -> & _). rewrite unshift_level. lia. Qed.

(* the EmptyOutboard answers at exactly the persisted nodes of the tree *)
Lemma listed_relevant nd : listed nd -> is_relevant_for_outboard t nd = sp_persisted size bs nd.
Proof.
  intro H. destruct (listed_unshift nd H) as (s & -> & Hs).
  destruct (listed_mid size bs s Hsize Hbs Hs) as [E1 E2].
  unfold is_relevant_for_outboard, sp_persisted. cbn [tbs tsize]. rewrite <- level_is_sp_level.
  unfold mid. rewrite to_bytes_small by (change (2 ^ 64) with (2 * 2 ^ 63); lia).
  pose proof (unshift_level bs s) as Lv.
  destruct (N.ltb_spec (level (unshift bs s)) bs); [lia|].
  destruct (N.ltb_spec bs (level (unshift bs s))); [reflexivity|].
  cbn [orb]. destruct (N.eqb_spec bs (level (unshift bs s))); [|lia]. reflexivity.
Qed.

(* ---- any source over the tree: it answers None exactly at the nodes that store nothing ---- *)
Lemma source_offset_none (from : outboard) nd : ob_tree from = t -> listed nd ->
  sp_persisted size bs nd = false -> ob_offset HO from nd = None.
Proof.
  intros T Hl Hp. destruct (ob_k from) eqn:K.
  1-4: rewrite ob_offset_koff, T, K; apply koff_none; [unfold okind; tauto|exact Hl|exact Hp].
  unfold ob_offset. rewrite K, T, (listed_relevant nd Hl), Hp. reflexivity.
Qed.

Lemma source_offset_some (from : outboard) nd : ob_tree from = t -> listed nd -> pers nd ->
  exists o, ob_offset HO from nd = Some o.
Proof.
  intros T Hl Hp. destruct (ob_k from) eqn:K.
  1-4: rewrite ob_offset_koff, T, K;
       match goal with |- exists o, koff _ ?k _ _ = _ =>
         destruct (koff_some k nd ltac:(unfold okind; tauto) Hl Hp) as (o & Ho & _); exists o; exact Ho end.
  unfold ob_offset. rewrite K, T, (listed_relevant nd Hl), Hp. exists 0. reflexivity.
Qed.

Lemma source_none (from : outboard) nd : ob_tree from = t -> listed nd -> sp_persisted size bs nd = false ->
  load_sync HO from nd = Ok None /\ load_fsm HO from nd = Ok None.
Proof. intros T Hl Hp. apply none_load. exact (source_offset_none from nd T Hl Hp). Qed.

Lemma source_none_iff (from : outboard) nd : ob_tree from = t -> listed nd ->
  (load_sync HO from nd = Ok None <-> sp_persisted size bs nd = false) /\
  (load_fsm HO from nd = Ok None <-> sp_persisted size bs nd = false).
Proof.
  intros T Hl. destruct (sp_persisted size bs nd) eqn:Hp.
  - destruct (source_offset_some from nd T Hl Hp) as (o & Ho).
    unfold load_sync, load_fsm. rewrite Ho.
    split; split; try discriminate.
    + destruct (ob_k from); try discriminate.
      * destruct (blen HO (slice HO (o * 64) 64 (ob_data from)) =? 64); discriminate.
      * destruct (blen HO (slice HO (o * 64) 64 (ob_data from)) =? 64); discriminate.
      * destruct (o * 64 + 64 <=? blen HO (ob_data from)); discriminate.
      * destruct (o * 64 + 64 <=? blen HO (ob_data from)); discriminate.
    + destruct (ob_k from); try discriminate.
      * destruct (blen HO (slice HO (o * 64) 64 (ob_data from)) =? 64); discriminate.
      * destruct (blen HO (slice HO (o * 64) 64 (ob_data from)) =? 64); discriminate.
      * destruct (o * 64 + 64 <=? blen HO (ob_data from)); discriminate.
      * destruct (o * 64 + 64 <=? blen HO (ob_data from)); discriminate.
  - destruct (source_none from nd T Hl Hp) as [E1 E2]. rewrite E1, E2. split; split; reflexivity.
Qed.

(* ---- targets: one of the four slotted kinds over the tree; in-memory ones must be large enough ---- *)
Definition tgt (to : outboard) : Prop :=
  okind (ob_k to) /\ ob_tree to = t /\
  ((ob_k to = PreMem \/ ob_k to = PostMem) -> (B - 1) * 64 <= blen HO (ob_data to)).

Lemma tgt_save (to : outboard) nd o (l r : hash) : tgt to -> listed nd ->
  koff HO (ob_k to) t nd = Some o -> o < B - 1 ->
  save HO to nd l r =
  Ok (mkOb (ob_k to) (ob_root to) (ob_tree to) (write_at HO (ob_data to) (o * 64) (combine_pair HO l r))).
Proof.
  intros (K & T & M) Hl Ho Hlt. unfold save. rewrite ob_offset_koff, T, Ho.
  pose proof (listed_level nd Hl) as Hlv.
  assert (Hlv' : (level nd <? tbs t) = false) by (cbn [tbs]; apply N.ltb_ge; exact Hlv).
  destruct K as [K|[K|[K|K]]]; rewrite K in *; try reflexivity.
  - rewrite Hlv'. replace (o * 64 + 64 <=? blen HO (ob_data to)) with true; [reflexivity|].
    symmetry. apply N.leb_le. specialize (M (or_introl eq_refl)). lia.
  - rewrite Hlv'. replace (o * 64 + 64 <=? blen HO (ob_data to)) with true; [reflexivity|].
    symmetry. apply N.leb_le. specialize (M (or_intror eq_refl)). lia.
Qed.

Lemma tgt_data (to : outboard) (d : bytes) : tgt to -> blen HO (ob_data to) <= blen HO d ->
  tgt (mkOb (ob_k to) (ob_root to) (ob_tree to) d).
Proof.
  intros (K & T & M) Hd. split; [exact K|]. split; [exact T|]. cbn [ob_k ob_data]. intro Hm. specialize (M Hm). lia.
Qed.

Lemma mk_eta (to : outboard) : mkOb (ob_k to) (ob_root to) (ob_tree to) (ob_data to) = to.
Proof. destruct to. reflexivity. Qed.

(* ---- the generic copy loop into a target ---- *)
Section Gen.
Variable ld : N -> res io_kind (option (hash * hash)).
Hypothesis Hld32 : forall nd l r, ld nd = Ok (Some (l, r)) -> length l = 32%nat /\ length r = 32%nat.

Lemma pair64 nd l r : ld nd = Ok (Some (l, r)) -> blen HO (combine_pair HO l r) = 64.
Proof. intro H. destruct (Hld32 nd l r H) as [L1 L2]. unfold combine_pair, blen. rewrite app_length, L1, L2. reflexivity. Qed.

Lemma copy_gen_ok : forall nodes (to : outboard), tgt to ->
  (forall nd, In nd nodes -> exists x, ld nd = Ok x) ->
  (forall nd p, In nd nodes -> ld nd = Ok (Some p) -> listed nd /\ pers nd) ->
  exists d', copy_gen HO ld nodes to = Ok (mkOb (ob_k to) (ob_root to) (ob_tree to) d') /\
    blen HO (ob_data to) <= blen HO d' /\
    blen HO d' <= N.max (blen HO (ob_data to)) ((B - 1) * 64) /\
    (forall nd o l r, In nd nodes -> ld nd = Ok (Some (l, r)) -> koff HO (ob_k to) t nd = Some o ->
       o * 64 + 64 <= blen HO d' /\ slice HO (o * 64) 64 d' = l ++ r) /\
    (forall o, o * 64 + 64 <= blen HO (ob_data to) ->
       (forall nd l r, In nd nodes -> ld nd = Ok (Some (l, r)) -> koff HO (ob_k to) t nd <> Some o) ->
       slice HO (o * 64) 64 d' = slice HO (o * 64) 64 (ob_data to)).
Proof.
  induction nodes as [|n rest IH]; intros to Ht Hok Hpn.
  - exists (ob_data to). cbn [copy_gen]. rewrite mk_eta. split; [reflexivity|]. split; [lia|]. split; [lia|].
    split; [intros nd o l r []|]. intros; reflexivity.
  - destruct (Hok n (or_introl eq_refl)) as [x Hx]. destruct x as [[l r]|].
    + destruct (Hpn n (l, r) (or_introl eq_refl) Hx) as [Hl Hp].
      pose proof Ht as (K & T & M).
      destruct (koff_some (ob_k to) n K Hl Hp) as (o & Ho & Hlt).
      pose proof (tgt_save to n o l r Ht Hl Ho Hlt) as Hsv.
      pose proof (pair64 n l r Hx) as H64.
      set (d1 := write_at HO (ob_data to) (o * 64) (combine_pair HO l r)) in *.
      assert (Hd1 : blen HO d1 = N.max (blen HO (ob_data to)) (o * 64 + 64)).
      { unfold d1. rewrite blen_write_at, H64. reflexivity. }
      set (to1 := mkOb (ob_k to) (ob_root to) (ob_tree to) d1) in *.
      assert (Ht1 : tgt to1) by (apply tgt_data; [exact Ht|lia]).
      destruct (IH to1 Ht1 (fun nd H => Hok nd (or_intror H)) (fun nd p H => Hpn nd p (or_intror H)))
        as (d' & E & L1 & L2 & C1 & C2).
      cbn [ob_k ob_root ob_tree ob_data to1] in E, L1, L2, C1, C2.
      exists d'. split; [cbn [copy_gen]; rewrite Hx, Hsv; exact E|].
      split; [lia|]. split; [lia|]. split.
      * intros nd o' l' r' Hin Hnd Ho'.
        destruct (in_dec N.eq_dec nd rest) as [Hr|Hr]; [exact (C1 nd o' l' r' Hr Hnd Ho')|].
        destruct Hin as [<-|Hin]; [|contradiction].
        rewrite Hx in Hnd. apply ok_some_inj, pair_inj in Hnd. destruct Hnd as [<- <-].
        rewrite Ho in Ho'. injection Ho' as <-.
        assert (Hin1 : o * 64 + 64 <= blen HO d1) by lia.
        split; [lia|].
        rewrite (C2 o Hin1).
        -- unfold d1. rewrite <- H64 at 2. apply slice_write_at_same.
        -- intros nd' l' r' Hin' Hnd' Hk.
           assert (nd' = n); [|subst nd'; contradiction].
           destruct (Hpn nd' (l', r') (or_intror Hin') Hnd') as [Hl' Hp'].
           apply (koff_inj (ob_k to) nd' n K Hl' Hp' Hl Hp). rewrite Hk, Ho. reflexivity.
      * intros o' Hin' Hun.
        assert (Hne : o' <> o).
        { intros ->. exact (Hun n l r (or_introl eq_refl) Hx Ho). }
        rewrite (C2 o' ltac:(lia) (fun nd l' r' H => Hun nd l' r' (or_intror H))).
        unfold d1. apply slice_write_at_other; [lia|exact Hin'|rewrite H64; lia].
    + destruct (IH to Ht (fun nd H => Hok nd (or_intror H)) (fun nd p H => Hpn nd p (or_intror H)))
        as (d' & E & L1 & L2 & C1 & C2).
      exists d'. split; [cbn [copy_gen]; rewrite Hx; exact E|].
      split; [exact L1|]. split; [exact L2|]. split.
      * intros nd o' l' r' Hin Hnd Ho'. destruct Hin as [<-|Hin]; [rewrite Hx in Hnd; discriminate|].
        exact (C1 nd o' l' r' Hin Hnd Ho').
      * intros o' Hin' Hun. apply (C2 o' Hin'). intros nd l' r' H. exact (Hun nd l' r' (or_intror H)).
Qed.

(* failures of the loop are failures of the loader *)
Lemma copy_gen_fail : forall nodes (to : outboard), tgt to ->
  (forall nd p, In nd nodes -> ld nd = Ok (Some p) -> listed nd /\ pers nd) ->
  match copy_gen HO ld nodes to with
  | Ok _ => forall nd, In nd nodes -> exists x, ld nd = Ok x
  | Err k => exists nd, In nd nodes /\ ld nd = Err k
  | Panic => exists nd, In nd nodes /\ ld nd = Panic
  end.
Proof using Hsize Hbs.
  clear Hld32. induction nodes as [|n rest IH]; intros to Ht Hpn.
  - cbn [copy_gen]. intros nd [].
  - cbn [copy_gen]. destruct (ld n) as [[[l r]|]|k|] eqn:Hx.
    + destruct (Hpn n (l, r) (or_introl eq_refl) Hx) as [Hl Hp].
      pose proof Ht as (K & T & M).
      destruct (koff_some (ob_k to) n K Hl Hp) as (o & Ho & Hlt).
      rewrite (tgt_save to n o l r Ht Hl Ho Hlt).
      set (d1 := write_at HO (ob_data to) (o * 64) (combine_pair HO l r)).
      assert (Ht1 : tgt (mkOb (ob_k to) (ob_root to) (ob_tree to) d1)).
      { apply tgt_data; [exact Ht|]. unfold d1. rewrite blen_write_at. lia. }
      specialize (IH _ Ht1 (fun nd p H => Hpn nd p (or_intror H))).
      destruct (copy_gen HO ld rest (mkOb (ob_k to) (ob_root to) (ob_tree to) d1)) as [to'|k|].
      * intros nd [<-|Hin]; [eexists; exact Hx|exact (IH nd Hin)].
      * destruct IH as (nd & Hin & E). exists nd. split; [right; exact Hin|exact E].
      * destruct IH as (nd & Hin & E). exists nd. split; [right; exact Hin|exact E].
    + specialize (IH to Ht (fun nd p H => Hpn nd p (or_intror H))).
      destruct (copy_gen HO ld rest to) as [to'|k|].
      * intros nd [<-|Hin]; [eexists; exact Hx|exact (IH nd Hin)].
      * destruct IH as (nd & Hin & E). exists nd. split; [right; exact Hin|exact E].
      * destruct IH as (nd & Hin & E). exists nd. split; [right; exact Hin|exact E].
    + exists n. split; [left; reflexivity|exact Hx].
    + exists n. split; [left; reflexivity|exact Hx].
Qed.
End Gen.

End Sized.

Section Thms.
Variable HO : hops.
Notation bytes := (bytes HO).
Notation hash := (hash HO).
Notation outboard := (outboard HO).
Variables (size bs : N).
Hypothesis Hsize : size <= 2 ^ 63.
Hypothesis Hbs : bs <= 10.
Notation t := (mkTree size bs).
Notation B := (sp_blocks size bs).
Notation listed nd := (In nd (sp_pre_nodes size bs)).
Notation pers nd := (sp_persisted size bs nd = true).
Notation tgt := (tgt HO size bs).

(* ---- the generic loop, at the level of loads ---- *)
Lemma copy_gen_loads (ld : N -> res io_kind (option (hash * hash))) :
  (forall nd l r, ld nd = Ok (Some (l, r)) -> length l = 32%nat /\ length r = 32%nat) ->
  forall nodes (to : outboard), tgt to ->
  (forall nd, In nd nodes -> exists x, ld nd = Ok x) ->
  (forall nd p, In nd nodes -> ld nd = Ok (Some p) -> listed nd /\ pers nd) ->
  exists to', copy_gen HO ld nodes to = Ok to' /\
    ob_k to' = ob_k to /\ ob_root to' = ob_root to /\ ob_tree to' = ob_tree to /\
    blen HO (ob_data to) <= blen HO (ob_data to') /\
    blen HO (ob_data to') <= N.max (blen HO (ob_data to)) ((B - 1) * 64) /\
    (forall nd o p, In nd nodes -> ld nd = Ok (Some p) -> koff HO (ob_k to) t nd = Some o ->
       o * 64 + 64 <= blen HO (ob_data to')) /\
    (forall nd p, In nd nodes -> ld nd = Ok (Some p) ->
       load_sync HO to' nd = Ok (Some p) /\ load_fsm HO to' nd = Ok (Some p)) /\
    (forall nd o, listed nd -> pers nd -> koff HO (ob_k to) t nd = Some o ->
       o * 64 + 64 <= blen HO (ob_data to) -> (~ In nd nodes \/ ld nd = Ok None) ->
       load_sync HO to' nd = load_sync HO to nd /\ load_fsm HO to' nd = load_fsm HO to nd).
Proof.
  intros Hld32 nodes to Ht Hok Hpn.
  destruct (copy_gen_ok HO size bs Hsize Hbs ld Hld32 nodes to Ht Hok Hpn) as (d' & E & L1 & L2 & C1 & C2).
  pose proof Ht as (K & T & M).
  set (to' := mkOb (ob_k to) (ob_root to) (ob_tree to) d') in *.
  exists to'. split; [exact E|]. split; [reflexivity|]. split; [reflexivity|]. split; [reflexivity|].
  split; [exact L1|]. split; [exact L2|]. split; [|split].
  - intros nd o [l r] Hin Hnd Ho. exact (proj1 (C1 nd o l r Hin Hnd Ho)).
  - intros nd [l r] Hin Hnd. destruct (Hpn nd (l, r) Hin Hnd) as [Hl Hp].
    destruct (koff_some HO size bs Hsize Hbs (ob_k to) nd K Hl Hp) as (o & Ho & Hlt).
    destruct (C1 nd o l r Hin Hnd Ho) as [Hin' Hsl].
    assert (Ho' : ob_offset HO to' nd = Some o) by (rewrite ob_offset_koff; cbn [ob_k ob_tree to']; rewrite T; exact Ho).
    destruct (slot_load HO to' nd o K Ho' Hin') as [E1 E2].
    cbn [ob_data to'] in E1, E2. rewrite Hsl in E1, E2.
    rewrite (parse_app HO l r (proj1 (Hld32 nd l r Hnd))) in E1, E2. split; assumption.
  - intros nd o Hl Hp Ho Hin0 Hun.
    assert (Hsl : slice HO (o * 64) 64 d' = slice HO (o * 64) 64 (ob_data to)).
    { apply (C2 o Hin0). intros nd' l r Hin' Hnd' Hk.
      destruct (Hpn nd' (l, r) Hin' Hnd') as [Hl' Hp'].
      assert (nd' = nd) by (apply (koff_inj HO size bs Hsize Hbs (ob_k to) nd' nd K Hl' Hp' Hl Hp); rewrite Hk, Ho; reflexivity).
      subst nd'. destruct Hun as [Hun|Hun]; [contradiction|rewrite Hun in Hnd'; discriminate]. }
    assert (Ho' : ob_offset HO to' nd = Some o) by (rewrite ob_offset_koff; cbn [ob_k ob_tree to']; rewrite T; exact Ho).
    assert (Ho0 : ob_offset HO to nd = Some o) by (rewrite ob_offset_koff, T; exact Ho).
    destruct (slot_load HO to' nd o K Ho' ltac:(cbn [ob_data to']; lia)) as [E1 E2].
    destruct (slot_load HO to nd o K Ho0 Hin0) as [E3 E4].
    cbn [ob_data to'] in E1, E2. rewrite E1, E2, E3, E4, Hsl. split; reflexivity.
Qed.

(* ---- a source over the same tree ---- *)
Lemma source_conds (ld : N -> res io_kind (option (hash * hash))) :
  (forall nd, listed nd -> sp_persisted size bs nd = false -> ld nd = Ok None) ->
  (forall nd, listed nd -> pers nd -> exists p, ld nd = Ok (Some p)) ->
  (forall nd, listed nd -> exists x, ld nd = Ok x) /\
  (forall nd p, listed nd -> ld nd = Ok (Some p) -> listed nd /\ pers nd).
Proof.
  intros Hn Hs. split.
  - intros nd Hl. destruct (sp_persisted size bs nd) eqn:Hp.
    + destruct (Hs nd Hl Hp) as [p E]. eexists; exact E.
    + eexists; exact (Hn nd Hl Hp).
  - intros nd p Hl E. split; [exact Hl|]. destruct (sp_persisted size bs nd) eqn:Hp; [reflexivity|].
    rewrite (Hn nd Hl Hp) in E. discriminate.
Qed.

Lemma blen_lower (to to' : outboard) (ld : N -> res io_kind (option (hash * hash))) :
  okind (ob_k to) ->
  (forall nd, listed nd -> pers nd -> exists p, ld nd = Ok (Some p)) ->
  (forall nd o p, listed nd -> ld nd = Ok (Some p) -> koff HO (ob_k to) t nd = Some o ->
       o * 64 + 64 <= blen HO (ob_data to')) ->
  (B - 1) * 64 <= blen HO (ob_data to').
Proof.
  intros K Hs C. destruct (N.eq_dec (B - 1) 0) as [Z|Z]; [rewrite Z; lia|].
  destruct (koff_surj HO size bs Hsize Hbs (ob_k to) (B - 2) K ltac:(lia)) as (nd & Hl & Hp & Ho).
  destruct (Hs nd Hl Hp) as [p E]. pose proof (C nd (B - 2) p Hl E Ho). lia.
Qed.

Lemma copy_any_ok (ld : N -> res io_kind (option (hash * hash))) (to : outboard) :
  (forall nd l r, ld nd = Ok (Some (l, r)) -> length l = 32%nat /\ length r = 32%nat) ->
  (forall nd, listed nd -> sp_persisted size bs nd = false -> ld nd = Ok None) ->
  tgt to ->
  (forall nd, listed nd -> pers nd -> exists p, ld nd = Ok (Some p)) ->
  exists to', copy_gen HO ld (sp_pre_nodes size bs) to = Ok to' /\
    ob_k to' = ob_k to /\ ob_root to' = ob_root to /\ ob_tree to' = ob_tree to /\
    blen HO (ob_data to') = N.max (blen HO (ob_data to)) ((B - 1) * 64) /\
    forall nd, listed nd -> load_sync HO to' nd = ld nd /\ load_fsm HO to' nd = ld nd.
Proof.
  intros Hld32 Hn Ht Hs. destruct (source_conds ld Hn Hs) as [Hok Hpn].
  destruct (copy_gen_loads ld Hld32 (sp_pre_nodes size bs) to Ht Hok Hpn)
    as (to' & E & K' & R' & T' & L1 & L2 & Cin & Cld & _).
  pose proof Ht as (K & T & M).
  exists to'. split; [exact E|]. split; [exact K'|]. split; [exact R'|]. split; [exact T'|]. split.
  - pose proof (blen_lower to to' ld K Hs Cin). lia.
  - intros nd Hl. destruct (sp_persisted size bs nd) eqn:Hp.
    + destruct (Hs nd Hl Hp) as [p Ep]. rewrite Ep. exact (Cld nd p Hl Ep).
    + rewrite (Hn nd Hl Hp). apply none_load. rewrite ob_offset_koff, K', T', T.
      exact (koff_none HO size bs Hsize Hbs (ob_k to) nd K Hl Hp).
Qed.

Lemma copy_any_fail (ld : N -> res io_kind (option (hash * hash))) (to : outboard) :
  (forall nd, listed nd -> sp_persisted size bs nd = false -> ld nd = Ok None) ->
  tgt to ->
  match copy_gen HO ld (sp_pre_nodes size bs) to with
  | Ok _ => forall nd, listed nd -> pers nd -> exists x, ld nd = Ok x
  | Err k => exists nd, listed nd /\ pers nd /\ ld nd = Err k
  | Panic => exists nd, listed nd /\ pers nd /\ ld nd = Panic
  end.
Proof.
  intros Hn Ht.
  assert (Hpn : forall nd p, listed nd -> ld nd = Ok (Some p) -> listed nd /\ pers nd).
  { intros nd p Hl E. split; [exact Hl|]. destruct (sp_persisted size bs nd) eqn:Hp; [reflexivity|].
    rewrite (Hn nd Hl Hp) in E. discriminate. }
  pose proof (copy_gen_fail HO size bs Hsize Hbs ld (sp_pre_nodes size bs) to Ht Hpn) as F.
  destruct (copy_gen HO ld (sp_pre_nodes size bs) to) as [to'|k|].
  - intros nd Hl _. exact (F nd Hl).
  - destruct F as (nd & Hl & E). exists nd. split; [exact Hl|]. split; [|exact E].
    destruct (sp_persisted size bs nd) eqn:Hp; [reflexivity|]. rewrite (Hn nd Hl Hp) in E. discriminate.
  - destruct F as (nd & Hl & E). exists nd. split; [exact Hl|]. split; [|exact E].
    destruct (sp_persisted size bs nd) eqn:Hp; [reflexivity|]. rewrite (Hn nd Hl Hp) in E. discriminate.
Qed.

Lemma copy_unfold (from to : outboard) : ob_tree from = t ->
  copy HO from to = copy_gen HO (load_sync HO from) (sp_pre_nodes size bs) to.
Proof. intro T. unfold copy. rewrite T, (pre_nodes_spec size bs Hsize Hbs). apply copy_loop_is_gen. Qed.
Lemma copy_fsm_unfold (from to : outboard) : ob_tree from = t ->
  copy_fsm HO from to = copy_gen HO (load_fsm HO from) (sp_pre_nodes size bs) to.
Proof. intro T. unfold copy_fsm. rewrite T, (pre_nodes_spec size bs Hsize Hbs). apply copy_loop_fsm_is_gen. Qed.

End Thms.

(* ================= the exported statements ================= *)

(* the two loops of the model are the generic loop at the source's loader *)
Theorem gap_copy_is_gen : forall (HO : hops) (from to : outboard HO),
  copy HO from to = copy_gen HO (load_sync HO from) (pre_order_nodes_iter (ob_tree from)) to /\
  copy_fsm HO from to = copy_gen HO (load_fsm HO from) (pre_order_nodes_iter (ob_tree from)) to.
Proof. intros. split; [apply copy_loop_is_gen|apply copy_loop_fsm_is_gen]. Qed.

(* any loader keyed by node (e.g. a map with missing entries): every pair it has arrives, where it
   answers None the target keeps what it had, nothing else changes *)
Theorem gap_copy_gen : forall (HO : hops) (size bs : N) (ld : N -> res io_kind (option (hash HO * hash HO)))
  (nodes : list N) (to : outboard HO),
  size <= 2 ^ 63 -> bs <= 10 ->
  (forall nd l r, ld nd = Ok (Some (l, r)) -> length l = 32%nat /\ length r = 32%nat) ->
  (ob_k to = PreIO \/ ob_k to = PostIO \/ ob_k to = PreMem \/ ob_k to = PostMem) ->
  ob_tree to = mkTree size bs ->
  ((ob_k to = PreMem \/ ob_k to = PostMem) -> (sp_blocks size bs - 1) * 64 <= blen HO (ob_data to)) ->
  (forall nd, In nd nodes -> exists x, ld nd = Ok x) ->
  (forall nd p, In nd nodes -> ld nd = Ok (Some p) ->
     In nd (sp_pre_nodes size bs) /\ sp_persisted size bs nd = true) ->
  exists to', copy_gen HO ld nodes to = Ok to' /\
    ob_k to' = ob_k to /\ ob_root to' = ob_root to /\ ob_tree to' = ob_tree to /\
    blen HO (ob_data to) <= blen HO (ob_data to') /\
    blen HO (ob_data to') <= N.max (blen HO (ob_data to)) ((sp_blocks size bs - 1) * 64) /\
    (forall nd p, In nd nodes -> ld nd = Ok (Some p) ->
       load_sync HO to' nd = Ok (Some p) /\ load_fsm HO to' nd = Ok (Some p)) /\
    (forall nd o, In nd (sp_pre_nodes size bs) -> sp_persisted size bs nd = true ->
       ob_offset HO to nd = Some o -> o * 64 + 64 <= blen HO (ob_data to) ->
       (~ In nd nodes \/ ld nd = Ok None) ->
       load_sync HO to' nd = load_sync HO to nd /\ load_fsm HO to' nd = load_fsm HO to nd).
Proof.
  intros HO size bs ld nodes to Hs Hb H32 K T M Hok Hpn.
  destruct (copy_gen_loads HO size bs Hs Hb ld H32 nodes to (conj K (conj T M)) Hok Hpn)
    as (to' & E & K' & R' & T' & L1 & L2 & _ & Cld & Cun).
  exists to'. repeat (split; [assumption|]).
  intros nd o Hl Hp Ho. apply Cun; try assumption. rewrite ob_offset_koff, T in Ho. exact Ho.
Qed.

(* a source of any kind over the tree answers None exactly at the listed nodes that store nothing *)
Theorem gap_source_none_iff : forall (HO : hops) (size bs : N) (from : outboard HO) (nd : N),
  size <= 2 ^ 63 -> bs <= 10 -> ob_tree from = mkTree size bs -> In nd (sp_pre_nodes size bs) ->
  (load_sync HO from nd = Ok None <-> sp_persisted size bs nd = false) /\
  (load_fsm HO from nd = Ok None <-> sp_persisted size bs nd = false).
Proof. intros HO size bs from nd Hs Hb. exact (source_none_iff HO size bs Hs Hb from nd). Qed.

(* sync::copy of a source that holds a pair for every persisted node *)
Theorem gap_copy_sync : forall (HO : hops) (size bs : N) (from to : outboard HO),
  size <= 2 ^ 63 -> bs <= 10 ->
  ob_tree from = mkTree size bs ->
  (ob_k to = PreIO \/ ob_k to = PostIO \/ ob_k to = PreMem \/ ob_k to = PostMem) ->
  ob_tree to = mkTree size bs ->
  ((ob_k to = PreMem \/ ob_k to = PostMem) -> (sp_blocks size bs - 1) * 64 <= blen HO (ob_data to)) ->
  (forall nd, In nd (sp_pre_nodes size bs) -> sp_persisted size bs nd = true ->
     exists p, load_sync HO from nd = Ok (Some p)) ->
  exists to', copy HO from to = Ok to' /\
    ob_k to' = ob_k to /\ ob_root to' = ob_root to /\ ob_tree to' = ob_tree to /\
    blen HO (ob_data to') = N.max (blen HO (ob_data to)) ((sp_blocks size bs - 1) * 64) /\
    forall nd, In nd (sp_pre_nodes size bs) ->
      load_sync HO to' nd = load_sync HO from nd /\ load_fsm HO to' nd = load_sync HO from nd.
Proof.
  intros HO size bs from to Hs Hb Tf K T M Hsrc.
  rewrite (copy_unfold HO size bs Hs Hb from to Tf).
  apply (copy_any_ok HO size bs Hs Hb (load_sync HO from) to).
  - intros nd l r. apply load_sync_len.
  - intros nd Hl Hp. exact (proj1 (source_none HO size bs Hs Hb from nd Tf Hl Hp)).
  - exact (conj K (conj T M)).
  - exact Hsrc.
Qed.

(* fsm::copy: the same with the fsm loader of the source *)
Theorem gap_copy_fsm : forall (HO : hops) (size bs : N) (from to : outboard HO),
  size <= 2 ^ 63 -> bs <= 10 ->
  ob_tree from = mkTree size bs ->
  (ob_k to = PreIO \/ ob_k to = PostIO \/ ob_k to = PreMem \/ ob_k to = PostMem) ->
  ob_tree to = mkTree size bs ->
  ((ob_k to = PreMem \/ ob_k to = PostMem) -> (sp_blocks size bs - 1) * 64 <= blen HO (ob_data to)) ->
  (forall nd, In nd (sp_pre_nodes size bs) -> sp_persisted size bs nd = true ->
     exists p, load_fsm HO from nd = Ok (Some p)) ->
  exists to', copy_fsm HO from to = Ok to' /\
    ob_k to' = ob_k to /\ ob_root to' = ob_root to /\ ob_tree to' = ob_tree to /\
    blen HO (ob_data to') = N.max (blen HO (ob_data to)) ((sp_blocks size bs - 1) * 64) /\
    forall nd, In nd (sp_pre_nodes size bs) ->
      load_sync HO to' nd = load_fsm HO from nd /\ load_fsm HO to' nd = load_fsm HO from nd.
Proof.
  intros HO size bs from to Hs Hb Tf K T M Hsrc.
  rewrite (copy_fsm_unfold HO size bs Hs Hb from to Tf).
  apply (copy_any_ok HO size bs Hs Hb (load_fsm HO from) to).
  - intros nd l r. apply load_fsm_len.
  - intros nd Hl Hp. exact (proj2 (source_none HO size bs Hs Hb from nd Tf Hl Hp)).
  - exact (conj K (conj T M)).
  - exact Hsrc.
Qed.

(* the outcome in general: copy succeeds iff the source's loader succeeds at every persisted node;
   otherwise it reports a failure of the loader, never one of the target *)
Theorem gap_copy_sync_outcome : forall (HO : hops) (size bs : N) (from to : outboard HO),
  size <= 2 ^ 63 -> bs <= 10 ->
  ob_tree from = mkTree size bs ->
  (ob_k to = PreIO \/ ob_k to = PostIO \/ ob_k to = PreMem \/ ob_k to = PostMem) ->
  ob_tree to = mkTree size bs ->
  ((ob_k to = PreMem \/ ob_k to = PostMem) -> (sp_blocks size bs - 1) * 64 <= blen HO (ob_data to)) ->
  match copy HO from to with
  | Ok _ => forall nd, In nd (sp_pre_nodes size bs) -> sp_persisted size bs nd = true ->
              exists p, load_sync HO from nd = Ok (Some p)
  | Err k => exists nd, In nd (sp_pre_nodes size bs) /\ sp_persisted size bs nd = true /\
              load_sync HO from nd = Err k
  | Panic => exists nd, In nd (sp_pre_nodes size bs) /\ sp_persisted size bs nd = true /\
              load_sync HO from nd = Panic
  end.
Proof.
  intros HO size bs from to Hs Hb Tf K T M.
  rewrite (copy_unfold HO size bs Hs Hb from to Tf).
  pose proof (copy_any_fail HO size bs Hs Hb (load_sync HO from) to
    (fun nd Hl Hp => proj1 (source_none HO size bs Hs Hb from nd Tf Hl Hp)) (conj K (conj T M))) as F.
  destruct (copy_gen HO (load_sync HO from) (sp_pre_nodes size bs) to) as [to'|k|]; [|exact F|exact F].
  intros nd Hl Hp. destruct (F nd Hl Hp) as [[p|] E]; [exists p; exact E|].
  apply (proj1 (source_none_iff HO size bs Hs Hb from nd Tf Hl)) in E. congruence.
Qed.

Theorem gap_copy_fsm_outcome : forall (HO : hops) (size bs : N) (from to : outboard HO),
  size <= 2 ^ 63 -> bs <= 10 ->
  ob_tree from = mkTree size bs ->
  (ob_k to = PreIO \/ ob_k to = PostIO \/ ob_k to = PreMem \/ ob_k to = PostMem) ->
  ob_tree to = mkTree size bs ->
  ((ob_k to = PreMem \/ ob_k to = PostMem) -> (sp_blocks size bs - 1) * 64 <= blen HO (ob_data to)) ->
  match copy_fsm HO from to with
  | Ok _ => forall nd, In nd (sp_pre_nodes size bs) -> sp_persisted size bs nd = true ->
              exists p, load_fsm HO from nd = Ok (Some p)
  | Err k => False
  | Panic => exists nd, In nd (sp_pre_nodes size bs) /\ sp_persisted size bs nd = true /\
              load_fsm HO from nd = Panic
  end.
Proof.
  intros HO size bs from to Hs Hb Tf K T M.
  rewrite (copy_fsm_unfold HO size bs Hs Hb from to Tf).
  pose proof (copy_any_fail HO size bs Hs Hb (load_fsm HO from) to
    (fun nd Hl Hp => proj2 (source_none HO size bs Hs Hb from nd Tf Hl Hp)) (conj K (conj T M))) as F.
  destruct (copy_gen HO (load_fsm HO from) (sp_pre_nodes size bs) to) as [to'|k|]; [| |exact F].
  - intros nd Hl Hp. destruct (F nd Hl Hp) as [[p|] E]; [exists p; exact E|].
    apply (proj2 (source_none_iff HO size bs Hs Hb from nd Tf Hl)) in E. congruence.
  - destruct F as (nd & _ & _ & E). exact (load_fsm_no_err HO from nd k E).
Qed.

(* ================= bytes: stores of the right length are determined by their loads ================= *)
Section Ext.
Variable HO : hops.
Notation bytes := (bytes HO).
Notation hash := (hash HO).
Notation outboard := (outboard HO).
Variables (size bs : N).
Hypothesis Hsize : size <= 2 ^ 63.
Hypothesis Hbs : bs <= 10.
Notation t := (mkTree size bs).
Notation B := (sp_blocks size bs).
Notation listed nd := (In nd (sp_pre_nodes size bs)).
Notation pers nd := (sp_persisted size bs nd = true).

Lemma sized_ext (k : ob_kind) (r1 r2 : hash) (d1 d2 : bytes) : okind k ->
  blen HO d1 = (B - 1) * 64 -> blen HO d2 = (B - 1) * 64 ->
  (forall nd, listed nd -> pers nd -> load_sync HO (mkOb k r1 t d1) nd = load_sync HO (mkOb k r2 t d2) nd) ->
  d1 = d2.
Proof.
  intros K L1 L2 H.
  set (F := fun i => slice HO (i * 64) 64 d1).
  assert (HF : forall i, i < B - 1 -> blen HO (F i) = 64).
  { intros i Hi. unfold F. apply blen_slice_in. lia. }
  assert (Hk : N.of_nat (N.to_nat (B - 1)) <= B - 1) by lia.
  rewrite (slots_concat HO F (B - 1) HF (N.to_nat (B - 1)) d1 Hk ltac:(lia)).
  - rewrite (slots_concat HO F (B - 1) HF (N.to_nat (B - 1)) d2 Hk ltac:(lia)); [reflexivity|].
    intros i Hi. unfold slot_ok, F.
    destruct (koff_surj HO size bs Hsize Hbs k i K ltac:(lia)) as (nd & Hl & Hp & Ho).
    pose proof (H nd Hl Hp) as E.
    destruct (slot_load HO (mkOb k r1 t d1) nd i K Ho ltac:(cbn [ob_data]; lia)) as [E1 _].
    destruct (slot_load HO (mkOb k r2 t d2) nd i K Ho ltac:(cbn [ob_data]; lia)) as [E2 _].
    cbn [ob_data] in E1, E2. rewrite E1, E2 in E. apply ok_some_inj in E. symmetry. exact (parse_inj HO _ _ E).
  - intros i Hi. reflexivity.
Qed.

Definition sized (ob : outboard) : Prop :=
  okind (ob_k ob) /\ ob_tree ob = t /\ blen HO (ob_data ob) = (B - 1) * 64.

Lemma sized_holds (ob : outboard) nd : sized ob -> listed nd -> pers nd ->
  exists o, ob_offset HO ob nd = Some o /\ o < B - 1 /\
    load_sync HO ob nd = Ok (Some (parse_pair HO (slice HO (o * 64) 64 (ob_data ob)))) /\
    load_fsm HO ob nd = Ok (Some (parse_pair HO (slice HO (o * 64) 64 (ob_data ob)))).
Proof.
  intros (K & T & L) Hl Hp. destruct (koff_some HO size bs Hsize Hbs (ob_k ob) nd K Hl Hp) as (o & Ho & Hlt).
  assert (Ho' : ob_offset HO ob nd = Some o) by (rewrite ob_offset_koff, T; exact Ho).
  exists o. split; [exact Ho'|]. split; [exact Hlt|]. apply (slot_load HO ob nd o K Ho'). lia.
Qed.

Lemma sized_sync_fsm (ob : outboard) nd : sized ob -> listed nd -> load_fsm HO ob nd = load_sync HO ob nd.
Proof.
  intros Hs Hl. destruct (sp_persisted size bs nd) eqn:Hp.
  - destruct (sized_holds ob nd Hs Hl Hp) as (o & _ & _ & E1 & E2). rewrite E1, E2. reflexivity.
  - destruct Hs as (K & T & L). destruct (source_none HO size bs Hsize Hbs ob nd T Hl Hp) as [E1 E2].
    rewrite E1, E2. reflexivity.
Qed.

Lemma koff_order k k' nd : okind k -> okind k' -> kpost k = kpost k' -> koff HO k t nd = koff HO k' t nd.
Proof.
  intros [->|[->|[->| ->]]] [->|[->|[->| ->]]]; cbn [kpost]; intro E; try discriminate; reflexivity.
Qed.

(* copying into a store of the same order reproduces the source's bytes *)
Lemma copy_same_order_gen (from to to' : outboard) : sized from -> okind (ob_k to) -> kpost (ob_k to) = kpost (ob_k from) ->
  ob_k to' = ob_k to -> ob_tree to' = t -> blen HO (ob_data to') = (B - 1) * 64 ->
  (forall nd, listed nd -> load_sync HO to' nd = load_sync HO from nd) ->
  ob_data to' = ob_data from.
Proof.
  intros Hs K Ho K' T' L' H. pose proof Hs as (Kf & Tf & Lf).
  apply (sized_ext (ob_k to) (ob_root to') (ob_root from)); [exact K|exact L'|exact Lf|].
  intros nd Hl Hp.
  transitivity (load_sync HO to' nd).
  { f_equal. rewrite <- K', <- T'. apply mk_eta. }
  rewrite (H nd Hl).
  destruct (sized_holds from nd Hs Hl Hp) as (o & Hof & Hlt & E1 & _). rewrite E1.
  assert (Ho2 : ob_offset HO (mkOb (ob_k to) (ob_root from) t (ob_data from)) nd = Some o).
  { rewrite ob_offset_koff. cbn [ob_k ob_tree]. rewrite (koff_order _ (ob_k from) nd K Kf Ho).
    rewrite ob_offset_koff, Tf in Hof. exact Hof. }
  destruct (slot_load HO (mkOb (ob_k to) (ob_root from) t (ob_data from)) nd o K Ho2 ltac:(cbn [ob_data]; lia)) as [E2 _].
  rewrite E2. reflexivity.
Qed.

End Ext.

Theorem gap_sized_ext : forall (HO : hops) (size bs : N) (ob1 ob2 : outboard HO),
  size <= 2 ^ 63 -> bs <= 10 ->
  (ob_k ob1 = PreIO \/ ob_k ob1 = PostIO \/ ob_k ob1 = PreMem \/ ob_k ob1 = PostMem) ->
  ob_k ob2 = ob_k ob1 -> ob_tree ob1 = mkTree size bs -> ob_tree ob2 = mkTree size bs ->
  blen HO (ob_data ob1) = (sp_blocks size bs - 1) * 64 -> blen HO (ob_data ob2) = (sp_blocks size bs - 1) * 64 ->
  (forall nd, In nd (sp_pre_nodes size bs) -> sp_persisted size bs nd = true ->
     load_sync HO ob1 nd = load_sync HO ob2 nd) ->
  ob_data ob1 = ob_data ob2.
Proof.
  intros HO size bs ob1 ob2 Hs Hb K K2 T1 T2 L1 L2 H.
  apply (sized_ext HO size bs Hs Hb (ob_k ob1) (ob_root ob1) (ob_root ob2)); [exact K|exact L1|exact L2|].
  intros nd Hl Hp.
  assert (E1 : mkOb (ob_k ob1) (ob_root ob1) (mkTree size bs) (ob_data ob1) = ob1) by (rewrite <- T1; apply mk_eta).
  assert (E2 : mkOb (ob_k ob1) (ob_root ob2) (mkTree size bs) (ob_data ob2) = ob2) by (rewrite <- T2, <- K2; apply mk_eta).
  rewrite E1, E2. exact (H nd Hl Hp).
Qed.

(* sync and fsm copy into a store of the same order, not longer than the outboard: byte-identical *)
Theorem gap_copy_same_order : forall (HO : hops) (size bs : N) (from to : outboard HO),
  size <= 2 ^ 63 -> bs <= 10 ->
  (ob_k from = PreIO \/ ob_k from = PostIO \/ ob_k from = PreMem \/ ob_k from = PostMem) ->
  ob_tree from = mkTree size bs -> blen HO (ob_data from) = (sp_blocks size bs - 1) * 64 ->
  (ob_k to = PreIO \/ ob_k to = PostIO \/ ob_k to = PreMem \/ ob_k to = PostMem) ->
  ob_tree to = mkTree size bs ->
  kpost (ob_k to) = kpost (ob_k from) ->
  blen HO (ob_data to) <= (sp_blocks size bs - 1) * 64 ->
  ((ob_k to = PreMem \/ ob_k to = PostMem) -> blen HO (ob_data to) = (sp_blocks size bs - 1) * 64) ->
  copy HO from to = Ok (mkOb (ob_k to) (ob_root to) (mkTree size bs) (ob_data from)) /\
  copy_fsm HO from to = Ok (mkOb (ob_k to) (ob_root to) (mkTree size bs) (ob_data from)).
Proof.
  intros HO size bs from to Hs Hb Kf Tf Lf K T Ho Lt M.
  assert (Sf : sized HO size bs from) by (split; [exact Kf|split; assumption]).
  assert (M' : (ob_k to = PreMem \/ ob_k to = PostMem) -> (sp_blocks size bs - 1) * 64 <= blen HO (ob_data to))
    by (intro Hm; rewrite (M Hm); lia).
  split.
  - destruct (gap_copy_sync HO size bs from to Hs Hb Tf K T M') as (to' & E & K' & R' & T' & L' & Hld).
    { intros nd Hl Hp. destruct (sized_holds HO size bs Hs Hb from nd Sf Hl Hp) as (o & _ & _ & E1 & _).
      eexists; exact E1. }
    rewrite E. f_equal. rewrite <- (mk_eta HO to'). rewrite K', R', T', T. f_equal.
    apply (copy_same_order_gen HO size bs Hs Hb from to to' Sf K Ho K'); [rewrite T'; exact T|lia|].
    intros nd Hl. exact (proj1 (Hld nd Hl)).
  - destruct (gap_copy_fsm HO size bs from to Hs Hb Tf K T M') as (to' & E & K' & R' & T' & L' & Hld).
    { intros nd Hl Hp. destruct (sized_holds HO size bs Hs Hb from nd Sf Hl Hp) as (o & _ & _ & _ & E2).
      eexists; exact E2. }
    rewrite E. f_equal. rewrite <- (mk_eta HO to'). rewrite K', R', T', T. f_equal.
    apply (copy_same_order_gen HO size bs Hs Hb from to to' Sf K Ho K'); [rewrite T'; exact T|lia|].
    intros nd Hl. rewrite (proj1 (Hld nd Hl)). exact (sized_sync_fsm HO size bs Hs Hb from nd Sf Hl).
Qed.

(* the same, with "same order" spelled out *)
Theorem gap_copy_same_order_full : forall (HO : hops) (size bs : N) (from to : outboard HO),
  size <= 2 ^ 63 -> bs <= 10 ->
  (ob_k from = PreIO \/ ob_k from = PostIO \/ ob_k from = PreMem \/ ob_k from = PostMem) ->
  ob_tree from = mkTree size bs -> blen HO (ob_data from) = (sp_blocks size bs - 1) * 64 ->
  (ob_k to = PreIO \/ ob_k to = PostIO \/ ob_k to = PreMem \/ ob_k to = PostMem) ->
  ob_tree to = mkTree size bs ->
  ((ob_k to = PreIO \/ ob_k to = PreMem) <-> (ob_k from = PreIO \/ ob_k from = PreMem)) ->
  blen HO (ob_data to) <= (sp_blocks size bs - 1) * 64 ->
  ((ob_k to = PreMem \/ ob_k to = PostMem) -> blen HO (ob_data to) = (sp_blocks size bs - 1) * 64) ->
  copy HO from to = Ok (mkOb (ob_k to) (ob_root to) (mkTree size bs) (ob_data from)) /\
  copy_fsm HO from to = Ok (mkOb (ob_k to) (ob_root to) (mkTree size bs) (ob_data from)).
Proof.
  intros HO size bs from to Hs Hb Kf Tf Lf K T Ho Lt M.
  apply (gap_copy_same_order HO size bs from to Hs Hb Kf Tf Lf K T); try assumption.
  destruct Kf as [Kf|[Kf|[Kf|Kf]]], K as [K|[K|[K|K]]]; rewrite Kf, K in *; cbn [kpost]; try reflexivity;
    exfalso; destruct Ho as [H1 H2];
    first [ destruct (H1 (or_introl eq_refl)) as [X|X]; discriminate
          | destruct (H1 (or_intror eq_refl)) as [X|X]; discriminate
          | destruct (H2 (or_introl eq_refl)) as [X|X]; discriminate
          | destruct (H2 (or_intror eq_refl)) as [X|X]; discriminate ].
Qed.

(* ================= flip ================= *)
Definition flipk (k : ob_kind) : ob_kind :=
  match k with PreIO => PreIO | PostIO => PostIO | PreMem => PostMem | PostMem => PreMem | EmptyOb => EmptyOb end.

Lemma flip_unfold (HO : hops) (ob : outboard HO) :
  flip HO ob = match copy HO ob (mkOb (flipk (ob_k ob)) (ob_root ob) (ob_tree ob)
                                  (zeros HO (N.to_nat (outboard_size (ob_tree ob))))) with
               | Ok o => Ok o | _ => Panic end.
Proof. reflexivity. Qed.

Lemma outboard_size_spec size bs : outboard_size (mkTree size bs) = (sp_blocks size bs - 1) * 64.
Proof. unfold outboard_size, outboard_hash_pairs. rewrite blocks_spec. reflexivity. Qed.

Theorem gap_flip : forall (HO : hops) (size bs : N) (ob : outboard HO),
  size <= 2 ^ 63 -> bs <= 10 ->
  (ob_k ob = PreMem \/ ob_k ob = PostMem) -> ob_tree ob = mkTree size bs ->
  blen HO (ob_data ob) = (sp_blocks size bs - 1) * 64 ->
  exists ob1, flip HO ob = Ok ob1 /\
    ob_k ob1 = (match ob_k ob with PostMem => PreMem | _ => PostMem end) /\
    ob_root ob1 = ob_root ob /\ ob_tree ob1 = ob_tree ob /\
    blen HO (ob_data ob1) = (sp_blocks size bs - 1) * 64 /\
    (forall nd, In nd (sp_pre_nodes size bs) ->
       load_sync HO ob1 nd = load_sync HO ob nd /\ load_fsm HO ob1 nd = load_fsm HO ob nd) /\
    flip HO ob1 = Ok ob.
Proof.
  intros HO size bs ob Hs Hb K T L.
  assert (Kk : okind (ob_k ob)) by (unfold okind; tauto).
  assert (S0 : sized HO size bs ob) by (split; [exact Kk|split; assumption]).
  (* one flip *)
  assert (One : forall ob0 : outboard HO, (ob_k ob0 = PreMem \/ ob_k ob0 = PostMem) -> sized HO size bs ob0 ->
    exists ob1, flip HO ob0 = Ok ob1 /\ ob_k ob1 = flipk (ob_k ob0) /\ ob_root ob1 = ob_root ob0 /\
      ob_tree ob1 = mkTree size bs /\ blen HO (ob_data ob1) = (sp_blocks size bs - 1) * 64 /\
      forall nd, In nd (sp_pre_nodes size bs) ->
        load_sync HO ob1 nd = load_sync HO ob0 nd /\ load_fsm HO ob1 nd = load_fsm HO ob0 nd).
  { intros ob0 K0 Sz. pose proof Sz as (_ & T0 & L0).
    set (to := mkOb (flipk (ob_k ob0)) (ob_root ob0) (ob_tree ob0) (zeros HO (N.to_nat (outboard_size (ob_tree ob0))))).
    assert (Lz : blen HO (ob_data to) = (sp_blocks size bs - 1) * 64).
    { unfold to. cbn [ob_data]. rewrite gc_blen_zeros, T0, outboard_size_spec. lia. }
    assert (Kt : ob_k to = PreMem \/ ob_k to = PostMem).
    { unfold to. cbn [ob_k]. destruct K0 as [-> | ->]; cbn [flipk]; tauto. }
    destruct (gap_copy_sync HO size bs ob0 to Hs Hb T0 ltac:(tauto) ltac:(unfold to; cbn [ob_tree]; exact T0)
                ltac:(intros _; rewrite Lz; lia)) as (to' & E & K' & R' & T' & L' & Hld).
    { intros nd Hl Hp. destruct (sized_holds HO size bs Hs Hb ob0 nd Sz Hl Hp) as (o & _ & _ & E1 & _).
      eexists; exact E1. }
    exists to'. rewrite flip_unfold. fold to. rewrite E. split; [reflexivity|].
    split; [exact K'|]. split; [exact R'|]. split; [rewrite T'; unfold to; cbn [ob_tree]; exact T0|].
    split; [rewrite L', Lz; lia|].
    intros nd Hl. destruct (Hld nd Hl) as [E1 E2]. split; [exact E1|].
    rewrite E2. symmetry. exact (sized_sync_fsm HO size bs Hs Hb ob0 nd Sz Hl). }
  destruct (One ob K S0) as (ob1 & E1 & K1 & R1 & T1 & L1 & Hld1).
  assert (K1' : ob_k ob1 = PreMem \/ ob_k ob1 = PostMem).
  { rewrite K1. destruct K as [-> | ->]; cbn [flipk]; tauto. }
  assert (S1 : sized HO size bs ob1) by (split; [unfold okind; tauto|split; assumption]).
  destruct (One ob1 K1' S1) as (ob2 & E2 & K2 & R2 & T2 & L2 & Hld2).
  exists ob1. split; [exact E1|].
  split; [rewrite K1; destruct K as [-> | ->]; reflexivity|].
  split; [exact R1|]. split; [rewrite T1, T; reflexivity|]. split; [exact L1|]. split; [exact Hld1|].
  rewrite E2. f_equal.
  assert (K2' : ob_k ob2 = ob_k ob) by (rewrite K2, K1; destruct K as [-> | ->]; reflexivity).
  assert (D : ob_data ob2 = ob_data ob).
  { apply (gap_sized_ext HO size bs ob2 ob Hs Hb); try assumption.
    - rewrite K2'. exact Kk.
    - symmetry. exact K2'.
    - intros nd Hl Hp. rewrite (proj1 (Hld2 nd Hl)). exact (proj1 (Hld1 nd Hl)). }
  rewrite <- (mk_eta HO ob2), <- (mk_eta HO ob). rewrite K2', R2, R1, T2, T, D. reflexivity.
Qed.

(* an in-memory outboard shorter than the tree needs cannot be flipped: the unwrap in flip panics *)
Theorem gap_flip_short : forall (HO : hops) (size bs : N) (ob : outboard HO),
  size <= 2 ^ 63 -> bs <= 10 ->
  (ob_k ob = PreMem \/ ob_k ob = PostMem) -> ob_tree ob = mkTree size bs ->
  blen HO (ob_data ob) < (sp_blocks size bs - 1) * 64 ->
  flip HO ob = Panic.
Proof.
  intros HO size bs ob Hs Hb K T L. rewrite flip_unfold.
  set (to := mkOb (flipk (ob_k ob)) (ob_root ob) (ob_tree ob) (zeros HO (N.to_nat (outboard_size (ob_tree ob))))).
  assert (Lz : blen HO (ob_data to) = (sp_blocks size bs - 1) * 64).
  { unfold to. cbn [ob_data]. rewrite gc_blen_zeros, T, outboard_size_spec. lia. }
  assert (Kt : ob_k to = PreMem \/ ob_k to = PostMem).
  { unfold to. cbn [ob_k]. destruct K as [-> | ->]; cbn [flipk]; tauto. }
  pose proof (gap_copy_sync_outcome HO size bs ob to Hs Hb T ltac:(tauto) ltac:(unfold to; cbn [ob_tree]; exact T)
                ltac:(intros _; rewrite Lz; lia)) as F.
  destruct (copy HO ob to) as [to'|k|]; try reflexivity.
  exfalso.
  assert (Kk : okind (ob_k ob)) by (unfold okind; tauto).
  destruct (koff_surj HO size bs Hs Hb (ob_k ob) (sp_blocks size bs - 2) Kk ltac:(lia)) as (nd & Hl & Hp & Ho).
  destruct (F nd Hl Hp) as [p E].
  unfold load_sync in E. rewrite ob_offset_koff, T, Ho in E.
  assert (Hle : ((sp_blocks size bs - 2) * 64 + 64 <=? blen HO (ob_data ob)) = false) by (apply N.leb_gt; lia).
  destruct K as [K|K]; rewrite K, Hle in E; discriminate.
Qed.

(* ================= non-vacuity and the witness for the fsm loader ================= *)
Definition wbyte (i : nat) : B term_hops := TC (N.of_nat i) [] false.
Definition wdat (n : nat) : bytes term_hops := map wbyte (seq 0 n).

(* a tree of five chunks (four stored pairs), a post-order in-memory source with 256 distinct bytes, and an
   empty file as the pre-order target *)
Lemma gap_copy_nonvacuous :
  let from := mkOb PostMem [] (mkTree 5120 0) (wdat 256) : outboard term_hops in
  let to := mkOb PreIO [] (mkTree 5120 0) [] : outboard term_hops in
  5120 <= 2 ^ 63 /\ 0 <= 10 /\ sp_blocks 5120 0 - 1 = 4 /\
  ob_tree from = mkTree 5120 0 /\
  (ob_k to = PreIO \/ ob_k to = PostIO \/ ob_k to = PreMem \/ ob_k to = PostMem) /\
  ob_tree to = mkTree 5120 0 /\
  ((ob_k to = PreMem \/ ob_k to = PostMem) -> (sp_blocks 5120 0 - 1) * 64 <= blen term_hops (ob_data to)) /\
  (forall nd, In nd (sp_pre_nodes 5120 0) -> sp_persisted 5120 0 nd = true ->
     exists p, load_sync term_hops from nd = Ok (Some p)) /\
  (forall nd, In nd (sp_pre_nodes 5120 0) -> sp_persisted 5120 0 nd = true ->
     exists p, load_fsm term_hops from nd = Ok (Some p)) /\
  (* the result, computed: the four 64-byte pairs in pre-order (nodes 3, 1, 0, 2 = post-order slots 3, 2, 0, 1) *)
  copy term_hops from to =
    Ok (mkOb PreIO [] (mkTree 5120 0)
          (map wbyte (seq 192 64 ++ seq 128 64 ++ seq 0 64 ++ seq 64 64))) /\
  copy_fsm term_hops from to = copy term_hops from to.
Proof.
  cbv zeta.
  assert (E : sp_pre_nodes 5120 0 = [3; 1; 0; 2; 4]) by (vm_compute; reflexivity).
  split; [vm_compute; discriminate|]. split; [lia|]. split; [vm_compute; reflexivity|].
  split; [reflexivity|]. split; [left; reflexivity|]. split; [reflexivity|].
  split; [cbn [ob_k]; intros [H|H]; discriminate|].
  split; [|split; [|split; vm_compute; reflexivity]].
  - rewrite E. intros nd [<-|[<-|[<-|[<-|[<-|[]]]]]] Hp; try (eexists; vm_compute; reflexivity).
    vm_compute in Hp. discriminate.
  - rewrite E. intros nd [<-|[<-|[<-|[<-|[<-|[]]]]]] Hp; try (eexists; vm_compute; reflexivity).
    vm_compute in Hp. discriminate.
Qed.

Lemma gap_flip_nonvacuous :
  let ob := mkOb PostMem [] (mkTree 5120 0) (wdat 256) : outboard term_hops in
  (ob_k ob = PreMem \/ ob_k ob = PostMem) /\ ob_tree ob = mkTree 5120 0 /\
  blen term_hops (ob_data ob) = (sp_blocks 5120 0 - 1) * 64 /\
  flip term_hops ob = Ok (mkOb PreMem [] (mkTree 5120 0)
                            (map wbyte (seq 192 64 ++ seq 128 64 ++ seq 0 64 ++ seq 64 64))) /\
  flip term_hops (mkOb PreMem [] (mkTree 5120 0)
                    (map wbyte (seq 192 64 ++ seq 128 64 ++ seq 0 64 ++ seq 64 64))) = Ok ob.
Proof.
  cbv zeta. split; [right; reflexivity|]. split; [reflexivity|].
  split; [vm_compute; reflexivity|]. split; vm_compute; reflexivity.
Qed.

(* a node-keyed loader with a missing entry (node 1): the pairs of 3, 0, 2 arrive, the slot of node 1 keeps
   what the target had *)
Lemma gap_copy_gen_nonvacuous :
  let src := mkOb PostMem [] (mkTree 5120 0) (wdat 256) : outboard term_hops in
  let ld := fun nd => if nd =? 1 then Ok None else load_sync term_hops src nd in
  let to := mkOb PreMem [] (mkTree 5120 0) (map wbyte (seq 1000 256)) : outboard term_hops in
  (forall nd l r, ld nd = Ok (Some (l, r)) -> length l = 32%nat /\ length r = 32%nat) /\
  (forall nd, In nd (sp_pre_nodes 5120 0) -> exists x, ld nd = Ok x) /\
  (forall nd p, In nd (sp_pre_nodes 5120 0) -> ld nd = Ok (Some p) ->
     In nd (sp_pre_nodes 5120 0) /\ sp_persisted 5120 0 nd = true) /\
  ld 1 = Ok None /\ In 1 (sp_pre_nodes 5120 0) /\ sp_persisted 5120 0 1 = true /\
  copy_gen term_hops ld (sp_pre_nodes 5120 0) to =
    Ok (mkOb PreMem [] (mkTree 5120 0)
          (map wbyte (seq 192 64 ++ seq 1064 64 ++ seq 0 64 ++ seq 64 64))).
Proof.
  cbv zeta.
  assert (E : sp_pre_nodes 5120 0 = [3; 1; 0; 2; 4]) by (vm_compute; reflexivity).
  split; [|split; [|split; [|split; [reflexivity|split; [rewrite E; right; left; reflexivity|split; vm_compute; reflexivity]]]]].
  - intros nd l r. destruct (nd =? 1); [discriminate|]. apply load_sync_len.
  - rewrite E. intros nd [<-|[<-|[<-|[<-|[<-|[]]]]]]; eexists; vm_compute; reflexivity.
  - intros nd p Hl H. split; [exact Hl|]. rewrite E in Hl.
    destruct Hl as [<-|[<-|[<-|[<-|[<-|[]]]]]]; try (vm_compute; reflexivity);
      vm_compute in H; discriminate.
Qed.

(* WITNESS (sync / fsm disagree on truncated io-backed sources): the source file is empty although the tree
   (two chunk groups) has one stored pair.  sync::copy fails with UnexpectedEof and leaves the target alone;
   fsm::copy succeeds and overwrites the pair the target held with 64 zero bytes (fsm loaders of io-backed
   outboards turn a short read into a zero pair, src/io/fsm.rs:157-168, 290-301). *)
Lemma gap_copy_fsm_truncated_invents :
  exists (from to : outboard term_hops) (nd : N) (p : hash term_hops * hash term_hops),
    ob_k from = PreIO /\ ob_tree from = mkTree 2048 0 /\ ob_data from = [] /\
    ob_k to = PreMem /\ ob_tree to = mkTree 2048 0 /\ blen term_hops (ob_data to) = (sp_blocks 2048 0 - 1) * 64 /\
    In nd (sp_pre_nodes 2048 0) /\ sp_persisted 2048 0 nd = true /\
    load_sync term_hops to nd = Ok (Some p) /\ p <> zero_pair term_hops /\
    load_sync term_hops from nd = Err KUnexpectedEof /\
    load_fsm term_hops from nd = Ok (Some (zero_pair term_hops)) /\
    copy term_hops from to = Err KUnexpectedEof /\
    exists to', copy_fsm term_hops from to = Ok to' /\
      load_sync term_hops to' nd = Ok (Some (zero_pair term_hops)) /\
      ob_data to' = zeros term_hops 64.
Proof.
  exists (mkOb PreIO [] (mkTree 2048 0) []), (mkOb PreMem [] (mkTree 2048 0) (wdat 64)), 0,
         (wdat 32, map wbyte (seq 32 32)).
  repeat (split; [vm_compute; try reflexivity; try (left; reflexivity)|]).
  - intro H. vm_compute in H. discriminate.
  - repeat (split; [vm_compute; reflexivity|]).
    eexists. split; [vm_compute; reflexivity|]. split; vm_compute; reflexivity.
Qed.

Print Assumptions gap_copy_sync.
Print Assumptions gap_copy_fsm.
Print Assumptions gap_flip.
Print Assumptions gap_copy_fsm_truncated_invents.

(* ================= the offsets clauses, stated about the model's iterators only ================= *)
Lemma listed_is_persisted size bs nd : size <= 2 ^ 63 -> bs <= 10 -> In nd (sp_pre_nodes size bs) ->
  is_persisted (mkTree size bs) nd = sp_persisted size bs nd.
Proof.
  intros Hs Hb H. destruct (pre_listed size bs nd Hs H) as (s & -> & Hin & _).
  destruct (listed_mid size bs s Hs Hb Hin) as [E1 E2].
  unfold is_persisted, sp_persisted. cbn [tbs tsize]. rewrite <- level_is_sp_level.
  unfold mid. rewrite to_bytes_small by (change (2 ^ 64) with (2 * 2 ^ 63); lia).
  pose proof (unshift_level bs s) as Lv.
  destruct (N.eqb_spec (level (unshift bs s)) bs), (N.ltb_spec bs (level (unshift bs s))),
           (N.eqb_spec bs (level (unshift bs s))); try lia; reflexivity.
Qed.

Lemma filter_ext_in_gc {A} (p q : A -> bool) (l : list A) :
  (forall x, In x l -> p x = q x) -> filter p l = filter q l.
Proof.
  induction l as [|a l IH]; intro H; [reflexivity|]. cbn [filter].
  rewrite (H a (or_introl eq_refl)), IH; [reflexivity|]. intros x Hx. apply H. right. exact Hx.
Qed.

Theorem gap_iter_pre_offsets : forall size bs, size <= 2 ^ 63 -> bs <= 10 ->
  map (pre_order_offset (mkTree size bs))
      (filter (is_persisted (mkTree size bs)) (pre_order_nodes_iter (mkTree size bs))) =
  map (fun i => Some (N.of_nat i)) (seq 0 (N.to_nat (outboard_hash_pairs (mkTree size bs)))).
Proof.
  intros size bs Hs Hb. rewrite (pre_nodes_spec size bs Hs Hb).
  rewrite (filter_ext_in_gc _ (sp_persisted size bs)) by (intros x Hx; apply listed_is_persisted; assumption).
  unfold outboard_hash_pairs. rewrite blocks_spec. exact (pre_offsets_spec size bs Hs Hb).
Qed.

Theorem gap_iter_post_offsets : forall size bs, size <= 2 ^ 63 -> bs <= 10 ->
  map (fun nd => option_map po_value (post_order_offset (mkTree size bs) nd))
      (filter (is_persisted (mkTree size bs)) (post_order_nodes_iter (mkTree size bs))) =
  map (fun i => Some (N.of_nat i)) (seq 0 (N.to_nat (outboard_hash_pairs (mkTree size bs)))).
Proof.
  intros size bs Hs Hb. rewrite (post_nodes_spec size bs Hs Hb).
  rewrite (filter_ext_in_gc _ (sp_persisted size bs)).
  - unfold outboard_hash_pairs. rewrite blocks_spec. exact (post_offsets_spec size bs Hs Hb).
  - intros x Hx. apply listed_is_persisted; try assumption.
    eapply Permutation_in; [apply Permutation_sym, (pre_post_perm size bs Hs)|exact Hx].
Qed.

Theorem gap_iter_none : forall size bs nd, size <= 2 ^ 63 -> bs <= 10 ->
  In nd (pre_order_nodes_iter (mkTree size bs)) -> is_persisted (mkTree size bs) nd = false ->
  In nd (post_order_nodes_iter (mkTree size bs)) /\
  pre_order_offset (mkTree size bs) nd = None /\ post_order_offset (mkTree size bs) nd = None.
Proof.
  intros size bs nd Hs Hb Hl Hp. rewrite (pre_nodes_spec size bs Hs Hb) in Hl.
  rewrite (listed_is_persisted size bs nd Hs Hb Hl) in Hp.
  assert (Hl' : In nd (sp_post_nodes size bs)) by (eapply Permutation_in; [apply (pre_post_perm size bs Hs)|exact Hl]).
  split; [rewrite (post_nodes_spec size bs Hs Hb); exact Hl'|].
  split; [exact (pre_none_spec size bs nd Hs Hb Hl Hp)|].
  pose proof (post_none_spec size bs nd Hs Hb Hl' Hp) as E.
  destruct (post_order_offset (mkTree size bs) nd); [discriminate|reflexivity].
Qed.

(* both offset functions are bijections from the stored nodes of the traversal onto the slots *)
Theorem gap_slots_bijective : forall size bs, size <= 2 ^ 63 -> bs <= 10 ->
  let t := mkTree size bs in
  let stored nd := In nd (pre_order_nodes_iter t) /\ is_persisted t nd = true in
  (forall nd, stored nd <-> In nd (post_order_nodes_iter t) /\ is_persisted t nd = true) /\
  (forall nd, stored nd -> exists o o', o < outboard_hash_pairs t /\ o' < outboard_hash_pairs t /\
     pre_order_offset t nd = Some o /\ option_map po_value (post_order_offset t nd) = Some o') /\
  (forall nd nd', stored nd -> stored nd' ->
     pre_order_offset t nd = pre_order_offset t nd' \/
     option_map po_value (post_order_offset t nd) = option_map po_value (post_order_offset t nd') -> nd = nd') /\
  (forall o, o < outboard_hash_pairs t ->
     (exists nd, stored nd /\ pre_order_offset t nd = Some o) /\
     (exists nd, stored nd /\ option_map po_value (post_order_offset t nd) = Some o)).
Proof.
  intros size bs Hs Hb. cbv zeta.
  rewrite (pre_nodes_spec size bs Hs Hb), (post_nodes_spec size bs Hs Hb).
  unfold outboard_hash_pairs. rewrite blocks_spec.
  assert (P : forall nd, In nd (sp_pre_nodes size bs) <-> In nd (sp_post_nodes size bs)).
  { intro nd. split; intro H; (eapply Permutation_in; [|exact H]);
      [|apply Permutation_sym]; apply (pre_post_perm size bs Hs). }
  assert (St : forall nd, In nd (sp_pre_nodes size bs) /\ is_persisted (mkTree size bs) nd = true <->
                          In nd (sp_pre_nodes size bs) /\ sp_persisted size bs nd = true).
  { intro nd. split; intros [H1 H2]; (split; [exact H1|]).
    - rewrite <- (listed_is_persisted size bs nd Hs Hb H1). exact H2.
    - rewrite (listed_is_persisted size bs nd Hs Hb H1). exact H2. }
  assert (K1 : okind PreIO) by (left; reflexivity).
  assert (K2 : okind PostIO) by (right; left; reflexivity).
  split; [|split; [|split]].
  - intro nd. split; intros [H1 H2]; (split; [|exact H2]).
    + exact (proj1 (P nd) H1).
    + exact (proj2 (P nd) H1).
  - intros nd H. apply St in H. destruct H as [Hl Hp].
    destruct (koff_some term_hops size bs Hs Hb PreIO nd K1 Hl Hp) as (o & Ho & Hlt).
    destruct (koff_some term_hops size bs Hs Hb PostIO nd K2 Hl Hp) as (o' & Ho' & Hlt').
    exists o, o'. split; [exact Hlt|]. split; [exact Hlt'|]. split; [exact Ho|exact Ho'].
  - intros nd nd' H H'. apply St in H, H'. destruct H as [Hl Hp], H' as [Hl' Hp']. intros [E|E].
    + exact (koff_inj term_hops size bs Hs Hb PreIO nd nd' K1 Hl Hp Hl' Hp' E).
    + exact (koff_inj term_hops size bs Hs Hb PostIO nd nd' K2 Hl Hp Hl' Hp' E).
  - intros o Ho. split.
    + destruct (koff_surj term_hops size bs Hs Hb PreIO o K1 Ho) as (nd & Hl & Hp & E).
      exists nd. split; [apply St; split; assumption|exact E].
    + destruct (koff_surj term_hops size bs Hs Hb PostIO o K2 Ho) as (nd & Hl & Hp & E).
      exists nd. split; [apply St; split; assumption|exact E].
Qed.

(* The bound size <= 2^63 of the post-order theorems is sharp.  For a blob of 2^63 + 1 bytes (block size 0:
   2^53 stored pairs) the root 2^53 - 1 covers chunks [0, 2^54); ChunkNum::to_bytes is `self.0 << 10`, the
   end 2^64 wraps to 0, the test `node.byte_range().end <= self.size` succeeds and the root is classified
   Stable with the offset of a complete tree, 2^54 - 2, far outside the outboard (it should be Unstable
   2^53 - 1, the last slot).  This is what the Rust computes. *)
Lemma gap_post_offset_beyond_refuted :
  exists size bs nd v,
    2 ^ 63 < size /\ size < 2 ^ 64 /\ bs = 0 /\ nd = fst (shifted (mkTree size bs)) /\
    is_persisted (mkTree size bs) nd = true /\
    post_order_offset (mkTree size bs) nd = Some (Stable v) /\
    outboard_hash_pairs (mkTree size bs) <= v.
Proof.
  exists (2 ^ 63 + 1), 0, (2 ^ 53 - 1), (2 ^ 54 - 2).
  repeat split; vm_compute; try reflexivity; discriminate.
Qed.

Print Assumptions gap_slots_bijective.
Print Assumptions gap_iter_post_offsets.
Print Assumptions gap_post_offset_beyond_refuted.
