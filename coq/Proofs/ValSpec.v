(* C06, part 1: the validators (validate_rec, sync.rs:657-906) compute a recursive specification over the
   Shape of chunk groups.  [val_spec] mirrors validate_rec in Shape terms: node over the groups
   [ga, ga + n), hash owed from above, root flag. *)
From BaoV Require Import Model.Sync Model.Fsm Spec.PlanSpec Spec.PlanWf Spec.EncSpec.
From BaoV Require Import Proofs.NodeLevel Proofs.NodeBits Proofs.NodeAlgebra
  Proofs.ObBase Proofs.RangeBase Proofs.RangeTrunc Proofs.RangeProofs Proofs.BridgeBase Proofs.BridgeGeom
  Proofs.PlanBase Proofs.PlanQuery Proofs.PlanRs Proofs.PlanNav.
From Coq Require Import ZArith Lia.
Open Scope N_scope.
Arguments N.add : simpl never.
Arguments N.sub : simpl never.
Arguments N.mul : simpl never.
Arguments N.pow : simpl never.
Arguments N.shiftl : simpl never.
Arguments N.shiftr : simpl never.
Arguments N.land : simpl never.
Arguments N.div : simpl never.
Arguments N.modulo : simpl never.
Arguments N.log2 : simpl never.
Arguments N.min : simpl never.
Arguments N.max : simpl never.
Ltac Zify.zify_post_hook ::= Z.to_euclidean_division_equations.

Section ValSpecDefs.
Variable HO : hops.
Notation bytes := (bytes HO).
Notation hash := (hash HO).
Notation outboard := (outboard HO).

(* the pair a load returns; no pair when the node has no slot (or the load fails) *)
Definition stored_pair (ob : outboard) (nd : N) : option (hash * hash) :=
  match load_sync HO ob nd with Ok x => x | _ => None end.

(* chunk group ga of a blob of `size` bytes: chunks [ga * g, min ((ga+1) * g, nchunks size)) *)
Definition grp_start (bs ga : N) : N := ga * 2 ^ bs.
Definition grp_end (size bs ga : N) : N := N.min ((ga + 1) * 2 ^ bs) (nchunks size).
(* some chunk of the groups [ga, ga + n) is selected *)
Definition touchedn (Sel : N -> bool) (size bs ga n : N) : bool :=
  existsb Sel (chunk_range_list (ga * 2 ^ bs) (N.min ((ga + n) * 2 ^ bs) (nchunks size))).

(* what a group reports: with data, its range iff the stored bytes hash to the value owed to it *)
Definition leaf_rep (wd : bool) (d : bytes) (size bs ga : N) (owed : hash) (is_root : bool) : list (N * N) :=
  let a := grp_start bs ga in
  let e := grp_end size bs ga in
  if wd then
    if bytes_eqb HO (hash_subtree HO a (chunk_bytes HO d a e) is_root) owed then [(a, e)] else []
  else [(a, e)].

(* node over groups [ga, ga + n): n = 1 is a half leaf (no stored pair), n = 2 a shifted leaf,
   otherwise an inner node splitting at capof n / 2 *)
Fixpoint val_spec (fuel : nat) (wd : bool) (ob : outboard) (d : bytes) (size bs : N) (Sel : N -> bool)
         (ga n : N) (owed : hash) (is_root : bool) : list (N * N) :=
  match fuel with
  | O => []
  | S f =>
    if negb (touchedn Sel size bs ga n) then []
    else if n <=? 1 then leaf_rep wd d size bs ga owed is_root
    else
      match stored_pair ob (unshift bs (sid ga n)) with
      | None => []
      | Some (l, r) =>
          if negb (bytes_eqb HO (parent_cv HO l r is_root) owed) then []
          else if n <=? 2 then
            (if touchedn Sel size bs ga 1 then leaf_rep wd d size bs ga l false else [])
            ++ (if touchedn Sel size bs (ga + 1) 1 then leaf_rep wd d size bs (ga + 1) r false else [])
          else
            let half := capof n / 2 in
            val_spec f wd ob d size bs Sel ga half l false
            ++ val_spec f wd ob d size bs Sel (ga + half) (n - half) r false
      end
  end.

Lemma val_spec_eq f wd ob d size bs Sel ga n owed is_root :
  val_spec (S f) wd ob d size bs Sel ga n owed is_root =
    if negb (touchedn Sel size bs ga n) then []
    else if n <=? 1 then leaf_rep wd d size bs ga owed is_root
    else
      match stored_pair ob (unshift bs (sid ga n)) with
      | None => []
      | Some (l, r) =>
          if negb (bytes_eqb HO (parent_cv HO l r is_root) owed) then []
          else if n <=? 2 then
            (if touchedn Sel size bs ga 1 then leaf_rep wd d size bs ga l false else [])
            ++ (if touchedn Sel size bs (ga + 1) 1 then leaf_rep wd d size bs (ga + 1) r false else [])
          else
            let half := capof n / 2 in
            val_spec f wd ob d size bs Sel ga half l false
            ++ val_spec f wd ob d size bs Sel (ga + half) (n - half) r false
      end.
Proof. reflexivity. Qed.

End ValSpecDefs.

(* ---- the Shape listing in (ga, n) terms ---- *)
Lemma sh_pre_small f ga n : n <= 2 -> sh_pre (S f) ga n = [sid ga n].
Proof.
  intro H. cbn [sh_pre]. destruct (N.leb_spec n 2); [|lia]. unfold sid. rewrite capof_small by assumption.
  change (2 / 2) with 1. f_equal. lia.
Qed.

Lemma sh_pre_inner f ga n : 3 <= n ->
  sh_pre (S f) ga n = sid ga n :: sh_pre f ga (capof n / 2) ++ sh_pre f (ga + capof n / 2) (n - capof n / 2).
Proof.
  intro H. cbn [sh_pre]. destruct (N.leb_spec n 2); [lia|]. cbv zeta. unfold sid, capof.
  destruct (N.leb_spec n 2); [lia|]. reflexivity.
Qed.

Lemma sh_pre_fuel : forall f1 f2 ga n, 1 <= n ->
  N.log2 (capof n) <= N.of_nat f1 -> N.log2 (capof n) <= N.of_nat f2 -> sh_pre f1 ga n = sh_pre f2 ga n.
Proof.
  induction f1 as [|f1 IH]; intros f2 ga n Hn H1 H2.
  { destruct (fuel_pos n 0 Hn H1) as [f' Ef]. discriminate. }
  destruct (fuel_pos n f2 Hn H2) as [f2' ->].
  destruct (N.le_gt_cases n 2) as [L|L].
  - rewrite !sh_pre_small by assumption. reflexivity.
  - assert (H3 : 3 <= n) by lia. rewrite !sh_pre_inner by assumption.
    destruct (fuel_children n f1 H3 H1) as [A1 A2]. destruct (fuel_children n f2' H3 H2) as [B1 B2].
    destruct (capof_inner n H3) as (j & Ecap & Eh & K1 & K2 & C1 & C2). pose proof (pow2_pos (j + 1)).
    f_equal. f_equal; apply IH; try assumption; rewrite ?Eh; lia.
Qed.

Lemma sh_pre_head f ga n : 1 <= n -> In (sid ga n) (sh_pre (S f) ga n).
Proof.
  intro Hn. destruct (N.le_gt_cases n 2) as [L|L].
  - rewrite sh_pre_small by assumption. now left.
  - rewrite sh_pre_inner by lia. now left.
Qed.

(* ------------------------------------------------------------------------------------------- *)
Section ValRec.
Variable HO : hops.
Notation bytes := (bytes HO).
Notation hash := (hash HO).
Notation outboard := (outboard HO).

Variables (size bs : N) (q : ranges).
Hypothesis Hsize : size <= 2 ^ 63.
Hypothesis Hbs : bs <= 10.
Hypothesis Hwf : wf_ranges q = true.

Let t := mkTree size bs.
Let B := sp_blocks size bs.
Let filled := filled_of B.
Let g := 2 ^ bs.
Let q' := truncate_ranges q size.
Let Sel := sel q size.
Let A (ga : N) := ga * g.
Let E (ga n : N) := (ga + capof n) * g.
Let M (ga n : N) := (ga + capof n / 2) * g.

Variable ob : outboard.
Variable d : bytes.
Variable wd : bool.
(* loads of the nodes of the Shape (LP = a set of shifted ids containing them) do not fail *)
Variable LP : N -> Prop.
Hypothesis Hloads : forall s, LP s -> exists x, load_sync HO ob (unshift bs s) = Ok x.
Hypothesis Hd : wd = true -> blen HO d = size.

Definition vyield (data : bytes) (with_data : bool) (s e : N) (h : hash) (root : bool) : list (N * N) * res io_kind unit :=
  if with_data then
    match yield_if_valid HO data s e h root with
    | Ok ys => (ys, Ok tt) | Err k => ([], Err k) | Panic => ([], Panic) end
  else ([(full_chunks s, chunks e)], Ok tt).

Lemma validate_rec_node f owed ga n rm ir rs : node_ok size bs ga n rm ->
  validate_rec HO (S f) wd t filled ob d owed (sid ga n) ir rs =
    if r_is_empty rs then ([], Ok tt)
    else
      let nd := unshift bs (sid ga n) in
      if negb (is_relevant_for_outboard t nd)
      then vyield d wd (A ga * 1024) (N.min (E ga n * 1024) size) owed ir
      else
        match load_sync HO ob nd with
        | Err k => ([], Err k)
        | Panic => ([], Panic)
        | Ok None => ([], Ok tt)
        | Ok (Some (lh, rh)) =>
            if negb (bytes_eqb HO (parent_cv HO lh rh ir) owed) then ([], Ok tt)
            else
              let '(l_rs, r_rs) := split_inner rs (A ga) (M ga n) in
              if n <=? 2 then
                let '(ys1, r1) := if negb (r_is_empty l_rs)
                                  then vyield d wd (A ga * 1024) (N.min (M ga n * 1024) size) lh false else ([], Ok tt) in
                match r1 with
                | Ok _ =>
                    let '(ys2, r2) := if negb (r_is_empty r_rs)
                                      then vyield d wd (N.min (M ga n * 1024) size) (N.min (E ga n * 1024) size) rh false
                                      else ([], Ok tt) in
                    (ys1 ++ ys2, r2)
                | _ => (ys1, r1)
                end
              else
                match left_child (sid ga n) with
                | None => ([], Panic)
                | Some lc =>
                    let '(ys1, r1) := validate_rec HO f wd t filled ob d lh lc false l_rs in
                    match r1 with
                    | Ok _ =>
                        match right_descendant (sid ga n) filled with
                        | None => (ys1, Panic)
                        | Some rc =>
                            let '(ys2, r2) := validate_rec HO f wd t filled ob d rh rc false r_rs in
                            (ys1 ++ ys2, r2)
                        end
                    | _ => (ys1, r1)
                    end
                end
        end.
Proof.
  intros Hok. pose proof (node_geom_ok size bs ga n rm Hsize Hbs Hok) as [G1 G2 G3 G4 G5].
  pose proof (node_end_bound size bs ga n rm Hsize Hbs Hok) as HE.
  assert (Hh : capof n / 2 <= capof n) by (apply N.div_le_upper_bound; lia).
  pose proof (pow2_pos bs) as Hp.
  assert (TA : to_bytes (ga * 2 ^ bs) = ga * 2 ^ bs * 1024) by (apply to_bytes_small; nia).
  assert (TE : to_bytes ((ga + capof n) * 2 ^ bs) = (ga + capof n) * 2 ^ bs * 1024) by (apply to_bytes_small; nia).
  assert (TM : to_bytes ((ga + capof n / 2) * 2 ^ bs) = (ga + capof n / 2) * 2 ^ bs * 1024) by (apply to_bytes_small; nia).
  cbn [validate_rec]. change (tbs t) with bs.
  unfold leaf_byte_ranges3, node_byte_range, Ranges.split. change (tsize t) with size.
  rewrite G1, G4, G5. cbn [fst snd]. rewrite TA, TE, TM.
  rewrite (is_leaf_sid ga n rm size bs Hok).
  reflexivity.
Qed.

(* ---- which nodes store a pair ---- *)
Lemma relevant_node ga n rm : node_ok size bs ga n rm -> (rm = false -> ga + n < B) ->
  is_relevant_for_outboard t (unshift bs (sid ga n)) = negb (n <=? 1).
Proof.
  intros Hok Hnr. pose proof (node_geom_ok size bs ga n rm Hsize Hbs Hok) as [G1 G2 G3 G4 G5].
  pose proof (node_end_bound size bs ga n rm Hsize Hbs Hok) as HE.
  destruct Hok as [P [k Al] I R]. pose proof (pow2_pos bs) as Hp.
  unfold is_relevant_for_outboard. change (tbs t) with bs. change (tsize t) with size. rewrite G2, G5.
  destruct (N.le_gt_cases n 2) as [L|L].
  - rewrite cexp_small by assumption. rewrite N.add_0_l, N.ltb_irrefl.
    rewrite capof_small in * by assumption. change (2 / 2) with 1 in *.
    rewrite to_bytes_small by nia.
    destruct (N.leb_spec n 1) as [L1|L1]; cbn [negb].
    + assert (n = 1) by lia. subst n. destruct rm; [|discriminate R].
      apply N.ltb_ge. destruct (N.le_gt_cases size ((ga + 1) * 2 ^ bs * 1024)) as [|G]; [assumption|exfalso].
      assert (ga + 1 < sp_blocks size bs) by (apply sp_blocks_spec; right; assumption). fold B in H. lia.
    + apply N.ltb_lt. assert (H : ga + 1 < sp_blocks size bs) by (fold B; lia).
      apply sp_blocks_spec in H. destruct H as [H|H]; [lia|assumption].
  - pose proof (cexp_inner n ltac:(lia)) as Hc.
    assert (E1 : (cexp n + bs <? bs) = false) by (apply N.ltb_ge; lia).
    assert (E2 : (bs <? cexp n + bs) = true) by (apply N.ltb_lt; lia).
    rewrite E1, E2. destruct (N.leb_spec n 1); [lia|reflexivity].
Qed.

(* ---- yielding one group ---- *)
Lemma full_chunks_mul a : full_chunks (a * 1024) = a.
Proof. unfold full_chunks. rewrite N.shiftr_div_pow2. change (2 ^ 10) with 1024. apply N.div_mul. lia. Qed.

Lemma chunks_min X : 0 < size -> chunks (N.min (X * 1024) size) = N.min X (nchunks size).
Proof.
  intro Hs. pose proof (nchunks_bounds size) as (B1 & B2 & B3). rewrite chunks_ceil.
  assert (En : nchunks size = (size + 1023) / 1024) by (unfold nchunks; rewrite chunks_ceil; lia).
  destruct (N.le_gt_cases (X * 1024) size) as [L|L].
  - rewrite N.min_l by assumption. rewrite N.min_l by lia. lia.
  - rewrite N.min_r by lia. rewrite N.min_r by lia. lia.
Qed.

Lemma vyield_spec a X owed root : a < X -> a * 1024 < size ->
  vyield d wd (a * 1024) (N.min (X * 1024) size) owed root =
  ((if wd then
      if bytes_eqb HO (hash_subtree HO a (chunk_bytes HO d a (N.min X (nchunks size))) root) owed
      then [(a, N.min X (nchunks size))] else []
    else [(a, N.min X (nchunks size))]), Ok tt).
Proof.
  intros HaX Ha. assert (Hs : 0 < size) by lia.
  unfold vyield, yield_if_valid. rewrite full_chunks_mul, (chunks_min X Hs).
  destruct wd eqn:Ew; [|reflexivity]. specialize (Hd eq_refl).
  pose proof (nchunks_bounds size) as (B1 & B2 & B3).
  assert (Hlen : blen HO (slice HO (a * 1024) (N.min (X * 1024) size - a * 1024) d) = N.min (X * 1024) size - a * 1024).
  { unfold slice. rewrite ObBase.blen_take, ObBase.blen_drop, Hd. lia. }
  unfold read_exact_at. rewrite Hlen, N.eqb_refl.
  assert (Es : slice HO (a * 1024) (N.min (X * 1024) size - a * 1024) d = chunk_bytes HO d a (N.min X (nchunks size))).
  { unfold chunk_bytes, slice. apply ObBase.take_eq. rewrite ObBase.blen_drop, Hd.
    destruct (N.le_gt_cases (X * 1024) size) as [L|L].
    - rewrite (N.min_l (X * 1024)) by assumption. rewrite (N.min_l X) by lia. lia.
    - rewrite (N.min_r (X * 1024)) by lia. rewrite (N.min_r X) by lia. nia. }
  rewrite Es. reflexivity.
Qed.

(* ---- the ranges reaching a node are empty iff no chunk of the node is selected ---- *)
Lemma q_any_sel a e rm : a < nchunks size -> (rm = false -> a < e /\ e < nchunks size) ->
  q_any q' a e rm = existsb Sel (chunk_range_list a (if rm then nchunks size else e)).
Proof.
  intros Ha H. pose proof (truncate_wf q size Hwf) as Hwf'. unfold q', Sel. destruct rm.
  - rewrite (any_rm _ size a e Hwf' Ha). apply existsb_ext'. intros c _. now apply truncate_sel.
  - destruct (H eq_refl) as [H1 H2]. rewrite (any_inner _ size a e Hwf' H1 H2).
    apply existsb_ext'. intros c _. now apply truncate_sel.
Qed.

Lemma Hq' : ssorted q'.
Proof. pose proof (truncate_wf q size Hwf) as W. apply wf_iff in W. apply W. Qed.

Lemma rs_empty_sel rs a e rm : rs_ok q' rs a e rm -> a < e -> a < nchunks size ->
  (rm = false -> e < nchunks size) ->
  r_is_empty rs = negb (existsb Sel (chunk_range_list a (if rm then nchunks size else e))).
Proof.
  intros Hrs Hae Ha He. rewrite (rs_ok_empty q' rs a e rm Hq' Hae Hrs). f_equal.
  apply q_any_sel; [assumption|]. intro Erm. split; [assumption|auto].
Qed.

Lemma ivl ga n rm : node_ok size bs ga n rm ->
  A ga < M ga n /\ M ga n < E ga n /\ A ga < nchunks size /\ (2 <= B -> A ga * 1024 < size).
Proof.
  intros Hok. pose proof Hok as [P [k Al] I R]. pose proof (pow2_pos bs) as Hp.
  destruct (capof_spec n P) as (j & Ej & _). pose proof (pow2_pos j).
  assert (Hh : capof n / 2 = 2 ^ j) by (rewrite Ej, pow2_succ, N.mul_comm, N.div_mul by lia; reflexivity).
  rewrite pow2_succ in Ej.
  assert (Hin : ga < sp_blocks size bs) by (fold B; lia).
  pose proof (group_inside size bs ga Hin) as Hgi.
  unfold A, M, E, g. rewrite Hh, Ej. repeat split; try nia; try assumption.
  intro HB. apply sp_blocks_spec in Hin. destruct Hin as [->|Hin]; [|assumption].
  assert (H1 : 1 < sp_blocks size bs) by (fold B; lia). apply sp_blocks_spec in H1. destruct H1; lia.
Qed.

Lemma node_end_sel ga n rm : node_ok size bs ga n rm -> (rm = false -> ga + n < B) ->
  (if rm then nchunks size else E ga n) = N.min ((ga + n) * 2 ^ bs) (nchunks size) /\
  (rm = false -> E ga n < nchunks size).
Proof.
  intros [P [k Al] I R] Hnr. pose proof (pow2_pos bs) as Hp. destruct rm.
  - split; [|discriminate]. pose proof (nchunks_le_blocks size bs). fold B in H. rewrite R. lia.
  - specialize (Hnr eq_refl). assert (H : ga + n < sp_blocks size bs) by (fold B; lia).
    apply group_inside in H. unfold E, g. rewrite <- R. split; [lia|intros _; exact H].
Qed.

Lemma rs_touched rs ga n rm : node_ok size bs ga n rm -> (rm = false -> ga + n < B) ->
  rs_ok q' rs (A ga) (E ga n) rm -> r_is_empty rs = negb (touchedn Sel size bs ga n).
Proof.
  intros Hok Hnr Hrs. destruct (ivl ga n rm Hok) as (I1 & I2 & I3 & _).
  destruct (node_end_sel ga n rm Hok Hnr) as [En Hlt].
  rewrite (rs_empty_sel rs (A ga) (E ga n) rm Hrs ltac:(lia) I3 Hlt). unfold touchedn. rewrite En. reflexivity.
Qed.

(* ---- the validator computes val_spec ---- *)
Lemma validate_rec_spec : forall fuel ga n rm rs owed ir,
  2 <= B -> node_ok size bs ga n rm -> (rm = false -> ga + n < B) -> N.log2 (capof n) <= N.of_nat fuel ->
  rs_ok q' rs (A ga) (E ga n) rm -> (forall x, In x (sh_pre fuel ga n) -> LP x) ->
  validate_rec HO fuel wd t filled ob d owed (sid ga n) ir rs
  = (val_spec HO fuel wd ob d size bs Sel ga n owed ir, Ok tt).
Proof.
  induction fuel as [|f IH]; intros ga n rm rs owed ir HB Hok Hnr Hf Hrs Hsub.
  { destruct (fuel_pos n 0 (nk_pos _ _ _ _ _ Hok) Hf) as [f' Ef]. discriminate. }
  rewrite (validate_rec_node f owed ga n rm ir rs Hok), val_spec_eq. cbn zeta.
  rewrite (rs_touched rs ga n rm Hok Hnr Hrs).
  destruct (touchedn Sel size bs ga n) eqn:Et; cbn [negb]; [|reflexivity].
  rewrite (relevant_node ga n rm Hok Hnr), negb_involutive.
  destruct (ivl ga n rm Hok) as (I1 & I2 & I3 & I4). specialize (I4 HB).
  pose proof Hok as [P [k Al] I R]. pose proof (pow2_pos bs) as Hp.
  pose proof (nchunks_le_blocks size bs) as Hnb. fold B in Hnb.
  destruct (N.leb_spec n 1) as [L1|L1].
  - (* half leaf *)
    assert (n = 1) by lia. subst n. destruct rm; [|discriminate R].
    unfold A in *. rewrite (vyield_spec (ga * g) (E ga 1) owed ir ltac:(lia) I4).
    unfold leaf_rep, grp_start, grp_end. fold g.
    assert (Ee : N.min (E ga 1) (nchunks size) = N.min ((ga + 1) * g) (nchunks size)).
    { unfold E. change (capof 1) with 2. unfold B in Hnb. rewrite <- R in Hnb. fold g in Hnb. nia. }
    rewrite Ee. reflexivity.
  - destruct (Hloads (sid ga n) (Hsub _ (sh_pre_head f ga n P))) as [x Hx]. unfold stored_pair. rewrite Hx.
    destruct x as [[lh rh]|]; [|reflexivity].
    destruct (bytes_eqb HO (parent_cv HO lh rh ir) owed); cbn [negb]; [|reflexivity].
    destruct (split_inner rs (A ga) (M ga n)) as [l_rs r_rs] eqn:Esp.
    destruct (split_ok q' rs (A ga) (M ga n) (E ga n) rm l_rs r_rs Hrs I1 I2 Esp) as [Hl Hr].
    destruct (N.leb_spec n 2) as [L2|L2].
    + (* shifted leaf with both groups *)
      assert (n = 2) by lia. subst n.
      assert (EM : M ga 2 = (ga + 1) * g) by reflexivity.
      assert (EE : E ga 2 = (ga + 1 + 1) * g) by (unfold E; change (capof 2) with 2; f_equal; lia).
      assert (Hg1 : ga + 1 < sp_blocks size bs) by (fold B; lia).
      pose proof (group_inside size bs (ga + 1) Hg1) as Hin1. fold g in Hin1.
      assert (Hm : M ga 2 * 1024 < size).
      { apply sp_blocks_spec in Hg1. destruct Hg1 as [Hg1|Hg1]; [lia|]. rewrite EM. exact Hg1. }
      (* left group *)
      assert (Tl : r_is_empty l_rs = negb (touchedn Sel size bs ga 1)).
      { rewrite (rs_empty_sel l_rs (A ga) (M ga 2) false Hl I1 I3 ltac:(intros _; rewrite EM; exact Hin1)).
        unfold touchedn. fold g. rewrite EM. f_equal. f_equal. f_equal. lia. }
      assert (Tr : r_is_empty r_rs = negb (touchedn Sel size bs (ga + 1) 1)).
      { destruct (node_end_sel ga 2 rm Hok Hnr) as [En Hlt].
        rewrite (rs_empty_sel r_rs (M ga 2) (E ga 2) rm Hr I2 ltac:(rewrite EM; exact Hin1) Hlt).
        unfold touchedn. fold g. rewrite En. fold g. rewrite EM. do 3 f_equal. f_equal. lia. }
      rewrite Tl, Tr, !negb_involutive.
      rewrite (N.min_l (M ga 2 * 1024) size) by lia.
      unfold A in *.
      assert (Y1 : vyield d wd (ga * g * 1024) (M ga 2 * 1024) lh false = (leaf_rep HO wd d size bs ga lh false, Ok tt)).
      { pose proof (vyield_spec (ga * g) (M ga 2) lh false I1 I4) as Y.
        rewrite (N.min_l (M ga 2 * 1024) size) in Y by lia. rewrite Y.
        unfold leaf_rep, grp_start, grp_end. fold g. rewrite EM. reflexivity. }
      assert (Y2 : vyield d wd (M ga 2 * 1024) (N.min (E ga 2 * 1024) size) rh false
                   = (leaf_rep HO wd d size bs (ga + 1) rh false, Ok tt)).
      { rewrite (vyield_spec (M ga 2) (E ga 2) rh false I2 Hm).
        unfold leaf_rep, grp_start, grp_end. fold g. rewrite EM, EE. reflexivity. }
      rewrite Y1, Y2.
      destruct (touchedn Sel size bs ga 1), (touchedn Sel size bs (ga + 1) 1); reflexivity.
    + (* inner node *)
      assert (Hn : 3 <= n) by lia.
      destruct (capof_inner n Hn) as (j & Ecap & Eh & K1 & K2 & C1 & C2).
      pose proof (pow2_pos (j + 1)) as Hpj.
      set (half := capof n / 2) in *.
      assert (Ecap' : capof n = 2 * half).
      { rewrite Eh, Ecap. replace (j + 2) with (j + 1 + 1) by lia. now rewrite pow2_succ. }
      assert (Echalf : capof half = half) by (rewrite Eh; exact C1).
      assert (Hce : cexp n <= 64).
      { pose proof (node_end_bound size bs ga n rm Hsize Hbs Hok) as HE.
        assert (capof n <= 2 ^ 53) by nia. rewrite (capof_pow2 n ltac:(lia)) in H. apply pow2_le_inv in H. lia. }
      rewrite (left_child_sid size bs ga n rm Hok Hn). fold half.
      unfold filled, B. rewrite (right_descendant_sid size bs ga n rm Hok Hn Hce). fold half. fold B. fold filled.
      destruct (fuel_children n f Hn Hf) as [F1 F2]. fold half in F1, F2.
      pose proof (node_ok_left size bs ga n rm Hok Hn) as Hokl. fold half in Hokl.
      pose proof (node_ok_right size bs ga n rm Hok Hn) as Hokr. fold half in Hokr.
      assert (Hhn : half < n) by (rewrite Eh; lia).
      assert (Hrl : rs_ok q' l_rs (A ga) (E ga half) false).
      { replace (E ga half) with (M ga n); [exact Hl|]. unfold E, M. fold half. now rewrite Echalf. }
      assert (Hrr : rs_ok q' r_rs (A (ga + half)) (E (ga + half) (n - half)) rm).
      { change (A (ga + half)) with (M ga n). destruct rm.
        - eapply rs_ok_rm_end; exact Hr.
        - replace (E (ga + half) (n - half)) with (E ga n); [exact Hr|].
          cbn in R. assert (n - half = half) by lia. unfold E. rewrite H, Echalf, Ecap'. f_equal. lia. }
      rewrite (sh_pre_inner f ga n Hn) in Hsub. fold half in Hsub.
      rewrite (IH ga half false l_rs lh false HB Hokl ltac:(intros _; lia) F1 Hrl)
        by (intros y Hy; apply Hsub; right; apply in_or_app; left; exact Hy).
      rewrite (IH (ga + half) (n - half) rm r_rs rh false HB Hokr ltac:(intro Erm; specialize (Hnr Erm); lia) F2 Hrr)
        by (intros y Hy; apply Hsub; right; apply in_or_app; right; exact Hy).
      reflexivity.
Qed.

End ValRec.

(* ---- the fsm twins: same traversal, fsm load ---- *)
Section ValFsm.
Variable HO : hops.

Lemma validate_rec_fsm_eq (ob : outboard HO) :
  (forall nd, load_fsm HO ob nd = load_sync HO ob nd) ->
  forall fuel wd t filled d owed sh ir rs,
  validate_rec_fsm HO fuel wd t filled ob d owed sh ir rs = validate_rec HO fuel wd t filled ob d owed sh ir rs.
Proof.
  intro Hl. induction fuel as [|f IH]; intros; [reflexivity|].
  cbn [validate_rec_fsm validate_rec]. rewrite Hl.
  change (yield_if_valid_fsm HO) with (yield_if_valid HO).
  destruct (r_is_empty rs); [reflexivity|].
  destruct (leaf_byte_ranges3 t (subtract_block_size sh (tbs t))) as [[l m] r].
  destruct (negb (is_relevant_for_outboard t (subtract_block_size sh (tbs t)))); [reflexivity|].
  destruct (load_sync HO ob (subtract_block_size sh (tbs t))) as [[[lh rh]|]|k|]; try reflexivity.
  destruct (negb (bytes_eqb HO (parent_cv HO lh rh ir) owed)); [reflexivity|].
  destruct (Ranges.split rs (subtract_block_size sh (tbs t))) as [l_rs r_rs].
  destruct (is_leaf sh); [reflexivity|].
  destruct (left_child sh) as [lc|]; [|reflexivity].
  rewrite IH. destruct (validate_rec HO f wd t filled ob d lh lc false l_rs) as [ys1 r1].
  destruct r1; try reflexivity.
  destruct (right_descendant sh filled) as [rc|]; [|reflexivity].
  rewrite IH. reflexivity.
Qed.

Lemma valid_ranges_fsm_eq (ob : outboard HO) d q :
  (forall nd, load_fsm HO ob nd = load_sync HO ob nd) ->
  valid_ranges_fsm HO ob d q = valid_ranges HO ob d q.
Proof.
  intro Hl. unfold valid_ranges_fsm, valid_ranges.
  destruct (blocks (ob_tree ob) =? 1); [reflexivity|].
  destruct (shifted (ob_tree ob)) as [root filled]. now apply validate_rec_fsm_eq.
Qed.

Lemma valid_outboard_ranges_fsm_eq (ob : outboard HO) q :
  (forall nd, load_fsm HO ob nd = load_sync HO ob nd) ->
  valid_outboard_ranges_fsm HO ob q = valid_outboard_ranges HO ob q.
Proof.
  intro Hl. unfold valid_outboard_ranges_fsm, valid_outboard_ranges.
  destruct (blocks (ob_tree ob) =? 1); [reflexivity|].
  destruct (shifted (ob_tree ob)) as [root filled]. now apply validate_rec_fsm_eq.
Qed.
End ValFsm.
