(* Generic facts about [loop2] / [run_iter]: an iterator run is characterised by its trace. *)
From BaoV Require Import Model.Iter.
From Coq Require Import Lia.
Arguments N.add : simpl never.
Arguments N.sub : simpl never.
Arguments N.mul : simpl never.
Arguments N.pow : simpl never.

Section Run.
Context {S A : Type} (next : S -> option (A * S)).

(* [steps st l st']: calling next repeatedly from st yields the items l and ends in state st' *)
Inductive steps : S -> list A -> S -> Prop :=
| steps_nil st : steps st [] st
| steps_cons st a st1 l st' : next st = Some (a, st1) -> steps st1 l st' -> steps st (a :: l) st'.

(* complete trace: the iterator yields exactly l and then None *)
Definition trace (st : S) (l : list A) : Prop := exists st', steps st l st' /\ next st' = None.

Lemma steps_app st l1 st1 l2 st2 : steps st l1 st1 -> steps st1 l2 st2 -> steps st (l1 ++ l2) st2.
Proof.
  induction 1 as [|st a st1' l st' Hn _ IH]; intro H2; cbn [app]; [assumption|].
  econstructor; [exact Hn|]. now apply IH.
Qed.

Lemma steps_split st l1 l2 st2 : steps st (l1 ++ l2) st2 -> exists st1, steps st l1 st1 /\ steps st1 l2 st2.
Proof.
  revert st. induction l1 as [|a l1 IH]; intros st H; cbn [app] in H.
  - exists st. split; [constructor|assumption].
  - inversion H as [|? ? st1 ? ? Hn Hs]; subst. destruct (IH _ Hs) as (st1' & H1 & H2).
    exists st1'. split; [econstructor; eauto|assumption].
Qed.

Lemma steps_det st l st1 st2 : steps st l st1 -> steps st l st2 -> st1 = st2.
Proof.
  intro H. revert st2. induction H as [|st a st1' l st' Hn _ IH]; intros st2 H2.
  - now inversion H2.
  - inversion H2 as [|? ? st1'' ? ? Hn' Hs]; subst. rewrite Hn in Hn'. injection Hn' as <-. now apply IH.
Qed.

Lemma trace_nil st : next st = None -> trace st [].
Proof. intro H. exists st. split; [constructor|assumption]. Qed.

Lemma trace_cons st a st1 l : next st = Some (a, st1) -> trace st1 l -> trace st (a :: l).
Proof. intros Hn (st' & Hs & He). exists st'. split; [econstructor; eauto|assumption]. Qed.

Lemma trace_app st l1 st1 l2 : steps st l1 st1 -> trace st1 l2 -> trace st (l1 ++ l2).
Proof. intros H1 (st' & H2 & He). exists st'. split; [eapply steps_app; eauto|assumption]. Qed.

Definition rstep (sa : S * list A) : (S * list A) + list A :=
  match next (fst sa) with
  | None => inr (rev (snd sa))
  | Some (a, st') => inl (st', a :: snd sa)
  end.

Lemma run_iter_unfold st :
  run_iter next st = match loop2 LOOP_DEPTH rstep (st, []) with inr l => l | inl sa => rev (snd sa) end.
Proof. reflexivity. Qed.

Definition len (l : list A) : N := N.of_nat (length l).

Lemma len_app l1 l2 : len (l1 ++ l2) = len l1 + len l2.
Proof. unfold len. rewrite app_length. lia. Qed.

Lemma split_at (l : list A) (k : N) : k <= len l -> exists l1 l2, l = l1 ++ l2 /\ len l1 = k.
Proof.
  intro H. exists (firstn (N.to_nat k) l), (skipn (N.to_nat k) l). split; [now rewrite firstn_skipn|].
  unfold len in *. rewrite firstn_length. lia.
Qed.

Lemma pow2_S d : 2 ^ N.of_nat (Datatypes.S d) = 2 ^ N.of_nat d + 2 ^ N.of_nat d.
Proof. rewrite Nat2N.inj_succ, N.pow_succ_r'. lia. Qed.

(* exactly 2^d steps *)
Lemma loop2_steps d : forall st l st' acc,
  steps st l st' -> len l = 2 ^ N.of_nat d -> loop2 d rstep (st, acc) = inl (st', rev l ++ acc).
Proof.
  induction d as [|d IH]; intros st l st' acc Hs Hl.
  - cbn [loop2]. change (2 ^ N.of_nat 0) with 1 in Hl.
    destruct l as [|a [|b l]]; unfold len in Hl; cbn [length] in Hl; try lia.
    inversion Hs as [|? ? st1 ? ? Hn Hs']; subst. inversion Hs'; subst.
    unfold rstep. cbn [fst snd]. rewrite Hn. reflexivity.
  - rewrite pow2_S in Hl.
    destruct (split_at l (2 ^ N.of_nat d)) as (l1 & l2 & -> & Hl1); [lia|].
    rewrite len_app in Hl. assert (Hl2 : len l2 = 2 ^ N.of_nat d) by lia.
    apply steps_split in Hs. destruct Hs as (st1 & H1 & H2).
    cbn [loop2]. rewrite (IH _ _ _ acc H1 Hl1). rewrite (IH _ _ _ _ H2 Hl2).
    now rewrite rev_app_distr, <- app_assoc.
Qed.

(* fewer than 2^d steps to exhaustion *)
Lemma loop2_trace d : forall st l st' acc,
  steps st l st' -> next st' = None -> len l < 2 ^ N.of_nat d ->
  loop2 d rstep (st, acc) = inr (rev acc ++ l).
Proof.
  induction d as [|d IH]; intros st l st' acc Hs He Hl.
  - cbn [loop2]. change (2 ^ N.of_nat 0) with 1 in Hl.
    destruct l as [|a l]; unfold len in Hl; cbn [length] in Hl; try lia.
    inversion Hs; subst. unfold rstep. cbn [fst snd]. rewrite He. now rewrite app_nil_r.
  - rewrite pow2_S in Hl. cbn [loop2].
    destruct (N.lt_ge_cases (len l) (2 ^ N.of_nat d)) as [Lt|Ge].
    + now rewrite (IH _ _ _ acc Hs He Lt).
    + destruct (split_at l (2 ^ N.of_nat d)) as (l1 & l2 & -> & Hl1); [lia|].
      rewrite len_app in Hl. apply steps_split in Hs. destruct Hs as (st1 & H1 & H2).
      rewrite (loop2_steps d _ _ _ acc H1 Hl1).
      rewrite (IH _ _ _ _ H2 He) by lia.
      now rewrite rev_app_distr, rev_involutive, <- app_assoc.
Qed.

Theorem run_iter_trace st l : trace st l -> len l < 2 ^ 64 -> run_iter next st = l.
Proof.
  intros (st' & Hs & He) Hl. rewrite run_iter_unfold.
  rewrite (loop2_trace LOOP_DEPTH _ _ _ [] Hs He); [reflexivity|exact Hl].
Qed.

(* ---- converse: what a loop2 result says about the iterator ---- *)
Lemma loop2_inv d : forall st acc,
  match loop2 d rstep (st, acc) with
  | inl (st', acc') => exists l, steps st l st' /\ acc' = rev l ++ acc /\ len l = 2 ^ N.of_nat d
  | inr r => exists l st', steps st l st' /\ next st' = None /\ r = rev acc ++ l
  end.
Proof.
  induction d as [|d IH]; intros st acc.
  - cbn [loop2]. unfold rstep. cbn [fst snd]. destruct (next st) as [[a st1]|] eqn:E.
    + exists [a]. split; [econstructor; [exact E|constructor]|]. split; reflexivity.
    + exists [], st. split; [constructor|]. split; [assumption|now rewrite app_nil_r].
  - cbn [loop2]. specialize (IH st acc) as IH1.
    destruct (loop2 d rstep (st, acc)) as [[st1 acc1]|r].
    + destruct IH1 as (l1 & H1 & -> & Hl1). specialize (IH st1 (rev l1 ++ acc)) as IH2.
      destruct (loop2 d rstep (st1, rev l1 ++ acc)) as [[st2 acc2]|r].
      * destruct IH2 as (l2 & H2 & -> & Hl2). exists (l1 ++ l2).
        split; [eapply steps_app; eauto|]. split; [now rewrite rev_app_distr, <- app_assoc|].
        rewrite len_app, pow2_S. lia.
      * destruct IH2 as (l2 & st' & H2 & He & ->). exists (l1 ++ l2), st'.
        split; [eapply steps_app; eauto|]. split; [assumption|].
        now rewrite rev_app_distr, rev_involutive, <- app_assoc.
    + exact IH1.
Qed.

Theorem run_iter_inv st l : run_iter next st = l -> len l < 2 ^ 64 -> trace st l.
Proof.
  intros H Hl. rewrite run_iter_unfold in H. pose proof (loop2_inv LOOP_DEPTH st []) as I.
  destruct (loop2 LOOP_DEPTH rstep (st, [])) as [[st' acc']|r].
  - destruct I as (l' & Hs & -> & Hl'). cbn [snd] in H. rewrite app_nil_r, rev_involutive in H. subst l'.
    change (2 ^ N.of_nat LOOP_DEPTH) with (2 ^ 64) in Hl'. lia.
  - destruct I as (l' & st' & Hs & He & ->). cbn [rev app] in H. subst l'. exists st'. now split.
Qed.

End Run.

(* mapping the items of an iterator *)
Lemma steps_map {S A B} (next : S -> option (A * S)) (f : A -> B) st l st' :
  steps next st l st' ->
  steps (fun s => match next s with Some (c, s') => Some (f c, s') | None => None end) st (map f l) st'.
Proof.
  induction 1 as [|st a st1 l st' Hn _ IH]; cbn [map]; [constructor|].
  econstructor; [|exact IH]. now rewrite Hn.
Qed.
