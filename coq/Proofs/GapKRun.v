(* Gap audit (C01), part 2: the decoders dec_run / rd_run and the drivers decode_ranges / decode_ranges_fsm set up
   with the TRUE root hash of `data` but ANY CLAIMED SIZE size' (any block size, any well-formed query), on EVERY
   stream: every item yielded before the first error is a true item of the blob (true_item). *)
From BaoV Require Import Model.Fsm Spec.HashAssm Spec.EncSpec Spec.RangeSpec Spec.PlanSpec Spec.PTree Spec.SpecTree.
From BaoV Require Import Proofs.RangeTrunc.
From BaoV Require Import Proofs.DecLoop Proofs.DecHash Proofs.DecForest Proofs.DecRanges Proofs.DecTheorems.
From BaoV Require Import Proofs.BridgeBase Proofs.BridgeTree Proofs.BridgePlan Proofs.BridgeLeaves Proofs.PlanBase.
From BaoV Require Import Proofs.SizeHash Proofs.SizeDec Proofs.SizeMain Proofs.E2ERanges Proofs.GapTarget Proofs.GapPairs.
From BaoV Require Import Proofs.GapKInv.
From Coq Require Import Lia Arith.
Open Scope N_scope.

Section TrueItem.
Variable HO : hops.
Notation bytes := (bytes HO).
Notation item := (item HO).

(* what is guaranteed of an item yielded by a decoder that knows the true root hash of `data` and was told the size
   size':
   - a leaf carries the bytes of the node [s,e) of the TRUE tree at the true offset s * 1024 (so it lies inside the
     blob and is not empty unless the blob is); the claimed node on the same path starts at the same chunk s and
     has the same byte length in the claimed geometry;
   - a parent, yielded under the id nd of the node [a',e') of the CLAIMED tree, carries the pair of the node [a,e)
     of the TRUE tree reached by the same path, i.e. the true pair of the node a + next_pow2 (e - a) / 2 - 1 *)
Definition true_item (data : bytes) (size' : N) (i : item) : Prop :=
  match i with
  | ILeaf off d =>
      exists s e e', same_path (nchunks size') (nchunks (blen HO data)) s e' s e /\
        off = s * 1024 /\ s < e /\ e <= nchunks (blen HO data) /\
        d = chunk_bytes HO data s e /\ d = slice HO off (blen HO d) data /\
        off + blen HO d <= blen HO data /\ (blen HO data = 0 \/ 0 < blen HO d) /\
        blen HO d = span_bytes size' s e'
  | IParent nd l r =>
      exists a' e' a e, same_path (nchunks size') (nchunks (blen HO data)) a' e' a e /\
        2 <= e' - a' /\ 2 <= e - a /\
        nd = a' + next_pow2 (e' - a') / 2 - 1 /\
        l = cv HO data a (a + next_pow2 (e - a) / 2) false /\
        r = cv HO data (a + next_pow2 (e - a) / 2) e false /\
        (l, r) = true_pair HO data (a + next_pow2 (e - a) / 2 - 1)
  end.

Lemma take_blen_take : forall L (x : bytes), take HO (blen HO (take HO L x)) x = take HO L x.
Proof.
  intros L x. unfold take, blen. rewrite firstn_length, Nat2N.id.
  destruct (Nat.min_spec (N.to_nat L) (length x)) as [[_ ->]|[Hle ->]]; [reflexivity|].
  rewrite !firstn_all2; [reflexivity|exact Hle|apply le_n].
Qed.

Lemma pair_is_true_pair : forall (data : bytes) a e, aligned (nchunks (blen HO data)) a e -> 2 <= e - a ->
  forall l r, l = cv HO data a (a + next_pow2 (e - a) / 2) false ->
              r = cv HO data (a + next_pow2 (e - a) / 2) e false ->
  (l, r) = true_pair HO data (a + next_pow2 (e - a) / 2 - 1).
Proof.
  intros data a e Hal H2.
  destruct (aligned_children _ a e Hal H2) as (_ & _ & G1 & G2 & G3).
  set (h := next_pow2 (e - a) / 2) in *.
  assert (E : (cv HO data a (a + h) false, cv HO data (a + h) e false) = true_pair HO data (a + h - 1)).
  { unfold true_pair, blob_chunks. cbv zeta. rewrite G3, G1, G2. reflexivity. }
  revert E. generalize (cv HO data a (a + h) false) (cv HO data (a + h) e false). intros cl cr E l r -> ->. exact E.
Qed.

Lemma good_item_true : forall (data data' : bytes) i,
  blen HO data <= 2 ^ 63 -> blen HO data' <= 2 ^ 63 ->
  good_item HO data data' i -> true_item data (blen HO data') i.
Proof.
  intros data data' i Hd Hd' G.
  pose proof (nchunks_bounds (blen HO data)) as (B1 & _).
  pose proof (nchunks_bounds (blen HO data')) as (B1' & _).
  destruct i as [nd l r|off d]; cbn [good_item true_item] in *.
  - destruct G as (a' & b' & a & b & Hsp & H2' & H2 & Hn & Hl & Hr).
    exists a', b', a, b. repeat (split; [assumption|]).
    destruct (same_path_aligned _ _ _ _ _ _ B1' B1 Hsp) as [_ Hal].
    apply pair_is_true_pair; assumption.
  - destruct G as (b' & a & b & Hsp & Hoff & Hdd & Hlen).
    destruct (same_path_aligned _ _ _ _ _ _ B1' B1 Hsp) as [Hal' Hal].
    destruct Hal as (Hab & HbN & _). destruct Hal' as (Hab' & _ & _).
    exists a, b, b'. split; [exact Hsp|]. split; [exact Hoff|]. split; [exact Hab|]. split; [exact HbN|].
    split; [exact Hdd|].
    assert (Ha : a = 0 \/ a * 1024 < blen HO data) by (apply nchunks_spec; lia).
    pose proof (blen_chunk_bytes HO data a b) as Lb. rewrite <- Hdd in Lb.
    split; [|split; [|split]].
    + rewrite Hdd at 1. rewrite Hdd at 1. rewrite Hoff. unfold chunk_bytes, slice. apply eq_sym, take_blen_take.
    + rewrite Hoff, Lb. lia.
    + rewrite Lb. destruct (N.eq_dec (blen HO data) 0) as [Z|NZ]; [left; exact Z|right]. lia.
    + rewrite Hlen. unfold span_bytes. lia.
Qed.
End TrueItem.

(* ---------- the state machines ---------- *)
Section Runs.
Variable HO : hops.
Notation bytes := (bytes HO).
Hypothesis HOK : hash_ok HO.

Lemma dec_run_items : forall it n stk (enc : bytes) plan ys o st,
  ends_within response_next it n -> N.of_nat n < 2 ^ 64 -> run_iter response_next it = plan ->
  dec_run HO (mkD HO it stk enc) = (ys, o, st) ->
  ys = r_items HO (dec_items HO (step_sync HO) plan stk enc).
Proof.
  intros it n stk enc plan ys o st He Hn Hp H.
  rewrite (dec_run_refines HO n _ _ _ He Hn) in H. rewrite Hp in H. clear Hp He.
  injection H as Hy _ _. symmetry. exact Hy.
Qed.

Lemma rd_run_items : forall it n stk (enc : bytes) root plan ys o st,
  ends_within response_next it n -> N.of_nat n < 2 ^ 64 -> run_iter response_next it = plan ->
  rd_run HO (mkR HO it stk enc root) = (ys, o, st) ->
  ys = r_items HO (dec_items HO (step_fsm HO) plan stk enc).
Proof.
  intros it n stk enc root plan ys o st He Hn Hp H.
  rewrite (rd_run_refines HO n _ _ _ _ He Hn) in H. rewrite Hp in H. clear Hp He.
  injection H as Hy _ _. symmetry. exact Hy.
Qed.

Variable data : bytes.
Variable data' : bytes.      (* any blob of the claimed size *)
Variables (bs : N) (q : ranges).
Hypothesis Hdata : blen HO data <= 2 ^ 63.
Hypothesis Hdata' : blen HO data' <= 2 ^ 63.
Hypothesis Hwf : wf_ranges q = true.

Notation size' := (blen HO data').

(* the items of the plan decoders over the claimed plan, from the true root value *)
Lemma claimed_plan_items : forall step, step_ok2 HO step -> forall plan root (stream : bytes),
  plan = pre_plan size' 0 bs (truncate_ranges q size') -> root = root_hash HO data ->
  Forall (true_item HO data size') (r_items HO (dec_items HO step plan [root] stream)).
Proof.
  intros step Hok plan root stream Hplan Hroot.
  rewrite <- (bridge_plan HO data' bs q Hwf Hdata') in Hplan. rewrite spec_tree_unfold in Hplan.
  assert (Hr : root = cv HO data 0 (nchunks (blen HO data)) true) by (rewrite Hroot; reflexivity).
  clear Hroot. rewrite Hplan.
  eapply Forall_impl; [|exact (inv_top HO HOK step Hok data data' bs (sel q size') Hdata Hdata' 64 root stream Hr)].
  intros i G. apply good_item_true; assumption.
Qed.

Lemma any_size_sync_items : forall (stream : bytes) ys o st,
  dec_run HO (dec_new HO (root_hash HO data) (mkTree size' bs) stream q) = (ys, o, st) ->
  Forall (true_item HO data size') ys.
Proof.
  intros stream ys o st H.
  remember (root_hash HO data) as root eqn:Hroot.
  unfold dec_new in H. cbn [tsize] in H.
  destruct (response_ends size' bs (truncate_ranges q size') Hdata' (truncate_wf q size' Hwf))
    as (n & He & Hn & Hp).
  remember (pre_plan size' 0 bs (truncate_ranges q size')) as plan eqn:Hplan.
  rewrite (dec_run_items _ n _ _ plan ys o st He Hn Hp H).
  exact (claimed_plan_items (step_sync HO) (step_sync_ok2 HO HOK) plan root stream Hplan Hroot).
Qed.

Lemma any_size_fsm_items : forall (stream : bytes) ys o st,
  rd_run HO (rd_new HO (root_hash HO data) q (mkTree size' bs) stream) = (ys, o, st) ->
  Forall (true_item HO data size') ys.
Proof.
  intros stream ys o st H.
  remember (root_hash HO data) as root eqn:Hroot.
  unfold rd_new in H. cbn [tsize] in H. rewrite truncate_owned_eq in H.
  destruct (response_ends size' bs (truncate_ranges q size') Hdata' (truncate_wf q size' Hwf))
    as (n & He & Hn & Hp).
  remember (pre_plan size' 0 bs (truncate_ranges q size')) as plan eqn:Hplan.
  rewrite (rd_run_items _ n _ _ _ plan ys o st He Hn Hp H).
  exact (claimed_plan_items (step_fsm HO) (step_fsm_ok2 HO HOK) plan root stream Hplan Hroot).
Qed.

(* ---------- the drivers ---------- *)
Lemma claimed_ends' : exists n,
  ends_within response_next (response_new (mkTree size' bs) (truncate_ranges q size')) n /\ N.of_nat n < 2 ^ 64.
Proof.
  destruct (response_ends size' bs (truncate_ranges q size') Hdata' (truncate_wf q size' Hwf))
    as (n & He & Hn & _).
  exists n. split; assumption.
Qed.

Lemma any_size_decode_ranges_items : forall (stream target : bytes) (ob : outboard HO) res target' ob' st',
  ob_root ob = root_hash HO data -> ob_tree ob = mkTree size' bs ->
  decode_ranges HO stream q target ob = (res, target', ob', st') ->
  exists ys o, let a := apply_items HO ys target ob in
    res = ranges_result (a_res HO a) o /\ target' = a_target HO a /\ ob' = a_ob HO a /\
    Forall (true_item HO data size') ys.
Proof.
  intros stream target ob res target' ob' st' Hr Ht Hd.
  destruct (dec_run HO (dec_new HO (ob_root ob) (ob_tree ob) stream q)) as [[ys o] stf] eqn:Hrun.
  destruct claimed_ends' as (n & En & Bn).
  assert (En' : ends_within response_next
                  (response_new (ob_tree ob) (truncate_ranges q (tsize (ob_tree ob)))) n)
    by (rewrite Ht; exact En).
  destruct (decode_ranges_sound HO n stream q target ob ys o stf En' Bn Hrun) as (st1 & Hd').
  rewrite Hr, Ht in Hrun. pose proof (any_size_sync_items stream ys o stf Hrun) as G.
  rewrite Hd in Hd'. injection Hd' as -> -> -> _. exists ys, o. cbv zeta. auto.
Qed.

Lemma any_size_decode_ranges_fsm_items : forall (stream target : bytes) (ob : outboard HO) res target' ob' st',
  ob_root ob = root_hash HO data -> ob_tree ob = mkTree size' bs ->
  decode_ranges_fsm HO stream q target ob = (res, target', ob', st') ->
  exists ys o, let a := apply_items HO ys target ob in
    res = ranges_result (a_res HO a) o /\ target' = a_target HO a /\ ob' = a_ob HO a /\
    Forall (true_item HO data size') ys.
Proof.
  intros stream target ob res target' ob' st' Hr Ht Hd.
  destruct (rd_run HO (rd_new HO (ob_root ob) q (ob_tree ob) stream)) as [[ys o] stf] eqn:Hrun.
  destruct claimed_ends' as (n & En & Bn).
  assert (En' : ends_within response_next
                  (response_new (ob_tree ob) (truncate_ranges_owned q (tsize (ob_tree ob)))) n)
    by (rewrite Ht, truncate_owned_eq; exact En).
  destruct (decode_ranges_fsm_sound HO n stream q target ob ys o stf En' Bn Hrun) as (st1 & Hd').
  rewrite Hr, Ht in Hrun. pose proof (any_size_fsm_items stream ys o stf Hrun) as G.
  rewrite Hd in Hd'. injection Hd' as -> -> -> _. exists ys, o. cbv zeta. auto.
Qed.

End Runs.
