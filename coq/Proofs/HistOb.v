(* C07, part 1: pre-sized outboards (PreIO / PostIO / PreMem / PostMem with all slots present):
   every persisted node of the tree has its own 64-byte slot; loads do not fail; a save of a pair
   changes that node's slot and no other. *)
From BaoV Require Import Model.Sync Model.Fsm Spec.EncSpec Spec.HashAssm Props.C12.
From BaoV Require Import Proofs.NodeLevel Proofs.ObBase Proofs.ShapeBase Proofs.ShapeOffsets Proofs.ValSpec.
From Coq Require Import ZArith Lia Permutation.
Open Scope N_scope.
Arguments N.add : simpl never.
Arguments N.sub : simpl never.
Arguments N.mul : simpl never.
Arguments N.pow : simpl never.
Arguments N.div : simpl never.
Arguments N.modulo : simpl never.
Arguments N.min : simpl never.
Arguments N.max : simpl never.

(* ---- lists of options numbered by a sequence ---- *)
Lemma map_seq_bound {A} (f : A -> option N) l k :
  map f l = map (fun i => Some (N.of_nat i)) (seq 0 k) ->
  forall x, In x l -> exists o, f x = Some o /\ o < N.of_nat k.
Proof.
  intros H x Hx. assert (Hi : In (f x) (map f l)) by (apply in_map; exact Hx).
  rewrite H in Hi. apply in_map_iff in Hi. destruct Hi as (i & E & Hi). apply in_seq in Hi.
  exists (N.of_nat i). split; [now symmetry|lia].
Qed.

Lemma nodup_map_inj {A B} (f : A -> B) l : NoDup (map f l) ->
  forall x y, In x l -> In y l -> f x = f y -> x = y.
Proof.
  induction l as [|a l IH]; intros Hn x y Hx Hy E; [destruct Hx|].
  cbn [map] in Hn. inversion Hn as [|? ? Hna Hn']; subst.
  destruct Hx as [->|Hx], Hy as [->|Hy].
  - reflexivity.
  - exfalso. apply Hna. rewrite E. apply in_map. exact Hy.
  - exfalso. apply Hna. rewrite <- E. apply in_map. exact Hx.
  - now apply IH.
Qed.

Lemma map_seq_inj {A} (f : A -> option N) l k :
  map f l = map (fun i => Some (N.of_nat i)) (seq 0 k) ->
  forall x y, In x l -> In y l -> f x = f y -> x = y.
Proof.
  intro H. apply nodup_map_inj. rewrite H. apply FinFun.Injective_map_NoDup; [|apply seq_NoDup].
  intros i j E. injection E as E. lia.
Qed.

Section Slots.
Variable HO : hops.
Notation bytes := (bytes HO).
Notation hash := (hash HO).
Notation outboard := (outboard HO).

(* ---- 64-byte slots of a byte vector ---- *)
Lemma write_at_inside (d b : bytes) off : off + blen HO b <= blen HO d ->
  write_at HO d off b = take HO off d ++ b ++ drop HO (off + blen HO b) d.
Proof.
  intro H. unfold write_at. replace (blen HO d <? off) with false by (symmetry; apply N.ltb_ge; lia). reflexivity.
Qed.

Lemma write_slot_len (d b : bytes) o : o * 64 + 64 <= blen HO d -> blen HO b = 64 ->
  blen HO (write_at HO d (o * 64) b) = blen HO d.
Proof.
  intros H Hb. rewrite write_at_inside by lia. rewrite !blen_app, blen_take, blen_drop, Hb. lia.
Qed.

Lemma write_slot_same (d b : bytes) o : o * 64 + 64 <= blen HO d -> blen HO b = 64 ->
  slice HO (o * 64) 64 (write_at HO d (o * 64) b) = b.
Proof.
  intros H Hb. rewrite write_at_inside by lia. unfold slice.
  assert (Lt : blen HO (take HO (o * 64) d) = o * 64) by (rewrite blen_take; lia).
  rewrite <- Lt at 1. rewrite drop_app_exact. rewrite <- Hb. apply take_app_exact.
Qed.

Lemma write_slot_other (d b : bytes) o o' : o * 64 + 64 <= blen HO d -> blen HO b = 64 -> o' <> o ->
  slice HO (o' * 64) 64 (write_at HO d (o * 64) b) = slice HO (o' * 64) 64 d.
Proof.
  intros H Hb Hne. rewrite write_at_inside by lia. unfold slice. rewrite Hb.
  assert (Lt : blen HO (take HO (o * 64) d) = o * 64) by (rewrite blen_take; lia).
  destruct (N.lt_ge_cases o' o) as [L|L].
  - (* before the slot *)
    rewrite drop_app_le by lia. rewrite take_app_le by (rewrite blen_drop; lia).
    rewrite drop_take. rewrite take_take. rewrite N.min_l by lia. reflexivity.
  - (* after the slot *)
    assert (G : o * 64 + 64 <= o' * 64) by lia.
    rewrite app_assoc.
    assert (Lp : blen HO (take HO (o * 64) d ++ b) = o * 64 + 64) by (rewrite blen_app, Lt, Hb; reflexivity).
    replace (o' * 64) with (blen HO (take HO (o * 64) d ++ b) + (o' * 64 - (o * 64 + 64))) at 1 by lia.
    rewrite <- drop_drop, drop_app_exact, drop_drop. do 2 f_equal. lia.
Qed.

Lemma parse_combine (l r : hash) : length l = 32%nat -> parse_pair HO (l ++ r) = (l, r).
Proof.
  intro H. unfold parse_pair. rewrite <- H. f_equal.
  - rewrite firstn_app, Nat.sub_diag, firstn_all, firstn_O. apply app_nil_r.
  - rewrite skipn_app, Nat.sub_diag, skipn_all. reflexivity.
Qed.

(* ---- pre-sized outboards ---- *)
Definition hist_kind (k : ob_kind) : Prop := k = PreIO \/ k = PostIO \/ k = PreMem \/ k = PostMem.
Definition is_post (k : ob_kind) : bool := match k with PostIO | PostMem => true | _ => false end.

Record ob_sized (ob : outboard) (size bs : N) : Prop := mk_ob_sized {
  os_kind : hist_kind (ob_k ob);
  os_tree : ob_tree ob = mkTree size bs;
  os_len : blen HO (ob_data ob) = (sp_blocks size bs - 1) * 64 }.

(* the nodes that store a pair *)
Definition pnodes (size bs : N) : list N := filter (sp_persisted size bs) (sp_pre_nodes size bs).
Lemma pnodes_eq size bs : pnodes size bs = filter (sp_persisted size bs) (sp_pre_nodes size bs).
Proof. reflexivity. Qed.
Global Opaque pnodes.
Notation pnode size bs nd := (In nd (pnodes size bs)).

Variables (size bs : N).
Hypothesis Hsize : size <= 2 ^ 63.
Hypothesis Hbs : bs <= 10.
Let B := sp_blocks size bs.

Lemma pnode_post nd : pnode size bs nd <-> In nd (filter (sp_persisted size bs) (sp_post_nodes size bs)).
Proof.
  rewrite pnodes_eq, !filter_In. pose proof (C12_nodes_perm size bs Hsize) as P. split; intros [H1 H2]; split; try assumption.
  - eapply Permutation_in; eauto.
  - eapply Permutation_in; [apply Permutation_sym|]; eauto.
Qed.

Lemma pnode_level nd : pnode size bs nd -> bs <= level nd.
Proof.
  rewrite pnodes_eq, filter_In. intros [_ H]. unfold sp_persisted in H. rewrite level_is_sp_level.
  apply orb_true_iff in H. destruct H as [H|H].
  - apply N.ltb_lt in H. lia.
  - apply andb_true_iff in H. destruct H as [H _]. apply N.eqb_eq in H. lia.
Qed.

Lemma pnode_offset (ob : outboard) nd : ob_sized ob size bs -> pnode size bs nd ->
  exists o, ob_offset HO ob nd = Some o /\ o < B - 1.
Proof.
  intros [K T L] Hp. unfold ob_offset. rewrite T.
  pose proof (C12_pre_offsets size bs Hsize Hbs) as Pre. pose proof (C12_post_offsets size bs Hsize Hbs) as Post.
  assert (Hk : N.of_nat (N.to_nat (sp_blocks size bs - 1)) = B - 1) by (unfold B; lia).
  pose proof (proj1 (pnode_post nd) Hp) as Hp'. rewrite pnodes_eq in Hp.
  set (L1 := filter (sp_persisted size bs) (sp_pre_nodes size bs)) in *.
  set (L2 := filter (sp_persisted size bs) (sp_post_nodes size bs)) in *.
  set (k := N.to_nat (sp_blocks size bs - 1)) in *.
  pose proof (map_seq_bound (pre_order_offset (mkTree size bs)) L1 k Pre nd Hp) as (o1 & E1 & Ho1).
  pose proof (map_seq_bound (fun nd => option_map po_value (post_order_offset (mkTree size bs) nd)) L2 k Post nd Hp') as (o2 & E2 & Ho2).
  cbv beta in E2.
  destruct K as [K|[K|[K|K]]]; rewrite K; [exists o1|exists o2|exists o1|exists o2]; (split; [assumption|lia]).
Qed.

Lemma pnode_offset_inj (ob : outboard) nd nd' : ob_sized ob size bs -> pnode size bs nd -> pnode size bs nd' ->
  ob_offset HO ob nd = ob_offset HO ob nd' -> nd = nd'.
Proof.
  intros [K T L] Hp Hp'. unfold ob_offset. rewrite T.
  pose proof (C12_pre_offsets size bs Hsize Hbs) as Pre. pose proof (C12_post_offsets size bs Hsize Hbs) as Post.
  pose proof (proj1 (pnode_post nd) Hp) as Hq. pose proof (proj1 (pnode_post nd') Hp') as Hq'. rewrite pnodes_eq in Hp, Hp'.
  set (L1 := filter (sp_persisted size bs) (sp_pre_nodes size bs)) in *.
  set (L2 := filter (sp_persisted size bs) (sp_post_nodes size bs)) in *.
  set (k := N.to_nat (sp_blocks size bs - 1)) in *.
  pose proof (map_seq_inj (pre_order_offset (mkTree size bs)) L1 k Pre nd nd' Hp Hp') as I1.
  pose proof (map_seq_inj (fun nd => option_map po_value (post_order_offset (mkTree size bs) nd)) L2 k Post nd nd' Hq Hq') as I2.
  cbv beta in I2.
  destruct K as [K|[K|[K|K]]]; rewrite K; assumption.
Qed.

Lemma sized_load (ob : outboard) nd o : ob_sized ob size bs -> ob_offset HO ob nd = Some o -> o < B - 1 ->
  load_sync HO ob nd = Ok (Some (parse_pair HO (slice HO (o * 64) 64 (ob_data ob)))) /\
  load_fsm HO ob nd = Ok (Some (parse_pair HO (slice HO (o * 64) 64 (ob_data ob)))).
Proof.
  intros [K T L] Ho Hlt. unfold load_sync, load_fsm. rewrite Ho. fold B in L.
  assert (Hs : blen HO (slice HO (o * 64) 64 (ob_data ob)) = 64).
  { unfold slice. rewrite blen_take, blen_drop, L. lia. }
  assert (Hle : (o * 64 + 64 <=? blen HO (ob_data ob)) = true) by (apply N.leb_le; lia).
  destruct K as [K|[K|[K|K]]]; rewrite K; rewrite ?Hs, ?Hle; cbn [N.eqb Pos.eqb]; split; reflexivity.
Qed.

Lemma sized_load_none (ob : outboard) nd : ob_offset HO ob nd = None ->
  load_sync HO ob nd = Ok None /\ load_fsm HO ob nd = Ok None.
Proof. intro H. unfold load_sync, load_fsm. rewrite H. split; reflexivity. Qed.

Lemma sized_save (ob : outboard) nd o (l r : hash) : ob_sized ob size bs -> bs <= level nd ->
  ob_offset HO ob nd = Some o -> o < B - 1 ->
  save HO ob nd l r = Ok (mkOb (ob_k ob) (ob_root ob) (ob_tree ob) (write_at HO (ob_data ob) (o * 64) (combine_pair HO l r))).
Proof.
  intros [K T L] Hl Ho Hlt. unfold save. rewrite Ho. fold B in L.
  assert (Hle : (o * 64 + 64 <=? blen HO (ob_data ob)) = true) by (apply N.leb_le; lia).
  assert (Hlv : (level nd <? tbs (ob_tree ob)) = false) by (rewrite T; cbn [tbs]; apply N.ltb_ge; exact Hl).
  destruct K as [K|[K|[K|K]]]; rewrite K; rewrite ?Hlv, ?Hle; reflexivity.
Qed.

Lemma below_save (ob : outboard) nd (l r : hash) : ob_sized ob size bs -> level nd < bs ->
  save HO ob nd l r = Ok ob.
Proof.
  intros [K T L] Hl. unfold save, ob_offset. rewrite T. cbn [tbs].
  destruct (below_block size bs nd Hl) as [E1 E2]. rewrite E1, E2.
  assert (Hlv : (level nd <? bs) = true) by (apply N.ltb_lt; exact Hl).
  destruct K as [K|[K|[K|K]]]; rewrite K; rewrite ?Hlv; reflexivity.
Qed.

(* a save on a pre-sized outboard *)
Lemma save_pnode (ob : outboard) nd (l r : hash) : ob_sized ob size bs -> pnode size bs nd ->
  length l = 32%nat -> length r = 32%nat ->
  exists ob', save HO ob nd l r = Ok ob' /\ ob_sized ob' size bs /\ ob_root ob' = ob_root ob /\ ob_k ob' = ob_k ob /\
    stored_pair HO ob' nd = Some (l, r) /\
    forall nd', pnode size bs nd' -> nd' <> nd -> stored_pair HO ob' nd' = stored_pair HO ob nd'.
Proof.
  intros Hs Hp Ll Lr. destruct (pnode_offset ob nd Hs Hp) as (o & Ho & Hlt).
  pose proof (pnode_level nd Hp) as Hlv.
  rewrite (sized_save ob nd o l r Hs Hlv Ho Hlt).
  set (ob' := mkOb (ob_k ob) (ob_root ob) (ob_tree ob) (write_at HO (ob_data ob) (o * 64) (combine_pair HO l r))).
  pose proof Hs as [K T L]. fold B in L.
  assert (Hb : blen HO (combine_pair HO l r) = 64).
  { unfold combine_pair, blen. rewrite app_length, Ll, Lr. reflexivity. }
  assert (Hin : o * 64 + 64 <= blen HO (ob_data ob)) by lia.
  assert (Hs' : ob_sized ob' size bs).
  { constructor; cbn [ob_k ob_tree ob_data ob']; [exact K|exact T|]. rewrite write_slot_len by assumption. exact L. }
  assert (Hoff : forall x, ob_offset HO ob' x = ob_offset HO ob x) by reflexivity.
  exists ob'. split; [reflexivity|]. split; [exact Hs'|]. split; [reflexivity|]. split; [reflexivity|]. split.
  - unfold stored_pair. rewrite (proj1 (sized_load ob' nd o Hs' (eq_trans (Hoff nd) Ho) Hlt)).
    cbn [ob_data ob']. rewrite write_slot_same by assumption. unfold combine_pair. now rewrite parse_combine.
  - intros nd' Hp' Hne. destruct (pnode_offset ob nd' Hs Hp') as (o' & Ho' & Hlt').
    unfold stored_pair.
    rewrite (proj1 (sized_load ob' nd' o' Hs' (eq_trans (Hoff nd') Ho') Hlt')).
    rewrite (proj1 (sized_load ob nd' o' Hs Ho' Hlt')).
    cbn [ob_data ob']. rewrite write_slot_other; [reflexivity|assumption|assumption|].
    intros ->. apply Hne. apply (pnode_offset_inj ob nd' nd Hs Hp' Hp). congruence.
Qed.

(* every load of a tree node succeeds, sync and fsm alike *)
Lemma sized_loads (ob : outboard) nd : ob_sized ob size bs -> In nd (sp_pre_nodes size bs) ->
  (exists x, load_sync HO ob nd = Ok x) /\ load_fsm HO ob nd = load_sync HO ob nd.
Proof.
  intros Hs Hin. destruct (sp_persisted size bs nd) eqn:Ep.
  - assert (Hp : pnode size bs nd) by (rewrite pnodes_eq; apply filter_In; now split).
    destruct (pnode_offset ob nd Hs Hp) as (o & Ho & Hlt).
    destruct (sized_load ob nd o Hs Ho Hlt) as [E1 E2]. rewrite E1, E2. split; [eexists; reflexivity|reflexivity].
  - assert (Ho : ob_offset HO ob nd = None).
    { pose proof Hs as [K T L]. unfold ob_offset. rewrite T.
      pose proof (C12_pre_none size bs nd Hsize Hbs Hin Ep) as N1.
      assert (Hin' : In nd (sp_post_nodes size bs)) by (eapply Permutation_in; [apply (C12_nodes_perm size bs Hsize)|exact Hin]).
      pose proof (C12_post_none size bs nd Hsize Hbs Hin' Ep) as N2.
      destruct K as [K|[K|[K|K]]]; rewrite K; assumption. }
    destruct (sized_load_none ob nd Ho) as [E1 E2]. rewrite E1, E2. split; [eexists; reflexivity|reflexivity].
Qed.

End Slots.
Notation pnode size bs nd := (In nd (pnodes size bs)).
