(* Gap C08 (decoding into stores): decode_ranges of sync.rs and of fsm.rs, run on EVERY stream against any target and
   any outboard carrying the blob's root and tree, return the same result, the same target bytes and the same outboard. *)
From BaoV Require Import Model.Sync Model.Fsm Spec.RangeSpec Spec.PlanSpec Spec.EncSpec Spec.HashAssm.
From BaoV Require Import Proofs.RangeBase Proofs.RangeTrunc.
From BaoV Require Import Proofs.DecLoop Proofs.DecHash Proofs.DecForest Proofs.DecConst Proofs.DecRanges Proofs.DecTheorems.
From BaoV Require Import Proofs.E2EGlue Proofs.E2EDecode Proofs.E2ERanges Proofs.E2EMisc Proofs.FinalAgree.
From Coq Require Import Lia Arith.
Open Scope N_scope.

Theorem decode_ranges_agree : forall (HO : hops), hash_ok HO ->
  forall (data : bytes HO) (bs : N) (q : ranges),
  blen HO data <= 2 ^ 63 -> bs <= 10 -> wf_ranges q = true ->
  forall (stream target : bytes HO) (ob : outboard HO),
  ob_root ob = root_hash HO data -> ob_tree ob = mkTree (blen HO data) bs ->
  exists (r : res dec_err unit) (target' : bytes HO) (ob' : outboard HO) st1 st2,
    decode_ranges HO stream q target ob = (r, target', ob', st1) /\
    decode_ranges_fsm HO stream q target ob = (r, target', ob', st2).
Proof.
  intros HO HOK data bs q Hsize Hbs Hwf stream target ob Hr Ht.
  pose proof (response_ends_within (blen HO data) bs (truncate_ranges q (blen HO data)) Hsize Hbs
                (truncate_wf q (blen HO data) Hwf)) as He. cbv zeta in He.
  set (n := length (pre_plan (blen HO data) 0 bs (truncate_ranges q (blen HO data)))) in He.
  clearbody n. destruct He as [En Bn].
  destruct (dec_run HO (dec_new HO (ob_root ob) (ob_tree ob) stream q)) as [[ys1 o1] s1] eqn:R1.
  destruct (rd_run HO (rd_new HO (ob_root ob) q (ob_tree ob) stream)) as [[ys2 o2] s2] eqn:R2.
  assert (E1 : ends_within response_next (response_new (ob_tree ob) (truncate_ranges q (tsize (ob_tree ob)))) n).
  { rewrite Ht. exact En. }
  assert (E2 : ends_within response_next (response_new (ob_tree ob) (truncate_ranges_owned q (tsize (ob_tree ob)))) n).
  { rewrite truncate_owned_eq, Ht. exact En. }
  destruct (decode_ranges_sound HO n stream q target ob ys1 o1 s1 E1 Bn R1) as (st1 & D1).
  destruct (decode_ranges_fsm_sound HO n stream q target ob ys2 o2 s2 E2 Bn R2) as (st2 & D2).
  rewrite Hr, Ht in R1, R2.
  destruct (c08_decode_agree HO HOK data bs q Hsize Hbs Hwf stream ys1 o1 s1 ys2 o2 s2 R1 R2) as [<- <-].
  cbv zeta in D1, D2.
  eexists _, _, _, st1, st2. split; [exact D1|exact D2].
Qed.
