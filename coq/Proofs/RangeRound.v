(* C17: rounding helpers of src/io/mod.rs *)
From BaoV Require Import Spec.RangeSpec Proofs.RangeBase Proofs.RangeUnion.
From Coq Require Import Lia Arith PeanoNat ZArith ZifyN ZifyNat ZifyBool.

(* ---- division arithmetic ---- *)
Definition cdiv (e D : N) := e / D + (if e mod D =? 0 then 0 else 1).

Lemma dm x D : 0 < D -> exists q r, x = q * D + r /\ r < D /\ x / D = q /\ x mod D = r.
Proof.
  intro H. exists (x / D), (x mod D). repeat split.
  - rewrite N.mul_comm. apply N.div_mod. lia.
  - apply N.mod_lt. lia.
Qed.

Lemma div_iff x D g : 0 < D -> (x / D = g <-> g * D <= x < (g + 1) * D).
Proof.
  intro H. destruct (dm x D H) as (q & r & E & Hr & Eq & _). rewrite Eq. split.
  - intros <-. nia.
  - intros [H1 H2]. nia.
Qed.
Lemma cdiv_iff e D g : 0 < D -> (g < cdiv e D <-> g * D < e).
Proof.
  intro H. unfold cdiv. destruct (dm e D H) as (q & r & E & Hr & Eq & Er). rewrite Eq, Er.
  destruct (r =? 0) eqn:E0.
  - apply N.eqb_eq in E0. split; nia.
  - apply N.eqb_neq in E0. split; nia.
Qed.
Lemma cdiv_le e D g : 0 < D -> (cdiv e D <= g <-> e <= g * D).
Proof. intro H. pose proof (cdiv_iff e D g H). lia. Qed.
Lemma div_le_iff x D g : 0 < D -> (g <= x / D <-> g * D <= x).
Proof. intro H. destruct (dm x D H) as (q & r & E & Hr & Eq & _). rewrite Eq. split; nia. Qed.
Lemma div_lt_iff x D g : 0 < D -> (x / D < g <-> x < g * D).
Proof. intro H. pose proof (div_le_iff x D g H). lia. Qed.
Lemma div_mul_le x D : 0 < D -> x / D * D <= x.
Proof. intro H. apply div_le_iff; [assumption | lia]. Qed.
Lemma div_mul_div x D : 0 < D -> x / D * D / D = x / D.
Proof. intro H. apply N.div_mul. lia. Qed.
Lemma cdiv_mul_lt e D : 0 < D -> cdiv e D * D < e + D.
Proof.
  intro H. unfold cdiv. destruct (dm e D H) as (q & r & E & Hr & Eq & Er). rewrite Eq, Er.
  destruct (r =? 0) eqn:E0.
  - apply N.eqb_eq in E0. nia.
  - apply N.eqb_neq in E0. nia.
Qed.
Lemma cdiv_mul_ge e D : 0 < D -> e <= cdiv e D * D.
Proof. intro H. apply cdiv_le; [assumption | lia]. Qed.
Lemma cdiv_alt v D : 0 < D -> (v + D - 1) / D = cdiv v D.
Proof.
  intro H. apply div_iff; [assumption|].
  unfold cdiv. destruct (dm v D H) as (q & r & E & Hr & Eq & Er). rewrite Eq, Er.
  destruct (r =? 0) eqn:E0.
  - apply N.eqb_eq in E0. nia.
  - apply N.eqb_neq in E0. nia.
Qed.

(* a range [s, e) rounded outwards to blocks of D *)
Lemma round_out s e D g :
  0 < D -> s < e -> ((s / D <= g /\ g < cdiv e D) <-> exists b, (s <= b /\ b < e) /\ b / D = g).
Proof.
  intros HD Hse. split.
  - intros [H1 H2]. apply cdiv_iff in H2; [|assumption]. exists (N.max s (g * D)). split; [lia|].
    apply div_iff; [assumption|]. split; [lia|].
    assert (s / D < g + 1) as H3 by lia. apply div_lt_iff in H3; [|assumption]. nia.
  - intros (b & [Hb1 Hb2] & Hg). apply div_iff in Hg; [|assumption]. split.
    + assert (s / D < g + 1) as H3; [|lia]. apply div_lt_iff; [assumption | lia].
    + apply cdiv_iff; [assumption | lia].
Qed.
Lemma round_out_from s D g :
  0 < D -> (s / D <= g <-> exists b, s <= b /\ b / D = g).
Proof.
  intros HD. split.
  - intros H1. exists (N.max s (g * D)). split; [lia|].
    apply div_iff; [assumption|]. split; [lia|].
    assert (s / D < g + 1) as H3 by lia. apply div_lt_iff in H3; [|assumption]. nia.
  - intros (b & Hb1 & Hg). apply div_iff in Hg; [|assumption].
    assert (s / D < g + 1) as H3; [|lia]. apply div_lt_iff; [assumption | lia].
Qed.

(* ---- the word-level helpers in arithmetic form ---- *)
Lemma pow2_pos bs : 0 < 2 ^ bs.
Proof. assert (2 ^ bs <> 0) by (apply N.pow_nonzero; lia). lia. Qed.

Lemma W64_pow : W64 = 2 ^ 64.
Proof. reflexivity. Qed.

Lemma W64_split bs : bs <= 64 -> W64 = 2 ^ (64 - bs) * 2 ^ bs.
Proof. intro H. rewrite <- N.pow_add_r. rewrite W64_pow. f_equal. lia. Qed.

Lemma mask_ones bs : N.shiftl 1 bs - 1 = N.ones bs.
Proof. unfold N.ones. now rewrite N.sub_1_r. Qed.

Lemma b2n_part x : b2n (negb (x =? 0)) = if x =? 0 then 0 else 1.
Proof. destruct (x =? 0); reflexivity. Qed.

Lemma chunk_group_start_eq s bs : chunk_group_start s bs = s / 2 ^ bs * 2 ^ bs.
Proof. unfold chunk_group_start. now rewrite N.shiftl_mul_pow2, N.shiftr_div_pow2. Qed.

Lemma chunk_group_end_w_eq e bs : chunk_group_end_w e bs = (cdiv e (2 ^ bs) * 2 ^ bs) mod W64.
Proof.
  unfold chunk_group_end_w, shl64, cdiv.
  rewrite mask_ones, N.land_ones, b2n_part, N.shiftl_mul_pow2, N.shiftr_div_pow2. reflexivity.
Qed.

Lemma cdiv_guard e bs : bs <= 64 -> e <= W64 - 2 ^ bs -> cdiv e (2 ^ bs) * 2 ^ bs <= W64 - 2 ^ bs.
Proof.
  intros Hbs He. pose proof (pow2_pos bs) as HD. pose proof (W64_split bs Hbs) as HW.
  pose proof (pow2_pos (64 - bs)) as HD'.
  set (D := 2 ^ bs) in *. set (M := 2 ^ (64 - bs)) in *.
  assert (HM : (M - 1) * D = W64 - D) by (rewrite N.mul_sub_distr_r; lia).
  assert (H : cdiv e D <= M - 1) by (apply cdiv_le; [assumption | rewrite HM; exact He]).
  apply (N.mul_le_mono_r _ _ D) in H. rewrite HM in H. exact H.
Qed.

Lemma chunk_group_end_w_ok e bs :
  bs <= 64 -> e <= W64 - 2 ^ bs -> chunk_group_end_w e bs = cdiv e (2 ^ bs) * 2 ^ bs.
Proof.
  intros Hbs He. rewrite chunk_group_end_w_eq. apply N.mod_small.
  pose proof (cdiv_guard e bs Hbs He). pose proof (pow2_pos bs). unfold W64 in *. lia.
Qed.

Lemma full_chunks_eq s : full_chunks s = s / 1024.
Proof. unfold full_chunks. now rewrite N.shiftr_div_pow2. Qed.
Lemma chunks_eq e : chunks e = cdiv e 1024.
Proof.
  unfold chunks, cdiv. change 1023 with (N.ones 10).
  rewrite N.land_ones, b2n_part, N.shiftr_div_pow2. reflexivity.
Qed.

Lemma fcg_floor_eq e bs : e < W64 -> fcg_floor e bs = e / 2 ^ bs * 2 ^ bs.
Proof.
  intro He. unfold fcg_floor, shl64. rewrite N.shiftl_mul_pow2, N.shiftr_div_pow2.
  apply N.mod_small. pose proof (div_mul_le e (2 ^ bs) (pow2_pos bs)). lia.
Qed.

Lemma fcg_ceil_checked_eq v bs :
  v + 2 ^ bs < W64 -> fcg_ceil_checked v bs = Some (cdiv v (2 ^ bs) * 2 ^ bs).
Proof.
  intro Hv. unfold fcg_ceil_checked, shl64. rewrite !N.shiftl_mul_pow2, N.shiftr_div_pow2, N.mul_1_l.
  assert (E : (W64 <=? v + 2 ^ bs) = false) by (apply N.leb_gt; lia). rewrite E. f_equal.
  rewrite cdiv_alt by apply pow2_pos. apply N.mod_small.
  pose proof (cdiv_mul_lt v (2 ^ bs) (pow2_pos bs)). lia.
Qed.

Lemma fcg_ceil_wrapping_eq v bs :
  v + 2 ^ bs <= W64 -> fcg_ceil_wrapping v bs = (cdiv v (2 ^ bs) * 2 ^ bs) mod W64.
Proof.
  intro Hv. unfold fcg_ceil_wrapping, shl64, wrap64.
  rewrite !N.shiftl_mul_pow2, N.shiftr_div_pow2, N.mul_1_l.
  pose proof (pow2_pos bs) as HD. set (D := 2 ^ bs) in *.
  rewrite <- (cdiv_alt v D HD). do 3 f_equal.
  unfold W64, MAX64 in *. lia.
Qed.

Lemma fcg_ceil_wrapping_ok v bs :
  v + 2 ^ bs < W64 -> fcg_ceil_wrapping v bs = cdiv v (2 ^ bs) * 2 ^ bs.
Proof.
  intro Hv. rewrite fcg_ceil_wrapping_eq by lia. apply N.mod_small.
  pose proof (cdiv_mul_lt v (2 ^ bs) (pow2_pos bs)). lia.
Qed.

(* ---- generic rounding-up spec ---- *)
Lemma fold_round_spec (F : N * option N -> ranges) r (Q : N -> N -> Prop) :
  ssorted r ->
  (forall it, In it (r_iter r) -> wf_ranges (F it) = true) ->
  (forall it, In it (r_iter r) -> forall c, mem (F it) c = true <-> exists b, covers it b = true /\ Q b c) ->
  wf_ranges (fold_left (fun res it => r_union res (F it)) (r_iter r) []) = true /\
  forall c, mem (fold_left (fun res it => r_union res (F it)) (r_iter r) []) c = true
            <-> exists b, mem r b = true /\ Q b c.
Proof.
  intros Hs HW HM. destruct (fold_union_spec F (r_iter r) [] eq_refl HW) as [W M].
  split; [assumption|]. intro c. rewrite M. cbn [mem orb]. rewrite existsb_exists. split.
  - intros (it & Hit & Hc). apply (HM it Hit) in Hc. destruct Hc as (b & Hb & HQ).
    exists b. split; [|assumption]. rewrite mem_iter by assumption. apply existsb_exists. eauto.
  - intros (b & Hb & HQ). rewrite mem_iter in Hb by assumption. apply existsb_exists in Hb.
    destruct Hb as (it & Hit & Hb). exists it. split; [assumption|]. apply (HM it Hit). eauto.
Qed.

(* ---- round_up_to_chunks ---- *)
Definition Fc (it : N * option N) : ranges :=
  match it with
  | (s, None) => r_from_range_from (full_chunks s)
  | (s, Some e) => r_from_range (full_chunks s) (chunks e)
  end.

Lemma round_up_to_chunks_fold br :
  round_up_to_chunks br = fold_left (fun res it => r_union res (Fc it)) (r_iter br) [].
Proof. unfold round_up_to_chunks. apply fold_left_ext. intros a [s [e|]]; reflexivity. Qed.

Lemma allw_in r x : allw r -> In x r -> x < W64.
Proof. unfold allw. rewrite Forall_forall. auto. Qed.

Lemma round_up_to_chunks_spec br :
  wf_ranges br = true ->
  wf_ranges (round_up_to_chunks br) = true /\
  forall c, mem (round_up_to_chunks br) c = true <-> exists b, mem br b = true /\ b / 1024 = c.
Proof.
  intro Hwf. apply wf_iff in Hwf. destruct Hwf as [Hs Hw].
  rewrite round_up_to_chunks_fold.
  apply (fold_round_spec Fc br (fun b c => b / 1024 = c) Hs).
  - intros [s [e|]] Hit; cbn [Fc].
    + apply iter_in_some in Hit. destruct Hit as [Is Ie].
      pose proof (allw_in _ _ Hw Is). pose proof (allw_in _ _ Hw Ie).
      rewrite full_chunks_eq, chunks_eq. apply wf_from_range.
      * pose proof (div_mul_le s 1024 eq_refl). lia.
      * pose proof (cdiv_mul_lt e 1024 eq_refl). unfold W64 in *. lia.
    + apply iter_in_none in Hit. pose proof (allw_in _ _ Hw Hit).
      rewrite full_chunks_eq. apply wf_from_range_from. pose proof (div_mul_le s 1024 eq_refl). lia.
  - intros [s [e|]] Hit c; cbn [Fc covers].
    + pose proof (iter_lt _ _ _ Hs Hit) as Hse.
      rewrite mem_from_range, full_chunks_eq, chunks_eq, andb_true_iff, N.leb_le, N.ltb_lt.
      rewrite (round_out s e 1024 c eq_refl Hse).
      split; intros (b & Hb & Hc); exists b; (split; [|assumption]).
      * apply andb_true_iff. rewrite N.leb_le, N.ltb_lt. assumption.
      * apply andb_true_iff in Hb. rewrite N.leb_le, N.ltb_lt in Hb. assumption.
    + rewrite mem_from_range_from, full_chunks_eq, N.leb_le.
      rewrite (round_out_from s 1024 c eq_refl).
      split; intros (b & Hb & Hc); exists b; (split; [|assumption]).
      * now apply N.leb_le.
      * now apply N.leb_le in Hb.
Qed.

(* ---- round_up_to_chunks_groups ---- *)
Definition Fg (bs : N) (it : N * option N) : ranges :=
  match it with
  | (s, None) => r_from_range_from (chunk_group_start s bs)
  | (s, Some e) => r_from_range (chunk_group_start s bs) (chunk_group_end_w e bs)
  end.

Lemma round_up_to_chunks_groups_fold r bs :
  round_up_to_chunks_groups r bs = fold_left (fun res it => r_union res (Fg bs it)) (r_iter r) [].
Proof. unfold round_up_to_chunks_groups. apply fold_left_ext. intros a [s [e|]]; reflexivity. Qed.

Definition ends_ok (r : ranges) (bs : N) : Prop :=
  forall i e, Nat.odd i = true -> nth_error r i = Some e -> e <= 2 ^ 64 - 2 ^ bs.
Definition starts_ok (r : ranges) (bs : N) : Prop :=
  forall i s, Nat.even i = true -> nth_error r i = Some s -> s < 2 ^ 64 - 2 ^ bs.
Definition starts_ok_weak (r : ranges) (bs : N) : Prop :=
  forall i s, Nat.even i = true -> nth_error r i = Some s -> s <= 2 ^ 64 - 2 ^ bs.

Lemma round_up_to_chunks_groups_spec r bs :
  bs <= 10 -> wf_ranges r = true -> ends_ok r bs ->
  wf_ranges (round_up_to_chunks_groups r bs) = true /\
  forall c, mem (round_up_to_chunks_groups r bs) c = true
            <-> exists c', mem r c' = true /\ c / 2 ^ bs = c' / 2 ^ bs.
Proof.
  intros Hbs Hwf Hg. apply wf_iff in Hwf. destruct Hwf as [Hs Hw].
  rewrite round_up_to_chunks_groups_fold.
  pose proof (pow2_pos bs) as HD.
  apply (fold_round_spec (Fg bs) r (fun b c => c / 2 ^ bs = b / 2 ^ bs) Hs).
  - intros [s [e|]] Hit; cbn [Fg].
    + apply iter_in_some in Hit. destruct Hit as [Is Ie].
      pose proof (allw_in _ _ Hw Is). apply wf_from_range.
      * rewrite chunk_group_start_eq. pose proof (div_mul_le s _ HD). lia.
      * rewrite chunk_group_end_w_eq. apply N.mod_lt. discriminate.
    + apply iter_in_none in Hit. pose proof (allw_in _ _ Hw Hit).
      apply wf_from_range_from. rewrite chunk_group_start_eq. pose proof (div_mul_le s _ HD). lia.
  - intros [s [e|]] Hit c; cbn [Fg covers].
    + pose proof (iter_lt _ _ _ Hs Hit) as Hse.
      destruct (iter_pos_some _ _ _ Hit) as (i & Ei & _ & Hne).
      assert (He : e <= W64 - 2 ^ bs).
      { apply (Hg (S i)); [now rewrite Nat.odd_succ | assumption]. }
      rewrite mem_from_range, chunk_group_start_eq, chunk_group_end_w_ok by (assumption || lia).
      rewrite andb_true_iff, N.leb_le, N.ltb_lt.
      rewrite <- (div_le_iff c _ _ HD), <- (div_lt_iff c _ _ HD).
      rewrite (round_out s e _ (c / 2 ^ bs) HD Hse).
      split; intros (b & Hb & Hc); exists b; (split; [|now symmetry]).
      * apply andb_true_iff. rewrite N.leb_le, N.ltb_lt. assumption.
      * apply andb_true_iff in Hb. rewrite N.leb_le, N.ltb_lt in Hb. assumption.
    + rewrite mem_from_range_from, chunk_group_start_eq, N.leb_le.
      rewrite <- (div_le_iff c _ _ HD).
      rewrite (round_out_from s _ (c / 2 ^ bs) HD).
      split; intros (b & Hb & Hc); exists b; (split; [|now symmetry]).
      * now apply N.leb_le.
      * now apply N.leb_le in Hb.
Qed.
