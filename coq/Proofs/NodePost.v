(* L3: post_order_offset is the position in the explicit post-order enumeration. *)
From BaoV Require Import Model.Node Spec.NodeSpec Proofs.NodeLevel Proofs.NodeBits Proofs.NodeAlgebra.
From Coq Require Import ZArith Lia.
Open Scope N_scope.

Lemma of_nat_S_pow h : 2 ^ (N.of_nat (S h) + 1) = 2 * 2 ^ (N.of_nat h + 1).
Proof. rewrite Nat2N.inj_succ, <- N.add_1_r. apply pow2_succ. Qed.

Lemma of_nat_S_pow' h : 2 ^ N.of_nat (S h) = 2 ^ (N.of_nat h + 1).
Proof. now rewrite Nat2N.inj_succ, <- N.add_1_r. Qed.

Lemma complete_post_length h : forall off,
  length (complete_post h off) = N.to_nat (2 ^ (N.of_nat h + 1) - 1).
Proof.
  induction h as [|h IH]; intros off.
  - reflexivity.
  - cbn [complete_post]. rewrite !app_length, !IH. cbn [length].
    rewrite of_nat_S_pow. pose proof (pow2_pos (N.of_nat h + 1)). lia.
Qed.

Lemma post_enum_gen : forall (h : nat) c x,
  c * 2 ^ (N.of_nat h + 1) <= x -> x < (c + 1) * 2 ^ (N.of_nat h + 1) - 1 ->
  exists j, sp_post_offset x = (c * 2 ^ (N.of_nat h + 1) - popcount c) + j /\
            nth_error (complete_post h (c * 2 ^ (N.of_nat h + 1))) (N.to_nat j) = Some x.
Proof.
  induction h as [|h IH]; intros c x Hlo Hhi.
  - change (N.of_nat 0 + 1) with 1 in *. rewrite N.pow_1_r in *.
    assert (Ex : x = c * 2) by lia. exists 0. subst x. split; [|reflexivity].
    assert (D : c * 2 + 1 = (2 * c + 1) * 2 ^ 0) by (rewrite N.pow_0_r; lia).
    destruct (decomp_unique _ _ _ D) as [L K].
    unfold sp_post_offset, sp_node_start. rewrite <- level_is_sp_level, L, K.
    rewrite N.pow_0_r. change (2 ^ (0 + 1) - 2) with 0. lia.
  - rewrite of_nat_S_pow in *. cbn [complete_post]. rewrite of_nat_S_pow'.
    assert (HQ : 2 <= 2 ^ (N.of_nat h + 1)).
    { rewrite pow2_succ. pose proof (pow2_pos (N.of_nat h)). lia. }
    assert (Len : forall off, length (complete_post h off) = N.to_nat (2 ^ (N.of_nat h + 1) - 1))
      by (intros; apply complete_post_length).
    remember (2 ^ (N.of_nat h + 1)) as Q eqn:EQ in *.
    pose proof (popcount_le c) as Hc.
    replace (c * (2 * Q)) with (2 * c * Q) in * by lia.
    destruct (N.lt_trichotomy x (2 * c * Q + Q - 1)) as [Lt|[Eq|Gt]].
    + destruct (IH (2 * c) x) as (j & Hj & Hn); [lia|lia|].
      rewrite popcount_double in Hj.
      exists j. split; [exact Hj|].
      rewrite nth_error_app1; [exact Hn|]. apply nth_error_Some. now rewrite Hn.
    + exists (2 * Q - 2). split.
      * assert (D : x + 1 = (2 * c + 1) * 2 ^ (N.of_nat h + 1)) by (rewrite <- EQ; lia).
        destruct (decomp_unique _ _ _ D) as [L K].
        unfold sp_post_offset, sp_node_start. rewrite <- level_is_sp_level, L, K.
        rewrite (pow2_succ (N.of_nat h + 1)), <- EQ. nia.
      * rewrite nth_error_app2 by (rewrite Len; lia).
        rewrite nth_error_app2 by (rewrite !Len; lia).
        rewrite !Len.
        replace (N.to_nat (2 * Q - 2) - N.to_nat (Q - 1) - N.to_nat (Q - 1))%nat with 0%nat by lia.
        cbn [nth_error]. f_equal. lia.
    + destruct (IH (2 * c + 1) x) as (j & Hj & Hn); [lia|lia|].
      rewrite popcount_double1 in Hj.
      replace (2 * c * Q + Q) with ((2 * c + 1) * Q) by lia.
      exists (Q - 1 + j). split; [rewrite Hj; nia|].
      assert (Hlt : (N.to_nat j < N.to_nat (Q - 1))%nat).
      { rewrite <- (Len ((2 * c + 1) * Q)). apply nth_error_Some. now rewrite Hn. }
      rewrite nth_error_app2 by (rewrite Len; lia).
      rewrite Len. replace (N.to_nat (Q - 1 + j) - N.to_nat (Q - 1))%nat with (N.to_nat j) by lia.
      rewrite nth_error_app1 by (rewrite Len; exact Hlt). exact Hn.
Qed.

Lemma post_order_enum : forall (h : nat) x, (h <= 60)%nat -> x < 2 ^ (N.of_nat h + 1) - 1 ->
  nth_error (complete_post h 0) (N.to_nat (post_order_offset_node x)) = Some x.
Proof.
  intros h x Hh Hx.
  assert (X62 : x < 2 ^ 62).
  { assert (2 ^ (N.of_nat h + 1) <= 2 ^ 62) by (apply N.pow_le_mono_r; lia). lia. }
  rewrite post_order_offset_spec by assumption.
  destruct (post_enum_gen h 0 x) as (j & Hj & Hn); [lia|lia|].
  rewrite N.mul_0_l in Hj, Hn. cbn [popcount] in Hj.
  replace (sp_post_offset x) with j by lia. exact Hn.
Qed.
