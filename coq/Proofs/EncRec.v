(* encode_selected_rec / traverse_selected_rec (src/rec.rs, src/io/mixed.rs): the returned hash is the
   hash of the data whatever the query; the item-stream twin flattens to the byte version; and on the
   bytes of a chunk interval of at most one chunk group, with ranges related to the query by rs_ok,
   the emitted bytes are the honest encoding of the interval. *)
From BaoV Require Import Model.Fsm Spec.RangeSpec Spec.PlanSpec Spec.EncSpec Spec.HashAssm.
From BaoV Require Import Proofs.NodeLevel Proofs.NodeBits Proofs.RangeBase Proofs.RangeRound Proofs.RangeTrunc
  Proofs.PlanQuery Proofs.PlanRs.
From BaoV Require Import Proofs.BridgeBase Proofs.BridgeTree Proofs.BridgeGeom Proofs.BridgePlan Proofs.BridgeLeaves.
From Coq Require Import Lia Arith PeanoNat ZArith ZifyN ZifyNat ZifyBool.
Ltac Zify.zify_post_hook ::= Z.div_mod_to_equations.
Arguments N.add : simpl never.
Arguments N.sub : simpl never.
Arguments N.mul : simpl never.
Arguments N.pow : simpl never.
Arguments N.div : simpl never.
Arguments N.modulo : simpl never.
Arguments N.log2 : simpl never.
Arguments N.min : simpl never.
Arguments N.max : simpl never.

Lemma chunks0_eq len : len / 1024 + b2n (negb (len mod 1024 =? 0)) = (len + 1023) / 1024.
Proof. destruct (N.eqb_spec (len mod 1024) 0); cbn [negb b2n]; lia. Qed.

Lemma tz_pow2 k : trailing_zeros64 (2 ^ k) = k.
Proof.
  pose proof (pow2_pos k) as Hp.
  assert (E : 2 ^ k - 1 + 1 = (2 * 0 + 1) * 2 ^ k) by lia.
  destruct (decomp_unique _ _ _ E) as [L _]. rewrite level_is_sp_level in L. unfold sp_level in L.
  replace (2 ^ k - 1 + 1) with (2 ^ k) in L by lia. exact L.
Qed.

Section EncRec.
Variable HO : hops.
Notation bytes := (bytes HO).
Notation hash := (hash HO).
Notation item := (item HO).

(* ---- one-step unfoldings without pattern lets ---- *)
Lemma esr_eq f s (d : bytes) ir rs ml ed :
  encode_selected_rec HO (S f) s d ir rs ml ed =
    if blen HO d <=? 1024 then ((if ed && negb (r_is_empty rs) then d else []), hash_subtree HO s d ir)
    else
      let cap := next_pow2 ((blen HO d + 1023) / 1024) in
      let half := cap / 2 in
      let L := encode_selected_rec HO f s (take HO (half * 1024) d) false (fst (split_inner rs s (s + half))) ml ed in
      let R := encode_selected_rec HO f (s + half) (drop HO (half * 1024) d) false (snd (split_inner rs s (s + half))) ml ed in
      ((if negb (r_is_empty rs) && (negb (r_is_all rs) || (ml <=? trailing_zeros64 cap - 1)) then snd L ++ snd R else [])
         ++ fst L ++ fst R,
       parent_cv HO (snd L) (snd R) ir).
Proof.
  cbn [encode_selected_rec]. destruct (blen HO d <=? 1024); [reflexivity|].
  cbv zeta. rewrite chunks0_eq.
  destruct (split_inner rs s (s + next_pow2 ((blen HO d + 1023) / 1024) / 2)) as [l_rs r_rs]. cbn [fst snd].
  destruct (encode_selected_rec HO f s _ false l_rs ml ed) as [lb lh].
  destruct (encode_selected_rec HO f _ _ false r_rs ml ed) as [rb rh]. reflexivity.
Qed.

Lemma tsr_eq f s (d : bytes) ir rs ml ed :
  traverse_selected_rec HO (S f) s d ir rs ml ed =
    if blen HO d <=? 1024 then ((if ed && negb (r_is_empty rs) then [ILeaf (to_bytes s) d] else []), hash_subtree HO s d ir)
    else
      let cap := next_pow2 ((blen HO d + 1023) / 1024) in
      let half := cap / 2 in
      let L := traverse_selected_rec HO f s (take HO (half * 1024) d) false (fst (split_inner rs s (s + half))) ml ed in
      let R := traverse_selected_rec HO f (s + half) (drop HO (half * 1024) d) false (snd (split_inner rs s (s + half))) ml ed in
      ((if negb (r_is_empty rs) && (negb (r_is_all rs) || (ml <=? trailing_zeros64 cap - 1)) then [IParent 0 (snd L) (snd R)] else [])
         ++ fst L ++ fst R,
       parent_cv HO (snd L) (snd R) ir).
Proof.
  cbn [traverse_selected_rec]. destruct (blen HO d <=? 1024); [reflexivity|].
  cbv zeta. rewrite chunks0_eq.
  destruct (split_inner rs s (s + next_pow2 ((blen HO d + 1023) / 1024) / 2)) as [l_rs r_rs]. cbn [fst snd].
  destruct (traverse_selected_rec HO f s _ false l_rs ml ed) as [lb lh].
  destruct (traverse_selected_rec HO f _ _ false r_rs ml ed) as [rb rh]. reflexivity.
Qed.

(* ---- the hash does not depend on the query ---- *)
Lemma subtree_cv_small f s (d : bytes) ir : (blen HO d <=? 1024) = true ->
  subtree_cv HO (S f) s d ir = chunk_cv HO s d ir.
Proof. intro H. cbn [subtree_cv]. now rewrite H. Qed.
Lemma hash_subtree_small s (d : bytes) ir : (blen HO d <=? 1024) = true ->
  hash_subtree HO s d ir = chunk_cv HO s d ir.
Proof. intro H. unfold hash_subtree. change 64%nat with (S 63). now apply subtree_cv_small. Qed.

Lemma esr_snd : forall fuel s (d : bytes) ir rs ml ed,
  snd (encode_selected_rec HO fuel s d ir rs ml ed) = subtree_cv HO fuel s d ir.
Proof.
  induction fuel as [|f IH]; intros s d ir rs ml ed; [reflexivity|].
  rewrite esr_eq.
  destruct (blen HO d <=? 1024) eqn:E.
  - cbn [snd]. now rewrite hash_subtree_small, subtree_cv_small.
  - cbn [subtree_cv]. rewrite E. cbv zeta. cbn [snd]. now rewrite !IH.
Qed.

Lemma esr_hash s (d : bytes) ir rs ml ed :
  snd (encode_selected_rec HO REC_FUEL s d ir rs ml ed) = hash_subtree HO s d ir.
Proof. apply esr_snd. Qed.

(* ---- the item-stream twin ---- *)
Definition iflat (l : list item) : bytes := concat (map (item_bytes HO) l).
Lemma iflat_app l1 l2 : iflat (l1 ++ l2) = iflat l1 ++ iflat l2.
Proof. unfold iflat. now rewrite map_app, concat_app. Qed.
Lemma iflat_parent1 nd (l r : hash) : iflat [IParent nd l r] = l ++ r.
Proof. unfold iflat. cbn [map concat item_bytes]. apply app_nil_r. Qed.
Lemma iflat_flat l : iflat l = flat HO l.
Proof. reflexivity. Qed.

Lemma tsr_flat : forall fuel s (d : bytes) ir rs ml ed,
  encode_selected_rec HO fuel s d ir rs ml ed =
  (iflat (fst (traverse_selected_rec HO fuel s d ir rs ml ed)), snd (traverse_selected_rec HO fuel s d ir rs ml ed)).
Proof.
  induction fuel as [|f IH]; intros s d ir rs ml ed; [reflexivity|].
  rewrite esr_eq, tsr_eq.
  destruct (blen HO d <=? 1024).
  - cbn [fst snd]. destruct (ed && negb (r_is_empty rs)); [|reflexivity].
    unfold iflat. cbn [map concat item_bytes]. now rewrite app_nil_r.
  - cbv zeta. cbn [fst snd]. rewrite !IH. cbn [fst snd]. rewrite !iflat_app.
    destruct (negb (r_is_empty rs) && _); [|reflexivity].
    now rewrite iflat_parent1.
Qed.

(* ---- fuel independence and unfolding of the honest encoding ---- *)
Section Enc.
Variable data : bytes.
Variable bs : N.
Variable S0 : N -> bool.

Lemma enc_rec_fuel : forall (m : nat) f1 f2 a b,
  (m < f1)%nat -> (m < f2)%nat -> b - a <= 2 ^ N.of_nat m ->
  enc_rec HO f1 data bs S0 a b = enc_rec HO f2 data bs S0 a b.
Proof.
  induction m as [|m IH]; intros f1 f2 a b Hf1 Hf2 Hm;
    (destruct f1 as [|f1]; [lia|]); (destruct f2 as [|f2]; [lia|]); rewrite !enc_rec_unfold.
  - change (2 ^ N.of_nat 0) with 1 in Hm. apply N.leb_le in Hm. rewrite Hm. reflexivity.
  - destruct (negb (existsb S0 (chunk_range_list a b))); [reflexivity|].
    destruct (b - a <=? 1) eqn:E1; [reflexivity|]. apply N.leb_gt in E1.
    destruct (forallb S0 (chunk_range_list a b) && (next_pow2 (b - a) <=? 2 ^ bs)); [reflexivity|].
    rewrite of_nat_S in Hm.
    pose proof (half_bounds (b - a) (N.of_nat m) ltac:(lia) Hm) as (A1 & A2 & A3 & A4 & A5). cbv zeta in *.
    set (h := next_pow2 (b - a) / 2) in *.
    rewrite (IH f1 f2 a (a + h)) by lia. rewrite (IH f1 f2 (a + h) b) by lia. reflexivity.
Qed.

Definition ENC (a b : N) : list item := enc_rec HO 64 data bs S0 a b.

Lemma ENC_unfold a b : b - a <= 2 ^ 63 ->
  ENC a b =
    if negb (existsb S0 (chunk_range_list a b)) then []
    else if b - a <=? 1 then [ILeaf (a * 1024) (chunk_bytes HO data a b)]
    else
      if forallb S0 (chunk_range_list a b) && (next_pow2 (b - a) <=? 2 ^ bs) then [ILeaf (a * 1024) (chunk_bytes HO data a b)]
      else IParent (a + next_pow2 (b - a) / 2 - 1) (cv HO data a (a + next_pow2 (b - a) / 2) false) (cv HO data (a + next_pow2 (b - a) / 2) b false)
           :: ENC a (a + next_pow2 (b - a) / 2) ++ ENC (a + next_pow2 (b - a) / 2) b.
Proof.
  intro H. unfold ENC. change 64%nat with (S 63) at 1. rewrite enc_rec_unfold.
  destruct (negb (existsb S0 (chunk_range_list a b))); [reflexivity|].
  destruct (b - a <=? 1) eqn:E1; [reflexivity|]. apply N.leb_gt in E1.
  destruct (forallb S0 (chunk_range_list a b) && (next_pow2 (b - a) <=? 2 ^ bs)); [reflexivity|].
  pose proof (half_bounds (b - a) 62 ltac:(lia) H) as (A1 & A2 & A3 & A4 & A5). cbv zeta in *.
  set (h := next_pow2 (b - a) / 2) in *.
  rewrite (enc_rec_fuel 62 63 64 a (a + h)) by (change (N.of_nat 62) with 62; lia).
  rewrite (enc_rec_fuel 62 63 64 (a + h) b) by (change (N.of_nat 62) with 62; lia). reflexivity.
Qed.

Lemma ENC_none a b : existsb S0 (chunk_range_list a b) = false -> ENC a b = [].
Proof. intro H. unfold ENC. change 64%nat with (S 63). rewrite enc_rec_unfold, H. reflexivity. Qed.

Lemma ENC_all a b : a < b -> b - a <= 2 ^ bs -> forallb S0 (chunk_range_list a b) = true ->
  ENC a b = [ILeaf (a * 1024) (chunk_bytes HO data a b)].
Proof.
  intros Hab Hbs H. unfold ENC. change 64%nat with (S 63). rewrite enc_rec_unfold, H.
  assert (Ex : existsb S0 (chunk_range_list a b) = true).
  { apply existsb_exists. exists a. split; [apply crl_in; lia|]. rewrite forallb_forall in H. apply H. apply crl_in. lia. }
  rewrite Ex. cbn [negb andb].
  destruct (b - a <=? 1); [reflexivity|].
  assert (E : (next_pow2 (b - a) <=? 2 ^ bs) = true) by (apply N.leb_le; now apply np2_le). rewrite E. reflexivity.
Qed.

Lemma flat_leaf off (d : bytes) : flat HO [ILeaf off d] = d.
Proof. unfold flat. cbn [map concat item_bytes]. apply app_nil_r. Qed.
Lemma flat_app l1 l2 : flat HO (l1 ++ l2) = flat HO l1 ++ flat HO l2.
Proof. unfold flat. now rewrite map_app, concat_app. Qed.
Lemma flat_cons_parent nd (l r : hash) rest : flat HO (IParent nd l r :: rest) = l ++ r ++ flat HO rest.
Proof. unfold flat. cbn [map concat item_bytes]. now rewrite <- app_assoc. Qed.
End Enc.

(* ---- the group encoder against the honest encoding ---- *)
Section Group.
Variable data : bytes.
Variable bs : N.
Variable q : ranges.
Hypothesis Hwf : wf_ranges q = true.
Hypothesis Hsize : blen HO data <= 2 ^ 63.
Local Notation size := (blen HO data).
Local Notation nn := (nchunks (blen HO data)).
Local Notation q' := (truncate_ranges q (blen HO data)).
Local Notation Sel := (sel q (blen HO data)).

Lemma q'_sorted : ssorted q'.
Proof. pose proof (truncate_wf q size Hwf) as W. apply wf_iff in W. tauto. Qed.

Lemma rs_empty_sel rs a E rm : rs_ok q' rs a E rm ->
  a < E -> E <= nn -> (rm = true -> E = nn) -> (rm = false -> E < nn) ->
  r_is_empty rs = negb (existsb Sel (chunk_range_list a E)).
Proof.
  intros Hrs Hae HE H1 H2. rewrite (rs_ok_empty q' rs a E rm q'_sorted Hae Hrs). f_equal.
  rewrite (bridge_q_any q size a E rm Hwf ltac:(lia)).
  - destruct rm; [rewrite (H1 eq_refl)|]; reflexivity.
  - intro Erm. specialize (H2 Erm). lia.
Qed.

Lemma rs_all_sel rs a E rm : rs_ok q' rs a E rm ->
  a + 1 < E -> E <= nn -> (rm = true -> E = nn) -> (rm = false -> E < nn) ->
  r_is_all rs = forallb Sel (chunk_range_list a E).
Proof.
  intros Hrs Hae HE H1 H2. rewrite (rs_ok_all q' rs a E rm q'_sorted ltac:(lia) Hrs).
  rewrite (bridge_q_full q size a E rm Hwf).
  - destruct rm; [rewrite (H1 eq_refl)|]; reflexivity.
  - intro Erm. specialize (H1 Erm). lia.
  - intro Erm. specialize (H2 Erm). lia.
Qed.

Lemma esr_group : forall (m : nat) a E rm rs ir,
  rs_ok q' rs a E rm -> a < E -> E <= nn -> (rm = true -> E = nn) -> (rm = false -> E < nn) ->
  E - a <= 2 ^ N.of_nat m -> (m <= 63)%nat -> E - a <= 2 ^ bs ->
  fst (encode_selected_rec HO (S m) a (chunk_bytes HO data a E) ir rs bs true) = flat HO (ENC data bs Sel a E).
Proof.
  induction m as [|m IH]; intros a E rm rs ir Hrs Hae HE H1 H2 Hm Hm63 Hbs;
    pose proof (nchunks_bounds size) as (B1 & B2 & B3);
    assert (P63 : E - a <= 2 ^ 63) by (apply N.le_trans with (1 := Hm); apply pow2_le_mono; lia);
    rewrite esr_eq, ENC_unfold by lia; rewrite blen_chunk_bytes;
    rewrite <- (rs_empty_sel rs a E rm Hrs Hae HE H1 H2).
  - change (2 ^ N.of_nat 0) with 1 in Hm.
    assert (E1 : (N.min ((E - a) * 1024) (size - a * 1024) <=? 1024) = true) by (apply N.leb_le; lia).
    rewrite E1. cbn [fst andb]. destruct (r_is_empty rs); cbn [negb]; [reflexivity|].
    assert (E2 : (E - a <=? 1) = true) by (apply N.leb_le; lia). rewrite E2. now rewrite flat_leaf.
  - destruct (E - a <=? 1) eqn:E2.
    + apply N.leb_le in E2.
      assert (E1 : (N.min ((E - a) * 1024) (size - a * 1024) <=? 1024) = true) by (apply N.leb_le; lia).
      rewrite E1. cbn [fst andb]. destruct (r_is_empty rs); cbn [negb]; [reflexivity|]. now rewrite flat_leaf.
    + apply N.leb_gt in E2.
      assert (E1 : (N.min ((E - a) * 1024) (size - a * 1024) <=? 1024) = false) by (apply N.leb_gt; lia).
      rewrite E1. cbv zeta.
      assert (En : (N.min ((E - a) * 1024) (size - a * 1024) + 1023) / 1024 = E - a) by lia.
      rewrite En.
      destruct (np2_half (E - a) ltac:(lia)) as (k & Ek & Eh & K1 & K2).
      pose proof (pow2_ge1 k) as Hk1.
      rewrite of_nat_S in Hm.
      pose proof (half_bounds (E - a) (N.of_nat m) ltac:(lia) Hm) as (A1 & A2 & A3 & A4 & A5). cbv zeta in *.
      assert (Hcap : next_pow2 (E - a) <= 2 ^ bs) by now apply np2_le.
      rewrite Ek, tz_pow2.
      assert (Elvl : (bs <=? k + 1 - 1) = false).
      { apply N.leb_gt. rewrite Ek in Hcap. apply pow2_le_inv in Hcap. lia. }
      rewrite Elvl, orb_false_r. rewrite <- Ek.
      set (h := next_pow2 (E - a) / 2) in *.
      rewrite chunk_bytes_take', chunk_bytes_drop' by lia.
      destruct (split_inner rs a (a + h)) as [l_rs r_rs] eqn:Esp. cbn [fst snd].
      destruct (split_ok q' rs a (a + h) E rm l_rs r_rs Hrs ltac:(lia) ltac:(lia) Esp) as [Hl Hr].
      rewrite (IH a (a + h) false l_rs false Hl) by (try discriminate; try lia).
      rewrite (IH (a + h) E rm r_rs false Hr) by (try assumption; try lia).
      rewrite !esr_snd.
      rewrite (subtree_cv_rec HO data (S m) a (a + h) false) by lia.
      rewrite (subtree_cv_rec HO data (S m) (a + h) E false) by lia.
      assert (C1 : cv_rec HO (S m) data a (a + h) false = cv HO data a (a + h) false).
      { unfold cv. change 64%nat with (S 63). apply cv_rec_fuel; [lia|]. change (N.of_nat 63) with 63. lia. }
      assert (C2 : cv_rec HO (S m) data (a + h) E false = cv HO data (a + h) E false).
      { unfold cv. change 64%nat with (S 63). apply cv_rec_fuel; [lia|]. change (N.of_nat 63) with 63. lia. }
      rewrite C1, C2.
      rewrite (rs_all_sel rs a E rm Hrs ltac:(lia) HE H1 H2).
      destruct (r_is_empty rs) eqn:Eem; cbn [negb andb].
      * (* nothing selected: both halves empty *)
        assert (Ex : existsb Sel (chunk_range_list a E) = false).
        { pose proof (rs_empty_sel rs a E rm Hrs Hae HE H1 H2) as X. rewrite Eem in X. now destruct (existsb Sel (chunk_range_list a E)). }
        rewrite (crl_app a (a + h) E), existsb_app in Ex by lia. apply orb_false_iff in Ex. destruct Ex as [Ex1 Ex2].
        rewrite (ENC_none data bs Sel _ _ Ex1), (ENC_none data bs Sel _ _ Ex2). reflexivity.
      * assert (Ecap : (next_pow2 (E - a) <=? 2 ^ bs) = true) by (apply N.leb_le; exact Hcap). rewrite Ecap, andb_true_r.
        destruct (forallb Sel (chunk_range_list a E)) eqn:Eall; cbn [negb].
        -- rewrite flat_leaf.
           rewrite (crl_app a (a + h) E), forallb_app in Eall by lia. apply andb_true_iff in Eall. destruct Eall as [Ea1 Ea2].
           rewrite (ENC_all data bs Sel a (a + h)), (ENC_all data bs Sel (a + h) E) by (try assumption; lia).
           rewrite !flat_leaf. cbn [app]. symmetry. apply chunk_bytes_app; lia.
        -- rewrite flat_cons_parent, flat_app. now rewrite <- !app_assoc.
Qed.

(* the group encoder on the bytes of an interval of the blob: bytes and hash *)
Lemma esr_group_full a E rm rs ir :
  rs_ok q' rs a E rm -> a < E -> E <= nn -> (rm = true -> E = nn) -> (rm = false -> E < nn) ->
  E - a <= 2 ^ bs ->
  encode_selected_rec HO REC_FUEL a (chunk_bytes HO data a E) ir rs bs true
    = (flat HO (ENC data bs Sel a E), cv HO data a E ir).
Proof.
  intros Hrs Hae HE H1 H2 Hbs.
  pose proof (nchunks_small _ Hsize) as Hn.
  assert (P : 2 ^ 53 <= 2 ^ 63) by (apply pow2_le_mono; lia).
  apply injective_projections; cbn [fst snd].
  - unfold REC_FUEL. change 64%nat with (S 63). apply (esr_group 63 a E rm); try assumption; try lia.
  - rewrite esr_hash. now apply hash_subtree_cv.
Qed.

End Group.
End EncRec.
