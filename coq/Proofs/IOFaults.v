(* C10 (5, 6): first-failure semantics over the call lists and what a failing call turns into at each
   site; the decoder step under a failing read.  (7 is in IOSinkFaults.v, 8 in IOReadExact.v) *)
From BaoV Require Import Model.IOCalls Proofs.IOReadExact Proofs.IODecodeIndep.
From Coq Require Import Lia.

Arguments N.mul : simpl never. Arguments N.add : simpl never. Arguments N.sub : simpl never.

(* ================= 5: with_fault ================= *)
Definition on_obj (fobj : io_obj) (s : site) : bool := obj_eqb (s_obj s) fobj.
Definition count_on (fobj : io_obj) (sites : list site) : N := N.of_nat (length (filter (on_obj fobj) sites)).

Lemma count_on_cons fobj s rest :
  count_on fobj (s :: rest) = if on_obj fobj s then 1 + count_on fobj rest else count_on fobj rest.
Proof. unfold count_on. cbn [filter]. destruct (on_obj fobj s); cbn [length]; lia. Qed.

Lemma with_fault_gen : forall sites fobj k kind ok acc,
  (count_on fobj sites <= k -> with_fault sites fobj k kind ok acc = (ok, rev acc ++ sites)) /\
  (k < count_on fobj sites ->
   exists pre s post, sites = pre ++ s :: post /\ on_obj fobj s = true /\ count_on fobj pre = k /\
     with_fault sites fobj k kind ok acc = (s_err s kind, rev acc ++ pre ++ [s])).
Proof.
  induction sites as [|s rest IH]; intros fobj k kind ok acc.
  - split.
    + intros _. cbn [with_fault]. now rewrite app_nil_r.
    + unfold count_on. cbn [filter length]. lia.
  - rewrite count_on_cons. cbn [with_fault]. fold (on_obj fobj s). destruct (on_obj fobj s) eqn:Eo.
    + destruct (k =? 0) eqn:Ek.
      * apply N.eqb_eq in Ek. subst k. split; [lia|]. intros _.
        exists [], s, rest. cbn [app rev]. repeat split; assumption.
      * apply N.eqb_neq in Ek. destruct (IH fobj (k - 1) kind ok (s :: acc)) as [IH1 IH2]. split.
        -- intros Hc. rewrite IH1 by lia. cbn [rev]. now rewrite <- app_assoc.
        -- intros Hc. destruct IH2 as (pre & s0 & post & Hs & Ho & Hn & Hw); [lia|].
           exists (s :: pre), s0, post. rewrite Hw. cbn [rev app]. rewrite <- app_assoc. cbn [app].
           rewrite count_on_cons, Eo. repeat split; [now rewrite Hs | exact Ho | lia].
    + destruct (IH fobj k kind ok (s :: acc)) as [IH1 IH2]. split.
      * intros Hc. rewrite IH1 by exact Hc. cbn [rev]. now rewrite <- app_assoc.
      * intros Hc. destruct (IH2 Hc) as (pre & s0 & post & Hs & Ho & Hn & Hw).
        exists (s :: pre), s0, post. rewrite Hw. cbn [rev app]. rewrite <- app_assoc. cbn [app].
        rewrite count_on_cons, Eo. repeat split; [now rewrite Hs | exact Ho | exact Hn].
Qed.

Theorem with_fault_not_reached sites fobj k kind ok :
  N.of_nat (length (filter (fun s => obj_eqb (s_obj s) fobj) sites)) <= k ->
  with_fault sites fobj k kind ok [] = (ok, sites).
Proof. intros H. now apply (proj1 (with_fault_gen sites fobj k kind ok [])). Qed.

Theorem with_fault_surfaces sites fobj k kind ok :
  k < N.of_nat (length (filter (fun s => obj_eqb (s_obj s) fobj) sites)) ->
  exists pre s post,
    sites = pre ++ s :: post /\ obj_eqb (s_obj s) fobj = true /\
    N.of_nat (length (filter (fun s => obj_eqb (s_obj s) fobj) pre)) = k /\
    with_fault sites fobj k kind ok [] = (s_err s kind, pre ++ [s]).
Proof. intros H. now apply (proj2 (with_fault_gen sites fobj k kind ok [])). Qed.

(* the same, read off the log: a prefix of the fault-free list, k+1 calls on the object, the failing one last *)
Theorem with_fault_log sites fobj k kind ok :
  k < N.of_nat (length (filter (fun s => obj_eqb (s_obj s) fobj) sites)) ->
  exists pre s post,
    with_fault sites fobj k kind ok [] = (s_err s kind, pre ++ [s]) /\
    sites = (pre ++ [s]) ++ post /\ obj_eqb (s_obj s) fobj = true /\
    N.of_nat (length (filter (fun s => obj_eqb (s_obj s) fobj) (pre ++ [s]))) = k + 1.
Proof.
  intros H. destruct (with_fault_surfaces sites fobj k kind ok H) as (pre & s & post & Hs & Ho & Hn & Hw).
  exists pre, s, post. split; [exact Hw|]. split; [rewrite <- app_assoc; exact Hs|]. split; [exact Ho|].
  rewrite filter_app, app_length. cbn [filter]. rewrite Ho. cbn [length]. lia.
Qed.

(* ================= 6: what a failing call turns into ================= *)
(* never success, never one of the two hash-mismatch codes *)
Definition safe_enc (s : site) : Prop :=
  forall k, fst (s_err s k) <> 0 /\ fst (s_err s k) <> 1 /\ fst (s_err s k) <> 2.
Definition safe_dec (s : site) : Prop :=
  forall k, fst (s_err s k) <> 0 /\ fst (s_err s k) <> 3 /\ fst (s_err s k) <> 4.
Definition plain_io (s : site) : Prop := forall k, s_err s k = (6, kcode k).

Lemma plain_io_safe s : plain_io s -> safe_enc s.
Proof. intros H k. rewrite H. cbn [fst]. repeat split; discriminate. Qed.

Lemma In_flat_map_elim {A B} (f : A -> list B) (l : list A) (P : B -> Prop) :
  (forall a, In a l -> forall b, In b (f a) -> P b) -> forall b, In b (flat_map f l) -> P b.
Proof. intros H b Hb. apply in_flat_map in Hb. destruct Hb as (a & Ha & Hb). eapply H; eassumption. Qed.

Ltac in_cases H :=
  repeat match type of H with
  | In _ [] => destruct H
  | In _ (_ :: _) => destruct H as [H|H]; [subst|]
  | In _ (_ ++ _) => apply in_app_or in H; destruct H as [H|H]
  end.

Section Sites.
Variable HO : hops.

Lemma create_sites_plain t ws s : In s (create_sites t ws) -> plain_io s.
Proof.
  unfold create_sites. intros H. apply in_app_or in H. destruct H as [H|H].
  - revert s H. apply In_flat_map_elim. intros c _ s H. destruct c; in_cases H; intros k; reflexivity.
  - destruct ws; in_cases H. intros k; reflexivity.
Qed.
Lemma create_po_sites_plain t s : In s (create_po_sites t) -> plain_io s.
Proof.
  unfold create_po_sites. revert s. apply In_flat_map_elim. intros c _ s H.
  destruct c; in_cases H; intros k; reflexivity.
Qed.
Lemma copy_sites_plain from s : In s (copy_sites HO from) -> plain_io s.
Proof.
  unfold copy_sites. revert s. apply In_flat_map_elim. intros n _ s H.
  destruct H as [H|H]; [subst; intros k; reflexivity|].
  destruct (load_sync HO from n) as [[p|]|e|]; in_cases H. intros k; reflexivity.
Qed.
Lemma val_sites_plain : forall fuel t filled sh rs s, In s (val_sites fuel t filled sh rs) -> plain_io s.
Proof.
  induction fuel as [|f IH]; intros t filled sh rs s H; cbn [val_sites] in H; [destruct H|].
  destruct (r_is_empty rs); [destruct H|].
  destruct (leaf_byte_ranges3 t (subtract_block_size sh (tbs t))) as [[l m] r].
  destruct (negb (is_relevant_for_outboard t (subtract_block_size sh (tbs t)))).
  { in_cases H. intros k; reflexivity. }
  destruct H as [H|H]; [subst; intros k; reflexivity|].
  destruct (split rs (subtract_block_size sh (tbs t))) as [l_rs r_rs].
  destruct (is_leaf sh).
  - apply in_app_or in H. destruct H as [H|H].
    + destruct (negb (r_is_empty l_rs)); in_cases H. intros k; reflexivity.
    + destruct (negb (r_is_empty r_rs)); in_cases H. intros k; reflexivity.
  - destruct (left_child sh); [|destruct H]. destruct (right_descendant sh filled); [|destruct H].
    apply in_app_or in H. destruct H as [H|H]; eapply IH; exact H.
Qed.
Lemma valid_ranges_sites_plain t q s : In s (valid_ranges_sites t q) -> plain_io s.
Proof.
  unfold valid_ranges_sites. destruct (blocks t =? 1).
  - intros H. in_cases H. intros k; reflexivity.
  - destruct (shifted t) as [root filled]. apply val_sites_plain.
Qed.

(* the encoders *)
Definition enc_class (fsm_ : bool) (s : site) : Prop :=
  if fsm_ then
    (s_obj s = OStreamOut -> fst (s_err s KConnectionReset) = 3 \/ fst (s_err s KConnectionReset) = 4) /\
    (forall kind, s_obj s <> OStreamOut \/ kind <> KConnectionReset -> s_err s kind = (6, kcode kind))
  else forall kind, s_err s kind = (6, kcode kind).

Lemma enc_sites_class fsm_ validated t data q s : In s (enc_sites HO fsm_ validated t data q) -> enc_class fsm_ s.
Proof.
  unfold enc_sites. destruct (validated && negb fsm_ && r_is_empty q); [intros H; destruct H|].
  revert s. apply In_flat_map_elim. intros c _ s H.
  destruct c as [node is_root lf rt rs | start size is_root rs]; in_cases H; unfold enc_class; cbn [s_obj s_err];
    destruct fsm_; try (intros kind; reflexivity).
  - split; [discriminate|]. intros kind _. reflexivity.
  - split; [intros _; left; reflexivity|]. intros kind [H|H]; [now elim H|]. destruct kind; try reflexivity. now elim H.
  - split; [discriminate|]. intros kind _. reflexivity.
  - split; [intros _; right; reflexivity|]. intros kind [H|H]; [now elim H|]. destruct kind; try reflexivity. now elim H.
Qed.
Lemma enc_sites_safe fsm_ validated t data q s : In s (enc_sites HO fsm_ validated t data q) -> safe_enc s.
Proof.
  unfold enc_sites. destruct (validated && negb fsm_ && r_is_empty q); [intros H; destruct H|].
  revert s. apply In_flat_map_elim. intros c _ s H.
  destruct c as [node is_root lf rt rs | start size is_root rs]; in_cases H; intros k; cbn [s_err];
    destruct fsm_; destruct k; cbn; repeat split; discriminate.
Qed.
(* the write-failed error names the item *)
Lemma enc_sites_names validated t data q s :
  In s (enc_sites HO true validated t data q) -> s_obj s = OStreamOut ->
  exists c, In c (pre_order_chunks_iter t (if validated then truncate_ranges q (tsize t) else q) 0) /\
    s_err s KConnectionReset = match c with CParent node _ _ _ _ => (3, node) | CLeaf start _ _ _ => (4, start) end.
Proof.
  unfold enc_sites. destruct (validated && negb true && r_is_empty q); [intros H; destruct H|].
  intros H. apply in_flat_map in H. destruct H as (c & Hc & H). intros Ho. exists c. split; [exact Hc|].
  destruct c as [node is_root lf rt rs | start size is_root rs]; in_cases H; try discriminate Ho; reflexivity.
Qed.

(* the decoder *)
Definition dec_class (s : site) : Prop :=
  (s_obj s = OStreamIn -> fst (s_err s KUnexpectedEof) = 1 \/ fst (s_err s KUnexpectedEof) = 2) /\
  (forall kind, s_obj s <> OStreamIn \/ kind <> KUnexpectedEof -> s_err s kind = (5, kcode kind)).

Lemma dec_sites_class t q s : In s (dec_sites t q) -> dec_class s.
Proof.
  unfold dec_sites. revert s. apply In_flat_map_elim. intros c _ s H.
  destruct c as [node is_root lf rt rs | start size is_root rs]; in_cases H; unfold dec_class; cbn [s_obj s_err].
  - split; [intros _; left; reflexivity|]. intros kind [H|H]; [now elim H|]. destruct kind; try reflexivity. now elim H.
  - split; [discriminate|]. intros kind _. reflexivity.
  - split; [intros _; right; reflexivity|]. intros kind [H|H]; [now elim H|]. destruct kind; try reflexivity. now elim H.
  - split; [discriminate|]. intros kind _. reflexivity.
Qed.
Lemma dec_sites_safe t q s : In s (dec_sites t q) -> safe_dec s.
Proof.
  unfold dec_sites. revert s. apply In_flat_map_elim. intros c _ s H.
  destruct c as [node is_root lf rt rs | start size is_root rs]; in_cases H; intros k; cbn [s_err];
    destruct k; cbn; repeat split; discriminate.
Qed.
Lemma dec_sites_names t q s :
  In s (dec_sites t q) -> s_obj s = OStreamIn ->
  exists c, In c (response_iter t (truncate_ranges q (tsize t))) /\ s_a s = chunk_size c /\
    s_err s KUnexpectedEof = match c with CParent node _ _ _ _ => (1, node) | CLeaf start _ _ _ => (2, start) end.
Proof.
  unfold dec_sites. intros H. apply in_flat_map in H. destruct H as (c & Hc & H). intros Ho. exists c. split; [exact Hc|].
  destruct c as [node is_root lf rt rs | start size is_root rs]; in_cases H; try discriminate Ho; split; reflexivity.
Qed.

Theorem never_success :
  (forall t ws s, In s (create_sites t ws) -> safe_enc s) /\
  (forall t s, In s (create_po_sites t) -> safe_enc s) /\
  (forall fsm_ validated t data q s, In s (enc_sites HO fsm_ validated t data q) -> safe_enc s) /\
  (forall from s, In s (copy_sites HO from) -> safe_enc s) /\
  (forall t q s, In s (valid_ranges_sites t q) -> safe_enc s) /\
  (forall t q s, In s (dec_sites t q) -> safe_dec s).
Proof.
  split; [|split; [|split; [|split; [|split]]]].
  - intros t ws s H. eapply plain_io_safe, create_sites_plain, H.
  - intros t s H. eapply plain_io_safe, create_po_sites_plain, H.
  - apply enc_sites_safe.
  - intros from s H. eapply plain_io_safe, copy_sites_plain, H.
  - intros t q s H. eapply plain_io_safe, valid_ranges_sites_plain, H.
  - apply dec_sites_safe.
Qed.

End Sites.

Theorem plain_io_sites : forall (HO : hops),
  (forall t ws s, In s (create_sites t ws) -> forall k, s_err s k = (6, kcode k)) /\
  (forall t s, In s (create_po_sites t) -> forall k, s_err s k = (6, kcode k)) /\
  (forall from s, In s (copy_sites HO from) -> forall k, s_err s k = (6, kcode k)) /\
  (forall t q s, In s (valid_ranges_sites t q) -> forall k, s_err s k = (6, kcode k)).
Proof.
  intros HO. exact (conj create_sites_plain (conj create_po_sites_plain (conj (copy_sites_plain HO) valid_ranges_sites_plain))).
Qed.
Theorem enc_sites_class_fsm : forall (HO : hops) validated t data q s, In s (enc_sites HO true validated t data q) ->
  (s_obj s = OStreamOut -> fst (s_err s KConnectionReset) = 3 \/ fst (s_err s KConnectionReset) = 4) /\
  (forall kind, s_obj s <> OStreamOut \/ kind <> KConnectionReset -> s_err s kind = (6, kcode kind)).
Proof. intros HO. exact (enc_sites_class HO true). Qed.
Theorem enc_sites_class_sync : forall (HO : hops) validated t data q s, In s (enc_sites HO false validated t data q) ->
  forall kind, s_err s kind = (6, kcode kind).
Proof. intros HO. exact (enc_sites_class HO false). Qed.

(* ================= the decoder step under a failing stream read ================= *)
(* the read that is due to fail makes the step return what the OStreamIn site of dec_sites says, after exactly
   one more read call *)
Section DecoderReadFault.
Variable HO : hops.

Theorem dec_next_r_read_fault (st : dstate_r HO) k kind c inner' :
  response_next (dr_inner HO st) = Some (c, inner') ->
  rd_fail HO (dr_rd HO st) = Some (k, kind) -> kind <> KInterrupted -> rd_calls HO (dr_rd HO st) = k ->
  0 < chunk_size c ->
  exists e rd', dec_next_r HO st = Some (Err e, mkDR HO inner' (dr_stack HO st) rd') /\
    rd_calls HO rd' = k + 1 /\ rd_rest HO rd' = rd_rest HO (dr_rd HO st) /\
    e = match c with CParent node _ _ _ _ => maybe_parent_not_found kind node
                   | CLeaf start _ _ _ => maybe_leaf_not_found kind start end.
Proof.
  intros Hn Hf Hk Hc Hlen. unfold dec_next_r. rewrite Hn.
  destruct c as [node is_root lf rt rs | start size is_root rs]; cbn [chunk_size] in Hlen.
  - destruct (read_exact_sync_fault_now HO (dr_rd HO st) 64 k kind Hf Hk Hc Hlen) as (rd' & Er & Hc' & Hr').
    rewrite Er. eexists _, rd'. repeat split; assumption.
  - destruct (read_exact_sync_fault_now HO (dr_rd HO st) size k kind Hf Hk Hc Hlen) as (rd' & Er & Hc' & Hr').
    rewrite Er. eexists _, rd'. repeat split; assumption.
Qed.

End DecoderReadFault.
