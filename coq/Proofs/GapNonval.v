(* C08, the precise form of finding F6: what the non-validating encoders (encode_ranges, sync and fsm)
   emit on an intact store, for EVERY well-formed query.  [nv_spec] is a recursive specification over
   chunk intervals (no iterators): nothing for an interval without a selected chunk, the bytes of the
   WHOLE interval when it is at most one chunk group (whatever part of it is selected, no inner pairs),
   the true pair and the two halves otherwise.  Per unit of the plan: [nloop_units]. *)
From BaoV Require Import Model.Fsm Spec.RangeSpec Spec.PlanSpec Spec.EncSpec Spec.HashAssm.
From BaoV Require Import Proofs.NodeBits Proofs.RangeBase Proofs.RangeTrunc Proofs.PlanQuery Proofs.PlanRs.
From BaoV Require Import Proofs.BridgeBase Proofs.BridgeTree Proofs.BridgeGeom Proofs.BridgePlan.
From BaoV Require Import Proofs.EncPlan Proofs.EncRec Proofs.EncGeom Proofs.EncLoop Proofs.EncMain Proofs.EncTop Proofs.EncThm Proofs.EncNonval.
From Coq Require Import Lia Arith PeanoNat ZArith ZifyN ZifyNat ZifyBool.
Ltac Zify.zify_post_hook ::= Z.div_mod_to_equations.
Arguments N.add : simpl never.
Arguments N.sub : simpl never.
Arguments N.mul : simpl never.
Arguments N.pow : simpl never.
Arguments N.div : simpl never.
Arguments N.modulo : simpl never.
Arguments N.log2 : simpl never.
Arguments N.min : simpl never.
Arguments N.max : simpl never.

Section NvSpec.
Variable HO : hops.
Notation bytes := (bytes HO).

(* ---- the specification ---- *)
Fixpoint nv_rec (fuel : nat) (data : bytes) (bs : N) (Sel : N -> bool) (a b : N) : bytes :=
  match fuel with
  | O => []
  | S f =>
    if negb (existsb Sel (chunk_range_list a b)) then []
    else if b - a <=? 2 ^ bs then chunk_bytes HO data a b
    else
      cv HO data a (a + next_pow2 (b - a) / 2) false ++ cv HO data (a + next_pow2 (b - a) / 2) b false
        ++ nv_rec f data bs Sel a (a + next_pow2 (b - a) / 2)
        ++ nv_rec f data bs Sel (a + next_pow2 (b - a) / 2) b
  end.
Definition nv_spec (data : bytes) (bs : N) (Sel : N -> bool) : bytes :=
  nv_rec 64 data bs Sel 0 (blob_chunks HO data).

(* the bytes of one unit of the plan: the true pair of a parent, the whole chunk group (clipped to the
   blob) of a leaf *)
Definition nv_unit (data : bytes) (bs : N) (c : chunk) : bytes :=
  match c with
  | CParent nd _ _ _ _ => fst (true_pair HO data nd) ++ snd (true_pair HO data nd)
  | CLeaf s _ _ _ => chunk_bytes HO data s (N.min (s + 2 ^ bs) (nchunks (blen HO data)))
  end.

Lemma nv_unit_def (data : bytes) (bs : N) (c : chunk) :
  nv_unit data bs c =
  match c with
  | CParent nd _ _ _ _ => fst (true_pair HO data nd) ++ snd (true_pair HO data nd)
  | CLeaf s _ _ _ => chunk_bytes HO data s (N.min (s + 2 ^ bs) (nchunks (blen HO data)))
  end.
Proof. reflexivity. Qed.

Lemma nv_rec_unfold f (data : bytes) bs (S0 : N -> bool) a b :
  nv_rec (S f) data bs S0 a b =
    if negb (existsb S0 (chunk_range_list a b)) then []
    else if b - a <=? 2 ^ bs then chunk_bytes HO data a b
    else
      cv HO data a (a + next_pow2 (b - a) / 2) false ++ cv HO data (a + next_pow2 (b - a) / 2) b false
        ++ nv_rec f data bs S0 a (a + next_pow2 (b - a) / 2)
        ++ nv_rec f data bs S0 (a + next_pow2 (b - a) / 2) b.
Proof. reflexivity. Qed.

Section Nv.
Variable data : bytes.
Variable bs : N.
Variable S0 : N -> bool.

Lemma nv_rec_fuel : forall (m : nat) f1 f2 a b,
  (m < f1)%nat -> (m < f2)%nat -> b - a <= 2 ^ N.of_nat m ->
  nv_rec f1 data bs S0 a b = nv_rec f2 data bs S0 a b.
Proof.
  induction m as [|m IH]; intros f1 f2 a b Hf1 Hf2 Hm;
    (destruct f1 as [|f1]; [lia|]); (destruct f2 as [|f2]; [lia|]); rewrite !nv_rec_unfold.
  - change (2 ^ N.of_nat 0) with 1 in Hm. pose proof (pow2_ge1 bs) as Hp.
    assert (E : (b - a <=? 2 ^ bs) = true) by (apply N.leb_le; lia). rewrite E. reflexivity.
  - destruct (negb (existsb S0 (chunk_range_list a b))); [reflexivity|].
    destruct (b - a <=? 2 ^ bs) eqn:E1; [reflexivity|]. apply N.leb_gt in E1. pose proof (pow2_ge1 bs) as Hp.
    rewrite of_nat_S in Hm.
    pose proof (half_bounds (b - a) (N.of_nat m) ltac:(lia) Hm) as (A1 & A2 & A3 & A4 & A5). cbv zeta in *.
    set (h := next_pow2 (b - a) / 2) in *.
    rewrite (IH f1 f2 a (a + h)) by lia. rewrite (IH f1 f2 (a + h) b) by lia. reflexivity.
Qed.

Definition NV (a b : N) : bytes := nv_rec 64 data bs S0 a b.

Lemma NV_unfold a b : b - a <= 2 ^ 63 ->
  NV a b =
    if negb (existsb S0 (chunk_range_list a b)) then []
    else if b - a <=? 2 ^ bs then chunk_bytes HO data a b
    else
      cv HO data a (a + next_pow2 (b - a) / 2) false ++ cv HO data (a + next_pow2 (b - a) / 2) b false
        ++ NV a (a + next_pow2 (b - a) / 2) ++ NV (a + next_pow2 (b - a) / 2) b.
Proof.
  intro H. unfold NV. change 64%nat with (S 63) at 1. rewrite nv_rec_unfold.
  destruct (negb (existsb S0 (chunk_range_list a b))); [reflexivity|].
  destruct (b - a <=? 2 ^ bs) eqn:E1; [reflexivity|]. apply N.leb_gt in E1. pose proof (pow2_ge1 bs) as Hp.
  pose proof (half_bounds (b - a) 62 ltac:(lia) H) as (A1 & A2 & A3 & A4 & A5). cbv zeta in *.
  set (h := next_pow2 (b - a) / 2) in *.
  rewrite (nv_rec_fuel 62 63 64 a (a + h)) by (change (N.of_nat 62) with 62; lia).
  rewrite (nv_rec_fuel 62 63 64 (a + h) b) by (change (N.of_nat 62) with 62; lia). reflexivity.
Qed.

Lemma NV_none a b : existsb S0 (chunk_range_list a b) = false -> NV a b = [].
Proof. intro H. unfold NV. change 64%nat with (S 63). rewrite nv_rec_unfold, H. reflexivity. Qed.

Lemma NV_group a b : b - a <= 2 ^ bs -> existsb S0 (chunk_range_list a b) = true ->
  NV a b = chunk_bytes HO data a b.
Proof.
  intros Hg H. unfold NV. change 64%nat with (S 63). rewrite nv_rec_unfold, H. cbn [negb].
  assert (E : (b - a <=? 2 ^ bs) = true) by (apply N.leb_le; lia). rewrite E. reflexivity.
Qed.

Lemma nv_spec_NV : nv_spec data bs S0 = NV 0 (nchunks (blen HO data)).
Proof. unfold nv_spec, NV, blob_chunks. reflexivity. Qed.

End Nv.

(* the unfolding equation of the specification, on the intervals it is used on *)
Lemma nv_rec_eq (data : bytes) bs (S0 : N -> bool) a b : b - a <= 2 ^ 63 ->
  nv_rec 64 data bs S0 a b =
    if negb (existsb S0 (chunk_range_list a b)) then []
    else if b - a <=? 2 ^ bs then chunk_bytes HO data a b
    else
      cv HO data a (a + next_pow2 (b - a) / 2) false ++ cv HO data (a + next_pow2 (b - a) / 2) b false
        ++ nv_rec 64 data bs S0 a (a + next_pow2 (b - a) / 2)
        ++ nv_rec 64 data bs S0 (a + next_pow2 (b - a) / 2) b.
Proof.
  intro H. change 64%nat with (S 63) at 1. rewrite nv_rec_unfold.
  destruct (negb (existsb S0 (chunk_range_list a b))); [reflexivity|].
  destruct (b - a <=? 2 ^ bs) eqn:E1; [reflexivity|]. apply N.leb_gt in E1. pose proof (pow2_ge1 bs) as Hp.
  pose proof (half_bounds (b - a) 62 ltac:(lia) H) as (A1 & A2 & A3 & A4 & A5). cbv zeta in *.
  set (h := next_pow2 (b - a) / 2) in *.
  rewrite (nv_rec_fuel data bs S0 62 63 64 a (a + h)) by (change (N.of_nat 62) with 62; lia).
  rewrite (nv_rec_fuel data bs S0 62 63 64 (a + h) b) by (change (N.of_nat 62) with 62; lia). reflexivity.
Qed.

Lemma nv_spec_def (data : bytes) bs (S0 : N -> bool) :
  nv_spec data bs S0 = nv_rec 64 data bs S0 0 (nchunks (blen HO data)).
Proof. unfold nv_spec, blob_chunks. reflexivity. Qed.

(* ---- the loop, unit by unit: no premise on the selection of the leaves ---- *)
Lemma nloop_units (data : bytes) bs (load : loader HO) (data' : bytes) : forall P,
  Forall (unit_ok HO data bs load data') P ->
  nloop HO load P data' = (Ok tt, concat (map (nv_unit data bs) P)).
Proof.
  induction P as [|c P IH]; intros Hok; [reflexivity|].
  inversion Hok as [|? ? Hc Hok']; subst. specialize (IH Hok').
  destruct c as [nd ir lf rt rs|s sz ir rs]; cbn [nloop]; cbn [unit_ok] in Hc; rewrite Hc.
  - cbn [map concat nv_unit].
    destruct (true_pair HO data nd) as [l r] eqn:Etp. cbv zeta. rewrite IH. cbn [fst snd].
    now rewrite <- app_assoc.
  - cbv zeta. rewrite IH. cbn [fst snd map concat nv_unit]. reflexivity.
Qed.

End NvSpec.

Section Exact.
Variable HO : hops.
Notation bytes := (bytes HO).
Variable data : bytes.
Variable bs : N.
Variable q : ranges.
Hypothesis Hwf : wf_ranges q = true.
Hypothesis Hsize : blen HO data <= 2 ^ 63.
Hypothesis Hbs : bs <= 10.
Local Notation size := (blen HO data).
Local Notation nn := (nchunks (blen HO data)).
Local Notation Sel := (sel q (blen HO data)).
Local Notation rawplan := (rplan (blen HO data) bs q).
Local Notation NV := (NV HO data bs Sel).
Local Notation nvu := (nv_unit HO data bs).

Lemma cmap_app (f : chunk -> bytes) l1 l2 : concat (map f (l1 ++ l2)) = concat (map f l1) ++ concat (map f l2).
Proof. now rewrite map_app, concat_app. Qed.
Lemma cmap_cons (f : chunk -> bytes) c l : concat (map f (c :: l)) = f c ++ concat (map f l).
Proof. reflexivity. Qed.
Lemma cmap_nil (f : chunk -> bytes) : concat (map f []) = [].
Proof. reflexivity. Qed.

Definition Pnv (a E : N) (rm : bool) (rs : ranges) (ir : bool) (plan : list chunk) : Prop :=
  concat (map nvu plan) = NV a E.

Lemma sel_nil_none a b : existsb (sel [] size) (chunk_range_list a b) = false.
Proof.
  induction (chunk_range_list a b) as [|x l IH]; [reflexivity|].
  cbn [existsb]. now rewrite sel_nil, IH.
Qed.

(* the bytes of the units of the raw plan are the specification *)
Theorem nvs_plan : q <> [] -> concat (map nvu rawplan) = nv_spec HO data bs Sel.
Proof.
  intros Hne. pose proof (nn53 HO data Hsize) as Hn.
  assert (P63 : 2 ^ 53 <= 2 ^ 63) by (apply pow2_le_mono; lia).
  pose proof (empty_is_sel_raw HO data bs q Hwf Hsize Hbs) as Hemp.
  pose proof (rplan_ind_root size bs q Hsize Hbs Pnv) as H.
  assert (HP : Pnv 0 nn true q true rawplan).
  { apply H; clear H.
    - intros a E rm rs ir Hl. unfold Pnv.
      destruct (leaf_group HO data bs q Hsize Hbs q a E rm rs Hl) as [HgE Hg].
      destruct Hl as [H1 H2 H3 H4 H5 H6 H7 _].
      pose proof (Hemp rs a E rm H4 H1 H2 H5 H6) as X.
      assert (Ex : existsb Sel (chunk_range_list a E) = true).
      { destruct rs; [congruence|]. cbn [r_is_empty] in X. now destruct (existsb Sel (chunk_range_list a E)). }
      rewrite cmap_cons, cmap_nil. cbn [nv_unit]. rewrite app_nil_r.
      unfold gE in HgE. rewrite HgE. symmetry. now apply NV_group.
    - intros a m E rm rs ir l_rs r_rs pl pr Hpar Hrs Hrne H1 H2 Esp Hl Hr HPl HPr. unfold Pnv in *.
      destruct (tp_par HO data bs q Hsize Hbs a m E Hpar) as [Htp _]. destruct Hpar as [A1 A2 A3 A4 A5 A6 A7].
      rewrite cmap_cons, cmap_app. cbn [nv_unit]. rewrite Htp. cbn [fst snd].
      rewrite (NV_unfold HO data bs Sel a E) by lia.
      pose proof (Hemp rs a E rm Hrs ltac:(lia) A3 H1 H2) as X.
      assert (Ex : existsb Sel (chunk_range_list a E) = true).
      { destruct rs; [congruence|]. cbn [r_is_empty] in X. now destruct (existsb Sel (chunk_range_list a E)). }
      rewrite Ex. cbn [negb].
      assert (E2 : (E - a <=? 2 ^ bs) = false).
      { apply N.leb_gt. destruct (N.lt_ge_cases (2 ^ bs) (E - a)) as [L|L]; [exact L|].
        pose proof (np2_le (E - a) bs L). lia. }
      rewrite E2, A4. replace (a + (m - a)) with m by lia.
      rewrite <- !app_assoc. f_equal. f_equal. f_equal.
      + pose proof (Hemp l_rs a m false Hl A1 ltac:(lia) ltac:(discriminate) ltac:(intros _; lia)) as Y.
        destruct (r_is_empty l_rs).
        * subst pl. rewrite NV_none; [reflexivity|]. now destruct (existsb Sel (chunk_range_list a m)).
        * exact HPl.
      + pose proof (Hemp r_rs m E rm Hr A2 A3 H1 H2) as Y.
        destruct (r_is_empty r_rs).
        * subst pr. rewrite NV_none; [reflexivity|]. now destruct (existsb Sel (chunk_range_list m E)).
        * exact HPr.
    - apply rs_ok_root. exact Hwf.
    - exact Hne. }
  unfold Pnv in HP. rewrite HP. symmetry. apply nv_spec_NV.
Qed.

Lemma nv_spec_nil : nv_spec HO data bs (sel [] size) = [].
Proof. rewrite nv_spec_NV. apply NV_none. apply sel_nil_none. Qed.

Variable ob : outboard HO.
Hypothesis Htree : ob_tree ob = mkTree size bs.

(* item 5: what is written for every unit of the plan of the raw query *)
Theorem nonval_units_gen (load : loader HO) :
  (forall nd, In nd (enc_nodes_raw size bs q) -> load nd = Ok (Some (true_pair HO data nd))) ->
  nloop HO load (pre_order_chunks_iter (mkTree size bs) q 0) data
  = (Ok tt, concat (map (nv_unit HO data bs) (pre_order_chunks_iter (mkTree size bs) q 0))).
Proof.
  intros Hst. rewrite (rplan_refines size bs q Hsize Hbs). apply nloop_units.
  destruct q as [|x t] eqn:Eq.
  - rewrite rplan_nil. constructor.
  - rewrite <- Eq in *. assert (Hne : q <> []) by (rewrite Eq; discriminate).
    exact (raw_units HO data bs q Hwf Hsize Hbs load Hne Hst).
Qed.

Lemma nonval_gen_exact (load : loader HO) :
  (forall nd, In nd (enc_nodes_raw size bs q) -> load nd = Ok (Some (true_pair HO data nd))) ->
  nloop HO load (pre_order_chunks_iter (mkTree size bs) q 0) data = (Ok tt, nv_spec HO data bs Sel).
Proof.
  intros Hst. rewrite (nonval_units_gen load Hst). rewrite (rplan_refines size bs q Hsize Hbs). f_equal.
  destruct q as [|x t] eqn:Eq.
  - rewrite rplan_nil, cmap_nil. symmetry. exact nv_spec_nil.
  - rewrite <- Eq in *. assert (Hne : q <> []) by (rewrite Eq; discriminate). now apply nvs_plan.
Qed.

Theorem nonval_exact_sync :
  (forall nd, In nd (enc_nodes_raw size bs q) -> stored_ok HO data ob nd) ->
  encode_ranges HO data ob q = (Ok tt, nv_spec HO data bs Sel).
Proof. intros Hst. rewrite er_nloop, Htree. now apply nonval_gen_exact. Qed.

Theorem nonval_exact_fsm :
  (forall nd, In nd (enc_nodes_raw size bs q) -> stored_ok_fsm HO data ob nd) ->
  encode_ranges_fsm HO data ob q = (Ok tt, nv_spec HO data bs Sel).
Proof. intros Hst. rewrite er_fsm_nloop, Htree. now apply nonval_gen_exact. Qed.

Theorem nonval_units_sync :
  (forall nd, In nd (enc_nodes_raw size bs q) -> stored_ok HO data ob nd) ->
  encode_ranges HO data ob q
  = (Ok tt, concat (map (nv_unit HO data bs) (pre_order_chunks_iter (mkTree size bs) q 0))).
Proof. intros Hst. rewrite er_nloop, Htree. now apply nonval_units_gen. Qed.

Theorem nonval_units_fsm :
  (forall nd, In nd (enc_nodes_raw size bs q) -> stored_ok_fsm HO data ob nd) ->
  encode_ranges_fsm HO data ob q
  = (Ok tt, concat (map (nv_unit HO data bs) (pre_order_chunks_iter (mkTree size bs) q 0))).
Proof. intros Hst. rewrite er_fsm_nloop, Htree. now apply nonval_units_gen. Qed.

End Exact.

(* ---- closed forms ---- *)
Theorem nonval_exact : forall (HO : hops) (data : bytes HO) (bs : N) (q : ranges),
  wf_ranges q = true -> blen HO data <= 2 ^ 63 -> bs <= 10 ->
  forall ob : outboard HO, ob_tree ob = mkTree (blen HO data) bs ->
  ((forall nd, In nd (enc_nodes_raw (blen HO data) bs q) -> stored_ok HO data ob nd) ->
   encode_ranges HO data ob q = (Ok tt, nv_spec HO data bs (sel q (blen HO data)))) /\
  ((forall nd, In nd (enc_nodes_raw (blen HO data) bs q) -> stored_ok_fsm HO data ob nd) ->
   encode_ranges_fsm HO data ob q = (Ok tt, nv_spec HO data bs (sel q (blen HO data)))).
Proof.
  intros HO data bs q Hwf Hsize Hbs ob Htree. split.
  - exact (nonval_exact_sync HO data bs q Hwf Hsize Hbs ob Htree).
  - exact (nonval_exact_fsm HO data bs q Hwf Hsize Hbs ob Htree).
Qed.
Print Assumptions nonval_exact.

Theorem nonval_leaf_units : forall (HO : hops) (data : bytes HO) (bs : N) (q : ranges),
  wf_ranges q = true -> blen HO data <= 2 ^ 63 -> bs <= 10 ->
  forall ob : outboard HO, ob_tree ob = mkTree (blen HO data) bs ->
  ((forall nd, In nd (enc_nodes_raw (blen HO data) bs q) -> stored_ok HO data ob nd) ->
   encode_ranges HO data ob q
   = (Ok tt, concat (map (nv_unit HO data bs) (pre_order_chunks_iter (mkTree (blen HO data) bs) q 0)))) /\
  ((forall nd, In nd (enc_nodes_raw (blen HO data) bs q) -> stored_ok_fsm HO data ob nd) ->
   encode_ranges_fsm HO data ob q
   = (Ok tt, concat (map (nv_unit HO data bs) (pre_order_chunks_iter (mkTree (blen HO data) bs) q 0)))).
Proof.
  intros HO data bs q Hwf Hsize Hbs ob Htree. split.
  - exact (nonval_units_sync HO data bs q Hwf Hsize Hbs ob Htree).
  - exact (nonval_units_fsm HO data bs q Hwf Hsize Hbs ob Htree).
Qed.
Print Assumptions nonval_leaf_units.
