(* Foundations for range sets: counting semantics of [mem], binary search, contains, split. *)
From BaoV Require Import Spec.RangeSpec.
From Coq Require Import Lia Arith PeanoNat ZArith ZifyN ZifyNat ZifyBool.
Arguments N.add : simpl never.
Arguments N.sub : simpl never.
Arguments N.mul : simpl never.
Arguments N.pow : simpl never.
Arguments N.shiftl : simpl never.
Arguments N.shiftr : simpl never.
Arguments N.land : simpl never.
Arguments N.div : simpl never.
Arguments N.modulo : simpl never.

(* ---- parity helper ---- *)
Lemma odd_false_even n : Nat.odd n = false -> Nat.even n = true.
Proof. intro H. rewrite <- Nat.negb_odd, H. reflexivity. Qed.
Lemma even_false_odd n : Nat.even n = false -> Nat.odd n = true.
Proof. intro H. rewrite <- Nat.negb_even, H. reflexivity. Qed.
Lemma odd_true_even n : Nat.odd n = true -> Nat.even n = false.
Proof. intro H. rewrite <- Nat.negb_odd, H. reflexivity. Qed.
Lemma even_true_odd n : Nat.even n = true -> Nat.odd n = false.
Proof. intro H. rewrite <- Nat.negb_even, H. reflexivity. Qed.

Ltac Zify.zify_post_hook ::= Z.div_mod_to_equations.

Lemma odd_true_mod n : Nat.odd n = true <-> (n mod 2 = 1)%nat.
Proof.
  split; intro H.
  - apply Nat.odd_spec in H. destruct H as [m ->]. lia.
  - apply Nat.odd_spec. exists (n / 2)%nat. lia.
Qed.
Lemma even_true_mod n : Nat.even n = true <-> (n mod 2 = 0)%nat.
Proof.
  split; intro H.
  - apply Nat.even_spec in H. destruct H as [m ->]. lia.
  - apply Nat.even_spec. exists (n / 2)%nat. lia.
Qed.
Lemma odd_false_mod n : Nat.odd n = false <-> (n mod 2 = 0)%nat.
Proof.
  rewrite <- even_true_mod. split; intro H; [now apply odd_false_even | now apply even_true_odd].
Qed.
Lemma even_false_mod n : Nat.even n = false <-> (n mod 2 = 1)%nat.
Proof.
  rewrite <- odd_true_mod. split; intro H; [now apply even_false_odd | now apply odd_true_even].
Qed.

Ltac parity_hyps :=
  repeat match goal with
  | H : Nat.even ?n = true |- _ => apply even_true_mod in H
  | H : Nat.odd ?n = true |- _ => apply odd_true_mod in H
  | H : Nat.even ?n = false |- _ => apply even_false_mod in H
  | H : Nat.odd ?n = false |- _ => apply odd_false_mod in H
  end.

(* decide a goal  Nat.odd e = b / Nat.even e = b  from linear facts *)
Ltac parity_goal :=
  parity_hyps;
  match goal with
  | |- Nat.odd ?e = true => apply odd_true_mod; lia
  | |- Nat.even ?e = true => apply even_true_mod; lia
  | |- Nat.odd ?e = false => apply odd_false_mod; lia
  | |- Nat.even ?e = false => apply even_false_mod; lia
  end.

(* ---- sortedness ---- *)
Definition ssorted (r : list N) : Prop := strictly_sorted r = true.

Lemma ss_tail x t : ssorted (x :: t) -> ssorted t.
Proof.
  unfold ssorted. cbn [strictly_sorted]. destruct t as [|y t']; [reflexivity|].
  intro H. apply andb_true_iff in H. apply H.
Qed.

Lemma ss_head_lt x t : ssorted (x :: t) -> Forall (fun y => x < y) t.
Proof.
  revert x. induction t as [|y t IH]; intros x H; [constructor|].
  unfold ssorted in H. cbn [strictly_sorted] in H. apply andb_true_iff in H. destruct H as [Hxy Ht].
  apply N.ltb_lt in Hxy. constructor; [assumption|].
  specialize (IH y Ht). eapply Forall_impl; [|exact IH]. cbn. intros. lia.
Qed.

Lemma ss_cons x t : ssorted t -> Forall (fun y => x < y) t -> ssorted (x :: t).
Proof.
  unfold ssorted. intros Ht Hx. cbn [strictly_sorted]. destruct t as [|y t']; [reflexivity|].
  inversion Hx as [|? ? Hxy _]; subst. apply andb_true_iff. split; [now apply N.ltb_lt | assumption].
Qed.

Lemma Forall_firstn {A} (P : A -> Prop) n l : Forall P l -> Forall P (firstn n l).
Proof.
  revert l. induction n as [|n IH]; intros l H; cbn [firstn]; [constructor|].
  destruct l as [|a l]; [constructor|]. inversion H; subst. constructor; auto.
Qed.
Lemma Forall_skipn' {A} (P : A -> Prop) n l : Forall P l -> Forall P (skipn n l).
Proof.
  revert l. induction n as [|n IH]; intros l H; cbn [skipn]; [assumption|].
  destruct l as [|a l]; [constructor|]. inversion H; subst. auto.
Qed.

Lemma ss_firstn n r : ssorted r -> ssorted (firstn n r).
Proof.
  revert r. induction n as [|n IH]; intros r H; cbn [firstn]; [reflexivity|].
  destruct r as [|a r]; [reflexivity|].
  apply ss_cons; [apply IH; eapply ss_tail; eauto|]. apply Forall_firstn. now apply ss_head_lt.
Qed.
Lemma ss_skipn n r : ssorted r -> ssorted (skipn n r).
Proof.
  revert r. induction n as [|n IH]; intros r H; cbn [skipn]; [assumption|].
  destruct r as [|a r]; [reflexivity|]. apply IH. eapply ss_tail; eauto.
Qed.

Definition allw (r : list N) : Prop := Forall (fun x => x < W64) r.

Lemma wf_iff r : wf_ranges r = true <-> ssorted r /\ allw r.
Proof.
  unfold wf_ranges, ssorted, allw. rewrite andb_true_iff, forallb_forall, Forall_forall.
  split; intros [H1 H2]; split; auto; intros x Hx; specialize (H2 x Hx); now apply N.ltb_lt.
Qed.

Lemma wf_firstn n r : wf_ranges r = true -> wf_ranges (firstn n r) = true.
Proof. rewrite !wf_iff. intros [H1 H2]. split; [now apply ss_firstn | now apply Forall_firstn]. Qed.
Lemma wf_skipn n r : wf_ranges r = true -> wf_ranges (skipn n r) = true.
Proof. rewrite !wf_iff. intros [H1 H2]. split; [now apply ss_skipn | now apply Forall_skipn']. Qed.

(* ---- counting semantics ---- *)
Fixpoint cnt (r : list N) (x : N) : nat :=
  match r with [] => O | b :: t => if b <=? x then S (cnt t x) else O end.

Lemma mem_cnt r x : mem r x = Nat.odd (cnt r x).
Proof.
  induction r as [|a r IH]; cbn [mem cnt]; [reflexivity|].
  destruct (a <=? x); [|reflexivity]. now rewrite IH, Nat.odd_succ, <- Nat.negb_odd.
Qed.

Lemma cnt_le_length r x : (cnt r x <= length r)%nat.
Proof. induction r as [|a r IH]; cbn [cnt length]; [lia|]. destruct (a <=? x); lia. Qed.

Lemma cnt_mono r x y : x <= y -> (cnt r x <= cnt r y)%nat.
Proof.
  intro Hxy. induction r as [|a r IH]; cbn [cnt]; [lia|].
  destruct (a <=? x) eqn:E1; [|lia]. apply N.leb_le in E1.
  assert (E2 : (a <=? y) = true) by (apply N.leb_le; lia). rewrite E2. lia.
Qed.

Lemma cnt_all_gt r x : Forall (fun y => x < y) r -> cnt r x = O.
Proof.
  intro H. destruct r as [|a r]; [reflexivity|]. inversion H as [|? ? Ha _]; subst. cbn [cnt].
  assert (E : (a <=? x) = false) by (apply N.leb_gt; lia). now rewrite E.
Qed.

Lemma Forall_gt_trans x y (r : list N) : x <= y -> Forall (fun z => y < z) r -> Forall (fun z => x < z) r.
Proof. intros Hxy H. eapply Forall_impl; [|exact H]. cbn. intros. lia. Qed.

Lemma cnt_firstn n r x : cnt (firstn n r) x = Nat.min n (cnt r x).
Proof.
  revert n. induction r as [|a r IH]; intros n.
  - rewrite firstn_nil. cbn [cnt]. lia.
  - destruct n as [|n]; [reflexivity|]. cbn [firstn cnt]. destruct (a <=? x); [|lia]. rewrite IH. lia.
Qed.

Lemma cnt_skipn_le n r x : (n <= cnt r x)%nat -> cnt (skipn n r) x = (cnt r x - n)%nat.
Proof.
  revert r. induction n as [|n IH]; intros r H; [cbn [skipn]; lia|].
  destruct r as [|a r]; [cbn [cnt] in H; lia|]. cbn [skipn]. cbn [cnt] in *.
  destruct (a <=? x); [|lia]. rewrite IH by lia. lia.
Qed.

Lemma skipn_all_gt n r x : ssorted r -> (cnt r x <= n)%nat -> Forall (fun y => x < y) (skipn n r).
Proof.
  revert n. induction r as [|a r IH]; intros n Hs Hn.
  - rewrite skipn_nil. constructor.
  - cbn [cnt] in Hn. destruct (a <=? x) eqn:E.
    + destruct n as [|n]; [lia|]. cbn [skipn]. apply IH; [eapply ss_tail; eauto | lia].
    + apply N.leb_gt in E. apply Forall_skipn'. constructor; [assumption|].
      apply (Forall_gt_trans x a); [lia | now apply ss_head_lt].
Qed.

Lemma cnt_skipn_ge n r x : ssorted r -> (cnt r x <= n)%nat -> cnt (skipn n r) x = O.
Proof. intros. apply cnt_all_gt. now apply skipn_all_gt. Qed.

Lemma cnt_succ r x : ssorted r -> (cnt r (x + 1) <= S (cnt r x))%nat.
Proof.
  induction r as [|a r IH]; intro Hs; cbn [cnt]; [lia|].
  destruct (a <=? x) eqn:E1.
  - apply N.leb_le in E1. assert (E2 : (a <=? x + 1) = true) by (apply N.leb_le; lia). rewrite E2.
    specialize (IH (ss_tail _ _ Hs)). lia.
  - apply N.leb_gt in E1. destruct (a <=? x + 1) eqn:E2; [|lia]. apply N.leb_le in E2.
    rewrite (cnt_all_gt r (x + 1)); [lia|]. apply (Forall_gt_trans _ a); [lia | now apply ss_head_lt].
Qed.

(* ---- binary search ---- *)
Lemma bsearch_from_bounds l x i f j :
  bsearch_from l x i = (f, j) ->
  (i <= j)%nat /\ (j - i <= length l)%nat /\ (f = true -> (j - i < length l)%nat).
Proof.
  revert i. induction l as [|y t IH]; intros i H; cbn [bsearch_from length] in *.
  - inversion H; subst. repeat split; try lia; try discriminate.
  - destruct (y =? x). { inversion H; subst. repeat split; lia. }
    destruct (x <? y). { inversion H; subst. repeat split; try lia; try discriminate. }
    apply IH in H. destruct H as (H1 & H2 & H3). repeat split; try lia; intro Hf; specialize (H3 Hf); lia.
Qed.

Lemma bsearch_from_spec l x i f j :
  ssorted l -> bsearch_from l x i = (f, j) ->
  (f = true -> cnt l x = S (j - i) /\ forall y, y < x -> (cnt l y <= j - i)%nat) /\
  (f = false -> cnt l x = (j - i)%nat).
Proof.
  revert i. induction l as [|y t IH]; intros i Hs H; cbn [bsearch_from cnt] in *.
  - inversion H; subst. split; [discriminate|]. intros _. lia.
  - destruct (y =? x) eqn:E1.
    + apply N.eqb_eq in E1. subst y. inversion H; subst. split; [|discriminate]. intros _.
      rewrite N.leb_refl. rewrite (cnt_all_gt t x) by now apply ss_head_lt. split; [lia|].
      intros y Hy. assert (E : (x <=? y) = false) by (apply N.leb_gt; lia). rewrite E. lia.
    + apply N.eqb_neq in E1. destruct (x <? y) eqn:E2.
      * apply N.ltb_lt in E2. inversion H; subst. split; [discriminate|]. intros _.
        assert (E : (y <=? x) = false) by (apply N.leb_gt; lia). rewrite E. lia.
      * apply N.ltb_ge in E2. assert (E : (y <=? x) = true) by (apply N.leb_le; lia). rewrite E.
        pose proof (bsearch_from_bounds _ _ _ _ _ H) as (B1 & _).
        destruct (IH (S i) (ss_tail _ _ Hs) H) as [IH1 IH2]. split.
        -- intro Hf. destruct (IH1 Hf) as [C1 C2]. split; [lia|]. intros z Hz.
           specialize (C2 z Hz). destruct (y <=? z); lia.
        -- intro Hf. specialize (IH2 Hf). lia.
Qed.

Lemma bsearch_from_notfound l x i j :
  ssorted l -> bsearch_from l x i = (false, j) -> forall y, y + 1 = x -> cnt l y = (j - i)%nat.
Proof.
  revert i. induction l as [|y0 t IH]; intros i Hs H y Hy; cbn [bsearch_from cnt] in *.
  - inversion H; subst. lia.
  - destruct (y0 =? x) eqn:E1; [discriminate|]. apply N.eqb_neq in E1.
    destruct (x <? y0) eqn:E2.
    + apply N.ltb_lt in E2. inversion H; subst.
      assert (E : (y0 <=? y) = false) by (apply N.leb_gt; lia). rewrite E. lia.
    + apply N.ltb_ge in E2. assert (E : (y0 <=? y) = true) by (apply N.leb_le; lia). rewrite E.
      pose proof (bsearch_from_bounds _ _ _ _ _ H) as (B1 & _).
      rewrite (IH (S i) (ss_tail _ _ Hs) H y Hy). lia.
Qed.

Lemma cnt_zero_le1 r : ssorted r -> (cnt r 0 <= 1)%nat.
Proof.
  intro Hs. destruct r as [|b t]; cbn [cnt]; [lia|]. destruct (b <=? 0) eqn:E; [|lia].
  apply N.leb_le in E. rewrite (cnt_all_gt t 0); [lia|].
  apply (Forall_gt_trans 0 b); [lia | now apply ss_head_lt].
Qed.

Lemma bsearch_spec l x f j :
  ssorted l -> bsearch l x = (f, j) ->
  (j <= length l)%nat /\
  (f = true -> (j < length l)%nat /\ cnt l x = S j /\ forall y, y < x -> (cnt l y <= j)%nat) /\
  (f = false -> cnt l x = j).
Proof.
  unfold bsearch. intros Hs H.
  pose proof (bsearch_from_bounds _ _ _ _ _ H) as (B1 & B2 & B3).
  destruct (bsearch_from_spec _ _ _ _ _ Hs H) as [S1 S2]. rewrite Nat.sub_0_r in *.
  split; [assumption|]. split.
  - intro Hf. destruct (S1 Hf). auto.
  - auto.
Qed.

Lemma bsearch_from_firstn l x i f j k :
  bsearch_from l x i = (f, j) -> ((if f then S (j - i) else j - i) <= k)%nat ->
  bsearch_from (firstn k l) x i = (f, j).
Proof.
  revert i k. induction l as [|y t IH]; intros i k H Hk.
  - now rewrite firstn_nil.
  - cbn [bsearch_from] in H. destruct k as [|k].
    + cbn [firstn bsearch_from]. pose proof (bsearch_from_bounds (y :: t) x i f j) as B.
      cbn [bsearch_from] in B. specialize (B H). destruct f; [lia|]. f_equal. lia.
    + cbn [firstn bsearch_from]. destruct (y =? x); [assumption|]. destruct (x <? y); [assumption|].
      pose proof (bsearch_from_bounds _ _ _ _ _ H) as (B1 & _).
      apply IH; [assumption|]. destruct f; lia.
Qed.

Lemma bsearch_from_firstn_found l x i j :
  bsearch_from l x i = (true, j) -> bsearch_from (firstn (j - i) l) x i = (false, j).
Proof.
  revert i. induction l as [|y t IH]; intros i H.
  - cbn [bsearch_from] in H. discriminate.
  - cbn [bsearch_from] in H. destruct (y =? x) eqn:E1.
    + inversion H; subst. rewrite Nat.sub_diag. reflexivity.
    + destruct (x <? y) eqn:E2; [discriminate|].
      pose proof (bsearch_from_bounds _ _ _ _ _ H) as (B1 & _).
      replace (j - i)%nat with (S (j - S i)) by lia. cbn [firstn bsearch_from]. rewrite E1, E2.
      now apply IH.
Qed.

Lemma bsearch_firstn l x f j k :
  bsearch l x = (f, j) -> ((if f then S j else j) <= k)%nat -> bsearch (firstn k l) x = (f, j).
Proof. unfold bsearch. intros H Hk. apply bsearch_from_firstn; [assumption|]. now rewrite Nat.sub_0_r. Qed.
Lemma bsearch_firstn_found l x j :
  bsearch l x = (true, j) -> bsearch (firstn j l) x = (false, j).
Proof. unfold bsearch. intros H. apply bsearch_from_firstn_found in H. now rewrite Nat.sub_0_r in H. Qed.

(* ---- (a) contains ---- *)
Lemma r_contains_mem r x : wf_ranges r = true -> r_contains r x = mem r x.
Proof.
  intro Hwf. apply wf_iff in Hwf. destruct Hwf as [Hs _].
  unfold r_contains. destruct (bsearch r x) as [f i] eqn:E.
  destruct (bsearch_spec _ _ _ _ Hs E) as (_ & S1 & S2). rewrite mem_cnt.
  destruct f.
  - destruct (S1 eq_refl) as (_ & C & _). rewrite C. now rewrite Nat.odd_succ.
  - now rewrite (S2 eq_refl).
Qed.

(* ---- (b) split ---- *)
Lemma r_split_spec r at_ :
  wf_ranges r = true ->
  let '(a, b) := r_split r at_ in
  wf_ranges a = true /\ wf_ranges b = true /\
  (forall x, x < at_ -> mem a x = mem r x) /\ (forall x, at_ <= x -> mem b x = mem r x).
Proof.
  intro Hwf. pose proof Hwf as Hwf'. apply wf_iff in Hwf'. destruct Hwf' as [Hs _].
  unfold r_split. destruct (bsearch r at_) as [f i] eqn:E.
  destruct (bsearch_spec _ _ _ _ Hs E) as (B & S1 & S2).
  assert (HA : forall x, x < at_ -> mem (firstn i r) x = mem r x).
  { intros x Hx. rewrite !mem_cnt, cnt_firstn. f_equal.
    destruct f.
    - destruct (S1 eq_refl) as (_ & _ & C). specialize (C x Hx). lia.
    - specialize (S2 eq_refl). pose proof (cnt_mono r x at_ ltac:(lia)). lia. }
  assert (HB : forall j, (j <= cnt r at_)%nat -> Nat.even j = true ->
               forall x, at_ <= x -> mem (skipn j r) x = mem r x).
  { intros j Hj Hev x Hx. rewrite !mem_cnt. pose proof (cnt_mono r at_ x Hx).
    rewrite cnt_skipn_le by lia.
    destruct (Nat.odd (cnt r x)) eqn:Eo; parity_goal. }
  destruct (Nat.even i) eqn:Ev.
  - repeat split; [now apply wf_firstn | now apply wf_skipn | exact HA |].
    apply HB; [|assumption]. destruct f; [destruct (S1 eq_refl) as (_ & C & _); lia | rewrite (S2 eq_refl); lia].
  - destruct f.
    + destruct (S1 eq_refl) as (Hl & C & _).
      repeat split; [now apply wf_firstn | now apply wf_skipn | exact HA |].
      apply HB; [lia|]. rewrite Nat.min_l by lia. parity_goal.
    + repeat split; [now apply wf_firstn | now apply wf_skipn | exact HA |].
      apply HB; [rewrite (S2 eq_refl); lia|]. destruct i as [|i]; [discriminate Ev|]. cbn [Nat.pred].
      rewrite Nat.even_succ in Ev. parity_goal.
Qed.

Lemma wf_single0 : wf_ranges [0] = true.
Proof. reflexivity. Qed.

Lemma split_inner_spec r start mid_ :
  wf_ranges r = true ->
  let '(a, b) := split_inner r start mid_ in
  wf_ranges a = true /\ wf_ranges b = true /\
  (forall x, start <= x -> x < mid_ -> mem a x = mem r x) /\ (forall x, mid_ <= x -> mem b x = mem r x).
Proof.
  intro Hwf. unfold split_inner. pose proof (r_split_spec r mid_ Hwf) as H.
  destruct (r_split r mid_) as [a b]. destruct H as (Wa & Wb & Ma & Mb).
  assert (HA : let a' := match a with [x] => if x <=? start then [0] else a | _ => a end in
               wf_ranges a' = true /\ forall x, start <= x -> x < mid_ -> mem a' x = mem r x).
  { destruct a as [|x [|y t]]; cbn zeta; try (split; [assumption | intros; now apply Ma]).
    destruct (x <=? start) eqn:E; [|split; [assumption | intros; now apply Ma]].
    apply N.leb_le in E. split; [reflexivity|]. intros z Hz1 Hz2. rewrite <- Ma by assumption.
    cbn [mem]. assert (E2 : (x <=? z) = true) by (apply N.leb_le; lia). rewrite E2. destruct z; reflexivity. }
  assert (HB : let b' := match b with [x] => if x <=? mid_ then [0] else b | _ => b end in
               wf_ranges b' = true /\ forall x, mid_ <= x -> mem b' x = mem r x).
  { destruct b as [|x [|y t]]; cbn zeta; try (split; [assumption | intros; now apply Mb]).
    destruct (x <=? mid_) eqn:E; [|split; [assumption | intros; now apply Mb]].
    apply N.leb_le in E. split; [reflexivity|]. intros z Hz. rewrite <- Mb by assumption.
    cbn [mem]. assert (E2 : (x <=? z) = true) by (apply N.leb_le; lia). rewrite E2. destruct z; reflexivity. }
  cbn zeta in HA, HB. destruct HA as [HA1 HA2]. destruct HB as [HB1 HB2]. auto.
Qed.
