(* C17 gap theorems: covering / leastness / greatest-ness corollaries, list-level idempotence,
   exact domains of the guards, tightness witnesses, release-build monotonicity and idempotence. *)
From BaoV Require Import Spec.RangeSpec Proofs.RangeBase Proofs.RangeTrunc Proofs.RangeUnion
  Proofs.RangeRound Proofs.RangeFull Proofs.RangeProofs.
From Coq Require Import Lia Arith PeanoNat ZArith ZifyN ZifyNat ZifyBool List.
Import ListNotations.
Ltac Zify.zify_post_hook ::= Z.div_mod_to_equations.
Arguments N.add : simpl never.
Arguments N.sub : simpl never.
Arguments N.mul : simpl never.
Arguments N.pow : simpl never.
Arguments N.shiftl : simpl never.
Arguments N.shiftr : simpl never.
Arguments N.land : simpl never.
Arguments N.div : simpl never.
Arguments N.modulo : simpl never.
Open Scope N_scope.

(* concrete guards over literal lists *)
Ltac conc_guard :=
  let i := fresh "i" in let x := fresh "x" in let Hi := fresh "Hi" in let Hn := fresh "Hn" in
  intros i x Hi Hn;
  do 6 (try (destruct i as [|i];
             [ try (cbn in Hi; discriminate Hi);
               try (cbn in Hn; inversion Hn; subst x; vm_compute; first [discriminate | reflexivity]) | ]));
  try (cbn in Hn; destruct i; discriminate Hn).

(* ------------------------------------------------------------------ *)
(* auxiliary facts                                                     *)
(* ------------------------------------------------------------------ *)
Lemma pow2_le_1024 bs : bs <= 10 -> 2 ^ bs <= 1024.
Proof. intro H. change 1024 with (2 ^ 10). apply N.pow_le_mono_r; lia. Qed.

Lemma mem_head x t : ssorted (x :: t) -> mem (x :: t) x = true.
Proof.
  intro Hs. cbn [mem]. rewrite N.leb_refl. rewrite mem_all_gt; [reflexivity | now apply ss_head_lt].
Qed.
Lemma mem_below x t c : c < x -> mem (x :: t) c = false.
Proof. intro H. cbn [mem]. assert (E : (x <=? c) = false) by (apply N.leb_gt; lia). now rewrite E. Qed.

Lemma mem_ext_ss : forall a b, ssorted a -> ssorted b -> (forall c, mem a c = mem b c) -> a = b.
Proof.
  induction a as [|x ta IH]; intros [|y tb] Sa Sb H.
  - reflexivity.
  - specialize (H y). rewrite (mem_head y tb Sb) in H. cbn [mem] in H. discriminate.
  - specialize (H x). rewrite (mem_head x ta Sa) in H. cbn [mem] in H. discriminate.
  - assert (E : x = y).
    { destruct (N.lt_trichotomy x y) as [L|[E|L]]; [exfalso | exact E | exfalso].
      - specialize (H x). rewrite (mem_head x ta Sa), (mem_below y tb x L) in H. discriminate.
      - specialize (H y). rewrite (mem_head y tb Sb), (mem_below x ta y L) in H. discriminate. }
    subst y. f_equal. apply IH; [eapply ss_tail; eauto | eapply ss_tail; eauto |].
    intro c. destruct (N.le_gt_cases x c) as [L|L].
    + specialize (H c). cbn [mem] in H.
      assert (E : (x <=? c) = true) by (apply N.leb_le; lia). rewrite E in H.
      destruct (mem ta c), (mem tb c); try reflexivity; discriminate.
    + rewrite !mem_all_gt; [reflexivity | |].
      * apply (Forall_gt_trans c x); [lia | now apply ss_head_lt].
      * apply (Forall_gt_trans c x); [lia | now apply ss_head_lt].
Qed.

(* extensionality of well-formed boundary lists *)
Lemma mem_ext : forall a b,
  wf_ranges a = true -> wf_ranges b = true -> (forall c, mem a c = mem b c) -> a = b.
Proof.
  intros a b Wa Wb H. apply wf_iff in Wa. apply wf_iff in Wb.
  apply mem_ext_ss; [apply Wa | apply Wb | exact H].
Qed.

(* converses of iter_pos_some / iter_pos_none *)
Lemma iter_in_conv r : forall i s e,
  Nat.even i = true -> nth_error r i = Some s -> nth_error r (S i) = Some e -> In (s, Some e) (r_iter r).
Proof.
  induction r as [| a | a b t IH] using pair_ind; intros i s e Ei Hs He.
  - destruct i; discriminate Hs.
  - cbn [nth_error] in He. destruct i; discriminate He.
  - destruct i as [|[|i]].
    + cbn [nth_error] in Hs, He. inversion Hs; inversion He; subst. cbn [r_iter In]. now left.
    + discriminate Ei.
    + cbn [r_iter In]. right. apply (IH i); assumption.
Qed.

Lemma iter_start_conv r : forall i s,
  Nat.even i = true -> nth_error r i = Some s -> exists oe, In (s, oe) (r_iter r).
Proof.
  induction r as [| a | a b t IH] using pair_ind; intros i s Ei Hs.
  - destruct i; discriminate Hs.
  - destruct i as [|i].
    + inversion Hs; subst. exists None. cbn [r_iter In]. now left.
    + cbn [nth_error] in Hs. destruct i; discriminate Hs.
  - destruct i as [|[|i]].
    + inversion Hs; subst. exists (Some b). cbn [r_iter In]. now left.
    + discriminate Ei.
    + destruct (IH i s Ei Hs) as [oe H]. exists oe. cbn [r_iter In]. now right.
Qed.

Lemma even_len_iter r : Nat.even (length r) = true ->
  forall s oe, In (s, oe) (r_iter r) -> exists e, oe = Some e.
Proof.
  induction r as [| a | a b t IH] using pair_ind; intros El s oe H.
  - destruct H.
  - discriminate El.
  - cbn [r_iter In] in H. destruct H as [H|H].
    + inversion H; subst. eauto.
    + apply (IH El s oe H).
Qed.

(* the chunk just below a closed end boundary is a member *)
Lemma odd_idx_mem r i e : ssorted r -> Nat.odd i = true -> nth_error r i = Some e -> mem r (e - 1) = true.
Proof.
  intros Hs Hi Hn. destruct i as [|j]; [discriminate Hi|]. rewrite Nat.odd_succ in Hi.
  destruct (nth_error r j) as [s|] eqn:Ej.
  - pose proof (iter_in_conv r j s e Hi Ej Hn) as Hit.
    pose proof (iter_lt r s e Hs Hit) as Hlt.
    rewrite mem_iter by assumption. apply existsb_exists. exists (s, Some e). split; [assumption|].
    cbn [covers]. apply andb_true_iff. rewrite N.leb_le, N.ltb_lt. lia.
  - exfalso. apply nth_error_None in Ej.
    assert (Hl : (S j < length r)%nat) by (apply nth_error_Some; congruence). lia.
Qed.

Lemma Fg_wf r bs : wf_ranges r = true -> forall it, In it (r_iter r) -> wf_ranges (Fg bs it) = true.
Proof.
  intros Hwf. apply wf_iff in Hwf. destruct Hwf as [Hs Hw]. pose proof (pow2_pos bs) as HD.
  intros [s [e|]] Hit; cbn [Fg].
  - apply iter_in_some in Hit. destruct Hit as [Is Ie].
    pose proof (allw_in _ _ Hw Is). apply wf_from_range.
    + rewrite chunk_group_start_eq. pose proof (div_mul_le s _ HD). lia.
    + rewrite chunk_group_end_w_eq. apply N.mod_lt. discriminate.
  - apply iter_in_none in Hit. pose proof (allw_in _ _ Hw Hit).
    apply wf_from_range_from. rewrite chunk_group_start_eq. pose proof (div_mul_le s _ HD). lia.
Qed.

(* a wrapped multiple of 2^bs is a multiple of 2^bs below 2^64 *)
Lemma mod_mult_guard bs k : bs <= 64 -> (k * 2 ^ bs) mod W64 <= W64 - 2 ^ bs.
Proof.
  intro Hbs. pose proof (pow2_pos bs) as HD. pose proof (pow2_pos (64 - bs)) as HM.
  assert (E : (k * 2 ^ bs) mod W64 = (k mod 2 ^ (64 - bs)) * 2 ^ bs).
  { rewrite (W64_split bs Hbs). apply N.mul_mod_distr_r; lia. }
  apply (multiple_guard bs _ (k mod 2 ^ (64 - bs))); [assumption | | exact E].
  apply N.mod_lt. discriminate.
Qed.

Lemma top_group bs e : bs <= 64 -> W64 - 2 ^ bs < e -> e < W64 ->
  cdiv e (2 ^ bs) * 2 ^ bs = W64 /\ e / 2 ^ bs * 2 ^ bs = W64 - 2 ^ bs.
Proof.
  intros Hbs H1 H2. pose proof (pow2_pos bs) as HD. pose proof (pow2_pos (64 - bs)) as HM'.
  pose proof (W64_split bs Hbs) as HW.
  set (D := 2 ^ bs) in *. set (M := 2 ^ (64 - bs)) in *.
  assert (HM : (M - 1) * D = W64 - D) by (rewrite N.mul_sub_distr_r; lia).
  split.
  - assert (E : cdiv e D = M).
    { assert (A : cdiv e D <= M) by (apply cdiv_le; [assumption | lia]).
      assert (B : M - 1 < cdiv e D) by (apply cdiv_iff; [assumption | lia]). lia. }
    rewrite E. lia.
  - assert (E : e / D = M - 1).
    { apply div_iff; [assumption|]. replace (M - 1 + 1) with M by lia. lia. }
    rewrite E. exact HM.
Qed.

Lemma end_wraps e bs : bs <= 64 -> W64 - 2 ^ bs < e -> e < W64 -> chunk_group_end_w e bs = 0.
Proof.
  intros Hbs H1 H2. rewrite chunk_group_end_w_eq.
  rewrite (proj1 (top_group bs e Hbs H1 H2)). apply N.mod_same. discriminate.
Qed.

(* ================================================================== *)
(* A. round_up_to_chunks                                               *)
(* ================================================================== *)
Theorem gap_chunks_covers : forall br,
  wf_ranges br = true ->
  forall b, mem br b = true -> mem (round_up_to_chunks br) (b / 1024) = true.
Proof. intros br W b Hb. apply (proj2 (round_up_to_chunks_spec br W)). exists b. auto. Qed.

Theorem gap_chunks_least : forall br (P : N -> bool),
  wf_ranges br = true ->
  (forall b, mem br b = true -> P (b / 1024) = true) ->
  forall c, mem (round_up_to_chunks br) c = true -> P c = true.
Proof.
  intros br P W H c Hc. apply (proj2 (round_up_to_chunks_spec br W)) in Hc.
  destruct Hc as (b & Hb & <-). auto.
Qed.

Lemma gap_chunks_covers_nonvacuous :
  exists br b, wf_ranges br = true /\ mem br b = true /\
               mem (round_up_to_chunks br) (b / 1024) = true /\ mem br (b / 1024) = false.
Proof. exists [1500; 3000], 2000. repeat split; vm_compute; reflexivity. Qed.

Lemma gap_chunks_least_nonvacuous :
  exists br (P : N -> bool), wf_ranges br = true /\
    (forall b, mem br b = true -> P (b / 1024) = true) /\ P 0 = false /\ P 1 = true /\ P 3 = false.
Proof.
  exists [1500; 3000], (fun c => (1 <=? c) && (c <? 3)).
  split; [reflexivity|]. split; [|repeat split; vm_compute; reflexivity].
  intros b Hb. cbn [mem] in Hb.
  destruct (N.leb_spec 1500 b) as [L1|L1]; [|discriminate Hb].
  destruct (N.leb_spec 3000 b) as [L2|L2]; [discriminate Hb|].
  apply andb_true_iff. rewrite N.leb_le, N.ltb_lt. lia.
Qed.

(* ================================================================== *)
(* B. round_up_to_chunks_groups                                        *)
(* ================================================================== *)
Theorem gap_groups_superset : forall r bs,
  bs <= 10 -> wf_ranges r = true ->
  (forall i e, Nat.odd i = true -> nth_error r i = Some e -> e <= 2 ^ 64 - 2 ^ bs) ->
  forall c, mem r c = true -> mem (round_up_to_chunks_groups r bs) c = true.
Proof.
  intros r bs Hbs W G c Hc. apply (proj2 (round_up_to_chunks_groups_spec r bs Hbs W G)).
  exists c. auto.
Qed.

Theorem gap_groups_aligned : forall r bs,
  bs <= 10 -> wf_ranges r = true ->
  (forall i e, Nat.odd i = true -> nth_error r i = Some e -> e <= 2 ^ 64 - 2 ^ bs) ->
  forall c c', c / 2 ^ bs = c' / 2 ^ bs ->
    mem (round_up_to_chunks_groups r bs) c = mem (round_up_to_chunks_groups r bs) c'.
Proof.
  intros r bs Hbs W G c c' E. destruct (round_up_to_chunks_groups_spec r bs Hbs W G) as [_ S1].
  apply b2. rewrite !S1. split; intros (x & Hx & Ex); exists x; (split; [assumption | congruence]).
Qed.

Theorem gap_groups_least : forall r bs,
  bs <= 10 -> wf_ranges r = true ->
  (forall i e, Nat.odd i = true -> nth_error r i = Some e -> e <= 2 ^ 64 - 2 ^ bs) ->
  forall P : N -> bool,
    (forall c, mem r c = true -> P c = true) ->
    (forall c c', c / 2 ^ bs = c' / 2 ^ bs -> P c = P c') ->
    forall c, mem (round_up_to_chunks_groups r bs) c = true -> P c = true.
Proof.
  intros r bs Hbs W G P Hsup Hal c Hc.
  apply (proj2 (round_up_to_chunks_groups_spec r bs Hbs W G)) in Hc.
  destruct Hc as (c' & Hc' & E). rewrite (Hal c c' E). auto.
Qed.

Theorem gap_groups_idem_list : forall r bs,
  bs <= 10 -> wf_ranges r = true ->
  (forall i e, Nat.odd i = true -> nth_error r i = Some e -> e <= 2 ^ 64 - 2 ^ bs) ->
  round_up_to_chunks_groups (round_up_to_chunks_groups r bs) bs = round_up_to_chunks_groups r bs.
Proof.
  intros r bs Hbs W G.
  destruct (round_up_to_chunks_groups_spec r bs Hbs W G) as [W1 _].
  destruct (round_up_to_chunks_groups_spec _ bs Hbs W1 (groups_out_guard r bs Hbs W G)) as [W2 _].
  apply mem_ext; [assumption | assumption |]. apply round_up_to_chunks_groups_idem; assumption.
Qed.

(* shared concrete instance of the guard *)
Lemma gap_groups_guard_inst :
  forall i e, Nat.odd i = true -> nth_error [5; 100; 200; 18446744073709551600] i = Some e -> e <= 2 ^ 64 - 2 ^ 4.
Proof. conc_guard. Qed.

Lemma gap_groups_superset_nonvacuous :
  exists r bs c, bs <= 10 /\ wf_ranges r = true /\
    (forall i e, Nat.odd i = true -> nth_error r i = Some e -> e <= 2 ^ 64 - 2 ^ bs) /\
    mem r c = true /\ round_up_to_chunks_groups r bs <> r.
Proof.
  exists [5; 100; 200; 18446744073709551600], 4, 7.
  split; [discriminate|]. split; [vm_compute; reflexivity|]. split; [exact gap_groups_guard_inst|].
  split; [vm_compute; reflexivity | vm_compute; discriminate].
Qed.

Lemma gap_groups_aligned_nonvacuous :
  exists r bs c c', bs <= 10 /\ wf_ranges r = true /\
    (forall i e, Nat.odd i = true -> nth_error r i = Some e -> e <= 2 ^ 64 - 2 ^ bs) /\
    c / 2 ^ bs = c' / 2 ^ bs /\ c <> c' /\ mem r c <> mem r c'.
Proof.
  exists [5; 100; 200; 18446744073709551600], 4, 3, 7.
  split; [discriminate|]. split; [vm_compute; reflexivity|]. split; [exact gap_groups_guard_inst|].
  split; [vm_compute; reflexivity|]. split; [discriminate | vm_compute; discriminate].
Qed.

Lemma gap_groups_least_nonvacuous :
  exists r bs (P : N -> bool), bs <= 10 /\ wf_ranges r = true /\
    (forall i e, Nat.odd i = true -> nth_error r i = Some e -> e <= 2 ^ 64 - 2 ^ bs) /\
    (forall c, mem r c = true -> P c = true) /\
    (forall c c', c / 2 ^ bs = c' / 2 ^ bs -> P c = P c') /\
    P 0 = true /\ P 16 = false.
Proof.
  exists [3; 7], 4, (fun c => c / 2 ^ 4 =? 0).
  split; [discriminate|]. split; [vm_compute; reflexivity|]. split; [conc_guard|].
  split; [|split; [|split; vm_compute; reflexivity]].
  - intros c Hc. cbn [mem] in Hc. change (2 ^ 4) with 16.
    destruct (N.leb_spec 3 c) as [L1|L1]; [|discriminate Hc].
    destruct (N.leb_spec 7 c) as [L2|L2]; [discriminate Hc|].
    apply N.eqb_eq. lia.
  - intros c c' E. now rewrite E.
Qed.

Lemma gap_groups_idem_list_nonvacuous :
  exists r bs, bs <= 10 /\ wf_ranges r = true /\
    (forall i e, Nat.odd i = true -> nth_error r i = Some e -> e <= 2 ^ 64 - 2 ^ bs) /\
    round_up_to_chunks_groups r bs <> r /\ round_up_to_chunks_groups r bs <> [].
Proof.
  exists [5; 100; 200; 18446744073709551600], 4.
  split; [discriminate|]. split; [vm_compute; reflexivity|]. split; [exact gap_groups_guard_inst|].
  split; vm_compute; discriminate.
Qed.

(* ---- tightness of the guard ---- *)
Theorem gap_groups_guard_tight : forall bs s e,
  bs <= 10 -> s < e -> e < 2 ^ 64 -> 2 ^ 64 - 2 ^ bs < e ->
  round_up_to_chunks_groups [s; e] bs = [].
Proof.
  intros bs s e Hbs Hse He Hg. change (2 ^ 64) with W64 in *.
  unfold round_up_to_chunks_groups. cbn [r_iter fold_left].
  rewrite (end_wraps e bs) by (assumption || lia).
  unfold r_from_range.
  assert (E : (chunk_group_start s bs <? 0) = false) by (apply N.ltb_ge; lia).
  rewrite E. reflexivity.
Qed.

Lemma gap_groups_guard_tight_nonvacuous :
  exists bs s e, bs <= 10 /\ s < e /\ e < 2 ^ 64 /\ 2 ^ 64 - 2 ^ bs < e /\
                 wf_ranges [s; e] = true /\ mem [s; e] s = true.
Proof. exists 4, 5, 18446744073709551615. repeat split; vm_compute; congruence. Qed.

Theorem gap_groups_domain_closed : forall r bs,
  bs <= 10 -> wf_ranges r = true -> Nat.even (length r) = true ->
  ((forall c, mem r c = true -> mem (round_up_to_chunks_groups r bs) c = true)
   <-> (forall i e, Nat.odd i = true -> nth_error r i = Some e -> e <= 2 ^ 64 - 2 ^ bs)).
Proof.
  intros r bs Hbs W El. split.
  - intros Hsup i e Hi Hn. change (2 ^ 64) with W64.
    destruct (N.le_gt_cases e (W64 - 2 ^ bs)) as [L|L]; [assumption | exfalso].
    pose proof W as W'. apply wf_iff in W'. destruct W' as [Hs Hw].
    pose proof (odd_idx_mem r i e Hs Hi Hn) as Hm. apply Hsup in Hm.
    rewrite round_up_to_chunks_groups_fold in Hm.
    destruct (fold_union_spec (Fg bs) (r_iter r) [] eq_refl (Fg_wf r bs W)) as [_ M].
    rewrite M in Hm. cbn [mem orb] in Hm. apply existsb_exists in Hm.
    destruct Hm as ([s' oe'] & Hit & Hc).
    destruct (even_len_iter r El s' oe' Hit) as [e' ->]. cbn [Fg] in Hc.
    rewrite mem_from_range, andb_true_iff, N.leb_le, N.ltb_lt in Hc. destruct Hc as [_ Hc].
    rewrite chunk_group_end_w_eq in Hc.
    pose proof (mod_mult_guard bs (cdiv e' (2 ^ bs)) ltac:(lia)). lia.
  - intros G c Hc. now apply gap_groups_superset.
Qed.

Lemma gap_groups_domain_closed_nonvacuous :
  (exists r bs, bs <= 10 /\ wf_ranges r = true /\ Nat.even (length r) = true /\ r <> [] /\
     (forall i e, Nat.odd i = true -> nth_error r i = Some e -> e <= 2 ^ 64 - 2 ^ bs)) /\
  (exists r bs, bs <= 10 /\ wf_ranges r = true /\ Nat.even (length r) = true /\
     ~ (forall c, mem r c = true -> mem (round_up_to_chunks_groups r bs) c = true)).
Proof.
  split.
  - exists [5; 100; 200; 18446744073709551600], 4.
    split; [discriminate|]. split; [vm_compute; reflexivity|]. split; [reflexivity|].
    split; [discriminate | exact gap_groups_guard_inst].
  - exists [5; 18446744073709551615], 4.
    split; [discriminate|]. split; [vm_compute; reflexivity|]. split; [reflexivity|].
    intro H. specialize (H 5 ltac:(vm_compute; reflexivity)). vm_compute in H. discriminate H.
Qed.

(* the guard is sufficient, not necessary, once an open-ended range is present *)
Theorem gap_groups_guard_not_necessary :
  wf_ranges [18446744073709551613; 18446744073709551614; 18446744073709551615] = true /\
  round_up_to_chunks_groups [18446744073709551613; 18446744073709551614; 18446744073709551615] 4
    = [18446744073709551600] /\
  ~ (forall i e, Nat.odd i = true ->
       nth_error [18446744073709551613; 18446744073709551614; 18446744073709551615] i = Some e ->
       e <= 2 ^ 64 - 2 ^ 4) /\
  (forall c,
     mem (round_up_to_chunks_groups [18446744073709551613; 18446744073709551614; 18446744073709551615] 4) c = true
     <-> exists c', mem [18446744073709551613; 18446744073709551614; 18446744073709551615] c' = true /\
                    c / 2 ^ 4 = c' / 2 ^ 4).
Proof.
  assert (Hout : round_up_to_chunks_groups [18446744073709551613; 18446744073709551614; 18446744073709551615] 4
                 = [18446744073709551600]) by (vm_compute; reflexivity).
  split; [vm_compute; reflexivity|]. split; [exact Hout|]. split.
  - intro H. specialize (H 1%nat 18446744073709551614 eq_refl eq_refl). vm_compute in H. apply H. reflexivity.
  - intro c. rewrite Hout. change (2 ^ 4) with 16. cbn [mem]. split.
    + destruct (N.leb_spec 18446744073709551600 c) as [L|L]; [|discriminate]. intros _.
      destruct (N.le_gt_cases 18446744073709551615 c) as [L2|L2].
      * exists c. split; [|reflexivity].
        assert (E1 : (18446744073709551613 <=? c) = true) by (apply N.leb_le; lia).
        assert (E2 : (18446744073709551614 <=? c) = true) by (apply N.leb_le; lia).
        assert (E3 : (18446744073709551615 <=? c) = true) by (apply N.leb_le; lia).
        rewrite E1, E2, E3. reflexivity.
      * exists 18446744073709551615. split; [vm_compute; reflexivity|]. lia.
    + intros (c' & Hc' & E).
      destruct (N.leb_spec 18446744073709551613 c') as [L1|L1]; [|discriminate Hc'].
      assert (E0 : (18446744073709551600 <=? c) = true) by (apply N.leb_le; lia).
      rewrite E0. reflexivity.
Qed.

(* ================================================================== *)
(* C. full_chunk_groups                                                *)
(* ================================================================== *)
(* ---- C1: consequences of the exact characterisation ---- *)
Lemma full_char_props (r res : ranges) (bs : N) :
  (forall c, mem res c = true <-> (forall c', c' / 2 ^ bs = c / 2 ^ bs -> mem r c' = true)) ->
  (forall c, mem res c = true -> mem r c = true) /\
  (forall c c', c / 2 ^ bs = c' / 2 ^ bs -> mem res c = mem res c') /\
  (forall P : N -> bool,
     (forall c, P c = true -> mem r c = true) ->
     (forall c c', c / 2 ^ bs = c' / 2 ^ bs -> P c = P c') ->
     forall c, P c = true -> mem res c = true).
Proof.
  intro S1. split; [|split].
  - intros c Hc. apply (proj1 (S1 c) Hc c). reflexivity.
  - intros c c' E. apply b2. rewrite !S1. split; intros H x Hx; apply H; congruence.
  - intros P Hsub Hal c Hc. apply S1. intros c' E. apply Hsub. rewrite (Hal c' c E). exact Hc.
Qed.

Lemma dev_char r bs res :
  bs <= 10 -> wf_ranges r = true -> starts_ok r bs -> full_chunk_groups_dev r bs = Some res ->
  forall c, mem res c = true <-> (forall c', c' / 2 ^ bs = c / 2 ^ bs -> mem r c' = true).
Proof.
  intros Hbs W G E. destruct (full_chunk_groups_spec r bs Hbs W G) as (x & D1 & _ & _ & S1).
  assert (x = res) by congruence. subst x. exact S1.
Qed.
Lemma rel_char r bs res :
  bs <= 10 -> wf_ranges r = true -> starts_ok_weak r bs -> full_chunk_groups_rel r bs = Some res ->
  wf_ranges res = true /\
  forall c, mem res c = true <-> (forall c', c' / 2 ^ bs = c / 2 ^ bs -> mem r c' = true).
Proof.
  intros Hbs W G E. destruct (full_chunk_groups_rel_spec r bs Hbs W G) as (x & D1 & W1 & S1).
  assert (x = res) by congruence. subst x. auto.
Qed.

Theorem gap_full_dev_subset : forall r bs res,
  bs <= 10 -> wf_ranges r = true ->
  (forall i s, Nat.even i = true -> nth_error r i = Some s -> s < 2 ^ 64 - 2 ^ bs) ->
  full_chunk_groups_dev r bs = Some res ->
  forall c, mem res c = true -> mem r c = true.
Proof. intros r bs res Hbs W G E. apply (full_char_props r res bs (dev_char r bs res Hbs W G E)). Qed.

Theorem gap_full_dev_aligned : forall r bs res,
  bs <= 10 -> wf_ranges r = true ->
  (forall i s, Nat.even i = true -> nth_error r i = Some s -> s < 2 ^ 64 - 2 ^ bs) ->
  full_chunk_groups_dev r bs = Some res ->
  forall c c', c / 2 ^ bs = c' / 2 ^ bs -> mem res c = mem res c'.
Proof. intros r bs res Hbs W G E. apply (full_char_props r res bs (dev_char r bs res Hbs W G E)). Qed.

Theorem gap_full_dev_greatest : forall r bs res,
  bs <= 10 -> wf_ranges r = true ->
  (forall i s, Nat.even i = true -> nth_error r i = Some s -> s < 2 ^ 64 - 2 ^ bs) ->
  full_chunk_groups_dev r bs = Some res ->
  forall P : N -> bool,
    (forall c, P c = true -> mem r c = true) ->
    (forall c c', c / 2 ^ bs = c' / 2 ^ bs -> P c = P c') ->
    forall c, P c = true -> mem res c = true.
Proof. intros r bs res Hbs W G E. apply (full_char_props r res bs (dev_char r bs res Hbs W G E)). Qed.

Theorem gap_full_rel_subset : forall r bs res,
  bs <= 10 -> wf_ranges r = true ->
  (forall i s, Nat.even i = true -> nth_error r i = Some s -> s <= 2 ^ 64 - 2 ^ bs) ->
  full_chunk_groups_rel r bs = Some res ->
  forall c, mem res c = true -> mem r c = true.
Proof.
  intros r bs res Hbs W G E. apply (full_char_props r res bs (proj2 (rel_char r bs res Hbs W G E))).
Qed.

Theorem gap_full_rel_aligned : forall r bs res,
  bs <= 10 -> wf_ranges r = true ->
  (forall i s, Nat.even i = true -> nth_error r i = Some s -> s <= 2 ^ 64 - 2 ^ bs) ->
  full_chunk_groups_rel r bs = Some res ->
  forall c c', c / 2 ^ bs = c' / 2 ^ bs -> mem res c = mem res c'.
Proof.
  intros r bs res Hbs W G E. apply (full_char_props r res bs (proj2 (rel_char r bs res Hbs W G E))).
Qed.

Theorem gap_full_rel_greatest : forall r bs res,
  bs <= 10 -> wf_ranges r = true ->
  (forall i s, Nat.even i = true -> nth_error r i = Some s -> s <= 2 ^ 64 - 2 ^ bs) ->
  full_chunk_groups_rel r bs = Some res ->
  forall P : N -> bool,
    (forall c, P c = true -> mem r c = true) ->
    (forall c c', c / 2 ^ bs = c' / 2 ^ bs -> P c = P c') ->
    forall c, P c = true -> mem res c = true.
Proof.
  intros r bs res Hbs W G E. apply (full_char_props r res bs (proj2 (rel_char r bs res Hbs W G E))).
Qed.

(* shared concrete instances: strict guard, and weak-but-not-strict guard *)
Lemma gap_full_strict_inst :
  forall i s, Nat.even i = true -> nth_error [5; 100; 200] i = Some s -> s < 2 ^ 64 - 2 ^ 4.
Proof. conc_guard. Qed.
Lemma gap_full_weak_inst :
  forall i s, Nat.even i = true -> nth_error [5; 100; 18446744073709551600] i = Some s -> s <= 2 ^ 64 - 2 ^ 4.
Proof. conc_guard. Qed.

Lemma gap_full_dev_nonvacuous :
  exists r bs res c, bs <= 10 /\ wf_ranges r = true /\
    (forall i s, Nat.even i = true -> nth_error r i = Some s -> s < 2 ^ 64 - 2 ^ bs) /\
    full_chunk_groups_dev r bs = Some res /\ mem res c = true /\ res <> r /\
    exists P : N -> bool,
      (forall c, P c = true -> mem r c = true) /\
      (forall c c', c / 2 ^ bs = c' / 2 ^ bs -> P c = P c') /\ P 16 = true /\ P 0 = false.
Proof.
  exists [5; 100; 200], 4, [16; 96; 208], 20.
  split; [discriminate|]. split; [vm_compute; reflexivity|]. split; [exact gap_full_strict_inst|].
  split; [vm_compute; reflexivity|]. split; [vm_compute; reflexivity|]. split; [discriminate|].
  exists (fun c => c / 2 ^ 4 =? 1). split; [|split; [|split; vm_compute; reflexivity]].
  - intros c Hc. apply N.eqb_eq in Hc. change (2 ^ 4) with 16 in Hc. cbn [mem].
    assert (E1 : (5 <=? c) = true) by (apply N.leb_le; lia).
    assert (E2 : (100 <=? c) = false) by (apply N.leb_gt; lia). rewrite E1, E2. reflexivity.
  - intros c c' E. now rewrite E.
Qed.

(* an instance that satisfies the weak guard but not the strict one *)
Lemma gap_full_rel_nonvacuous :
  exists r bs res c, bs <= 10 /\ wf_ranges r = true /\
    (forall i s, Nat.even i = true -> nth_error r i = Some s -> s <= 2 ^ 64 - 2 ^ bs) /\
    ~ (forall i s, Nat.even i = true -> nth_error r i = Some s -> s < 2 ^ 64 - 2 ^ bs) /\
    full_chunk_groups_rel r bs = Some res /\ full_chunk_groups_dev r bs = None /\
    mem res c = true /\ res <> r /\
    exists P : N -> bool,
      (forall c, P c = true -> mem r c = true) /\
      (forall c c', c / 2 ^ bs = c' / 2 ^ bs -> P c = P c') /\ P 16 = true /\ P 0 = false.
Proof.
  exists [5; 100; 18446744073709551600], 4, [16; 96; 18446744073709551600], 20.
  split; [discriminate|]. split; [vm_compute; reflexivity|]. split; [exact gap_full_weak_inst|].
  split.
  { intro H. specialize (H 2%nat 18446744073709551600 eq_refl eq_refl). vm_compute in H. discriminate H. }
  split; [vm_compute; reflexivity|]. split; [vm_compute; reflexivity|].
  split; [vm_compute; reflexivity|]. split; [discriminate|].
  exists (fun c => c / 2 ^ 4 =? 1). split; [|split; [|split; vm_compute; reflexivity]].
  - intros c Hc. apply N.eqb_eq in Hc. change (2 ^ 4) with 16 in Hc. cbn [mem].
    assert (E1 : (5 <=? c) = true) by (apply N.leb_le; lia).
    assert (E2 : (100 <=? c) = false) by (apply N.leb_gt; lia). rewrite E1, E2. reflexivity.
  - intros c c' E. now rewrite E.
Qed.

(* ---- C2: exact domain of the debug build ---- *)
Lemma gstep_none ceil bs items : fold_left (gstep ceil bs) items None = None.
Proof. induction items as [|it items IH]; cbn [fold_left]; [reflexivity | exact IH]. Qed.

Lemma gstep_hit ceil bs items : forall acc s oe,
  In (s, oe) items -> ceil s bs = None -> fold_left (gstep ceil bs) items acc = None.
Proof.
  induction items as [|it items IH]; intros acc s oe Hin Hc; [destruct Hin|].
  cbn [fold_left]. destruct Hin as [->|Hin].
  - destruct acc as [res|]; [|apply gstep_none].
    assert (E : gstep ceil bs (Some res) (s, oe) = None).
    { unfold gstep. rewrite Hc. destruct oe; reflexivity. }
    rewrite E. apply gstep_none.
  - apply (IH _ s oe Hin Hc).
Qed.

Lemma fcg_ceil_checked_none s bs : W64 <= s + 2 ^ bs -> fcg_ceil_checked s bs = None.
Proof.
  intro H. unfold fcg_ceil_checked. rewrite N.shiftl_mul_pow2, N.mul_1_l.
  assert (E : (W64 <=? s + 2 ^ bs) = true) by (apply N.leb_le; lia). now rewrite E.
Qed.

Theorem gap_full_dev_domain : forall r bs,
  bs <= 10 -> wf_ranges r = true ->
  (full_chunk_groups_dev r bs <> None
   <-> (forall i s, Nat.even i = true -> nth_error r i = Some s -> s < 2 ^ 64 - 2 ^ bs)).
Proof.
  intros r bs Hbs W. split.
  - intros Hnn i s Hi Hn. change (2 ^ 64) with W64.
    destruct (N.lt_ge_cases s (W64 - 2 ^ bs)) as [L|L]; [assumption | exfalso].
    apply Hnn. destruct (iter_start_conv r i s Hi Hn) as [oe Hit].
    unfold full_chunk_groups_dev. rewrite gen_unfold.
    apply (gstep_hit _ _ _ _ s oe Hit). apply fcg_ceil_checked_none. lia.
  - intros G. destruct (full_chunk_groups_spec r bs Hbs W G) as (res & D1 & _). congruence.
Qed.

Lemma gap_full_dev_domain_nonvacuous :
  (exists r bs, bs <= 10 /\ wf_ranges r = true /\ full_chunk_groups_dev r bs <> None /\ r <> []) /\
  (exists r bs, bs <= 10 /\ wf_ranges r = true /\ full_chunk_groups_dev r bs = None).
Proof.
  split.
  - exists [5; 100; 200], 4. split; [discriminate|]. split; [vm_compute; reflexivity|].
    split; [vm_compute; discriminate | discriminate].
  - exists [5; 100; 18446744073709551600], 4. split; [discriminate|].
    split; vm_compute; reflexivity.
Qed.

(* ---- C3: the weak guard is tight for the release build ---- *)
Lemma ceil_wraps s bs : bs <= 10 -> W64 - 2 ^ bs < s -> s < W64 -> fcg_ceil_wrapping s bs = 0.
Proof.
  intros Hbs H1 H2. pose proof (pow2_pos bs) as HD. pose proof (pow2_le_1024 bs Hbs) as HD'.
  unfold fcg_ceil_wrapping, shl64, wrap64.
  rewrite !N.shiftl_mul_pow2, N.shiftr_div_pow2, N.mul_1_l.
  set (D := 2 ^ bs) in *.
  assert (E1 : (s + D) mod W64 = s + D - W64) by (unfold W64 in *; lia).
  rewrite E1.
  assert (E2 : (s + D - W64 + MAX64) mod W64 = s + D - W64 - 1) by (unfold W64, MAX64 in *; lia).
  rewrite E2.
  rewrite (N.div_small (s + D - W64 - 1) D) by (unfold W64 in *; lia).
  reflexivity.
Qed.

Theorem gap_full_rel_tight_open : forall bs s,
  bs <= 10 -> 2 ^ 64 - 2 ^ bs < s -> s < 2 ^ 64 ->
  full_chunk_groups_rel [s] bs = Some [0] /\ mem [s] 0 = false.
Proof.
  intros bs s Hbs H1 H2. change (2 ^ 64) with W64 in *. split.
  - unfold full_chunk_groups_rel, full_chunk_groups_gen. cbn [r_iter fold_left].
    rewrite (ceil_wraps s bs Hbs H1 H2). reflexivity.
  - apply mem_below. pose proof (pow2_le_1024 bs Hbs). unfold W64 in *. lia.
Qed.

Theorem gap_full_rel_tight_closed : forall bs s e,
  bs <= 10 -> 2 ^ 64 - 2 ^ bs < s -> s < e -> e < 2 ^ 64 ->
  exists res, full_chunk_groups_rel [s; e] bs = Some res /\ res = [0; 2 ^ 64 - 2 ^ bs] /\
              mem res 0 = true /\ mem [s; e] 0 = false.
Proof.
  intros bs s e Hbs H1 Hse H2. change (2 ^ 64) with W64 in *.
  pose proof (pow2_le_1024 bs Hbs) as HD'. pose proof (pow2_pos bs) as HD.
  exists [0; W64 - 2 ^ bs]. split; [|split; [reflexivity | split]].
  - unfold full_chunk_groups_rel, full_chunk_groups_gen. cbn [r_iter fold_left].
    rewrite (ceil_wraps s bs Hbs H1 ltac:(lia)).
    rewrite (fcg_floor_eq e bs H2).
    rewrite (proj2 (top_group bs e ltac:(lia) ltac:(lia) H2)).
    assert (E : (0 <? W64 - 2 ^ bs) = true) by (apply N.ltb_lt; unfold W64 in *; lia).
    rewrite E. unfold r_from_range. rewrite E. reflexivity.
  - cbn [mem]. rewrite N.leb_refl.
    assert (E : (W64 - 2 ^ bs <=? 0) = false) by (apply N.leb_gt; unfold W64 in *; lia).
    rewrite E. reflexivity.
  - apply mem_below. unfold W64 in *. lia.
Qed.

Theorem gap_full_rel_guard_exact : forall bs s,
  bs <= 10 -> s < 2 ^ 64 ->
  ((exists res, full_chunk_groups_rel [s] bs = Some res /\ forall c, mem res c = true -> mem [s] c = true)
   <-> s <= 2 ^ 64 - 2 ^ bs).
Proof.
  intros bs s Hbs Hs. split.
  - intros (res & E & Hsub). destruct (N.le_gt_cases s (2 ^ 64 - 2 ^ bs)) as [L|L]; [assumption | exfalso].
    destruct (gap_full_rel_tight_open bs s Hbs L Hs) as [E0 Hm].
    assert (res = [0]) by congruence. subst res.
    specialize (Hsub 0 eq_refl). congruence.
  - intros L.
    assert (W : wf_ranges [s] = true).
    { apply wf_iff. split; [reflexivity | repeat constructor; exact Hs]. }
    assert (G : starts_ok_weak [s] bs).
    { intros i x _ Hn. destruct i as [|i]; [inversion Hn; subst; exact L|].
      cbn [nth_error] in Hn. destruct i; discriminate Hn. }
    destruct (full_chunk_groups_rel_spec [s] bs Hbs W G) as (res & E & _ & S1).
    exists res. split; [assumption|]. intros c Hc. apply (proj1 (S1 c) Hc c). reflexivity.
Qed.

(* the weak guard is sufficient, not necessary, for an individual range set: the start 2^64-10
   violates it, its ceil wraps to 0, and the spurious range [0, 2^64-16) is part of the answer anyway *)
Theorem gap_full_rel_guard_not_necessary :
  wf_ranges [0; 18446744073709551600; 18446744073709551606; 18446744073709551611] = true /\
  full_chunk_groups_rel [0; 18446744073709551600; 18446744073709551606; 18446744073709551611] 4
    = Some [0; 18446744073709551600] /\
  full_chunk_groups_dev [0; 18446744073709551600; 18446744073709551606; 18446744073709551611] 4 = None /\
  ~ (forall i s, Nat.even i = true ->
       nth_error [0; 18446744073709551600; 18446744073709551606; 18446744073709551611] i = Some s ->
       s <= 2 ^ 64 - 2 ^ 4) /\
  (forall c, mem [0; 18446744073709551600] c = true
             <-> (forall c', c' / 2 ^ 4 = c / 2 ^ 4 ->
                    mem [0; 18446744073709551600; 18446744073709551606; 18446744073709551611] c' = true)).
Proof.
  split; [vm_compute; reflexivity|]. split; [vm_compute; reflexivity|]. split; [vm_compute; reflexivity|].
  split.
  - intro H. specialize (H 2%nat 18446744073709551606 eq_refl eq_refl). vm_compute in H. apply H. reflexivity.
  - intro c. change (2 ^ 4) with 16.
    assert (E0 : (0 <=? c) = true) by (apply N.leb_le; lia).
    split.
    + cbn [mem]. rewrite E0.
      destruct (N.leb_spec 18446744073709551600 c) as [L|L]; [discriminate|]. intros _ c' Hc'.
      assert (E1 : (0 <=? c') = true) by (apply N.leb_le; lia).
      assert (E2 : (18446744073709551600 <=? c') = false) by (apply N.leb_gt; lia).
      rewrite E1, E2. reflexivity.
    + intro H. cbn [mem]. rewrite E0.
      destruct (N.leb_spec 18446744073709551600 c) as [L|L]; [exfalso | reflexivity].
      destruct (N.lt_ge_cases c 18446744073709551616) as [L2|L2].
      * specialize (H 18446744073709551600 ltac:(lia)). vm_compute in H. discriminate H.
      * specialize (H c eq_refl). cbn [mem] in H. rewrite E0 in H.
        assert (E1 : (18446744073709551600 <=? c) = true) by (apply N.leb_le; lia).
        assert (E2 : (18446744073709551606 <=? c) = true) by (apply N.leb_le; lia).
        assert (E3 : (18446744073709551611 <=? c) = true) by (apply N.leb_le; lia).
        rewrite E1, E2, E3 in H. discriminate H.
Qed.

Lemma gap_full_rel_tight_nonvacuous :
  (exists bs s, bs <= 10 /\ 2 ^ 64 - 2 ^ bs < s /\ s < 2 ^ 64) /\
  (exists bs s e, bs <= 10 /\ 2 ^ 64 - 2 ^ bs < s /\ s < e /\ e < 2 ^ 64) /\
  (exists bs s, bs <= 10 /\ s < 2 ^ 64 /\ s <= 2 ^ 64 - 2 ^ bs /\ ~ s < 2 ^ 64 - 2 ^ bs).
Proof.
  split; [|split].
  - exists 4, 18446744073709551601. repeat split; vm_compute; congruence.
  - exists 4, 18446744073709551601, 18446744073709551615. repeat split; vm_compute; congruence.
  - exists 4, 18446744073709551600. repeat split; vm_compute; congruence.
Qed.

(* ---- C4: release build under the weak guard: monotone and idempotent ---- *)
Theorem gap_full_rel_mono : forall r1 r2 bs res1 res2,
  bs <= 10 -> wf_ranges r1 = true -> wf_ranges r2 = true ->
  (forall i s, Nat.even i = true -> nth_error r1 i = Some s -> s <= 2 ^ 64 - 2 ^ bs) ->
  (forall i s, Nat.even i = true -> nth_error r2 i = Some s -> s <= 2 ^ 64 - 2 ^ bs) ->
  (forall c, mem r1 c = true -> mem r2 c = true) ->
  full_chunk_groups_rel r1 bs = Some res1 -> full_chunk_groups_rel r2 bs = Some res2 ->
  forall c, mem res1 c = true -> mem res2 c = true.
Proof.
  intros r1 r2 bs res1 res2 Hbs W1 W2 G1 G2 H E1 E2 c Hc.
  destruct (rel_char r1 bs res1 Hbs W1 G1 E1) as [_ S1].
  destruct (rel_char r2 bs res2 Hbs W2 G2 E2) as [_ S2].
  apply S2. intros c' Hc'. apply H. apply (proj1 (S1 c) Hc c' Hc').
Qed.

Lemma fstep_in bs items : forall acc y,
  In y (fold_left (fstep bs) items acc) -> In y acc \/ exists k, y = k * 2 ^ bs.
Proof.
  induction items as [|[s oe] items IH]; intros acc y H; cbn [fold_left] in H; [now left|].
  apply IH in H. destruct H as [H|H]; [|now right].
  destruct oe as [e|]; cbn [fstep] in H.
  - destruct (cs bs s <? fl bs e).
    + apply r_union_in in H. destruct H as [H|H]; [now left|]. right.
      apply in_from_range in H. destruct H as [-> | ->]; unfold cs, fl; eauto.
    + now left.
  - apply r_union_in in H. destruct H as [H|H]; [now left|]. right.
    destruct H as [<-|[]]. unfold cs. eauto.
Qed.

Lemma rel_ceil_ok r bs :
  bs <= 10 -> starts_ok_weak r bs ->
  forall s oe, In (s, oe) (r_iter r) ->
    (fun v sh => Some (fcg_ceil_wrapping v sh)) s bs = Some (cs bs s) /\ cs bs s < W64.
Proof.
  intros Hbs Hg s oe Hit. destruct (iter_start_pos _ _ _ Hit) as (i & Ei & Hn).
  specialize (Hg i s Ei Hn). change (2 ^ 64) with W64 in Hg.
  pose proof (pow2_pos bs) as HD. pose proof (pow2_le_1024 bs Hbs) as H2p.
  pose proof (cdiv_mul_lt s (2 ^ bs) HD) as Hlt.
  assert (Hcs : cs bs s < W64) by (unfold cs, W64 in *; lia).
  split; [|assumption]. cbn beta. f_equal. rewrite fcg_ceil_wrapping_eq by (unfold W64 in *; lia).
  apply N.mod_small. exact Hcs.
Qed.

(* under the weak guard the release output satisfies the weak guard again *)
Lemma rel_out_guard r bs res :
  bs <= 10 -> wf_ranges r = true -> starts_ok_weak r bs -> full_chunk_groups_rel r bs = Some res ->
  forall y, In y res -> y <= W64 - 2 ^ bs.
Proof.
  intros Hbs W G E y Hy.
  destruct (full_gen_spec (fun v sh => Some (fcg_ceil_wrapping v sh)) r bs W (rel_ceil_ok r bs Hbs G))
    as (x & H1 & E1 & W1 & _).
  unfold full_chunk_groups_rel in E. assert (Hx : res = x) by congruence. subst res.
  apply wf_iff in W1. destruct W1 as [_ Hw]. pose proof (allw_in _ _ Hw Hy) as Hlt.
  rewrite E1 in Hy. apply fstep_in in Hy. destruct Hy as [[]|[k Hk]].
  apply (multiple_guard bs y k); [lia | assumption | assumption].
Qed.

Theorem gap_full_rel_idem : forall r bs res,
  bs <= 10 -> wf_ranges r = true ->
  (forall i s, Nat.even i = true -> nth_error r i = Some s -> s <= 2 ^ 64 - 2 ^ bs) ->
  full_chunk_groups_rel r bs = Some res ->
  exists res', full_chunk_groups_rel res bs = Some res' /\ forall c, mem res' c = mem res c.
Proof.
  intros r bs res Hbs W G E.
  destruct (rel_char r bs res Hbs W G E) as [W1 S1].
  assert (G' : starts_ok_weak res bs).
  { intros i s _ Hn. apply nth_error_In in Hn. change (2 ^ 64) with W64.
    apply (rel_out_guard r bs res Hbs W G E s Hn). }
  destruct (full_chunk_groups_rel_spec res bs Hbs W1 G') as (res' & R2 & _ & S2).
  exists res'. split; [assumption|]. intro c. apply b2. rewrite S2. split.
  - intro H. apply H. reflexivity.
  - intros H c' Hc'. apply S1. intros c'' Hc''. apply (proj1 (S1 c) H). congruence.
Qed.

(* stronger, list-level form: the release output is a fixed point *)
Theorem gap_full_rel_idem_list : forall r bs res,
  bs <= 10 -> wf_ranges r = true ->
  (forall i s, Nat.even i = true -> nth_error r i = Some s -> s <= 2 ^ 64 - 2 ^ bs) ->
  full_chunk_groups_rel r bs = Some res ->
  full_chunk_groups_rel res bs = Some res.
Proof.
  intros r bs res Hbs W G E.
  destruct (rel_char r bs res Hbs W G E) as [W1 _].
  assert (G' : starts_ok_weak res bs).
  { intros i s _ Hn. apply nth_error_In in Hn. change (2 ^ 64) with W64.
    apply (rel_out_guard r bs res Hbs W G E s Hn). }
  destruct (gap_full_rel_idem r bs res Hbs W G E) as (res' & R2 & M).
  destruct (rel_char res bs res' Hbs W1 G' R2) as [W2 _].
  rewrite R2. f_equal. apply mem_ext; assumption.
Qed.

Lemma gap_full_rel_mono_nonvacuous :
  exists r1 r2 bs res1 res2, bs <= 10 /\ wf_ranges r1 = true /\ wf_ranges r2 = true /\
    (forall i s, Nat.even i = true -> nth_error r1 i = Some s -> s <= 2 ^ 64 - 2 ^ bs) /\
    (forall i s, Nat.even i = true -> nth_error r2 i = Some s -> s <= 2 ^ 64 - 2 ^ bs) /\
    (forall c, mem r1 c = true -> mem r2 c = true) /\
    full_chunk_groups_rel r1 bs = Some res1 /\ full_chunk_groups_rel r2 bs = Some res2 /\
    res1 <> [] /\ res1 <> res2 /\
    full_chunk_groups_dev r1 bs = None /\ full_chunk_groups_dev r2 bs = None.
Proof.
  exists [20; 100; 18446744073709551600], [5; 100; 18446744073709551600], 4,
         [32; 96; 18446744073709551600], [16; 96; 18446744073709551600].
  split; [discriminate|]. split; [vm_compute; reflexivity|]. split; [vm_compute; reflexivity|].
  split; [conc_guard|]. split; [exact gap_full_weak_inst|]. split.
  { intros c Hc. cbn [mem] in *.
    destruct (N.leb_spec 20 c) as [L1|L1]; [|discriminate Hc].
    assert (E1 : (5 <=? c) = true) by (apply N.leb_le; lia). rewrite E1. exact Hc. }
  repeat split; try (vm_compute; reflexivity); vm_compute; discriminate.
Qed.

Lemma gap_full_rel_idem_nonvacuous :
  exists r bs res, bs <= 10 /\ wf_ranges r = true /\
    (forall i s, Nat.even i = true -> nth_error r i = Some s -> s <= 2 ^ 64 - 2 ^ bs) /\
    full_chunk_groups_rel r bs = Some res /\ res <> [] /\ res <> r /\
    full_chunk_groups_dev r bs = None.
Proof.
  exists [5; 100; 18446744073709551600], 4, [16; 96; 18446744073709551600].
  split; [discriminate|]. split; [vm_compute; reflexivity|]. split; [exact gap_full_weak_inst|].
  split; [vm_compute; reflexivity|]. split; [discriminate|]. split; [discriminate|].
  vm_compute; reflexivity.
Qed.

(* per-theorem names for the shared non-vacuity instances *)
Definition gap_full_dev_subset_nonvacuous := gap_full_dev_nonvacuous.
Definition gap_full_dev_aligned_nonvacuous := gap_full_dev_nonvacuous.
Definition gap_full_dev_greatest_nonvacuous := gap_full_dev_nonvacuous.
Definition gap_full_rel_subset_nonvacuous := gap_full_rel_nonvacuous.
Definition gap_full_rel_aligned_nonvacuous := gap_full_rel_nonvacuous.
Definition gap_full_rel_greatest_nonvacuous := gap_full_rel_nonvacuous.
Definition gap_full_rel_tight_open_nonvacuous := proj1 gap_full_rel_tight_nonvacuous.
Definition gap_full_rel_tight_closed_nonvacuous := proj1 (proj2 gap_full_rel_tight_nonvacuous).
Definition gap_full_rel_guard_exact_nonvacuous := proj2 (proj2 gap_full_rel_tight_nonvacuous).
Definition gap_full_rel_idem_list_nonvacuous := gap_full_rel_idem_nonvacuous.

(* ------------------------------------------------------------------ *)
Print Assumptions mem_ext.
Print Assumptions gap_chunks_covers.
Print Assumptions gap_chunks_least.
Print Assumptions gap_chunks_covers_nonvacuous.
Print Assumptions gap_chunks_least_nonvacuous.
Print Assumptions gap_groups_superset.
Print Assumptions gap_groups_aligned.
Print Assumptions gap_groups_least.
Print Assumptions gap_groups_idem_list.
Print Assumptions gap_groups_superset_nonvacuous.
Print Assumptions gap_groups_aligned_nonvacuous.
Print Assumptions gap_groups_least_nonvacuous.
Print Assumptions gap_groups_idem_list_nonvacuous.
Print Assumptions gap_groups_guard_tight.
Print Assumptions gap_groups_guard_tight_nonvacuous.
Print Assumptions gap_groups_domain_closed.
Print Assumptions gap_groups_domain_closed_nonvacuous.
Print Assumptions gap_groups_guard_not_necessary.
Print Assumptions gap_full_dev_subset.
Print Assumptions gap_full_dev_aligned.
Print Assumptions gap_full_dev_greatest.
Print Assumptions gap_full_rel_subset.
Print Assumptions gap_full_rel_aligned.
Print Assumptions gap_full_rel_greatest.
Print Assumptions gap_full_dev_nonvacuous.
Print Assumptions gap_full_rel_nonvacuous.
Print Assumptions gap_full_dev_domain.
Print Assumptions gap_full_dev_domain_nonvacuous.
Print Assumptions gap_full_rel_tight_open.
Print Assumptions gap_full_rel_tight_closed.
Print Assumptions gap_full_rel_guard_exact.
Print Assumptions gap_full_rel_guard_not_necessary.
Print Assumptions gap_full_rel_tight_nonvacuous.
Print Assumptions gap_full_rel_mono.
Print Assumptions gap_full_rel_idem.
Print Assumptions gap_full_rel_idem_list.
Print Assumptions gap_full_rel_mono_nonvacuous.
Print Assumptions gap_full_rel_idem_nonvacuous.
