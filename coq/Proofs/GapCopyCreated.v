(* C12 last sentence, composed with C03: copying / flipping a store created by the crate for a blob yields
   exactly the store the crate creates for that blob in the target's order.
   (Separate from GapCopy.v because Proofs/FinalStore.v depends, through Proofs/HistOb.v, on Props/C12.v.) *)
From BaoV Require Import Model.Sync Model.Fsm Spec.EncSpec Spec.NodeSpec Spec.HashAssm.
From BaoV Require Import Proofs.ObSize Proofs.HistOb Proofs.FinalStore Proofs.GapCopy.
From Coq Require Import Lia ZArith ZifyBool ZifyNat ZifyN.
Open Scope N_scope.
Arguments N.add : simpl never.
Arguments N.sub : simpl never.
Arguments N.mul : simpl never.
Arguments N.pow : simpl never.
Arguments N.div : simpl never.
Arguments N.modulo : simpl never.
Arguments N.min : simpl never.
Arguments N.max : simpl never.

Section Created.
Variable HO : hops.
Hypothesis Hlen : cv_len32 HO.
Variable data : bytes HO.
Variable bs : N.
Hypothesis Hsize : blen HO data <= 2 ^ 63.
Hypothesis Hbs : bs <= 10.
Notation size := (blen HO data).
Notation t := (mkTree (blen HO data) bs).
Notation B := (sp_blocks (blen HO data) bs).

Lemma created_loads (ob : outboard HO) : created_store HO data bs ob ->
  forall nd, In nd (sp_pre_nodes size bs) -> sp_persisted size bs nd = true ->
  load_sync HO ob nd = Ok (Some (true_pair HO data nd)) /\ load_fsm HO ob nd = Ok (Some (true_pair HO data nd)).
Proof.
  intros [K T R D] nd Hl Hp.
  apply (created_loads_pnode HO Hlen data bs Hsize Hbs ob K T D).
  rewrite pnodes_eq. apply filter_In. split; assumption.
Qed.

(* bytes of the right length whose loads are the true pairs *)
Lemma fin_gen (to : outboard HO) (sp : bytes HO) :
  (ob_k to = PreIO \/ ob_k to = PostIO \/ ob_k to = PreMem \/ ob_k to = PostMem) ->
  ob_tree to = t -> blen HO (ob_data to) <= (B - 1) * 64 ->
  blen HO sp = (B - 1) * 64 ->
  (forall nd, In nd (sp_pre_nodes size bs) -> sp_persisted size bs nd = true ->
     load_sync HO (mkOb (ob_k to) (root_hash HO data) t sp) nd = Ok (Some (true_pair HO data nd))) ->
  forall to' : outboard HO, ob_k to' = ob_k to -> ob_root to' = ob_root to -> ob_tree to' = ob_tree to ->
    blen HO (ob_data to') = N.max (blen HO (ob_data to)) ((B - 1) * 64) ->
    (forall nd, In nd (sp_pre_nodes size bs) -> sp_persisted size bs nd = true ->
       load_sync HO to' nd = Ok (Some (true_pair HO data nd))) ->
    to' = mkOb (ob_k to) (ob_root to) t sp.
Proof.
  intros K T Lt Lg Hg to' K' R' T' L' Hld.
  assert (D : ob_data to' = sp).
  { apply (gap_sized_ext HO size bs to' (mkOb (ob_k to) (root_hash HO data) t sp) Hsize Hbs).
    - rewrite K'. exact K.
    - symmetry. exact K'.
    - rewrite T'. exact T.
    - reflexivity.
    - lia.
    - exact Lg.
    - intros nd Hl Hp. rewrite (Hld nd Hl Hp). symmetry. exact (Hg nd Hl Hp). }
  rewrite <- (mk_eta HO to'). rewrite K', R', T', T, D. reflexivity.
Qed.

Lemma copy_created_gen (from to : outboard HO) (sp : bytes HO) : created_store HO data bs from ->
  (ob_k to = PreIO \/ ob_k to = PostIO \/ ob_k to = PreMem \/ ob_k to = PostMem) ->
  ob_tree to = t -> blen HO (ob_data to) <= (B - 1) * 64 ->
  ((ob_k to = PreMem \/ ob_k to = PostMem) -> blen HO (ob_data to) = (B - 1) * 64) ->
  blen HO sp = (B - 1) * 64 ->
  (forall nd, In nd (sp_pre_nodes size bs) -> sp_persisted size bs nd = true ->
     load_sync HO (mkOb (ob_k to) (root_hash HO data) t sp) nd = Ok (Some (true_pair HO data nd))) ->
  copy HO from to = Ok (mkOb (ob_k to) (ob_root to) t sp) /\
  copy_fsm HO from to = Ok (mkOb (ob_k to) (ob_root to) t sp).
Proof.
  intros Cf K T Lt M Lg Hg. pose proof Cf as [Kf Tf Rf Df].
  assert (M' : (ob_k to = PreMem \/ ob_k to = PostMem) -> (B - 1) * 64 <= blen HO (ob_data to))
    by (intro Hm; rewrite (M Hm); lia).
  pose proof (fin_gen to sp K T Lt Lg Hg) as Fin.
  split.
  - destruct (gap_copy_sync HO size bs from to Hsize Hbs Tf K T M') as (to' & E & K' & R' & T' & L' & Hld).
    { intros nd Hl Hp. eexists. exact (proj1 (created_loads from Cf nd Hl Hp)). }
    rewrite E. f_equal. apply (Fin to' K' R' T' L').
    intros nd Hl Hp. rewrite (proj1 (Hld nd Hl)). exact (proj1 (created_loads from Cf nd Hl Hp)).
  - destruct (gap_copy_fsm HO size bs from to Hsize Hbs Tf K T M') as (to' & E & K' & R' & T' & L' & Hld).
    { intros nd Hl Hp. eexists. exact (proj2 (created_loads from Cf nd Hl Hp)). }
    rewrite E. f_equal. apply (Fin to' K' R' T' L').
    intros nd Hl Hp. rewrite (proj1 (Hld nd Hl)). exact (proj2 (created_loads from Cf nd Hl Hp)).
Qed.

Lemma copy_created (from to : outboard HO) : created_store HO data bs from ->
  (ob_k to = PreIO \/ ob_k to = PostIO \/ ob_k to = PreMem \/ ob_k to = PostMem) ->
  ob_tree to = t -> blen HO (ob_data to) <= (B - 1) * 64 ->
  ((ob_k to = PreMem \/ ob_k to = PostMem) -> blen HO (ob_data to) = (B - 1) * 64) ->
  copy HO from to = Ok (mkOb (ob_k to) (ob_root to) t (spec_outboard HO (is_post (ob_k to)) data bs)) /\
  copy_fsm HO from to = Ok (mkOb (ob_k to) (ob_root to) t (spec_outboard HO (is_post (ob_k to)) data bs)).
Proof.
  intros Cf K T Lt M.
  apply (copy_created_gen from to _ Cf K T Lt M).
  - apply (spec_outboard_size HO Hlen data bs _ Hsize).
  - intros nd Hl Hp. refine (proj1 (created_loads _ _ nd Hl Hp)). apply created_store_mk; [exact K|reflexivity].
Qed.
End Created.

(* copy (sync and fsm) of a created store into an empty file or a zeroed / arbitrary buffer of the right
   length, of either order: the result is the created store of that order *)
Theorem gap_copy_created : forall (HO : hops), cv_len32 HO ->
  forall (data : bytes HO) (bs : N) (from to : outboard HO), blen HO data <= 2 ^ 63 -> bs <= 10 ->
  created_store HO data bs from ->
  (ob_k to = PreIO \/ ob_k to = PostIO \/ ob_k to = PreMem \/ ob_k to = PostMem) ->
  ob_tree to = mkTree (blen HO data) bs ->
  blen HO (ob_data to) <= (sp_blocks (blen HO data) bs - 1) * 64 ->
  ((ob_k to = PreMem \/ ob_k to = PostMem) -> blen HO (ob_data to) = (sp_blocks (blen HO data) bs - 1) * 64) ->
  ob_root to = root_hash HO data ->
  exists to', copy HO from to = Ok to' /\ copy_fsm HO from to = Ok to' /\
    ob_k to' = ob_k to /\ created_store HO data bs to'.
Proof.
  intros HO Hlen data bs from to Hs Hb Cf K T Lt M R.
  destruct (copy_created HO Hlen data bs Hs Hb from to Cf K T Lt M) as [E1 E2].
  eexists. split; [exact E1|]. split; [exact E2|]. split; [reflexivity|].
  rewrite R. apply created_store_mk; [exact K|reflexivity].
Qed.

(* flip of PostOrderMemOutboard::create is PreOrderMemOutboard::create's store and back *)
Theorem gap_flip_created : forall (HO : hops), cv_len32 HO ->
  forall (data : bytes HO) (bs : N), blen HO data <= 2 ^ 63 -> bs <= 10 ->
  flip HO (mkOb PostMem (root_hash HO data) (mkTree (blen HO data) bs) (spec_outboard HO true data bs))
    = Ok (mkOb PreMem (root_hash HO data) (mkTree (blen HO data) bs) (spec_outboard HO false data bs)) /\
  flip HO (mkOb PreMem (root_hash HO data) (mkTree (blen HO data) bs) (spec_outboard HO false data bs))
    = Ok (mkOb PostMem (root_hash HO data) (mkTree (blen HO data) bs) (spec_outboard HO true data bs)).
Proof.
  intros HO Hlen data bs Hs Hb.
  assert (K3 : hist_kind PreMem) by (right; right; left; reflexivity).
  assert (K4 : hist_kind PostMem) by (right; right; right; reflexivity).
  pose proof (created_store_mk HO data bs PreMem _ K3 eq_refl) as S3.
  pose proof (created_store_mk HO data bs PostMem _ K4 eq_refl) as S4.
  cbn [is_post] in S3, S4.
  assert (Z : blen HO (zeros HO (N.to_nat (outboard_size (mkTree (blen HO data) bs))))
              = (sp_blocks (blen HO data) bs - 1) * 64).
  { rewrite gc_blen_zeros, outboard_size_spec. lia. }
  split.
  - rewrite flip_unfold. cbn [ob_k ob_root ob_tree flipk].
    destruct (copy_created HO Hlen data bs Hs Hb _
                (mkOb PreMem (root_hash HO data) (mkTree (blen HO data) bs)
                   (zeros HO (N.to_nat (outboard_size (mkTree (blen HO data) bs))))) S4
                ltac:(cbn [ob_k]; tauto) eq_refl ltac:(cbn [ob_data]; rewrite Z; lia)
                ltac:(intros _; exact Z)) as [E _].
    rewrite E. reflexivity.
  - rewrite flip_unfold. cbn [ob_k ob_root ob_tree flipk].
    destruct (copy_created HO Hlen data bs Hs Hb _
                (mkOb PostMem (root_hash HO data) (mkTree (blen HO data) bs)
                   (zeros HO (N.to_nat (outboard_size (mkTree (blen HO data) bs))))) S3
                ltac:(cbn [ob_k]; tauto) eq_refl ltac:(cbn [ob_data]; rewrite Z; lia)
                ltac:(intros _; exact Z)) as [E _].
    rewrite E. reflexivity.
Qed.

Print Assumptions gap_copy_created.
Print Assumptions gap_flip_created.
