(* Generic word-level / bit-level lemmas used by the node algebra proofs. *)
From BaoV Require Import Model.Node Spec.NodeSpec Proofs.NodeLevel.
From Coq Require Import Lia.

Arguments N.add : simpl never.
Arguments N.sub : simpl never.
Arguments N.mul : simpl never.
Arguments N.pow : simpl never.
Arguments N.shiftl : simpl never.
Arguments N.shiftr : simpl never.
Arguments N.land : simpl never.
Arguments N.div : simpl never.
Arguments N.modulo : simpl never.

Lemma pow2_pos n : 0 < 2 ^ n.
Proof. apply N.neq_0_lt_0, N.pow_nonzero. discriminate. Qed.

Lemma pow2_succ n : 2 ^ (n + 1) = 2 * 2 ^ n.
Proof. now rewrite N.add_1_r, N.pow_succ_r'. Qed.

Lemma pow2_pred n : 0 < n -> 2 ^ n = 2 * 2 ^ (n - 1).
Proof. intros H. rewrite <- pow2_succ. f_equal. lia. Qed.

Lemma pow2_add a b : 2 ^ (a + b) = 2 ^ a * 2 ^ b.
Proof. apply N.pow_add_r. Qed.

Lemma W64_pow : W64 = 2 ^ 64. Proof. reflexivity. Qed.

(* ---- uniqueness of the (level, index) decomposition ---- *)
Lemma odd_pow2_unique : forall l l' k k',
  (2 * k + 1) * 2 ^ l = (2 * k' + 1) * 2 ^ l' -> l = l' /\ k = k'.
Proof.
  induction l as [|l IH] using N.peano_ind; intros l' k k' H.
  - destruct (N.eq_dec l' 0) as [->|Hn].
    + rewrite !N.pow_0_r in H. lia.
    + rewrite (pow2_pred l') in H by lia. rewrite N.pow_0_r in H. lia.
  - destruct (N.eq_dec l' 0) as [->|Hn].
    + rewrite N.pow_succ_r', N.pow_0_r in H. lia.
    + rewrite (pow2_pred l'), N.pow_succ_r' in H by lia.
      destruct (IH (l' - 1) k k') as [E1 E2]; [lia|]. split; lia.
Qed.

Lemma decomp_unique x l k : x + 1 = (2 * k + 1) * 2 ^ l -> level x = l /\ sp_index x = k.
Proof.
  intros H. rewrite (level_decomp x) in H. apply odd_pow2_unique in H. lia.
Qed.

Lemma sp_node_succ l k : sp_node l k + 1 = (2 * k + 1) * 2 ^ l.
Proof. unfold sp_node. pose proof (pow2_pos l). nia. Qed.

Lemma level_sp_node l k : level (sp_node l k) = l.
Proof. exact (proj1 (decomp_unique _ _ _ (sp_node_succ l k))). Qed.

Lemma index_sp_node l k : sp_index (sp_node l k) = k.
Proof. exact (proj2 (decomp_unique _ _ _ (sp_node_succ l k))). Qed.

Lemma level_le_of_lt x n : x < 2 ^ n -> level x <= n.
Proof.
  intros H. pose proof (level_decomp x) as D.
  destruct (N.le_gt_cases (level x) n) as [|G]; [assumption|exfalso].
  assert (2 ^ (n + 1) <= 2 ^ level x) by (apply N.pow_le_mono_r; lia).
  rewrite pow2_succ in H0. pose proof (pow2_pos n). nia.
Qed.

(* ---- bits ---- *)
Lemma testbit_add_mul_pow2 a b n i : b < 2 ^ n ->
  N.testbit (a * 2 ^ n + b) i = if i <? n then N.testbit b i else N.testbit a (i - n).
Proof.
  intros Hb. pose proof (pow2_pos n) as Hp.
  destruct (N.ltb_spec i n) as [Hi|Hi].
  - rewrite <- (N.mod_pow2_bits_low (a * 2 ^ n + b) n i Hi).
    replace ((a * 2 ^ n + b) mod 2 ^ n) with b; [reflexivity|].
    apply N.mod_unique with (q := a); lia.
  - replace i with ((i - n) + n) at 1 by lia. rewrite <- N.div_pow2_bits.
    replace ((a * 2 ^ n + b) / 2 ^ n) with a; [reflexivity|].
    apply N.div_unique with (r := b); lia.
Qed.

Lemma land_add_mul_pow2 a a' b b' n : b < 2 ^ n -> b' < 2 ^ n ->
  N.land (a * 2 ^ n + b) (a' * 2 ^ n + b') = N.land a a' * 2 ^ n + N.land b b'.
Proof.
  intros Hb Hb'. apply N.bits_inj. intros i.
  assert (N.land b b' < 2 ^ n).
  { destruct (N.eq_dec (N.land b b') 0) as [->|Hn]; [apply pow2_pos|].
    apply N.log2_lt_pow2; [lia|].
    eapply N.le_lt_trans; [apply N.log2_land|].
    destruct (N.eq_dec b 0) as [->|Hb0]; [rewrite N.land_0_l in Hn; lia|].
    apply N.min_lt_iff. left. apply N.log2_lt_pow2; lia. }
  rewrite N.land_spec, !testbit_add_mul_pow2 by assumption.
  destruct (i <? n); now rewrite N.land_spec.
Qed.

Lemma land_pow2 x n : N.land x (2 ^ n) = if N.testbit x n then 2 ^ n else 0.
Proof.
  apply N.bits_inj. intros i. rewrite N.land_spec, N.pow2_bits_eqb.
  destruct (N.eqb_spec n i) as [->|Hn].
  - destruct (N.testbit x i); [now rewrite N.pow2_bits_true | now rewrite N.bits_0].
  - rewrite andb_false_r. destruct (N.testbit x n); [now rewrite N.pow2_bits_false | now rewrite N.bits_0].
Qed.

Lemma land_pow2_eq0 x n : (N.land x (2 ^ n) =? 0) = negb (N.testbit x n).
Proof.
  rewrite land_pow2. destruct (N.testbit x n); [|reflexivity].
  pose proof (pow2_pos n). destruct (N.eqb_spec (2 ^ n) 0); [lia|reflexivity].
Qed.

Lemma mask_ones n : N.shiftl 1 n - 1 = N.ones n.
Proof. rewrite N.shiftl_1_l, N.ones_equiv. lia. Qed.

(* ---- popcount ---- *)
Lemma popcount_double n : popcount (2 * n) = popcount n.
Proof. destruct n; reflexivity. Qed.

Lemma popcount_double1 n : popcount (2 * n + 1) = popcount n + 1.
Proof. destruct n as [|p]; [reflexivity|]. change (2 * N.pos p + 1) with (N.pos p~1). cbn [popcount pos_popcount]. lia. Qed.

Lemma popcount_mul_pow2 n l : popcount (n * 2 ^ l) = popcount n.
Proof.
  induction l as [|l IH] using N.peano_ind.
  - now rewrite N.pow_0_r, N.mul_1_r.
  - rewrite N.pow_succ_r'. replace (n * (2 * 2 ^ l)) with (2 * (n * 2 ^ l)) by lia.
    now rewrite popcount_double.
Qed.

Lemma pos_popcount_le p : pos_popcount p <= N.pos p.
Proof.
  induction p as [q IH|q IH|]; cbn [pos_popcount]; lia.
Qed.

Lemma popcount_le n : popcount n <= n.
Proof. destruct n; [reflexivity|apply pos_popcount_le]. Qed.

(* decomposition of a nonzero number by trailing zeros *)
Lemma tz_decomp k : k <> 0 ->
  k = (2 * (k / 2 ^ (trailing_zeros64 k + 1)) + 1) * 2 ^ trailing_zeros64 k.
Proof. destruct k as [|p]; [congruence|]. intros _. apply pos_decomp. Qed.
