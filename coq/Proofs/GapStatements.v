(* Gap audit: the new results in the exact form in which Props/C01, C09, C16, C20 state them (the small
   classification predicates soft / notfound / is_err / read_fully / driver_post are spelled out). *)
From BaoV Require Import Model.Fsm Model.IOSched Spec.RangeSpec Spec.PlanSpec Spec.EncSpec Spec.HashAssm Spec.PTree.
From BaoV Require Proofs.PlanRun.
From BaoV Require Import Proofs.DecLoop Proofs.DecHash Proofs.DecForest Proofs.DecConst Proofs.DecRanges Proofs.DecTheorems.
From BaoV Require Import Proofs.E2EDecode.
From BaoV Require Import Proofs.GapPolls Proofs.GapLenient Proofs.GapPollsE2E Proofs.GapDrivers Proofs.GapFsmTotal.
From Coq Require Import Lia Arith.
Open Scope N_scope.

Section Forms.
Variable HO : hops.
Notation bytes := (bytes HO).
Notation hash := (hash HO).
Notation item := (item HO).
Notation rsl := (res dec_err item).

Lemma soft_iff : forall r : rsl, soft HO r <-> ((exists it, r = Ok it) \/ (exists c, r = Err (DLeafHashMismatch c))).
Proof.
  intros r. split.
  - destruct r as [it|e|]; cbn; [left; eauto| |contradiction].
    destruct e; try contradiction. intros _. right. eauto.
  - intros [[it ->]|[c0 ->]]; exact I.
Qed.

Lemma notfound_iff : forall e, notfound e <-> ((exists n, e = DParentNotFound n) \/ (exists c, e = DLeafNotFound c)).
Proof.
  intros e. split.
  - destruct e; cbn; try contradiction; intros _; [left|right]; eauto.
  - intros [[n0 ->]|[c0 ->]]; exact I.
Qed.

(* ---------- the definitions, spelled out ---------- *)
Lemma poll_list_def : forall step,
  (forall stk enc, poll_list HO step [] stk enc = ([], stk, enc)) /\
  (forall c p stk enc r stk1 enc1 rs stk2 enc2, step c stk enc = (r, stk1, enc1) ->
     poll_list HO step p stk1 enc1 = (rs, stk2, enc2) ->
     poll_list HO step (c :: p) stk enc = (r :: rs, stk2, enc2)).
Proof.
  intros step. split; [reflexivity|].
  intros c p stk enc r stk1 enc1 rs stk2 enc2 E1 E2. rewrite (poll_cons HO _ _ _ _ _ _ _ _ E1), E2. reflexivity.
Qed.

Lemma tail_ok_def :
  (tail_ok [] <-> True) /\
  (forall n ir lf rt rs p, tail_ok (CParent n ir lf rt rs :: p) <-> tail_ok p) /\
  (forall s z ir rs p, tail_ok (CLeaf s z ir rs :: p) <->
     (z <> 0 /\ (z < 64 -> forall s' z' ir' rs', ~ In (CLeaf s' z' ir' rs') p) /\ tail_ok p)).
Proof.
  split; [reflexivity|]. split; [reflexivity|].
  intros s z ir rs p. cbn [tail_ok].
  assert (E : no_leaf p <-> forall s' z' ir' rs', ~ In (CLeaf s' z' ir' rs') p).
  { split; [|apply no_leaf_intro].
    induction p as [|c p IH]; intros Hn s' z' ir' rs' Hin; [contradiction|].
    destruct c; cbn [no_leaf] in Hn; [|contradiction].
    destruct Hin as [Hd|Hin]; [discriminate|]. exact (IH Hn _ _ _ _ Hin). }
  split; intros (A & B & C); (split; [exact A|]); (split; [|exact C]); intro Hz; apply E; exact (B Hz).
Qed.

Lemma plan_bytes_def :
  plan_bytes [] = 0%nat /\
  (forall n ir lf rt rs p, plan_bytes (CParent n ir lf rt rs :: p) = (64 + plan_bytes p)%nat) /\
  (forall s z ir rs p, plan_bytes (CLeaf s z ir rs :: p) = (N.to_nat z + plan_bytes p)%nat).
Proof. repeat split. Qed.

(* ---------- C01 / C09: polls over a plan tree ---------- *)
Hypothesis HOK : hash_ok HO.

Definition polls_tree_stmt (step : chunk -> list hash -> bytes -> rsl * list hash * bytes) : Prop :=
  forall (T : ptree HO) (s : bytes), consistent HO T -> leaves_ok HO T ->
  forall rs stk' enc', poll_list HO step (plan_of HO T) [cv_of HO T] s = (rs, stk', enc') ->
  forall k : nat,
    (forall j r, (j < k)%nat -> nth_error rs j = Some r ->
       (exists it, r = Ok it) \/ (exists c, r = Err (DLeafHashMismatch c))) ->
    (forall it, nth_error rs k = Some (Ok it) -> nth_error (items_of HO T) k = Some it) /\
    nth_error rs k <> Some Panic /\
    (tail_ok (plan_of HO T) -> forall e, nth_error rs k = Some (Err e) ->
       ((exists n, e = DParentNotFound n) \/ (exists c, e = DLeafNotFound c)) ->
       forall j r, (k < j)%nat -> nth_error rs j = Some r -> exists e', r = Err e').

Lemma polls_tree_both : polls_tree_stmt (step_sync HO) /\ polls_tree_stmt (step_fsm HO).
Proof.
  split; intros T s C L rs stk' enc' Hp k Hsoft.
  - pose proof (polls_tree_sync HO HOK T s C L k) as P. cbv zeta in P. rewrite Hp in P. cbn [p_res fst] in P.
    destruct P as (A1 & A2 & A3); [intros j r Hj Hn; apply soft_iff; eauto|].
    split; [exact A1|]. split; [exact A2|].
    intros Ht e He Hnf. apply (A3 Ht e He). apply notfound_iff. exact Hnf.
  - pose proof (polls_tree_fsm HO HOK T s C L k) as P. cbv zeta in P. rewrite Hp in P. cbn [p_res fst] in P.
    destruct P as (A1 & A2 & A3); [intros j r Hj Hn; apply soft_iff; eauto|].
    split; [exact A1|]. split; [exact A2|].
    intros Ht e He Hnf. apply (A3 Ht e He). apply notfound_iff. exact Hnf.
Qed.
End Forms.

(* ---------- C01: the decoders of a blob, polled in any way ---------- *)
Theorem repoll_sound : forall HO, hash_ok HO ->
  forall (data : bytes HO) (bs : N) (q : ranges),
  blen HO data <= 2 ^ 63 -> bs <= 10 -> wf_ranges q = true ->
  forall (stream : bytes HO) (tr : list (res dec_err (item HO))),
  (exists st, dec_polls HO (dec_new HO (root_hash HO data) (mkTree (blen HO data) bs) stream q) tr st) \/
  (exists st, rd_polls HO (rd_new HO (root_hash HO data) q (mkTree (blen HO data) bs) stream) tr st) ->
  forall k : nat,
    (forall j r, (j < k)%nat -> nth_error tr j = Some r ->
       (exists it, r = Ok it) \/ (exists c, r = Err (DLeafHashMismatch c))) ->
    (forall it, nth_error tr k = Some (Ok it) -> nth_error (honest HO data bs q) k = Some it) /\
    nth_error tr k <> Some Panic /\
    (forall e, nth_error tr k = Some (Err e) ->
       ((exists n, e = DParentNotFound n) \/ (exists c, e = DLeafNotFound c)) ->
       forall j r, (k < j)%nat -> nth_error tr j = Some r -> exists e', r = Err e').
Proof.
  intros HO HOK data bs q Hs Hb Hwf stream tr Hp k Hsoft.
  destruct (e2e_polls_both HO HOK data bs q Hs Hb Hwf stream tr Hp k) as (A1 & A2 & A3).
  { intros j r Hj Hn. apply soft_iff. eauto. }
  split; [exact A1|]. split; [exact A2|].
  intros e He Hnf. apply (A3 e He). apply notfound_iff. exact Hnf.
Qed.

(* ---------- C09: the state after an error, one call of next ---------- *)
Theorem sync_after_error : forall HO (st st' : dstate HO) e, dec_next HO st = Some (Err e, st') ->
  match e with
  | DParentNotFound _ | DLeafNotFound _ => d_stack HO st' = d_stack HO st /\ d_enc HO st' = []
  | DParentHashMismatch _ | DLeafHashMismatch _ =>
      exists h d, d_stack HO st = h :: d_stack HO st' /\ d_enc HO st = d ++ d_enc HO st'
  | DIo _ => False
  end.
Proof.
  intros HO st st' e H. rewrite dec_next_step in H.
  destruct (response_next (d_inner HO st)) as [[c it']|]; [|discriminate].
  destruct (step_sync HO c (d_stack HO st) (d_enc HO st)) as [[r0 stk] enc] eqn:Es.
  injection H as -> <-. pose proof (step_sync_states HO _ _ _ _ _ _ Es) as St. cbn [d_stack d_enc].
  destruct e as [n|n|n|n|k]; try contradiction.
  - destruct St as (-> & -> & _). auto.
  - destruct St as (-> & -> & _). auto.
  - destruct St as (h & E1 & -> & _). exists h. eexists. split; [exact E1|]. symmetry. apply firstn_skipn.
  - destruct St as (h & E1 & -> & _). exists h. eexists. split; [exact E1|]. symmetry. apply firstn_skipn.
Qed.

Theorem fsm_after_error : forall HO (st st' : rstate HO) e, rd_next HO st = RMore st' (Err e) ->
  match e with
  | DParentNotFound _ =>
      Fsm.r_stack HO st' = Fsm.r_stack HO st /\ Fsm.r_enc HO st' = Fsm.r_enc HO st /\ blen HO (Fsm.r_enc HO st) < 64
  | DLeafNotFound _ => Fsm.r_stack HO st' = Fsm.r_stack HO st /\ Fsm.r_enc HO st' = []
  | DParentHashMismatch _ =>
      (* the pair that was REJECTED still contributes its children to the pending stack *)
      exists h stk0 l r, Fsm.r_stack HO st = h :: stk0 /\ Fsm.r_enc HO st = (l ++ r) ++ Fsm.r_enc HO st' /\
        length l = 32%nat /\ length r = 32%nat /\
        (Fsm.r_stack HO st' = l :: r :: stk0 \/ Fsm.r_stack HO st' = l :: stk0 \/
         Fsm.r_stack HO st' = r :: stk0 \/ Fsm.r_stack HO st' = stk0)
  | DLeafHashMismatch _ =>
      exists h d, Fsm.r_stack HO st = h :: Fsm.r_stack HO st' /\ Fsm.r_enc HO st = d ++ Fsm.r_enc HO st'
  | DIo _ => False
  end.
Proof.
  intros HO st st' e H. rewrite rd_next_step in H.
  destruct (response_next (Fsm.r_iter HO st)) as [[c it']|]; [|discriminate].
  destruct (step_fsm HO c (Fsm.r_stack HO st) (Fsm.r_enc HO st)) as [[r0 stk] enc] eqn:Es.
  injection H as <- ->. pose proof (step_fsm_states HO _ _ _ _ _ _ Es) as St. cbn [Fsm.r_stack Fsm.r_enc].
  destruct e as [n|n|n|n|k]; try contradiction.
  - destruct St as (-> & -> & L). auto.
  - destruct St as (-> & -> & _). auto.
  - destruct St as (h & stk0 & l & r1 & lf & rt & E1 & E2 & L1 & L2 & _ & ->).
    exists h, stk0, l, r1. repeat (split; [assumption|]). unfold kids. destruct lf, rt; auto.
  - destruct St as (h & E1 & -> & _). exists h. eexists. split; [exact E1|]. symmetry. apply firstn_skipn.
Qed.

(* ---------- C09: the drivers ---------- *)
Section Drivers.
Variable HO : hops.
Hypothesis HOK : hash_ok HO.

Definition driver_stmt (notfound_ : bool) (kind : io_kind) (data : bytes HO) (bs : N) (q : ranges)
  (p k : nat) (stream : bytes HO) : Prop :=
  forall (target : bytes HO) (ob : outboard HO),
  ob_root ob = root_hash HO data -> ob_tree ob = mkTree (blen HO data) bs ->
  exists it, nth_error (honest HO data bs q) k = Some it /\
    dec_err_kind (item_err HO notfound_ it) = kind /\
    let a := apply_items HO (firstn k (honest HO data bs q)) target ob in
    (exists st', decode_ranges HO stream q target ob =
       (ranges_result (a_res HO a) (Failed (item_err HO notfound_ it)), a_target HO a, a_ob HO a, st')) /\
    (exists st', decode_ranges_fsm HO stream q target ob =
       (ranges_result (a_res HO a) (Failed (item_err HO notfound_ it)), a_target HO a, a_ob HO a, st')) /\
    (a_res HO a = SOk -> ranges_result (a_res HO a) (Failed (item_err HO notfound_ it)) = Err (item_err HO notfound_ it)).

Lemma driver_post_out : forall ys e target ob (x : res dec_err unit * bytes HO * outboard HO * dstate HO),
  driver_post HO ys e target ob (fst x) ->
  exists st', x = (ranges_result (a_res HO (apply_items HO ys target ob)) (Failed e),
                   a_target HO (apply_items HO ys target ob), a_ob HO (apply_items HO ys target ob), st').
Proof.
  intros ys e target ob [[[r t'] o'] st'] [E _]. cbn [fst] in E. exists st'. rewrite E. reflexivity.
Qed.
Lemma driver_post_out_fsm : forall ys e target ob (x : res dec_err unit * bytes HO * outboard HO * rstate HO),
  driver_post HO ys e target ob (fst x) ->
  exists st', x = (ranges_result (a_res HO (apply_items HO ys target ob)) (Failed e),
                   a_target HO (apply_items HO ys target ob), a_ob HO (apply_items HO ys target ob), st').
Proof.
  intros ys e target ob [[[r t'] o'] st'] [E _]. cbn [fst] in E. exists st'. rewrite E. reflexivity.
Qed.

Theorem drivers_truncation : forall (data : bytes HO) (bs : N) (q : ranges),
  blen HO data <= 2 ^ 63 -> bs <= 10 -> wf_ranges q = true ->
  forall p k : nat,
  (length (flat HO (firstn k (honest HO data bs q))) <= p)%nat ->
  (p < length (flat HO (firstn (S k) (honest HO data bs q))))%nat ->
  driver_stmt true KUnexpectedEof data bs q p k (firstn p (flat HO (honest HO data bs q))).
Proof.
  intros data bs q Hs Hb Hwf p k K1 K2 target ob Hr Ht.
  destruct (c09_drivers_truncation HO HOK data bs q Hs Hb Hwf p k target ob K1 K2 Hr Ht) as (it & Hit & Hk & D1 & D2).
  exists it. split; [exact Hit|]. split; [exact Hk|]. cbv zeta.
  split; [exact (driver_post_out _ _ _ _ _ D1)|]. split; [exact (driver_post_out_fsm _ _ _ _ _ D2)|].
  intro E. rewrite E. reflexivity.
Qed.

Theorem drivers_alteration : forall (data : bytes HO) (bs : N) (q : ranges),
  blen HO data <= 2 ^ 63 -> bs <= 10 -> wf_ranges q = true ->
  forall (p k : nat) (b b' : B HO),
  (length (flat HO (firstn k (honest HO data bs q))) <= p)%nat ->
  (p < length (flat HO (firstn (S k) (honest HO data bs q))))%nat ->
  nth_error (flat HO (honest HO data bs q)) p = Some b -> b' <> b ->
  driver_stmt false KInvalidData data bs q p k
    (firstn p (flat HO (honest HO data bs q)) ++ b' :: skipn (S p) (flat HO (honest HO data bs q))).
Proof.
  intros data bs q Hs Hb Hwf p k b b' K1 K2 Hb1 Hb2 target ob Hr Ht.
  destruct (c09_drivers_alteration HO HOK data bs q Hs Hb Hwf p k b b' target ob K1 K2 Hb1 Hb2 Hr Ht)
    as (it & Hit & Hk & D1 & D2).
  exists it. split; [exact Hit|]. split; [exact Hk|]. cbv zeta.
  split; [exact (driver_post_out _ _ _ _ _ D1)|]. split; [exact (driver_post_out_fsm _ _ _ _ _ D2)|].
  intro E. rewrite E. reflexivity.
Qed.
End Drivers.

(* ---------- C20 ---------- *)
Section C20.
Variable HO : hops.

Lemma read_fully_iff : forall r : res dec_err (item HO),
  read_fully HO r <-> (forall n, r <> Err (DParentNotFound n) /\ r <> Err (DLeafNotFound n)).
Proof.
  intros r. unfold read_fully. split.
  - intros H n. split; intro E; apply (H _ E); exact I.
  - intros H e E Hn. destruct e as [n|n|n|n|k]; try contradiction; destruct (H n) as [A B]; [exact (A E)|exact (B E)].
Qed.

Lemma Forall_read_fully : forall tr : list (res dec_err (item HO)),
  Forall (fun r => forall n, r <> Err (DParentNotFound n) /\ r <> Err (DLeafNotFound n)) tr ->
  Forall (read_fully HO) tr.
Proof. intros tr H. eapply Forall_impl; [|exact H]. intros r Hr. apply read_fully_iff. exact Hr. Qed.

Theorem accessors_over_polls : forall root t (enc : bytes HO) q tr,
  (forall st, dec_polls HO (dec_new HO root t enc q) tr st -> dec_tree HO st = t) /\
  (forall st, rd_polls HO (rd_new HO root q t enc) tr st ->
     rd_tree HO st = t /\ rd_hash HO st = Some root /\ exists pre, enc = pre ++ rd_finish HO st).
Proof.
  intros root t enc q tr. split; intros st Hp.
  - apply (dec_tree_const HO root t enc q). apply dec_reach_polls. eauto.
  - assert (R : rd_reach HO (rd_new HO root q t enc) st) by (apply rd_reach_polls; eauto).
    split; [exact (rd_tree_const HO root q t enc st R)|]. split; [exact (rd_hash_const HO root q t enc st R)|].
    exact (proj1 (rd_polls_position HO root q t enc tr st Hp)).
Qed.

Theorem position_fsm : forall root q t (stream : bytes HO) tr st,
  rd_polls HO (rd_new HO root q t stream) tr st ->
  (exists pre, stream = pre ++ rd_finish HO st) /\
  (forall reader, rd_next HO st = RDone reader -> reader = rd_finish HO st) /\
  (Forall (fun r => forall n, r <> Err (DParentNotFound n) /\ r <> Err (DLeafNotFound n)) tr ->
   exists plan, PlanRun.steps response_next (response_new t (truncate_ranges_owned q (tsize t))) plan (Fsm.r_iter HO st) /\
     length plan = length tr /\
     stream = firstn (plan_bytes plan) stream ++ rd_finish HO st /\ (plan_bytes plan <= length stream)%nat).
Proof.
  intros root q t stream tr st Hp. destruct (rd_polls_position HO root q t stream tr st Hp) as (A & B & C).
  split; [exact A|]. split; [exact B|]. intro Hall. exact (C (Forall_read_fully _ Hall)).
Qed.

Theorem position_sync : forall root t (stream : bytes HO) q tr st,
  dec_polls HO (dec_new HO root t stream q) tr st ->
  (exists pre, stream = pre ++ d_enc HO st) /\
  (Forall (fun r => forall n, r <> Err (DParentNotFound n) /\ r <> Err (DLeafNotFound n)) tr ->
   exists plan, PlanRun.steps response_next (response_new t (truncate_ranges q (tsize t))) plan (d_inner HO st) /\
     length plan = length tr /\
     stream = firstn (plan_bytes plan) stream ++ d_enc HO st /\ (plan_bytes plan <= length stream)%nat).
Proof.
  intros root t stream q tr st Hp. destruct (dec_polls_position HO root t stream q tr st Hp) as (A & C).
  split; [exact A|]. intro Hall. exact (C (Forall_read_fully _ Hall)).
Qed.
End C20.

(* ---------- further closed forms used by Props/C01.v ---------- *)
From BaoV Require Import Proofs.DecWitness Proofs.GapWitness.

Lemma soft_notfound_def : forall HO (r : res dec_err (item HO)) (e : dec_err),
  (soft HO r <-> ((exists it, r = Ok it) \/ (exists c, r = Err (DLeafHashMismatch c)))) /\
  (notfound e <-> ((exists n, e = DParentNotFound n) \/ (exists c, e = DLeafNotFound c))).
Proof. intros. split; [apply soft_iff|apply notfound_iff]. Qed.

Lemma polls_reach : forall HO (st0 st : dstate HO) (r0 r : rstate HO),
  (dec_reach HO st0 st <-> exists tr, dec_polls HO st0 tr st) /\
  (rd_reach HO r0 r <-> exists tr, rd_polls HO r0 tr r).
Proof. intros. split; [apply dec_reach_polls|apply rd_reach_polls]. Qed.

Lemma repoll_sound_tree : forall HO, hash_ok HO ->
  forall step, step = step_sync HO \/ step = step_fsm HO ->
  forall (T : ptree HO) (s : bytes HO), consistent HO T -> leaves_ok HO T ->
  forall rs stk' enc', poll_list HO step (plan_of HO T) [cv_of HO T] s = (rs, stk', enc') ->
  forall k : nat,
    (forall j r, (j < k)%nat -> nth_error rs j = Some r ->
       (exists it, r = Ok it) \/ (exists c, r = Err (DLeafHashMismatch c))) ->
    (forall it, nth_error rs k = Some (Ok it) -> nth_error (items_of HO T) k = Some it) /\
    nth_error rs k <> Some Panic /\
    (tail_ok (plan_of HO T) -> forall e, nth_error rs k = Some (Err e) ->
       ((exists n, e = DParentNotFound n) \/ (exists c, e = DLeafNotFound c)) ->
       forall j r, (k < j)%nat -> nth_error rs j = Some r -> exists e', r = Err e').
Proof.
  intros HO HOK step [-> | ->]; [exact (proj1 (polls_tree_both HO HOK))|exact (proj2 (polls_tree_both HO HOK))].
Qed.

Lemma polls_r_def : forall HO (st0 : dstate_r HO) (r0 : rstate_r HO),
  dec_polls_r HO st0 [] st0 /\
  (forall st r st1 tr st', dec_next_r HO st = Some (r, st1) -> dec_polls_r HO st1 tr st' -> dec_polls_r HO st (r :: tr) st') /\
  rd_polls_r HO r0 [] r0 /\
  (forall st r st1 tr st', rd_next_r HO st = Some (r, st1) -> rd_polls_r HO st1 tr st' -> rd_polls_r HO st (r :: tr) st').
Proof. intros. repeat split; try constructor; intros; econstructor; eauto. Qed.

Lemma repoll_after_io_error :
  (exists HO, hash_ok HO /\
   exists (data : bytes HO) (bs : N) (q : ranges) (rd : reader HO) tr st (c : N),
     blen HO data <= 2 ^ 63 /\ bs <= 10 /\ wf_ranges q = true /\
     rd_rest HO rd = flat HO (honest HO data bs q) /\
     dec_polls_r HO (dec_new_r HO (root_hash HO data) (mkTree (blen HO data) bs) rd q) tr st /\
     tr = [Err (DIo KOther); Err (DLeafHashMismatch c); Panic]) /\
  (exists HO, hash_ok HO /\
   exists (data : bytes HO) (bs : N) (q : ranges) (rd : reader HO) tr st (c : N),
     blen HO data <= 2 ^ 63 /\ bs <= 10 /\ wf_ranges q = true /\
     rd_rest HO rd = flat HO (honest HO data bs q) /\
     rd_polls_r HO (rd_new_r HO (root_hash HO data) q (mkTree (blen HO data) bs) rd) tr st /\
     tr = [Err (DIo KOther); Err (DLeafHashMismatch c); Panic]).
Proof. split; [exact sync_repoll_after_io_error|exact fsm_repoll_after_io_error]. Qed.
