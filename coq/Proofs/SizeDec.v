(* C16, part 2: what an ACCEPTED step of the plan decoders says (for an arbitrary stream), runs of
   dec_items that finish, and absence of panics on plans with a sound stack discipline. *)
From BaoV Require Import Model.Fsm Spec.HashAssm Spec.PlanWf.
From BaoV Require Import Proofs.DecLoop Proofs.DecHash Proofs.DecForest.
From Coq Require Import Lia Arith.


Section SizeDec.
Variable HO : hops.
Notation bytes := (bytes HO).
Notation hash := (hash HO).
Notation item := (item HO).
Hypothesis HOK : hash_ok HO.

Definition stepT := chunk -> list hash -> bytes -> res dec_err item * list hash * bytes.

(* an accepted item: the expected value on top of the stack is the value of what was read *)
Definition step_ok (step : stepT) : Prop :=
  forall c stk enc i stk' enc', step c stk enc = (Ok i, stk', enc') ->
    match c with
    | CParent node ir lf rt _ =>
        exists l r stk0, stk = parent_cv HO l r ir :: stk0 /\ length l = 32%nat /\ length r = 32%nat /\
          stk' = (if lf then [l] else []) ++ (if rt then [r] else []) ++ stk0
    | CLeaf s size ir _ =>
        exists buf stk0, stk = hash_subtree HO s buf ir :: stk0 /\ blen HO buf = size /\ stk' = stk0
    end.
(* a step panics only on an empty stack *)
Definition step_nopanic (step : stepT) : Prop :=
  forall c stk enc stk' enc', step c stk enc = (Panic, stk', enc') -> stk = [].

Lemma step_sync_ok : step_ok (step_sync HO).
Proof.
  intros c stk enc i stk' enc'. destruct c as [node ir lf rt rs|s size ir rs]; unfold step_sync.
  - destruct (blen HO enc <? 64) eqn:Hs; [discriminate|].
    destruct (pair_read HO enc Hs) as [P1 [P2 _]].
    destruct (parse_pair HO (take HO 64 enc)) as [l r]. cbn [fst snd] in P1, P2.
    destruct stk as [|ph stk0]; [discriminate|].
    destruct (bytes_eqb HO ph (parent_cv HO l r ir)) eqn:E; cbn [negb]; [|discriminate].
    apply (bytes_eqb_eq HO HOK) in E. intros H. injection H as _ <- _.
    exists l, r, stk0. subst ph. destruct lf, rt; auto.
  - destruct (blen HO enc <? size) eqn:Hs; [discriminate|]. cbv zeta.
    destruct stk as [|lh stk0]; [discriminate|].
    destruct (bytes_eqb HO lh (hash_subtree HO s (take HO size enc) ir)) eqn:E; cbn [negb]; [|discriminate].
    apply (bytes_eqb_eq HO HOK) in E. intros H. injection H as _ <- _.
    exists (take HO size enc), stk0. subst lh. repeat split.
    rewrite blen_take. apply N.ltb_ge in Hs. lia.
Qed.

Lemma step_fsm_ok : step_ok (step_fsm HO).
Proof.
  intros c stk enc i stk' enc'. destruct c as [node ir lf rt rs|s size ir rs]; unfold step_fsm.
  - destruct (blen HO enc <? 64) eqn:Hs; [discriminate|].
    destruct (pair_read HO enc Hs) as [P1 [P2 _]].
    destruct (parse_pair HO (take HO 64 enc)) as [l r]. cbn [fst snd] in P1, P2.
    destruct stk as [|ph stk0]; [discriminate|]. cbv zeta.
    destruct (bytes_eqb HO ph (parent_cv HO l r ir)) eqn:E; cbn [negb]; [|discriminate].
    apply (bytes_eqb_eq HO HOK) in E. intros H. injection H as _ <- _.
    exists l, r, stk0. subst ph. destruct lf, rt; auto.
  - destruct (blen HO enc <? size) eqn:Hs; [discriminate|]. cbv zeta.
    destruct stk as [|lh stk0]; [discriminate|].
    destruct (bytes_eqb HO lh (hash_subtree HO s (take HO size enc) ir)) eqn:E; cbn [negb]; [|discriminate].
    apply (bytes_eqb_eq HO HOK) in E. intros H. injection H as _ <- _.
    exists (take HO size enc), stk0. subst lh. repeat split.
    rewrite blen_take. apply N.ltb_ge in Hs. lia.
Qed.

Lemma step_sync_nopanic : step_nopanic (step_sync HO).
Proof.
  intros c stk enc stk' enc'. destruct c as [node ir lf rt rs|s size ir rs]; unfold step_sync.
  - destruct (blen HO enc <? 64); [discriminate|].
    destruct (parse_pair HO (take HO 64 enc)) as [l r].
    destruct stk as [|ph stk0]; [reflexivity|].
    destruct (negb (bytes_eqb HO ph (parent_cv HO l r ir))); discriminate.
  - destruct (blen HO enc <? size); [discriminate|]. cbv zeta.
    destruct stk as [|lh stk0]; [reflexivity|].
    destruct (negb (bytes_eqb HO lh _)); discriminate.
Qed.

Lemma step_fsm_nopanic : step_nopanic (step_fsm HO).
Proof.
  intros c stk enc stk' enc'. destruct c as [node ir lf rt rs|s size ir rs]; unfold step_fsm.
  - destruct (blen HO enc <? 64); [discriminate|].
    destruct (parse_pair HO (take HO 64 enc)) as [l r].
    destruct stk as [|ph stk0]; [reflexivity|]. cbv zeta.
    destruct (negb (bytes_eqb HO ph (parent_cv HO l r ir))); discriminate.
  - destruct (blen HO enc <? size); [discriminate|]. cbv zeta.
    destruct stk as [|lh stk0]; [reflexivity|].
    destruct (negb (bytes_eqb HO lh _)); discriminate.
Qed.

(* ---- runs that finish ---- *)
Section Gen.
Variable step : stepT.
Hypothesis Hok : step_ok step.

Definition fin (plan : list chunk) (stk : list hash) (enc : bytes) : Prop :=
  r_outcome HO (dec_items HO step plan stk enc) = Finished.

Lemma fin_cons : forall c plan stk enc, fin (c :: plan) stk enc ->
  exists i stk' enc', step c stk enc = (Ok i, stk', enc') /\ fin plan stk' enc'.
Proof.
  intros c plan stk enc. unfold fin. cbn [dec_items].
  destruct (step c stk enc) as [[[i|e|] stk'] enc'].
  - intros H. exists i, stk', enc'. split; [reflexivity|exact H].
  - intros H. discriminate.
  - intros H. discriminate.
Qed.

Lemma fin_parent : forall node ir lf rt rs plan stk enc,
  fin (CParent node ir lf rt rs :: plan) stk enc ->
  exists l r stk0 enc', stk = parent_cv HO l r ir :: stk0 /\ length l = 32%nat /\ length r = 32%nat /\
    fin plan ((if lf then [l] else []) ++ (if rt then [r] else []) ++ stk0) enc'.
Proof.
  intros node ir lf rt rs plan stk enc H.
  destruct (fin_cons _ _ _ _ H) as (i & stk' & enc' & Hs & Hf).
  apply Hok in Hs. destruct Hs as (l & r & stk0 & -> & L1 & L2 & ->).
  exists l, r, stk0, enc'. auto.
Qed.

Lemma fin_leaf : forall s size ir rs plan stk enc,
  fin (CLeaf s size ir rs :: plan) stk enc ->
  exists buf stk0 enc', stk = hash_subtree HO s buf ir :: stk0 /\ blen HO buf = size /\ fin plan stk0 enc'.
Proof.
  intros s size ir rs plan stk enc H.
  destruct (fin_cons _ _ _ _ H) as (i & stk' & enc' & Hs & Hf).
  apply Hok in Hs. destruct Hs as (buf & stk0 & -> & L & ->).
  exists buf, stk0, enc'. auto.
Qed.

(* ---- no panic on a plan with a sound stack discipline ---- *)
Hypothesis Hnp : step_nopanic step.

Lemma dec_items_outcome : forall plan stk enc,
  r_outcome HO (dec_items HO step plan stk enc) <> OutOfFuel.
Proof.
  induction plan as [|c plan IH]; intros stk enc; cbn [dec_items].
  - discriminate.
  - destruct (step c stk enc) as [[[i|e|] stk'] enc']; try discriminate.
    unfold cons_item, r_outcome at 1. cbn [fst snd]. apply IH.
Qed.

Lemma dec_items_nopanic : forall plan stk enc,
  pre_stack_ok plan (N.of_nat (length stk)) = true ->
  r_outcome HO (dec_items HO step plan stk enc) <> Panicked.
Proof.
  induction plan as [|c plan IH]; intros stk enc Hps; cbn [dec_items].
  - discriminate.
  - destruct (step c stk enc) as [[[i|e|] stk'] enc'] eqn:Es; try discriminate.
    + unfold cons_item, r_outcome at 1. cbn [fst snd]. apply IH.
      apply Hok in Es. destruct c as [node ir lf rt rs|s size ir rs]; cbn [pre_stack_ok] in Hps;
        apply andb_true_iff in Hps; destruct Hps as [_ Hps].
      * destruct Es as (l & r & stk0 & -> & _ & _ & ->). revert Hps.
        match goal with |- pre_stack_ok _ ?a = true -> pre_stack_ok _ ?b = true =>
          replace b with a; [auto|] end.
        destruct lf, rt; cbn [length app b2n]; lia.
      * destruct Es as (buf & stk0 & -> & _ & ->). revert Hps.
        match goal with |- pre_stack_ok _ ?a = true -> pre_stack_ok _ ?b = true =>
          replace b with a; [auto|] end.
        cbn [length]. lia.
    + apply Hnp in Es. subst stk. exfalso.
      destruct c as [node ir lf rt rs|s size ir rs]; cbn in Hps; discriminate.
Qed.

End Gen.
End SizeDec.
