(* Gap C04 / C03: the bao formats at block size 0, written from the bao specification, and the proof that
   the honest encoding of a single range at block size 0 IS bao's slice (size prefix excluded), and that the
   pre-order outboard at block size 0 IS bao's outboard (length prefix excluded).

   bao specification (github.com/oconnor663/bao, docs/spec.md), over a content of `size` bytes cut into
   chunks of 1024 bytes (an empty content is one empty chunk):
     - the tree over n > 1 chunks has a left subtree over the largest power of two of chunks strictly
       below n and a right subtree over the rest;
     - combined encoding: pre-order; a parent node is the 32-byte chaining value of its left child
       followed by the one of its right child; a leaf is the chunk's bytes;
     - outboard encoding: the same with the chunks left out;
     - a slice (start, len) is the combined encoding restricted to the parent nodes and chunks a decoder
       reads when seeking to `start` and reading `len` bytes: the subtrees containing a byte of
       [start, start + max len 1), in order; when `start` is at or past the end of the content the
       decoder still has to validate the final chunk, so the slice is the path to the LAST chunk. *)
From BaoV Require Import Model.Fsm Spec.RangeSpec Spec.NodeSpec Spec.PlanSpec Spec.EncSpec Spec.HashAssm.
From BaoV Require Import Proofs.NodeLevel Proofs.NodeBits.
From BaoV Require Import Proofs.BridgeBase Proofs.BridgeTree Proofs.BridgePlan.
From BaoV Require Import Proofs.EncRec Proofs.EncLoop Proofs.EncMain Proofs.EncThm.
From Coq Require Import Lia Arith PeanoNat ZArith ZifyN ZifyNat ZifyBool.
Ltac Zify.zify_post_hook ::= Z.div_mod_to_equations.
Arguments N.add : simpl never.
Arguments N.sub : simpl never.
Arguments N.mul : simpl never.
Arguments N.pow : simpl never.
Arguments N.div : simpl never.
Arguments N.modulo : simpl never.
Arguments N.log2 : simpl never.
Arguments N.min : simpl never.
Arguments N.max : simpl never.

Section Bao.
Variable HO : hops.
Notation bytes := (bytes HO).

(* first chunk and end chunk of the slice (start, len) of a content of `size` bytes *)
Definition bao_lo (size start : N) : N := if start <? size then start / 1024 else nchunks size - 1.
Definition bao_hi (size start len : N) : N :=
  if start <? size then (N.min (start + N.max len 1) size + 1023) / 1024 else nchunks size.

(* the part of the combined encoding of the subtree over chunks [a, b) that meets the chunks [lo, hi) *)
Fixpoint bao_rec (fuel : nat) (data : bytes) (lo hi a b : N) : bytes :=
  match fuel with
  | O => []
  | S f =>
    if (a <? hi) && (lo <? b) then
      if b - a <=? 1 then chunk_bytes HO data a b
      else
        let half := next_pow2 (b - a) / 2 in
        cv HO data a (a + half) false ++ cv HO data (a + half) b false
        ++ bao_rec f data lo hi a (a + half) ++ bao_rec f data lo hi (a + half) b
    else []
  end.

Definition bao_slice (data : bytes) (start len : N) : bytes :=
  bao_rec 64 data (bao_lo (blen HO data) start) (bao_hi (blen HO data) start len) 0 (nchunks (blen HO data)).

Lemma bao_rec_eq f data lo hi a b :
  bao_rec (S f) data lo hi a b =
    if (a <? hi) && (lo <? b) then
      if b - a <=? 1 then chunk_bytes HO data a b
      else cv HO data a (a + next_pow2 (b - a) / 2) false ++ cv HO data (a + next_pow2 (b - a) / 2) b false
           ++ bao_rec f data lo hi a (a + next_pow2 (b - a) / 2)
           ++ bao_rec f data lo hi (a + next_pow2 (b - a) / 2) b
    else [].
Proof. reflexivity. Qed.

(* bao's outboard: the parents of the whole tree in pre-order *)
Fixpoint bao_ob_rec (fuel : nat) (data : bytes) (a b : N) : bytes :=
  match fuel with
  | O => []
  | S f =>
    if b - a <=? 1 then []
    else
      let half := next_pow2 (b - a) / 2 in
      cv HO data a (a + half) false ++ cv HO data (a + half) b false
      ++ bao_ob_rec f data a (a + half) ++ bao_ob_rec f data (a + half) b
  end.
Definition bao_outboard (data : bytes) : bytes := bao_ob_rec 64 data 0 (nchunks (blen HO data)).

Lemma bao_ob_rec_eq f data a b :
  bao_ob_rec (S f) data a b =
    if b - a <=? 1 then []
    else cv HO data a (a + next_pow2 (b - a) / 2) false ++ cv HO data (a + next_pow2 (b - a) / 2) b false
         ++ bao_ob_rec f data a (a + next_pow2 (b - a) / 2) ++ bao_ob_rec f data (a + next_pow2 (b - a) / 2) b.
Proof. reflexivity. Qed.

(* ---------- the slice ---------- *)
Section Slice.
Variable data : bytes.
Hypothesis Hsize : blen HO data <= 2 ^ 63.
Local Notation size := (blen HO data).
Local Notation nn := (nchunks (blen HO data)).
Variable Sel : N -> bool.
Variables lo hi : N.
Hypothesis Hlohi : lo < hi.
Hypothesis Hhi : hi <= nn.
Hypothesis HSel : forall c, c < nn -> Sel c = (lo <=? c) && (c <? hi).
Local Notation E0 := (ENC HO data 0 Sel).

Lemma existsb_ivl a b : a < b -> b <= nn ->
  existsb Sel (chunk_range_list a b) = (a <? hi) && (lo <? b).
Proof.
  intros Hab Hb. destruct ((a <? hi) && (lo <? b)) eqn:E.
  - apply andb_true_iff in E. destruct E as [E1 E2]. apply N.ltb_lt in E1, E2.
    apply existsb_exists. exists (N.max a lo). split; [apply crl_in; lia|].
    rewrite HSel by lia. apply andb_true_iff. split; [apply N.leb_le|apply N.ltb_lt]; lia.
  - destruct (existsb Sel (chunk_range_list a b)) eqn:Ex; [|reflexivity].
    apply existsb_exists in Ex. destruct Ex as (c & Hc & Hs). apply crl_in in Hc.
    rewrite HSel in Hs by lia. apply andb_true_iff in Hs. destruct Hs as [S1 S2].
    apply N.leb_le in S1. apply N.ltb_lt in S2.
    apply andb_false_iff in E. destruct E as [E|E]; apply N.ltb_ge in E; lia.
Qed.

Lemma slice_rec : forall (m : nat) (f : nat) a b, (m < f)%nat -> a < b -> b <= nn -> b - a <= 2 ^ N.of_nat m ->
  flat HO (E0 a b) = bao_rec f data lo hi a b.
Proof.
  pose proof (nchunks_small _ Hsize) as Hn.
  assert (P63 : 2 ^ 53 <= 2 ^ 63) by (apply pow2_le_mono; lia).
  induction m as [|m IH]; intros f a b Hf Hab Hb Hm;
    (destruct f as [|f]; [lia|]);
    rewrite (ENC_unfold HO data 0 Sel a b) by lia; rewrite bao_rec_eq;
    rewrite (existsb_ivl a b Hab Hb);
    destruct ((a <? hi) && (lo <? b)); cbn [negb]; try reflexivity.
  - change (2 ^ N.of_nat 0) with 1 in Hm. assert (E1 : (b - a <=? 1) = true) by (apply N.leb_le; lia).
    rewrite E1. apply flat_leaf.
  - destruct (b - a <=? 1) eqn:E1; [apply flat_leaf|]. apply N.leb_gt in E1.
    rewrite of_nat_S in Hm.
    pose proof (half_bounds (b - a) (N.of_nat m) ltac:(lia) Hm) as (A1 & A2 & A3 & A4 & A5). cbv zeta in A1, A2, A3, A4, A5.
    destruct (np2_half (b - a) ltac:(lia)) as (k & Ecap & _ & _ & _).
    assert (E0c : (next_pow2 (b - a) <=? 2 ^ 0) = false).
    { apply N.leb_gt. rewrite Ecap, pow2_succ. change (2 ^ 0) with 1. pose proof (pow2_pos k). lia. }
    rewrite E0c, andb_false_r.
    set (h := next_pow2 (b - a) / 2) in *.
    rewrite flat_cons_parent, flat_app.
    rewrite (IH f a (a + h)) by lia. rewrite (IH f (a + h) b) by lia.
    rewrite <- ?app_assoc. reflexivity.
Qed.

Lemma slice_top : flat HO (E0 0 nn) = bao_rec 64 data lo hi 0 nn.
Proof.
  pose proof (nchunks_small _ Hsize) as Hn. pose proof (nchunks_bounds size) as (B1 & _).
  apply (slice_rec 53); [lia|lia|lia|]. change (N.of_nat 53) with 53. lia.
Qed.
End Slice.

(* the selection of a single range is an interval of chunks *)
Lemma mem_pair s e c : mem [s; e] c = (s <=? c) && (c <? e).
Proof.
  cbn [mem]. destruct (N.leb_spec s c), (N.leb_spec e c), (N.ltb_spec c e); cbn; try reflexivity; lia.
Qed.
Lemma mem_single s c : mem [s] c = (s <=? c).
Proof. cbn [mem]. destruct (s <=? c); reflexivity. Qed.

Lemma nn_ceil size : 0 < size -> nchunks size = (size + 1023) / 1024.
Proof. intro H. unfold nchunks. rewrite chunks_ceil. lia. Qed.

(* closed range [s, e) of chunks = bytes (s * 1024, (e - s) * 1024) *)
Lemma sel_pair_ivl size s e : s < e ->
  let start := s * 1024 in let len := (e - s) * 1024 in
  bao_lo size start < bao_hi size start len /\ bao_hi size start len <= nchunks size /\
  forall c, c < nchunks size -> sel [s; e] size c = (bao_lo size start <=? c) && (c <? bao_hi size start len).
Proof.
  intros Hse. cbv zeta. pose proof (nchunks_bounds size) as (B1 & B2 & B3).
  unfold bao_lo, bao_hi, sel, reaches. cbn [length Nat.odd last].
  destruct (N.ltb_spec (s * 1024) size) as [L|L].
  - assert (Hs : 0 < size) by lia. pose proof (nn_ceil size Hs) as En.
    assert (Es : s * 1024 / 1024 = s) by (apply N.div_mul; lia). rewrite Es.
    assert (Eh : (N.min (s * 1024 + N.max ((e - s) * 1024) 1) size + 1023) / 1024 = N.min e (nchunks size)).
    { rewrite En. destruct (N.le_gt_cases (e * 1024) size) as [G|G].
      - rewrite (N.min_l (s * 1024 + _)) by lia. rewrite N.min_l by lia. lia.
      - rewrite (N.min_r (s * 1024 + _)) by lia. rewrite N.min_r by lia. reflexivity. }
    rewrite Eh. split; [lia|]. split; [lia|]. intros c Hc.
    rewrite mem_pair.
    destruct (N.ltb_spec c (nchunks size)); [|lia]. cbn [andb].
    destruct (N.leb_spec s c), (N.ltb_spec c e), (N.eqb_spec c (nchunks size - 1)), (N.ltb_spec (nchunks size) e),
      (N.ltb_spec c (N.min e (nchunks size))); cbn; try reflexivity; lia.
  - split; [lia|]. split; [lia|]. intros c Hc. rewrite mem_pair.
    destruct (N.ltb_spec c (nchunks size)); [|lia]. cbn [andb].
    destruct (N.leb_spec s c), (N.ltb_spec c e), (N.eqb_spec c (nchunks size - 1)), (N.ltb_spec (nchunks size) e),
      (N.leb_spec (nchunks size - 1) c); cbn; try reflexivity; lia.
Qed.

(* open range [s, infinity) = bytes (s * 1024, len) for any len reaching the end of the content *)
Lemma sel_single_ivl size s len : size <= s * 1024 + len ->
  let start := s * 1024 in
  bao_lo size start < bao_hi size start len /\ bao_hi size start len <= nchunks size /\
  forall c, c < nchunks size -> sel [s] size c = (bao_lo size start <=? c) && (c <? bao_hi size start len).
Proof.
  intros Hlen. cbv zeta. pose proof (nchunks_bounds size) as (B1 & B2 & B3).
  unfold bao_lo, bao_hi, sel, reaches. cbn [length Nat.odd].
  destruct (N.ltb_spec (s * 1024) size) as [L|L].
  - assert (Hs : 0 < size) by lia. pose proof (nn_ceil size Hs) as En.
    assert (Es : s * 1024 / 1024 = s) by (apply N.div_mul; lia). rewrite Es.
    assert (Eh : (N.min (s * 1024 + N.max len 1) size + 1023) / 1024 = nchunks size).
    { rewrite En. rewrite N.min_r by lia. reflexivity. }
    rewrite Eh. split; [lia|]. split; [lia|]. intros c Hc. rewrite mem_single.
    destruct (N.ltb_spec c (nchunks size)); [|lia]. cbn [andb].
    destruct (N.leb_spec s c), (N.eqb_spec c (nchunks size - 1)); cbn; try reflexivity; lia.
  - split; [lia|]. split; [lia|]. intros c Hc. rewrite mem_single.
    destruct (N.ltb_spec c (nchunks size)); [|lia]. cbn [andb].
    destruct (N.leb_spec s c), (N.eqb_spec c (nchunks size - 1)), (N.leb_spec (nchunks size - 1) c); cbn; try reflexivity; lia.
Qed.


(* ---------- C04: the honest encoding of a single range at block size 0 is bao's slice ---------- *)
Theorem honest_bs0_is_bao_slice_range (data : bytes) (s e : N) : blen HO data <= 2 ^ 63 -> s < e ->
  flat HO (honest HO data 0 [s; e]) = bao_slice data (s * 1024) ((e - s) * 1024).
Proof.
  intros Hsize Hse. rewrite honest_ENC. unfold bao_slice.
  destruct (sel_pair_ivl (blen HO data) s e Hse) as (H1 & H2 & H3).
  exact (slice_top data Hsize _ _ _ H1 H2 H3).
Qed.

Theorem honest_bs0_is_bao_slice_open (data : bytes) (s len : N) : blen HO data <= 2 ^ 63 ->
  blen HO data <= s * 1024 + len ->
  flat HO (honest HO data 0 [s]) = bao_slice data (s * 1024) len.
Proof.
  intros Hsize Hlen. rewrite honest_ENC. unfold bao_slice.
  destruct (sel_single_ivl (blen HO data) s len Hlen) as (H1 & H2 & H3).
  exact (slice_top data Hsize _ _ _ H1 H2 H3).
Qed.

(* the chunks of the slice, in chunk terms: a range that starts inside the content is clipped to it, a range
   that starts at or past the end selects the last chunk *)
Lemma bao_lo_chunks size s : bao_lo size (s * 1024) = if s * 1024 <? size then s else nchunks size - 1.
Proof.
  unfold bao_lo. destruct (s * 1024 <? size); [|reflexivity]. apply N.div_mul. lia.
Qed.
Lemma bao_hi_chunks size s e : s < e ->
  bao_hi size (s * 1024) ((e - s) * 1024) = if s * 1024 <? size then N.min e (nchunks size) else nchunks size.
Proof.
  intro Hse. unfold bao_hi. destruct (N.ltb_spec (s * 1024) size) as [L|L]; [|reflexivity].
  assert (Hs : 0 < size) by lia. rewrite (nn_ceil size Hs).
  destruct (N.le_gt_cases (e * 1024) size) as [G|G].
  - rewrite (N.min_l (s * 1024 + _)) by lia. rewrite N.min_l by lia. lia.
  - rewrite (N.min_r (s * 1024 + _)) by lia. rewrite N.min_r by lia. reflexivity.
Qed.

(* ---------- C03: the pre-order outboard at block size 0 is bao's outboard ---------- *)
Lemma ob_rec_bao (data : bytes) (n : N) : forall fuel ga k, ga + k <= n ->
  ob_rec HO fuel false data 1 n ga k = bao_ob_rec fuel data ga (ga + k).
Proof.
  induction fuel as [|f IH]; intros ga k Hk; [reflexivity|].
  cbn [ob_rec]. rewrite bao_ob_rec_eq. cbv zeta.
  replace (ga + k - ga) with k by lia.
  destruct (N.leb_spec k 1) as [L|L]; [reflexivity|].
  pose proof (np2_half k ltac:(lia)) as (j & _ & Eh & K1 & K2).
  set (h := next_pow2 k / 2) in *.
  assert (Hh : h < k) by (rewrite Eh; exact K1).
  rewrite !N.mul_1_r. rewrite (N.min_l (ga + k) n) by lia.
  rewrite (IH ga h) by lia. rewrite (IH (ga + h) (k - h)) by lia.
  replace (ga + h + (k - h)) with (ga + k) by lia. rewrite <- ?app_assoc. reflexivity.
Qed.

Theorem spec_outboard_bs0_is_bao (data : bytes) :
  spec_outboard HO false data 0 = bao_outboard data.
Proof.
  unfold spec_outboard, bao_outboard. cbv zeta. unfold blob_chunks. change (2 ^ 0) with 1.
  set (n := nchunks (blen HO data)).
  assert (E : (n + 1 - 1) / 1 = n) by (rewrite N.div_1_r; lia).
  rewrite E. rewrite (ob_rec_bao data n 64 0 n) by lia. rewrite N.add_0_l. reflexivity.
Qed.


(* ---------- the definitions, as equations (used by Props/C03.v, Props/C04.v) ---------- *)
Lemma bao_slice_def (data : bytes) (start len : N) :
  bao_slice data start len =
  bao_rec 64 data (bao_lo (blen HO data) start) (bao_hi (blen HO data) start len) 0 (nchunks (blen HO data)).
Proof. reflexivity. Qed.
Lemma bao_lo_def (size start : N) : bao_lo size start = if start <? size then start / 1024 else nchunks size - 1.
Proof. reflexivity. Qed.
Lemma bao_hi_def (size start len : N) :
  bao_hi size start len = if start <? size then (N.min (start + N.max len 1) size + 1023) / 1024 else nchunks size.
Proof. reflexivity. Qed.
Lemma bao_rec_0 (data : bytes) lo hi a b : bao_rec 0 data lo hi a b = [].
Proof. reflexivity. Qed.
Lemma bao_outboard_def (data : bytes) : bao_outboard data = bao_ob_rec 64 data 0 (nchunks (blen HO data)).
Proof. reflexivity. Qed.
Lemma bao_ob_rec_0 (data : bytes) a b : bao_ob_rec 0 data a b = [].
Proof. reflexivity. Qed.

End Bao.
