(* Consequences of the unit-wise characterisation (Proofs/EncMain.v) for the entry points:
   encode_ranges_validated (sync / fsm), traverse_ranges_validated, encode_ranges (sync / fsm). *)
From BaoV Require Import Model.Fsm Spec.RangeSpec Spec.PlanSpec Spec.EncSpec Spec.HashAssm.
From BaoV Require Import Proofs.RangeBase Proofs.RangeTrunc Proofs.PlanRs Proofs.PlanPreIter.
From BaoV Require Import Proofs.BridgeBase Proofs.BridgeTree Proofs.BridgeGeom Proofs.BridgePlan Proofs.DecHash.
From BaoV Require Import Proofs.EncPlan Proofs.EncRec Proofs.EncGeom Proofs.EncLoop Proofs.EncMain.
From Coq Require Import Lia Arith PeanoNat ZArith ZifyN ZifyNat ZifyBool.
Ltac Zify.zify_post_hook ::= Z.div_mod_to_equations.
Arguments N.add : simpl never.
Arguments N.sub : simpl never.
Arguments N.mul : simpl never.
Arguments N.pow : simpl never.
Arguments N.div : simpl never.
Arguments N.modulo : simpl never.
Arguments N.log2 : simpl never.
Arguments N.min : simpl never.
Arguments N.max : simpl never.

(* ---- plan nodes ---- *)
Lemma plan_nodes_without l : plan_nodes (map without_ranges l) = plan_nodes l.
Proof.
  unfold plan_nodes. induction l as [|c l IH]; [reflexivity|]. cbn [map flat_map]. rewrite IH. destruct c; reflexivity.
Qed.

Lemma in_plan_nodes nd ir lf rt rs l : In (CParent nd ir lf rt rs) l -> In nd (plan_nodes l).
Proof.
  induction l as [|c l IH]; intro H; [contradiction|]. destruct H as [->|H].
  - cbn. now left.
  - unfold plan_nodes. cbn [flat_map]. apply in_or_app. right. now apply IH.
Qed.

Lemma rplan_nodes size bs q0 : size <= 2 ^ 63 -> bs <= 10 -> wf_ranges q0 = true ->
  plan_nodes (rplan size bs q0) = plan_nodes (pre_plan size bs 0 q0).
Proof.
  intros Hs Hb Hw. rewrite <- (rplan_refines size bs q0 Hs Hb), <- (pre_plan_refines size bs 0 q0 Hs Hb Hw).
  now rewrite plan_nodes_without.
Qed.

Section Bytes.
Variable HO : hops.
Notation bytes := (bytes HO).

Lemma take_min n (d : bytes) : take HO (N.min n (blen HO d)) d = take HO n d.
Proof.
  unfold take, blen. destruct (N.le_gt_cases n (N.of_nat (length d))) as [L|L].
  - now rewrite N.min_l by assumption.
  - rewrite N.min_r by lia. rewrite Nat2N.id. rewrite firstn_all. symmetry. apply firstn_all2. lia.
Qed.

Lemma read_exact_len (d : bytes) off len buf : read_exact_at HO d off len = Ok buf -> blen HO buf = len.
Proof.
  unfold read_exact_at. destruct (blen HO (slice HO off len d) =? len) eqn:E; [|discriminate].
  intro H. apply Ok_inj in H. subst buf. now apply N.eqb_eq.
Qed.

Lemma read_exact_inside (d : bytes) off len : off + len <= blen HO d ->
  read_exact_at HO d off len = Ok (slice HO off len d).
Proof.
  intro H. unfold read_exact_at.
  assert (E : blen HO (slice HO off len d) = len).
  { unfold slice, take, drop, blen in *. rewrite firstn_length, skipn_length. lia. }
  rewrite E, N.eqb_refl. reflexivity.
Qed.

Lemma read_exact_no_panic (d : bytes) off len : read_exact_at HO d off len <> Panic.
Proof. unfold read_exact_at. destruct (_ =? _); discriminate. Qed.

Lemma zeros_len n : length (zeros HO n) = n.
Proof. apply repeat_length. Qed.

Lemma parse_pair_len (b : bytes) l r : blen HO b = 64 -> parse_pair HO b = (l, r) -> length l = 32%nat /\ length r = 32%nat.
Proof.
  intros Hb H. unfold parse_pair in H. apply pair_inj in H. destruct H as [<- <-].
  unfold blen in Hb. rewrite firstn_length, skipn_length. lia.
Qed.

Lemma slice_len64 off (d : bytes) : off + 64 <= blen HO d -> blen HO (slice HO off 64 d) = 64.
Proof. intro H. unfold slice, take, drop, blen in *. rewrite firstn_length, skipn_length. lia. Qed.

Lemma load_sync_len ob nd l r : load_sync HO ob nd = Ok (Some (l, r)) -> length l = 32%nat /\ length r = 32%nat.
Proof.
  unfold load_sync. destruct (ob_offset HO ob nd) as [o|]; [|discriminate].
  destruct (ob_k ob).
  - destruct (blen HO (slice HO (o * 64) 64 (ob_data ob)) =? 64) eqn:E; [|discriminate].
    intro H. apply Ok_inj, Some_inj in H. apply N.eqb_eq in E. eapply parse_pair_len; eauto.
  - destruct (blen HO (slice HO (o * 64) 64 (ob_data ob)) =? 64) eqn:E; [|discriminate].
    intro H. apply Ok_inj, Some_inj in H. apply N.eqb_eq in E. eapply parse_pair_len; eauto.
  - destruct (o * 64 + 64 <=? blen HO (ob_data ob)) eqn:E; [|discriminate].
    intro H. apply Ok_inj, Some_inj in H. apply N.leb_le in E. eapply parse_pair_len; [|exact H]. now apply slice_len64.
  - destruct (o * 64 + 64 <=? blen HO (ob_data ob)) eqn:E; [|discriminate].
    intro H. apply Ok_inj, Some_inj in H. apply N.leb_le in E. eapply parse_pair_len; [|exact H]. now apply slice_len64.
  - intro H. apply Ok_inj, Some_inj in H. unfold zero_pair, zero_hash in H. apply pair_inj in H. destruct H as [<- <-].
    now rewrite zeros_len.
Qed.

Lemma load_fsm_len ob nd l r : load_fsm HO ob nd = Ok (Some (l, r)) -> length l = 32%nat /\ length r = 32%nat.
Proof.
  unfold load_fsm. destruct (ob_offset HO ob nd) as [o|]; [|discriminate].
  assert (Z : forall l r : hash HO, zero_pair HO = (l, r) -> length l = 32%nat /\ length r = 32%nat).
  { intros l0 r0 H. unfold zero_pair, zero_hash in H. apply pair_inj in H. destruct H as [<- <-]. now rewrite zeros_len. }
  destruct (ob_k ob).
  - destruct (blen HO (slice HO (o * 64) 64 (ob_data ob)) =? 64) eqn:E.
    + intro H. apply Ok_inj, Some_inj in H. apply N.eqb_eq in E. eapply parse_pair_len; eauto.
    + intro H. apply Ok_inj, Some_inj in H. now apply Z.
  - destruct (blen HO (slice HO (o * 64) 64 (ob_data ob)) =? 64) eqn:E.
    + intro H. apply Ok_inj, Some_inj in H. apply N.eqb_eq in E. eapply parse_pair_len; eauto.
    + intro H. apply Ok_inj, Some_inj in H. now apply Z.
  - destruct (o * 64 + 64 <=? blen HO (ob_data ob)) eqn:E; [|discriminate].
    intro H. apply Ok_inj, Some_inj in H. apply N.leb_le in E. eapply parse_pair_len; [|exact H]. now apply slice_len64.
  - destruct (o * 64 + 64 <=? blen HO (ob_data ob)) eqn:E; [|discriminate].
    intro H. apply Ok_inj, Some_inj in H. apply N.leb_le in E. eapply parse_pair_len; [|exact H]. now apply slice_len64.
  - intro H. apply Ok_inj, Some_inj in H. now apply Z.
Qed.
End Bytes.

Section Top.
Variable HO : hops.
Notation bytes := (bytes HO).
Notation hash := (hash HO).
Variable data : bytes.
Variable bs : N.
Variable q : ranges.
Hypothesis Hwf : wf_ranges q = true.
Hypothesis Hsize : blen HO data <= 2 ^ 63.
Hypothesis Hbs : bs <= 10.
Local Notation size := (blen HO data).
Local Notation nn := (nchunks (blen HO data)).
Local Notation q' := (truncate_ranges q (blen HO data)).
Local Notation Sel := (sel q (blen HO data)).
Local Notation ENC := (ENC HO data bs Sel).
Local Notation gE := (gE HO data bs).
Local Notation hb := (hb HO data bs q).
Local Notation hbs := (hbs HO data bs q).
Local Notation plan := (rplan (blen HO data) bs (truncate_ranges q (blen HO data))).

Lemma honest_nil : flat HO (honest HO data bs []) = [].
Proof.
  assert (E : existsb (sel [] size) (chunk_range_list 0 (blob_chunks HO data)) = false).
  { induction (chunk_range_list 0 (blob_chunks HO data)) as [|x l IH]; [reflexivity|].
    cbn [existsb]. now rewrite sel_nil, IH. }
  rewrite (honest_ENC HO data bs []).
  rewrite (ENC_none HO data bs (sel [] size) 0 nn E). reflexivity.
Qed.

(* ---- facts about a leaf unit of a plan ---- *)
Lemma geom_leaf q0 s sz ir rs : unit_geom HO data bs q0 (CLeaf s sz ir rs) ->
  to_bytes s = s * 1024 /\ sz = blen HO (chunk_bytes HO data s (gE s)) /\ s * 1024 + sz <= size /\
  s < gE s /\ gE s <= nn /\ gE s - s <= 2 ^ bs /\
  chunk_bytes HO data s (gE s) = slice HO (s * 1024) sz data.
Proof.
  intros (E & rm & Hl & ->). destruct (leaf_group HO data bs q Hsize Hbs q0 s E rm rs Hl) as [HgE Hg]. rewrite HgE.
  destruct Hl as [H1 H2 H3 _ _ _ _ _].
  pose proof (nchunks_small _ Hsize) as Hn. pose proof (nchunks_bounds size) as (B1 & B2 & B3).
  assert (P : 2 ^ 53 < 2 ^ 54) by (apply N.pow_lt_mono_r; lia).
  assert (Hsp : span_bytes size s E = blen HO (chunk_bytes HO data s E)).
  { apply (span_chunk_bytes HO data s E E); try lia. }
  split; [apply BridgeBase.to_bytes_small; lia|]. split; [exact Hsp|].
  split; [rewrite Hsp, blen_chunk_bytes; nia|]. split; [exact H1|]. split; [exact H2|]. split; [exact Hg|].
  rewrite Hsp. unfold chunk_bytes, slice. rewrite <- (take_min HO ((E - s) * 1024)). f_equal.
  unfold take, drop, blen. rewrite firstn_length, skipn_length. lia.
Qed.

Lemma geom_leaf_read q0 s sz ir rs : unit_geom HO data bs q0 (CLeaf s sz ir rs) ->
  read_exact_at HO data (to_bytes s) sz = Ok (chunk_bytes HO data s (gE s)).
Proof.
  intro Hg. destruct (geom_leaf q0 s sz ir rs Hg) as (T & _ & L & _ & _ & _ & C). rewrite T, C.
  now apply read_exact_inside.
Qed.

Lemma pc_fst_snd (A B l r : hash) ir :
  parent_cv HO l r ir = parent_cv HO (fst (A, B)) (snd (A, B)) ir -> parent_cv HO l r ir = parent_cv HO A B ir.
Proof. intro H. exact H. Qed.

(* ---- every unit is good under hash_ok ---- *)
Lemma geom_good (load : loader HO) (data' : bytes) q0 c : hash_ok HO ->
  (forall nd l r, load nd = Ok (Some (l, r)) -> length l = 32%nat /\ length r = 32%nat) ->
  unit_geom HO data bs q0 c -> good_unit HO data bs load data' c.
Proof.
  intros HOK Hlen Hg. destruct c as [nd ir lf rt rs|s sz ir rs]; cbn [good_unit].
  - destruct Hg as (a & m & E & Hpar & ->). intros l r ir' Hl Hc.
    destruct (tp_par HO data bs q Hsize Hbs a m E Hpar) as [Htp _].
    destruct (Hlen _ _ _ Hl) as [L1 L2].
    pose proof (nchunks_small _ Hsize) as Hn.
    assert (P : 2 ^ 53 <= 2 ^ 63) by (apply pow2_le_mono; lia).
    destruct Hpar as [A1 A2 A3 _ _ _ _].
    rewrite Htp in Hc |- *. apply pc_fst_snd in Hc.
    apply (parent_cv_inj HO HOK) in Hc; try assumption.
    + destruct Hc as [-> ->]. reflexivity.
    + apply (cv_len HO (ho_len HO HOK)). lia.
    + apply (cv_len HO (ho_len HO HOK)). lia.
  - destruct (geom_leaf q0 s sz ir rs Hg) as (T & Hsz & L & _ & _ & _ & C).
    intros buf ir' Hr Hh. pose proof (read_exact_len HO _ _ _ _ Hr) as Hb.
    symmetry. apply (hash_subtree_inj HO HOK s _ buf ir').
    + unfold leaf_len_ok. rewrite <- Hsz. change (1024 * 2 ^ 63) with (1024 * 9223372036854775808).
      change (2 ^ 63) with 9223372036854775808 in Hsize. lia.
    + rewrite Hsz in Hb. unfold blen in Hb. lia.
    + symmetry. exact Hh.
Qed.

(* ---- honest bytes of a unit are not empty (when its stored bytes are not) ---- *)
Lemma hb_parent_nonempty q0 nd ir lf rt rs : cv_len32 HO ->
  unit_geom HO data bs q0 (CParent nd ir lf rt rs) -> hb (CParent nd ir lf rt rs) <> [].
Proof.
  intros Hlen (a & m & E & Hpar & ->).
  rewrite (hb_par HO data bs q Hsize Hbs a m E ir lf rt rs Hpar).
  pose proof (nchunks_small _ Hsize) as Hn.
  assert (P : 2 ^ 53 <= 2 ^ 63) by (apply pow2_le_mono; lia).
  destruct Hpar as [A1 A2 A3 _ _ _ _].
  pose proof (cv_len HO Hlen data a m false ltac:(lia)) as L.
  destruct (cv HO data a m false); [discriminate L|]. discriminate.
Qed.

Lemma ENC_nonempty a E : cv_len32 HO -> a < E -> E <= nn ->
  existsb Sel (chunk_range_list a E) = true -> chunk_bytes HO data a E <> [] -> flat HO (ENC a E) <> [].
Proof.
  intros Hlen H1 H2 Hs Hne.
  pose proof (nchunks_small _ Hsize) as Hn.
  assert (P : 2 ^ 53 <= 2 ^ 63) by (apply pow2_le_mono; lia).
  rewrite ENC_unfold by lia. rewrite Hs. cbn [negb].
  destruct (E - a <=? 1) eqn:E1; [now rewrite flat_leaf|]. apply N.leb_gt in E1.
  destruct (forallb Sel (chunk_range_list a E) && (next_pow2 (E - a) <=? 2 ^ bs)); [now rewrite flat_leaf|].
  rewrite flat_cons_parent.
  pose proof (half_bounds (E - a) 62 ltac:(lia) ltac:(lia)) as (B1 & B2 & _). cbv zeta in B1, B2.
  pose proof (cv_len HO Hlen data a (a + next_pow2 (E - a) / 2) false ltac:(lia)) as L.
  destruct (cv HO data a (a + next_pow2 (E - a) / 2) false); [discriminate L|]. discriminate.
Qed.

Lemma hb_leaf_nonempty s sz ir rs : cv_len32 HO ->
  unit_geom HO data bs q' (CLeaf s sz ir rs) -> chunk_bytes HO data s (gE s) <> [] -> hb (CLeaf s sz ir rs) <> [].
Proof.
  intros Hlen Hg Hne. destruct (geom_leaf q' s sz ir rs Hg) as (_ & _ & _ & L1 & L2 & _ & _).
  destruct Hg as (E & rm & Hl & _).
  destruct (leaf_group HO data bs q Hsize Hbs q' s E rm rs Hl) as [HgE _].
  pose proof (leaf_sel HO data bs q Hwf Hsize s E rm rs Hl) as Hs. rewrite <- HgE in Hs.
  cbn [EncMain.hb]. unfold hbL. now apply ENC_nonempty.
Qed.

(* ---- the model's plan ---- *)
Definition blob_store (ob : outboard HO) : Prop :=
  ob_tree ob = mkTree size bs /\ ob_root ob = root_hash HO data.

Lemma vplan_eq ob : blob_store ob -> vplan HO ob q = plan.
Proof. intros [Ht _]. unfold vplan. rewrite Ht. cbn [tsize]. now apply rplan_refines. Qed.

Lemma geom_plan : q <> [] -> Forall (unit_geom HO data bs q') plan.
Proof. intro Hne. apply plan_geom; try assumption; [now apply truncate_wf|now apply q'_nonempty]. Qed.

(* ---- intact units: (Ok, honest) with no assumption on the hash beyond a correct byte comparison ---- *)
Theorem bloop_all_ok (load : loader HO) (data' : bytes) : beq_correct HO -> q <> [] ->
  Forall (unit_ok HO data bs load data') plan ->
  bloop HO load plan [root_hash HO data] bs data' = (Ok tt, flat HO (honest HO data bs q)).
Proof.
  intros Hbeq Hne Hall.
  pose proof (main_run HO data bs q Hwf Hsize Hbs load data' Hbeq Hne) as H.
  assert (Hgood : Forall (good_unit HO data bs load data') plan).
  { eapply Forall_impl; [|exact Hall]. intros c. apply unit_ok_good. }
  specialize (H Hgood).
  destruct (bloop HO load plan [root_hash HO data] bs data') as [r o].
  destruct (srun_all_ok HO data bs q load data' plan r o Hall H) as [-> ->].
  now rewrite hbs_plan.
Qed.

Lemma intact_units (load : loader HO) : q <> [] ->
  (forall nd, In nd (plan_nodes plan) -> load nd = Ok (Some (true_pair HO data nd))) ->
  Forall (unit_ok HO data bs load data) plan.
Proof.
  intros Hne Hst. pose proof (geom_plan Hne) as Hg. rewrite Forall_forall in *. intros c Hc.
  destruct c as [nd ir lf rt rs|s sz ir rs]; cbn [unit_ok].
  - apply Hst. eapply in_plan_nodes; eauto.
  - eapply geom_leaf_read. apply (Hg _ Hc).
Qed.

(* ---- any store, under hash_ok: the run is the unit-wise scan ---- *)
Theorem bloop_srun (load : loader HO) (data' : bytes) : hash_ok HO ->
  (forall nd l r, load nd = Ok (Some (l, r)) -> length l = 32%nat /\ length r = 32%nat) ->
  q <> [] ->
  srun HO data bs q load data' plan (bloop HO load plan [root_hash HO data] bs data').
Proof.
  intros HOK Hlen Hne.
  apply (main_run HO data bs q Hwf Hsize Hbs load data' (ho_beq HO HOK) Hne).
  eapply Forall_impl; [|exact (geom_plan Hne)]. intros c. now apply geom_good.
Qed.

End Top.
