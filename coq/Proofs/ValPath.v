(* C06, part 2: the output of val_spec, group by group.  The path of a chunk group through the Shape,
   the predicates touched / chain_ok / leaf_ok, and the exact list reported by val_spec. *)
From BaoV Require Import Model.Sync Model.Fsm Spec.PlanSpec Spec.PlanWf Spec.EncSpec Spec.HashAssm.
From BaoV Require Import Proofs.NodeLevel Proofs.NodeBits Proofs.NodeAlgebra
  Proofs.ObBase Proofs.RangeBase Proofs.BridgeBase
  Proofs.PlanBase Proofs.PlanNav Proofs.ValSpec.
From Coq Require Import ZArith Lia.
Open Scope N_scope.
Arguments N.add : simpl never.
Arguments N.sub : simpl never.
Arguments N.mul : simpl never.
Arguments N.pow : simpl never.
Arguments N.shiftl : simpl never.
Arguments N.shiftr : simpl never.
Arguments N.land : simpl never.
Arguments N.div : simpl never.
Arguments N.modulo : simpl never.
Arguments N.log2 : simpl never.
Arguments N.min : simpl never.
Arguments N.max : simpl never.
Ltac Zify.zify_post_hook ::= Z.to_euclidean_division_equations.

(* the nodes with a stored pair on the way from the node over the groups [ga0, ga0 + n) down to the
   group ga, each with the side taken (true = right); the last one is the shifted leaf of ga, unless
   ga is alone in its shifted leaf (then the last one is the node it is the right descendant of) *)
Fixpoint grp_path (fuel : nat) (bs ga0 n ga : N) : list (N * bool) :=
  match fuel with
  | O => []
  | S f =>
    if n <=? 1 then []
    else if n <=? 2 then [(unshift bs (sid ga0 n), negb (ga =? ga0))]
    else
      let half := capof n / 2 in
      if ga <? ga0 + half then (unshift bs (sid ga0 n), false) :: grp_path f bs ga0 half ga
      else (unshift bs (sid ga0 n), true) :: grp_path f bs (ga0 + half) (n - half) ga
  end.

Lemma grp_path_eq f bs ga0 n ga :
  grp_path (S f) bs ga0 n ga =
    if n <=? 1 then []
    else if n <=? 2 then [(unshift bs (sid ga0 n), negb (ga =? ga0))]
    else
      let half := capof n / 2 in
      if ga <? ga0 + half then (unshift bs (sid ga0 n), false) :: grp_path f bs ga0 half ga
      else (unshift bs (sid ga0 n), true) :: grp_path f bs (ga0 + half) (n - half) ga.
Proof. reflexivity. Qed.

Lemma flat_map_ext_in {A B} (f g : A -> list B) l :
  (forall x, In x l -> f x = g x) -> flat_map f l = flat_map g l.
Proof.
  induction l as [|a l IH]; intro H; [reflexivity|]. cbn [flat_map].
  rewrite (H a) by now left. f_equal. apply IH. intros x Hx. apply H. now right.
Qed.

Lemma flat_map_nil {A B} (f : A -> list B) l : (forall x, In x l -> f x = []) -> flat_map f l = [].
Proof.
  induction l as [|a l IH]; intro H; [reflexivity|]. cbn [flat_map].
  rewrite (H a) by now left. apply IH. intros x Hx. apply H. now right.
Qed.

Section ValPath.
Variable HO : hops.
Notation bytes := (bytes HO).
Notation hash := (hash HO).
Notation outboard := (outboard HO).

Definition heq (x y : hash) : Prop := bytes_eqb HO x y = true.
Definition pick (rt : bool) (p : hash * hash) : hash := if rt then snd p else fst p.

(* walking a path with a value owed at its top: every stored pair must hash to the value owed to its
   node; the result is the value owed to the group at the end of the path *)
Fixpoint chain_walk (ob : outboard) (p : list (N * bool)) (owed : hash) (ir : bool) : option hash :=
  match p with
  | [] => Some owed
  | (nd, rt) :: rest =>
      match stored_pair HO ob nd with
      | None => None
      | Some (l, r) =>
          if bytes_eqb HO (parent_cv HO l r ir) owed then chain_walk ob rest (if rt then r else l) false
          else None
      end
  end.

(* the same as predicates: the chain of pairs, and (positionally) the half owed to the group *)
Fixpoint chain_prop (ob : outboard) (p : list (N * bool)) (owed : hash) (ir : bool) : Prop :=
  match p with
  | [] => True
  | (nd, rt) :: rest =>
      exists l r, stored_pair HO ob nd = Some (l, r) /\ heq (parent_cv HO l r ir) owed /\
                  chain_prop ob rest (if rt then r else l) false
  end.
Fixpoint owed_walk (ob : outboard) (p : list (N * bool)) (owed : option hash) : option hash :=
  match p with
  | [] => owed
  | (nd, rt) :: rest => owed_walk ob rest (option_map (pick rt) (stored_pair HO ob nd))
  end.

Lemma chain_walk_iff ob p : forall owed ir h,
  chain_walk ob p owed ir = Some h <-> chain_prop ob p owed ir /\ owed_walk ob p (Some owed) = Some h.
Proof.
  induction p as [|[nd rt] rest IH]; intros owed ir h; cbn [chain_walk chain_prop owed_walk].
  - split; [intro H; split; [exact I|exact H]|intros [_ H]; exact H].
  - destruct (stored_pair HO ob nd) as [[l r]|] eqn:Es.
    + cbn [option_map pick fst snd].
      destruct (bytes_eqb HO (parent_cv HO l r ir) owed) eqn:Eb.
      * rewrite IH. split.
        -- intros [H1 H2]. split; [|destruct rt; exact H2]. exists l, r. repeat split; assumption.
        -- intros [(l' & r' & E' & _ & H1) H2]. injection E' as <- <-. split; [exact H1|destruct rt; exact H2].
      * split; [discriminate|]. intros [(l' & r' & E' & Hq & _) _]. injection E' as <- <-.
        unfold heq in Hq. congruence.
    + split; [discriminate|]. intros [(l' & r' & E' & _) _]. discriminate.
Qed.

(* one group's verdict *)
Definition grp_okb (wd : bool) (ob : outboard) (d : bytes) (size bs ga : N) (p : list (N * bool)) (owed : hash) (ir : bool) : bool :=
  match chain_walk ob p owed ir with
  | None => false
  | Some h => if wd then bytes_eqb HO (hash_subtree HO (grp_start bs ga) (chunk_bytes HO d (grp_start bs ga) (grp_end size bs ga)) false) h
              else true
  end.

Definition grp_item (wd : bool) (ob : outboard) (d : bytes) (size bs : N) (Sel : N -> bool)
           (fuel : nat) (ga0 n : N) (owed : hash) (ir : bool) (ga : N) : list (N * N) :=
  if touchedn Sel size bs ga 1 && grp_okb wd ob d size bs ga (grp_path fuel bs ga0 n ga) owed ir
  then [(grp_start bs ga, grp_end size bs ga)] else [].

Variables (size bs : N) (Sel : N -> bool).
Variable ob : outboard.
Variable d : bytes.
Variable wd : bool.

Lemma touchedn_sub ga0 n ga : ga0 <= ga -> ga + 1 <= ga0 + n ->
  touchedn Sel size bs ga 1 = true -> touchedn Sel size bs ga0 n = true.
Proof.
  intros H1 H2. unfold touchedn. rewrite !existsb_exists. intros (c & Hc & Hs). exists c. split; [|exact Hs].
  apply crl_in in Hc. apply crl_in. pose proof (pow2_pos bs). nia.
Qed.

Lemma leaf_rep_false ga owed : leaf_rep HO wd d size bs ga owed false =
  if (if wd then bytes_eqb HO (hash_subtree HO (grp_start bs ga) (chunk_bytes HO d (grp_start bs ga) (grp_end size bs ga)) false) owed else true)
  then [(grp_start bs ga, grp_end size bs ga)] else [].
Proof. unfold leaf_rep. destruct wd; reflexivity. Qed.

(* val_spec lists, in increasing order, the groups that are touched and pass *)
Lemma val_spec_groups : forall fuel ga0 n owed ir,
  1 <= n -> N.log2 (capof n) <= N.of_nat fuel -> (n = 1 -> ir = false) ->
  val_spec HO fuel wd ob d size bs Sel ga0 n owed ir =
  flat_map (grp_item wd ob d size bs Sel fuel ga0 n owed ir) (chunk_range_list ga0 (ga0 + n)).
Proof.
  induction fuel as [|f IH]; intros ga0 n owed ir Hn Hf Hir.
  { destruct (fuel_pos n 0 Hn Hf) as [f' Ef]. discriminate. }
  rewrite val_spec_eq.
  destruct (touchedn Sel size bs ga0 n) eqn:Et; cbn [negb].
  2:{ symmetry. apply flat_map_nil. intros ga Hga. apply crl_in in Hga. unfold grp_item.
      destruct (touchedn Sel size bs ga 1) eqn:E1; [|reflexivity].
      rewrite (touchedn_sub ga0 n ga) in Et by (assumption || lia). discriminate. }
  destruct (N.leb_spec n 1) as [L1|L1].
  - assert (n = 1) by lia. subst n. rewrite (Hir eq_refl). rewrite crl_single. cbn [flat_map]. rewrite app_nil_r.
    unfold grp_item. rewrite Et, grp_path_eq. cbn [N.leb andb]. change (1 <=? 1) with true. cbv iota.
    unfold grp_okb. cbn [chain_walk]. rewrite leaf_rep_false. reflexivity.
  - destruct (N.leb_spec n 2) as [L2|L2].
    + assert (n = 2) by lia. subst n.
      replace (ga0 + 2) with (ga0 + 1 + 1) by lia. rewrite crl_snoc, crl_single by lia. cbn [flat_map app].
      rewrite app_nil_r. unfold grp_item. rewrite !grp_path_eq. change (2 <=? 1) with false. change (2 <=? 2) with true. cbv iota.
      rewrite N.eqb_refl. replace (ga0 + 1 =? ga0) with false by (symmetry; apply N.eqb_neq; lia). cbn [negb].
      unfold grp_okb. cbn [chain_walk].
      destruct (stored_pair HO ob (unshift bs (sid ga0 2))) as [[l r]|]; [|rewrite !andb_false_r; reflexivity].
      destruct (bytes_eqb HO (parent_cv HO l r ir) owed); cbn [negb]; [|rewrite !andb_false_r; reflexivity].
      rewrite !leaf_rep_false.
      destruct (touchedn Sel size bs ga0 1), (touchedn Sel size bs (ga0 + 1) 1); cbn [andb]; reflexivity.
    + assert (H3 : 3 <= n) by lia.
      destruct (capof_inner n H3) as (j & Ecap & Eh & K1 & K2 & C1 & C2).
      pose proof (pow2_pos (j + 1)) as Hpj.
      destruct (fuel_children n f H3 Hf) as [F1 F2].
      set (half := capof n / 2) in *. cbv zeta. fold half.
      rewrite (crl_app ga0 (ga0 + half) (ga0 + n)) by lia. rewrite flat_map_app.
      assert (EL : flat_map (grp_item wd ob d size bs Sel (S f) ga0 n owed ir) (chunk_range_list ga0 (ga0 + half)) =
                   match stored_pair HO ob (unshift bs (sid ga0 n)) with
                   | None => []
                   | Some (l, r) => if negb (bytes_eqb HO (parent_cv HO l r ir) owed) then []
                                    else val_spec HO f wd ob d size bs Sel ga0 half l false end).
      { destruct (stored_pair HO ob (unshift bs (sid ga0 n))) as [[l r]|] eqn:Es.
        - destruct (bytes_eqb HO (parent_cv HO l r ir) owed) eqn:Eb; cbn [negb].
          + rewrite (IH ga0 half l false) by (lia || assumption). apply flat_map_ext_in.
            intros ga Hga. apply crl_in in Hga. unfold grp_item. rewrite (grp_path_eq f bs ga0 n ga).
            replace (n <=? 1) with false by lia. replace (n <=? 2) with false by lia. cbv zeta. fold half.
            replace (ga <? ga0 + half) with true by lia. unfold grp_okb. cbn [chain_walk]. rewrite Es, Eb. reflexivity.
          + apply flat_map_nil. intros ga Hga. apply crl_in in Hga. unfold grp_item. rewrite (grp_path_eq f bs ga0 n ga).
            replace (n <=? 1) with false by lia. replace (n <=? 2) with false by lia. cbv zeta. fold half.
            replace (ga <? ga0 + half) with true by lia. unfold grp_okb. cbn [chain_walk]. rewrite Es, Eb.
            rewrite andb_false_r. reflexivity.
        - apply flat_map_nil. intros ga Hga. apply crl_in in Hga. unfold grp_item. rewrite (grp_path_eq f bs ga0 n ga).
          replace (n <=? 1) with false by lia. replace (n <=? 2) with false by lia. cbv zeta. fold half.
          replace (ga <? ga0 + half) with true by lia. unfold grp_okb. cbn [chain_walk]. rewrite Es.
          rewrite andb_false_r. reflexivity. }
      assert (ER : flat_map (grp_item wd ob d size bs Sel (S f) ga0 n owed ir) (chunk_range_list (ga0 + half) (ga0 + n)) =
                   match stored_pair HO ob (unshift bs (sid ga0 n)) with
                   | None => []
                   | Some (l, r) => if negb (bytes_eqb HO (parent_cv HO l r ir) owed) then []
                                    else val_spec HO f wd ob d size bs Sel (ga0 + half) (n - half) r false end).
      { destruct (stored_pair HO ob (unshift bs (sid ga0 n))) as [[l r]|] eqn:Es.
        - destruct (bytes_eqb HO (parent_cv HO l r ir) owed) eqn:Eb; cbn [negb].
          + rewrite (IH (ga0 + half) (n - half) r false) by (lia || assumption).
            replace (ga0 + half + (n - half)) with (ga0 + n) by lia. apply flat_map_ext_in.
            intros ga Hga. apply crl_in in Hga. unfold grp_item. rewrite (grp_path_eq f bs ga0 n ga).
            replace (n <=? 1) with false by lia. replace (n <=? 2) with false by lia. cbv zeta. fold half.
            replace (ga <? ga0 + half) with false by lia. unfold grp_okb. cbn [chain_walk]. rewrite Es, Eb. reflexivity.
          + apply flat_map_nil. intros ga Hga. apply crl_in in Hga. unfold grp_item. rewrite (grp_path_eq f bs ga0 n ga).
            replace (n <=? 1) with false by lia. replace (n <=? 2) with false by lia. cbv zeta. fold half.
            replace (ga <? ga0 + half) with false by lia. unfold grp_okb. cbn [chain_walk]. rewrite Es, Eb.
            rewrite andb_false_r. reflexivity.
        - apply flat_map_nil. intros ga Hga. apply crl_in in Hga. unfold grp_item. rewrite (grp_path_eq f bs ga0 n ga).
          replace (n <=? 1) with false by lia. replace (n <=? 2) with false by lia. cbv zeta. fold half.
          replace (ga <? ga0 + half) with false by lia. unfold grp_okb. cbn [chain_walk]. rewrite Es.
          rewrite andb_false_r. reflexivity. }
      rewrite EL, ER.
      destruct (stored_pair HO ob (unshift bs (sid ga0 n))) as [[l r]|]; [|reflexivity].
      destruct (bytes_eqb HO (parent_cv HO l r ir) owed); reflexivity.
Qed.

End ValPath.
