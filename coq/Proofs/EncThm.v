(* C02 / C05 / C08 theorems for the validating encoders, in the form stated in Props/. *)
From BaoV Require Import Model.Fsm Spec.RangeSpec Spec.PlanSpec Spec.EncSpec Spec.HashAssm.
From BaoV Require Import Proofs.RangeBase Proofs.RangeTrunc Proofs.PlanRs.
From BaoV Require Import Proofs.BridgeBase Proofs.BridgeTree Proofs.BridgeGeom Proofs.BridgePlan.
From BaoV Require Import Proofs.EncPlan Proofs.EncRec Proofs.EncGeom Proofs.EncLoop Proofs.EncMain Proofs.EncTop.
From Coq Require Import Lia Arith PeanoNat ZArith ZifyN ZifyNat ZifyBool.
Ltac Zify.zify_post_hook ::= Z.div_mod_to_equations.
Arguments N.add : simpl never.
Arguments N.sub : simpl never.
Arguments N.mul : simpl never.
Arguments N.pow : simpl never.
Arguments N.div : simpl never.
Arguments N.modulo : simpl never.
Arguments N.log2 : simpl never.
Arguments N.min : simpl never.
Arguments N.max : simpl never.

(* the stored pair of a node is the true pair *)
Definition stored_ok (HO : hops) (data : bytes HO) (ob : outboard HO) (nd : N) : Prop :=
  load_sync HO ob nd = Ok (Some (true_pair HO data nd)).
Definition stored_ok_fsm (HO : hops) (data : bytes HO) (ob : outboard HO) (nd : N) : Prop :=
  load_fsm HO ob nd = Ok (Some (true_pair HO data nd)).

(* the parents of the encoder's plan *)
Definition enc_nodes (size bs : N) (q : ranges) : list N :=
  plan_nodes (pre_plan size bs 0 (truncate_ranges q size)).

Lemma enc_nodes_def size bs q : enc_nodes size bs q = plan_nodes (pre_plan size bs 0 (truncate_ranges q size)).
Proof. unfold enc_nodes. reflexivity. Qed.

Lemma rplan_nil size bs : rplan size bs [] = [].
Proof. unfold rplan. apply rplan_rec_empty. Qed.

Lemma truncate_nil size : truncate_ranges [] size = [].
Proof. unfold truncate_ranges. apply firstn_nil. Qed.

Section Thm.
Variable HO : hops.
Notation bytes := (bytes HO).
Notation hash := (hash HO).
Notation outboard := (outboard HO).
Variable data : bytes.
Variable bs : N.
Variable q : ranges.
Hypothesis Hwf : wf_ranges q = true.
Hypothesis Hsize : blen HO data <= 2 ^ 63.
Hypothesis Hbs : bs <= 10.
Local Notation size := (blen HO data).
Local Notation q' := (truncate_ranges q (blen HO data)).
Local Notation plan := (rplan (blen HO data) bs (truncate_ranges q (blen HO data))).
Local Notation gE := (gE HO data bs).
Local Notation hb := (hb HO data bs q).
Local Notation hbs := (hbs HO data bs q).

Variable ob : outboard.
Hypothesis Htree : ob_tree ob = mkTree size bs.
Hypothesis Hroot : ob_root ob = root_hash HO data.

Lemma Hstore : blob_store HO data bs ob.
Proof. split; assumption. Qed.

Lemma nodes_eq : plan_nodes plan = enc_nodes size bs q.
Proof. unfold enc_nodes. apply rplan_nodes; try assumption. now apply truncate_wf. Qed.

Lemma q_cases : q = [] \/ q <> [].
Proof. destruct q; [now left|right; discriminate]. Qed.

(* the three entry points as the generic loop over the recursive payload plan *)
Lemma erv_plan data' : q <> [] ->
  encode_ranges_validated HO data' ob q = bloop HO (load_sync HO ob) plan [root_hash HO data] bs data'.
Proof.
  intro Hne. rewrite erv_bloop. destruct q as [|x t]; [congruence|]. cbn [r_is_empty].
  rewrite (vplan_eq HO data bs _ Hsize Hbs ob Hstore), Hroot, Htree. reflexivity.
Qed.
Lemma erv_fsm_plan data' :
  encode_ranges_validated_fsm HO data' ob q = bloop HO (load_fsm HO ob) plan [root_hash HO data] bs data'.
Proof.
  rewrite erv_fsm_bloop. rewrite (vplan_eq HO data bs _ Hsize Hbs ob Hstore), Hroot, Htree. reflexivity.
Qed.
Lemma trv_plan data' : q <> [] ->
  traverse_ranges_validated HO data' ob q =
  trv_result HO (gloop HO (load_sync HO ob) plan [root_hash HO data] bs data') size.
Proof.
  intro Hne. rewrite trv_gloop. destruct q as [|x t]; [congruence|]. cbn [r_is_empty].
  rewrite (vplan_eq HO data bs _ Hsize Hbs ob Hstore), Hroot, Htree. reflexivity.
Qed.

(* ---- C05_independent: stores that agree with the blob on every unit of the plan ---- *)
Theorem independent_sync data' : beq_correct HO ->
  Forall (unit_ok HO data bs (load_sync HO ob) data') plan ->
  encode_ranges_validated HO data' ob q = (Ok tt, flat HO (honest HO data bs q)).
Proof.
  intros Hbeq Hall. destruct q as [|x t] eqn:Eq.
  - rewrite erv_bloop. cbn [r_is_empty]. now rewrite honest_nil.
  - rewrite <- Eq in *. assert (Hne : q <> []) by (rewrite Eq; discriminate).
    rewrite (erv_plan data' Hne). now apply bloop_all_ok.
Qed.

Theorem independent_fsm data' : beq_correct HO ->
  Forall (unit_ok HO data bs (load_fsm HO ob) data') plan ->
  encode_ranges_validated_fsm HO data' ob q = (Ok tt, flat HO (honest HO data bs q)).
Proof.
  intros Hbeq Hall. rewrite erv_fsm_plan. destruct q as [|x t] eqn:Eq.
  - rewrite truncate_nil, rplan_nil. cbn [bloop]. now rewrite honest_nil.
  - rewrite <- Eq in *. assert (Hne : q <> []) by (rewrite Eq; discriminate).
    now apply bloop_all_ok.
Qed.

Theorem independent_mixed data' : beq_correct HO ->
  Forall (unit_ok HO data bs (load_sync HO ob) data') plan ->
  exists its, traverse_ranges_validated HO data' ob q = Some (ESize size :: map EItem its ++ [EDone]) /\
              concat (map (item_bytes HO) its) = flat HO (honest HO data bs q).
Proof.
  intros Hbeq Hall. destruct q as [|x t] eqn:Eq.
  - exists []. rewrite trv_gloop. cbn [r_is_empty]. unfold trv_result. cbn [fst snd map app concat]. rewrite Htree. cbn [tsize].
    split; [reflexivity|]. now rewrite honest_nil.
  - rewrite <- Eq in *. assert (Hne : q <> []) by (rewrite Eq; discriminate).
    rewrite (trv_plan data' Hne).
    pose proof (bloop_all_ok HO data bs q Hwf Hsize Hbs (load_sync HO ob) data' Hbeq Hne Hall) as H.
    rewrite bloop_gloop in H.
    destruct (gloop HO (load_sync HO ob) plan [root_hash HO data] bs data') as [r its].
    cbn [fst snd] in H. apply pair_inj in H. destruct H as [-> H2].
    exists its. unfold trv_result. cbn [fst snd]. split; [reflexivity|exact H2].
Qed.

(* ---- C02: the intact store ---- *)
Theorem c02_sync : beq_correct HO ->
  (forall nd, In nd (enc_nodes size bs q) -> stored_ok HO data ob nd) ->
  encode_ranges_validated HO data ob q = (Ok tt, flat HO (honest HO data bs q)).
Proof.
  intros Hbeq Hst. destruct q as [|x t] eqn:Eq.
  - rewrite erv_bloop. cbn [r_is_empty]. now rewrite honest_nil.
  - rewrite <- Eq in *. assert (Hne : q <> []) by (rewrite Eq; discriminate).
    apply independent_sync; [assumption|]. apply intact_units; try assumption.
    intros nd Hnd. apply Hst. now rewrite <- nodes_eq.
Qed.

Theorem c02_fsm : beq_correct HO ->
  (forall nd, In nd (enc_nodes size bs q) -> stored_ok_fsm HO data ob nd) ->
  encode_ranges_validated_fsm HO data ob q = (Ok tt, flat HO (honest HO data bs q)).
Proof.
  intros Hbeq Hst. destruct q_cases as [Hq|Hne].
  - rewrite erv_fsm_plan, Hq, truncate_nil, rplan_nil. cbn [bloop]. now rewrite honest_nil.
  - apply independent_fsm; [assumption|]. apply intact_units; try assumption.
    intros nd Hnd. apply Hst. now rewrite <- nodes_eq.
Qed.

Theorem c08_mixed_frame : beq_correct HO ->
  (forall nd, In nd (enc_nodes size bs q) -> stored_ok HO data ob nd) ->
  exists its, traverse_ranges_validated HO data ob q = Some (ESize size :: map EItem its ++ [EDone]) /\
              concat (map (item_bytes HO) its) = flat HO (honest HO data bs q).
Proof.
  intros Hbeq Hst. destruct q_cases as [Hq|Hne].
  - apply independent_mixed; [assumption|]. rewrite Hq, truncate_nil, rplan_nil. constructor.
  - apply independent_mixed; [assumption|]. apply intact_units; try assumption.
    intros nd Hnd. apply Hst. now rewrite <- nodes_eq.
Qed.

(* ---- C05: any store ---- *)
Definition is_mismatch (r : res enc_err unit) : Prop :=
  (exists n, r = Err (EParentHashMismatch n)) \/ (exists c, r = Err (ELeafHashMismatch c)).

Lemma in_mid {A} (l1 : list A) x l2 : In x (l1 ++ x :: l2).
Proof. apply in_or_app. right. now left. Qed.

Theorem prefix_gen (load : loader HO) data' r out : hash_ok HO ->
  (forall nd l r, load nd = Ok (Some (l, r)) -> length l = 32%nat /\ length r = 32%nat) ->
  q <> [] ->
  bloop HO load plan [root_hash HO data] bs data' = (r, out) ->
  (exists tail, flat HO (honest HO data bs q) = out ++ tail /\ (r = Ok tt -> tail = []) /\ (is_mismatch r -> tail <> [])) /\
  (r = Ok tt \/ is_mismatch r \/ (exists k, r = Err (EIo k)) \/ r = Panic) /\
  ((forall nd, In nd (enc_nodes size bs q) -> exists p, load nd = Ok (Some p)) ->
     r <> Panic /\ (blen HO data' = size -> forall k, r <> Err (EIo k))).
Proof.
  intros HOK Hlen Hne Hrun.
  pose proof (bloop_srun HO data bs q Hwf Hsize Hbs load data' HOK Hlen Hne) as H. rewrite Hrun in H.
  pose proof (geom_plan HO data bs q Hwf Hsize Hbs Hne) as Hgeom. rewrite Forall_forall in Hgeom.
  pose proof (hbs_plan HO data bs q Hwf Hsize Hbs Hne) as Hhb.
  destruct (srun_inv HO data bs q load data' plan r out H) as [(-> & -> & _)|(P1 & u & P2 & EP & Hall & Hf & ->)].
  - split; [|split].
    + exists []. rewrite app_nil_r. split; [now symmetry|]. split; [reflexivity|].
      intros [[n X]|[c X]]; discriminate.
    + now left.
    + intros _. split; [discriminate|]. intros _ k. discriminate.
  - assert (Hu : In u plan) by (rewrite EP; apply in_mid).
    specialize (Hgeom u Hu).
    split; [|split].
    + exists (hb u ++ hbs P2). rewrite <- Hhb, EP, hbs_app, hbs_cons. split; [reflexivity|]. split.
      * intros ->. exfalso. eapply unit_fail_not_Ok; eauto.
      * intros Hm Ht. apply app_eq_nil in Ht. destruct Ht as [Ht _]. revert Ht.
        destruct Hf as [nd ir lf rt rs p Hl Hp| | | |s sz ir rs buf Hr Hb| |];
          try (destruct Hm as [[n X]|[c X]]; discriminate).
        -- apply (hb_parent_nonempty HO data bs q Hsize Hbs q' nd ir lf rt rs (ho_len HO HOK) Hgeom).
        -- apply (hb_leaf_nonempty HO data bs q Hwf Hsize Hbs s sz ir rs (ho_len HO HOK) Hgeom).
           destruct (geom_leaf HO data bs q Hsize Hbs q' s sz ir rs Hgeom) as (_ & Hsz & _).
           pose proof (read_exact_len HO _ _ _ _ Hr) as Hbl. intro Hnil. apply Hb.
           rewrite Hnil in *. unfold blen in Hsz, Hbl. cbn [length] in Hsz. rewrite Hsz in Hbl.
           destruct buf; [reflexivity|cbn [length] in Hbl; lia].
    + destruct Hf; try (right; right; right; reflexivity).
      * right. left. left. now eexists.
      * right. right. left. now eexists.
      * right. left. right. now eexists.
      * right. right. left. now eexists.
    + intros Hld.
      assert (Hpar : forall nd ir lf rt rs, u = CParent nd ir lf rt rs -> exists p, load nd = Ok (Some p)).
      { intros nd ir lf rt rs ->. apply Hld. rewrite <- nodes_eq. eapply in_plan_nodes; eauto. }
      split.
      * destruct Hf as [| nd ir lf rt rs Hl| |nd ir lf rt rs Hl| | |s sz ir rs Hr]; try discriminate.
        -- destruct (Hpar _ _ _ _ _ eq_refl) as [p Hp]. congruence.
        -- destruct (Hpar _ _ _ _ _ eq_refl) as [p Hp]. congruence.
        -- exfalso. eapply read_exact_no_panic; eauto.
      * intros Hb k. destruct Hf as [| |nd ir lf rt rs k0 Hl| | |s sz ir rs k0 Hr|]; try discriminate.
        -- destruct (Hpar _ _ _ _ _ eq_refl) as [p Hp]. congruence.
        -- exfalso. destruct (geom_leaf HO data bs q Hsize Hbs q' s sz ir rs Hgeom) as (T & _ & L & _).
           rewrite T, read_exact_inside in Hr by (rewrite Hb; exact L). discriminate.
Qed.

Theorem c05_prefix data' r out : hash_ok HO ->
  encode_ranges_validated HO data' ob q = (r, out) ->
  (exists tail, flat HO (honest HO data bs q) = out ++ tail /\ (r = Ok tt -> tail = []) /\ (is_mismatch r -> tail <> [])) /\
  (r = Ok tt \/ is_mismatch r \/ (exists k, r = Err (EIo k)) \/ r = Panic) /\
  ((forall nd, In nd (enc_nodes size bs q) -> exists p, load_sync HO ob nd = Ok (Some p)) ->
     r <> Panic /\ (blen HO data' = size -> forall k, r <> Err (EIo k))).
Proof.
  intros HOK Hrun. destruct q as [|x t] eqn:Eq.
  - rewrite erv_bloop in Hrun. cbn [r_is_empty] in Hrun. apply pair_inj in Hrun. destruct Hrun as [<- <-].
    split; [|split].
    + exists []. rewrite honest_nil. split; [reflexivity|]. split; [reflexivity|]. intros [[n X]|[c X]]; discriminate.
    + now left.
    + intros _. split; [discriminate|]. intros _ k. discriminate.
  - rewrite <- Eq in *. assert (Hne : q <> []) by (rewrite Eq; discriminate).
    rewrite (erv_plan data' Hne) in Hrun.
    apply (prefix_gen (load_sync HO ob) data' r out HOK (load_sync_len HO ob) Hne Hrun).
Qed.

Theorem c05_prefix_fsm data' r out : hash_ok HO -> q <> [] ->
  encode_ranges_validated_fsm HO data' ob q = (r, out) ->
  (exists tail, flat HO (honest HO data bs q) = out ++ tail /\ (r = Ok tt -> tail = []) /\ (is_mismatch r -> tail <> [])) /\
  (r = Ok tt \/ is_mismatch r \/ (exists k, r = Err (EIo k)) \/ r = Panic) /\
  ((forall nd, In nd (enc_nodes size bs q) -> exists p, load_fsm HO ob nd = Ok (Some p)) ->
     r <> Panic /\ (blen HO data' = size -> forall k, r <> Err (EIo k))).
Proof.
  intros HOK Hne Hrun. rewrite erv_fsm_plan in Hrun.
  apply (prefix_gen (load_fsm HO ob) data' r out HOK (load_fsm_len HO ob) Hne Hrun).
Qed.

(* ---- C05_detects: the first differing unit ---- *)
Theorem detects_gen (load : loader HO) data' P1 u P2 : hash_ok HO ->
  (forall nd l r, load nd = Ok (Some (l, r)) -> length l = 32%nat /\ length r = 32%nat) ->
  plan = P1 ++ u :: P2 -> Forall (unit_ok HO data bs load data') P1 ->
  flat HO (honest HO data bs q) = hbs P1 ++ hb u ++ hbs P2 /\
  (forall n ir lf rt rs p, u = CParent n ir lf rt rs -> load n = Ok (Some p) -> p <> true_pair HO data n ->
     bloop HO load plan [root_hash HO data] bs data' = (Err (EParentHashMismatch n), hbs P1)) /\
  (forall c sz ir rs buf, u = CLeaf c sz ir rs -> read_exact_at HO data' (to_bytes c) sz = Ok buf ->
     buf <> chunk_bytes HO data c (gE c) ->
     bloop HO load plan [root_hash HO data] bs data' = (Err (ELeafHashMismatch c), hbs P1)).
Proof.
  intros HOK Hlen EP Hall.
  assert (Hne : q <> []).
  { intro Hq. rewrite Hq, truncate_nil, rplan_nil in EP. destruct P1; discriminate. }
  pose proof (bloop_srun HO data bs q Hwf Hsize Hbs load data' HOK Hlen Hne) as H.
  pose proof (hbs_plan HO data bs q Hwf Hsize Hbs Hne) as Hhb.
  split; [|split].
  - rewrite <- Hhb, EP, hbs_app, hbs_cons. reflexivity.
  - intros n ir lf rt rs p -> Hl Hp.
    destruct (bloop HO load plan [root_hash HO data] bs data') as [r o]. rewrite EP in H.
    assert (Hnok : ~ unit_ok HO data bs load data' (CParent n ir lf rt rs)).
    { cbn [unit_ok]. intro X. rewrite X in Hl. apply Ok_inj, Some_inj in Hl. now symmetry in Hl. }
    destruct (srun_first_fail HO data bs q load data' P1 _ P2 r o Hall Hnok H) as [Hf ->].
    f_equal. inversion Hf; subst; congruence.
  - intros c sz ir rs buf -> Hr Hb.
    destruct (bloop HO load plan [root_hash HO data] bs data') as [r o]. rewrite EP in H.
    assert (Hnok : ~ unit_ok HO data bs load data' (CLeaf c sz ir rs)).
    { cbn [unit_ok]. intro X. rewrite X in Hr. apply Ok_inj in Hr. now symmetry in Hr. }
    destruct (srun_first_fail HO data bs q load data' P1 _ P2 r o Hall Hnok H) as [Hf ->].
    f_equal. inversion Hf; subst; congruence.
Qed.

(* the model's plan *)
Lemma iter_plan : pre_order_chunks_iter (mkTree size bs) q' 0 = plan.
Proof. now apply rplan_refines. Qed.

Theorem c05_independent data' : beq_correct HO ->
  Forall (unit_ok HO data bs (load_sync HO ob) data') (pre_order_chunks_iter (mkTree size bs) q' 0) ->
  encode_ranges_validated HO data' ob q = (Ok tt, flat HO (honest HO data bs q)) /\
  exists its, traverse_ranges_validated HO data' ob q = Some (ESize size :: map EItem its ++ [EDone]) /\
              concat (map (item_bytes HO) its) = flat HO (honest HO data bs q).
Proof.
  rewrite iter_plan. intros Hbeq Hall. split; [now apply independent_sync|now apply independent_mixed].
Qed.

Theorem c05_independent_fsm data' : beq_correct HO ->
  Forall (unit_ok HO data bs (load_fsm HO ob) data') (pre_order_chunks_iter (mkTree size bs) q' 0) ->
  encode_ranges_validated_fsm HO data' ob q = (Ok tt, flat HO (honest HO data bs q)).
Proof. rewrite iter_plan. apply independent_fsm. Qed.

Theorem c05_detects data' P1 u P2 : hash_ok HO ->
  pre_order_chunks_iter (mkTree size bs) q' 0 = P1 ++ u :: P2 ->
  Forall (unit_ok HO data bs (load_sync HO ob) data') P1 ->
  flat HO (honest HO data bs q) = hbs P1 ++ hb u ++ hbs P2 /\
  (forall n ir lf rt rs p, u = CParent n ir lf rt rs -> load_sync HO ob n = Ok (Some p) -> p <> true_pair HO data n ->
     encode_ranges_validated HO data' ob q = (Err (EParentHashMismatch n), hbs P1)) /\
  (forall c sz ir rs buf, u = CLeaf c sz ir rs -> read_exact_at HO data' (to_bytes c) sz = Ok buf ->
     buf <> chunk_bytes HO data c (gE c) ->
     encode_ranges_validated HO data' ob q = (Err (ELeafHashMismatch c), hbs P1)).
Proof.
  rewrite iter_plan. intros HOK EP Hall.
  assert (Hne : q <> []).
  { intro Hq. rewrite Hq, truncate_nil, rplan_nil in EP. destruct P1; discriminate. }
  rewrite (erv_plan data' Hne).
  apply (detects_gen (load_sync HO ob) data' P1 u P2 HOK (load_sync_len HO ob) EP Hall).
Qed.

Theorem c05_detects_fsm data' P1 u P2 : hash_ok HO ->
  pre_order_chunks_iter (mkTree size bs) q' 0 = P1 ++ u :: P2 ->
  Forall (unit_ok HO data bs (load_fsm HO ob) data') P1 ->
  flat HO (honest HO data bs q) = hbs P1 ++ hb u ++ hbs P2 /\
  (forall n ir lf rt rs p, u = CParent n ir lf rt rs -> load_fsm HO ob n = Ok (Some p) -> p <> true_pair HO data n ->
     encode_ranges_validated_fsm HO data' ob q = (Err (EParentHashMismatch n), hbs P1)) /\
  (forall c sz ir rs buf, u = CLeaf c sz ir rs -> read_exact_at HO data' (to_bytes c) sz = Ok buf ->
     buf <> chunk_bytes HO data c (gE c) ->
     encode_ranges_validated_fsm HO data' ob q = (Err (ELeafHashMismatch c), hbs P1)).
Proof.
  rewrite iter_plan. intros HOK EP Hall. rewrite erv_fsm_plan.
  apply (detects_gen (load_fsm HO ob) data' P1 u P2 HOK (load_fsm_len HO ob) EP Hall).
Qed.

End Thm.

(* ---- C08_encode_agree: the three validating loops are the same function of the store ---- *)
Theorem c08_encode_agree (HO : hops) (data' : bytes HO) (ob : outboard HO) (q : ranges) :
  let t := ob_tree ob in
  (forall nd, In nd (plan_nodes (pre_order_chunks_iter t (truncate_ranges q (tsize t)) 0)) ->
     load_sync HO ob nd = load_fsm HO ob nd) ->
  (q <> [] -> encode_ranges_validated HO data' ob q = encode_ranges_validated_fsm HO data' ob q) /\
  exists its, concat (map (item_bytes HO) its) = snd (encode_ranges_validated HO data' ob q) /\
    traverse_ranges_validated HO data' ob q =
    match fst (encode_ranges_validated HO data' ob q) with
    | Ok _ => Some (ESize (tsize t) :: map EItem its ++ [EDone])
    | Err e => Some (ESize (tsize t) :: map EItem its ++ [EError e])
    | Panic => None
    end.
Proof.
  cbv zeta. intro Hld. split.
  - intro Hne. rewrite erv_bloop, erv_fsm_bloop. destruct q as [|x t]; [congruence|]. cbn [r_is_empty].
    apply bloop_ext. exact Hld.
  - rewrite erv_bloop, trv_gloop. destruct (r_is_empty q).
    + exists []. split; reflexivity.
    + rewrite bloop_gloop.
      destruct (gloop HO (load_sync HO ob) (vplan HO ob q) [ob_root ob] (tbs (ob_tree ob)) data') as [r its].
      exists its. cbn [fst snd]. split; [reflexivity|]. unfold trv_result. cbn [fst snd]. reflexivity.
Qed.

(* when the two loaders agree: always for the memory and empty outboards; for the io-backed ones
   whenever the sync loader does not fail (the stored data is long enough) *)
Lemma load_agree_mem (HO : hops) (ob : outboard HO) nd :
  ob_k ob = PreMem \/ ob_k ob = PostMem \/ ob_k ob = EmptyOb -> load_sync HO ob nd = load_fsm HO ob nd.
Proof.
  intro H. unfold load_sync, load_fsm. destruct (ob_offset HO ob nd); [|reflexivity].
  destruct H as [H|[H|H]]; rewrite H; reflexivity.
Qed.

Lemma load_agree_io (HO : hops) (ob : outboard HO) nd x :
  load_sync HO ob nd = Ok x -> load_fsm HO ob nd = Ok x.
Proof.
  unfold load_sync, load_fsm. destruct (ob_offset HO ob nd); [|auto].
  destruct (ob_k ob); auto; destruct (blen HO (slice HO (n * 64) 64 (ob_data ob)) =? 64); auto; discriminate.
Qed.
