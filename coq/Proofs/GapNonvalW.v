(* C08, finding F6 made precise, part 2: the bytes of the non-validating encoders ([nv_spec],
   Proofs/GapNonval.v) are the HONEST encoding of the selection widened to whole chunk groups ([widen]);
   widening is the identity exactly under groups_full; the non-validating encoders on a created store. *)
From BaoV Require Import Model.Sync Model.Fsm Spec.RangeSpec Spec.NodeSpec Spec.PlanSpec Spec.PlanWf Spec.EncSpec Spec.HashAssm.
From BaoV Require Import Proofs.NodeLevel Proofs.NodeBits Proofs.NodeAlgebra Proofs.RangeBase Proofs.RangeTrunc Proofs.PlanBase Proofs.PlanNav Proofs.ValSpec Proofs.HistOb Proofs.HistPath.
From BaoV Require Import Proofs.BridgeBase Proofs.BridgeTree Proofs.BridgePlan.
From BaoV Require Import Proofs.EncPlan Proofs.EncRec Proofs.EncLoop Proofs.EncMain Proofs.EncTop Proofs.EncThm Proofs.EncNonval.
From BaoV Require Import Proofs.FinalStore Proofs.FinalEnc Proofs.GapNonval.
From Coq Require Import Lia Arith PeanoNat ZArith ZifyN ZifyNat ZifyBool.
Ltac Zify.zify_post_hook ::= Z.div_mod_to_equations.
Arguments N.add : simpl never.
Arguments N.sub : simpl never.
Arguments N.mul : simpl never.
Arguments N.pow : simpl never.
Arguments N.div : simpl never.
Arguments N.modulo : simpl never.
Arguments N.log2 : simpl never.
Arguments N.min : simpl never.
Arguments N.max : simpl never.

(* the selection closed under "same chunk group, inside the blob" *)
Definition widen (bs size : N) (Sel : N -> bool) (c : N) : bool :=
  (c <? nchunks size) &&
  existsb Sel (chunk_range_list (c / 2 ^ bs * 2 ^ bs) (N.min ((c / 2 ^ bs + 1) * 2 ^ bs) (nchunks size))).

Lemma widen_def bs size Sel c :
  widen bs size Sel c =
  (c <? nchunks size) &&
  existsb Sel (chunk_range_list (c / 2 ^ bs * 2 ^ bs) (N.min ((c / 2 ^ bs + 1) * 2 ^ bs) (nchunks size))).
Proof. reflexivity. Qed.

(* ---- arithmetic of chunk groups ---- *)
Lemma grp_bounds g c : 0 < g -> c / g * g <= c /\ c < (c / g + 1) * g.
Proof. intro Hg. pose proof (proj1 (RangeRound.div_iff c g (c / g) Hg) eq_refl). lia. Qed.

Lemma grp_div ga g c : 0 < g -> ga * g <= c -> c < (ga + 1) * g -> c / g = ga.
Proof. intros Hg H1 H2. apply (RangeRound.div_iff c g ga Hg). lia. Qed.

Lemma mul_le_cancel x y g : 0 < g -> x * g < (y + 1) * g -> x * g <= y * g.
Proof. intros Hg H. apply N.mul_le_mono_r. apply N.mul_lt_mono_pos_r in H; lia. Qed.

Lemma widen_true bs size Sel c : widen bs size Sel c = true <->
  c < nchunks size /\ exists c', c' / 2 ^ bs = c / 2 ^ bs /\ c' < nchunks size /\ Sel c' = true.
Proof.
  pose proof (pow2_pos bs) as Hp. unfold widen. rewrite andb_true_iff, N.ltb_lt, existsb_exists. split.
  - intros [H1 (c' & Hin & Hs)]. split; [exact H1|]. apply crl_in in Hin. exists c'.
    split; [|split; [lia|exact Hs]]. apply grp_div; lia.
  - intros [H1 (c' & Hd & Hn & Hs)]. split; [exact H1|]. exists c'. split; [|exact Hs].
    apply crl_in. rewrite <- Hd. pose proof (grp_bounds (2 ^ bs) c' Hp). lia.
Qed.

(* the selection is contained in the widened one; they coincide exactly under groups_full *)
Lemma widen_superset bs q size c : sel q size c = true -> widen bs size (sel q size) c = true.
Proof.
  intro H. apply widen_true. assert (Hc : c < nchunks size).
  { unfold sel in H. apply andb_true_iff in H. destruct H as [H _]. now apply N.ltb_lt in H. }
  split; [exact Hc|]. exists c. repeat split; assumption.
Qed.

Theorem widen_id_iff bs q size :
  groups_full bs q size <-> (forall c, widen bs size (sel q size) c = sel q size c).
Proof.
  split.
  - intros Hfull c. destruct (sel q size c) eqn:Es.
    + now apply widen_superset.
    + destruct (widen bs size (sel q size) c) eqn:Ew; [|reflexivity].
      apply widen_true in Ew. destruct Ew as [Hc (c' & Hd & Hn & Hs)].
      rewrite (Hfull c' c Hs (eq_sym Hd) Hc) in Es. discriminate.
  - intros Hid c c' Hs Hd Hn. rewrite <- Hid. apply widen_true. split; [exact Hn|].
    exists c. split; [now symmetry|]. split; [|exact Hs].
    unfold sel in Hs. apply andb_true_iff in Hs. destruct Hs as [Hs _]. now apply N.ltb_lt in Hs.
Qed.

Section Widen.
Variable HO : hops.
Notation bytes := (bytes HO).
Variable data : bytes.
Variable bs : N.
Variable Sel : N -> bool.
Hypothesis Hsize : blen HO data <= 2 ^ 63.
Local Notation size := (blen HO data).
Local Notation nn := (nchunks (blen HO data)).
Local Notation g := (2 ^ bs).
Local Notation W := (widen bs (blen HO data) Sel).
Local Notation NV := (NV HO data bs Sel).
Local Notation EW := (ENC HO data bs W).

(* [a, b) is a node of the left-full tree over the chunks of the blob, of at least one chunk group *)
Definition giv (a b : N) : Prop :=
  exists c j, bs <= c /\ a = j * 2 ^ c /\ b - a <= 2 ^ c /\ (b - a = 2 ^ c \/ b = nn) /\ a < b /\ b <= nn.

Lemma giv_aligned a b : giv a b ->
  (exists ga, a = ga * g) /\ (b = nn \/ exists gb, b = gb * g) /\ a < b /\ b <= nn.
Proof.
  intros (c & j & Hc & Ha & Hle & Hfull & Hab & Hb).
  assert (E : 2 ^ c = 2 ^ (c - bs) * g) by (rewrite <- N.pow_add_r; f_equal; lia).
  split; [exists (j * 2 ^ (c - bs)); rewrite Ha, E; lia|]. split; [|split; assumption].
  destruct Hfull as [F|F]; [right|now left]. exists ((j + 1) * 2 ^ (c - bs)).
  replace b with (a + 2 ^ c) by lia. rewrite Ha, E. lia.
Qed.

Lemma giv_group a b : giv a b -> b - a <= g -> (exists ga, a = ga * g) /\ b = N.min (a + g) nn.
Proof.
  intros Hg Hle. destruct (giv_aligned a b Hg) as (Hal & _ & _ & _). split; [exact Hal|].
  destruct Hg as (c & j & Hc & Ha & Hle' & Hfull & Hab & Hb).
  destruct Hfull as [F|F]; [|lia].
  assert (2 ^ bs <= 2 ^ c) by (apply pow2_le_mono; lia). lia.
Qed.

Lemma giv_children a b : giv a b -> g < b - a ->
  let h := next_pow2 (b - a) / 2 in
  giv a (a + h) /\ giv (a + h) b /\ a < a + h /\ a + h < b /\ g < next_pow2 (b - a).
Proof.
  intros (c & j & Hc & Ha & Hle & Hfull & Hab & Hb) H2. cbv zeta. pose proof (pow2_ge1 bs) as Hg1.
  destruct (np2_half (b - a) ltac:(lia)) as (k & Ek & Eh & K1 & K2). rewrite Eh, Ek.
  pose proof (pow2_pos k) as Hpk.
  assert (Hkc : k + 1 <= c).
  { assert (X : 2 ^ k < 2 ^ c) by lia. apply pow2_lt_inv in X. lia. }
  assert (Hbk : bs <= k).
  { assert (X : 2 ^ bs < 2 ^ (k + 1)) by lia. apply pow2_lt_inv in X. lia. }
  assert (Hc2 : 2 ^ c = 2 ^ (c - (k + 1)) * (2 * 2 ^ k)).
  { rewrite <- pow2_succ, <- N.pow_add_r. f_equal. lia. }
  pose proof (pow2_pos (c - (k + 1))) as Hpq.
  set (Q := 2 ^ (c - (k + 1))) in *. set (P := 2 ^ k) in *. rewrite pow2_succ in K2 |- *. fold P in K2 |- *.
  set (J := j * Q).
  assert (HaJ : a = 2 * J * P) by (unfold J; rewrite Ha, Hc2; lia).
  assert (Hfull' : b - a = 2 * P \/ b = nn).
  { destruct Hfull as [F|F]; [left|now right]. rewrite F, Hc2 in *. nia. }
  split; [|split; [|split; [lia|split; [lia|lia]]]].
  - exists k, (2 * J). fold P. split; [exact Hbk|]. split; [lia|]. split; [lia|]. split; [left; lia|]. split; lia.
  - exists k, (2 * J + 1). fold P. split; [exact Hbk|]. split; [lia|]. split; [lia|]. split; [|split; lia].
    destruct Hfull' as [F|F]; [left; lia|now right].
Qed.

(* on an interval made of whole chunk groups (clipped to the blob) widening does not change "some chunk is selected" *)
Lemma ex_widen a b : giv a b -> existsb W (chunk_range_list a b) = existsb Sel (chunk_range_list a b).
Proof.
  intro Hg. destruct (giv_aligned a b Hg) as ((ga & Ha) & Hbb & Hab & Hb). pose proof (pow2_pos bs) as Hp.
  apply Bool.eq_iff_eq_true. rewrite !existsb_exists. split.
  - intros (x & Hx & Hw). apply crl_in in Hx. apply widen_true in Hw. destruct Hw as [Hxn (y & Hd & Hyn & Hs)].
    exists y. split; [|exact Hs]. apply crl_in.
    pose proof (grp_bounds g x Hp) as [X1 X2]. pose proof (grp_bounds g y Hp) as [Y1 Y2]. rewrite Hd in Y1, Y2.
    assert (L : a <= x / g * g).
    { rewrite Ha. apply (mul_le_cancel ga (x / g) g Hp). lia. }
    split; [lia|]. destruct Hbb as [->|(gb & ->)]; [exact Hyn|].
    assert (R : (x / g + 1) * g <= gb * g).
    { replace ((x / g + 1) * g) with (x / g * g + g) by lia.
      assert (x / g * g < gb * g) by lia. apply N.mul_lt_mono_pos_r in H; [|exact Hp].
      assert (x / g + 1 <= gb) by lia. apply (N.mul_le_mono_r _ _ g) in H0. lia. }
    lia.
  - intros (x & Hx & Hs). exists x. split; [exact Hx|]. apply crl_in in Hx. apply widen_true.
    split; [lia|]. exists x. split; [reflexivity|]. split; [lia|exact Hs].
Qed.

(* on one chunk group with a selected chunk every chunk is in the widened selection *)
Lemma all_widen a b : (exists ga, a = ga * g) -> b = N.min (a + g) nn ->
  existsb Sel (chunk_range_list a b) = true -> forallb W (chunk_range_list a b) = true.
Proof.
  intros (ga & Ha) Hb Hex. pose proof (pow2_pos bs) as Hp.
  apply existsb_exists in Hex. destruct Hex as (y & Hy & Hs). apply crl_in in Hy.
  apply forallb_forall. intros x Hx. apply crl_in in Hx. apply widen_true. split; [lia|].
  exists y. split; [|split; [lia|exact Hs]].
  rewrite (grp_div ga g y), (grp_div ga g x); lia.
Qed.

Lemma np2_ge n : 1 <= n -> n <= next_pow2 n.
Proof. intro H. destruct (np2_spec n H) as (k & E & H1 & _). lia. Qed.

Lemma nv_widen_group a b : giv a b -> b - a <= g -> NV a b = flat HO (EW a b).
Proof.
  intros Hg Hle. pose proof (ex_widen a b Hg) as Hex.
  destruct (giv_group a b Hg Hle) as [Hal Hb]. destruct (giv_aligned a b Hg) as (_ & _ & Hab & _).
  destruct (existsb Sel (chunk_range_list a b)) eqn:Ex.
  - rewrite (NV_group HO data bs Sel a b Hle Ex).
    rewrite (ENC_all HO data bs W a b Hab Hle (all_widen a b Hal Hb Ex)). now rewrite flat_leaf.
  - rewrite (NV_none HO data bs Sel a b Ex), (ENC_none HO data bs W a b Hex). reflexivity.
Qed.

Lemma nv_widen_rec : forall (m : nat) a b, giv a b -> b - a <= 2 ^ N.of_nat m ->
  NV a b = flat HO (EW a b).
Proof.
  pose proof (nchunks_small _ Hsize) as Hn.
  assert (P63 : 2 ^ 53 <= 2 ^ 63) by (apply pow2_le_mono; lia).
  pose proof (pow2_ge1 bs) as Hg1.
  induction m as [|m IH]; intros a b Hg Hm.
  - change (2 ^ N.of_nat 0) with 1 in Hm. apply nv_widen_group; [exact Hg|lia].
  - destruct (N.le_gt_cases (b - a) g) as [L|L]; [now apply nv_widen_group|].
    destruct (giv_aligned a b Hg) as (_ & _ & Hab & Hb).
    destruct (giv_children a b Hg L) as (Hl & Hr & L1 & L2 & Hcap). cbv zeta in *.
    rewrite (NV_unfold HO data bs Sel a b), (ENC_unfold HO data bs W a b) by lia.
    rewrite (ex_widen a b Hg).
    destruct (existsb Sel (chunk_range_list a b)); cbn [negb]; [|reflexivity].
    assert (E0 : (b - a <=? g) = false) by (apply N.leb_gt; exact L). rewrite E0.
    assert (E1 : (b - a <=? 1) = false) by (apply N.leb_gt; lia). rewrite E1.
    assert (E2 : (next_pow2 (b - a) <=? g) = false) by (apply N.leb_gt; exact Hcap). rewrite E2, andb_false_r.
    rewrite of_nat_S in Hm.
    pose proof (half_bounds (b - a) (N.of_nat m) ltac:(lia) Hm) as (A1 & A2 & A3 & A4 & A5). cbv zeta in A1, A2, A3, A4, A5.
    set (h := next_pow2 (b - a) / 2) in *.
    rewrite flat_cons_parent, flat_app.
    rewrite <- (IH a (a + h) Hl) by lia. rewrite <- (IH (a + h) b Hr) by lia. reflexivity.
Qed.

Lemma enc_spec_ENC (S0 : N -> bool) : enc_spec HO data bs S0 = ENC HO data bs S0 0 nn.
Proof. unfold enc_spec, EncRec.ENC, blob_chunks. reflexivity. Qed.

(* item 3: the bytes of the non-validating encoders are the honest encoding of the widened selection *)
Theorem nv_widen : nv_spec HO data bs Sel = flat HO (enc_spec HO data bs W).
Proof.
  rewrite nv_spec_NV, enc_spec_ENC. pose proof (nchunks_small _ Hsize) as Hn.
  pose proof (nchunks_bounds size) as (B1 & _).
  apply (nv_widen_rec 53).
  - exists (53 + bs), 0. split; [lia|]. split; [lia|].
    assert (2 ^ 53 <= 2 ^ (53 + bs)) by (apply pow2_le_mono; lia).
    split; [lia|]. split; [now right|]. split; lia.
  - change (N.of_nat 53) with 53. lia.
Qed.

End Widen.

Theorem nv_is_widened_honest : forall (HO : hops) (data : bytes HO) (bs : N) (Sel : N -> bool),
  blen HO data <= 2 ^ 63 ->
  nv_spec HO data bs Sel = flat HO (enc_spec HO data bs (widen bs (blen HO data) Sel)).
Proof. intros HO data bs Sel Hsize. exact (nv_widen HO data bs Sel Hsize). Qed.
Print Assumptions nv_is_widened_honest.

(* ---- the non-validating encoders on a created store ---- *)
Section RawNodes.
Variables (size bs : N).
Hypothesis Hsize : size <= 2 ^ 63.
Hypothesis Hbs : bs <= 10.

Theorem enc_nodes_raw_pnode (q : ranges) : wf_ranges q = true ->
  forall nd, In nd (enc_nodes_raw size bs q) -> pnode size bs nd.
Proof.
  intros Hwf nd Hin. rewrite enc_nodes_raw_def in Hin.
  rewrite <- (rplan_nodes size bs q Hsize Hbs Hwf) in Hin.
  rewrite rplan_unfold in Hin.
  assert (Hnr : true = false -> 0 + sp_blocks size bs < sp_blocks size bs) by discriminate.
  destruct (rplan_rec_pnodes size bs Hsize Hbs 65 0 (sp_blocks size bs) true _ true nd (node_ok_root size bs) Hnr
              (root_fuel size bs Hsize) Hin) as [I1 I2].
  rewrite pnodes_eq. apply filter_In. split; [|exact I2].
  rewrite sp_pre_nodes_unfold. exact I1.
Qed.
End RawNodes.

Theorem enc_nodes_raw_persisted : forall (size bs : N) (q : ranges), size <= 2 ^ 63 -> bs <= 10 ->
  wf_ranges q = true ->
  forall nd, In nd (enc_nodes_raw size bs q) -> In nd (sp_pre_nodes size bs) /\ sp_persisted size bs nd = true.
Proof.
  intros size bs q Hsize Hbs Hwf nd Hin.
  pose proof (enc_nodes_raw_pnode size bs Hsize Hbs q Hwf nd Hin) as H. rewrite pnodes_eq in H.
  apply filter_In in H. exact H.
Qed.
Print Assumptions enc_nodes_raw_persisted.

Theorem created_stored_ok_raw : forall (HO : hops), cv_len32 HO ->
  forall (data : bytes HO) (bs : N), blen HO data <= 2 ^ 63 -> bs <= 10 ->
  forall ob : outboard HO, created_store HO data bs ob ->
  forall q : ranges, wf_ranges q = true ->
  forall nd, In nd (enc_nodes_raw (blen HO data) bs q) -> stored_ok HO data ob nd /\ stored_ok_fsm HO data ob nd.
Proof.
  intros HO Hlen data bs Hsize Hbs ob [K T R D] q Hwf nd Hin. unfold stored_ok, stored_ok_fsm.
  apply (created_loads_pnode HO Hlen data bs Hsize Hbs ob K T D).
  exact (enc_nodes_raw_pnode (blen HO data) bs Hsize Hbs q Hwf nd Hin).
Qed.
Print Assumptions created_stored_ok_raw.

Theorem nonval_exact_created : forall (HO : hops), cv_len32 HO ->
  forall (data : bytes HO) (bs : N), blen HO data <= 2 ^ 63 -> bs <= 10 ->
  forall ob : outboard HO, created_store HO data bs ob ->
  forall q : ranges, wf_ranges q = true ->
  encode_ranges HO data ob q = (Ok tt, nv_spec HO data bs (sel q (blen HO data))) /\
  encode_ranges_fsm HO data ob q = (Ok tt, nv_spec HO data bs (sel q (blen HO data))) /\
  nv_spec HO data bs (sel q (blen HO data))
    = flat HO (enc_spec HO data bs (widen bs (blen HO data) (sel q (blen HO data)))).
Proof.
  intros HO Hlen data bs Hsize Hbs ob Hc q Hwf.
  pose proof (created_stored_ok_raw HO Hlen data bs Hsize Hbs ob Hc q Hwf) as Hst.
  destruct Hc as [K T R D].
  split; [|split].
  - apply (nonval_exact_sync HO data bs q Hwf Hsize Hbs ob T). intros nd Hin. exact (proj1 (Hst nd Hin)).
  - apply (nonval_exact_fsm HO data bs q Hwf Hsize Hbs ob T). intros nd Hin. exact (proj2 (Hst nd Hin)).
  - now apply nv_is_widened_honest.
Qed.
Print Assumptions nonval_exact_created.
