(* C06, gap A, part 2: the C06 theorems for the fsm validators, stated directly on load_fsm.
   The predicates below are the ones of Proofs/ValPath.v / ValTop.v / ValSound.v with [stored_pair_fsm]
   (what load_fsm returns) in the place of [stored_pair] (what load_sync returns):
     chain_walk_fsm / chain_prop_fsm / owed_walk_fsm, grp_okb_fsm, val_spec_fsm, chain_ok_fsm, leaf_ok_fsm,
     val_top_fsm, grp_verdict_fsm, path_true_fsm.
   No theorem here has a premise relating load_fsm to load_sync; the loads premise is [loads_ok_fsm] (about load_fsm
   only), which holds for every io-backed store whatever the length of its byte vector (loads_ok_fsm_io) and for
   every pre-sized store (loads_ok_fsm_sized). *)
From BaoV Require Import Model.Sync Model.Fsm Spec.PlanSpec Spec.PlanWf Spec.EncSpec Spec.HashAssm Spec.NodeSpec.
From BaoV Require Import Proofs.NodeLevel Proofs.NodeBits Proofs.NodeAlgebra
  Proofs.ObBase Proofs.ObLoop Proofs.ObSize Proofs.DecHash Proofs.RangeBase Proofs.BridgeBase
  Proofs.ShapeBase Proofs.PlanBase Proofs.PlanRs Proofs.PlanNav Proofs.ValSpec Proofs.ValPath Proofs.ValTrue Proofs.ValTop
  Proofs.ValSound Proofs.HistOb Proofs.HistPath Proofs.GapValFsmView.
From Coq Require Import ZArith Lia.
Open Scope N_scope.
Arguments N.add : simpl never.
Arguments N.sub : simpl never.
Arguments N.mul : simpl never.
Arguments N.pow : simpl never.
Arguments N.shiftl : simpl never.
Arguments N.shiftr : simpl never.
Arguments N.land : simpl never.
Arguments N.div : simpl never.
Arguments N.modulo : simpl never.
Arguments N.log2 : simpl never.
Arguments N.min : simpl never.
Arguments N.max : simpl never.
Ltac Zify.zify_post_hook ::= Z.to_euclidean_division_equations.

Local Transparent val_top.
Lemma val_top_unfold (HO : hops) wd (ob : outboard HO) d size bs q :
  val_top HO wd ob d size bs q = val_spec HO VFUEL wd ob d size bs (sel q size) 0 (sp_blocks size bs) (ob_root ob) true.
Proof. unfold val_top. reflexivity. Qed.
Local Opaque val_top.

Section FsmDefs.
Variable HO : hops.
Notation bytes := (bytes HO).
Notation hash := (hash HO).
Notation outboard := (outboard HO).

Fixpoint chain_walk_fsm (ob : outboard) (p : list (N * bool)) (owed : hash) (ir : bool) : option hash :=
  match p with
  | [] => Some owed
  | (nd, rt) :: rest =>
      match stored_pair_fsm HO ob nd with
      | None => None
      | Some (l, r) =>
          if bytes_eqb HO (parent_cv HO l r ir) owed then chain_walk_fsm ob rest (if rt then r else l) false
          else None
      end
  end.

Fixpoint chain_prop_fsm (ob : outboard) (p : list (N * bool)) (owed : hash) (ir : bool) : Prop :=
  match p with
  | [] => True
  | (nd, rt) :: rest =>
      exists l r, stored_pair_fsm HO ob nd = Some (l, r) /\ heq HO (parent_cv HO l r ir) owed /\
                  chain_prop_fsm ob rest (if rt then r else l) false
  end.

Fixpoint owed_walk_fsm (ob : outboard) (p : list (N * bool)) (owed : option hash) : option hash :=
  match p with
  | [] => owed
  | (nd, rt) :: rest => owed_walk_fsm ob rest (option_map (pick HO rt) (stored_pair_fsm HO ob nd))
  end.

Definition grp_okb_fsm (wd : bool) (ob : outboard) (d : bytes) (size bs ga : N) (p : list (N * bool)) (owed : hash) (ir : bool) : bool :=
  match chain_walk_fsm ob p owed ir with
  | None => false
  | Some h => if wd then bytes_eqb HO (hash_subtree HO (grp_start bs ga) (chunk_bytes HO d (grp_start bs ga) (grp_end size bs ga)) false) h
              else true
  end.

Fixpoint val_spec_fsm (fuel : nat) (wd : bool) (ob : outboard) (d : bytes) (size bs : N) (Sel : N -> bool)
         (ga n : N) (owed : hash) (is_root : bool) : list (N * N) :=
  match fuel with
  | O => []
  | S f =>
    if negb (touchedn Sel size bs ga n) then []
    else if n <=? 1 then leaf_rep HO wd d size bs ga owed is_root
    else
      match stored_pair_fsm HO ob (unshift bs (sid ga n)) with
      | None => []
      | Some (l, r) =>
          if negb (bytes_eqb HO (parent_cv HO l r is_root) owed) then []
          else if n <=? 2 then
            (if touchedn Sel size bs ga 1 then leaf_rep HO wd d size bs ga l false else [])
            ++ (if touchedn Sel size bs (ga + 1) 1 then leaf_rep HO wd d size bs (ga + 1) r false else [])
          else
            let half := capof n / 2 in
            val_spec_fsm f wd ob d size bs Sel ga half l false
            ++ val_spec_fsm f wd ob d size bs Sel (ga + half) (n - half) r false
      end
  end.

Lemma val_spec_fsm_eq f wd ob d size bs Sel ga n owed is_root :
  val_spec_fsm (S f) wd ob d size bs Sel ga n owed is_root =
    if negb (touchedn Sel size bs ga n) then []
    else if n <=? 1 then leaf_rep HO wd d size bs ga owed is_root
    else
      match stored_pair_fsm HO ob (unshift bs (sid ga n)) with
      | None => []
      | Some (l, r) =>
          if negb (bytes_eqb HO (parent_cv HO l r is_root) owed) then []
          else if n <=? 2 then
            (if touchedn Sel size bs ga 1 then leaf_rep HO wd d size bs ga l false else [])
            ++ (if touchedn Sel size bs (ga + 1) 1 then leaf_rep HO wd d size bs (ga + 1) r false else [])
          else
            let half := capof n / 2 in
            val_spec_fsm f wd ob d size bs Sel ga half l false
            ++ val_spec_fsm f wd ob d size bs Sel (ga + half) (n - half) r false
      end.
Proof. reflexivity. Qed.

Definition chain_ok_fsm (ob : outboard) (size bs ga : N) : Prop :=
  chain_prop_fsm ob (top_path size bs ga) (ob_root ob) true.
Definition leaf_ok_fsm (d : bytes) (ob : outboard) (size bs ga : N) : Prop :=
  exists h, owed_walk_fsm ob (top_path size bs ga) (Some (ob_root ob)) = Some h /\
    heq HO (hash_subtree HO (grp_start bs ga) (chunk_bytes HO d (grp_start bs ga) (grp_end size bs ga))
              (sp_blocks size bs =? 1)) h.
Definition val_top_fsm (wd : bool) (ob : outboard) (d : bytes) (size bs : N) (q : ranges) : list (N * N) :=
  val_spec_fsm VFUEL wd ob d size bs (sel q size) 0 (sp_blocks size bs) (ob_root ob) true.
Definition grp_verdict_fsm (wd : bool) (ob : outboard) (d : bytes) (size bs ga : N) : bool :=
  grp_okb_fsm wd ob d size bs ga (top_path size bs ga) (ob_root ob) true.
(* all pairs the fsm loader returns on the path of ga are the blob's *)
Definition path_true_fsm (data : bytes) (bs : N) (ob : outboard) (ga : N) : Prop :=
  forall nd rt, In (nd, rt) (top_path (blen HO data) bs ga) -> stored_pair_fsm HO ob nd = Some (true_pair HO data nd).

Lemma val_top_fsm_eq wd ob d size bs q :
  val_top_fsm wd ob d size bs q = val_spec_fsm VFUEL wd ob d size bs (sel q size) 0 (sp_blocks size bs) (ob_root ob) true.
Proof. reflexivity. Qed.

(* ---- transfer along a path on which the sync pairs of ob' are the fsm pairs of ob ---- *)
Section Transfer.
Variables (ob ob' : outboard).

Lemma walk_fsm_eq p : (forall nd rt, In (nd, rt) p -> stored_pair HO ob' nd = stored_pair_fsm HO ob nd) ->
  forall owed ir, chain_walk_fsm ob p owed ir = chain_walk HO ob' p owed ir.
Proof.
  induction p as [|[nd rt] rest IH]; intros Hag owed ir; cbn [chain_walk_fsm chain_walk]; [reflexivity|].
  rewrite (Hag nd rt) by now left.
  destruct (stored_pair_fsm HO ob nd) as [[l r]|]; [|reflexivity].
  destruct (bytes_eqb HO (parent_cv HO l r ir) owed); [|reflexivity].
  apply IH. intros nd' rt' H. apply (Hag nd' rt'). now right.
Qed.

Lemma prop_fsm_iff p : (forall nd rt, In (nd, rt) p -> stored_pair HO ob' nd = stored_pair_fsm HO ob nd) ->
  forall owed ir, chain_prop_fsm ob p owed ir <-> chain_prop HO ob' p owed ir.
Proof.
  induction p as [|[nd rt] rest IH]; intros Hag owed ir; cbn [chain_prop_fsm chain_prop]; [tauto|].
  rewrite (Hag nd rt) by now left.
  assert (IH' : forall o i, chain_prop_fsm ob rest o i <-> chain_prop HO ob' rest o i).
  { apply IH. intros nd' rt' H. apply (Hag nd' rt'). now right. }
  split; intros (l & r & E & Hq & C); exists l, r; (split; [exact E|split; [exact Hq|apply IH'; exact C]]).
Qed.

Lemma owed_fsm_eq p : (forall nd rt, In (nd, rt) p -> stored_pair HO ob' nd = stored_pair_fsm HO ob nd) ->
  forall o, owed_walk_fsm ob p o = owed_walk HO ob' p o.
Proof.
  induction p as [|[nd rt] rest IH]; intros Hag o; cbn [owed_walk_fsm owed_walk]; [reflexivity|].
  rewrite (Hag nd rt) by now left. apply IH. intros nd' rt' H. apply (Hag nd' rt'). now right.
Qed.

Lemma okb_fsm_eq wd d size bs ga p owed ir :
  (forall nd rt, In (nd, rt) p -> stored_pair HO ob' nd = stored_pair_fsm HO ob nd) ->
  grp_okb_fsm wd ob d size bs ga p owed ir = grp_okb HO wd ob' d size bs ga p owed ir.
Proof. intro Hag. unfold grp_okb_fsm, grp_okb. rewrite (walk_fsm_eq p Hag). reflexivity. Qed.

Lemma val_spec_fsm_transfer wd d size bs Sel : forall fuel ga n owed ir,
  (forall x, In x (sh_pre fuel ga n) -> stored_pair HO ob' (unshift bs x) = stored_pair_fsm HO ob (unshift bs x)) ->
  val_spec_fsm fuel wd ob d size bs Sel ga n owed ir = val_spec HO fuel wd ob' d size bs Sel ga n owed ir.
Proof.
  induction fuel as [|f IH]; intros ga n owed ir Hag; [reflexivity|].
  rewrite val_spec_fsm_eq, val_spec_eq.
  destruct (negb (touchedn Sel size bs ga n)); [reflexivity|].
  destruct (N.leb_spec n 1) as [L1|L1]; [reflexivity|].
  rewrite (Hag (sid ga n)) by (apply sh_pre_head; lia).
  destruct (stored_pair_fsm HO ob (unshift bs (sid ga n))) as [[l r]|]; [|reflexivity].
  destruct (negb (bytes_eqb HO (parent_cv HO l r ir) owed)); [reflexivity|].
  destruct (N.leb_spec n 2) as [L2|L2]; [reflexivity|].
  rewrite (sh_pre_inner f ga n) in Hag by lia. cbv zeta.
  rewrite IH by (intros y Hy; apply Hag; right; apply in_or_app; left; exact Hy).
  rewrite IH by (intros y Hy; apply Hag; right; apply in_or_app; right; exact Hy).
  reflexivity.
Qed.
End Transfer.

End FsmDefs.
(* keep the fuel-70 specification closed in conversions (as val_top) *)
Global Opaque val_top_fsm.

(* ------------------------------------------------------------------------------------------- *)
Section FsmTop.
Variable HO : hops.
Notation bytes := (bytes HO).
Notation hash := (hash HO).
Notation outboard := (outboard HO).

Variables (size bs : N) (ob : outboard).
Hypothesis Hsize : size <= 2 ^ 63.
Hypothesis Hbs : bs <= 10.
Hypothesis Htree : ob_tree ob = mkTree size bs.
Let B := sp_blocks size bs.
Let V := fsm_view HO ob.

Lemma top_path_agree ga nd rt : In (nd, rt) (top_path size bs ga) ->
  stored_pair HO V nd = stored_pair_fsm HO ob nd.
Proof.
  intro Hin. apply (view_stored_pair HO size bs Hsize Hbs ob nd Htree).
  pose proof (top_path_pnode size bs Hsize Hbs ga nd rt Hin) as Hp.
  rewrite pnodes_eq in Hp. apply filter_In in Hp. exact (proj1 Hp).
Qed.

Lemma val_top_fsm_view wd d q : val_top_fsm HO wd ob d size bs q = val_top HO wd V d size bs q.
Proof.
  rewrite val_top_fsm_eq.
  rewrite (val_spec_fsm_transfer HO ob V wd d size bs (sel q size) VFUEL 0 (sp_blocks size bs) (ob_root ob) true).
  - rewrite val_top_unfold. unfold V. rewrite (view_root HO ob). reflexivity.
  - intros x Hx. apply (view_stored_pair HO size bs Hsize Hbs ob _ Htree). unfold sp_pre_nodes. apply in_map.
    assert (HB1 : 1 <= sp_blocks size bs) by (unfold sp_blocks; lia).
    rewrite (sh_pre_fuel 65 VFUEL 0 (sp_blocks size bs) HB1 (root_fuel size bs Hsize)); [exact Hx|].
    apply (top_fuel size bs Hsize).
Qed.

Lemma chain_ok_fsm_view ga : chain_ok_fsm HO ob size bs ga <-> chain_ok HO V size bs ga.
Proof.
  unfold chain_ok_fsm, chain_ok. unfold V at 2. rewrite (view_root HO ob).
  apply prop_fsm_iff. intros nd rt. apply top_path_agree.
Qed.

Lemma leaf_ok_fsm_view d ga : leaf_ok_fsm HO d ob size bs ga <-> leaf_ok HO d V size bs ga.
Proof.
  unfold leaf_ok_fsm, leaf_ok. unfold V at 2. rewrite (view_root HO ob).
  rewrite (owed_fsm_eq HO ob V (top_path size bs ga)) by (intros nd rt; apply top_path_agree). reflexivity.
Qed.

Lemma grp_verdict_fsm_view wd d ga : grp_verdict_fsm HO wd ob d size bs ga = grp_verdict HO wd V d size bs ga.
Proof.
  unfold grp_verdict_fsm, grp_verdict. unfold V at 2. rewrite (view_root HO ob).
  apply okb_fsm_eq. intros nd rt. apply top_path_agree.
Qed.

Hypothesis Hloads : loads_ok_fsm HO ob size bs.

Lemma V_tree : ob_tree V = mkTree size bs.
Proof. unfold V. rewrite view_tree. exact Htree. Qed.
Lemma V_loads : loads_ok HO V size bs.
Proof. exact (view_loads_ok HO size bs Hsize Hbs ob Htree Hloads). Qed.

Variable q : ranges.
Hypothesis Hwf : wf_ranges q = true.

(* ---- 1. exact output ---- *)
Lemma fsm_data_spec d : blen HO d = size -> 2 <= B ->
  valid_ranges_fsm HO ob d q = (val_top_fsm HO true ob d size bs q, Ok tt).
Proof.
  intros Hd HB. rewrite (valid_ranges_fsm_view HO size bs Hsize Hbs ob Htree d q). fold V.
  rewrite (data_exact HO size bs q V Hsize Hbs Hwf V_tree V_loads d Hd HB).
  f_equal. symmetry. apply val_top_fsm_view.
Qed.

Lemma fsm_outboard_spec : 2 <= B ->
  valid_outboard_ranges_fsm HO ob q = (val_top_fsm HO false ob [] size bs q, Ok tt).
Proof.
  intros HB. rewrite (valid_outboard_ranges_fsm_view HO size bs Hsize Hbs ob Htree q). fold V.
  rewrite (outboard_exact HO size bs q V Hsize Hbs Hwf V_tree V_loads HB).
  f_equal. symmetry. apply val_top_fsm_view.
Qed.

Lemma fsm_val_top_groups wd d : 2 <= B ->
  val_top_fsm HO wd ob d size bs q =
  flat_map (fun ga => if touchedb q size bs ga && grp_verdict_fsm HO wd ob d size bs ga
                      then [(grp_start bs ga, grp_end size bs ga)] else [])
           (chunk_range_list 0 B).
Proof.
  intro HB. rewrite (val_top_fsm_view wd d q), (val_top_groups HO size bs q V Hsize wd d HB).
  apply flat_map_ext_in. intros ga _. rewrite grp_verdict_fsm_view. reflexivity.
Qed.

Lemma fsm_grp_verdict_iff wd d ga : 2 <= B ->
  grp_verdict_fsm HO wd ob d size bs ga = true <->
  chain_ok_fsm HO ob size bs ga /\ (wd = true -> leaf_ok_fsm HO d ob size bs ga).
Proof.
  intro HB. rewrite grp_verdict_fsm_view, (grp_verdict_iff HO size bs V wd d ga HB).
  rewrite chain_ok_fsm_view, leaf_ok_fsm_view. reflexivity.
Qed.

Lemma fsm_val_top_member wd d a e : 2 <= B ->
  In (a, e) (val_top_fsm HO wd ob d size bs q) <->
  exists ga, ga < B /\ a = grp_start bs ga /\ e = grp_end size bs ga /\
             touched q size bs ga /\ chain_ok_fsm HO ob size bs ga /\ (wd = true -> leaf_ok_fsm HO d ob size bs ga).
Proof.
  intro HB. rewrite (val_top_fsm_view wd d q), (val_top_member HO size bs q V Hsize wd d a e HB).
  split; intros (ga & H1 & H2 & H3 & H4 & H5 & H6); exists ga; repeat split; try assumption.
  - apply chain_ok_fsm_view; exact H5.
  - intro W. apply leaf_ok_fsm_view. exact (H6 W).
  - apply chain_ok_fsm_view; exact H5.
  - intro W. apply leaf_ok_fsm_view. exact (H6 W).
Qed.

Lemma fsm_data_exact_groups d : blen HO d = size -> 2 <= B ->
  valid_ranges_fsm HO ob d q =
  (flat_map (fun ga => if touchedb q size bs ga && grp_verdict_fsm HO true ob d size bs ga
                       then [(grp_start bs ga, grp_end size bs ga)] else [])
            (chunk_range_list 0 B), Ok tt).
Proof. intros Hd HB. rewrite (fsm_data_spec d Hd HB), (fsm_val_top_groups true d HB). reflexivity. Qed.

Lemma fsm_outboard_exact_groups : 2 <= B ->
  valid_outboard_ranges_fsm HO ob q =
  (flat_map (fun ga => if touchedb q size bs ga && grp_verdict_fsm HO false ob [] size bs ga
                       then [(grp_start bs ga, grp_end size bs ga)] else [])
            (chunk_range_list 0 B), Ok tt).
Proof. intros HB. rewrite (fsm_outboard_spec HB), (fsm_val_top_groups false [] HB). reflexivity. Qed.

(* membership stated on the validators themselves *)
Lemma fsm_data_member d a e : blen HO d = size -> 2 <= B ->
  In (a, e) (fst (valid_ranges_fsm HO ob d q)) <->
  exists ga, ga < B /\ a = grp_start bs ga /\ e = grp_end size bs ga /\
             touched q size bs ga /\ chain_ok_fsm HO ob size bs ga /\ leaf_ok_fsm HO d ob size bs ga.
Proof.
  intros Hd HB. rewrite (fsm_data_spec d Hd HB). cbn [fst]. rewrite (fsm_val_top_member true d a e HB).
  split; intros (ga & H1 & H2 & H3 & H4 & H5 & H6); exists ga; repeat split; auto.
Qed.

Lemma fsm_outboard_member a e : 2 <= B ->
  In (a, e) (fst (valid_outboard_ranges_fsm HO ob q)) <->
  exists ga, ga < B /\ a = grp_start bs ga /\ e = grp_end size bs ga /\
             touched q size bs ga /\ chain_ok_fsm HO ob size bs ga.
Proof.
  intros HB. rewrite (fsm_outboard_spec HB). cbn [fst]. rewrite (fsm_val_top_member false [] a e HB).
  split; [intros (ga & H1 & H2 & H3 & H4 & H5 & H6)|intros (ga & H1 & H2 & H3 & H4 & H5)]; exists ga; repeat split; auto.
  discriminate.
Qed.

End FsmTop.

(* a single group: no load at all *)
Section FsmSingle.
Variable HO : hops.
Variables (size bs : N) (q : ranges) (ob : outboard HO).
Hypothesis Htree : ob_tree ob = mkTree size bs.

Lemma fsm_single_eq d : sp_blocks size bs = 1 ->
  valid_ranges_fsm HO ob d q = valid_ranges HO ob d q /\
  valid_outboard_ranges_fsm HO ob q = valid_outboard_ranges HO ob q.
Proof.
  intro HB. unfold valid_ranges_fsm, valid_ranges, valid_outboard_ranges_fsm, valid_outboard_ranges.
  rewrite Htree, blocks_spec, HB. cbn [N.eqb Pos.eqb]. split; reflexivity.
Qed.

Lemma fsm_data_single d : blen HO d = size -> sp_blocks size bs = 1 ->
  valid_ranges_fsm HO ob d q =
  ((if bytes_eqb HO (hash_subtree HO 0 d true) (ob_root ob) then [(0, chunks size)] else []), Ok tt).
Proof. intros Hd HB. rewrite (proj1 (fsm_single_eq d HB)). exact (data_single HO size bs q ob Htree d Hd HB). Qed.

Lemma fsm_outboard_single : sp_blocks size bs = 1 ->
  valid_outboard_ranges_fsm HO ob q = ([(0, chunks size)], Ok tt).
Proof. intros HB. rewrite (proj2 (fsm_single_eq [] HB)). exact (outboard_single HO size bs q ob Htree HB). Qed.
End FsmSingle.

(* ------------------------------------------------------------------------------------------- *)
Section FsmSound.
Variable HO : hops.
Hypothesis HOK : hash_ok HO.
Notation bytes := (bytes HO).
Notation hash := (hash HO).
Notation outboard := (outboard HO).

Variable data : bytes.
Variable bs : N.
Variable ob : outboard.
Hypothesis Hsize : blen HO data <= 2 ^ 63.
Hypothesis Hbs : bs <= 10.
Hypothesis Hroot : ob_root ob = root_hash HO data.
Hypothesis Htree : ob_tree ob = mkTree (blen HO data) bs.

Let size := blen HO data.
Let B := sp_blocks size bs.
Let V := fsm_view HO ob.

Lemma V_root : ob_root V = root_hash HO data.
Proof. unfold V. rewrite view_root. exact Hroot. Qed.

Lemma path_true_fsm_view ga : path_true_fsm HO data bs ob ga <-> path_true HO data bs V ga.
Proof.
  unfold path_true_fsm, path_true.
  split; intros H nd rt Hin.
  - unfold V. rewrite (top_path_agree HO size bs ob Hsize Hbs Htree ga nd rt Hin). exact (H nd rt Hin).
  - rewrite <- (top_path_agree HO size bs ob Hsize Hbs Htree ga nd rt Hin). exact (H nd rt Hin).
Qed.

(* ---- 2. what is reported is the blob ---- *)
Lemma fsm_chain_ok_true ga : ga < B -> chain_ok_fsm HO ob size bs ga -> path_true_fsm HO data bs ob ga.
Proof.
  intros Hga C. apply path_true_fsm_view.
  apply (chain_ok_true HO HOK data bs V Hsize Hbs V_root ga Hga).
  apply (chain_ok_fsm_view HO size bs ob Hsize Hbs Htree ga). exact C.
Qed.

Lemma fsm_leaf_ok_true d ga : ga < B -> blen HO d = size ->
  chain_ok_fsm HO ob size bs ga -> leaf_ok_fsm HO d ob size bs ga ->
  chunk_bytes HO d (grp_start bs ga) (grp_end size bs ga) = chunk_bytes HO data (grp_start bs ga) (grp_end size bs ga).
Proof.
  intros Hga Hd C L.
  apply (leaf_ok_true HO HOK data bs V Hsize Hbs V_root d ga Hga Hd).
  - apply (chain_ok_fsm_view HO size bs ob Hsize Hbs Htree ga). exact C.
  - apply (leaf_ok_fsm_view HO size bs ob Hsize Hbs Htree d ga). exact L.
Qed.

Lemma fsm_true_chain_ok ga : ga < B -> path_true_fsm HO data bs ob ga -> chain_ok_fsm HO ob size bs ga.
Proof.
  intros Hga P. apply (chain_ok_fsm_view HO size bs ob Hsize Hbs Htree ga).
  apply (true_chain_ok HO HOK data bs V Hsize Hbs V_root ga Hga). apply path_true_fsm_view. exact P.
Qed.

Lemma fsm_true_leaf_ok d ga : ga < B -> path_true_fsm HO data bs ob ga ->
  chunk_bytes HO d (grp_start bs ga) (grp_end size bs ga) = chunk_bytes HO data (grp_start bs ga) (grp_end size bs ga) ->
  leaf_ok_fsm HO d ob size bs ga.
Proof.
  intros Hga P Hb. apply (leaf_ok_fsm_view HO size bs ob Hsize Hbs Htree d ga).
  apply (true_leaf_ok HO HOK data bs V Hsize Hbs V_root d ga Hga); [apply path_true_fsm_view; exact P|exact Hb].
Qed.

Variable q : ranges.
Hypothesis Hwf : wf_ranges q = true.
Hypothesis Hloads : loads_ok_fsm HO ob size bs.

Lemma fsm_reported_is_true d a e : blen HO d = size -> 2 <= B ->
  In (a, e) (fst (valid_ranges_fsm HO ob d q)) ->
  chunk_bytes HO d a e = chunk_bytes HO data a e /\
  exists ga, ga < B /\ a = grp_start bs ga /\ e = grp_end size bs ga /\ path_true_fsm HO data bs ob ga.
Proof.
  intros Hd HB Hin.
  apply (fsm_data_member HO size bs ob Hsize Hbs Htree Hloads q Hwf d a e Hd HB) in Hin.
  destruct Hin as (ga & Hga & -> & -> & _ & C & L). split.
  - apply fsm_leaf_ok_true; auto.
  - exists ga. repeat split; auto. now apply fsm_chain_ok_true.
Qed.

Lemma fsm_valid_is_reported d ga : blen HO d = size -> 2 <= B -> ga < B ->
  touched q size bs ga -> path_true_fsm HO data bs ob ga ->
  chunk_bytes HO d (grp_start bs ga) (grp_end size bs ga) = chunk_bytes HO data (grp_start bs ga) (grp_end size bs ga) ->
  In (grp_start bs ga, grp_end size bs ga) (fst (valid_ranges_fsm HO ob d q)).
Proof.
  intros Hd HB Hga T P Hb.
  apply (fsm_data_member HO size bs ob Hsize Hbs Htree Hloads q Hwf d _ _ Hd HB).
  exists ga. repeat split; auto; [now apply fsm_true_chain_ok|now apply fsm_true_leaf_ok].
Qed.

Lemma fsm_intact_complete : 2 <= B -> (forall ga, ga < B -> path_true_fsm HO data bs ob ga) ->
  valid_ranges_fsm HO ob data q =
  (flat_map (fun ga => if touchedb q size bs ga then [(grp_start bs ga, grp_end size bs ga)] else [])
            (chunk_range_list 0 B), Ok tt).
Proof.
  intros HB Hp. rewrite (fsm_data_exact_groups HO size bs ob Hsize Hbs Htree Hloads q Hwf data eq_refl HB).
  f_equal. apply flat_map_ext_in. intros ga Hga. apply crl_in in Hga.
  assert (Vd : grp_verdict_fsm HO true ob data size bs ga = true).
  { apply (fsm_grp_verdict_iff HO size bs ob Hsize Hbs Htree true data ga HB). split.
    - apply fsm_true_chain_ok; [lia|apply Hp; lia].
    - intros _. apply fsm_true_leaf_ok; [lia|apply Hp; lia|reflexivity]. }
  rewrite Vd, andb_true_r. reflexivity.
Qed.

Lemma fsm_single_reported_is_true d : blen HO d = size -> B = 1 ->
  fst (valid_ranges_fsm HO ob d q) <> [] -> d = data.
Proof.
  intros Hd HB. rewrite (proj1 (fsm_single_eq HO size bs q ob Htree d HB)).
  exact (single_reported_is_true HO HOK data bs ob Hsize Hbs Hroot q Htree d Hd HB).
Qed.

Lemma fsm_single_valid_is_reported : B = 1 ->
  valid_ranges_fsm HO ob data q = ([(0, chunks size)], Ok tt).
Proof.
  intros HB. rewrite (proj1 (fsm_single_eq HO size bs q ob Htree data HB)).
  exact (single_valid_is_reported HO HOK data bs ob Hsize Hroot q Htree HB).
Qed.

(* ---- outboard only ---- *)
Lemma fsm_outboard_reported_is_true a e : 2 <= B ->
  In (a, e) (fst (valid_outboard_ranges_fsm HO ob q)) ->
  exists ga, ga < B /\ a = grp_start bs ga /\ e = grp_end size bs ga /\ path_true_fsm HO data bs ob ga.
Proof.
  intros HB Hin.
  apply (fsm_outboard_member HO size bs ob Hsize Hbs Htree Hloads q Hwf a e HB) in Hin.
  destruct Hin as (ga & Hga & -> & -> & _ & C).
  exists ga. repeat split; auto. now apply fsm_chain_ok_true.
Qed.

Lemma fsm_outboard_valid_is_reported ga : 2 <= B -> ga < B ->
  touched q size bs ga -> path_true_fsm HO data bs ob ga ->
  In (grp_start bs ga, grp_end size bs ga) (fst (valid_outboard_ranges_fsm HO ob q)).
Proof.
  intros HB Hga T P.
  apply (fsm_outboard_member HO size bs ob Hsize Hbs Htree Hloads q Hwf _ _ HB).
  exists ga. repeat split; auto. now apply fsm_true_chain_ok.
Qed.

Lemma fsm_outboard_intact_complete : 2 <= B -> (forall ga, ga < B -> path_true_fsm HO data bs ob ga) ->
  valid_outboard_ranges_fsm HO ob q =
  (flat_map (fun ga => if touchedb q size bs ga then [(grp_start bs ga, grp_end size bs ga)] else [])
            (chunk_range_list 0 B), Ok tt).
Proof.
  intros HB Hp. rewrite (fsm_outboard_exact_groups HO size bs ob Hsize Hbs Htree Hloads q Hwf HB).
  f_equal. apply flat_map_ext_in. intros ga Hga. apply crl_in in Hga.
  assert (Vd : grp_verdict_fsm HO false ob [] size bs ga = true).
  { apply (fsm_grp_verdict_iff HO size bs ob Hsize Hbs Htree false [] ga HB). split; [|discriminate].
    apply fsm_true_chain_ok; [lia|apply Hp; lia]. }
  rewrite Vd, andb_true_r. reflexivity.
Qed.

End FsmSound.

Print Assumptions fsm_data_spec.
Print Assumptions fsm_data_exact_groups.
Print Assumptions fsm_data_member.
Print Assumptions fsm_data_single.
Print Assumptions fsm_reported_is_true.
Print Assumptions fsm_valid_is_reported.
Print Assumptions fsm_intact_complete.
Print Assumptions fsm_single_reported_is_true.
Print Assumptions fsm_single_valid_is_reported.
Print Assumptions fsm_outboard_spec.
Print Assumptions fsm_outboard_exact_groups.
Print Assumptions fsm_outboard_member.
Print Assumptions fsm_outboard_single.
Print Assumptions fsm_outboard_reported_is_true.
Print Assumptions fsm_outboard_valid_is_reported.
Print Assumptions fsm_outboard_intact_complete.
