(* C07, part 5: a step of a history (decode_ranges with failing sinks, any stream) writes / saves a prefix of
   the honest encoding of its query, hence keeps the invariant. *)
From BaoV Require Import Model.IO Spec.PlanSpec Spec.PlanWf Spec.EncSpec Spec.HashAssm Spec.PTree Spec.SpecTree.
From BaoV Require Import Props.Bridge Props.C01 Props.C15.
From BaoV Require Import Proofs.RangeBase Proofs.RangeTrunc Proofs.DecHash Proofs.PlanRun Proofs.PlanPreIter Proofs.BridgeTree
  Proofs.DecLoop Proofs.DecForest Proofs.DecRanges Proofs.IOSinkFaults
  Proofs.ValTop Proofs.HistOb Proofs.HistEnc Proofs.HistInv.
From Coq Require Import ZArith Lia.
Open Scope N_scope.
Arguments N.add : simpl never.
Arguments N.sub : simpl never.
Arguments N.mul : simpl never.
Arguments N.pow : simpl never.

(* an iterator with a finite trace ends within its length, and unrolls to it *)
Lemma trace_ends {S A} (next : S -> option (A * S)) st l st' :
  PlanRun.steps next st l st' -> next st' = None ->
  ends_within next st (length l) /\ unroll next (length l) st = l.
Proof.
  induction 1 as [st|st a st1 l st' Hn _ IH]; intro He.
  - cbn [length ends_within unroll]. rewrite He. split; [exact I|reflexivity].
  - cbn [length ends_within unroll]. rewrite Hn. destruct (IH He) as [I1 I2]. split; [exact I1|now rewrite I2].
Qed.

Section HistStep.
Variable HO : hops.
Hypothesis HOK : hash_ok HO.
Notation bytes := (bytes HO).
Notation hash := (hash HO).
Notation outboard := (outboard HO).
Notation item := (item HO).

(* ---- partial runs of the decode loop ---- *)
Lemma steps_items : forall m n it stk enc (t : bytes) (ob : outboard) nw ns s',
  ends_within response_next it n ->
  IOSinkFaults.steps m (decode_step_f HO no_faults) (mkD HO it stk enc, t, ob, nw, ns) = inl s' ->
  exists ys, is_prefix ys (r_items HO (dec_items_sync HO (unroll response_next n it) stk enc)) /\
             apply_items HO ys t ob = (SOk, snd (fst (fst (fst s'))), snd (fst (fst s'))).
Proof.
  induction m as [|m IH]; intros n it stk enc t ob nw ns s' He Hs.
  - cbn [IOSinkFaults.steps] in Hs. injection Hs as <-. exists []. split; [eexists; reflexivity|reflexivity].
  - cbn [IOSinkFaults.steps] in Hs. unfold decode_step_f at 1 in Hs. rewrite dec_next_step in Hs.
    cbn [d_inner d_stack d_enc no_faults sf_save sf_target hits] in Hs.
    destruct (response_next it) as [[c it']|] eqn:E; [|discriminate].
    destruct n as [|n]; [cbn [ends_within] in He; rewrite E in He; contradiction|].
    cbn [ends_within] in He. rewrite E in He. cbn [unroll]. rewrite E.
    unfold dec_items_sync. cbn [dec_items].
    destruct (step_sync HO c stk enc) as [[[i|e|] stk'] enc']; try discriminate.
    fold (dec_items_sync HO (unroll response_next n it') stk' enc'). rewrite r_items_cons.
    destruct i as [node l rr|off d].
    + destruct (save HO ob node l rr) as [ob1|k|] eqn:Es; try discriminate.
      destruct (IH n it' stk' enc' t ob1 nw (ns + 1) s' He Hs) as (ys & [rest Hp] & Ha).
      exists (IParent node l rr :: ys). split; [exists rest; cbn [app]; now rewrite Hp|].
      cbn [apply_items]. rewrite Es. exact Ha.
    + destruct (IH n it' stk' enc' (write_at HO t off d) ob (nw + 1) ns s' He Hs) as (ys & [rest Hp] & Ha).
      exists (ILeaf off d :: ys). split; [exists rest; cbn [app]; now rewrite Hp|].
      cbn [apply_items]. exact Ha.
Qed.

Lemma steps_items_fsm : forall m n it stk enc root (t : bytes) (ob : outboard) nw ns s',
  ends_within response_next it n ->
  IOSinkFaults.steps m (decode_step_fsm_f HO no_faults) (mkR HO it stk enc root, t, ob, nw, ns) = inl s' ->
  exists ys, is_prefix ys (r_items HO (dec_items_fsm HO (unroll response_next n it) stk enc)) /\
             apply_items HO ys t ob = (SOk, snd (fst (fst (fst s'))), snd (fst (fst s'))).
Proof.
  induction m as [|m IH]; intros n it stk enc root t ob nw ns s' He Hs.
  - cbn [IOSinkFaults.steps] in Hs. injection Hs as <-. exists []. split; [eexists; reflexivity|reflexivity].
  - cbn [IOSinkFaults.steps] in Hs. unfold decode_step_fsm_f at 1 in Hs. rewrite rd_next_step in Hs.
    cbn [Fsm.r_iter Fsm.r_stack Fsm.r_enc Fsm.r_root no_faults sf_save sf_target hits] in Hs.
    destruct (response_next it) as [[c it']|] eqn:E; [|discriminate].
    destruct n as [|n]; [cbn [ends_within] in He; rewrite E in He; contradiction|].
    cbn [ends_within] in He. rewrite E in He. cbn [unroll]. rewrite E.
    unfold dec_items_fsm. cbn [dec_items].
    destruct (step_fsm HO c stk enc) as [[[i|e|] stk'] enc']; try discriminate.
    fold (dec_items_fsm HO (unroll response_next n it') stk' enc'). rewrite r_items_cons.
    destruct i as [node l rr|off d].
    + destruct (save HO ob node l rr) as [ob1|k|] eqn:Es; try discriminate.
      destruct (IH n it' stk' enc' root t ob1 nw (ns + 1) s' He Hs) as (ys & [rest Hp] & Ha).
      exists (IParent node l rr :: ys). split; [exists rest; cbn [app]; now rewrite Hp|].
      cbn [apply_items]. rewrite Es. exact Ha.
    + destruct (IH n it' stk' enc' root (write_at HO t off d) ob (nw + 1) ns s' He Hs) as (ys & [rest Hp] & Ha).
      exists (ILeaf off d :: ys). split; [exists rest; cbn [app]; now rewrite Hp|].
      cbn [apply_items]. exact Ha.
Qed.

Variable data : bytes.
Variable bs : N.
Hypothesis Hsize : blen HO data <= 2 ^ 63.
Hypothesis Hbs : bs <= 10.
Let size := blen HO data.
Let t0 := mkTree size bs.

Lemma leaves_ok_of_in (T : ptree HO) : (forall s r d, leaf_in HO T s r d -> leaf_len_ok HO d) -> leaves_ok HO T.
Proof.
  induction T as [|s r d|nd r lh rh l IHl rr IHr]; intro H; cbn [leaves_ok].
  - exact I.
  - apply (H s r d). cbn [leaf_in]. repeat split.
  - split; [apply IHl|apply IHr]; intros s r0 d Hin; apply (H s r0 d); cbn [leaf_in]; [now left|now right].
Qed.

(* the decoder's plan for the query, and what decoding any stream against it yields *)
Lemma plan_honest q (enc : bytes) : wf_ranges q = true ->
  exists n, ends_within response_next (response_new t0 (truncate_ranges q size)) n /\ (N.of_nat n < 2 ^ 64) /\
    is_prefix (r_items HO (dec_items_sync HO (unroll response_next n (response_new t0 (truncate_ranges q size)))
                                          [root_hash HO data] enc))
              (honest HO data bs q) /\
    is_prefix (r_items HO (dec_items_fsm HO (unroll response_next n (response_new t0 (truncate_ranges q size)))
                                         [root_hash HO data] enc))
              (honest HO data bs q).
Proof.
  intro Hwf. pose proof (truncate_wf q size Hwf) as Hwf'.
  destruct (pre_plan_trace size 0 bs (truncate_ranges q size) Hsize ltac:(lia) Hwf') as (items & (st' & St & He) & Mp & Ln).
  apply (steps_map pp_next' without_ranges) in St.
  assert (He' : response_next st' = None) by (rewrite response_next_eq, He; reflexivity).
  destruct (trace_ends response_next _ _ _ St He') as [E1 E2].
  exists (length (map without_ranges items)). split; [exact E1|]. split.
  { rewrite map_length. exact Ln. }
  unfold t0, response_new. cbn [tsize tbs]. rewrite E2.
  destruct q as [|x q1] eqn:Eq.
  - (* the empty query: nothing is decoded *)
    assert (Et : truncate_ranges [] size = []) by (unfold truncate_ranges; apply firstn_nil).
    rewrite Et, pp_new_eq in St. cbn [r_is_empty] in St.
    assert (En : map without_ranges items = []).
    { inversion St as [|? ? ? ? ? Hn _]; [reflexivity|]. subst. discriminate Hn. }
    rewrite En. change (r_items HO (dec_items_sync HO [] [root_hash HO data] enc)) with (@nil item).
    change (r_items HO (dec_items_fsm HO [] [root_hash HO data] enc)) with (@nil item).
    split; exists (honest HO data bs []); symmetry; apply app_nil_l.
  - rewrite <- Eq in *. assert (Hne : q <> []) by (rewrite Eq; discriminate). rewrite Mp.
    pose proof (Bridge_plan HO data bs q Hwf Hsize) as BP. fold size in BP. rewrite <- BP.
    rewrite <- (Bridge_cv HO data bs q Hwf Hne Hsize), <- (Bridge_items HO data bs q Hsize).
    assert (Hc : consistent HO (spec_tree HO data bs q)) by apply (Bridge_consistent HO (ho_len HO HOK) data bs q Hsize).
    assert (Hl : leaves_ok HO (spec_tree HO data bs q)); [|split;
      [apply (C01_sync_sound HO HOK (spec_tree HO data bs q) enc Hc Hl)|apply (C01_fsm_sound HO HOK (spec_tree HO data bs q) enc Hc Hl)]].
    + apply leaves_ok_of_in. intros s r d Hin.
      destruct (Bridge_leaves HO data bs q s r d Hsize Hin) as (Hb & _).
      unfold leaf_len_ok. assert (2 ^ bs <= 2 ^ 10) by (apply N.pow_le_mono_r; lia).
      change (2 ^ 10) with 1024 in H. change (2 ^ 63) with 9223372036854775808. lia.
Qed.

(* a step of the sync decode loop on a store of the blob's tree and root *)
Lemma sync_step_prefix sf (enc : bytes) q (t : bytes) (ob : outboard) :
  wf_ranges q = true -> ob_tree ob = t0 -> ob_root ob = root_hash HO data ->
  exists ys, is_prefix ys (honest HO data bs q) /\
    forall t' ob', apply_items HO ys t ob = (SOk, t', ob') ->
      let r := decode_ranges_f HO sf enc q t ob in snd (fst (fst r)) = t' /\ snd (fst r) = ob'.
Proof.
  intros Hwf Ht Hr. destruct (plan_honest q enc Hwf) as (n & He & Hn & Hp & _).
  pose proof (loop_bound_of_N n Hn) as Hn'.
  destruct (decode_sink_fault HO sf enc q t ob) as [[_ Ef]|(m & st & tg & ob1 & nw & ns & it & st' & Hm & Hpre & _ & _ & _ & Ef)].
  - (* no sink fault reached: the fault-free run *)
    pose proof (decode_ranges_items HO n enc q t ob) as DI. cbv zeta in DI. rewrite Ht in DI. unfold t0 in DI. cbn [tsize] in DI. fold t0 in DI.
    specialize (DI He Hn'). destruct DI as (stf & DI).
    rewrite (run_iter_unroll response_next n _ He Hn'), Hr in DI.
    eexists. split; [exact Hp|]. intros t' ob' Ha. cbv zeta. rewrite Ef, DI.
    unfold a_target, a_ob. rewrite Ha. cbn [fst snd]. split; reflexivity.
  - (* stopped before a failing sink call: a fault-free prefix run *)
    unfold decode_prefix, dec_new in Hpre. rewrite Ht, Hr in Hpre. unfold t0 in Hpre. cbn [tsize] in Hpre. fold t0 in Hpre.
    destruct (steps_items m n _ _ _ t ob 0 0 _ He Hpre) as (ys & [rest1 Hp1] & Ha). cbn [fst snd] in Ha.
    destruct Hp as [rest2 Hp2]. exists ys. split; [exists (rest1 ++ rest2); rewrite Hp2, Hp1; now rewrite app_assoc|].
    intros t' ob' Ha'. cbv zeta. rewrite Ef. cbn [fst snd]. rewrite Ha in Ha'. injection Ha' as <- <-. split; reflexivity.
Qed.

(* C07.5 for the sync decoder *)
Lemma inv_step_sync D sf (enc : bytes) q (t : bytes) (ob : outboard) :
  wf_ranges q = true -> Inv HO data bs D (t, ob) ->
  exists ys, is_prefix ys (honest HO data bs q) /\
    let r := decode_ranges_f HO sf enc q t ob in
    Inv HO data bs (fun c => D c || delivered HO ys c) (snd (fst (fst r)), snd (fst r)).
Proof.
  intros Hwf I.
  destruct (sync_step_prefix sf enc q t ob Hwf (os_tree HO ob size bs (inv_sized HO data bs D (t, ob) I))
              (inv_root HO data bs D (t, ob) I)) as (ys & Hp & Hres).
  destruct (inv_apply HO HOK data bs Hsize Hbs D t ob q ys I Hp) as (t' & ob' & Ha & I').
  exists ys. split; [exact Hp|]. cbv zeta. destruct (Hres t' ob' Ha) as [-> ->]. exact I'.
Qed.

(* the same for the fsm decoder *)
Lemma fsm_step_prefix sf (enc : bytes) q (t : bytes) (ob : outboard) :
  wf_ranges q = true -> ob_tree ob = t0 -> ob_root ob = root_hash HO data ->
  exists ys, is_prefix ys (honest HO data bs q) /\
    forall t' ob', apply_items HO ys t ob = (SOk, t', ob') ->
      let r := decode_ranges_fsm_f HO sf enc q t ob in snd (fst (fst r)) = t' /\ snd (fst r) = ob'.
Proof.
  intros Hwf Ht Hr. destruct (plan_honest q enc Hwf) as (n & He & Hn & _ & Hp).
  pose proof (loop_bound_of_N n Hn) as Hn'.
  destruct (decode_fsm_sink_fault HO sf enc q t ob) as [[_ Ef]|(m & st & tg & ob1 & nw & ns & it & st' & Hm & Hpre & _ & _ & _ & Ef)].
  - pose proof (decode_ranges_fsm_items HO n enc q t ob) as DI. cbv zeta in DI. rewrite truncate_owned_eq in DI.
    rewrite Ht in DI. unfold t0 in DI. cbn [tsize] in DI. fold t0 in DI.
    specialize (DI He Hn'). destruct DI as (stf & DI).
    rewrite (run_iter_unroll response_next n _ He Hn'), Hr in DI.
    eexists. split; [exact Hp|]. intros t' ob' Ha. cbv zeta. rewrite Ef, DI.
    unfold a_target, a_ob. rewrite Ha. cbn [fst snd]. split; reflexivity.
  - unfold decode_prefix_fsm, rd_new in Hpre. rewrite truncate_owned_eq in Hpre.
    rewrite Ht, Hr in Hpre. unfold t0 in Hpre. cbn [tsize] in Hpre. fold t0 in Hpre.
    destruct (steps_items_fsm m n _ _ _ _ t ob 0 0 _ He Hpre) as (ys & [rest1 Hp1] & Ha). cbn [fst snd] in Ha.
    destruct Hp as [rest2 Hp2]. exists ys. split; [exists (rest1 ++ rest2); rewrite Hp2, Hp1; now rewrite app_assoc|].
    intros t' ob' Ha'. cbv zeta. rewrite Ef. cbn [fst snd]. rewrite Ha in Ha'. injection Ha' as <- <-. split; reflexivity.
Qed.

Lemma inv_step_fsm D sf (enc : bytes) q (t : bytes) (ob : outboard) :
  wf_ranges q = true -> Inv HO data bs D (t, ob) ->
  exists ys, is_prefix ys (honest HO data bs q) /\
    let r := decode_ranges_fsm_f HO sf enc q t ob in
    Inv HO data bs (fun c => D c || delivered HO ys c) (snd (fst (fst r)), snd (fst r)).
Proof.
  intros Hwf I.
  destruct (fsm_step_prefix sf enc q t ob Hwf (os_tree HO ob size bs (inv_sized HO data bs D (t, ob) I))
              (inv_root HO data bs D (t, ob) I)) as (ys & Hp & Hres).
  destruct (inv_apply HO HOK data bs Hsize Hbs D t ob q ys I Hp) as (t' & ob' & Ha & I').
  exists ys. split; [exact Hp|]. cbv zeta. destruct (Hres t' ob' Ha) as [-> ->]. exact I'.
Qed.

(* ---- histories ---- *)
Record op := mkOp { op_q : ranges; op_enc : bytes; op_sf : sink_faults; op_fsm : bool }.
Definition hist_step (st : bytes * outboard) (o : op) : bytes * outboard :=
  if op_fsm o
  then let r := decode_ranges_fsm_f HO (op_sf o) (op_enc o) (op_q o) (fst st) (snd st) in (snd (fst (fst r)), snd (fst r))
  else let r := decode_ranges_f HO (op_sf o) (op_enc o) (op_q o) (fst st) (snd st) in (snd (fst (fst r)), snd (fst r)).

Lemma inv_step D st o : wf_ranges (op_q o) = true -> Inv HO data bs D st ->
  exists ys, is_prefix ys (honest HO data bs (op_q o)) /\
             Inv HO data bs (fun c => D c || delivered HO ys c) (hist_step st o).
Proof.
  intros Hwf I. destruct st as [t ob]. unfold hist_step. cbn [fst snd]. destruct (op_fsm o).
  - exact (inv_step_fsm D (op_sf o) (op_enc o) (op_q o) t ob Hwf I).
  - exact (inv_step_sync D (op_sf o) (op_enc o) (op_q o) t ob Hwf I).
Qed.

Lemma inv_history ops : Forall (fun o => wf_ranges (op_q o) = true) ops ->
  forall D st, Inv HO data bs D st ->
  exists D', Inv HO data bs D' (fold_left hist_step ops st) /\ forall c, D c = true -> D' c = true.
Proof.
  induction 1 as [|o ops Ho _ IH]; intros D st I; cbn [fold_left].
  - exists D. split; [exact I|auto].
  - destruct (inv_step D st o Ho I) as (ys & _ & I1).
    destruct (IH _ _ I1) as (D' & I2 & Hm). exists D'. split; [exact I2|].
    intros c Hc. apply Hm. now rewrite Hc.
Qed.

End HistStep.
