(* Gap audit (C01 / C09): polls that continue after errors, over a consistent plan tree and ANY stream.
   lenient_forest: one induction over forests of plan trees, generic in the per-item step: up to the
   first error that is not a leaf hash mismatch, the results are (Ok honest item | leaf hash mismatch)
   position by position and the decoder state is that of an honest run.
   polls_tree_sync / polls_tree_fsm: the consequences (no foreign Ok item and no panic while the only
   errors are leaf hash mismatches; after a not-found error only errors follow). *)
From BaoV Require Import Model.Fsm Spec.HashAssm Spec.PTree.
From BaoV Require Import Proofs.DecLoop Proofs.DecHash Proofs.DecForest Proofs.DecConst Proofs.GapPolls.
From Coq Require Import Lia Arith.

Local Arguments hash_subtree : simpl never.
Local Arguments parent_cv : simpl never.

(* ---------- plan predicates used after a not-found error ---------- *)
Fixpoint no_leaf (p : list chunk) : Prop :=
  match p with [] => True | CLeaf _ _ _ _ :: _ => False | CParent _ _ _ _ _ :: r => no_leaf r end.
(* every leaf is non-empty, and a leaf shorter than a hash pair is followed by no other leaf *)
Fixpoint tail_ok (p : list chunk) : Prop :=
  match p with
  | [] => True
  | CParent _ _ _ _ _ :: r => tail_ok r
  | CLeaf _ z _ _ :: r => z <> 0 /\ (z < 64 -> no_leaf r) /\ tail_ok r
  end.
Lemma tail_ok_app : forall p1 p2, tail_ok (p1 ++ p2) -> tail_ok p2.
Proof.
  induction p1 as [|c p1 IH]; intros p2 H; [exact H|].
  destruct c; cbn in H; [apply IH; exact H|apply IH; apply H].
Qed.

Section Lenient.
Variable HO : hops.
Notation bytes := (bytes HO).
Notation hash := (hash HO).
Notation item := (item HO).
Notation ptree := (ptree HO).
Notation rsl := (res dec_err item).
Notation stepT := (chunk -> list hash -> bytes -> res dec_err item * list hash * bytes).
Hypothesis HOK : hash_ok HO.

(* the result of a poll that leaves the decoder in the state of the accepted honest item it *)
Definition soft_match (r : rsl) (it : item) : Prop :=
  r = Ok it \/ exists s off d, r = Err (DLeafHashMismatch s) /\ it = ILeaf off d.
(* the other errors of the plan item c *)
Definition hard_for (c : chunk) (e : dec_err) : Prop :=
  match c with
  | CParent n _ _ _ _ => e = DParentNotFound n \/ e = DParentHashMismatch n
  | CLeaf st _ _ _ => e = DLeafNotFound st
  end.

Lemma soft_match_soft : forall r it, soft_match r it -> soft HO r.
Proof. intros r it [->|(s & off & d & -> & _)]; exact I. Qed.
Lemma hard_not_soft : forall c e, hard_for c e -> ~ soft HO (Err e).
Proof. intros c e H. destruct c; cbn in H; [destruct H as [->| ->]|subst e]; intro S; exact S. Qed.

Definition step_spec_l (step : stepT) : Prop :=
  forall c it h ps, owes HO c it h ps -> forall stk s,
    (exists r, soft_match r it /\
               step c (h :: stk) s = (r, ps ++ stk, skipn (length (item_bytes HO it)) s))
    \/ (exists e stk' enc', step c (h :: stk) s = (Err e, stk', enc') /\ hard_for c e).

Lemma skipn_app_len {A} (a b : list A) : skipn (length a) (a ++ b) = b.
Proof. rewrite skipn_app, skipn_all, Nat.sub_diag. reflexivity. Qed.
Lemma skipn_add {A} : forall a b (l : list A), skipn a (skipn b l) = skipn (b + a) l.
Proof.
  intros a b. induction b as [|b IH]; intros l; [reflexivity|].
  destruct l as [|x l]; cbn [skipn Nat.add]; [now destruct a|apply IH].
Qed.

Lemma step_sync_spec_l : step_spec_l (step_sync HO).
Proof.
  intros c it h ps Ho stk s.
  destruct (step_sync_spec HO HOK c it h ps Ho stk s) as [(s' & Hs & E)|(Hnp & stk' & enc' & E)].
  - left. exists (Ok it). split; [now left|]. rewrite E, Hs, skipn_app_len. reflexivity.
  - pose proof (step_sync_states HO _ _ _ _ _ _ E) as St.
    destruct Ho as [node ir lf rt rs lh rh Hl Hr|st ir rs d Hd]; cbn [chunk_err] in *.
    + right. eexists _, stk', enc'. split; [exact E|]. cbn [hard_for]. destruct (_ <? _)%nat; auto.
    + destruct (length s <? length (item_bytes HO (ILeaf (to_bytes st) d)))%nat.
      * right. eexists _, stk', enc'. split; [exact E|]. reflexivity.
      * left. destruct St as (h0 & Hstk & Henc & _). injection Hstk as _ <-.
        exists (Err (DLeafHashMismatch st)). split; [right; eauto|].
        rewrite E, Henc. cbn [csize item_bytes app]. unfold drop, blen. rewrite Nat2N.id. reflexivity.
Qed.

Lemma step_fsm_spec_l : step_spec_l (step_fsm HO).
Proof.
  intros c it h ps Ho stk s.
  destruct (step_fsm_spec HO HOK c it h ps Ho stk s) as [(s' & Hs & E)|(Hnp & stk' & enc' & E)].
  - left. exists (Ok it). split; [now left|]. rewrite E, Hs, skipn_app_len. reflexivity.
  - pose proof (step_fsm_states HO _ _ _ _ _ _ E) as St.
    destruct Ho as [node ir lf rt rs lh rh Hl Hr|st ir rs d Hd]; cbn [chunk_err] in *.
    + right. eexists _, stk', enc'. split; [exact E|]. cbn [hard_for]. destruct (_ <? _)%nat; auto.
    + destruct (length s <? length (item_bytes HO (ILeaf (to_bytes st) d)))%nat.
      * right. eexists _, stk', enc'. split; [exact E|]. reflexivity.
      * left. destruct St as (h0 & Hstk & Henc & _). injection Hstk as _ <-.
        exists (Err (DLeafHashMismatch st)). split; [right; eauto|].
        rewrite E, Henc. cbn [csize item_bytes app]. unfold drop, blen. rewrite Nat2N.id. reflexivity.
Qed.

(* ---------- the forest induction ---------- *)
Section Gen.
Variable step : stepT.
Hypothesis Hstep : step_spec_l step.

Definition all_soft (ts : list ptree) (stk : list hash) (s : bytes) : Prop :=
  exists rs1, Forall2 soft_match rs1 (fitems HO ts) /\
    poll_list HO step (fplan HO ts) (fstack HO ts ++ stk) s
      = (rs1, stk, skipn (length (flat_items HO (fitems HO ts))) s).
Definition hard_stop (plan : list chunk) (items : list item) (res : list rsl * list hash * bytes) : Prop :=
  exists p1 c p2 it h ps sg sk rs1 e stk' enc',
    plan = p1 ++ c :: p2 /\ Forall2 soft_match rs1 (firstn (length p1) items) /\
    nth_error items (length p1) = Some it /\ owes HO c it h ps /\
    step c (h :: sg) sk = (Err e, stk', enc') /\ hard_for c e /\
    res = cont HO (rs1 ++ [Err e]) (poll_list HO step p2 stk' enc').

Lemma hard_stop_cons : forall c0 it0 r0 plan items res, soft_match r0 it0 ->
  hard_stop plan items res -> hard_stop (c0 :: plan) (it0 :: items) (cont HO [r0] res).
Proof.
  intros c0 it0 r0 plan items res H0 (p1 & c & p2 & it & h & ps & sg & sk & rs1 & e & stk' & enc' & E1 & F & N1 & Ow & Es & Hh & ->).
  exists (c0 :: p1), c, p2, it, h, ps, sg, sk, (r0 :: rs1), e, stk', enc'.
  split; [rewrite E1; reflexivity|]. split; [cbn [length firstn]; constructor; assumption|].
  split; [exact N1|]. split; [exact Ow|]. split; [exact Es|]. split; [exact Hh|].
  rewrite cont_cont. reflexivity.
Qed.

Lemma hard_stop_here : forall c it h ps sg sk e stk' enc' plan items, owes HO c it h ps ->
  step c (h :: sg) sk = (Err e, stk', enc') -> hard_for c e ->
  hard_stop (c :: plan) (it :: items) (cont HO [Err e] (poll_list HO step plan stk' enc')).
Proof.
  intros c it h ps sg sk e stk' enc' plan items Ow Es Hh.
  exists [], c, plan, it, h, ps, sg, sk, [], e, stk', enc'.
  split; [reflexivity|]. split; [constructor|]. split; [reflexivity|]. repeat (split; [assumption|]). reflexivity.
Qed.

Lemma lenient_forest : forall n ts stk s, (fsize HO ts <= n)%nat -> Forall (good HO) ts ->
  all_soft ts stk s \/
  hard_stop (fplan HO ts) (fitems HO ts) (poll_list HO step (fplan HO ts) (fstack HO ts ++ stk) s).
Proof.
  induction n as [|n IH]; intros ts stk s Hsz Hg.
  - destruct ts as [|t ts]; [|pose proof (psize_pos HO t); rewrite fsize_cons in Hsz; lia].
    left. exists []. split; [constructor|reflexivity].
  - destruct ts as [|t ts].
    { left. exists []. split; [constructor|reflexivity]. }
    inversion Hg as [|? ? Hgt Hgts]; subst.
    destruct t as [|st ir d|node ir lh rh l r].
    + change (fplan HO (PSkip :: ts)) with (fplan HO ts). change (fitems HO (PSkip :: ts)) with (fitems HO ts).
      change (fstack HO (PSkip :: ts)) with (fstack HO ts). unfold all_soft.
      change (fplan HO (PSkip :: ts)) with (fplan HO ts). change (fitems HO (PSkip :: ts)) with (fitems HO ts).
      change (fstack HO (PSkip :: ts)) with (fstack HO ts).
      apply IH; [rewrite fsize_cons in Hsz; cbn [psize] in Hsz; lia|assumption].
    + (* leaf *)
      unfold all_soft.
      change (fplan HO (PLeaf st ir d :: ts)) with (CLeaf st (blen HO d) ir [] :: fplan HO ts).
      change (fitems HO (PLeaf st ir d :: ts)) with (ILeaf (to_bytes st) d :: fitems HO ts).
      change (fstack HO (PLeaf st ir d :: ts)) with (hash_subtree HO st d ir :: fstack HO ts).
      cbn [app]. destruct Hgt as [_ Hd]. cbn in Hd.
      destruct (Hstep _ _ _ _ (owes_leaf HO st ir [] d Hd) (fstack HO ts ++ stk) s)
        as [(r0 & Hm & Est)|(e & stk' & enc' & Est & Hh)].
      * rewrite (poll_cons HO _ _ _ _ _ _ _ _ Est). cbn [app].
        set (s1 := skipn (length (item_bytes HO (ILeaf (to_bytes st) d))) s) in *.
        destruct (IH ts stk s1) as [(rs1 & F & E)|Hs];
          [rewrite fsize_cons in Hsz; cbn [psize] in Hsz; lia|assumption| |].
        -- left. exists (r0 :: rs1). split; [constructor; assumption|].
           rewrite E. unfold cont, s1. cbn [fst snd app]. rewrite skipn_add, flat_items_cons, app_length.
           reflexivity.
        -- right. apply hard_stop_cons; assumption.
      * right. rewrite (poll_cons HO _ _ _ _ _ _ _ _ Est).
        eapply hard_stop_here; [apply (owes_leaf HO st ir [] d Hd)|exact Est|exact Hh].
    + (* parent *)
      unfold all_soft. rewrite fplan_node, fitems_node.
      change (fstack HO (PNode node ir lh rh l r :: ts)) with (parent_cv HO lh rh ir :: fstack HO ts).
      cbn [app]. destruct Hgt as [Hc Hl]. pose proof Hc as (L1 & L2 & _ & _ & Hcl & Hcr). destruct Hl as [Hll Hlr].
      pose proof (owes_parent HO node ir (negb (is_skip HO l)) (negb (is_skip HO r)) [] lh rh L1 L2) as Ow.
      destruct (Hstep _ _ _ _ Ow (fstack HO ts ++ stk) s) as [(r0 & Hm & Est)|(e & stk' & enc' & Est & Hh)].
      * rewrite (poll_cons HO _ _ _ _ _ _ _ _ Est).
        rewrite (fstack_kids HO _ _ _ _ _ _ _ _ Hc).
        set (s1 := skipn (length (item_bytes HO (IParent node lh rh))) s) in *.
        destruct (IH (l :: r :: ts) stk s1) as [(rs1 & F & E)|Hs].
        { rewrite !fsize_cons in *. cbn [psize] in Hsz. lia. }
        { repeat constructor; assumption. }
        -- left. exists (r0 :: rs1). split; [constructor; assumption|].
           rewrite E. unfold cont, s1. cbn [fst snd app]. rewrite skipn_add, flat_items_cons, app_length.
           reflexivity.
        -- right. apply hard_stop_cons; assumption.
      * right. rewrite (poll_cons HO _ _ _ _ _ _ _ _ Est).
        eapply hard_stop_here; [exact Ow|exact Est|exact Hh].
Qed.

(* one plan tree *)
Lemma lenient_tree : forall T s, good HO T ->
  let res := poll_list HO step (plan_of HO T) [cv_of HO T] s in
  Forall2 soft_match (p_res HO res) (items_of HO T) \/ hard_stop (plan_of HO T) (items_of HO T) res.
Proof.
  intros T s Hg. cbv zeta. destruct (is_skip HO T) eqn:Esk.
  - destruct T; try discriminate. left. constructor.
  - destruct (lenient_forest (fsize HO [T]) [T] [] s (le_n _) (Forall_cons _ Hg (Forall_nil _)))
      as [(rs1 & F & E)|Hs];
      unfold fplan, fitems, fstack in *; cbn [map concat filter] in *; rewrite Esk in *;
      cbn [negb map] in *; rewrite ?app_nil_r in *.
    + left. rewrite E. exact F.
    + right. exact Hs.
Qed.

Lemma Forall2_nth {A B} (R : A -> B -> Prop) : forall l1 l2, Forall2 R l1 l2 ->
  forall k x, nth_error l1 k = Some x -> exists y, nth_error l2 k = Some y /\ R x y.
Proof.
  induction 1 as [|x y l1 l2 Hxy _ IH]; intros k z Hk; destruct k; cbn in *; try discriminate.
  - injection Hk as <-. eauto.
  - apply IH. exact Hk.
Qed.

Lemma Forall2_len {A B} (R : A -> B -> Prop) : forall l1 l2, Forall2 R l1 l2 -> length l1 = length l2.
Proof. induction 1; cbn; congruence. Qed.

Lemma nth_firstn {A} : forall (l : list A) k n x, nth_error (firstn n l) k = Some x -> nth_error l k = Some x.
Proof.
  induction l as [|a l IH]; intros k n x H; destruct n, k; cbn in *; try discriminate; auto.
  eapply IH. exact H.
Qed.

(* results up to and including index k, when every earlier result is soft *)
Lemma hard_stop_index : forall plan items res,
  hard_stop plan items res ->
  exists k0 c p2 e stk' enc' it h ps sg sk,
    plan = firstn k0 plan ++ c :: p2 /\ length (firstn k0 plan) = k0 /\
    (forall j r, (j < k0)%nat -> nth_error (p_res HO res) j = Some r ->
       exists it', nth_error items j = Some it' /\ soft_match r it') /\
    nth_error (p_res HO res) k0 = Some (Err e) /\ hard_for c e /\
    nth_error items k0 = Some it /\ owes HO c it h ps /\ step c (h :: sg) sk = (Err e, stk', enc') /\
    (forall j r, (k0 < j)%nat -> nth_error (p_res HO res) j = Some r ->
       nth_error (p_res HO (poll_list HO step p2 stk' enc')) (j - S k0) = Some r).
Proof.
  intros plan items res (p1 & c & p2 & it & h & ps & sg & sk & rs1 & e & stk' & enc' & E1 & F & N1 & Ow & Es & Hh & ->).
  assert (Lr : length rs1 = length p1).
  { apply Forall2_len in F. rewrite F, firstn_length. apply Nat.min_l.
    assert (length p1 < length items)%nat by (apply nth_error_Some; congruence). lia. }
  exists (length p1), c, p2, e, stk', enc', it, h, ps, sg, sk.
  assert (Ef : firstn (length p1) plan = p1).
  { rewrite E1, firstn_app, Nat.sub_diag, firstn_all. cbn. apply app_nil_r. }
  rewrite Ef. split; [exact E1|]. split; [reflexivity|].
  rewrite p_res_cont, <- app_assoc. cbn [app]. split; [|split; [|split; [|split; [|split; [|split]]]]]; try assumption.
  - intros j r Hj Hn. rewrite nth_error_app1 in Hn by lia.
    destruct (Forall2_nth _ _ _ F j r Hn) as (it' & N2 & S2). exists it'. split; [|exact S2].
    eapply nth_firstn. exact N2.
  - rewrite nth_error_app2 by lia. rewrite Lr, Nat.sub_diag. reflexivity.
  - intros j r Hj Hn. rewrite nth_error_app2 in Hn by lia. rewrite Lr in Hn.
    replace (j - length p1)%nat with (S (j - S (length p1))) in Hn by lia. exact Hn.
Qed.

(* (1) and (2): no foreign item, no panic, while the only errors are leaf hash mismatches *)
Theorem lenient_sound : forall T s, good HO T ->
  let rs := p_res HO (poll_list HO step (plan_of HO T) [cv_of HO T] s) in
  forall k, (forall j r, (j < k)%nat -> nth_error rs j = Some r -> soft HO r) ->
    (forall it, nth_error rs k = Some (Ok it) -> nth_error (items_of HO T) k = Some it) /\
    nth_error rs k <> Some Panic.
Proof.
  intros T s Hg rs k Hsoft. subst rs.
  destruct (lenient_tree T s Hg) as [F|Hs].
  - split.
    + intros it Hn. destruct (Forall2_nth _ _ _ F k _ Hn) as (it' & N2 & [E|(s0 & off & d & E & _)]);
        [injection E as <-; exact N2|discriminate].
    + intro Hn. destruct (Forall2_nth _ _ _ F k _ Hn) as (it' & _ & [E|(s0 & off & d & E & _)]); discriminate.
  - destruct (hard_stop_index _ _ _ Hs) as (k0 & c & p2 & e & stk' & enc' & it0 & h & ps & sg & sk & _ & _ & Hlt & Hk0 & Hh & _).
    destruct (Nat.lt_trichotomy k k0) as [Lt|[->|Gt]].
    + split.
      * intros it Hn. destruct (Hlt k _ Lt Hn) as (it' & N2 & [E|(s0 & off & d & E & _)]);
          [injection E as <-; exact N2|discriminate].
      * intro Hn. destruct (Hlt k _ Lt Hn) as (it' & _ & [E|(s0 & off & d & E & _)]); discriminate.
    + rewrite Hk0. split; [intros it E; discriminate|discriminate].
    + exfalso. apply (hard_not_soft c e Hh). apply (Hsoft k0 _ Gt Hk0).
Qed.

(* the shape needed for (3): at a first not-found error, the rest of the plan is polled from the
   state that error left *)
Lemma lenient_first_hard : forall T s, good HO T ->
  let rs := p_res HO (poll_list HO step (plan_of HO T) [cv_of HO T] s) in
  forall k e, (forall j r, (j < k)%nat -> nth_error rs j = Some r -> soft HO r) ->
    nth_error rs k = Some (Err e) -> notfound e ->
    exists c p2 stk' enc' it h ps sg sk,
      plan_of HO T = firstn k (plan_of HO T) ++ c :: p2 /\ hard_for c e /\
      owes HO c it h ps /\ step c (h :: sg) sk = (Err e, stk', enc') /\
      (forall j r, (k < j)%nat -> nth_error rs j = Some r ->
         nth_error (p_res HO (poll_list HO step p2 stk' enc')) (j - S k) = Some r).
Proof.
  intros T s Hg rs k e Hsoft Hk Hnf. subst rs.
  destruct (lenient_tree T s Hg) as [F|Hs].
  - exfalso. destruct (Forall2_nth _ _ _ F k _ Hk) as (it' & _ & [E|(s0 & off & d & E & _)]);
      [discriminate|injection E as ->; exact Hnf].
  - destruct (hard_stop_index _ _ _ Hs) as (k0 & c & p2 & e0 & stk' & enc' & it0 & h & ps & sg & sk & Hp & _ & Hlt & Hk0 & Hh & _ & Ow & Es & Hgt).
    destruct (Nat.lt_trichotomy k k0) as [Lt|[->|Gt]].
    + exfalso. destruct (Hlt k _ Lt Hk) as (it' & _ & [E|(s0 & off & d & E & _)]);
        [discriminate|injection E as ->; exact Hnf].
    + rewrite Hk0 in Hk. injection Hk as <-.
      exists c, p2, stk', enc', it0, h, ps, sg, sk. repeat (split; [assumption|]). exact Hgt.
    + exfalso. apply (hard_not_soft c e0 Hh). apply (Hsoft k0 _ Gt Hk0).
Qed.
End Gen.

(* ---------- after a not-found error ---------- *)
Lemma Forall_is_err_cont : forall e (x : list rsl * list hash * bytes),
  Forall (is_err HO) (p_res HO x) -> Forall (is_err HO) (p_res HO (cont HO [Err e] x)).
Proof. intros e x H. rewrite p_res_cont. constructor; [eexists; reflexivity|exact H]. Qed.

(* the sync decoder, and both decoders after a leaf not-found: nothing is left to read *)
Lemma sync_drained : forall plan stk, tail_ok plan ->
  Forall (is_err HO) (p_res HO (poll_list HO (step_sync HO) plan stk [])).
Proof.
  induction plan as [|c plan IH]; intros stk Ht; [constructor|].
  destruct c as [node ir lf rt rs|st z ir rs]; cbn [tail_ok] in Ht.
  - rewrite (poll_cons HO _ _ _ _ [] (Err (DParentNotFound node)) stk []) by reflexivity.
    apply Forall_is_err_cont. apply IH. exact Ht.
  - destruct Ht as (Hz & _ & Ht).
    assert (E : step_sync HO (CLeaf st z ir rs) stk [] = (Err (DLeafNotFound st), stk, [])).
    { unfold step_sync. replace (blen HO [] <? z) with true; [reflexivity|].
      symmetry. apply N.ltb_lt. unfold blen. cbn. lia. }
    rewrite (poll_cons HO _ _ _ _ _ _ _ _ E). apply Forall_is_err_cont. apply IH. exact Ht.
Qed.

Lemma fsm_drained : forall plan stk, tail_ok plan ->
  Forall (is_err HO) (p_res HO (poll_list HO (step_fsm HO) plan stk [])).
Proof.
  induction plan as [|c plan IH]; intros stk Ht; [constructor|].
  destruct c as [node ir lf rt rs|st z ir rs]; cbn [tail_ok] in Ht.
  - rewrite (poll_cons HO _ _ _ _ [] (Err (DParentNotFound node)) stk []) by reflexivity.
    apply Forall_is_err_cont. apply IH. exact Ht.
  - destruct Ht as (Hz & _ & Ht).
    assert (E : step_fsm HO (CLeaf st z ir rs) stk [] = (Err (DLeafNotFound st), stk, [])).
    { unfold step_fsm. replace (blen HO [] <? z) with true; [reflexivity|].
      symmetry. apply N.ltb_lt. unfold blen. cbn. lia. }
    rewrite (poll_cons HO _ _ _ _ _ _ _ _ E). apply Forall_is_err_cont. apply IH. exact Ht.
Qed.

(* the fsm decoder after a parent not-found keeps the fewer than 64 unread bytes *)
Lemma fsm_parents_only : forall plan stk (e : bytes), no_leaf plan -> blen HO e < 64 ->
  Forall (is_err HO) (p_res HO (poll_list HO (step_fsm HO) plan stk e)).
Proof.
  induction plan as [|c plan IH]; intros stk e Hn He; [constructor|].
  destruct c as [node ir lf rt rs|st z ir rs]; cbn [no_leaf] in Hn; [|contradiction].
  assert (E : step_fsm HO (CParent node ir lf rt rs) stk e = (Err (DParentNotFound node), stk, e)).
  { unfold step_fsm. replace (blen HO e <? 64) with true; [reflexivity|]. symmetry. now apply N.ltb_lt. }
  rewrite (poll_cons HO _ _ _ _ _ _ _ _ E). apply Forall_is_err_cont. apply IH; assumption.
Qed.

Lemma hash_subtree_chunk : forall s (d : bytes) r, blen HO d <= 1024 -> hash_subtree HO s d r = chunk_cv HO s d r.
Proof.
  intros s d r H. unfold hash_subtree. change 64%nat with (S 63). generalize 63%nat. intro f.
  cbn [subtree_cv]. apply N.leb_le in H. rewrite H. reflexivity.
Qed.

Lemma fsm_short : forall plan (l r : hash) f sg (e : bytes), tail_ok plan -> blen HO e < 64 ->
  length l = 32%nat -> length r = 32%nat ->
  Forall (is_err HO) (p_res HO (poll_list HO (step_fsm HO) plan (parent_cv HO l r f :: sg) e)).
Proof.
  induction plan as [|c plan IH]; intros l r f sg e Ht He L1 L2; [constructor|].
  destruct c as [node ir lf rt rs|st z ir rs]; cbn [tail_ok] in Ht.
  - assert (E : step_fsm HO (CParent node ir lf rt rs) (parent_cv HO l r f :: sg) e
                = (Err (DParentNotFound node), parent_cv HO l r f :: sg, e)).
    { unfold step_fsm. replace (blen HO e <? 64) with true; [reflexivity|]. symmetry. now apply N.ltb_lt. }
    rewrite (poll_cons HO _ _ _ _ _ _ _ _ E). apply Forall_is_err_cont. apply IH; assumption.
  - destruct Ht as (Hz & Hnl & Ht).
    destruct (blen HO e <? z) eqn:Hs.
    + assert (E : step_fsm HO (CLeaf st z ir rs) (parent_cv HO l r f :: sg) e
                  = (Err (DLeafNotFound st), parent_cv HO l r f :: sg, [])).
      { unfold step_fsm. rewrite Hs. reflexivity. }
      rewrite (poll_cons HO _ _ _ _ _ _ _ _ E). apply Forall_is_err_cont. apply fsm_drained. exact Ht.
    + apply N.ltb_ge in Hs.
      assert (E : step_fsm HO (CLeaf st z ir rs) (parent_cv HO l r f :: sg) e
                  = (Err (DLeafHashMismatch st), sg, drop HO z e)).
      { unfold step_fsm. replace (blen HO e <? z) with false by (symmetry; apply N.ltb_ge; exact Hs).
        cbv zeta.
        assert (Hb : blen HO (take HO z e) <= 1024) by (rewrite blen_take; lia).
        rewrite (hash_subtree_chunk st _ ir Hb).
        destruct (bytes_eqb HO (parent_cv HO l r f) (chunk_cv HO st (take HO z e) ir)) eqn:Eq; [|reflexivity].
        exfalso. apply (bytes_eqb_eq HO HOK) in Eq.
        apply (ho_inj HO HOK (InParent HO l r f) (InChunk HO st (take HO z e) ir)) in Eq; [discriminate| |].
        - cbn. auto.
        - cbn. unfold blen in Hb. lia. }
      rewrite (poll_cons HO _ _ _ _ _ _ _ _ E). apply Forall_is_err_cont.
      apply fsm_parents_only; [apply Hnl; lia|rewrite blen_drop; lia].
Qed.

Lemma Forall_nth {A} (P : A -> Prop) : forall l k x, Forall P l -> nth_error l k = Some x -> P x.
Proof. intros l k x H Hn. rewrite Forall_forall in H. apply H. eapply nth_error_In. exact Hn. Qed.

(* ---------- the two decoders over a plan tree ---------- *)
Theorem polls_tree_sync : forall (T : ptree) (s : bytes), consistent HO T -> leaves_ok HO T ->
  let rs := p_res HO (poll_list HO (step_sync HO) (plan_of HO T) [cv_of HO T] s) in
  forall k, (forall j r, (j < k)%nat -> nth_error rs j = Some r -> soft HO r) ->
    (forall it, nth_error rs k = Some (Ok it) -> nth_error (items_of HO T) k = Some it) /\
    nth_error rs k <> Some Panic /\
    (tail_ok (plan_of HO T) -> forall e, nth_error rs k = Some (Err e) -> notfound e ->
       forall j r, (k < j)%nat -> nth_error rs j = Some r -> is_err HO r).
Proof.
  intros T s C L rs k Hsoft. assert (Hg : good HO T) by (split; assumption).
  destruct (lenient_sound _ step_sync_spec_l T s Hg k Hsoft) as [A1 A2].
  split; [exact A1|]. split; [exact A2|].
  intros Ht e Hk Hnf j r Hj Hn.
  destruct (lenient_first_hard _ step_sync_spec_l T s Hg k e Hsoft Hk Hnf)
    as (c & p2 & stk' & enc' & it & h & ps & sg & sk & Hp & Hh & Ow & Es & Hgt).
  specialize (Hgt j r Hj Hn).
  pose proof (step_sync_states HO _ _ _ _ _ _ Es) as St.
  assert (Ht2 : tail_ok p2).
  { rewrite Hp in Ht. apply tail_ok_app in Ht. destruct c; cbn in Ht; [exact Ht|apply Ht]. }
  assert (En : enc' = []).
  { destruct e; try contradiction; destruct St as (_ & -> & _); reflexivity. }
  subst enc'. eapply Forall_nth; [apply sync_drained; exact Ht2|exact Hgt].
Qed.

Theorem polls_tree_fsm : forall (T : ptree) (s : bytes), consistent HO T -> leaves_ok HO T ->
  let rs := p_res HO (poll_list HO (step_fsm HO) (plan_of HO T) [cv_of HO T] s) in
  forall k, (forall j r, (j < k)%nat -> nth_error rs j = Some r -> soft HO r) ->
    (forall it, nth_error rs k = Some (Ok it) -> nth_error (items_of HO T) k = Some it) /\
    nth_error rs k <> Some Panic /\
    (tail_ok (plan_of HO T) -> forall e, nth_error rs k = Some (Err e) -> notfound e ->
       forall j r, (k < j)%nat -> nth_error rs j = Some r -> is_err HO r).
Proof.
  intros T s C L rs k Hsoft. assert (Hg : good HO T) by (split; assumption).
  destruct (lenient_sound _ step_fsm_spec_l T s Hg k Hsoft) as [A1 A2].
  split; [exact A1|]. split; [exact A2|].
  intros Ht e Hk Hnf j r Hj Hn.
  destruct (lenient_first_hard _ step_fsm_spec_l T s Hg k e Hsoft Hk Hnf)
    as (c & p2 & stk' & enc' & it & h & ps & sg & sk & Hp & Hh & Ow & Es & Hgt).
  specialize (Hgt j r Hj Hn).
  pose proof (step_fsm_states HO _ _ _ _ _ _ Es) as St.
  assert (Ht2 : tail_ok p2).
  { rewrite Hp in Ht. apply tail_ok_app in Ht. destruct c; cbn in Ht; [exact Ht|apply Ht]. }
  destruct e as [n|n|n|n|io]; try contradiction.
  - (* parent not found: the pending value is that of a parent; fewer than 64 bytes stay unread *)
    destruct St as (-> & -> & Hlt).
    destruct Ow as [node ir lf rt rs0 lh rh Hl Hr|st ir rs0 d Hd]; [|cbn in Hh; discriminate].
    eapply Forall_nth; [exact (fsm_short p2 lh rh ir sg sk Ht2 Hlt Hl Hr)|exact Hgt].
  - destruct St as (_ & -> & _). eapply Forall_nth; [apply fsm_drained; exact Ht2|exact Hgt].
Qed.

End Lenient.
