(* Gap audit (C01), part 5: the statements about node ids under ANY claimed size, for dec_run / rd_run and the two
   decode_ranges drivers: the items yielded are ys1 ++ ys2, ys1 items under their right ids (every parent carries the
   true pair of the node it is yielded for), ys2 parents that carry the true pair of ANOTHER node; once ys2 starts no
   leaf is yielded any more and the run does not finish. *)
From BaoV Require Import Model.Fsm Spec.HashAssm Spec.EncSpec Spec.RangeSpec Spec.PlanSpec Spec.PTree Spec.SpecTree.
From BaoV Require Import Proofs.RangeTrunc.
From BaoV Require Import Proofs.DecLoop Proofs.DecHash Proofs.DecForest Proofs.DecRanges Proofs.DecTheorems.
From BaoV Require Import Proofs.BridgeBase Proofs.BridgeTree Proofs.BridgePlan Proofs.PlanBase.
From BaoV Require Import Proofs.SizeHash Proofs.SizeDec Proofs.SizeMain Proofs.GapPairs.
From BaoV Require Import Proofs.GapKInv Proofs.GapKRun Proofs.GapKTop Proofs.GapKShape.
From Coq Require Import Lia Arith.
Open Scope N_scope.

Section Defs.
Variable HO : hops.
Notation bytes := (bytes HO).
Notation item := (item HO).

(* an item yielded under its right id / a parent yielded under the id of another node *)
Definition right_id_item (data : bytes) (size' : N) (i : item) : Prop :=
  true_item HO data size' i /\
  match i with IParent nd l r => (l, r) = true_pair HO data nd | ILeaf _ _ => True end.
Definition wrong_id_item (data : bytes) (size' : N) (i : item) : Prop :=
  exists nd l r nd', i = IParent nd l r /\ nd' <> nd /\ (l, r) = true_pair HO data nd' /\ true_item HO data size' i.

Lemma parent_at_good : forall (data data' : bytes) same nd l r,
  parent_at HO data data' same (IParent nd l r) -> good_item HO data data' (IParent nd l r).
Proof.
  intros data data' same nd l r (a' & b' & a & b & H1 & H2 & H3 & H4 & H5 & H6 & _).
  exists a', b', a, b. repeat split; assumption.
Qed.

Lemma right_item_right_id : forall (data data' : bytes) i,
  blen HO data <= 2 ^ 63 -> blen HO data' <= 2 ^ 63 ->
  right_item HO data data' i -> right_id_item data (blen HO data') i.
Proof.
  intros data data' i Hd Hd' R. destruct i as [nd l r|off d]; cbn [right_item] in R.
  - split; [apply good_item_true; [assumption|assumption|exact (parent_at_good data data' true nd l r R)]|].
    destruct R as (a' & b' & a & b & Hsp & H2' & H2 & Hn & Hl & Hr & Em).
    pose proof (nchunks_bounds (blen HO data)) as (B1 & _). pose proof (nchunks_bounds (blen HO data')) as (B1' & _).
    destruct (same_path_aligned _ _ _ _ _ _ B1' B1 Hsp) as [_ Hal].
    rewrite Hn, Em. apply pair_is_true_pair; assumption.
  - split; [apply good_item_true; assumption|exact I].
Qed.

Lemma wrong_item_wrong_id : forall (data data' : bytes) i,
  blen HO data <= 2 ^ 63 -> blen HO data' <= 2 ^ 63 ->
  wrong_item HO data data' i -> wrong_id_item data (blen HO data') i.
Proof.
  intros data data' i Hd Hd' W. destruct i as [nd l r|off d]; [|destruct W].
  unfold wrong_item in W.
  pose proof (good_item_true HO data data' _ Hd Hd' (parent_at_good data data' false nd l r W)) as T.
  destruct W as (a' & b' & a & b & Hsp & H2' & H2 & Hn & Hl & Hr & Em).
  pose proof (nchunks_bounds (blen HO data)) as (B1 & _). pose proof (nchunks_bounds (blen HO data')) as (B1' & _).
  destruct (same_path_aligned _ _ _ _ _ _ B1' B1 Hsp) as [_ Hal].
  exists nd, l, r, (a + next_pow2 (b - a) / 2 - 1). split; [reflexivity|]. split.
  - destruct (np2_half (b' - a') H2') as (k' & _ & E' & _). destruct (np2_half (b - a) H2) as (k & _ & E & _).
    pose proof (pow2_ge1 k'). pose proof (pow2_ge1 k). rewrite Hn. rewrite E', E in *. lia.
  - split; [apply pair_is_true_pair; assumption|exact T].
Qed.
End Defs.

Lemma id_items_def : forall HO (data : bytes HO) (size' : N) (i : item HO),
  (right_id_item HO data size' i <->
     true_item HO data size' i /\ forall nd l r, i = IParent nd l r -> (l, r) = true_pair HO data nd) /\
  (wrong_id_item HO data size' i <->
     exists nd l r nd', i = IParent nd l r /\ nd' <> nd /\ (l, r) = true_pair HO data nd' /\ true_item HO data size' i).
Proof.
  intros HO data size' i. split; [|reflexivity]. unfold right_id_item. split.
  - intros [T P]. split; [exact T|]. intros nd l r ->. exact P.
  - intros [T P]. split; [exact T|]. destruct i as [nd l r|off d]; [apply P; reflexivity|exact I].
Qed.

Section ShapeRuns.
Variable HO : hops.
Notation bytes := (bytes HO).
Hypothesis HOK : hash_ok HO.
Variable data : bytes.
Variable data' : bytes.
Variables (bs : N) (q : ranges).
Hypothesis Hdata : blen HO data <= 2 ^ 63.
Hypothesis Hdata' : blen HO data' <= 2 ^ 63.
Hypothesis Hwf : wf_ranges q = true.
Notation size' := (blen HO data').

Definition run_shape_of (ys : list (item HO)) (o : outcome) : Prop :=
  exists ys1 ys2, ys = ys1 ++ ys2 /\
    (forall i, In i ys1 -> right_id_item HO data size' i) /\
    (forall i, In i ys2 -> wrong_id_item HO data size' i) /\
    (ys2 <> [] -> o <> Finished).

Lemma claimed_plan_shape : forall step, step_ok2 HO step -> forall plan root (stream : bytes),
  plan = pre_plan size' 0 bs (truncate_ranges q size') -> root = root_hash HO data ->
  run_shape_of (r_items HO (dec_items HO step plan [root] stream)) (r_outcome HO (dec_items HO step plan [root] stream)).
Proof.
  intros step Hok plan root stream Hplan Hroot.
  rewrite <- (bridge_plan HO data' bs q Hwf Hdata') in Hplan. rewrite spec_tree_unfold in Hplan.
  assert (Hr : root = cv HO data 0 (nchunks (blen HO data)) true) by (rewrite Hroot; reflexivity).
  clear Hroot. rewrite Hplan.
  destruct (shape_top HO HOK step Hok data data' bs (sel q size') Hdata Hdata' root stream Hr)
    as (ys1 & ys2 & E & F1 & F2 & Ho).
  exists ys1, ys2. split; [exact E|]. split; [|split; [|exact Ho]].
  - intros i Hin. apply right_item_right_id; try assumption. rewrite Forall_forall in F1. exact (F1 i Hin).
  - intros i Hin. apply wrong_item_wrong_id; try assumption. rewrite Forall_forall in F2. exact (F2 i Hin).
Qed.

Lemma any_size_sync_shape : forall (stream : bytes) ys o st,
  dec_run HO (dec_new HO (root_hash HO data) (mkTree size' bs) stream q) = (ys, o, st) -> run_shape_of ys o.
Proof.
  intros stream ys o st H.
  remember (root_hash HO data) as root eqn:Hroot.
  unfold dec_new in H. cbn [tsize] in H.
  destruct (response_ends size' bs (truncate_ranges q size') Hdata' (truncate_wf q size' Hwf))
    as (n & He & Hn & Hp).
  remember (pre_plan size' 0 bs (truncate_ranges q size')) as plan eqn:Hplan.
  rewrite (dec_run_items HO _ n _ _ plan ys o st He Hn Hp H), (dec_run_outcome HO _ n _ _ plan ys o st He Hn Hp H).
  exact (claimed_plan_shape (step_sync HO) (step_sync_ok2 HO HOK) plan root stream Hplan Hroot).
Qed.

Lemma any_size_fsm_shape : forall (stream : bytes) ys o st,
  rd_run HO (rd_new HO (root_hash HO data) q (mkTree size' bs) stream) = (ys, o, st) -> run_shape_of ys o.
Proof.
  intros stream ys o st H.
  remember (root_hash HO data) as root eqn:Hroot.
  unfold rd_new in H. cbn [tsize] in H. rewrite truncate_owned_eq in H.
  destruct (response_ends size' bs (truncate_ranges q size') Hdata' (truncate_wf q size' Hwf))
    as (n & He & Hn & Hp).
  remember (pre_plan size' 0 bs (truncate_ranges q size')) as plan eqn:Hplan.
  rewrite (rd_run_items HO _ n _ _ _ plan ys o st He Hn Hp H), (rd_run_outcome HO _ n _ _ _ plan ys o st He Hn Hp H).
  exact (claimed_plan_shape (step_fsm HO) (step_fsm_ok2 HO HOK) plan root stream Hplan Hroot).
Qed.

Lemma any_size_decode_ranges_shape : forall (stream target : bytes) (ob : outboard HO) res target' ob',
  ob_root ob = root_hash HO data -> ob_tree ob = mkTree size' bs ->
  (exists st', decode_ranges HO stream q target ob = (res, target', ob', st')) \/
  (exists st', decode_ranges_fsm HO stream q target ob = (res, target', ob', st')) ->
  exists ys o, let a := apply_items HO ys target ob in
    res = ranges_result (a_res HO a) o /\ target' = a_target HO a /\ ob' = a_ob HO a /\ run_shape_of ys o.
Proof.
  intros stream target ob res target' ob' Hr Ht [[st' Hd]|[st' Hd]].
  - destruct (dec_run HO (dec_new HO (ob_root ob) (ob_tree ob) stream q)) as [[ys o] stf] eqn:Hrun.
    destruct (claimed_ends' HO data' bs q Hdata' Hwf) as (n & En & Bn).
    assert (En' : ends_within response_next
                    (response_new (ob_tree ob) (truncate_ranges q (tsize (ob_tree ob)))) n)
      by (rewrite Ht; exact En).
    destruct (decode_ranges_sound HO n stream q target ob ys o stf En' Bn Hrun) as (st1 & Hd').
    rewrite Hr, Ht in Hrun. pose proof (any_size_sync_shape stream ys o stf Hrun) as G.
    rewrite Hd in Hd'. injection Hd' as -> -> -> _. exists ys, o. cbv zeta. auto.
  - destruct (rd_run HO (rd_new HO (ob_root ob) q (ob_tree ob) stream)) as [[ys o] stf] eqn:Hrun.
    destruct (claimed_ends' HO data' bs q Hdata' Hwf) as (n & En & Bn).
    assert (En' : ends_within response_next
                    (response_new (ob_tree ob) (truncate_ranges_owned q (tsize (ob_tree ob)))) n)
      by (rewrite Ht, truncate_owned_eq; exact En).
    destruct (decode_ranges_fsm_sound HO n stream q target ob ys o stf En' Bn Hrun) as (st1 & Hd').
    rewrite Hr, Ht in Hrun. pose proof (any_size_fsm_shape stream ys o stf Hrun) as G.
    rewrite Hd in Hd'. injection Hd' as -> -> -> _. exists ys, o. cbv zeta. auto.
Qed.
End ShapeRuns.

(* ---------- final forms ---------- *)
Theorem any_size_ids : forall HO, hash_ok HO ->
  forall (data : bytes HO) (size' bs : N) (q : ranges),
  size' <= 2 ^ 63 -> blen HO data <= 2 ^ 63 -> wf_ranges q = true ->
  forall (stream : bytes HO) ys o,
  (exists st, dec_run HO (dec_new HO (root_hash HO data) (mkTree size' bs) stream q) = (ys, o, st)) \/
  (exists st, rd_run HO (rd_new HO (root_hash HO data) q (mkTree size' bs) stream) = (ys, o, st)) ->
  exists ys1 ys2, ys = ys1 ++ ys2 /\
    (forall i, In i ys1 -> right_id_item HO data size' i) /\
    (forall i, In i ys2 -> wrong_id_item HO data size' i) /\
    (ys2 <> [] -> o <> Finished).
Proof.
  intros HO HOK data size' bs q Hs Hd Hwf stream ys o Hrun.
  pose proof (blen_zeros HO size') as E.
  remember (zeros HO (N.to_nat size')) as data' eqn:Hdata'. clear Hdata'. subst size'.
  destruct Hrun as [[st H]|[st H]].
  - exact (any_size_sync_shape HO HOK data data' bs q Hd Hs Hwf stream ys o st H).
  - exact (any_size_fsm_shape HO HOK data data' bs q Hd Hs Hwf stream ys o st H).
Qed.

Theorem any_size_decode_ranges_ids : forall HO, hash_ok HO ->
  forall (data : bytes HO) (size' bs : N) (q : ranges),
  size' <= 2 ^ 63 -> blen HO data <= 2 ^ 63 -> wf_ranges q = true ->
  forall (stream target : bytes HO) (ob : outboard HO),
  ob_root ob = root_hash HO data -> ob_tree ob = mkTree size' bs ->
  forall res target' ob',
  (exists st', decode_ranges HO stream q target ob = (res, target', ob', st')) \/
  (exists st', decode_ranges_fsm HO stream q target ob = (res, target', ob', st')) ->
  exists ys1 ys2, let a := apply_items HO (ys1 ++ ys2) target ob in
    target' = a_target HO a /\ ob' = a_ob HO a /\
    (forall i, In i ys1 -> right_id_item HO data size' i) /\
    (forall i, In i ys2 -> wrong_id_item HO data size' i) /\
    (ys2 <> [] -> res <> Ok tt).
Proof.
  intros HO HOK data size' bs q Hs Hd Hwf stream target ob Hr Ht res target' ob' Hrun.
  pose proof (blen_zeros HO size') as E.
  remember (zeros HO (N.to_nat size')) as data' eqn:Hdata'. clear Hdata'. subst size'.
  destruct (any_size_decode_ranges_shape HO HOK data data' bs q Hd Hs Hwf stream target ob res target' ob' Hr Ht Hrun)
    as (ys & o & G). cbv zeta in G. destruct G as (-> & -> & -> & ys1 & ys2 & -> & G1 & G2 & G3).
  exists ys1, ys2. cbv zeta. split; [reflexivity|]. split; [reflexivity|]. split; [exact G1|]. split; [exact G2|].
  intros Hne Hok. apply ranges_result_ok in Hok. destruct Hok as [_ Ho]. exact (G3 Hne Ho).
Qed.

(* ---------- non-vacuity: both parts non-empty ----------
   a blob of seven chunks, claimed size 6144 (six chunks), the honest stream: the root pair and the whole left half
   (eight items, four leaves) are yielded under their right ids; then the pair of the true node 5 ([4,7) in the true
   tree) is yielded under the id 4 (the node [4,6) of the claimed tree), and the next leaf is rejected *)
From BaoV Require Import Proofs.DecWitness.
Notation H := term_hops.
Definition kdata7 : bytes H := repeat TZ 4096 ++ repeat TZ 2049.
Definition kstream7 : bytes H := flat H (honest H kdata7 0 kq_all).

Theorem any_size_ids_nonvacuous :
  exists HO, hash_ok HO /\
  exists (data stream : bytes HO) (size' bs : N) (q : ranges) ys1 (l r : hash HO),
    size' <= 2 ^ 63 /\ blen HO data <= 2 ^ 63 /\ bs <= 10 /\ wf_ranges q = true /\
    (exists e st, dec_run HO (dec_new HO (root_hash HO data) (mkTree size' bs) stream q)
                  = (ys1 ++ [IParent 4 l r], Failed e, st)) /\
    (exists e st, rd_run HO (rd_new HO (root_hash HO data) q (mkTree size' bs) stream)
                  = (ys1 ++ [IParent 4 l r], Failed e, st)) /\
    ys1 = firstn 8 (honest HO data bs q) /\ length ys1 = 8%nat /\
    (l, r) = true_pair HO data 5.
Proof.
  exists H. split; [exact term_hops_ok|].
  pose (p := true_pair H kdata7 5).
  exists kdata7, kstream7, 6144, 0, kq_all, (firstn 8 (honest H kdata7 0 kq_all)), (fst p), (snd p).
  split; [vm_compute; discriminate|]. split; [vm_compute; discriminate|]. split; [lia|]. split; [reflexivity|].
  split.
  { pose (run := dec_run H (dec_new H (root_hash H kdata7) (mkTree 6144 0) kstream7 kq_all)).
    exists (DLeafHashMismatch 4), (snd run). apply run_shape; vm_compute; reflexivity. }
  split.
  { pose (run := rd_run H (rd_new H (root_hash H kdata7) kq_all (mkTree 6144 0) kstream7)).
    exists (DLeafHashMismatch 4), (snd run). apply run_shape; vm_compute; reflexivity. }
  split; [reflexivity|]. split; [vm_compute; reflexivity|]. vm_compute. reflexivity.
Qed.
