(* C11 (1, 2) and C10 (8): the exact-length read loops over a scheduled reader. *)
From BaoV Require Import Model.IOSched.
From Coq Require Import Lia.

Arguments N.mul : simpl never. Arguments N.add : simpl never. Arguments N.sub : simpl never.
Arguments N.min : simpl never. Arguments N.max : simpl never.

(* suffix of a schedule *)
Definition suffix {A} (s' s : list A) : Prop := exists pre, s = pre ++ s'.
Lemma suffix_refl {A} (s : list A) : suffix s s.
Proof. exists []. reflexivity. Qed.
Lemma suffix_trans {A} (a b c : list A) : suffix a b -> suffix b c -> suffix a c.
Proof. intros [p Hp] [q Hq]. exists (q ++ p). subst. now rewrite app_assoc. Qed.
Lemma suffix_cons {A} (x : A) s' s : suffix (x :: s') s -> suffix s' s.
Proof. intros [p Hp]. exists (p ++ [x]). subst. now rewrite <- app_assoc. Qed.
Lemma suffix_length {A} (s' s : list A) : suffix s' s -> (length s' <= length s)%nat.
Proof. intros [p Hp]. subst. rewrite app_length. lia. Qed.
Lemma suffix_nil {A} (s : list A) : suffix [] s.
Proof. exists s. now rewrite app_nil_r. Qed.
Lemma suffix_In {A} (s' s : list A) x : suffix s' s -> In x s' -> In x s.
Proof. intros [p Hp] Hi. subst. apply in_or_app. now right. Qed.

Section ReadExact.
Variable HO : hops.
Notation bytes := (bytes HO).
Notation reader := (reader HO).
Notation take := (take HO).
Notation drop := (drop HO).
Notation blen := (blen HO).

(* ---- take / drop / blen ---- *)
Lemma blen_nil : blen [] = 0.
Proof. reflexivity. Qed.
Lemma blen_app (a b : bytes) : blen (a ++ b) = blen a + blen b.
Proof. unfold Hash.blen. rewrite app_length. lia. Qed.
Lemma blen_take n (d : bytes) : blen (take n d) = N.min n (blen d).
Proof. unfold Hash.blen, Hash.take. rewrite firstn_length. lia. Qed.
Lemma blen_drop n (d : bytes) : blen (drop n d) = blen d - n.
Proof. unfold Hash.blen, Hash.drop. rewrite skipn_length. lia. Qed.
Lemma take_all n (d : bytes) : blen d <= n -> take n d = d.
Proof. unfold Hash.blen, Hash.take. intros H. apply firstn_all2. lia. Qed.
Lemma drop_all n (d : bytes) : blen d <= n -> drop n d = [].
Proof. unfold Hash.blen, Hash.drop. intros H. apply skipn_all2. lia. Qed.
Lemma take_0 (d : bytes) : take 0 d = [].
Proof. reflexivity. Qed.
Lemma drop_0 (d : bytes) : drop 0 d = d.
Proof. reflexivity. Qed.
Lemma firstn_add {A} (a b : nat) (l : list A) : firstn (a + b) l = firstn a l ++ firstn b (skipn a l).
Proof.
  revert l. induction a as [|a IH]; intros l; [reflexivity|].
  destruct l as [|x l]; cbn [Nat.add firstn skipn app].
  - now rewrite firstn_nil.
  - now rewrite IH.
Qed.
Lemma skipn_add {A} (a b : nat) (l : list A) : skipn (a + b) l = skipn b (skipn a l).
Proof.
  revert l. induction a as [|a IH]; intros l; [reflexivity|].
  destruct l as [|x l]; cbn [Nat.add skipn].
  - now rewrite skipn_nil.
  - apply IH.
Qed.
Lemma take_add a b (d : bytes) : take (a + b) d = take a d ++ take b (drop a d).
Proof. unfold Hash.take, Hash.drop. rewrite N2Nat.inj_add. apply firstn_add. Qed.
Lemma drop_add a b (d : bytes) : drop (a + b) d = drop b (drop a d).
Proof. unfold Hash.take, Hash.drop. rewrite N2Nat.inj_add. apply skipn_add. Qed.
Lemma drop_blen_take j (d : bytes) : drop (blen (take j d)) d = drop j d.
Proof.
  rewrite blen_take. destruct (N.le_ge_cases j (blen d)) as [H|H].
  - now rewrite N.min_l.
  - rewrite N.min_r by exact H. rewrite !drop_all; [reflexivity | exact H | apply N.le_refl].
Qed.
Lemma blen_0_nil (d : bytes) : blen d = 0 -> d = [].
Proof. destruct d; [reflexivity|]. unfold Hash.blen. cbn [length]. lia. Qed.

(* ---- one read call ---- *)
Lemma drop_pending_suffix (s : list ev) : suffix (drop_pending s) s.
Proof.
  induction s as [|e s IH]; [apply suffix_refl|].
  destruct e; try apply suffix_refl.
  cbn [drop_pending]. destruct IH as [p Hp]. exists (EPending :: p). cbn [app]. now f_equal.
Qed.
Lemma drop_pending_head (s : list ev) : forall s', drop_pending s <> EPending :: s'.
Proof.
  induction s as [|e s IH]; intros s'; [discriminate|].
  destruct e; try discriminate. cbn [drop_pending]. apply IH.
Qed.

(* outcomes of a call that is not the failing one *)
Inductive read_out (r : reader) (len : N) : res io_kind bytes * reader -> Prop :=
| RO_intr s' : suffix (EIntr :: s') (rd_sched HO r) ->
    read_out r len (Err KInterrupted, mkRd HO (rd_rest HO r) s' (rd_calls HO r + 1) (rd_fail HO r))
| RO_data j s' : 1 <= j <= len -> suffix s' (rd_sched HO r) ->
    read_out r len (Ok (take j (rd_rest HO r)), mkRd HO (drop j (rd_rest HO r)) s' (rd_calls HO r + 1) (rd_fail HO r)).

Definition fails_now (r : reader) : option io_kind :=
  match rd_fail HO r with
  | Some (k, kind) => if k =? rd_calls HO r then Some kind else None
  | None => None
  end.

Lemma rd_read_nofail r len : 0 < len -> fails_now r = None -> read_out r len (rd_read HO r len).
Proof.
  intros Hlen Hf.
  assert (Hgen : read_out r len
     match drop_pending (rd_sched HO r) with
     | EIntr :: s' => (Err KInterrupted, mkRd HO (rd_rest HO r) s' (rd_calls HO r + 1) (rd_fail HO r))
     | EFrag m :: s' => let got := take (N.min (N.max m 1) len) (rd_rest HO r) in
                        (Ok got, mkRd HO (drop (blen got) (rd_rest HO r)) s' (rd_calls HO r + 1) (rd_fail HO r))
     | _ => let got := take len (rd_rest HO r) in
            (Ok got, mkRd HO (drop (blen got) (rd_rest HO r)) [] (rd_calls HO r + 1) (rd_fail HO r))
     end).
  { pose proof (drop_pending_suffix (rd_sched HO r)) as Hs.
    pose proof (drop_pending_head (rd_sched HO r)) as Hh.
    destruct (drop_pending (rd_sched HO r)) as [|[m| |] s'].
    - cbv zeta. rewrite drop_blen_take. apply RO_data; [lia | apply suffix_nil].
    - cbv zeta. rewrite drop_blen_take. apply RO_data; [lia | eapply suffix_cons; exact Hs].
    - apply RO_intr. exact Hs.
    - exfalso. eapply Hh. reflexivity. }
  unfold rd_read. unfold fails_now in Hf.
  destruct (rd_fail HO r) as [[k kind]|] eqn:Ef.
  - destruct (k =? rd_calls HO r); [discriminate|].
    destruct (drop_pending (rd_sched HO r)) as [|[m| |] s']; exact Hgen.
  - destruct (drop_pending (rd_sched HO r)) as [|[m| |] s']; exact Hgen.
Qed.

Lemma rd_read_fail r len kind : fails_now r = Some kind ->
  exists s', suffix s' (rd_sched HO r) /\
    rd_read HO r len = (Err kind, mkRd HO (rd_rest HO r) s' (rd_calls HO r + 1) (rd_fail HO r)).
Proof.
  unfold fails_now, rd_read. destruct (rd_fail HO r) as [[k kd]|]; [|discriminate].
  destruct (k =? rd_calls HO r); [|discriminate]. intros [= ->]. eexists. split; [|reflexivity].
  pose proof (drop_pending_suffix (rd_sched HO r)) as Hs.
  destruct (drop_pending (rd_sched HO r)) as [|e s']; cbn [tl]; [apply suffix_nil | eapply suffix_cons; exact Hs].
Qed.

(* the fault plan of a reader is still ahead and is not an Interrupted (which std retries) *)
Definition fail_ok (r : reader) : Prop :=
  forall k kind, rd_fail HO r = Some (k, kind) -> kind <> KInterrupted /\ rd_calls HO r <= k.

Lemma fails_now_some r kind : fails_now r = Some kind -> rd_fail HO r = Some (rd_calls HO r, kind).
Proof.
  unfold fails_now. destruct (rd_fail HO r) as [[k kd]|]; [|discriminate].
  destruct (k =? rd_calls HO r) eqn:E; [|discriminate]. apply N.eqb_eq in E. intros [= ->]. now subst.
Qed.
Lemma fails_now_none r : fails_now r = None -> fail_ok r ->
  forall k kind, rd_fail HO r = Some (k, kind) -> kind <> KInterrupted /\ rd_calls HO r + 1 <= k.
Proof.
  unfold fails_now. intros Hn Hok k kind Hf. destruct (Hok k kind Hf) as [Hk Hc]. rewrite Hf in Hn.
  destruct (k =? rd_calls HO r) eqn:E; [discriminate|]. apply N.eqb_neq in E. split; [exact Hk | lia].
Qed.

(* what an exact read loop returns: the injected failure at call k, or (within the first k calls) the
   result of the same read on the plain byte list *)
Definition loop_post (eof : bytes -> bytes -> res io_kind bytes) (r : reader) (len : N) (acc : bytes) (x : res io_kind bytes) (r' : reader) : Prop :=
  (exists k kind, rd_fail HO r = Some (k, kind) /\ x = Err kind /\ rd_calls HO r' = k + 1)
  \/ ((forall k kind, rd_fail HO r = Some (k, kind) -> rd_calls HO r' <= k) /\
      ((len <= blen (rd_rest HO r) /\ x = Ok (acc ++ take len (rd_rest HO r)) /\ rd_rest HO r' = drop len (rd_rest HO r))
       \/ (blen (rd_rest HO r) < len /\ x = eof acc (rd_rest HO r)))).

Lemma err_not_intr (kind : io_kind) (A : Type) (a b : A) : kind <> KInterrupted ->
  match kind with KInterrupted => a | _ => b end = b.
Proof. destruct kind; try reflexivity. intros H. now elim H. Qed.

Lemma read_exact_std_spec : forall fuel r len acc,
  (N.to_nat len + length (rd_sched HO r) < fuel)%nat -> fail_ok r ->
  exists x r', read_exact_std HO fuel r len acc = (x, r') /\ rd_fail HO r' = rd_fail HO r /\
     suffix (rd_sched HO r') (rd_sched HO r) /\ rd_calls HO r <= rd_calls HO r' /\
     loop_post (fun _ _ => Err KUnexpectedEof) r len acc x r'.
Proof.
  induction fuel as [|f IH]; intros r len acc Hm Hok; [lia|].
  cbn [read_exact_std]. destruct (len =? 0) eqn:El.
  { apply N.eqb_eq in El. subst len. exists (Ok acc), r.
    split; [reflexivity|]. split; [reflexivity|]. split; [apply suffix_refl|]. split; [lia|].
    right. split. { intros k kind Hf. apply Hok in Hf. tauto. }
    left. rewrite take_0, app_nil_r, drop_0. split; [lia|]. split; reflexivity. }
  apply N.eqb_neq in El. destruct (fails_now r) as [kind|] eqn:Ef.
  { destruct (rd_read_fail r len kind Ef) as (s' & Hs & Hr). rewrite Hr.
    apply fails_now_some in Ef. destruct (Hok _ _ Ef) as [Hk _].
    eexists (Err kind), _. split.
    { destruct kind; try reflexivity. now elim Hk. }
    cbn [rd_fail rd_sched rd_calls rd_rest]. split; [reflexivity|]. split; [exact Hs|]. split; [lia|].
    left. exists (rd_calls HO r), kind. split; [exact Ef|]. split; reflexivity. }
  pose proof (fails_now_none r Ef Hok) as Hnf.
  assert (Hlen : 0 < len) by lia.
  pose proof (rd_read_nofail r len Hlen Ef) as Hro.
  remember (rd_read HO r len) as o eqn:Eo. destruct Hro as [s' Hs | j s' Hj Hs].
  - (* Interrupted: retry *)
    pose proof (suffix_length _ _ Hs) as Hl. cbn [length] in Hl.
    destruct (IH (mkRd HO (rd_rest HO r) s' (rd_calls HO r + 1) (rd_fail HO r)) len acc) as (x & r' & He & Hf & Hsf & Hc & Hp).
    { cbn [rd_sched]. lia. }
    { intros k kind Hfk. cbn [rd_fail rd_calls] in *. apply Hnf in Hfk. exact Hfk. }
    exists x, r'. split; [exact He|]. cbn [rd_fail rd_sched rd_calls rd_rest] in *.
    split; [exact Hf|]. split; [eapply suffix_trans; [exact Hsf | eapply suffix_cons; exact Hs]|]. split; [lia|].
    exact Hp.
  - (* some bytes *)
    pose proof (suffix_length _ _ Hs) as Hl.
    rewrite blen_take. remember (rd_rest HO r) as rest eqn:Erest.
    destruct (N.min j (blen rest) =? 0) eqn:E0.
    { apply N.eqb_eq in E0. eexists (Err KUnexpectedEof), _. split; [reflexivity|].
      cbn [rd_fail rd_sched rd_calls rd_rest]. split; [reflexivity|]. split; [exact Hs|]. split; [lia|].
      right. split. { intros k kind Hfk. apply Hnf in Hfk. tauto. }
      right. rewrite <- Erest. split; [lia | reflexivity]. }
    apply N.eqb_neq in E0.
    destruct (IH (mkRd HO (drop j rest) s' (rd_calls HO r + 1) (rd_fail HO r)) (len - N.min j (blen rest)) (acc ++ take j rest))
      as (x & r' & He & Hf & Hsf & Hc & Hp).
    { cbn [rd_sched]. lia. }
    { intros k kind Hfk. cbn [rd_fail rd_calls] in *. apply Hnf in Hfk. exact Hfk. }
    exists x, r'. split; [exact He|]. cbn [rd_fail rd_sched rd_calls rd_rest] in *.
    split; [exact Hf|]. split; [eapply suffix_trans; [exact Hsf | exact Hs]|]. split; [lia|].
    unfold loop_post in *. cbn [rd_fail rd_sched rd_calls rd_rest] in *. rewrite <- Erest.
    rewrite blen_drop in Hp.
    destruct Hp as [Hp | (Hb & [(Hle & Hx & Hr) | (Hlt & Hx)])].
    + left. exact Hp.
    + right. split; [exact Hb|]. left.
      assert (Hjr : j <= blen rest) by lia. rewrite N.min_l in * by exact Hjr.
      split; [lia|]. split.
      * rewrite Hx, <- app_assoc, <- take_add. replace (j + (len - j)) with len by lia. reflexivity.
      * rewrite Hr, <- drop_add. replace (j + (len - j)) with len by lia. reflexivity.
    + right. split; [exact Hb|]. right. split; [lia | exact Hx].
Qed.


(* no Interrupted event in the schedule: tokio's loops (read_exact, read_to_end) do not retry one *)
Definition no_intr (r : reader) : Prop := forall e, In e (rd_sched HO r) -> e <> EIntr.
Lemma no_intr_suffix r r' : suffix (rd_sched HO r') (rd_sched HO r) -> no_intr r -> no_intr r'.
Proof. intros Hs Hn e He. apply Hn. eapply suffix_In; eassumption. Qed.

(* take(len).read_to_end: EOF ends the read with what has been read so far; an Interrupted of the
   transport is returned (no retry), hence the schedule without one *)
Lemma take_read_to_end_spec : forall fuel r len acc,
  (N.to_nat len + length (rd_sched HO r) < fuel)%nat -> fail_ok r -> no_intr r ->
  exists x r', take_read_to_end HO fuel r len acc = (x, r') /\ rd_fail HO r' = rd_fail HO r /\
     suffix (rd_sched HO r') (rd_sched HO r) /\ rd_calls HO r <= rd_calls HO r' /\
     loop_post (fun acc rest => Ok (acc ++ rest)) r len acc x r'.
Proof.
  induction fuel as [|f IH]; intros r len acc Hm Hok Hni; [lia|].
  cbn [take_read_to_end]. destruct (len =? 0) eqn:El.
  { apply N.eqb_eq in El. subst len. exists (Ok acc), r.
    split; [reflexivity|]. split; [reflexivity|]. split; [apply suffix_refl|]. split; [lia|].
    right. split. { intros k kind Hf. apply Hok in Hf. tauto. }
    left. rewrite take_0, app_nil_r, drop_0. split; [lia|]. split; reflexivity. }
  apply N.eqb_neq in El. destruct (fails_now r) as [kind|] eqn:Ef.
  { destruct (rd_read_fail r len kind Ef) as (s' & Hs & Hr). rewrite Hr.
    apply fails_now_some in Ef. destruct (Hok _ _ Ef) as [Hk _].
    eexists (Err kind), _. split.
    { reflexivity. }
    cbn [rd_fail rd_sched rd_calls rd_rest]. split; [reflexivity|]. split; [exact Hs|]. split; [lia|].
    left. exists (rd_calls HO r), kind. split; [exact Ef|]. split; reflexivity. }
  pose proof (fails_now_none r Ef Hok) as Hnf.
  assert (Hlen : 0 < len) by lia.
  pose proof (rd_read_nofail r len Hlen Ef) as Hro.
  remember (rd_read HO r len) as o eqn:Eo. destruct Hro as [s' Hs | j s' Hj Hs].
  - exfalso. apply (Hni EIntr); [|reflexivity]. eapply suffix_In; [exact Hs | now left].
  - pose proof (suffix_length _ _ Hs) as Hl.
    rewrite blen_take. remember (rd_rest HO r) as rest eqn:Erest.
    destruct (N.min j (blen rest) =? 0) eqn:E0.
    { apply N.eqb_eq in E0. eexists (Ok acc), _. split; [reflexivity|].
      cbn [rd_fail rd_sched rd_calls rd_rest]. split; [reflexivity|]. split; [exact Hs|]. split; [lia|].
      right. split. { intros k kind Hfk. apply Hnf in Hfk. tauto. }
      right. rewrite <- Erest. split; [lia|]. rewrite (blen_0_nil rest) by lia. now rewrite app_nil_r. }
    apply N.eqb_neq in E0.
    destruct (IH (mkRd HO (drop j rest) s' (rd_calls HO r + 1) (rd_fail HO r)) (len - N.min j (blen rest)) (acc ++ take j rest))
      as (x & r' & He & Hf & Hsf & Hc & Hp).
    { cbn [rd_sched]. lia. }
    { intros k kind Hfk. cbn [rd_fail rd_calls] in *. apply Hnf in Hfk. exact Hfk. }
    { intros e He. cbn [rd_sched] in He. apply Hni. eapply suffix_In; eassumption. }
    exists x, r'. split; [exact He|]. cbn [rd_fail rd_sched rd_calls rd_rest] in *.
    split; [exact Hf|]. split; [eapply suffix_trans; [exact Hsf | exact Hs]|]. split; [lia|].
    unfold loop_post in *. cbn [rd_fail rd_sched rd_calls rd_rest] in *. rewrite <- Erest.
    rewrite blen_drop in Hp.
    destruct Hp as [Hp | (Hb & [(Hle & Hx & Hr) | (Hlt & Hx)])].
    + left. exact Hp.
    + right. split; [exact Hb|]. left.
      assert (Hjr : j <= blen rest) by lia. rewrite N.min_l in * by exact Hjr.
      split; [lia|]. split.
      * rewrite Hx, <- app_assoc, <- take_add. replace (j + (len - j)) with len by lia. reflexivity.
      * rewrite Hr, <- drop_add. replace (j + (len - j)) with len by lia. reflexivity.
    + right. split; [exact Hb|]. right. split; [lia|].
      rewrite Hx, <- app_assoc. unfold Hash.take, Hash.drop. now rewrite firstn_skipn.
Qed.

(* tokio's read_exact is std's without the Interrupted retry *)
Lemma read_exact_tokio_std : forall fuel r len acc, fail_ok r -> no_intr r ->
  read_exact_tokio HO fuel r len acc = read_exact_std HO fuel r len acc.
Proof.
  induction fuel as [|f IH]; intros r len acc Hok Hni; [reflexivity|].
  cbn [read_exact_tokio read_exact_std]. destruct (len =? 0) eqn:El; [reflexivity|].
  apply N.eqb_neq in El. destruct (fails_now r) as [kind|] eqn:Ef.
  { destruct (rd_read_fail r len kind Ef) as (s' & Hs & Hr). rewrite Hr.
    apply fails_now_some in Ef. destruct (Hok _ _ Ef) as [Hk _].
    destruct kind; try reflexivity. now elim Hk. }
  pose proof (fails_now_none r Ef Hok) as Hnf.
  assert (Hlen : 0 < len) by lia.
  pose proof (rd_read_nofail r len Hlen Ef) as Hro.
  remember (rd_read HO r len) as o eqn:Eo. destruct Hro as [s' Hs | j s' Hj Hs].
  - exfalso. apply (Hni EIntr); [|reflexivity]. eapply suffix_In; [exact Hs | now left].
  - destruct (blen (take j (rd_rest HO r)) =? 0); [reflexivity|]. apply IH.
    + intros k kind Hfk. cbn [rd_fail rd_calls] in *. apply Hnf in Hfk. exact Hfk.
    + intros e He. cbn [rd_sched] in He. apply Hni. eapply suffix_In; eassumption.
Qed.

(* ---- the three exact reads share one specification ---- *)
Definition exact_spec (f : reader -> N -> res io_kind bytes * reader) (r : reader) (len : N) : Prop :=
  exists x r', f r len = (x, r') /\ rd_fail HO r' = rd_fail HO r /\
     suffix (rd_sched HO r') (rd_sched HO r) /\ rd_calls HO r <= rd_calls HO r' /\
     loop_post (fun _ _ => Err KUnexpectedEof) r len [] x r'.

Lemma read_exact_sync_spec r len : fail_ok r -> exact_spec (read_exact_sync HO) r len.
Proof. intros Hok. unfold exact_spec, read_exact_sync, rx_fuel. apply read_exact_std_spec; [lia | exact Hok]. Qed.

Lemma tokio_read_n_spec r len : fail_ok r -> no_intr r -> exact_spec (tokio_read_n HO) r len.
Proof.
  intros Hok Hni. unfold exact_spec, tokio_read_n, rx_fuel. rewrite read_exact_tokio_std by assumption.
  apply read_exact_std_spec; [lia | exact Hok].
Qed.

Lemma tokio_read_bytes_exact_spec r len : fail_ok r -> no_intr r -> exact_spec (tokio_read_bytes_exact HO) r len.
Proof.
  intros Hok Hni. unfold exact_spec, tokio_read_bytes_exact, rx_fuel.
  destruct (take_read_to_end_spec (S (N.to_nat len + length (rd_sched HO r))) r len [] ltac:(lia) Hok Hni)
    as (x & r' & He & Hf & Hs & Hc & Hp).
  rewrite He. destruct Hp as [(k & kind & Hfk & Hx & Hck) | (Hb & [(Hle & Hx & Hr) | (Hlt & Hx)])]; subst x.
  - exists (Err kind), r'. repeat (split; [first [reflexivity | assumption]|]). left. now exists k, kind.
  - cbn [app]. rewrite blen_take. replace (N.min len (blen (rd_rest HO r)) <? len) with false
      by (symmetry; apply N.ltb_ge; lia).
    eexists _, r'. repeat (split; [first [reflexivity | assumption]|]). right. split; [exact Hb|]. left. now repeat split.
  - cbn [app]. replace (blen (rd_rest HO r) <? len) with true by (symmetry; apply N.ltb_lt; lia).
    eexists _, r'. repeat (split; [first [reflexivity | assumption]|]). right. split; [exact Hb|]. right. now split.
Qed.

Lemma fail_ok_none r : rd_fail HO r = None -> fail_ok r.
Proof. intros H k kind Hf. congruence. Qed.

Lemma exact_spec_enough f r len : exact_spec f r len -> rd_fail HO r = None -> len <= blen (rd_rest HO r) ->
  exists r', f r len = (Ok (take len (rd_rest HO r)), r') /\ rd_rest HO r' = drop len (rd_rest HO r) /\
     rd_fail HO r' = None /\ suffix (rd_sched HO r') (rd_sched HO r).
Proof.
  intros (x & r' & He & Hf & Hs & Hc & Hp) Hn Hle. exists r'.
  destruct Hp as [(k & kind & Hfk & _) | (_ & [(_ & Hx & Hr) | (Hlt & _)])]; [congruence | | lia].
  subst x. cbn [app] in He. repeat split; [exact He | exact Hr | congruence | exact Hs].
Qed.
Lemma exact_spec_short f r len : exact_spec f r len -> rd_fail HO r = None -> blen (rd_rest HO r) < len ->
  exists r', f r len = (Err KUnexpectedEof, r') /\ rd_fail HO r' = None /\ suffix (rd_sched HO r') (rd_sched HO r).
Proof.
  intros (x & r' & He & Hf & Hs & Hc & Hp) Hn Hlt. exists r'.
  destruct Hp as [(k & kind & Hfk & _) | (_ & [(Hle & _) | (_ & Hx)])]; [congruence | lia |].
  subst x. repeat split; [exact He | congruence | exact Hs].
Qed.
Lemma exact_spec_fault f r len k kind : exact_spec f r len -> rd_fail HO r = Some (k, kind) ->
  exists x r', f r len = (x, r') /\
    ((x = Err kind /\ rd_calls HO r' = k + 1) \/
     (rd_calls HO r' <= k /\
      ((len <= blen (rd_rest HO r) /\ x = Ok (take len (rd_rest HO r)) /\ rd_rest HO r' = drop len (rd_rest HO r)) \/
       (blen (rd_rest HO r) < len /\ x = Err KUnexpectedEof)))).
Proof.
  intros (x & r' & He & Hf & Hs & Hc & Hp) Hfk. exists x, r'. split; [exact He|].
  destruct Hp as [(k' & kind' & Hfk' & Hx & Hck) | (Hb & Hp)].
  - left. rewrite Hfk in Hfk'. injection Hfk' as <- <-. now split.
  - right. split; [now apply (Hb k kind)|]. exact Hp.
Qed.

(* C11.1 *)
Theorem read_exact_sync_enough r len : rd_fail HO r = None -> len <= blen (rd_rest HO r) ->
  exists r', read_exact_sync HO r len = (Ok (take len (rd_rest HO r)), r') /\ rd_rest HO r' = drop len (rd_rest HO r) /\
     rd_fail HO r' = None /\ suffix (rd_sched HO r') (rd_sched HO r).
Proof. intros Hn. apply exact_spec_enough; [apply read_exact_sync_spec, fail_ok_none, Hn | exact Hn]. Qed.
Theorem read_exact_sync_short r len : rd_fail HO r = None -> blen (rd_rest HO r) < len ->
  exists r', read_exact_sync HO r len = (Err KUnexpectedEof, r') /\ rd_fail HO r' = None /\ suffix (rd_sched HO r') (rd_sched HO r).
Proof. intros Hn. apply exact_spec_short; [apply read_exact_sync_spec, fail_ok_none, Hn | exact Hn]. Qed.
Theorem read_exact_sync_plain r len : rd_fail HO r = None ->
  fst (read_exact_sync HO r len) = fst (read_exact_sync HO (plain_reader HO (rd_rest HO r)) len).
Proof.
  intros Hn. destruct (N.le_gt_cases len (blen (rd_rest HO r))) as [H|H].
  - destruct (read_exact_sync_enough r len Hn H) as (r1 & E1 & _).
    destruct (read_exact_sync_enough (plain_reader HO (rd_rest HO r)) len eq_refl H) as (r2 & E2 & _).
    rewrite E1, E2. reflexivity.
  - destruct (read_exact_sync_short r len Hn H) as (r1 & E1 & _).
    destruct (read_exact_sync_short (plain_reader HO (rd_rest HO r)) len eq_refl H) as (r2 & E2 & _).
    rewrite E1, E2. reflexivity.
Qed.

(* C11.2 *)
Theorem tokio_read_n_enough r len : rd_fail HO r = None -> no_intr r -> len <= blen (rd_rest HO r) ->
  exists r', tokio_read_n HO r len = (Ok (take len (rd_rest HO r)), r') /\ rd_rest HO r' = drop len (rd_rest HO r) /\
     rd_fail HO r' = None /\ suffix (rd_sched HO r') (rd_sched HO r).
Proof. intros Hn Hi. apply exact_spec_enough; [apply tokio_read_n_spec; [apply fail_ok_none, Hn | exact Hi] | exact Hn]. Qed.
Theorem tokio_read_n_short r len : rd_fail HO r = None -> no_intr r -> blen (rd_rest HO r) < len ->
  exists r', tokio_read_n HO r len = (Err KUnexpectedEof, r') /\ rd_fail HO r' = None /\ suffix (rd_sched HO r') (rd_sched HO r).
Proof. intros Hn Hi. apply exact_spec_short; [apply tokio_read_n_spec; [apply fail_ok_none, Hn | exact Hi] | exact Hn]. Qed.
Theorem tokio_read_bytes_exact_enough r len : rd_fail HO r = None -> no_intr r -> len <= blen (rd_rest HO r) ->
  exists r', tokio_read_bytes_exact HO r len = (Ok (take len (rd_rest HO r)), r') /\ rd_rest HO r' = drop len (rd_rest HO r) /\
     rd_fail HO r' = None /\ suffix (rd_sched HO r') (rd_sched HO r).
Proof. intros Hn Hi. apply exact_spec_enough; [apply tokio_read_bytes_exact_spec; [apply fail_ok_none, Hn | exact Hi] | exact Hn]. Qed.
Theorem tokio_read_bytes_exact_short r len : rd_fail HO r = None -> no_intr r -> blen (rd_rest HO r) < len ->
  exists r', tokio_read_bytes_exact HO r len = (Err KUnexpectedEof, r') /\ rd_fail HO r' = None /\ suffix (rd_sched HO r') (rd_sched HO r).
Proof. intros Hn Hi. apply exact_spec_short; [apply tokio_read_bytes_exact_spec; [apply fail_ok_none, Hn | exact Hi] | exact Hn]. Qed.

(* C10.8 *)
Theorem read_exact_sync_fault r len k kind :
  rd_fail HO r = Some (k, kind) -> kind <> KInterrupted -> rd_calls HO r <= k ->
  exists x r', read_exact_sync HO r len = (x, r') /\
    ((x = Err kind /\ rd_calls HO r' = k + 1) \/
     (rd_calls HO r' <= k /\
      ((len <= blen (rd_rest HO r) /\ x = Ok (take len (rd_rest HO r)) /\ rd_rest HO r' = drop len (rd_rest HO r)) \/
       (blen (rd_rest HO r) < len /\ x = Err KUnexpectedEof)))).
Proof.
  intros Hf Hk Hc. apply exact_spec_fault; [|exact Hf]. apply read_exact_sync_spec.
  intros k' kind' Hf'. rewrite Hf in Hf'. injection Hf' as <- <-. now split.
Qed.

Theorem tokio_read_n_fault r len k kind :
  rd_fail HO r = Some (k, kind) -> kind <> KInterrupted -> rd_calls HO r <= k -> no_intr r ->
  exists x r', tokio_read_n HO r len = (x, r') /\
    ((x = Err kind /\ rd_calls HO r' = k + 1) \/
     (rd_calls HO r' <= k /\
      ((len <= blen (rd_rest HO r) /\ x = Ok (take len (rd_rest HO r)) /\ rd_rest HO r' = drop len (rd_rest HO r)) \/
       (blen (rd_rest HO r) < len /\ x = Err KUnexpectedEof)))).
Proof.
  intros Hf Hk Hc Hni. apply exact_spec_fault; [|exact Hf]. apply tokio_read_n_spec; [|exact Hni].
  intros k' kind' Hf'. rewrite Hf in Hf'. injection Hf' as <- <-. now split.
Qed.
Theorem tokio_read_bytes_exact_fault r len k kind :
  rd_fail HO r = Some (k, kind) -> kind <> KInterrupted -> rd_calls HO r <= k -> no_intr r ->
  exists x r', tokio_read_bytes_exact HO r len = (x, r') /\
    ((x = Err kind /\ rd_calls HO r' = k + 1) \/
     (rd_calls HO r' <= k /\
      ((len <= blen (rd_rest HO r) /\ x = Ok (take len (rd_rest HO r)) /\ rd_rest HO r' = drop len (rd_rest HO r)) \/
       (blen (rd_rest HO r) < len /\ x = Err KUnexpectedEof)))).
Proof.
  intros Hf Hk Hc Hni. apply exact_spec_fault; [|exact Hf]. apply tokio_read_bytes_exact_spec; [|exact Hni].
  intros k' kind' Hf'. rewrite Hf in Hf'. injection Hf' as <- <-. now split.
Qed.

(* a failure that is due at the next call surfaces at once *)
Theorem read_exact_sync_fault_now r len k kind :
  rd_fail HO r = Some (k, kind) -> kind <> KInterrupted -> rd_calls HO r = k -> 0 < len ->
  exists r', read_exact_sync HO r len = (Err kind, r') /\ rd_calls HO r' = k + 1 /\ rd_rest HO r' = rd_rest HO r.
Proof.
  intros Hf Hk Hc Hlen. unfold read_exact_sync, rx_fuel. cbn [read_exact_std].
  replace (len =? 0) with false by (symmetry; apply N.eqb_neq; lia).
  assert (Ef : fails_now r = Some kind).
  { unfold fails_now. rewrite Hf, Hc, N.eqb_refl. reflexivity. }
  destruct (rd_read_fail r len kind Ef) as (s' & _ & Hr). rewrite Hr.
  eexists. split; [destruct kind; try reflexivity; now elim Hk|].
  cbn [rd_calls rd_rest]. split; [now rewrite Hc | reflexivity].
Qed.

(* why `kind <> KInterrupted`: std's read_exact retries an Interrupted, injected or not *)
Theorem read_exact_sync_interrupted_fault_is_retried :
  read_exact_sync HO (mkRd HO [bzero HO] [EPending] 0 (Some (0, KInterrupted))) 1
  = (Ok [bzero HO], mkRd HO [] [] 2 (Some (0, KInterrupted))).
Proof. reflexivity. Qed.
(* ... and with no spare schedule event `rx_fuel` is one short for the retry (a model artefact: Panic) *)
Theorem read_exact_sync_interrupted_fault_fuel :
  read_exact_sync HO (mkRd HO [bzero HO] [] 0 (Some (0, KInterrupted))) 1
  = (Panic, mkRd HO [] [] 2 (Some (0, KInterrupted))).
Proof. reflexivity. Qed.

End ReadExact.
