(* C03 groundwork: next_pow2 halves, take/drop algebra, and the agreement of the two BLAKE3 tree
   recursions (chunk intervals of Spec/EncSpec.v vs byte lists of Model/Hash.v). *)
From BaoV Require Import Model.Sync Spec.EncSpec Proofs.NodeBits Proofs.RangeRound.
From Coq Require Import Lia Arith PeanoNat ZArith ZifyN ZifyNat ZifyBool.

(* ---- next_pow2 ---- *)
Lemma next_pow2_half n : 2 <= n ->
  exists j, next_pow2 n / 2 = 2 ^ j /\ 2 ^ j < n /\ n <= 2 ^ (j + 1).
Proof.
  intro Hn. unfold next_pow2. destruct n as [|p]; [lia|].
  pose proof (N.log2_spec (N.pos p) ltac:(lia)) as [Hlo Hhi].
  set (k := N.log2 (N.pos p)) in *.
  assert (Hk : 1 <= k).
  { destruct (N.eq_dec k 0) as [E|E]; [|lia]. rewrite E in Hhi. change (2 ^ N.succ 0) with 2 in Hhi. lia. }
  destruct (N.pos p =? 2 ^ k) eqn:E.
  - apply N.eqb_eq in E. exists (k - 1).
    assert (Hp : 2 ^ k = 2 * 2 ^ (k - 1)) by (apply pow2_pred; lia).
    pose proof (pow2_pos (k - 1)).
    replace (k - 1 + 1) with k by lia. rewrite E, Hp.
    rewrite N.mul_comm, N.div_mul by lia. lia.
  - apply N.eqb_neq in E. exists k. rewrite N.pow_succ_r'.
    rewrite N.mul_comm, N.div_mul by lia. rewrite N.add_1_r, N.pow_succ_r'.
    rewrite N.pow_succ_r' in Hhi. lia.
Qed.

Lemma pow2_le_of_lt j m : 2 ^ j < 2 ^ (m + 1) -> 2 ^ j <= 2 ^ m.
Proof.
  intro H. apply N.pow_le_mono_r; [lia|].
  apply N.pow_lt_mono_r_iff in H; lia.
Qed.

(* the facts about half used by every induction: m bounds the depth *)
Lemma half_facts n (m : nat) : 2 <= n -> n <= 2 ^ N.of_nat (S m) ->
  let half := next_pow2 n / 2 in
  1 <= half /\ half < n /\ n - half <= half /\ half <= 2 ^ N.of_nat m /\ (exists j, half = 2 ^ j).
Proof.
  intros Hn Hm half. destruct (next_pow2_half n Hn) as (j & Hj & Hlt & Hle).
  fold half in Hj. rewrite Hj. pose proof (pow2_pos j).
  rewrite pow2_succ in Hle.
  repeat split; try lia.
  - apply pow2_le_of_lt. replace (N.of_nat m + 1) with (N.of_nat (S m)) by lia. lia.
  - exists j. reflexivity.
Qed.

Lemma le1_pow0 n : n <= 2 ^ N.of_nat 0 -> n <= 1.
Proof. change (2 ^ N.of_nat 0) with 1. lia. Qed.

Section ObBase.
Variable HO : hops.
Notation bytes := (bytes HO).
Notation hash := (hash HO).
Notation blen := (blen HO).
Notation take := (take HO).
Notation drop := (drop HO).

(* ---- take / drop ---- *)
Lemma blen_take n (d : bytes) : blen (take n d) = N.min n (blen d).
Proof. unfold blen, take. rewrite firstn_length. lia. Qed.
Lemma blen_drop n (d : bytes) : blen (drop n d) = blen d - n.
Proof. unfold blen, drop. rewrite skipn_length. lia. Qed.
Lemma blen_app (a b : bytes) : blen (a ++ b) = blen a + blen b.
Proof. unfold blen. rewrite app_length. lia. Qed.
Lemma blen_nil : blen [] = 0.
Proof. reflexivity. Qed.
Lemma take_all n (d : bytes) : blen d <= n -> take n d = d.
Proof. unfold blen, take. intro H. apply firstn_all2. lia. Qed.
Lemma drop_all n (d : bytes) : blen d <= n -> drop n d = [].
Proof. unfold blen, drop. intro H. apply skipn_all2. lia. Qed.
Lemma drop_0 (d : bytes) : drop 0 d = d.
Proof. reflexivity. Qed.
Lemma take_take n m (d : bytes) : take n (take m d) = take (N.min n m) d.
Proof. unfold take. rewrite firstn_firstn. f_equal. lia. Qed.
Lemma skipn_add {A} (n m : nat) (l : list A) : skipn n (skipn m l) = skipn (m + n) l.
Proof.
  revert l. induction m as [|m IH]; intro l; [reflexivity|].
  destruct l as [|x l]; [now rewrite !skipn_nil|]. cbn [skipn Nat.add]. apply IH.
Qed.
Lemma drop_drop n m (d : bytes) : drop n (drop m d) = drop (m + n) d.
Proof. unfold drop. rewrite skipn_add. f_equal. lia. Qed.
Lemma drop_take n m (d : bytes) : drop n (take m d) = take (m - n) (drop n d).
Proof.
  unfold drop, take. destruct (N.le_gt_cases n m) as [H|H].
  - rewrite firstn_skipn_comm. do 2 f_equal. lia.
  - replace (N.to_nat (m - n)) with O by lia. cbn [firstn].
    apply skipn_all2. rewrite firstn_length. lia.
Qed.
Lemma take_eq n m (d : bytes) : N.min n (blen d) = N.min m (blen d) -> take n d = take m d.
Proof.
  intro H. destruct (N.le_gt_cases (blen d) n) as [Hn|Hn].
  - rewrite (take_all n) by assumption. symmetry. apply take_all. lia.
  - assert (n = m) by lia. now subst.
Qed.
Lemma take_app_drop n (d : bytes) : take n d ++ drop n d = d.
Proof. apply firstn_skipn. Qed.
Lemma take_app_exact (a b : bytes) : take (blen a) (a ++ b) = a.
Proof.
  unfold take, blen. rewrite Nat2N.id. rewrite firstn_app, Nat.sub_diag, firstn_all. cbn [firstn].
  apply app_nil_r.
Qed.
Lemma drop_app_exact (a b : bytes) : drop (blen a) (a ++ b) = b.
Proof.
  unfold drop, blen. rewrite Nat2N.id. rewrite skipn_app, Nat.sub_diag, skipn_all. reflexivity.
Qed.
Lemma take_app_le n (a b : bytes) : n <= blen a -> take n (a ++ b) = take n a.
Proof.
  unfold take, blen. intro H. rewrite firstn_app.
  replace (N.to_nat n - length a)%nat with O by lia. cbn [firstn]. apply app_nil_r.
Qed.
Lemma drop_app_le n (a b : bytes) : n <= blen a -> drop n (a ++ b) = drop n a ++ b.
Proof.
  unfold drop, blen. intro H. rewrite skipn_app.
  replace (N.to_nat n - length a)%nat with O by lia. reflexivity.
Qed.

(* ---- chunk arithmetic ---- *)
Lemma nchunks_spec size c : c < nchunks size <-> (c = 0 \/ c * 1024 < size).
Proof.
  unfold nchunks. rewrite chunks_eq.
  pose proof (cdiv_iff size 1024 c ltac:(lia)). lia.
Qed.
Lemma nchunks_pos size : 1 <= nchunks size.
Proof. unfold nchunks. lia. Qed.
Lemma nchunks_cover size : size <= nchunks size * 1024.
Proof.
  unfold nchunks. rewrite chunks_eq.
  pose proof (cdiv_mul_ge size 1024 ltac:(lia)). lia.
Qed.
Lemma nchunks_bound size : size <= 2 ^ 63 -> nchunks size <= 2 ^ 53.
Proof.
  intro H. destruct (N.le_gt_cases (nchunks size) (2 ^ 53)) as [L|L]; [assumption|].
  assert (H1 : 2 ^ 53 < nchunks size) by lia.
  apply nchunks_spec in H1. change (2 ^ 53 * 1024) with (2 ^ 63) in H1. change (2 ^ 53) with 9007199254740992 in H1.
  lia.
Qed.

Lemma blen_chunk_bytes data a b :
  blen (chunk_bytes HO data a b) = N.min ((b - a) * 1024) (blen data - a * 1024).
Proof. unfold chunk_bytes, slice. now rewrite blen_take, blen_drop. Qed.

Lemma chunk_bytes_left data a h b : a + h <= b ->
  take (h * 1024) (chunk_bytes HO data a b) = chunk_bytes HO data a (a + h).
Proof.
  intro H. unfold chunk_bytes, slice. rewrite take_take. f_equal. lia.
Qed.
Lemma chunk_bytes_right data a h b : a + h <= b ->
  drop (h * 1024) (chunk_bytes HO data a b) = chunk_bytes HO data (a + h) b.
Proof.
  intro H. unfold chunk_bytes, slice. rewrite drop_take, drop_drop. f_equal; [lia|]. f_equal. lia.
Qed.

(* ---- the two recursions agree ---- *)
Lemma cv_rec_subtree data : forall (m : nat) f1 f2 a b r,
  (m < f1)%nat -> (m < f2)%nat -> b - a <= 2 ^ N.of_nat m ->
  (b - a <= 1 \/ (b - 1) * 1024 < blen data) ->
  cv_rec HO f1 data a b r = subtree_cv HO f2 a (chunk_bytes HO data a b) r.
Proof.
  induction m as [|m IH]; intros f1 f2 a b r Hf1 Hf2 Hm Hin;
    (destruct f1 as [|f1]; [lia|]); (destruct f2 as [|f2]; [lia|]);
    cbn [cv_rec subtree_cv]; pose proof (blen_chunk_bytes data a b) as Hlen.
  - apply le1_pow0 in Hm.
    replace (b - a <=? 1) with true by lia.
    replace (blen (chunk_bytes HO data a b) <=? 1024) with true by lia. reflexivity.
  - destruct (b - a <=? 1) eqn:E1.
    + replace (blen (chunk_bytes HO data a b) <=? 1024) with true by lia. reflexivity.
    + assert (H2 : 2 <= b - a) by lia.
      assert (Hsz : (b - 1) * 1024 < blen data) by lia.
      replace (blen (chunk_bytes HO data a b) <=? 1024) with false by lia.
      assert (Hn : (blen (chunk_bytes HO data a b) + 1023) / 1024 = b - a).
      { apply div_iff; lia. }
      rewrite Hn.
      destruct (half_facts (b - a) m H2 Hm) as (Hh1 & Hh2 & Hh3 & Hh4 & _).
      set (half := next_pow2 (b - a) / 2) in *.
      rewrite chunk_bytes_left, chunk_bytes_right by lia.
      f_equal.
      * apply IH; try lia.
      * apply IH; try lia.
Qed.

Lemma cv_hash_subtree data a b r :
  b - a <= 2 ^ 63 -> (b - a <= 1 \/ (b - 1) * 1024 < blen data) ->
  cv HO data a b r = hash_subtree HO a (chunk_bytes HO data a b) r.
Proof.
  intros H1 H2. unfold cv, hash_subtree. apply (cv_rec_subtree data 63); try lia.
Qed.

Lemma cv_hash_subtree_inside data a b r :
  b <= blob_chunks HO data -> blen data <= 2 ^ 63 ->
  cv HO data a b r = hash_subtree HO a (chunk_bytes HO data a b) r.
Proof.
  intros Hb Hs. unfold blob_chunks in Hb. pose proof (nchunks_bound _ Hs).
  apply cv_hash_subtree.
  - change (2 ^ 53) with 9007199254740992 in *. change (2 ^ 63) with 9223372036854775808. lia.
  - destruct (N.le_gt_cases b 1) as [L|L]; [left; lia|right].
    assert (Hc : b - 1 < nchunks (blen data)) by lia.
    apply nchunks_spec in Hc. lia.
Qed.

Lemma chunk_bytes_whole data : chunk_bytes HO data 0 (blob_chunks HO data) = data.
Proof.
  unfold chunk_bytes, slice. rewrite drop_0. apply take_all.
  unfold blob_chunks. pose proof (nchunks_cover (blen data)). lia.
Qed.

Lemma root_is_blake3_tree data : blen data <= 2 ^ 63 ->
  root_hash HO data = hash_subtree HO 0 data true.
Proof.
  intro Hs. unfold root_hash. rewrite cv_hash_subtree_inside by (assumption || lia).
  now rewrite chunk_bytes_whole.
Qed.

End ObBase.
