(* The statements of C01 / C09 (decoder soundness, exactness, completeness) for the sync and fsm
   decoders over a plan tree, and their transport to dec_run / rd_run. *)
From BaoV Require Import Model.Fsm Spec.HashAssm Spec.PTree.
From BaoV Require Import Proofs.DecLoop Proofs.DecHash Proofs.DecForest Proofs.DecConst Proofs.DecRanges.
From Coq Require Import Lia Arith.

Local Arguments hash_subtree : simpl never.
Local Arguments parent_cv : simpl never.

Section Thm.
Variable HO : hops.
Notation bytes := (bytes HO).
Notation hash := (hash HO).
Notation item := (item HO).
Notation ptree := (ptree HO).
Hypothesis HOK : hash_ok HO.

(* ---------- the plan and the honest items run in parallel ---------- *)
Definition names_item (c : chunk) (it : item) : Prop :=
  match c, it with
  | CParent node _ _ _ _, IParent node' _ _ => node = node'
  | CLeaf start size _ _, ILeaf off d => off = to_bytes start /\ size = blen HO d
  | _, _ => False
  end.

Lemma plan_items_match : forall T : ptree, Forall2 names_item (plan_of HO T) (items_of HO T).
Proof.
  induction T; cbn [plan_of items_of].
  - constructor.
  - constructor; [cbn; auto|constructor].
  - constructor; [reflexivity|]. apply Forall2_app; assumption.
Qed.

Lemma item_named : forall (T : ptree) d,
  (d < length (flat_items HO (items_of HO T)))%nat ->
  exists c it, nth_error (plan_of HO T) (item_at HO (items_of HO T) d) = Some c /\
               nth_error (items_of HO T) (item_at HO (items_of HO T) d) = Some it /\
               names_item c it.
Proof.
  intros T d Hd. destruct (item_at_bounds HO _ _ Hd) as (_ & _ & Hk).
  set (k := item_at HO (items_of HO T) d) in *.
  pose proof (plan_items_match T) as HF.
  assert (Hlen : length (plan_of HO T) = length (items_of HO T)) by (clear - HF; induction HF; cbn; congruence).
  destruct (nth_error (items_of HO T) k) as [it|] eqn:Ei; [|apply nth_error_None in Ei; lia].
  destruct (nth_error (plan_of HO T) k) as [c|] eqn:Ec; [|apply nth_error_None in Ec; lia].
  exists c, it. split; [reflexivity|split; [reflexivity|]].
  clearbody k. clear - HF Ei Ec. revert k Ei Ec. induction HF; intros k Ei Ec; destruct k; cbn in *; try discriminate.
  - injection Ei as <-. injection Ec as <-. assumption.
  - eapply IHHF; eauto.
Qed.

Lemma chunk_err_kind : forall short c,
  dec_err_kind (chunk_err short c) = if short then KUnexpectedEof else KInvalidData.
Proof. intros [] []; reflexivity. Qed.

Lemma chunk_err_names : forall node start size ir lf rt rs,
  chunk_err true (CParent node ir lf rt rs) = DParentNotFound node /\
  chunk_err false (CParent node ir lf rt rs) = DParentHashMismatch node /\
  chunk_err true (CLeaf start size ir rs) = DLeafNotFound start /\
  chunk_err false (CLeaf start size ir rs) = DLeafHashMismatch start.
Proof. intros. repeat split. Qed.

Lemma dec_err_kind_cases : forall n c k,
  dec_err_kind (DParentNotFound n) = KUnexpectedEof /\
  dec_err_kind (DLeafNotFound c) = KUnexpectedEof /\
  dec_err_kind (DParentHashMismatch n) = KInvalidData /\
  dec_err_kind (DLeafHashMismatch c) = KInvalidData /\
  dec_err_kind (DIo k) = k.
Proof. intros. repeat split. Qed.

(* ---------- (a) soundness ---------- *)
Definition sound_stmt (T : ptree) (stream : bytes) (ys : list item) (o : outcome) (rest : bytes) : Prop :=
  is_prefix ys (items_of HO T) /\
  (o = Finished -> ys = items_of HO T /\ stream = flat_items HO (items_of HO T) ++ rest) /\
  (forall e, o = Failed e ->
     ~ is_prefix (flat_items HO (firstn (length ys + 1) (items_of HO T))) stream) /\
  o <> Panicked /\ o <> OutOfFuel.

Lemma sync_sound : forall (T : ptree) (stream : bytes), consistent HO T -> leaves_ok HO T ->
  let r := dec_items_sync HO (plan_of HO T) [cv_of HO T] stream in
  sound_stmt T stream (r_items HO r) (r_outcome HO r) (r_enc HO r).
Proof.
  intros T stream Hc Hl. apply (spec_sound HO (plan_of HO T)).
  apply (tree_run HO _ (step_sync_spec HO HOK)). split; assumption.
Qed.

Lemma fsm_sound : forall (T : ptree) (stream : bytes), consistent HO T -> leaves_ok HO T ->
  let r := dec_items_fsm HO (plan_of HO T) [cv_of HO T] stream in
  sound_stmt T stream (r_items HO r) (r_outcome HO r) (r_enc HO r).
Proof.
  intros T stream Hc Hl. apply (spec_sound HO (plan_of HO T)).
  apply (tree_run HO _ (step_fsm_spec HO HOK)). split; assumption.
Qed.

(* ---------- (c) completeness ---------- *)
Lemma both_complete : forall (T : ptree) (rest : bytes), consistent HO T -> leaves_ok HO T ->
  let stream := flat_items HO (items_of HO T) ++ rest in
  let r1 := dec_items_sync HO (plan_of HO T) [cv_of HO T] stream in
  let r2 := dec_items_fsm HO (plan_of HO T) [cv_of HO T] stream in
  (r_items HO r1 = items_of HO T /\ r_outcome HO r1 = Finished /\ r_enc HO r1 = rest) /\
  (r_items HO r2 = items_of HO T /\ r_outcome HO r2 = Finished /\ r_enc HO r2 = rest).
Proof.
  intros T rest Hc Hl. split; apply (spec_complete HO (plan_of HO T)).
  - apply (tree_run HO _ (step_sync_spec HO HOK)). split; assumption.
  - apply (tree_run HO _ (step_fsm_spec HO HOK)). split; assumption.
Qed.

(* ---------- (b) exactness ---------- *)
Lemma both_exact : forall (T : ptree) (stream : bytes) d c, consistent HO T -> leaves_ok HO T ->
  let honest := flat_items HO (items_of HO T) in
  let k := item_at HO (items_of HO T) d in
  lcp_len HO stream honest d -> (d < length honest)%nat ->
  nth_error (plan_of HO T) k = Some c ->
  let short := (length stream <? length (flat_items HO (firstn (S k) (items_of HO T))))%nat in
  let r1 := dec_items_sync HO (plan_of HO T) [cv_of HO T] stream in
  let r2 := dec_items_fsm HO (plan_of HO T) [cv_of HO T] stream in
  (r_items HO r1 = firstn k (items_of HO T) /\ r_outcome HO r1 = Failed (chunk_err short c)) /\
  (r_items HO r2 = firstn k (items_of HO T) /\ r_outcome HO r2 = Failed (chunk_err short c)).
Proof.
  intros T stream d c Hc Hl honest k Hlcp Hd Hn short r1 r2.
  split; apply (spec_exact HO (plan_of HO T) (items_of HO T) stream _ d c); auto.
  - apply (tree_run HO _ (step_sync_spec HO HOK)). split; assumption.
  - apply (tree_run HO _ (step_fsm_spec HO HOK)). split; assumption.
Qed.

Lemma both_truncation : forall (T : ptree) p c, consistent HO T -> leaves_ok HO T ->
  let honest := flat_items HO (items_of HO T) in
  let k := item_at HO (items_of HO T) p in
  (p < length honest)%nat -> nth_error (plan_of HO T) k = Some c ->
  let stream := firstn p honest in
  let r1 := dec_items_sync HO (plan_of HO T) [cv_of HO T] stream in
  let r2 := dec_items_fsm HO (plan_of HO T) [cv_of HO T] stream in
  (r_items HO r1 = firstn k (items_of HO T) /\ r_outcome HO r1 = Failed (chunk_err true c)) /\
  (r_items HO r2 = firstn k (items_of HO T) /\ r_outcome HO r2 = Failed (chunk_err true c)).
Proof.
  intros T p c Hc Hl honest k Hp Hn stream r1 r2.
  pose proof (both_exact T stream p c Hc Hl (lcp_truncation HO honest p Hp) Hp Hn) as H.
  cbv zeta in H.
  replace (length stream <? length (flat_items HO (firstn (S (item_at HO (items_of HO T) p)) (items_of HO T))))%nat
    with true in H; [exact H|].
  symmetry. apply Nat.ltb_lt. destruct (item_at_bounds HO _ _ Hp) as (_ & Hb & _).
  unfold stream. rewrite firstn_length. fold honest. lia.
Qed.

Lemma both_alteration : forall (T : ptree) p b b' c, consistent HO T -> leaves_ok HO T ->
  let honest := flat_items HO (items_of HO T) in
  let k := item_at HO (items_of HO T) p in
  nth_error honest p = Some b -> b' <> b -> nth_error (plan_of HO T) k = Some c ->
  let stream := firstn p honest ++ b' :: skipn (S p) honest in
  let r1 := dec_items_sync HO (plan_of HO T) [cv_of HO T] stream in
  let r2 := dec_items_fsm HO (plan_of HO T) [cv_of HO T] stream in
  (r_items HO r1 = firstn k (items_of HO T) /\ r_outcome HO r1 = Failed (chunk_err false c)) /\
  (r_items HO r2 = firstn k (items_of HO T) /\ r_outcome HO r2 = Failed (chunk_err false c)).
Proof.
  intros T p b b' c Hc Hl honest k Hb Hne Hn stream r1 r2.
  assert (Hp : (p < length honest)%nat) by (apply nth_error_Some; congruence).
  destruct (lcp_alteration HO honest p b b' Hb Hne) as [Hlcp Hlen].
  pose proof (both_exact T stream p c Hc Hl Hlcp Hp Hn) as H.
  cbv zeta in H.
  replace (length stream <? length (flat_items HO (firstn (S (item_at HO (items_of HO T) p)) (items_of HO T))))%nat
    with false in H; [exact H|].
  symmetry. apply Nat.ltb_ge. unfold stream. rewrite Hlen. unfold honest.
  assert (E : flat_items HO (items_of HO T) =
              flat_items HO (firstn (S (item_at HO (items_of HO T) p)) (items_of HO T)) ++
              flat_items HO (skipn (S (item_at HO (items_of HO T) p)) (items_of HO T)))
    by (rewrite <- flat_items_app, firstn_skipn; reflexivity).
  apply (f_equal (@length _)) in E. rewrite app_length in E. lia.
Qed.

(* ---------- transport to dec_run / rd_run ---------- *)
Lemma dec_run_refines : forall n it stk enc,
  ends_within response_next it n -> (N.of_nat n < 2 ^ 64)%N ->
  let r := dec_items_sync HO (run_iter response_next it) stk enc in
  dec_run HO (mkD HO it stk enc) =
  (r_items HO r, r_outcome HO r,
   mkD HO (iter_skip response_next (consumed HO r) it) (r_stack HO r) (r_enc HO r)).
Proof. intros. apply (dec_run_unroll HO n); auto. apply loop_bound_of_N. assumption. Qed.

Lemma rd_run_refines : forall n it stk enc root,
  ends_within response_next it n -> (N.of_nat n < 2 ^ 64)%N ->
  let r := dec_items_fsm HO (run_iter response_next it) stk enc in
  rd_run HO (mkR HO it stk enc root) =
  (r_items HO r, r_outcome HO r,
   mkR HO (iter_skip response_next (consumed HO r) it) (r_stack HO r) (r_enc HO r) root).
Proof. intros. apply (rd_run_unroll HO n); auto. apply loop_bound_of_N. assumption. Qed.

(* with a plan iterator that yields plan_of T, the state machines are the plan decoders *)
Lemma sync_run_as_plan : forall (T : ptree) (stream : bytes) it n ys o st',
  run_iter response_next it = plan_of HO T ->
  ends_within response_next it n -> (N.of_nat n < 2 ^ 64)%N ->
  dec_run HO (mkD HO it [cv_of HO T] stream) = (ys, o, st') ->
  let r := dec_items_sync HO (plan_of HO T) [cv_of HO T] stream in
  ys = r_items HO r /\ o = r_outcome HO r /\ d_enc HO st' = r_enc HO r /\ d_stack HO st' = r_stack HO r.
Proof.
  intros T stream it n ys o st' Hp He Hn Hrun.
  rewrite (dec_run_refines n) in Hrun by assumption. rewrite Hp in Hrun.
  injection Hrun as <- <- <-. cbn. auto.
Qed.

Lemma fsm_run_as_plan : forall (T : ptree) (stream : bytes) it n root ys o st',
  run_iter response_next it = plan_of HO T ->
  ends_within response_next it n -> (N.of_nat n < 2 ^ 64)%N ->
  rd_run HO (mkR HO it [cv_of HO T] stream root) = (ys, o, st') ->
  let r := dec_items_fsm HO (plan_of HO T) [cv_of HO T] stream in
  ys = r_items HO r /\ o = r_outcome HO r /\ Fsm.r_enc HO st' = r_enc HO r /\
  Fsm.r_stack HO st' = r_stack HO r /\ r_root HO st' = root.
Proof.
  intros T stream it n root ys o st' Hp He Hn Hrun.
  rewrite (rd_run_refines n) in Hrun by assumption. rewrite Hp in Hrun.
  injection Hrun as <- <- <-. cbn. auto.
Qed.

Lemma sync_sound_run : forall (T : ptree) (stream : bytes) it n ys o st',
  consistent HO T -> leaves_ok HO T ->
  run_iter response_next it = plan_of HO T ->
  ends_within response_next it n -> (N.of_nat n < 2 ^ 64)%N ->
  dec_run HO (mkD HO it [cv_of HO T] stream) = (ys, o, st') ->
  sound_stmt T stream ys o (d_enc HO st').
Proof.
  intros T stream it n ys o st' Hc Hl Hp He Hn Hrun.
  rewrite (dec_run_refines n) in Hrun by assumption. rewrite Hp in Hrun.
  injection Hrun as <- <- <-. cbn [d_enc]. apply sync_sound; assumption.
Qed.

Lemma fsm_sound_run : forall (T : ptree) (stream : bytes) it n root ys o st',
  consistent HO T -> leaves_ok HO T ->
  run_iter response_next it = plan_of HO T ->
  ends_within response_next it n -> (N.of_nat n < 2 ^ 64)%N ->
  rd_run HO (mkR HO it [cv_of HO T] stream root) = (ys, o, st') ->
  sound_stmt T stream ys o (Fsm.r_enc HO st').
Proof.
  intros T stream it n root ys o st' Hc Hl Hp He Hn Hrun.
  rewrite (rd_run_refines n) in Hrun by assumption. rewrite Hp in Hrun.
  injection Hrun as <- <- <-. cbn [Fsm.r_enc]. apply fsm_sound; assumption.
Qed.

End Thm.
