(* Gap audit (C02 / C07), part 1: the items of the honest encoding.
   - every parent item names a node that either stores a pair (a persisted node of the Shape: pnode) or lies
     below the block level (every outboard ignores it);
   - the leaf items are disjoint runs of chunks in strictly increasing order inside [0, nchunks): with
     C07_delivered_honest, every selected chunk lies in exactly one leaf item and no other chunk in any;
   - the exact frame of apply_items on a pre-sized store: after applying a list of items whose parents carry the
     true pairs, the slot of a persisted node holds the true pair if the node was saved and is untouched otherwise. *)
From BaoV Require Import Model.Fsm Spec.RangeSpec Spec.PlanSpec Spec.PlanWf Spec.NodeSpec Spec.EncSpec Spec.HashAssm.
From BaoV Require Import Proofs.NodeBits Proofs.PlanBase Proofs.BridgeBase Proofs.BridgeTree Proofs.BridgeLeaves
  Proofs.DecForest Proofs.DecRanges Proofs.EncNodes Proofs.EncThm Proofs.FinalEnc Proofs.ValSpec Proofs.HistOb Proofs.HistEnc
  Proofs.E2EDownload Proofs.GapPairs.
From Coq Require Import Lia Arith ZArith.
Open Scope N_scope.
Arguments N.add : simpl never.
Arguments N.sub : simpl never.
Arguments N.mul : simpl never.
Arguments N.pow : simpl never.
Arguments N.div : simpl never.
Arguments N.modulo : simpl never.
Arguments N.min : simpl never.
Arguments N.max : simpl never.

(* ---------- the level of the parent of an aligned interval ---------- *)
Lemma aligned_parent_level n a b : aligned n a b -> 2 <= b - a ->
  exists i, next_pow2 (b - a) = 2 ^ (i + 1) /\ next_pow2 (b - a) / 2 = 2 ^ i /\
            level (a + next_pow2 (b - a) / 2 - 1) = i /\ 2 ^ i < b - a.
Proof.
  intros (Hab & Hbn & j & k & Ej & Ea & Eb) H2.
  destruct (np2_half (b - a) H2) as (i & E1 & Eh & K1 & K2).
  exists i. split; [exact E1|]. split; [exact Eh|]. split; [|exact K1].
  rewrite Eh. assert (Eji : 2 ^ j = 2 ^ (i + 1)) by congruence.
  pose proof (pow2_ge1 i) as Pi. rewrite pow2_succ in Eji.
  apply (decomp_unique (a + 2 ^ i - 1) i k). rewrite Ea, Eji. lia.
Qed.

Section Class.
Variable HO : hops.
Notation bytes := (bytes HO).
Notation item := (item HO).
Variable data : bytes.
Variable bs : N.
Variable S0 : N -> bool.
Local Notation nn := (blob_chunks HO data).

(* inside an interval of at most one chunk group every parent lies below the block level *)
Lemma small_rec_level : forall f a b, aligned nn a b -> b - a <= 2 ^ bs ->
  forall nd l r, In (IParent nd l r) (enc_rec HO f data bs S0 a b) -> level nd < bs.
Proof.
  induction f as [|f IH]; intros a b Hal Hsm nd l r Hin; [contradiction|].
  rewrite enc_rec_unfold in Hin.
  destruct (negb (existsb S0 (chunk_range_list a b))); [contradiction|].
  destruct (b - a <=? 1) eqn:E1; [destruct Hin as [Hd|[]]; discriminate|].
  destruct (forallb S0 (chunk_range_list a b) && (next_pow2 (b - a) <=? 2 ^ bs));
    [destruct Hin as [Hd|[]]; discriminate|].
  apply N.leb_gt in E1.
  destruct (aligned_children _ a b Hal ltac:(lia)) as (AL & AR & _).
  destruct (aligned_parent_level _ a b Hal ltac:(lia)) as (i & Ei & Eh & Lv & Hi).
  pose proof (pow2_ge1 i) as Pi.
  assert (Hcap : next_pow2 (b - a) <= 2 ^ bs) by now apply np2_le.
  assert (Hib : i < bs) by (rewrite Ei in Hcap; apply pow2_le_inv in Hcap; lia).
  assert (Hle : b - a <= 2 ^ (i + 1)).
  { destruct (np2_spec (b - a) ltac:(lia)) as (k & Ek & K1 & _). rewrite <- Ei, Ek. exact K1. }
  rewrite pow2_succ in Hle.
  cbv zeta in AL, AR. rewrite Eh in AL, AR, Hin.
  destruct Hin as [Hd|Hin].
  - injection Hd as <- _ _. rewrite <- Eh, Lv. exact Hib.
  - apply in_app_or in Hin. destruct Hin as [Hin|Hin].
    + apply (IH _ _ AL ltac:(lia) _ _ _ Hin).
    + apply (IH _ _ AR ltac:(lia) _ _ _ Hin).
Qed.

(* a parent of the honest encoding is a parent of the encoder's plan (nspec) or lies below the block level *)
Lemma class_rec : forall f a b, aligned nn a b ->
  forall nd l r, In (IParent nd l r) (enc_rec HO f data bs S0 a b) ->
  In nd (nspec f bs S0 a b) \/ level nd < bs.
Proof.
  induction f as [|f IH]; intros a b Hal nd l r Hin; [contradiction|].
  destruct (N.leb_spec (b - a) (2 ^ bs)) as [Hsm|Hbig].
  { right. exact (small_rec_level (S f) a b Hal Hsm nd l r Hin). }
  rewrite enc_rec_unfold in Hin. rewrite nspec_eq.
  replace (b - a <=? 2 ^ bs) with false by (symmetry; apply N.leb_gt; exact Hbig).
  destruct (negb (existsb S0 (chunk_range_list a b))); [contradiction|].
  destruct (b - a <=? 1) eqn:E1; [destruct Hin as [Hd|[]]; discriminate|].
  destruct (forallb S0 (chunk_range_list a b) && (next_pow2 (b - a) <=? 2 ^ bs));
    [destruct Hin as [Hd|[]]; discriminate|].
  apply N.leb_gt in E1.
  destruct (aligned_children _ a b Hal ltac:(lia)) as (AL & AR & _). cbv zeta in AL, AR.
  destruct Hin as [Hd|Hin].
  - injection Hd as <- _ _. left. now left.
  - apply in_app_or in Hin. destruct Hin as [Hin|Hin].
    + destruct (IH _ _ AL _ _ _ Hin) as [H|H]; [left; right; apply in_or_app; now left|now right].
    + destruct (IH _ _ AR _ _ _ Hin) as [H|H]; [left; right; apply in_or_app; now right|now right].
Qed.
End Class.

Theorem honest_parent_class : forall (HO : hops) (data : bytes HO) (bs : N) (q : ranges),
  wf_ranges q = true -> blen HO data <= 2 ^ 63 -> bs <= 10 ->
  forall nd l r, In (IParent nd l r) (honest HO data bs q) ->
  pnode (blen HO data) bs nd \/ level nd < bs.
Proof.
  intros HO data bs q Hwf Hsize Hbs nd l r Hin. rewrite honest_unfold in Hin.
  assert (A : aligned (blob_chunks HO data) 0 (blob_chunks HO data)).
  { apply aligned_root. unfold blob_chunks, nchunks. lia. }
  destruct (class_rec HO data bs (sel q (blen HO data)) 64 0 (blob_chunks HO data) A nd l r Hin) as [H|H]; [left|now right].
  apply (enc_nodes_pnode (blen HO data) bs Hsize Hbs q Hwf).
  rewrite (enc_nodes_spec HO data bs q Hwf Hsize Hbs). exact H.
Qed.

(* ---------- the leaves: disjoint runs in increasing order ---------- *)
Section Runs.
Variable HO : hops.
Notation bytes := (bytes HO).
Notation item := (item HO).

(* the chunk runs [first chunk, one past the last chunk) of the leaf items of a list, in order *)
Fixpoint leaf_runs (ys : list item) : list (N * N) :=
  match ys with
  | [] => []
  | ILeaf off d :: r => (off / 1024, off / 1024 + leaf_chunks (blen HO d)) :: leaf_runs r
  | IParent _ _ _ :: r => leaf_runs r
  end.

(* lo <= s1 < e1 <= s2 < e2 <= ... <= hi *)
Fixpoint runs_sorted (lo : N) (l : list (N * N)) (hi : N) : Prop :=
  match l with
  | [] => lo <= hi
  | (s, e) :: r => lo <= s /\ s < e /\ runs_sorted e r hi
  end.

Lemma leaf_runs_app ys1 ys2 : leaf_runs (ys1 ++ ys2) = leaf_runs ys1 ++ leaf_runs ys2.
Proof.
  induction ys1 as [|[nd l r|off d] ys1 IH]; cbn [leaf_runs app]; [reflexivity|exact IH|now rewrite IH].
Qed.

Lemma runs_sorted_app : forall l1 lo m l2 hi, runs_sorted lo l1 m -> runs_sorted m l2 hi -> runs_sorted lo (l1 ++ l2) hi.
Proof.
  induction l1 as [|[s e] l1 IH]; intros lo m l2 hi H1 H2; cbn [runs_sorted app] in *.
  - destruct l2 as [|[s e] l2]; cbn [runs_sorted] in *; [lia|]. destruct H2 as (A & B & C). split; [lia|]. split; assumption.
  - destruct H1 as (A & B & C). split; [exact A|]. split; [exact B|]. exact (IH _ _ _ _ C H2).
Qed.

Lemma runs_sorted_bounds : forall l lo hi, runs_sorted lo l hi -> lo <= hi.
Proof.
  induction l as [|[s e] l IH]; intros lo hi H; cbn [runs_sorted] in H; [exact H|].
  destruct H as (A & B & C). apply IH in C. lia.
Qed.

Definition in_run (c : N) (p : N * N) : bool := (fst p <=? c) && (c <? snd p).

(* how many leaf items hold chunk c *)
Definition holders (ys : list item) (c : N) : nat := length (filter (fun it => item_has HO it c) ys).

Lemma holders_runs : forall ys c,
  holders ys c = length (filter (in_run c) (leaf_runs ys)).
Proof.
  intros ys c. unfold holders. induction ys as [|[nd l r|off d] ys IH]; cbn [filter leaf_runs item_has]; [reflexivity|exact IH|].
  match goal with |- context [in_run c (?a, ?b)] => assert (Er : in_run c (a, b) = (a <=? c) && (c <? b)) by reflexivity; rewrite Er end.
  destruct ((off / 1024 <=? c) && (c <? off / 1024 + leaf_chunks (blen HO d))); cbn [length]; now rewrite IH.
Qed.

Lemma sorted_count : forall l lo hi (c : N), runs_sorted lo l hi ->
  (length (filter (in_run c) l) <= 1)%nat /\
  (c < lo -> length (filter (in_run c) l) = 0%nat).
Proof.
  induction l as [|[s e] l IH]; intros lo hi c H; cbn [runs_sorted filter] in *; [split; [cbn; lia|reflexivity]|].
  destruct H as (A & B & C). destruct (IH e hi c C) as [I1 I2]. assert (Er : in_run c (s, e) = (s <=? c) && (c <? e)) by reflexivity. rewrite !Er.
  destruct (N.leb_spec s c) as [L1|L1]; destruct (N.ltb_spec c e) as [L2|L2]; cbn [andb length].
  - rewrite (I2 L2). split; [lia|intro; lia].
  - split; [exact I1|intro; lia].
  - split; [exact I1|intro X; apply I2; lia].
  - split; [exact I1|intro X; apply I2; lia].
Qed.

Lemma holders_exists ys c : delivered HO ys c = true <-> (1 <= holders ys c)%nat.
Proof.
  unfold delivered, holders. induction ys as [|it ys IH]; cbn [existsb filter length]; [split; [discriminate|lia]|].
  destruct (item_has HO it c); cbn [orb length]; [split; [lia|reflexivity]|exact IH].
Qed.

Variable data : bytes.
Variable bs : N.
Variable S0 : N -> bool.
Hypothesis Hsize : blen HO data <= 2 ^ 63.
Local Notation nc := (nchunks (blen HO data)).

Lemma leaf_run_of a b : a < b -> b <= nc ->
  leaf_runs [ILeaf (a * 1024) (chunk_bytes HO data a b)] = [(a, b)].
Proof.
  intros Hab Hb. cbn [leaf_runs]. rewrite N.div_mul by lia.
  rewrite (leaf_chunks_bytes HO data 0 Hsize ltac:(lia) a b Hab Hb). do 2 f_equal. lia.
Qed.

Lemma enc_rec_sorted : forall f a b, a <= b -> b <= nc ->
  runs_sorted a (leaf_runs (enc_rec HO f data bs S0 a b)) b.
Proof.
  induction f as [|f IH]; intros a b Hab Hb; [exact Hab|].
  rewrite enc_rec_unfold.
  destruct (negb (existsb S0 (chunk_range_list a b))) eqn:Ex; [exact Hab|].
  assert (Hlt : a < b).
  { destruct (N.eq_dec a b) as [->|]; [|lia]. exfalso.
    unfold chunk_range_list in Ex. rewrite N.sub_diag in Ex. cbn in Ex. discriminate. }
  destruct (b - a <=? 1) eqn:E1.
  { rewrite leaf_run_of by assumption. cbn [runs_sorted]. lia. }
  destruct (forallb S0 (chunk_range_list a b) && (next_pow2 (b - a) <=? 2 ^ bs)).
  { rewrite leaf_run_of by assumption. cbn [runs_sorted]. lia. }
  apply N.leb_gt in E1.
  destruct (np2_half (b - a) ltac:(lia)) as (k & Ek & Eh & K1 & K2). pose proof (pow2_ge1 k) as Pk.
  rewrite Eh. cbn [leaf_runs]. rewrite leaf_runs_app.
  apply (runs_sorted_app _ a (a + 2 ^ k)); apply IH; lia.
Qed.
End Runs.

Theorem honest_leaves_sorted : forall (HO : hops) (data : bytes HO) (bs : N) (q : ranges),
  blen HO data <= 2 ^ 63 ->
  runs_sorted 0 (leaf_runs HO (honest HO data bs q)) (nchunks (blen HO data)).
Proof.
  intros HO data bs q Hsize. rewrite honest_unfold. apply enc_rec_sorted; [exact Hsize|lia|unfold blob_chunks; lia].
Qed.

(* every chunk of the blob lies in exactly one leaf item if it is selected, in none otherwise *)
Theorem honest_each_once : forall (HO : hops) (data : bytes HO) (bs : N) (q : ranges) (c : N),
  wf_ranges q = true -> blen HO data <= 2 ^ 63 -> bs <= 10 -> c < nchunks (blen HO data) ->
  holders HO (honest HO data bs q) c = if sel q (blen HO data) c then 1%nat else 0%nat.
Proof.
  intros HO data bs q c Hwf Hsize Hbs Hc.
  pose proof (delivered_honest HO data bs q c Hwf Hsize Hbs Hc) as D.
  pose proof (holders_exists HO (honest HO data bs q) c) as E.
  pose proof (sorted_count _ _ _ c (honest_leaves_sorted HO data bs q Hsize)) as [S1 _].
  rewrite <- holders_runs in S1.
  destruct (sel q (blen HO data) c).
  - apply E in D. lia.
  - destruct (holders HO (honest HO data bs q) c) as [|n] eqn:Eh; [reflexivity|].
    assert (X : delivered HO (honest HO data bs q) c = true) by (apply E; lia). congruence.
Qed.

(* ---------- the exact frame of apply_items on a pre-sized store ---------- *)
Section Slots.
Variable HO : hops.
Hypothesis Hlen : cv_len32 HO.
Notation bytes := (bytes HO).
Notation item := (item HO).
Notation outboard := (outboard HO).
Variable data : bytes.
Variable bs : N.
Hypothesis Hsize : blen HO data <= 2 ^ 63.
Hypothesis Hbs : bs <= 10.
Local Notation size := (blen HO data).

(* node nd is the node of a parent item of ys *)
Definition saved (ys : list item) (nd : N) : bool :=
  existsb (fun it => match it with IParent n _ _ => n =? nd | ILeaf _ _ => false end) ys.

Lemma saved_app ys1 ys2 nd : saved (ys1 ++ ys2) nd = saved ys1 nd || saved ys2 nd.
Proof. unfold saved. apply existsb_app. Qed.

Lemma saved_In ys nd : saved ys nd = true <-> exists l r, In (IParent nd l r) ys.
Proof.
  unfold saved. rewrite existsb_exists. split.
  - intros ([n l r|off d] & Hin & H); [|discriminate]. apply N.eqb_eq in H. subst n. now exists l, r.
  - intros (l & r & Hin). exists (IParent nd l r). split; [exact Hin|apply N.eqb_refl].
Qed.

(* parents carry the true pair (two 32-byte values) of a node that stores a pair or lies below the block level *)
Definition parents_ok (ys : list item) : Prop :=
  forall nd l r, In (IParent nd l r) ys ->
    (l, r) = true_pair HO data nd /\ length l = 32%nat /\ length r = 32%nat /\ (pnode size bs nd \/ level nd < bs).

Lemma enc_rec_pair_len (S0 : N -> bool) : forall f a b, a <= b -> b <= nchunks size ->
  forall nd l r, In (IParent nd l r) (enc_rec HO f data bs S0 a b) -> length l = 32%nat /\ length r = 32%nat.
Proof.
  pose proof (nchunks_small size Hsize) as Hb.
  assert (P : 2 ^ 53 <= 2 ^ 63) by (apply pow2_le_mono; lia).
  induction f as [|f IH]; intros a b Hab Hbn nd l r Hin; [contradiction|].
  rewrite enc_rec_unfold in Hin.
  destruct (negb (existsb S0 (chunk_range_list a b))); [contradiction|].
  destruct (b - a <=? 1) eqn:E1; [destruct Hin as [Hd|[]]; discriminate|].
  destruct (forallb S0 (chunk_range_list a b) && (next_pow2 (b - a) <=? 2 ^ bs));
    [destruct Hin as [Hd|[]]; discriminate|].
  apply N.leb_gt in E1.
  destruct (np2_half (b - a) ltac:(lia)) as (k & Ek & Eh & K1 & K2). pose proof (pow2_ge1 k) as Pk.
  rewrite Eh in Hin. destruct Hin as [Hd|Hin].
  - injection Hd as _ <- <-. split; apply (BridgeTree.cv_len HO Hlen); lia.
  - apply in_app_or in Hin. destruct Hin as [Hin|Hin].
    + apply (IH a (a + 2 ^ k) ltac:(lia) ltac:(lia) nd l r Hin).
    + apply (IH (a + 2 ^ k) b ltac:(lia) ltac:(lia) nd l r Hin).
Qed.

Lemma apply_items_slots : forall (ys : list item) (t : bytes) (ob : outboard),
  parents_ok ys -> ob_sized HO ob size bs ->
  exists t' ob', apply_items HO ys t ob = (SOk, t', ob') /\
    ob_sized HO ob' size bs /\ ob_root ob' = ob_root ob /\ ob_k ob' = ob_k ob /\
    forall nd, pnode size bs nd ->
      stored_pair HO ob' nd = if saved ys nd then Some (true_pair HO data nd) else stored_pair HO ob nd.
Proof.
  induction ys as [|[nd l r|off d] ys IH]; intros t ob Hok Hs.
  - exists t, ob. split; [reflexivity|]. split; [exact Hs|]. split; [reflexivity|]. split; [reflexivity|]. intros nd _. reflexivity.
  - destruct (Hok nd l r (or_introl eq_refl)) as (Etp & Ll & Lr & [Hp|Hlv]).
    + destruct (save_pnode HO size bs Hsize Hbs ob nd l r Hs Hp Ll Lr) as (ob1 & E1 & S1 & R1 & K1 & P1 & F1).
      destruct (IH t ob1 (fun n l' r' H => Hok n l' r' (or_intror H)) S1) as (t' & ob' & A & S' & R' & K' & F').
      exists t', ob'. cbn [apply_items]. rewrite E1. split; [exact A|]. split; [exact S'|].
      split; [congruence|]. split; [congruence|].
      intros nd' Hp'. rewrite (F' nd' Hp'). unfold saved at 2. cbn [existsb]. fold (saved ys nd').
      destruct (saved ys nd'); [now rewrite orb_true_r|]. rewrite orb_false_r.
      destruct (N.eqb_spec nd nd') as [->|Hne]; [rewrite P1, Etp; reflexivity|].
      apply F1; [exact Hp'|congruence].
    + destruct (IH t ob (fun n l' r' H => Hok n l' r' (or_intror H)) Hs) as (t' & ob' & A & S' & R' & K' & F').
      exists t', ob'. cbn [apply_items]. rewrite (below_save HO size bs ob nd l r Hs Hlv).
      split; [exact A|]. split; [exact S'|]. split; [exact R'|]. split; [exact K'|].
      intros nd' Hp'. rewrite (F' nd' Hp'). unfold saved at 2. cbn [existsb]. fold (saved ys nd').
      destruct (N.eqb_spec nd nd') as [->|Hne]; [|reflexivity].
      exfalso. pose proof (pnode_level size bs Hsize Hbs nd' Hp'). lia.
  - destruct (IH (write_at HO t off d) ob (fun n l' r' H => Hok n l' r' (or_intror H)) Hs) as (t' & ob' & A & R).
    exists t', ob'. cbn [apply_items]. split; [exact A|]. exact R.
Qed.

(* prefixes of the honest encoding of a well-formed query satisfy parents_ok *)
Lemma honest_parents_ok q ys : wf_ranges q = true -> is_prefix ys (honest HO data bs q) -> parents_ok ys.
Proof.
  intros Hwf [rest Hp] nd l r Hin.
  assert (Hin' : In (IParent nd l r) (honest HO data bs q)) by (rewrite Hp; apply in_or_app; now left).
  split; [exact (honest_pairs_true HO data bs q nd l r Hin')|].
  assert (L : length l = 32%nat /\ length r = 32%nat).
  { rewrite honest_unfold in Hin'. apply (enc_rec_pair_len _ 64 0 (blob_chunks HO data) ltac:(lia) ltac:(unfold blob_chunks; lia) nd l r Hin'). }
  split; [exact (proj1 L)|]. split; [exact (proj2 L)|].
  exact (honest_parent_class HO data bs q Hwf Hsize Hbs nd l r Hin').
Qed.

(* equal stored pairs of a persisted node in two pre-sized stores of the same kind: equal slot bytes *)
Lemma stored_pair_slot (ob1 ob2 : outboard) nd : ob_sized HO ob1 size bs -> ob_sized HO ob2 size bs ->
  ob_k ob1 = ob_k ob2 -> pnode size bs nd -> stored_pair HO ob1 nd = stored_pair HO ob2 nd ->
  exists o, ob_offset HO ob1 nd = Some o /\ ob_offset HO ob2 nd = Some o /\ o < sp_blocks size bs - 1 /\
            slice HO (o * 64) 64 (ob_data ob1) = slice HO (o * 64) 64 (ob_data ob2).
Proof.
  intros S1 S2 K Hp E.
  destruct (pnode_offset HO size bs Hsize Hbs ob1 nd S1 Hp) as (o & Ho & Hlt).
  assert (Ho2 : ob_offset HO ob2 nd = Some o).
  { unfold ob_offset in *. rewrite <- K, (os_tree HO ob2 size bs S2), <- (os_tree HO ob1 size bs S1). exact Ho. }
  exists o. split; [exact Ho|]. split; [exact Ho2|]. split; [exact Hlt|].
  unfold stored_pair in E.
  rewrite (proj1 (sized_load HO size bs Hsize Hbs ob1 nd o S1 Ho Hlt)) in E.
  rewrite (proj1 (sized_load HO size bs Hsize Hbs ob2 nd o S2 Ho2 Hlt)) in E.
  remember (slice HO (o * 64) 64 (ob_data ob1)) as x eqn:Ex. remember (slice HO (o * 64) 64 (ob_data ob2)) as y eqn:Ey.
  clear - E. assert (E0 : parse_pair HO x = parse_pair HO y) by congruence. clear E.
  assert (E1 : fst (parse_pair HO x) = fst (parse_pair HO y)) by now rewrite E0.
  assert (E2 : snd (parse_pair HO x) = snd (parse_pair HO y)) by now rewrite E0.
  unfold parse_pair in E1, E2. cbn [fst snd] in E1, E2.
  rewrite <- (firstn_skipn 32 x), <- (firstn_skipn 32 y). now rewrite E1, E2.
Qed.

End Slots.

(* ---------- definitional equations for the statements in Props ---------- *)
Theorem gaph_leaf_runs_def : forall (HO : hops),
  leaf_runs HO [] = [] /\
  (forall off d ys, leaf_runs HO (ILeaf off d :: ys) = (off / 1024, off / 1024 + leaf_chunks (blen HO d)) :: leaf_runs HO ys) /\
  (forall nd l r ys, leaf_runs HO (IParent nd l r :: ys) = leaf_runs HO ys).
Proof. intros. split; [reflexivity|]. split; reflexivity. Qed.

Theorem gaph_runs_sorted_def : forall (lo hi : N),
  (runs_sorted lo [] hi <-> lo <= hi) /\
  (forall s e l, runs_sorted lo ((s, e) :: l) hi <-> lo <= s /\ s < e /\ runs_sorted e l hi).
Proof. intros. split; [reflexivity|]. intros. reflexivity. Qed.

Theorem gaph_holders_def : forall (HO : hops) (ys : list (item HO)) (c : N),
  holders HO ys c = length (filter (fun it => item_has HO it c) ys).
Proof. intros. reflexivity. Qed.

Theorem gaph_parents_ok_def : forall (HO : hops) (data : bytes HO) (bs : N) (ys : list (item HO)),
  parents_ok HO data bs ys <->
  (forall nd l r, In (IParent nd l r) ys ->
     (l, r) = true_pair HO data nd /\ length l = 32%nat /\ length r = 32%nat /\
     (pnode (blen HO data) bs nd \/ level nd < bs)).
Proof. intros. reflexivity. Qed.

Theorem gaph_honest_parents_ok : forall (HO : hops), cv_len32 HO ->
  forall (data : bytes HO) (bs : N), blen HO data <= 2 ^ 63 -> bs <= 10 ->
  forall (q : ranges) (ys : list (item HO)), wf_ranges q = true -> is_prefix ys (honest HO data bs q) ->
  parents_ok HO data bs ys.
Proof. exact honest_parents_ok. Qed.

Theorem gaph_apply_items_slots : forall (HO : hops) (data : bytes HO) (bs : N), blen HO data <= 2 ^ 63 -> bs <= 10 ->
  forall (ys : list (item HO)) (t : bytes HO) (ob : outboard HO),
  parents_ok HO data bs ys -> ob_sized HO ob (blen HO data) bs ->
  exists t' ob', apply_items HO ys t ob = (SOk, t', ob') /\
    ob_sized HO ob' (blen HO data) bs /\ ob_root ob' = ob_root ob /\ ob_k ob' = ob_k ob /\
    forall nd, pnode (blen HO data) bs nd ->
      stored_pair HO ob' nd = if saved HO ys nd then Some (true_pair HO data nd) else stored_pair HO ob nd.
Proof. exact apply_items_slots. Qed.
