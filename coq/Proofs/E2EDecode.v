(* End-to-end composition, part 2: the decoders dec_run / rd_run / decode_ranges set up for
   (root_hash data, mkTree (blen data) bs, q), on ANY stream, against the honest encoding
   honest HO data bs q.  Everything is obtained from one abstract plan tree (e2e_tree). *)
From BaoV Require Import Model.Fsm Spec.RangeSpec Spec.PlanSpec Spec.EncSpec Spec.HashAssm Spec.PTree Spec.SpecTree.
From BaoV Require Proofs.RangeTrunc Proofs.RangeProofs.
From BaoV Require Proofs.BridgeBase Proofs.BridgeTree Proofs.BridgePlan Proofs.BridgeLeaves.
From BaoV Require Import Proofs.DecLoop Proofs.DecHash Proofs.DecForest Proofs.DecConst Proofs.DecRanges Proofs.DecTheorems.
From BaoV Require Import Proofs.E2EGlue.
From Coq Require Import Lia Arith.
Open Scope N_scope.

(* ---------- plan items and honest items, with the leaf offset as a multiple of 1024 ---------- *)
Section Names.
Variable HO : hops.

Definition names_item_s (c : chunk) (it : item HO) : Prop :=
  match c, it with
  | CParent node _ _ _ _, IParent node' _ _ => node = node'
  | CLeaf start _ _ _, ILeaf off _ => off = start * 1024
  | _, _ => False
  end.

Lemma plan_items_match_s (T : ptree HO) :
  (forall s r d, BridgeTree.leaf_in HO T s r d -> s < 2 ^ 54) ->
  Forall2 names_item_s (plan_of HO T) (items_of HO T).
Proof.
  induction T as [|s r d|n ir lh rh l IHl r IHr]; intro H; cbn [plan_of items_of].
  - constructor.
  - constructor; [|constructor]. cbn. apply BridgeBase.to_bytes_small. apply (H s r d). cbn. auto.
  - constructor; [reflexivity|]. apply Forall2_app; [apply IHl|apply IHr];
      intros s0 r0 d0 Hin; apply (H s0 r0 d0); cbn; auto.
Qed.

Lemma Forall2_nth_r {A B} (R : A -> B -> Prop) l1 l2 : Forall2 R l1 l2 ->
  forall k y, nth_error l2 k = Some y -> exists x, nth_error l1 k = Some x /\ R x y.
Proof.
  induction 1 as [|x y l1 l2 Hxy _ IH]; intros k z Hk; destruct k; cbn in *; try discriminate.
  - injection Hk as <-. exists x. auto.
  - apply IH. exact Hk.
Qed.

(* the error the decoders report for an honest item: parents by node id, leaves by start chunk *)
Definition item_err (notfound : bool) (it : item HO) : dec_err :=
  match it with
  | IParent node _ _ => if notfound then DParentNotFound node else DParentHashMismatch node
  | ILeaf off _ => if notfound then DLeafNotFound (off / 1024) else DLeafHashMismatch (off / 1024)
  end.

Lemma item_err_names : forall node (l r : hash HO) off (d : bytes HO),
  item_err true (IParent node l r) = DParentNotFound node /\
  item_err false (IParent node l r) = DParentHashMismatch node /\
  item_err true (ILeaf off d) = DLeafNotFound (off / 1024) /\
  item_err false (ILeaf off d) = DLeafHashMismatch (off / 1024).
Proof. intros. repeat split. Qed.

Lemma chunk_err_item_err short c it : names_item_s c it -> chunk_err short c = item_err short it.
Proof.
  destruct c as [node ir lf rt rs|st sz ir rs], it as [node' l r|off d]; cbn; try contradiction.
  - intros <-. reflexivity.
  - intros ->. rewrite N.div_mul by lia. reflexivity.
Qed.
End Names.

(* ---------- generic part: an abstract plan tree T with items hon, an iterator yielding its plan ---------- *)
Section Generic.
Variable HO : hops.
Hypothesis HOK : hash_ok HO.
Variable T : ptree HO.
Variable hon : list (item HO).
Variable it0 : ppstate.
Variable root : hash HO.
Hypothesis C : consistent HO T.
Hypothesis L : leaves_ok HO T.
Hypothesis I : items_of HO T = hon.
Hypothesis F : Forall2 (names_item_s HO) (plan_of HO T) hon.
Hypothesis P : run_iter response_next it0 = plan_of HO T.
Variable n : nat.
Hypothesis En : ends_within response_next it0 n.
Hypothesis Bn : N.of_nat n < 2 ^ 64.

Lemma g_sync : forall (stream : bytes HO) ys o st,
  dec_run HO (mkD HO it0 [cv_of HO T] stream) = (ys, o, st) ->
  is_prefix ys hon /\
  (o = Finished -> ys = hon /\ stream = flat HO hon ++ d_enc HO st) /\
  (forall e, o = Failed e -> ~ is_prefix (flat HO (firstn (length ys + 1) hon)) stream) /\
  o <> Panicked /\ o <> OutOfFuel.
Proof.
  intros stream ys o st Hrun.
  pose proof (sync_sound_run HO HOK T stream _ n ys o st C L P En Bn Hrun) as S.
  unfold sound_stmt in S. rewrite I in S. exact S.
Qed.

Lemma g_fsm : forall (stream : bytes HO) ys o st,
  rd_run HO (mkR HO it0 [cv_of HO T] stream root) = (ys, o, st) ->
  is_prefix ys hon /\
  (o = Finished -> ys = hon /\ stream = flat HO hon ++ Fsm.r_enc HO st) /\
  (forall e, o = Failed e -> ~ is_prefix (flat HO (firstn (length ys + 1) hon)) stream) /\
  o <> Panicked /\ o <> OutOfFuel.
Proof.
  intros stream ys o st Hrun.
  pose proof (fsm_sound_run HO HOK T stream _ n root ys o st C L P En Bn Hrun) as S.
  unfold sound_stmt in S. rewrite I in S. exact S.
Qed.

Lemma g_roundtrip_sync : forall (rest : bytes HO),
  exists st, dec_run HO (mkD HO it0 [cv_of HO T] (flat HO hon ++ rest)) = (hon, Finished, st) /\ d_enc HO st = rest.
Proof.
  intros rest.
  destruct (dec_run HO (mkD HO it0 [cv_of HO T] (flat HO hon ++ rest))) as [[ys o] st] eqn:Hrun.
  pose proof (sync_run_as_plan HO T _ _ n ys o st P En Bn Hrun) as (E1 & E2 & E3 & _).
  destruct (both_complete HO HOK T rest C L) as [(A1 & A2 & A3) _].
  rewrite I in *. change (flat_items HO hon) with (flat HO hon) in *.
  rewrite A1 in E1. rewrite A2 in E2. rewrite A3 in E3. subst ys o.
  exists st. split; [reflexivity|exact E3].
Qed.

Lemma g_roundtrip_fsm : forall (rest : bytes HO),
  exists st, rd_run HO (mkR HO it0 [cv_of HO T] (flat HO hon ++ rest) root) = (hon, Finished, st) /\
             Fsm.r_enc HO st = rest /\ rd_finish HO st = rest.
Proof.
  intros rest.
  destruct (rd_run HO (mkR HO it0 [cv_of HO T] (flat HO hon ++ rest) root)) as [[ys o] st] eqn:Hrun.
  pose proof (fsm_run_as_plan HO T _ _ n root ys o st P En Bn Hrun) as (E1 & E2 & E3 & _).
  destruct (both_complete HO HOK T rest C L) as [_ (A1 & A2 & A3)].
  rewrite I in *. change (flat_items HO hon) with (flat HO hon) in *.
  rewrite A1 in E1. rewrite A2 in E2. rewrite A3 in E3. subst ys o.
  exists st. split; [reflexivity|]. split; exact E3.
Qed.

(* k is the index of the honest item that contains byte p of the honest encoding *)
Definition g_item_index (p k : nat) : Prop :=
  (length (flat HO (firstn k hon)) <= p)%nat /\ (p < length (flat HO (firstn (S k) hon)))%nat.

Lemma g_item_index_at p k : g_item_index p k ->
  k = item_at HO (items_of HO T) p /\ (p < length (flat_items HO (items_of HO T)))%nat.
Proof.
  intros [K1 K2]. rewrite I. change (flat HO) with (flat_items HO) in K1, K2. split.
  - apply item_at_unique; assumption.
  - assert (E : flat_items HO hon = flat_items HO (firstn (S k) hon) ++ flat_items HO (skipn (S k) hon))
      by (rewrite <- flat_items_app, firstn_skipn; reflexivity).
    rewrite E, app_length. lia.
Qed.

Lemma g_item_index_exists p : (p < length (flat HO hon))%nat -> exists k, g_item_index p k.
Proof.
  intro Hp. exists (item_at HO hon p). destruct (item_at_bounds HO hon p Hp) as (A & B & _). split; assumption.
Qed.

Lemma g_exact_gen (stream : bytes HO) p k (short : bool) :
  g_item_index p k ->
  (forall c, nth_error (plan_of HO T) k = Some c ->
     let r1 := dec_items_sync HO (plan_of HO T) [cv_of HO T] stream in
     let r2 := dec_items_fsm HO (plan_of HO T) [cv_of HO T] stream in
     (r_items HO r1 = firstn k hon /\ r_outcome HO r1 = Failed (chunk_err short c)) /\
     (r_items HO r2 = firstn k hon /\ r_outcome HO r2 = Failed (chunk_err short c))) ->
  exists it, nth_error hon k = Some it /\
  (forall ys o st, dec_run HO (mkD HO it0 [cv_of HO T] stream) = (ys, o, st) ->
     ys = firstn k hon /\ o = Failed (item_err HO short it)) /\
  (forall ys o st, rd_run HO (mkR HO it0 [cv_of HO T] stream root) = (ys, o, st) ->
     ys = firstn k hon /\ o = Failed (item_err HO short it)).
Proof.
  intros Hk Hgen.
  assert (Hlt : (k < length hon)%nat).
  { destruct Hk as [K1 K2]. destruct (Nat.lt_ge_cases k (length hon)) as [Lt|Ge]; [exact Lt|].
    rewrite !firstn_all2 in K1, K2 by lia. lia. }
  destruct (nth_error hon k) as [it|] eqn:Eit; [|apply nth_error_None in Eit; lia].
  destruct (Forall2_nth_r _ _ _ F k it Eit) as (c & Ec & Hn).
  specialize (Hgen c Ec). cbv zeta in Hgen. destruct Hgen as [(A1 & A2) (B1 & B2)].
  rewrite (chunk_err_item_err HO short c it Hn) in A2, B2.
  exists it. split; [reflexivity|]. split.
  - intros ys o st Hrun.
    pose proof (sync_run_as_plan HO T _ _ n ys o st P En Bn Hrun) as (E1 & E2 & _).
    rewrite A1 in E1. rewrite A2 in E2. split; assumption.
  - intros ys o st Hrun.
    pose proof (fsm_run_as_plan HO T _ _ n root ys o st P En Bn Hrun) as (E1 & E2 & _).
    rewrite B1 in E1. rewrite B2 in E2. split; assumption.
Qed.

Lemma g_truncation : forall p k, g_item_index p k ->
  let stream := firstn p (flat HO hon) in
  exists it, nth_error hon k = Some it /\
  (forall ys o st, dec_run HO (mkD HO it0 [cv_of HO T] stream) = (ys, o, st) ->
     ys = firstn k hon /\ o = Failed (item_err HO true it)) /\
  (forall ys o st, rd_run HO (mkR HO it0 [cv_of HO T] stream root) = (ys, o, st) ->
     ys = firstn k hon /\ o = Failed (item_err HO true it)).
Proof.
  intros p k Hk stream. apply (g_exact_gen stream p k true Hk).
  intros c Ec.
  destruct (g_item_index_at p k Hk) as [Ek Hp]. rewrite Ek in Ec.
  pose proof (both_truncation HO HOK T p c C L Hp Ec) as H. cbv zeta in H.
  rewrite <- Ek in H. rewrite I in H. exact H.
Qed.

Lemma g_alteration : forall p k b b', g_item_index p k ->
  nth_error (flat HO hon) p = Some b -> b' <> b ->
  let stream := firstn p (flat HO hon) ++ b' :: skipn (S p) (flat HO hon) in
  exists it, nth_error hon k = Some it /\
  (forall ys o st, dec_run HO (mkD HO it0 [cv_of HO T] stream) = (ys, o, st) ->
     ys = firstn k hon /\ o = Failed (item_err HO false it)) /\
  (forall ys o st, rd_run HO (mkR HO it0 [cv_of HO T] stream root) = (ys, o, st) ->
     ys = firstn k hon /\ o = Failed (item_err HO false it)).
Proof.
  intros p k b b' Hk Hb Hne' stream. apply (g_exact_gen stream p k false Hk).
  intros c Ec.
  destruct (g_item_index_at p k Hk) as [Ek Hp]. rewrite Ek in Ec.
  assert (Hb' : nth_error (flat_items HO (items_of HO T)) p = Some b) by (rewrite I; exact Hb).
  pose proof (both_alteration HO HOK T p b b' c C L Hb' Hne' Ec) as H. cbv zeta in H.
  rewrite <- Ek in H. rewrite I in H. exact H.
Qed.

End Generic.

Section E2E.
Variable HO : hops.
Hypothesis HOK : hash_ok HO.
Variable data : bytes HO.
Variables (bs : N) (q : ranges).
Hypothesis Hsize : blen HO data <= 2 ^ 63.
Hypothesis Hbs : bs <= 10.
Hypothesis Hwf : wf_ranges q = true.
Hypothesis Hne : q <> [].

Notation size := (blen HO data).
Notation t := (mkTree (blen HO data) bs).
Notation root := (root_hash HO data).
Notation hon := (honest HO data bs q).

(* all the layers, composed: an abstract consistent plan tree whose plan is what the decoder's
   iterator yields (within a bounded number of steps), whose items are the honest encoding and whose
   value is the root hash *)
Lemma e2e_tree : exists T : ptree HO,
  consistent HO T /\ leaves_ok HO T /\ items_of HO T = hon /\
  Forall2 (names_item_s HO) (plan_of HO T) hon /\
  (forall stream, dec_new HO root t stream q = mkD HO (response_new t (truncate_ranges q size)) [cv_of HO T] stream) /\
  (forall stream, rd_new HO root q t stream = mkR HO (response_new t (truncate_ranges q size)) [cv_of HO T] stream root) /\
  run_iter response_next (response_new t (truncate_ranges q size)) = plan_of HO T /\
  exists n, ends_within response_next (response_new t (truncate_ranges q size)) n /\ N.of_nat n < 2 ^ 64.
Proof.
  pose proof (setup_consistent HO HOK data bs q Hsize) as H1.
  pose proof (setup_leaves HO data bs q Hsize Hbs) as H2.
  pose proof (setup_items HO data bs q Hsize) as H3.
  pose proof (setup_dec_new HO data bs q Hsize Hwf Hne) as H4.
  pose proof (setup_rd_new HO data bs q Hsize Hwf Hne) as H5.
  pose proof (setup_run_iter HO data bs q Hsize Hbs Hwf) as H6.
  pose proof (setup_ends HO data bs q Hsize Hbs Hwf) as H7.
  assert (H8 : forall s r d, BridgeTree.leaf_in HO (spec_tree HO data bs q) s r d -> s < 2 ^ 54).
  { intros s r d Hin. destruct (BridgeTree.bridge_leaves HO data bs q s r d Hsize Hin) as (_ & B & _). exact B. }
  apply plan_items_match_s in H8.
  set (T := spec_tree HO data bs q) in *. clearbody T.
  rewrite H3 in H8.
  exists T. repeat split; assumption.
Qed.

Theorem e2e_sync : forall (stream : bytes HO) ys o st,
  dec_run HO (dec_new HO root t stream q) = (ys, o, st) ->
  is_prefix ys hon /\
  (o = Finished -> ys = hon /\ stream = flat HO hon ++ d_enc HO st) /\
  (forall e, o = Failed e -> ~ is_prefix (flat HO (firstn (length ys + 1) hon)) stream) /\
  o <> Panicked /\ o <> OutOfFuel.
Proof.
  intros stream ys o st. destruct e2e_tree as (T & C & L & I & F & D1 & D2 & P & n & En & Bn).
  rewrite D1. exact (g_sync HO HOK T _ _ C L I P n En Bn stream ys o st).
Qed.

Theorem e2e_fsm : forall (stream : bytes HO) ys o st,
  rd_run HO (rd_new HO root q t stream) = (ys, o, st) ->
  is_prefix ys hon /\
  (o = Finished -> ys = hon /\ stream = flat HO hon ++ Fsm.r_enc HO st) /\
  (forall e, o = Failed e -> ~ is_prefix (flat HO (firstn (length ys + 1) hon)) stream) /\
  o <> Panicked /\ o <> OutOfFuel.
Proof.
  intros stream ys o st. destruct e2e_tree as (T & C & L & I & F & D1 & D2 & P & n & En & Bn).
  rewrite D2. exact (g_fsm HO HOK T _ _ root C L I P n En Bn stream ys o st).
Qed.

Theorem e2e_roundtrip_sync : forall (rest : bytes HO),
  exists st, dec_run HO (dec_new HO root t (flat HO hon ++ rest) q) = (hon, Finished, st) /\ d_enc HO st = rest.
Proof.
  intros rest. destruct e2e_tree as (T & C & L & I & F & D1 & D2 & P & n & En & Bn).
  rewrite D1. exact (g_roundtrip_sync HO HOK T _ _ C L I P n En Bn rest).
Qed.

Theorem e2e_roundtrip_fsm : forall (rest : bytes HO),
  exists st, rd_run HO (rd_new HO root q t (flat HO hon ++ rest)) = (hon, Finished, st) /\
             Fsm.r_enc HO st = rest /\ rd_finish HO st = rest.
Proof.
  intros rest. destruct e2e_tree as (T & C & L & I & F & D1 & D2 & P & n & En & Bn).
  rewrite D2. exact (g_roundtrip_fsm HO HOK T _ _ root C L I P n En Bn rest).
Qed.

Theorem e2e_truncation : forall p k,
  (length (flat HO (firstn k hon)) <= p)%nat -> (p < length (flat HO (firstn (S k) hon)))%nat ->
  let stream := firstn p (flat HO hon) in
  exists it, nth_error hon k = Some it /\
  (forall ys o st, dec_run HO (dec_new HO root t stream q) = (ys, o, st) ->
     ys = firstn k hon /\ o = Failed (item_err HO true it)) /\
  (forall ys o st, rd_run HO (rd_new HO root q t stream) = (ys, o, st) ->
     ys = firstn k hon /\ o = Failed (item_err HO true it)).
Proof.
  intros p k K1 K2. destruct e2e_tree as (T & C & L & I & F & D1 & D2 & P & n & En & Bn).
  cbv zeta. rewrite D1, D2.
  exact (g_truncation HO HOK T _ _ root C L I F P n En Bn p k (conj K1 K2)).
Qed.

Theorem e2e_alteration : forall p k b b',
  (length (flat HO (firstn k hon)) <= p)%nat -> (p < length (flat HO (firstn (S k) hon)))%nat ->
  nth_error (flat HO hon) p = Some b -> b' <> b ->
  let stream := firstn p (flat HO hon) ++ b' :: skipn (S p) (flat HO hon) in
  exists it, nth_error hon k = Some it /\
  (forall ys o st, dec_run HO (dec_new HO root t stream q) = (ys, o, st) ->
     ys = firstn k hon /\ o = Failed (item_err HO false it)) /\
  (forall ys o st, rd_run HO (rd_new HO root q t stream) = (ys, o, st) ->
     ys = firstn k hon /\ o = Failed (item_err HO false it)).
Proof.
  intros p k b b' K1 K2 Hb Hne'. destruct e2e_tree as (T & C & L & I & F & D1 & D2 & P & n & En & Bn).
  cbv zeta. rewrite D1, D2.
  exact (g_alteration HO HOK T _ _ root C L I F P n En Bn p k b b' (conj K1 K2) Hb Hne').
Qed.

Theorem e2e_item_index_exists : forall p, (p < length (flat HO hon))%nat ->
  exists k, (length (flat HO (firstn k hon)) <= p)%nat /\ (p < length (flat HO (firstn (S k) hon)))%nat.
Proof. intros p Hp. exact (g_item_index_exists HO hon p Hp). Qed.

End E2E.
