(* C06, part 5: what the validators report is true (under the hash assumptions), and what is true and
   touched is reported. *)
From BaoV Require Import Model.Sync Model.Fsm Spec.PlanSpec Spec.PlanWf Spec.EncSpec Spec.HashAssm.
From BaoV Require Import Proofs.NodeLevel Proofs.NodeBits Proofs.NodeAlgebra
  Proofs.ObBase Proofs.ObLoop Proofs.ObSize Proofs.DecHash Proofs.RangeBase Proofs.BridgeBase
  Proofs.ShapeBase Proofs.PlanBase Proofs.PlanRs Proofs.PlanNav Proofs.ValSpec Proofs.ValPath Proofs.ValTrue Proofs.ValTop.
From Coq Require Import ZArith Lia.
Open Scope N_scope.
Arguments N.add : simpl never.
Arguments N.sub : simpl never.
Arguments N.mul : simpl never.
Arguments N.pow : simpl never.
Arguments N.shiftl : simpl never.
Arguments N.shiftr : simpl never.
Arguments N.land : simpl never.
Arguments N.div : simpl never.
Arguments N.modulo : simpl never.
Arguments N.log2 : simpl never.
Arguments N.min : simpl never.
Arguments N.max : simpl never.
Ltac Zify.zify_post_hook ::= Z.to_euclidean_division_equations.

Section Sound.
Variable HO : hops.
Hypothesis HOK : hash_ok HO.
Notation bytes := (bytes HO).
Notation hash := (hash HO).
Notation outboard := (outboard HO).

Variable data : bytes.
Variable bs : N.
Variable ob : outboard.
Hypothesis Hsize : blen HO data <= 2 ^ 63.
Hypothesis Hbs : bs <= 10.
Hypothesis Hroot : ob_root ob = root_hash HO data.

Let size := blen HO data.
Let B := sp_blocks size bs.
Let g := 2 ^ bs.
Let nc := nchunks size.

(* all stored pairs on the path of ga are the blob's *)
Definition path_true (ga : N) : Prop :=
  forall nd rt, In (nd, rt) (top_path size bs ga) -> stored_pair HO ob nd = Some (true_pair HO data nd).

Lemma B_ge1 : 1 <= B.
Proof. unfold B, sp_blocks. lia. Qed.

Lemma root_as_cv : ob_root ob = cv HO data (0 * 2 ^ bs) (nend HO data bs 0 B) true.
Proof.
  rewrite Hroot. unfold root_hash, blob_chunks, nend. fold size.
  pose proof (nchunks_le_blocks size bs) as H. fold B in H.
  rewrite N.mul_0_l, N.add_0_l. rewrite N.min_r by exact H. reflexivity.
Qed.

Lemma flag_eq : (true && (B <=? 1))%bool = (B =? 1).
Proof. cbn [andb]. pose proof B_ge1. destruct (N.eqb_spec B 1), (N.leb_spec B 1); lia. Qed.

Lemma top_walk_sound ga h : ga < B ->
  chain_walk HO ob (top_path size bs ga) (ob_root ob) true = Some h ->
  h = cv HO data (grp_start bs ga) (grp_end size bs ga) (B =? 1) /\ path_true ga.
Proof.
  intros Hga. unfold path_true. rewrite top_path_eq, root_as_cv, <- flag_eq. fold size. fold B. intro Hw.
  apply (chain_sound HO HOK data bs Hsize Hbs ob VFUEL 0 B true true ga h).
  - apply node_ok_root.
  - apply (top_fuel size bs Hsize).
  - lia.
  - exact Hw.
Qed.

Lemma top_walk_complete ga : ga < B -> path_true ga ->
  chain_walk HO ob (top_path size bs ga) (ob_root ob) true
  = Some (cv HO data (grp_start bs ga) (grp_end size bs ga) (B =? 1)).
Proof.
  intros Hga. unfold path_true. rewrite top_path_eq, root_as_cv, <- flag_eq. fold size. fold B. intro Hp.
  apply (chain_complete HO HOK data bs Hsize Hbs ob VFUEL 0 B true true ga).
  - apply node_ok_root.
  - apply (top_fuel size bs Hsize).
  - lia.
  - exact Hp.
Qed.

(* C06.2 *)
Lemma chain_ok_true ga : ga < B -> chain_ok HO ob size bs ga -> path_true ga.
Proof.
  intros Hga C. destruct (chain_ok_walk HO ob size bs ga C) as [h Hw].
  exact (proj2 (top_walk_sound ga h Hga Hw)).
Qed.

Lemma grp_end_le ga : grp_end size bs ga <= blob_chunks HO data.
Proof. unfold grp_end, blob_chunks. fold size. lia. Qed.

Lemma leaf_ok_true d ga : ga < B -> blen HO d = size ->
  chain_ok HO ob size bs ga -> leaf_ok HO d ob size bs ga ->
  chunk_bytes HO d (grp_start bs ga) (grp_end size bs ga) = chunk_bytes HO data (grp_start bs ga) (grp_end size bs ga).
Proof.
  intros Hga Hd C (h & O & Hq). destruct (chain_ok_walk HO ob size bs ga C) as [h' Hw].
  destruct (top_walk_sound ga h' Hga Hw) as [E _].
  apply chain_walk_iff in Hw. destruct Hw as [_ O']. rewrite O in O'. injection O' as ->.
  unfold heq in Hq. apply (bytes_eqb_eq HO HOK) in Hq. fold B in Hq. rewrite E in Hq.
  rewrite (cv_hash_subtree_inside HO data) in Hq by (apply grp_end_le || exact Hsize).
  apply (hash_subtree_inj HO HOK) in Hq; [exact Hq| |].
  - unfold leaf_len_ok. rewrite BridgeBase.blen_chunk_bytes, Hd. fold size.
    change (2 ^ 63) with 9223372036854775808 in *. lia.
  - pose proof (BridgeBase.blen_chunk_bytes HO d (grp_start bs ga) (grp_end size bs ga)) as L1.
    pose proof (BridgeBase.blen_chunk_bytes HO data (grp_start bs ga) (grp_end size bs ga)) as L2.
    rewrite Hd in L1. fold size in L2. unfold blen in L1, L2. lia.
Qed.

(* C06.3 *)
Lemma true_chain_ok ga : ga < B -> path_true ga -> chain_ok HO ob size bs ga.
Proof.
  intros Hga Hp. pose proof (top_walk_complete ga Hga Hp) as Hw.
  apply chain_walk_iff in Hw. exact (proj1 Hw).
Qed.

Lemma true_leaf_ok d ga : ga < B -> path_true ga ->
  chunk_bytes HO d (grp_start bs ga) (grp_end size bs ga) = chunk_bytes HO data (grp_start bs ga) (grp_end size bs ga) ->
  leaf_ok HO d ob size bs ga.
Proof.
  intros Hga Hp Hb. pose proof (top_walk_complete ga Hga Hp) as Hw.
  apply chain_walk_iff in Hw. destruct Hw as [_ O].
  eexists. split; [exact O|]. unfold heq. fold B. rewrite Hb.
  rewrite (cv_hash_subtree_inside HO data) by (apply grp_end_le || exact Hsize).
  apply (bytes_eqb_refl HO HOK).
Qed.

(* ---- stated on the validators ---- *)
Variable q : ranges.
Hypothesis Hwf : wf_ranges q = true.
Hypothesis Htree : ob_tree ob = mkTree size bs.
Hypothesis Hloads : loads_ok HO ob size bs.

Lemma reported_is_true d a e : blen HO d = size -> 2 <= B ->
  In (a, e) (fst (valid_ranges HO ob d q)) ->
  chunk_bytes HO d a e = chunk_bytes HO data a e /\
  exists ga, ga < B /\ a = grp_start bs ga /\ e = grp_end size bs ga /\ path_true ga.
Proof.
  intros Hd HB Hin. rewrite (data_exact HO size bs q ob Hsize Hbs Hwf Htree Hloads d Hd HB) in Hin.
  cbn [fst] in Hin. apply (val_top_member HO size bs q ob Hsize true d a e HB) in Hin.
  destruct Hin as (ga & Hga & -> & -> & _ & C & L). split.
  - apply leaf_ok_true; auto.
  - exists ga. repeat split; auto. now apply chain_ok_true.
Qed.

Lemma blen_length (x y : bytes) : blen HO x = blen HO y -> length x = length y.
Proof. unfold blen. lia. Qed.

Lemma single_reported_is_true d : blen HO d = size -> B = 1 ->
  fst (valid_ranges HO ob d q) <> [] -> d = data.
Proof.
  intros Hd HB. rewrite (data_single HO size bs q ob Htree d Hd HB).
  destruct (bytes_eqb HO (hash_subtree HO 0 d true) (ob_root ob)) eqn:Eb; [intros _|intro H; exfalso; apply H; reflexivity].
  apply (bytes_eqb_eq HO HOK) in Eb.
  apply (hash_subtree_inj HO HOK 0 d data true).
  - unfold leaf_len_ok. rewrite Hd. unfold size. clear - Hsize. change (2 ^ 63) with 9223372036854775808 in *. lia.
  - apply blen_length. exact Hd.
  - rewrite Eb, Hroot. apply (root_is_blake3_tree HO data Hsize).
Qed.

Lemma valid_is_reported d ga : blen HO d = size -> 2 <= B -> ga < B ->
  touched q size bs ga -> path_true ga ->
  chunk_bytes HO d (grp_start bs ga) (grp_end size bs ga) = chunk_bytes HO data (grp_start bs ga) (grp_end size bs ga) ->
  In (grp_start bs ga, grp_end size bs ga) (fst (valid_ranges HO ob d q)).
Proof.
  intros Hd HB Hga T Hp Hb. rewrite (data_exact HO size bs q ob Hsize Hbs Hwf Htree Hloads d Hd HB).
  cbn [fst]. apply (val_top_member HO size bs q ob Hsize true d _ _ HB).
  exists ga. repeat split; auto.
  - now apply true_chain_ok.
  - intros _. now apply true_leaf_ok.
Qed.

Lemma single_valid_is_reported : B = 1 ->
  valid_ranges HO ob data q = ([(0, chunks size)], Ok tt).
Proof.
  intros HB. rewrite (data_single HO size bs q ob Htree data eq_refl HB).
  rewrite Hroot, (root_is_blake3_tree HO data Hsize), (bytes_eqb_refl HO HOK). reflexivity.
Qed.

(* an intact store: exactly the touched groups *)
Lemma intact_complete : 2 <= B -> (forall ga, ga < B -> path_true ga) ->
  valid_ranges HO ob data q =
  (flat_map (fun ga => if touchedb q size bs ga then [(grp_start bs ga, grp_end size bs ga)] else [])
            (chunk_range_list 0 B), Ok tt).
Proof.
  intros HB Hp. rewrite (data_exact HO size bs q ob Hsize Hbs Hwf Htree Hloads data eq_refl HB).
  f_equal. rewrite (val_top_groups HO size bs q ob Hsize true data HB).
  apply flat_map_ext_in. intros ga Hga. apply crl_in in Hga.
  assert (V : grp_verdict HO true ob data size bs ga = true).
  { apply (grp_verdict_iff HO size bs ob true data ga HB). split.
    - apply true_chain_ok; [lia|apply Hp; lia].
    - intros _. apply true_leaf_ok; [lia|apply Hp; lia|reflexivity]. }
  rewrite V, andb_true_r. reflexivity.
Qed.

(* ---- outboard only ---- *)
Lemma outboard_reported_is_true a e : 2 <= B ->
  In (a, e) (fst (valid_outboard_ranges HO ob q)) ->
  exists ga, ga < B /\ a = grp_start bs ga /\ e = grp_end size bs ga /\ path_true ga.
Proof.
  intros HB Hin. rewrite (outboard_exact HO size bs q ob Hsize Hbs Hwf Htree Hloads HB) in Hin.
  cbn [fst] in Hin. apply (val_top_member HO size bs q ob Hsize false [] a e HB) in Hin.
  destruct Hin as (ga & Hga & -> & -> & _ & C & _).
  exists ga. repeat split; auto. now apply chain_ok_true.
Qed.

Lemma outboard_valid_is_reported ga : 2 <= B -> ga < B ->
  touched q size bs ga -> path_true ga ->
  In (grp_start bs ga, grp_end size bs ga) (fst (valid_outboard_ranges HO ob q)).
Proof.
  intros HB Hga T Hp. rewrite (outboard_exact HO size bs q ob Hsize Hbs Hwf Htree Hloads HB).
  cbn [fst]. apply (val_top_member HO size bs q ob Hsize false [] _ _ HB).
  exists ga. repeat split; auto; [now apply true_chain_ok|discriminate].
Qed.

Lemma outboard_intact_complete : 2 <= B -> (forall ga, ga < B -> path_true ga) ->
  valid_outboard_ranges HO ob q =
  (flat_map (fun ga => if touchedb q size bs ga then [(grp_start bs ga, grp_end size bs ga)] else [])
            (chunk_range_list 0 B), Ok tt).
Proof.
  intros HB Hp. rewrite (outboard_exact HO size bs q ob Hsize Hbs Hwf Htree Hloads HB).
  f_equal. rewrite (val_top_groups HO size bs q ob Hsize false [] HB).
  apply flat_map_ext_in. intros ga Hga. apply crl_in in Hga.
  assert (V : grp_verdict HO false ob [] size bs ga = true).
  { apply (grp_verdict_iff HO size bs ob false [] ga HB). split; [|discriminate].
    apply true_chain_ok; [lia|apply Hp; lia]. }
  rewrite V, andb_true_r. reflexivity.
Qed.

End Sound.
