(* Final composition, part 5 (C07): convergence.  In a state of the invariant in which every chunk is
   delivered the target is the blob and the store is the blob's created store: every persisted node lies
   on the path of some chunk group, so it holds its true pair (C07_converges_pairs_partial); a byte list of
   length (B - 1) * 64 whose i-th slot is the pair of the i-th persisted node is the concatenation by slot
   = spec_outboard. *)
From BaoV Require Import Model.Sync Model.Fsm Model.IO Spec.EncSpec Spec.PlanSpec Spec.NodeSpec Spec.HashAssm.
From BaoV Require Import Proofs.NodeLevel Proofs.NodeBits Proofs.NodeAlgebra Proofs.RangeBase
  Proofs.ObBase Proofs.ObLoop Proofs.ObCreate Proofs.ObSize Proofs.ObLayout Proofs.ObLayoutC.
From BaoV Require Import Proofs.PlanBase Proofs.PlanNav Proofs.DecForest Proofs.DecRanges
  Proofs.ValSpec Proofs.ValPath Proofs.ValTop Proofs.ValSound
  Proofs.HistOb Proofs.HistPath Proofs.HistEnc Proofs.HistInv Proofs.HistStep.
From BaoV Require Import Proofs.FinalStore Proofs.FinalVal.
From Coq Require Import ZArith Lia.
Open Scope N_scope.
Arguments N.add : simpl never.
Arguments N.sub : simpl never.
Arguments N.mul : simpl never.
Arguments N.pow : simpl never.
Arguments N.div : simpl never.
Arguments N.modulo : simpl never.
Arguments N.log2 : simpl never.
Arguments N.min : simpl never.
Arguments N.max : simpl never.

(* ---- every persisted node of the Shape lies on the path of some chunk group ---- *)
Section Cover.
Variables (size bs : N).
Hypothesis Hsize : size <= 2 ^ 63.
Hypothesis Hbs : bs <= 10.
Local Notation B := (sp_blocks size bs).

Lemma half_leaf_not_persisted ga : (exists J, ga = 2 * J) -> ga + 1 = B ->
  sp_persisted size bs (unshift bs ga) = false.
Proof.
  intros (J & HJ) HB. unfold sp_persisted.
  assert (E : sp_level (unshift bs ga) = bs).
  { pose proof (node_level bs ga 0 J ltac:(rewrite HJ; change (2 ^ 0) with 1; lia)) as H.
    change (2 ^ 0) with 1 in H. replace (ga + 1 - 1) with ga in H by lia. rewrite H. lia. }
  rewrite E, unshift_succ, N.ltb_irrefl, N.eqb_refl. cbn [orb andb].
  apply N.ltb_ge.
  assert (L : ~ ga + 1 < B) by lia. rewrite sp_blocks_spec in L. lia.
Qed.

Lemma nodes_on_path : forall fuel ga0 n rm nd,
  node_ok size bs ga0 n rm -> (rm = false -> ga0 + n < B) -> N.log2 (capof n) <= N.of_nat fuel ->
  In nd (map (unshift bs) (sh_pre fuel ga0 n)) -> sp_persisted size bs nd = true ->
  exists ga rt, ga0 <= ga < ga0 + n /\ In (nd, rt) (grp_path fuel bs ga0 n ga).
Proof.
  induction fuel as [|f IH]; intros ga0 n rm nd Hok Hnr Hf Hin Hp.
  { destruct Hin. }
  pose proof (nk_pos _ _ _ _ _ Hok) as Hn1.
  destruct (N.leb_spec n 2) as [L2|L2].
  - rewrite sh_pre_small in Hin by assumption. destruct Hin as [<-|[]].
    assert (Es : sid ga0 n = ga0).
    { unfold sid. rewrite capof_small by assumption. change (2 / 2) with 1. lia. }
    destruct (N.eq_dec n 1) as [E1|E1].
    + (* a half leaf stores no pair *)
      exfalso. subst n. pose proof Hok as [P1 [k A] I R]. rewrite capof_small in A, R by lia.
      destruct rm; [|lia].
      rewrite Es, (half_leaf_not_persisted ga0) in Hp; [discriminate|exists k; lia|exact R].
    + exists ga0, (negb (ga0 =? ga0)). split; [lia|].
      rewrite grp_path_eq.
      destruct (N.leb_spec n 1); [lia|]. destruct (N.leb_spec n 2); [|lia]. now left.
  - assert (H3 : 3 <= n) by lia.
    destruct (fuel_children n f H3 Hf) as [F1 F2].
    pose proof (node_ok_left size bs ga0 n rm Hok H3) as Hokl.
    pose proof (node_ok_right size bs ga0 n rm Hok H3) as Hokr.
    destruct (capof_inner n H3) as (j & Ecap & Eh & K1 & K2 & C1 & C2). pose proof (pow2_pos (j + 1)) as Hpj.
    pose proof (nk_in _ _ _ _ _ Hok) as Hi.
    rewrite sh_pre_inner in Hin by assumption. cbn [map] in Hin. rewrite map_app in Hin.
    assert (Hhead : forall ga, exists rt, In (unshift bs (sid ga0 n), rt) (grp_path (S f) bs ga0 n ga)).
    { intro ga. rewrite grp_path_eq. destruct (N.leb_spec n 1); [lia|]. destruct (N.leb_spec n 2); [lia|].
      cbv zeta. destruct (ga <? ga0 + capof n / 2); eexists; now left. }
    destruct Hin as [<-|Hin].
    + destruct (Hhead ga0) as (rt & Hrt). exists ga0, rt. split; [lia|exact Hrt].
    + apply in_app_or in Hin. destruct Hin as [Hin|Hin].
      * destruct (IH ga0 (capof n / 2) false nd Hokl ltac:(intros _; rewrite Eh; lia) F1 Hin Hp) as (ga & rt & Hga & Hpath).
        exists ga, rt. split; [rewrite Eh in Hga; lia|].
        rewrite grp_path_eq. destruct (N.leb_spec n 1); [lia|]. destruct (N.leb_spec n 2); [lia|].
        cbv zeta. destruct (N.ltb_spec ga (ga0 + capof n / 2)); [now right|lia].
      * destruct (IH (ga0 + capof n / 2) (n - capof n / 2) rm nd Hokr
                    ltac:(intro Erm; specialize (Hnr Erm); rewrite Eh; lia) F2 Hin Hp) as (ga & rt & Hga & Hpath).
        exists ga, rt. split; [rewrite Eh in Hga; lia|].
        rewrite grp_path_eq. destruct (N.leb_spec n 1); [lia|]. destruct (N.leb_spec n 2); [lia|].
        cbv zeta. destruct (N.ltb_spec ga (ga0 + capof n / 2)); [lia|now right].
Qed.

Lemma sp_pre_nodes_unfold' : sp_pre_nodes size bs = map (unshift bs) (sh_pre 65 0 B).
Proof. reflexivity. Qed.

Theorem pnode_on_top_path nd : pnode size bs nd ->
  exists ga rt, ga < B /\ In (nd, rt) (top_path size bs ga).
Proof.
  rewrite pnodes_eq, filter_In. intros [Hin Hp].
  assert (HB1 : 1 <= B) by (unfold sp_blocks; lia).
  assert (Hin' : In nd (map (unshift bs) (sh_pre VFUEL 0 B))).
  { rewrite <- (sh_pre_fuel 65 VFUEL 0 B HB1 (root_fuel size bs Hsize) (top_fuel size bs Hsize)).
    rewrite <- sp_pre_nodes_unfold'. exact Hin. }
  assert (Hnr : true = false -> 0 + B < B) by discriminate.
  destruct (nodes_on_path VFUEL 0 B true nd (node_ok_root size bs) Hnr
              (top_fuel size bs Hsize) Hin' Hp) as (ga & rt & Hga & Hpath).
  exists ga, rt. split; [lia|]. rewrite top_path_eq. exact Hpath.
Qed.

End Cover.

(* ---- a pre-sized store all of whose persisted nodes hold their true pair is the created store ---- *)
Section Bytes.
Variable HO : hops.
Hypothesis Hlen : cv_len32 HO.
Notation bytes := (bytes HO).
Notation hash := (hash HO).
Notation outboard := (outboard HO).
Variable data : bytes.
Variable bs : N.
Hypothesis Hsize : blen HO data <= 2 ^ 63.
Hypothesis Hbs : bs <= 10.
Notation size := (blen HO data).
Notation B := (sp_blocks (blen HO data) bs).

Lemma Some_inj {A} (a b : A) : Some a = Some b -> a = b.
Proof. intro H. injection H as H. exact H. Qed.

Lemma parse_pair_inv (s : bytes) (l r : hash) : parse_pair HO s = (l, r) -> s = l ++ r.
Proof.
  unfold parse_pair. intro H.
  pose proof (f_equal fst H) as H1. pose proof (f_equal snd H) as H2. cbn [fst snd] in H1, H2.
  rewrite <- H1, <- H2. symmetry. apply firstn_skipn.
Qed.

Theorem sized_true_is_spec (ob : outboard) : ob_sized HO ob size bs ->
  (forall nd, pnode size bs nd -> stored_pair HO ob nd = Some (true_pair HO data nd)) ->
  ob_data ob = spec_outboard HO (is_post (ob_k ob)) data bs.
Proof.
  intros Hs Hall. pose proof Hs as [K T L].
  destruct (spec_pairs HO Hlen data bs Hsize Hbs (is_post (ob_k ob))) as (P & Hflat & HP32 & HL & Hfst & Htrue & _).
  rewrite Hflat.
  set (dflt := (0, ([], [])) : N * (hash * hash)).
  set (n := N.of_nat (length P)).
  set (F := fun i : N => pflat HO (nth (N.to_nat i) P dflt)).
  assert (F_len : forall i, i < n -> blen HO (F i) = 64).
  { intros i Hi. unfold F. assert (Hin : In (nth (N.to_nat i) P dflt) P) by (apply nth_In; unfold n in Hi; lia).
    rewrite Forall_forall in HP32. destruct (HP32 _ Hin) as [H1 H2].
    unfold pflat, blen. rewrite app_length, H1, H2. reflexivity. }
  rewrite flat_pairs_map. rewrite <- (map_nth_seq P dflt) at 1. rewrite map_map.
  rewrite (slots_concat HO F n F_len (length P) (ob_data ob) ltac:(unfold n; lia) ltac:(rewrite L, HL; lia)).
  - f_equal. apply map_ext. intro j. unfold F. rewrite Nat2N.id. reflexivity.
  - intros i Hi.
    assert (Hlt : (N.to_nat i < length P)%nat) by lia.
    set (p := nth (N.to_nat i) P dflt).
    assert (Hne : nth_error P (N.to_nat i) = Some p) by (apply nth_error_nth'; exact Hlt).
    assert (HinP : In p P) by (eapply nth_error_In; exact Hne).
    assert (Hj' : nth_error (shape_nodes_of HO data bs (is_post (ob_k ob))) (N.to_nat i) = Some (fst p)).
    { rewrite <- Hfst. apply map_nth_error. exact Hne. }
    destruct (seq_slot _ _ _ _ _ (shape_offsets HO data bs Hsize Hbs (ob_k ob) K ob eq_refl T) Hj') as [Ho Hik].
    assert (Hpn : pnode size bs (fst p)).
    { apply (pnode_shape HO data bs Hsize (is_post (ob_k ob))). eapply nth_error_In. exact Hj'. }
    pose proof (Hall _ Hpn) as Hsp. unfold stored_pair in Hsp.
    rewrite (proj1 (sized_load HO size bs Hsize Hbs ob (fst p) (N.of_nat (N.to_nat i)) Hs Ho ltac:(lia))) in Hsp.
    rewrite N2Nat.id in Hsp.
    rewrite Forall_forall in Htrue. rewrite <- (Htrue p HinP) in Hsp.
    unfold slot_ok. unfold F. fold p. unfold pflat.
    apply parse_pair_inv.
    remember (parse_pair HO (slice HO (i * 64) 64 (ob_data ob))) as pp eqn:Epp. clear Epp.
    apply Some_inj in Hsp. rewrite Hsp. destruct p as [n0 [l r]]. reflexivity.
Qed.

End Bytes.

(* ---- convergence ---- *)
Section Conv.
Variable HO : hops.
Hypothesis HOK : hash_ok HO.
Variable data : bytes HO.
Variable bs : N.
Hypothesis Hsize : blen HO data <= 2 ^ 63.
Hypothesis Hbs : bs <= 10.
Notation size := (blen HO data).
Notation B := (sp_blocks (blen HO data) bs).

Theorem inv_converges D (st : bytes HO * outboard HO) :
  Inv HO data bs D st -> (forall c, c < nchunks size -> D c = true) ->
  fst st = data /\ created_store HO data bs (snd st).
Proof.
  intros I HD. split; [exact (inv_converges_target HO data bs D st I HD)|].
  pose proof (inv_converges_pairs HO data bs Hsize Hbs D st I HD) as Hpaths.
  pose proof I as [I1 I2 I3 I4 I5 I6 I7].
  assert (Hall : forall nd, pnode size bs nd -> stored_pair HO (snd st) nd = Some (true_pair HO data nd)).
  { intros nd Hp. destruct (pnode_on_top_path size bs Hsize Hbs nd Hp) as (ga & rt & Hga & Hin).
    exact (Hpaths ga Hga nd rt Hin). }
  pose proof (sized_true_is_spec HO (ho_len HO HOK) data bs Hsize Hbs (snd st) I4 Hall) as Hd.
  destruct I4 as [K T L]. constructor; assumption.
Qed.

(* after any history (from any state of the invariant) whose delivered set covers all chunks *)
Theorem history_converges (ops : list (op HO)) D st :
  Forall (fun o => wf_ranges (op_q HO o) = true) ops -> Inv HO data bs D st ->
  exists D', Inv HO data bs D' (fold_left (hist_step HO) ops st) /\ (forall c, D c = true -> D' c = true) /\
    ((forall c, c < nchunks size -> D' c = true) ->
     fst (fold_left (hist_step HO) ops st) = data /\ created_store HO data bs (snd (fold_left (hist_step HO) ops st))).
Proof.
  intros Hops I. destruct (inv_history HO HOK data bs Hsize Hbs ops Hops D st I) as (D' & I' & Hmono).
  exists D'. split; [exact I'|]. split; [exact Hmono|]. intro HD. exact (inv_converges D' _ I' HD).
Qed.

End Conv.

(* ---- closed forms used by Props/C07.v ---- *)
Theorem c07_converges : forall (HO : hops), hash_ok HO ->
  forall (data : bytes HO) (bs : N), blen HO data <= 2 ^ 63 -> bs <= 10 ->
  forall D (st : bytes HO * outboard HO),
  Inv HO data bs D st -> (forall c, c < nchunks (blen HO data) -> D c = true) ->
  fst st = data /\
  ob_data (snd st) = spec_outboard HO (match ob_k (snd st) with PostIO | PostMem => true | _ => false end) data bs /\
  created_store HO data bs (snd st).
Proof.
  intros HO HOK data bs Hsize Hbs D st I HD.
  destruct (inv_converges HO HOK data bs Hsize Hbs D st I HD) as [E C].
  split; [exact E|]. split; [|exact C]. destruct C as [_ _ _ Dd]. exact Dd.
Qed.

Theorem c07_history_converges : forall (HO : hops), hash_ok HO ->
  forall (data : bytes HO) (bs : N), blen HO data <= 2 ^ 63 -> bs <= 10 ->
  forall ops : list (op HO), Forall (fun o => wf_ranges (op_q HO o) = true) ops ->
  forall D st, Inv HO data bs D st ->
  exists D', Inv HO data bs D' (fold_left (hist_step HO) ops st) /\ (forall c, D c = true -> D' c = true) /\
    ((forall c, c < nchunks (blen HO data) -> D' c = true) ->
     fst (fold_left (hist_step HO) ops st) = data /\
     created_store HO data bs (snd (fold_left (hist_step HO) ops st))).
Proof.
  intros HO HOK data bs Hsize Hbs ops Hops D st I.
  exact (history_converges HO HOK data bs Hsize Hbs ops D st Hops I).
Qed.

(* from the all-zero initial state *)
Theorem c07_history_converges_init : forall (HO : hops), hash_ok HO ->
  forall (data : bytes HO) (bs : N), blen HO data <= 2 ^ 63 -> bs <= 10 ->
  forall k, hist_kind k ->
  forall ops : list (op HO), Forall (fun o => wf_ranges (op_q HO o) = true) ops ->
  exists D', Inv HO data bs D' (fold_left (hist_step HO) ops (init_target HO data, init_ob HO data bs k)) /\
    ((forall c, c < nchunks (blen HO data) -> D' c = true) ->
     fst (fold_left (hist_step HO) ops (init_target HO data, init_ob HO data bs k)) = data /\
     created_store HO data bs (snd (fold_left (hist_step HO) ops (init_target HO data, init_ob HO data bs k)))).
Proof.
  intros HO HOK data bs Hsize Hbs k Hk ops Hops.
  destruct (history_converges HO HOK data bs Hsize Hbs ops (fun _ => false) _ Hops
              (init_inv HO data bs Hsize Hbs k Hk)) as (D' & I' & _ & H).
  exists D'. split; [exact I'|exact H].
Qed.

Theorem c07_pnode_on_path : forall (size bs : N), size <= 2 ^ 63 -> bs <= 10 ->
  forall nd, In nd (sp_pre_nodes size bs) -> sp_persisted size bs nd = true ->
  exists ga rt, ga < sp_blocks size bs /\ In (nd, rt) (top_path size bs ga).
Proof.
  intros size bs Hsize Hbs nd Hin Hp. apply (pnode_on_top_path size bs Hsize Hbs).
  rewrite pnodes_eq. apply filter_In. split; assumption.
Qed.

(* the fsm validators in a state of the invariant *)
Theorem c07_validator_exact_fsm : forall (HO : hops), hash_ok HO ->
  forall (data : bytes HO) (bs : N), blen HO data <= 2 ^ 63 -> bs <= 10 ->
  forall D (t : bytes HO) (ob : outboard HO) q,
  Inv HO data bs D (t, ob) ->
  (valid_ranges_fsm HO ob t q = valid_ranges HO ob t q /\
   valid_outboard_ranges_fsm HO ob q = valid_outboard_ranges HO ob q) /\
  (nondegenerate HO data -> 2 <= sp_blocks (blen HO data) bs -> wf_ranges q = true ->
   valid_ranges_fsm HO ob t q =
   (flat_map (fun ga => if touchedb q (blen HO data) bs ga && grp_full HO data bs D ga
                        then [(grp_start bs ga, grp_end (blen HO data) bs ga)] else [])
             (chunk_range_list 0 (sp_blocks (blen HO data) bs)), Ok tt)).
Proof.
  intros HO HOK data bs Hsize Hbs D t ob q I.
  pose proof I as [_ _ _ I4 _ _ _]. cbn [snd] in I4.
  assert (Hag : forall nd, In nd (sp_pre_nodes (blen HO data) bs) -> load_fsm HO ob nd = load_sync HO ob nd).
  { intros nd Hin. exact (proj2 (sized_loads HO (blen HO data) bs Hsize Hbs ob nd I4 Hin)). }
  pose proof (c06_sync_eq_fsm_tree HO (blen HO data) bs Hsize Hbs ob (os_tree HO ob _ _ I4) Hag t q) as E.
  split; [exact E|]. intros Hnd HB Hwf. rewrite (proj1 E).
  exact (inv_validator_exact HO HOK data bs Hsize Hbs D t ob q I Hnd HB Hwf).
Qed.
