(* L4: restricted_parent / right_descendant stay inside the tree and inside the right subtrees. *)
From BaoV Require Import Model.Node Spec.NodeSpec Proofs.NodeLevel Proofs.NodeBits Proofs.NodeAlgebra.
From Coq Require Import ZArith Lia.
Open Scope N_scope.

(* x lies in the node-id range of the subtree rooted at p *)
Definition in_sub (p x : N) : Prop :=
  sp_node_start p <= x /\ x < sp_node_start p + 2 ^ (level p + 1) - 1.

Lemma start_eq x : sp_node_start x = 2 * sp_index x * 2 ^ level x.
Proof. unfold sp_node_start. now rewrite level_is_sp_level. Qed.

Lemma in_sub_refl x : in_sub x x.
Proof.
  unfold in_sub. rewrite start_eq, pow2_succ.
  pose proof (level_decomp x). pose proof (pow2_pos (level x)). split; lia.
Qed.

Lemma start_parent_le c : sp_node_start (sp_parent c) <= sp_node_start c /\
  sp_node_start c + 2 ^ (level c + 1) <= sp_node_start (sp_parent c) + 2 ^ (level (sp_parent c) + 1).
Proof.
  rewrite !start_eq, level_sp_parent, index_sp_parent, !pow2_succ.
  pose proof (pow2_pos (level c)).
  set (P := 2 ^ level c) in *. set (k := sp_index c).
  assert (E : k = 2 * (k / 2) \/ k = 2 * (k / 2) + 1) by lia.
  set (q := k / 2) in *. clearbody P q k.
  destruct E as [-> | ->]; split; lia.
Qed.

Lemma in_sub_parent c x : in_sub c x -> in_sub (sp_parent c) x.
Proof.
  unfold in_sub. intros [H1 H2]. destruct (start_parent_le c) as [A B]. split; lia.
Qed.

Lemma parent_none x : level x = 63 -> parent x = None.
Proof. intros H. unfold parent. now rewrite H. Qed.

Lemma parent_some x q : parent x = Some q -> level x <> 63 /\ q = sp_parent x.
Proof.
  intros H. destruct (N.eq_dec (level x) 63) as [E|E].
  - rewrite parent_none in H by assumption. discriminate.
  - rewrite parent_gen in H by assumption. injection H as <-. now split.
Qed.

(* ---- restricted_parent: soundness ---- *)
Lemma rp_loop_sound x len : forall fuel curr p,
  level x <= level curr -> in_sub curr x ->
  restricted_parent_loop fuel curr len = Some p ->
  p < len /\ level x < level p /\ in_sub p x.
Proof.
  induction fuel as [|f IH]; intros curr p Hl Hs H; cbn [restricted_parent_loop] in H; [discriminate|].
  destruct (parent curr) as [q|] eqn:Eq; [|discriminate].
  apply parent_some in Eq. destruct Eq as [_ ->].
  pose proof (level_sp_parent curr) as Lq. pose proof (in_sub_parent curr x Hs) as Sq.
  destruct (N.ltb_spec (sp_parent curr) len) as [Lt|Ge].
  - injection H as <-. split; [assumption|]. split; [lia|assumption].
  - apply (IH (sp_parent curr) p); [lia|assumption|assumption].
Qed.

Lemma restricted_parent_sound : forall x len p, x < 2 ^ 62 -> restricted_parent x len = Some p ->
  p < len /\ level x < level p /\ sp_node_start p <= x /\ x < sp_node_start p + 2 ^ (level p + 1) - 1.
Proof.
  intros x len p _ H. unfold restricted_parent in H.
  apply (rp_loop_sound x len) in H; [|lia|apply in_sub_refl]. exact H.
Qed.

(* ---- right_descendant ---- *)
Definition in_right (x n : N) : Prop :=
  level n < level x /\ x + 1 <= sp_node_start n /\
  sp_node_start n + 2 ^ (level n + 1) <= sp_node_start x + 2 ^ (level x + 1).

Lemma left_child_some n c : left_child n = Some c -> 0 < level n /\ c = sp_left n.
Proof.
  intros H. destruct (N.eq_dec (level n) 0) as [E|E].
  - destruct (leaf_no_children n E) as [E1 _]. rewrite E1 in H. discriminate.
  - rewrite left_child_spec in H by lia. injection H as <-. split; [lia|reflexivity].
Qed.

Lemma right_child_some n c : right_child n = Some c -> 0 < level n /\ c = sp_right n.
Proof.
  intros H. destruct (N.eq_dec (level n) 0) as [E|E].
  - destruct (leaf_no_children n E) as [_ [E1 _]]. rewrite E1 in H. discriminate.
  - rewrite right_child_spec in H by lia. injection H as <-. split; [lia|reflexivity].
Qed.

Lemma in_right_left x n : 0 < level n -> in_right x n -> in_right x (sp_left n).
Proof.
  unfold in_right. intros Hl (H1 & H2 & H3).
  rewrite (start_eq n) in *. rewrite (start_eq (sp_left n)), level_sp_left, index_sp_left.
  replace (level n - 1 + 1) with (level n) by lia. rewrite (pow2_succ (level n)) in H3.
  rewrite (pow2_pred (level n)) in * by lia.
  pose proof (pow2_pos (level n - 1)).
  split; [lia|]. clear Hl H1.
  generalize dependent (2 ^ (level n - 1)). generalize (2 ^ (level x + 1)). intros R Q. lia.
Qed.

Lemma in_right_right x : 0 < level x -> in_right x (sp_right x).
Proof.
  unfold in_right. intros Hl. rewrite !start_eq, level_sp_right, index_sp_right.
  replace (level x - 1 + 1) with (level x) by lia. rewrite pow2_succ.
  pose proof (level_decomp x) as D.
  rewrite (pow2_pred (level x)) in * by lia.
  pose proof (pow2_pos (level x - 1)).
  split; [lia|]. split; lia.
Qed.

Lemma rd_loop_sound x len : forall fuel n d,
  in_right x n -> right_descendant_loop fuel n len = Some d -> d < len /\ in_right x d.
Proof.
  induction fuel as [|f IH]; intros n d Hn H; cbn [right_descendant_loop] in H; [discriminate|].
  destruct (N.leb_spec len n) as [Le|Gt].
  - destruct (left_child n) as [c|] eqn:Ec; [|discriminate].
    apply left_child_some in Ec. destruct Ec as [L ->].
    apply (IH (sp_left n) d); [now apply in_right_left|assumption].
  - injection H as <-. now split.
Qed.

Lemma right_descendant_sound : forall x len d, x < 2 ^ 62 -> right_descendant x len = Some d ->
  d < len /\ level d < level x /\ x < d /\ d < sp_node_start x + 2 ^ (level x + 1) - 1.
Proof.
  intros x len d _ H. unfold right_descendant in H.
  destruct (right_child x) as [r|] eqn:Er; [|discriminate].
  apply right_child_some in Er. destruct Er as [L ->].
  apply (rd_loop_sound x len) in H; [|now apply in_right_right].
  destruct H as [Hlt (H1 & H2 & H3)]. split; [assumption|]. split; [assumption|].
  rewrite start_eq in H2. rewrite pow2_succ in H3. rewrite (start_eq d) in H3.
  pose proof (level_decomp d) as D. pose proof (pow2_pos (level d)).
  split; lia.
Qed.

(* ---- restricted_parent: completeness (the fuel never runs out) ---- *)
(* a proper ancestor of c is the parent of c or a proper ancestor of the parent *)
Lemma anc_step c p : level c < level p -> in_sub p c ->
  p = sp_parent c \/ (level (sp_parent c) < level p /\ in_sub p (sp_parent c)).
Proof.
  intros Hl [H1 H2]. unfold in_sub.
  rewrite start_eq in *. rewrite level_sp_parent.
  pose proof (level_decomp c) as Dc. pose proof (level_decomp p) as Dp.
  assert (Ds : sp_parent c + 1 = (2 * (sp_index c / 2) + 1) * 2 ^ (level c + 1)).
  { unfold sp_parent. rewrite <- level_is_sp_level. apply sp_node_succ. }
  remember (sp_parent c) as s eqn:Es in *. clear Es.
  rewrite pow2_succ in *.
  assert (El : exists d, level p = d + (level c + 1)) by (exists (level p - level c - 1); lia).
  destruct El as [d El].
  rewrite El in *. rewrite pow2_add, pow2_succ in *.
  pose proof (pow2_pos (level c)) as HP. pose proof (pow2_pos d) as HE.
  assert (Ek : sp_index c = 2 * (sp_index c / 2) \/ sp_index c = 2 * (sp_index c / 2) + 1) by lia.
  remember (sp_index c / 2) as q eqn:Eq in *. remember (sp_index c) as k eqn:Ek' in *.
  remember (sp_index p) as kp eqn:Ekp in *. clear Eq Ek' Ekp.
  remember (2 ^ level c) as P eqn:EP in *. clear EP.
  assert (Ed : d = 0 \/ 0 < d) by lia.
  destruct Ed as [Ed|Ed].
  - (* p is the parent *)
    left. rewrite Ed, N.pow_0_r in *. clear El Hl HE Ed.
    assert (kp = q) by nia. subst kp. nia.
  - right. split; [lia|].
    rewrite (pow2_pred d) in * by lia.
    remember (2 ^ (d - 1)) as E eqn:EE in *. clear EE El Ed Hl.
    assert (B1 : kp * (2 * E) <= q) by nia.
    assert (B2 : q + 1 <= (kp + 1) * (2 * E)) by nia.
    assert (C1 : kp * (2 * E) * P <= q * P) by (apply N.mul_le_mono_r; exact B1).
    assert (C2 : (q + 1) * P <= (kp + 1) * (2 * E) * P) by (apply N.mul_le_mono_r; exact B2).
    split; nia.
Qed.

Lemma rp_loop_none len : forall fuel curr,
  level curr <= 63 -> (N.to_nat (64 - level curr) <= fuel)%nat ->
  restricted_parent_loop fuel curr len = None ->
  forall p, level curr < level p -> level p <= 63 -> in_sub p curr -> len <= p.
Proof.
  induction fuel as [|f IH]; intros curr L63 Hf H p Hlp Hp63 Hs; [lia|].
  cbn [restricted_parent_loop] in H.
  destruct (N.eq_dec (level curr) 63) as [E|E]; [lia|].
  rewrite parent_gen in H by assumption.
  pose proof (level_sp_parent curr) as Lq.
  destruct (N.ltb_spec (sp_parent curr) len) as [Lt|Ge]; [discriminate|].
  destruct (anc_step curr p Hlp Hs) as [->|[Hl' Hs']]; [assumption|].
  apply (IH (sp_parent curr)); try assumption; lia.
Qed.

Lemma restricted_parent_none : forall x len, x < 2 ^ 62 -> restricted_parent x len = None ->
  forall p, (level x < level p /\ level p <= 62 /\
             sp_node_start p <= x < sp_node_start p + 2 ^ (level p + 1) - 1) -> len <= p.
Proof.
  intros x len Hx H p (H1 & H2 & H3). unfold restricted_parent in H.
  pose proof (lt62_level x Hx) as L.
  apply (rp_loop_none len 65 x); try assumption; try lia.
Qed.
