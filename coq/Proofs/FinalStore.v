(* Final composition, part 1 (C03): a store created by the crate is intact.
   The outboard bytes spec_outboard HO post data bs are the concatenation, by slot, of the true pairs of the
   persisted nodes of the Shape (in pre / post order); the i-th persisted node has slot i (C12), so every
   load of a persisted node returns the blob's true pair, sync and fsm alike. *)
From BaoV Require Import Model.Sync Model.Fsm Spec.EncSpec Spec.PlanSpec Spec.NodeSpec Spec.HashAssm.
From BaoV Require Import Proofs.NodeLevel Proofs.ObBase Proofs.ObLoop Proofs.ObCreate Proofs.ObSize Proofs.ObLayout Proofs.ObLayoutC
  Proofs.E2EOutboard.
From BaoV Require Proofs.Compose Proofs.ShapePre Proofs.ShapePost Proofs.ShapeList.
From BaoV Require Import Proofs.ValSpec Proofs.HistOb.
From Coq Require Import Lia Arith PeanoNat ZArith Permutation.
Open Scope N_scope.
Arguments N.add : simpl never.
Arguments N.sub : simpl never.
Arguments N.mul : simpl never.
Arguments N.pow : simpl never.
Arguments N.div : simpl never.
Arguments N.modulo : simpl never.
Arguments N.min : simpl never.
Arguments N.max : simpl never.

(* ---- lists numbered by a sequence ---- *)
Lemma nth_error_map' {A B} (f : A -> B) l i : nth_error (map f l) i = option_map f (nth_error l i).
Proof.
  revert i. induction l as [|x l IH]; intros [|i]; cbn [map nth_error option_map]; try reflexivity. apply IH.
Qed.

Lemma seq_slot {A} (f : A -> option N) (l : list A) (k : nat) (i : nat) (x : A) :
  map f l = map (fun i => Some (N.of_nat i)) (seq 0 k) -> nth_error l i = Some x ->
  f x = Some (N.of_nat i) /\ (i < k)%nat.
Proof.
  intros E Hx. pose proof (f_equal (fun l => nth_error l i) E) as H. cbv beta in H.
  rewrite !nth_error_map', Hx in H. cbn [option_map] in H.
  destruct (nth_error (seq 0 k) i) as [j|] eqn:Ej; [|discriminate]. cbn [option_map] in H.
  assert (Hi : (i < length (seq 0 k))%nat) by (apply nth_error_Some; congruence).
  rewrite seq_length in Hi.
  apply (nth_error_nth _ _ O) in Ej. rewrite seq_nth in Ej by exact Hi. cbn [Nat.add] in Ej. subst j.
  injection H as H. split; [exact H|exact Hi].
Qed.

Lemma nth_error_map_inv {A B} (f : A -> B) l i y : nth_error (map f l) i = Some y ->
  exists x, nth_error l i = Some x /\ f x = y.
Proof.
  rewrite nth_error_map'. destruct (nth_error l i) as [x|]; cbn [option_map]; [|discriminate].
  intro H. injection H as <-. exists x. split; reflexivity.
Qed.

Section Bytes.
Variable HO : hops.
Notation bytes := (bytes HO).
Notation hash := (hash HO).

(* slot i of the concatenation of 64-byte pairs *)
Lemma slot_of_flat : forall (P : list (N * (hash * hash))), Forall (pair32 HO) P ->
  forall i p, nth_error P i = Some p ->
  slice HO (N.of_nat i * 64) 64 (flat_pairs HO P) = fst (snd p) ++ snd (snd p).
Proof.
  induction 1 as [|p0 P [H1 H2] _ IH]; intros i p Hi; [destruct i; discriminate|].
  change (p0 :: P) with ([p0] ++ P). rewrite flat_pairs_app.
  assert (E0 : flat_pairs HO [p0] = fst (snd p0) ++ snd (snd p0)).
  { unfold flat_pairs. cbn [map concat]. apply app_nil_r. }
  assert (L0 : blen HO (flat_pairs HO [p0]) = 64).
  { rewrite E0. unfold blen. rewrite app_length, H1, H2. reflexivity. }
  destruct i as [|i].
  - cbn [nth_error] in Hi. injection Hi as <-. unfold slice. cbn [N.of_nat]. rewrite N.mul_0_l, drop_0.
    rewrite <- L0. rewrite take_app_exact. exact E0.
  - cbn [nth_error] in Hi. unfold slice. rewrite drop_app_ge by (rewrite L0; lia).
    rewrite L0. replace (N.of_nat (S i) * 64 - 64) with (N.of_nat i * 64) by lia.
    exact (IH i p Hi).
Qed.

Lemma parse_flat (l r : hash) : length l = 32%nat -> parse_pair HO (l ++ r) = (l, r).
Proof. apply parse_combine. Qed.
End Bytes.

Section Store.
Variable HO : hops.
Hypothesis Hlen : cv_len32 HO.
Notation bytes := (bytes HO).
Notation hash := (hash HO).
Notation outboard := (outboard HO).
Variable data : bytes.
Variable bs : N.
Hypothesis Hsize : blen HO data <= 2 ^ 63.
Hypothesis Hbs : bs <= 10.
Notation size := (blen HO data).
Notation nch := (blob_chunks HO data).
Notation t := (mkTree (blen HO data) bs).
Notation B := (sp_blocks (blen HO data) bs).

Definition shape_nodes_of (post : bool) : list N :=
  filter (sp_persisted size bs) (if post then sp_post_nodes size bs else sp_pre_nodes size bs).

(* the specified outboard is the concatenation of the true pairs of the persisted nodes, in order *)
Lemma spec_pairs (post : bool) : exists P : list (N * (hash * hash)),
  spec_outboard HO post data bs = flat_pairs HO P /\
  Forall (pair32 HO) P /\
  length P = N.to_nat (B - 1) /\
  map fst P = shape_nodes_of post /\
  Forall (fun p => snd p = true_pair HO data (fst p)) P /\
  (forall p, In p (saves HO data (post_plan size bs)) <-> In p P).
Proof.
  pose proof (ObLoop.sp_blocks_pos size bs) as Hb1. pose proof (blocks_le_63 HO data bs Hsize) as Hm.
  pose proof (sp_blocks_last size bs) as Hlast.
  exists (pairs_rec HO 64 post data bs nch 0 B).
  destruct (pairs_rec_len HO Hlen data bs nch post (nchunks_bound _ Hsize) 63 64 0 B
              ltac:(lia) Hb1 Hm ltac:(exact Hlast)) as [HL HP32].
  assert (Hsh : filter (sp_persisted size bs) (map (unshift bs) (sh_list post 65 0 B))
                = map fst (pairs_rec HO 64 post data bs nch 0 B)).
  { apply (shape_nodes HO data bs post 63 65 64 0 B); try lia; try exact Hm.
    - exact Hlast.
    - exists 63, 0. split; [lia|split; [lia|split; [exact Hm|right]]].
      rewrite N.add_0_l. apply sp_blocks_cover. }
  assert (Htrue : Forall (fun p => snd p = true_pair HO data (fst p)) (pairs_rec HO 64 post data bs nch 0 B)).
  { apply (pairs_true HO data bs post 63 64 0 B ltac:(lia) Hb1 Hm).
    exists 63, 0. split; [lia|split; [exact Hm|right]].
    pose proof (sp_blocks_cover size bs) as Hc. rewrite N.add_0_l. exact Hc. }
  pose proof (spec_outboard_flat HO data bs post) as Hflat.
  assert (Hsaves : forall p, In p (saves HO data (post_plan size bs)) <-> In p (pairs_rec HO 64 post data bs nch 0 B)).
  { intro p. unfold post_plan. rewrite <- (pairs_eq_saves HO data bs Hsize 65 64) by lia.
    destruct post; [reflexivity|apply pairs_in_equiv]. }
  set (P := pairs_rec HO 64 post data bs nch 0 B) in *. clearbody P.
  split; [exact Hflat|]. split; [exact HP32|]. split; [exact HL|]. split; [|split; [exact Htrue|exact Hsaves]].
  rewrite <- Hsh. unfold shape_nodes_of. destruct post.
  - rewrite sp_post_nodes_eq. reflexivity.
  - rewrite sp_pre_nodes_eq. reflexivity.
Qed.

Lemma pnode_shape (post : bool) nd : pnode size bs nd <-> In nd (shape_nodes_of post).
Proof.
  unfold shape_nodes_of. destruct post.
  - apply (pnode_post size bs Hsize).
  - rewrite pnodes_eq. reflexivity.
Qed.

Lemma shape_offsets (k : ob_kind) : hist_kind k ->
  forall ob : outboard, ob_k ob = k -> ob_tree ob = t ->
  map (ob_offset HO ob) (shape_nodes_of (is_post k)) = map (fun i => Some (N.of_nat i)) (seq 0 (N.to_nat (B - 1))).
Proof.
  intros Hk ob K T.
  pose proof (ShapePre.pre_offsets_spec size bs Hsize Hbs) as Pre.
  pose proof (ShapePost.post_offsets_spec size bs Hsize Hbs) as Post.
  unfold shape_nodes_of.
  destruct Hk as [E|[E|[E|E]]]; subst k; cbn [is_post];
    [rewrite <- Pre|rewrite <- Post|rewrite <- Pre|rewrite <- Post];
    apply map_ext; intro nd; unfold ob_offset; rewrite K, T; reflexivity.
Qed.

(* a store holding the specified outboard of the blob *)
Record created_store (ob : outboard) : Prop := mk_created {
  cs_kind : hist_kind (ob_k ob);
  cs_tree : ob_tree ob = t;
  cs_root : ob_root ob = root_hash HO data;
  cs_data : ob_data ob = spec_outboard HO (is_post (ob_k ob)) data bs }.

Lemma created_sized (ob : outboard) : hist_kind (ob_k ob) -> ob_tree ob = t ->
  ob_data ob = spec_outboard HO (is_post (ob_k ob)) data bs -> ob_sized HO ob size bs.
Proof.
  intros K T D. constructor; [exact K|exact T|].
  rewrite D. apply (spec_outboard_size HO Hlen data bs _ Hsize).
Qed.

Lemma created_loads_pnode (ob : outboard) : hist_kind (ob_k ob) -> ob_tree ob = t ->
  ob_data ob = spec_outboard HO (is_post (ob_k ob)) data bs ->
  forall nd, pnode size bs nd ->
  load_sync HO ob nd = Ok (Some (true_pair HO data nd)) /\ load_fsm HO ob nd = Ok (Some (true_pair HO data nd)).
Proof.
  intros K T D nd Hp.
  pose proof (created_sized ob K T D) as Hs.
  destruct (spec_pairs (is_post (ob_k ob))) as (P & Hflat & HP32 & HL & Hfst & Htrue & _).
  apply (pnode_shape (is_post (ob_k ob))) in Hp.
  destruct (In_nth_error _ _ Hp) as (i & Hi).
  destruct (seq_slot _ _ _ i nd (shape_offsets (ob_k ob) K ob eq_refl T) Hi) as [Ho Hik].
  rewrite <- Hfst in Hi. destruct (nth_error_map_inv fst P i nd Hi) as (p & Hpi & Hfp).
  assert (HinP : In p P) by (eapply nth_error_In; exact Hpi).
  rewrite Forall_forall in HP32, Htrue.
  destruct (HP32 p HinP) as [L1 L2]. pose proof (Htrue p HinP) as Ht. rewrite Hfp in Ht.
  assert (Hslot : parse_pair HO (slice HO (N.of_nat i * 64) 64 (ob_data ob)) = true_pair HO data nd).
  { rewrite D, Hflat, (slot_of_flat HO P ltac:(apply Forall_forall; exact HP32) i p Hpi).
    rewrite (parse_flat HO _ _ L1). rewrite <- Ht. destruct p as [n0 [l r]]. reflexivity. }
  destruct (sized_load HO size bs Hsize Hbs ob nd (N.of_nat i) Hs Ho ltac:(lia)) as [E1 E2].
  rewrite E1, E2, Hslot. split; reflexivity.
Qed.

Lemma created_loads_none (ob : outboard) : hist_kind (ob_k ob) -> ob_tree ob = t ->
  forall nd, In nd (sp_pre_nodes size bs) -> sp_persisted size bs nd = false ->
  load_sync HO ob nd = Ok None /\ load_fsm HO ob nd = Ok None.
Proof.
  intros K T nd Hin Ep. apply sized_load_none. unfold ob_offset. rewrite T.
  pose proof (ShapePre.pre_none_spec size bs nd Hsize Hbs Hin Ep) as N1.
  assert (Hin' : In nd (sp_post_nodes size bs))
    by (eapply Permutation_in; [apply (ShapeList.pre_post_perm size bs Hsize)|exact Hin]).
  pose proof (ShapePost.post_none_spec size bs nd Hsize Hbs Hin' Ep) as N2.
  destruct K as [K|[K|[K|K]]]; rewrite K; assumption.
Qed.

(* ---- saving all pairs into a pre-sized store of any kind gives the specified outboard ---- *)
Section SizedLayout.
Variable k : ob_kind.
Hypothesis Hk : hist_kind k.
Variable P : list (N * (hash * hash)).
Hypothesis HP32 : Forall (pair32 HO) P.
Hypothesis HPL : length P = N.to_nat (B - 1).
Hypothesis HPfst : map fst P = shape_nodes_of (is_post k).

Let dflt : N * (hash * hash) := (0, ([], [])).
Let n := N.of_nat (length P).
Let F (i : N) : bytes := pflat HO (nth (N.to_nat i) P dflt).

Lemma F_len64 i : i < n -> blen HO (F i) = 64.
Proof.
  intro Hi. unfold F. assert (Hin : In (nth (N.to_nat i) P dflt) P) by (apply nth_In; unfold n in Hi; lia).
  rewrite Forall_forall in HP32. destruct (HP32 _ Hin) as [H1 H2].
  unfold pflat, blen. rewrite app_length, H1, H2. reflexivity.
Qed.

Lemma P_slot (ob : outboard) p : ob_k ob = k -> ob_tree ob = t -> In p P ->
  exists j, j < n /\ ob_offset HO ob (fst p) = Some j /\ pflat HO p = F j /\ bs <= level (fst p).
Proof.
  intros K T Hin. destruct (In_nth_error _ _ Hin) as (j & Hj).
  assert (Hj' : nth_error (shape_nodes_of (is_post k)) j = Some (fst p)).
  { rewrite <- HPfst. apply map_nth_error. exact Hj. }
  destruct (seq_slot _ _ _ j (fst p) (shape_offsets k Hk ob K T) Hj') as [Ho Hjk].
  exists (N.of_nat j). split; [unfold n; lia|]. split; [exact Ho|]. split.
  - unfold F. rewrite Nat2N.id. f_equal. symmetry. apply nth_error_nth. exact Hj.
  - apply (pnode_level size bs Hsize Hbs). apply (pnode_shape (is_post k)).
    eapply nth_error_In. exact Hj'.
Qed.

Lemma save_all_sized : forall S (ob : outboard), ob_k ob = k -> ob_tree ob = t ->
  blen HO (ob_data ob) = 64 * n -> (forall p, In p S -> In p P) ->
  exists d', save_all HO ob S = Ok (mkOb (ob_k ob) (ob_root ob) (ob_tree ob) d') /\ blen HO d' = 64 * n /\
    (forall i, i < n -> slot_ok HO F (ob_data ob) i -> slot_ok HO F d' i) /\
    (forall p, In p S -> forall j, ob_offset HO ob (fst p) = Some j -> slot_ok HO F d' j).
Proof.
  assert (Hn : n = B - 1) by (unfold n; rewrite HPL; lia).
  induction S as [|[nd [lh rh]] S IH]; intros ob K T Hd Hsub.
  - exists (ob_data ob). cbn [save_all]. split; [destruct ob; reflexivity|].
    split; [exact Hd|]. split; [auto|intros p []].
  - destruct (P_slot ob (nd, (lh, rh)) K T (Hsub _ (or_introl eq_refl))) as (j & Hj & Hoff & Hfl & Hlv).
    cbn [fst] in Hoff, Hlv. unfold pflat in Hfl. cbn [fst snd] in Hfl.
    assert (Hs : ob_sized HO ob size bs).
    { constructor; [rewrite K; exact Hk|exact T|]. rewrite Hd, Hn. lia. }
    cbn [save_all]. rewrite (sized_save HO size bs Hsize Hbs ob nd j lh rh Hs Hlv Hoff ltac:(lia)).
    unfold combine_pair. rewrite Hfl.
    destruct (write_slot HO F n F_len64 (ob_data ob) j Hj ltac:(lia)) as (W1 & W2 & W3).
    set (ob1 := mkOb (ob_k ob) (ob_root ob) (ob_tree ob) (write_at HO (ob_data ob) (j * 64) (F j))).
    assert (Hd1 : blen HO (ob_data ob1) = 64 * n).
    { unfold ob1. cbn [ob_data]. rewrite blen_write_at, (F_len64 j Hj). lia. }
    destruct (IH ob1 K T Hd1 (fun p Hp => Hsub p (or_intror Hp))) as (d' & E & L & K1 & K2).
    exists d'. split; [exact E|]. split; [exact L|]. split.
    + intros i Hi Hsl. apply K1; [exact Hi|]. apply W3; assumption.
    + intros p [<-|Hp] j' Hj'.
      * cbn [fst] in Hj'. rewrite Hoff in Hj'. injection Hj' as <-. apply K1; assumption.
      * apply (K2 p Hp j' Hj').
Qed.

Lemma sized_layout S (ob : outboard) : ob_k ob = k -> ob_tree ob = t ->
  blen HO (ob_data ob) = (B - 1) * 64 -> (forall p, In p S <-> In p P) ->
  save_all HO ob S = Ok (mkOb (ob_k ob) (ob_root ob) (ob_tree ob) (flat_pairs HO P)).
Proof.
  intros K T Hd Heq.
  assert (Hn : n = B - 1) by (unfold n; rewrite HPL; lia).
  destruct (save_all_sized S ob K T ltac:(lia) (fun p Hp => proj1 (Heq p) Hp)) as (d' & E & L & _ & K2).
  rewrite E. do 2 f_equal.
  rewrite flat_pairs_map. rewrite <- (map_nth_seq P dflt) at 1. rewrite map_map.
  rewrite (slots_concat HO F n F_len64 (length P) d' ltac:(unfold n; lia) ltac:(unfold n in L; lia)).
  - f_equal. apply map_ext. intro j. unfold F. rewrite Nat2N.id. reflexivity.
  - intros i Hi. fold n in Hi.
    assert (Hlt : (N.to_nat i < length P)%nat) by (unfold n in Hi; lia).
    assert (Hin : In (nth (N.to_nat i) P dflt) P) by (apply nth_In; exact Hlt).
    apply (K2 _ (proj2 (Heq _) Hin)).
    assert (Hne : nth_error P (N.to_nat i) = Some (nth (N.to_nat i) P dflt)) by (apply nth_error_nth'; exact Hlt).
    assert (Hj' : nth_error (shape_nodes_of (is_post k)) (N.to_nat i) = Some (fst (nth (N.to_nat i) P dflt))).
    { rewrite <- HPfst. apply map_nth_error. exact Hne. }
    destruct (seq_slot _ _ _ _ _ (shape_offsets k Hk ob K T) Hj') as [Ho _].
    rewrite Ho. f_equal. lia.
Qed.
End SizedLayout.

(* init on a pre-sized store of any of the four kinds, sync and fsm *)
Lemma sized_create (ob0 : outboard) : hist_kind (ob_k ob0) -> ob_tree ob0 = t ->
  blen HO (ob_data ob0) = (B - 1) * 64 ->
  save_all HO ob0 (saves HO data (post_plan size bs))
  = Ok (mkOb (ob_k ob0) (ob_root ob0) t (spec_outboard HO (is_post (ob_k ob0)) data bs)).
Proof.
  intros K T Hd.
  destruct (spec_pairs (is_post (ob_k ob0))) as (P & Hflat & HP32 & HL & Hfst & _ & Hsaves).
  rewrite Hflat, <- T.
  exact (sized_layout (ob_k ob0) K P HP32 HL Hfst _ ob0 eq_refl T Hd Hsaves).
Qed.

Lemma set_root_mk' k0 (h0 : hash) tr (d : bytes) (h : hash) : set_root HO (mkOb k0 h0 tr d) h = mkOb k0 h tr d.
Proof. reflexivity. Qed.

Lemma pre_mem_create_spec :
  pre_mem_create HO data bs = Ok (mkOb PreMem (root_hash HO data) t (spec_outboard HO false data bs)).
Proof.
  pose proof (e2e_plan HO data bs Hsize Hbs) as Hplan.
  assert (E : save_all HO (pre_mem_ob0 HO data bs) (saves HO data (post_plan size bs))
              = Ok (mkOb PreMem (zero_hash HO) t (spec_outboard HO false data bs))).
  { apply (sized_create (pre_mem_ob0 HO data bs)).
    - right. right. left. reflexivity.
    - reflexivity.
    - unfold pre_mem_ob0. cbn [ob_data]. rewrite blen_zeros. unfold outboard_size, outboard_hash_pairs.
      rewrite blocks_sp_blocks. lia. }
  rewrite pre_mem_create_unfold.
  rewrite <- (set_root_mk' PreMem (zero_hash HO) t (spec_outboard HO false data bs) (root_hash HO data)).
  exact (pre_mem_match HO _ _ _ _ (outboard_impl_ok HO data bs Hsize Hplan _ _ E)).
Qed.

(* re-initialising any pre-sized store of the four kinds, whatever it contains *)
Lemma init_from_sized (ob0 : outboard) : hist_kind (ob_k ob0) -> ob_tree ob0 = t ->
  blen HO (ob_data ob0) = (B - 1) * 64 ->
  init_from HO ob0 data
    = Ok (mkOb (ob_k ob0) (root_hash HO data) t (spec_outboard HO (is_post (ob_k ob0)) data bs)) /\
  init_from_fsm HO ob0 data
    = Ok (mkOb (ob_k ob0) (root_hash HO data) t (spec_outboard HO (is_post (ob_k ob0)) data bs)).
Proof.
  intros K T Hd. pose proof (e2e_plan HO data bs Hsize Hbs) as Hplan.
  pose proof (sized_create ob0 K T Hd) as E.
  split.
  - unfold init_from. rewrite T.
    rewrite <- (set_root_mk' (ob_k ob0) (ob_root ob0) t (spec_outboard HO (is_post (ob_k ob0)) data bs) (root_hash HO data)).
    exact (init_match HO _ _ _ _ (outboard_impl_ok HO data bs Hsize Hplan _ _ E)).
  - unfold init_from_fsm. rewrite T.
    rewrite <- (set_root_mk' (ob_k ob0) (ob_root ob0) t (spec_outboard HO (is_post (ob_k ob0)) data bs) (root_hash HO data)).
    exact (init_match HO _ _ _ _ (outboard_impl_fsm_ok HO data bs Hsize Hplan _ _ E)).
Qed.

End Store.

(* ---- closed form used by Props/C03.v ---- *)
Theorem c03_created_store_loads : forall (HO : hops), cv_len32 HO ->
  forall (data : bytes HO) (bs : N), blen HO data <= 2 ^ 63 -> bs <= 10 ->
  forall ob : outboard HO,
  (ob_k ob = PreIO \/ ob_k ob = PostIO \/ ob_k ob = PreMem \/ ob_k ob = PostMem) ->
  ob_tree ob = mkTree (blen HO data) bs ->
  ob_data ob = spec_outboard HO (match ob_k ob with PostIO | PostMem => true | _ => false end) data bs ->
  forall nd, In nd (sp_pre_nodes (blen HO data) bs) ->
  (sp_persisted (blen HO data) bs nd = true ->
     load_sync HO ob nd = Ok (Some (true_pair HO data nd)) /\ load_fsm HO ob nd = Ok (Some (true_pair HO data nd))) /\
  (sp_persisted (blen HO data) bs nd = false ->
     load_sync HO ob nd = Ok None /\ load_fsm HO ob nd = Ok None).
Proof.
  intros HO Hlen data bs Hsize Hbs ob K T D nd Hin. split; intro Ep.
  - apply (created_loads_pnode HO Hlen data bs Hsize Hbs ob K T D).
    rewrite pnodes_eq. apply filter_In. split; assumption.
  - exact (created_loads_none HO data bs Hsize Hbs ob K T nd Hin Ep).
Qed.

Theorem c03_pre_mem_create : forall (HO : hops), cv_len32 HO ->
  forall (data : bytes HO) (bs : N), blen HO data <= 2 ^ 63 -> bs <= 10 ->
  pre_mem_create HO data bs
  = Ok (mkOb PreMem (root_hash HO data) (mkTree (blen HO data) bs) (spec_outboard HO false data bs)).
Proof. intros HO Hlen data bs Hsize Hbs. exact (pre_mem_create_spec HO Hlen data bs Hsize Hbs). Qed.

(* all creation entry points of the model produce the store of created_store *)
Theorem c03_created_entry_points : forall (HO : hops), cv_len32 HO ->
  forall (data : bytes HO) (bs : N), blen HO data <= 2 ^ 63 -> bs <= 10 ->
  (create_sized HO PreIO data (blen HO data) bs
     = Ok (mkOb PreIO (root_hash HO data) (mkTree (blen HO data) bs) (spec_outboard HO false data bs)) /\
   create_sized_fsm HO PreIO data (blen HO data) bs
     = Ok (mkOb PreIO (root_hash HO data) (mkTree (blen HO data) bs) (spec_outboard HO false data bs))) /\
  (create_sized HO PostIO data (blen HO data) bs
     = Ok (mkOb PostIO (root_hash HO data) (mkTree (blen HO data) bs) (spec_outboard HO true data bs)) /\
   create_sized_fsm HO PostIO data (blen HO data) bs
     = Ok (mkOb PostIO (root_hash HO data) (mkTree (blen HO data) bs) (spec_outboard HO true data bs))) /\
  pre_mem_create HO data bs
     = Ok (mkOb PreMem (root_hash HO data) (mkTree (blen HO data) bs) (spec_outboard HO false data bs)) /\
  post_mem_create HO data bs
     = Ok (mkOb PostMem (root_hash HO data) (mkTree (blen HO data) bs) (spec_outboard HO true data bs)).
Proof.
  intros HO Hlen data bs Hsize Hbs.
  split; [exact (e2e_layout_pre HO data bs Hsize Hbs Hlen)|].
  split; [exact (e2e_layout_post HO data bs Hsize Hbs Hlen)|].
  split; [exact (pre_mem_create_spec HO Hlen data bs Hsize Hbs)|].
  pose proof (e2e_root_all_entry_points HO data bs Hsize Hbs) as H. cbv zeta in H.
  exact (proj2 (proj2 (proj2 (proj2 H)))).
Qed.

(* ---- the predicate "ob is a store created by the crate for (data, bs)" ---- *)
Definition created_by (HO : hops) (data : bytes HO) (bs : N) (ob : outboard HO) : Prop :=
  create_sized HO PreIO data (blen HO data) bs = Ok ob \/
  create_sized_fsm HO PreIO data (blen HO data) bs = Ok ob \/
  create_sized HO PostIO data (blen HO data) bs = Ok ob \/
  create_sized_fsm HO PostIO data (blen HO data) bs = Ok ob \/
  pre_mem_create HO data bs = Ok ob \/
  post_mem_create HO data bs = Ok ob.

Lemma created_store_def (HO : hops) (data : bytes HO) (bs : N) (ob : outboard HO) :
  created_store HO data bs ob <->
  (ob_k ob = PreIO \/ ob_k ob = PostIO \/ ob_k ob = PreMem \/ ob_k ob = PostMem) /\
  ob_tree ob = mkTree (blen HO data) bs /\
  ob_root ob = root_hash HO data /\
  ob_data ob = spec_outboard HO (match ob_k ob with PostIO | PostMem => true | _ => false end) data bs.
Proof.
  split.
  - intros [K T R D]. repeat split; assumption.
  - intros (K & T & R & D). constructor; assumption.
Qed.

Lemma created_store_mk (HO : hops) (data : bytes HO) (bs : N) (k : ob_kind) (d : bytes HO) :
  hist_kind k -> d = spec_outboard HO (is_post k) data bs ->
  created_store HO data bs (mkOb k (root_hash HO data) (mkTree (blen HO data) bs) d).
Proof. intros Hk Hd. constructor; cbn [ob_k ob_tree ob_root ob_data]; [exact Hk|reflexivity|reflexivity|exact Hd]. Qed.

Theorem c03_created_by_store : forall (HO : hops), cv_len32 HO ->
  forall (data : bytes HO) (bs : N), blen HO data <= 2 ^ 63 -> bs <= 10 ->
  forall ob : outboard HO, created_by HO data bs ob -> created_store HO data bs ob.
Proof.
  intros HO Hlen data bs Hsize Hbs ob H.
  destruct (c03_created_entry_points HO Hlen data bs Hsize Hbs) as ((A1 & A2) & (B1 & B2) & C & D).
  assert (K1 : hist_kind PreIO) by (left; reflexivity).
  assert (K2 : hist_kind PostIO) by (right; left; reflexivity).
  assert (K3 : hist_kind PreMem) by (right; right; left; reflexivity).
  assert (K4 : hist_kind PostMem) by (right; right; right; reflexivity).
  pose proof (created_store_mk HO data bs PreIO _ K1 eq_refl) as S1.
  pose proof (created_store_mk HO data bs PostIO _ K2 eq_refl) as S2.
  pose proof (created_store_mk HO data bs PreMem _ K3 eq_refl) as S3.
  pose proof (created_store_mk HO data bs PostMem _ K4 eq_refl) as S4.
  cbn [is_post] in S1, S2, S3, S4.
  destruct H as [H|[H|[H|[H|[H|H]]]]].
  - rewrite A1 in H. injection H as <-. exact S1.
  - rewrite A2 in H. injection H as <-. exact S1.
  - rewrite B1 in H. injection H as <-. exact S2.
  - rewrite B2 in H. injection H as <-. exact S2.
  - rewrite C in H. injection H as <-. exact S3.
  - rewrite D in H. injection H as <-. exact S4.
Qed.

Theorem c03_created_store_loads' : forall (HO : hops), cv_len32 HO ->
  forall (data : bytes HO) (bs : N), blen HO data <= 2 ^ 63 -> bs <= 10 ->
  forall ob : outboard HO, created_store HO data bs ob ->
  forall nd, In nd (sp_pre_nodes (blen HO data) bs) ->
  (sp_persisted (blen HO data) bs nd = true ->
     load_sync HO ob nd = Ok (Some (true_pair HO data nd)) /\ load_fsm HO ob nd = Ok (Some (true_pair HO data nd))) /\
  (sp_persisted (blen HO data) bs nd = false ->
     load_sync HO ob nd = Ok None /\ load_fsm HO ob nd = Ok None).
Proof.
  intros HO Hlen data bs Hsize Hbs ob [K T R D]. exact (c03_created_store_loads HO Hlen data bs Hsize Hbs ob K T D).
Qed.

Theorem c03_init_from_sized : forall (HO : hops), cv_len32 HO ->
  forall (data : bytes HO) (bs : N), blen HO data <= 2 ^ 63 -> bs <= 10 ->
  forall ob0 : outboard HO,
  (ob_k ob0 = PreIO \/ ob_k ob0 = PostIO \/ ob_k ob0 = PreMem \/ ob_k ob0 = PostMem) ->
  ob_tree ob0 = mkTree (blen HO data) bs ->
  blen HO (ob_data ob0) = (sp_blocks (blen HO data) bs - 1) * 64 ->
  exists ob, init_from HO ob0 data = Ok ob /\ init_from_fsm HO ob0 data = Ok ob /\
             ob_k ob = ob_k ob0 /\ created_store HO data bs ob.
Proof.
  intros HO Hlen data bs Hsize Hbs ob0 K T Hd.
  destruct (init_from_sized HO Hlen data bs Hsize Hbs ob0 K T Hd) as [E1 E2].
  eexists. split; [exact E1|]. split; [exact E2|]. split; [reflexivity|].
  apply created_store_mk; [exact K|reflexivity].
Qed.
