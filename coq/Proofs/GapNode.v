(* Gap audit for C18 (tree node navigation is a consistent algebra).
   The theorems of Props/C18.v were exported only for ids x < 2^62, shifts n <= 10 and
   enumerations of height <= 60.  Here they are re-established "for every node id":
     - with no bound at all where the model statement holds over all of N,
     - for every u64 id whose successor does not overflow (x < 2^64 - 1) where the
       word-level helper neg64 is involved,
     - and with explicit refutations at the first id / shift where a statement fails.
   New: the explicit enumeration of the complete subtree below a node
   (complete_post (level x) (sp_node_start x)) is tied to the child relation, to node_range,
   to count_below and to post_order_range.

   Remarks on the relation to the Rust (src/lib.rs:572-789), which the model idealises:
     * x = 2^64 - 1 (u64::MAX) is not a usable node id: count_below / mid / chunk_range /
       next_left_ancestor0 all start with self.0 + 1, which overflows.  The model computes
       x + 1 in N and then neg64 wraps, so the refutations at x = 2^64 - 1 below concern an
       id the Rust cannot handle either.
     * Model arithmetic is over N.  For the ids on the right edge of the largest tree
       (sp_chunk_end x = 2^64, e.g. x = 2^64 - 2 or the top root x = 2^63 - 1) the Rust
       expressions `mid + span` (chunk_range) and `lowest_bit * 2` (count_below at level 63)
       exceed u64 although the model values are what the formulas say; gap_ranges_fit_u64
       records exactly which results fit.  Such ids need a tree of 2^64 chunks = 2^74 bytes,
       which no u64 byte size can describe.
     * add_block_size / subtract_block_size take n : u8; for n >= 64 the Rust shifts overflow.
       The model statements for n >= 64 are statements about the model only. *)
From BaoV Require Import Model.Node Spec.NodeSpec Proofs.NodeLevel Proofs.NodeBits Proofs.NodeAlgebra Proofs.NodePost Proofs.NodeRestricted.
From Coq Require Import ZArith Lia ZifyBool ZifyNat ZifyN.
Open Scope N_scope.
Ltac Zify.zify_post_hook ::= Z.to_euclidean_division_equations.

Arguments N.add : simpl never.
Arguments N.sub : simpl never.
Arguments N.mul : simpl never.
Arguments N.pow : simpl never.
Arguments N.shiftl : simpl never.
Arguments N.shiftr : simpl never.
Arguments N.land : simpl never.
Arguments N.div : simpl never.
Arguments N.modulo : simpl never.

(* ------------------------------------------------------------------ *)
(* levels of u64 ids                                                   *)
(* ------------------------------------------------------------------ *)
Lemma succ_lt64 x : x < 2 ^ 64 - 1 -> x + 1 < 2 ^ 64.
Proof. pose proof (pow2_pos 64). lia. Qed.

Lemma level_lt_of_succ_lt x n : x + 1 < 2 ^ n -> level x < n.
Proof.
  intros H. pose proof (level_decomp x) as D.
  destruct (N.lt_ge_cases (level x) n) as [|G]; [assumption|exfalso].
  assert (2 ^ n <= 2 ^ level x) by (apply N.pow_le_mono_r; lia).
  nia.
Qed.

Lemma gap_level_u64 x : x < 2 ^ 64 - 1 -> level x <= 63.
Proof. intros H. apply succ_lt64, level_lt_of_succ_lt in H. lia. Qed.

(* among the u64 ids only the root of the largest tree has level 63 *)
Lemma gap_level63_unique x : x < 2 ^ 64 -> level x = 63 -> x = 2 ^ 63 - 1.
Proof.
  intros H L. pose proof (level_decomp x) as D. rewrite L in D.
  change (2 ^ 64) with (2 * 2 ^ 63) in H. pose proof (pow2_pos 63).
  assert (sp_index x = 0) by nia. nia.
Qed.

(* ------------------------------------------------------------------ *)
(* 1. children                                                         *)
(* ------------------------------------------------------------------ *)
Lemma gap_children x : 0 < level x -> level x <> 64 ->
  left_child x = Some (sp_left x) /\ right_child x = Some (sp_right x) /\
  parent (sp_left x) = Some x /\ parent (sp_right x) = Some x /\
  level (sp_left x) = level x - 1 /\ level (sp_right x) = level x - 1.
Proof.
  intros Hl H64. repeat split.
  - now apply left_child_spec.
  - now apply right_child_spec.
  - rewrite parent_gen by (rewrite level_sp_left; lia). now rewrite sp_parent_left.
  - rewrite parent_gen by (rewrite level_sp_right; lia). now rewrite sp_parent_right.
  - apply level_sp_left.
  - apply level_sp_right.
Qed.

Lemma gap_children_u64 x : x < 2 ^ 64 - 1 -> 0 < level x ->
  left_child x = Some (sp_left x) /\ right_child x = Some (sp_right x) /\
  parent (sp_left x) = Some x /\ parent (sp_right x) = Some x /\
  level (sp_left x) = level x - 1 /\ level (sp_right x) = level x - 1.
Proof. intros H Hl. apply gap_children; [assumption|]. apply gap_level_u64 in H. lia. Qed.

(* the children of a u64 id are u64 ids again: left < x < right < 2^64 - 1 *)
Lemma gap_children_fit_u64 x : x < 2 ^ 64 - 1 -> 0 < level x ->
  sp_left x < x /\ x < sp_right x /\ sp_right x < 2 ^ 64 - 1.
Proof.
  intros H Hl. pose proof (gap_level_u64 x H) as L63. apply succ_lt64 in H.
  unfold sp_left, sp_right, sp_node. rewrite <- level_is_sp_level.
  pose proof (level_decomp x) as D.
  set (m := 64 - level x).
  assert (E64 : 2 ^ 64 = 2 ^ m * (2 * 2 ^ (level x - 1))).
  { rewrite <- pow2_pred by lia. rewrite <- pow2_add. f_equal. unfold m. lia. }
  rewrite E64 in *. rewrite (pow2_pred (level x)) in D by lia.
  pose proof (pow2_pos (level x - 1)) as HP. pose proof (pow2_pos m) as HM.
  remember (2 ^ (level x - 1)) as P eqn:EP. remember (2 ^ m) as M eqn:EM.
  remember (sp_index x) as k eqn:Ek. clear EP EM Ek E64 m L63 Hl.
  assert (2 * k + 1 < M) by nia.
  assert ((2 * k + 2) * (2 * P) <= M * (2 * P)) by (apply N.mul_le_mono_r; lia).
  repeat split; nia.
Qed.

(* level 64 is the id u64::MAX: its children have level 63 and parent answers None for them *)
Lemma gap_children_top_refuted : exists x,
  x = 2 ^ 64 - 1 /\ 0 < level x /\ level x = 64 /\
  parent (sp_left x) = None /\ parent (sp_right x) = None.
Proof. exists (2 ^ 64 - 1). vm_compute. repeat split. Qed.

Lemma gap_children_nonvacuous :
  2 ^ 63 - 1 < 2 ^ 64 - 1 /\ 0 < level (2 ^ 63 - 1) /\ level (2 ^ 63 - 1) <> 64 /\
  left_child (2 ^ 63 - 1) = Some (2 ^ 62 - 1) /\ right_child (2 ^ 63 - 1) = Some (2 ^ 63 + 2 ^ 62 - 1).
Proof. vm_compute. repeat split; discriminate. Qed.

(* ------------------------------------------------------------------ *)
(* 2. parent                                                           *)
(* ------------------------------------------------------------------ *)
Lemma gap_parent x : level x <> 63 ->
  parent x = Some (sp_parent x) /\ level (sp_parent x) = level x + 1 /\
  (sp_left (sp_parent x) = x \/ sp_right (sp_parent x) = x).
Proof.
  intros H. split; [now apply parent_gen|]. split; [apply level_sp_parent|apply sp_parent_child].
Qed.

Lemma gap_parent_top x : level x = 63 -> parent x = None.
Proof. apply parent_none. Qed.

(* parent is total on the u64 ids except the top root, and stays within the u64 ids *)
Lemma gap_parent_u64 x : x < 2 ^ 64 - 1 -> x <> 2 ^ 63 - 1 ->
  parent x = Some (sp_parent x) /\ level (sp_parent x) = level x + 1 /\
  (sp_left (sp_parent x) = x \/ sp_right (sp_parent x) = x) /\
  sp_parent x < 2 ^ 64 - 1.
Proof.
  intros H Hne.
  assert (L : level x <> 63).
  { intros L. apply Hne. apply gap_level63_unique; [|assumption]. pose proof (pow2_pos 64). lia. }
  destruct (gap_parent x L) as (A & B & C). repeat split; try assumption.
  pose proof (gap_level_u64 x H) as L63. apply succ_lt64 in H.
  assert (Ds : sp_parent x + 1 = (2 * (sp_index x / 2) + 1) * 2 ^ (level x + 1)).
  { unfold sp_parent. rewrite <- level_is_sp_level. apply sp_node_succ. }
  pose proof (level_decomp x) as D.
  set (m := 62 - level x).
  assert (E64 : 2 ^ 64 = 4 * 2 ^ m * 2 ^ level x).
  { replace 64 with (m + 1 + 1 + level x) by (unfold m; lia). rewrite pow2_add, !pow2_succ. lia. }
  rewrite pow2_succ in Ds. rewrite E64 in *.
  pose proof (pow2_pos (level x)) as HP. pose proof (pow2_pos m) as HM.
  assert (Ek : 2 * (sp_index x / 2) <= sp_index x) by lia.
  remember (sp_index x / 2) as q eqn:Eq. remember (sp_index x) as k eqn:Ekk.
  remember (2 ^ level x) as P eqn:EP. remember (2 ^ m) as M eqn:EM.
  remember (sp_parent x) as s eqn:Es.
  clear Eq Ekk EP EM Es E64 A B C L L63 Hne m.
  assert (2 * k + 1 < 4 * M) by nia.
  assert (q + 1 <= M) by lia.
  assert ((q + 1) * P <= M * P) by (apply N.mul_le_mono_r; assumption).
  nia.
Qed.

Lemma gap_parent_nonvacuous :
  2 ^ 64 - 2 < 2 ^ 64 - 1 /\ 2 ^ 64 - 2 <> 2 ^ 63 - 1 /\ level (2 ^ 64 - 2) <> 63 /\
  parent (2 ^ 64 - 2) = Some (2 ^ 64 - 3) /\
  level (2 ^ 63 - 1) = 63 /\ parent (2 ^ 63 - 1) = None.
Proof. vm_compute. repeat split; discriminate. Qed.

(* ------------------------------------------------------------------ *)
(* 3. ranges, next left ancestor, right count: no bound                *)
(* ------------------------------------------------------------------ *)
Lemma gap_chunk_range x : chunk_range x = (sp_chunk_start x, sp_chunk_end x).
Proof. apply chunk_range_gen. Qed.

Lemma gap_chunk_range_split x : 0 < level x ->
  fst (chunk_range (sp_left x)) = fst (chunk_range x) /\
  snd (chunk_range (sp_left x)) = mid x /\
  fst (chunk_range (sp_right x)) = mid x /\
  snd (chunk_range (sp_right x)) = snd (chunk_range x).
Proof. apply chunk_range_split. Qed.

Lemma gap_node_range x :
  node_range x = (sp_node_start x, sp_node_start x + 2 ^ (level x + 1) - 1).
Proof. apply node_range_gen. Qed.

Lemma gap_next_left_ancestor x : next_left_ancestor x = sp_next_left_ancestor x.
Proof. apply next_left_ancestor_gen. Qed.

Lemma gap_right_count x : right_count x = popcount (sp_index x).
Proof. apply right_count_spec. Qed.

(* which of the range results of a u64 id are u64 values: the node range always is;
   the (exclusive) chunk range end can be exactly 2^64 on the right edge of the largest tree *)
Lemma gap_ranges_fit_u64 x : x < 2 ^ 64 - 1 ->
  snd (node_range x) < 2 ^ 64 /\ snd (chunk_range x) <= 2 ^ 64.
Proof.
  intros H. pose proof (gap_level_u64 x H) as L63. apply succ_lt64 in H.
  rewrite node_range_gen, chunk_range_gen. cbn [fst snd].
  rewrite start_eq. unfold sp_chunk_end. rewrite <- level_is_sp_level.
  pose proof (level_decomp x) as D. rewrite pow2_succ.
  set (m := 64 - level x).
  assert (E64 : 2 ^ 64 = 2 ^ m * 2 ^ level x).
  { rewrite <- pow2_add. f_equal. unfold m. lia. }
  rewrite E64 in *.
  pose proof (pow2_pos (level x)) as HP. pose proof (pow2_pos m) as HM.
  remember (2 ^ level x) as P eqn:EP. remember (2 ^ m) as M eqn:EM.
  remember (sp_index x) as k eqn:Ek. clear EP EM Ek E64 m L63.
  assert (2 * k + 1 < M) by nia.
  assert ((2 * k + 2) * P <= M * P) by (apply N.mul_le_mono_r; lia).
  split; nia.
Qed.

Lemma gap_chunk_range_edge :
  2 ^ 64 - 2 < 2 ^ 64 - 1 /\ snd (chunk_range (2 ^ 64 - 2)) = 2 ^ 64 /\
  snd (chunk_range (2 ^ 63 - 1)) = 2 ^ 64.
Proof. vm_compute. repeat split. Qed.

Lemma gap_chunk_range_split_nonvacuous :
  0 < level (2 ^ 63 - 1) /\ chunk_range (2 ^ 63 - 1) = (0, 2 ^ 64) /\
  chunk_range (sp_left (2 ^ 63 - 1)) = (0, 2 ^ 63) /\
  chunk_range (sp_right (2 ^ 63 - 1)) = (2 ^ 63, 2 ^ 64).
Proof. vm_compute. repeat split. Qed.

(* ------------------------------------------------------------------ *)
(* 4. count_below / post-order offsets: every id with x + 1 < 2^64     *)
(* ------------------------------------------------------------------ *)
Lemma gap_count_below x : x < 2 ^ 64 - 1 -> count_below x = 2 ^ (level x + 1) - 2.
Proof.
  intros H. apply succ_lt64 in H. unfold count_below.
  rewrite (lowest_bit_neg64 (x + 1) (level x) (sp_index x) (level_decomp x) H).
  rewrite pow2_succ. lia.
Qed.

Lemma gap_post_order_offset x : x < 2 ^ 64 - 1 -> post_order_offset_node x = sp_post_offset x.
Proof.
  intros H. unfold post_order_offset_node, sp_post_offset, sp_node_start.
  rewrite gap_count_below by assumption. rewrite <- level_is_sp_level.
  unfold next_left_ancestor0. rewrite clear_lowest_bit.
  pose proof (pow2_pos (level x)) as Hp. rewrite pow2_succ.
  pose proof (popcount_le (sp_index x)) as Hc.
  destruct (N.eqb_spec (sp_index x * (2 * 2 ^ level x)) 0) as [E|E].
  - assert (E0 : sp_index x = 0) by nia. rewrite E0. cbn [popcount]. lia.
  - replace (sp_index x * (2 * 2 ^ level x) - 1 + 1) with (sp_index x * 2 ^ (level x + 1))
      by (rewrite pow2_succ; lia).
    rewrite popcount_mul_pow2. nia.
Qed.

Lemma gap_post_order_range x : x < 2 ^ 64 - 1 ->
  post_order_range x = (sp_post_offset x - (2 ^ (level x + 1) - 2), sp_post_offset x + 1).
Proof.
  intros H. unfold post_order_range.
  now rewrite gap_post_order_offset, gap_count_below by assumption.
Qed.

(* at x = 2^64 - 1 the model's neg64 wraps (and the Rust's self.0 + 1 overflows) *)
Lemma gap_count_below_top_refuted : exists x,
  x = 2 ^ 64 - 1 /\ count_below x = 0 /\ 2 ^ (level x + 1) - 2 = 2 ^ 65 - 2 /\
  post_order_offset_node x = 0 /\ sp_post_offset x = 2 ^ 65 - 2 /\
  post_order_range x = (0, 1).
Proof. exists (2 ^ 64 - 1). vm_compute. repeat split. Qed.

(* ------------------------------------------------------------------ *)
(* 5. block size conversion                                            *)
(* ------------------------------------------------------------------ *)
Lemma gap_add_block_size x n :
  add_block_size x n = (if n <=? level x then Some (x / 2 ^ n) else None).
Proof. apply add_block_size_gen. Qed.

Lemma gap_subtract_add y n : (y + 1) * 2 ^ n <= 2 ^ 64 ->
  add_block_size (subtract_block_size y n) n = Some y /\
  level (subtract_block_size y n) = level y + n /\
  sp_index (subtract_block_size y n) = sp_index y.
Proof.
  intros H64. pose proof (pow2_pos n) as Hn.
  rewrite subtract_block_size_gen by assumption.
  set (z := (y + 1) * 2 ^ n - 1).
  assert (Dz : z + 1 = (2 * sp_index y + 1) * 2 ^ (level y + n)).
  { unfold z. rewrite pow2_add, N.mul_assoc, <- level_decomp. nia. }
  destruct (decomp_unique _ _ _ Dz) as [Lz Kz].
  split; [|split; assumption].
  rewrite add_block_size_gen, Lz.
  destruct (N.leb_spec n (level y + n)); [|lia]. f_equal.
  symmetry. apply N.div_unique with (r := 2 ^ n - 1); [lia|]. unfold z. nia.
Qed.

(* what add_block_size returns, in multiplicative form *)
Lemma add_block_size_some x y n : add_block_size x n = Some y -> (y + 1) * 2 ^ n = x + 1.
Proof.
  intros H. rewrite add_block_size_gen in H.
  destruct (N.leb_spec n (level x)) as [L|L]; [|discriminate].
  injection H as <-.
  pose proof (pow2_pos n) as Hn. pose proof (level_decomp x) as D.
  pose proof (pow2_pos (level x - n)) as Hn'.
  replace (level x) with ((level x - n) + n) in D by lia. rewrite pow2_add, N.mul_assoc in D.
  set (A := (2 * sp_index x + 1) * 2 ^ (level x - n)) in *.
  assert (1 <= A) by (unfold A; nia). clearbody A.
  assert (Ey : x / 2 ^ n = A - 1).
  { symmetry. apply N.div_unique with (r := 2 ^ n - 1); [lia|]. nia. }
  rewrite Ey. replace (A - 1 + 1) with A by lia. lia.
Qed.

Lemma gap_add_subtract x y n : x < 2 ^ 64 ->
  add_block_size x n = Some y -> subtract_block_size y n = x.
Proof.
  intros Hx H. apply add_block_size_some in H.
  rewrite subtract_block_size_gen; lia.
Qed.

Lemma subtract_block_size_lt64 y n : subtract_block_size y n < 2 ^ 64.
Proof.
  unfold subtract_block_size, not64. change (2 ^ 64) with 18446744073709551616.
  unfold MAX64. lia.
Qed.

(* the bound of gap_subtract_add is exact: once bits are shifted out of the word,
   subtract_block_size followed by add_block_size does not give the node back *)
Lemma gap_subtract_add_tight y n : 2 ^ 64 < (y + 1) * 2 ^ n ->
  add_block_size (subtract_block_size y n) n <> Some y.
Proof.
  intros H E. apply add_block_size_some in E.
  pose proof (subtract_block_size_lt64 y n). lia.
Qed.

Lemma gap_subtract_add_refuted : exists y n,
  y = 2 ^ 63 /\ n = 1 /\ y < 2 ^ 64 /\ subtract_block_size y n = 1 /\
  add_block_size (subtract_block_size y n) n = Some 0 /\
  add_block_size (subtract_block_size y n) n <> Some y.
Proof. exists (2 ^ 63), 1. vm_compute. repeat split. discriminate. Qed.

Lemma gap_add_subtract_nonvacuous :
  2 ^ 64 - 1 < 2 ^ 64 /\ add_block_size (2 ^ 64 - 1) 64 = Some 0 /\
  2 ^ 63 - 1 < 2 ^ 64 /\ add_block_size (2 ^ 63 - 1) 10 = Some (2 ^ 53 - 1) /\
  subtract_block_size (2 ^ 53 - 1) 10 = 2 ^ 63 - 1.
Proof. vm_compute. repeat split. Qed.

Lemma gap_subtract_add_nonvacuous :
  (2 ^ 54 - 1 + 1) * 2 ^ 10 <= 2 ^ 64 /\ subtract_block_size (2 ^ 54 - 1) 10 = 2 ^ 64 - 1 /\
  (2 ^ 53 - 1 + 1) * 2 ^ 10 <= 2 ^ 64 /\ subtract_block_size (2 ^ 53 - 1) 10 = 2 ^ 63 - 1.
Proof. vm_compute. repeat split; discriminate. Qed.

(* ------------------------------------------------------------------ *)
(* 6. post-order offsets against the explicit enumeration, h <= 63     *)
(* ------------------------------------------------------------------ *)
Lemma lt_pow_u64 (h : nat) x : (h <= 63)%nat -> x < 2 ^ (N.of_nat h + 1) - 1 -> x < 2 ^ 64 - 1.
Proof.
  intros Hh Hx.
  assert (2 ^ (N.of_nat h + 1) <= 2 ^ 64) by (apply N.pow_le_mono_r; lia). lia.
Qed.

Lemma gap_post_order_enum : forall (h : nat) x, (h <= 63)%nat -> x < 2 ^ (N.of_nat h + 1) - 1 ->
  nth_error (complete_post h 0) (N.to_nat (post_order_offset_node x)) = Some x.
Proof.
  intros h x Hh Hx. pose proof (lt_pow_u64 h x Hh Hx) as X64.
  rewrite gap_post_order_offset by assumption.
  destruct (post_enum_gen h 0 x) as (j & Hj & Hn); [lia|lia|].
  rewrite N.mul_0_l in Hj, Hn. cbn [popcount] in Hj.
  replace (sp_post_offset x) with j by lia. exact Hn.
Qed.

(* ------------------------------------------------------------------ *)
(* 7. restricted_parent / right_descendant: no bound on x              *)
(* ------------------------------------------------------------------ *)
Lemma gap_restricted_parent : forall x len p, restricted_parent x len = Some p ->
  p < len /\ level x < level p /\ sp_node_start p <= x /\ x < sp_node_start p + 2 ^ (level p + 1) - 1.
Proof.
  intros x len p H. unfold restricted_parent in H.
  apply (rp_loop_sound x len) in H; [|lia|apply in_sub_refl]. exact H.
Qed.

Lemma gap_right_descendant : forall x len d, right_descendant x len = Some d ->
  d < len /\ level d < level x /\ x < d /\ d < sp_node_start x + 2 ^ (level x + 1) - 1.
Proof.
  intros x len d H. unfold right_descendant in H.
  destruct (right_child x) as [r|] eqn:Er; [|discriminate].
  apply right_child_some in Er. destruct Er as [L ->].
  apply (rd_loop_sound x len) in H; [|now apply in_right_right].
  destruct H as [Hlt (H1 & H2 & H3)]. split; [assumption|]. split; [assumption|].
  rewrite start_eq in H2. rewrite pow2_succ in H3. rewrite (start_eq d) in H3.
  pose proof (level_decomp d) as D. pose proof (pow2_pos (level d)).
  split; lia.
Qed.

(* None means: no proper ancestor up to and including level 63 (the largest level parent can
   produce) is below len.  No bound on x: the 65 units of fuel cover levels 0..63. *)
Lemma gap_restricted_parent_none : forall x len, restricted_parent x len = None ->
  forall p, (level x < level p /\ level p <= 63 /\
             sp_node_start p <= x < sp_node_start p + 2 ^ (level p + 1) - 1) -> len <= p.
Proof.
  intros x len H p (H1 & H2 & H3). unfold restricted_parent in H.
  apply (rp_loop_none len 65 x); try assumption; try lia.
Qed.

Lemma gap_restricted_parent_nonvacuous :
  restricted_parent (2 ^ 64 - 2) (2 ^ 64 - 1) = Some (2 ^ 64 - 3) /\
  restricted_parent (2 ^ 64 - 2) (2 ^ 63) = Some (2 ^ 63 - 1) /\
  right_descendant (2 ^ 63 - 1) (2 ^ 63 + 5) = Some (2 ^ 63 + 3).
Proof. vm_compute. repeat split. Qed.

Lemma gap_restricted_parent_none_nonvacuous :
  restricted_parent (2 ^ 64 - 2) 1 = None /\
  level (2 ^ 64 - 2) < level (2 ^ 63 - 1) /\ level (2 ^ 63 - 1) <= 63 /\
  sp_node_start (2 ^ 63 - 1) <= 2 ^ 64 - 2 /\
  2 ^ 64 - 2 < sp_node_start (2 ^ 63 - 1) + 2 ^ (level (2 ^ 63 - 1) + 1) - 1.
Proof. vm_compute. repeat split; discriminate. Qed.

(* ------------------------------------------------------------------ *)
(* 8. the explicit enumeration of the complete subtree below a node    *)
(* ------------------------------------------------------------------ *)
Lemma complete_post_S h off :
  complete_post (S h) off =
  complete_post h off ++ complete_post h (off + 2 ^ (N.of_nat h + 1)) ++ [off + 2 ^ (N.of_nat h + 1) - 1].
Proof. cbn [complete_post]. now rewrite of_nat_S_pow'. Qed.

Lemma complete_post_In h : forall off y,
  In y (complete_post h off) <-> off <= y < off + 2 ^ (N.of_nat h + 1) - 1.
Proof.
  induction h as [|h IH]; intros off y.
  - cbn [complete_post In]. change (N.of_nat 0 + 1) with 1. rewrite N.pow_1_r.
    split; intros; lia.
  - rewrite complete_post_S, !in_app_iff, !IH. cbn [In]. rewrite of_nat_S_pow.
    pose proof (pow2_pos (N.of_nat h + 1)).
    split; intros; lia.
Qed.

Lemma NoDup_app_intro {A} (a b : list A) :
  NoDup a -> NoDup b -> (forall z, In z a -> In z b -> False) -> NoDup (a ++ b).
Proof.
  induction a as [|u a IH]; intros Ha Hb Hd; [exact Hb|].
  cbn [app]. inversion Ha as [|u' a' Hu Ha']; subst. constructor.
  - rewrite in_app_iff. intros [I|I]; [contradiction|]. apply (Hd u); [now left|assumption].
  - apply IH; try assumption. intros z I1 I2. apply (Hd z); [now right|assumption].
Qed.

Lemma complete_post_NoDup h : forall off, NoDup (complete_post h off).
Proof.
  induction h as [|h IH]; intros off.
  - cbn [complete_post]. constructor; [intros []|constructor].
  - rewrite complete_post_S. pose proof (pow2_pos (N.of_nat h + 1)).
    apply NoDup_app_intro; [apply IH| |].
    + apply NoDup_app_intro; [apply IH|constructor; [intros []|constructor]|].
      intros z I1 [I2|[]]. apply complete_post_In in I1. lia.
    + intros z I1 I2. apply in_app_iff in I2. apply complete_post_In in I1.
      destruct I2 as [I2|[I2|[]]]; [apply complete_post_In in I2|]; lia.
Qed.

(* the enumeration follows the child relation *)
Lemma gap_subtree_enum_leaf x : level x = 0 ->
  complete_post (N.to_nat (level x)) (sp_node_start x) = [x].
Proof.
  intros L. rewrite start_eq, L. change (N.to_nat 0) with 0%nat. cbn [complete_post].
  pose proof (level_decomp x) as D. rewrite L in D. rewrite N.pow_0_r in *. f_equal. lia.
Qed.

Lemma gap_subtree_enum_root x : 0 < level x ->
  sp_node_start (sp_left x) = sp_node_start x /\
  sp_node_start (sp_right x) = mid x /\
  complete_post (N.to_nat (level x)) (sp_node_start x) =
    complete_post (N.to_nat (level (sp_left x))) (sp_node_start (sp_left x)) ++
    complete_post (N.to_nat (level (sp_right x))) (sp_node_start (sp_right x)) ++ [x].
Proof.
  intros Hl. pose proof (level_decomp x) as D. unfold mid.
  assert (E1 : sp_node_start (sp_left x) = sp_node_start x).
  { rewrite !start_eq, level_sp_left, index_sp_left. rewrite (pow2_pred (level x)) by lia. lia. }
  assert (E2 : sp_node_start (sp_right x) = sp_node_start x + 2 ^ level x).
  { rewrite !start_eq, level_sp_right, index_sp_right. rewrite (pow2_pred (level x)) by lia. lia. }
  assert (E3 : sp_node_start x + 2 ^ level x = x + 1) by (rewrite start_eq; lia).
  split; [exact E1|]. split; [lia|].
  rewrite level_sp_left, level_sp_right, E1, E2.
  replace (N.to_nat (level x)) with (S (N.to_nat (level x - 1))) by lia.
  rewrite complete_post_S, N2Nat.id.
  replace (level x - 1 + 1) with (level x) by lia.
  do 3 f_equal. lia.
Qed.

Lemma gap_subtree_enum_last x : exists l,
  complete_post (N.to_nat (level x)) (sp_node_start x) = l ++ [x].
Proof.
  destruct (N.eq_dec (level x) 0) as [E|E].
  - exists []. now apply gap_subtree_enum_leaf.
  - destruct (gap_subtree_enum_root x) as (_ & _ & H); [lia|].
    rewrite H. eexists. rewrite app_assoc. reflexivity.
Qed.

(* node_range is exactly the set of ids of the enumeration, each listed once *)
Lemma gap_node_range_enum x y :
  In y (complete_post (N.to_nat (level x)) (sp_node_start x)) <->
  fst (node_range x) <= y < snd (node_range x).
Proof. rewrite node_range_gen, complete_post_In, N2Nat.id. cbn [fst snd]. reflexivity. Qed.

Lemma gap_subtree_enum_NoDup x : NoDup (complete_post (N.to_nat (level x)) (sp_node_start x)).
Proof. apply complete_post_NoDup. Qed.

(* count_below counts the enumeration without its last element, the node itself *)
Lemma gap_count_below_enum x : x < 2 ^ 64 - 1 ->
  N.of_nat (length (complete_post (N.to_nat (level x)) (sp_node_start x))) = count_below x + 1.
Proof.
  intros H. rewrite gap_count_below by assumption.
  rewrite complete_post_length, !N2Nat.id, !pow2_succ. pose proof (pow2_pos (level x)). lia.
Qed.

(* the subtree enumeration is a contiguous segment of the enumeration of any complete tree
   that contains the node; the segment starts where the spec offset says *)
Lemma post_seg_gen : forall (h : nat) c x,
  c * 2 ^ (N.of_nat h + 1) <= x -> x < (c + 1) * 2 ^ (N.of_nat h + 1) - 1 ->
  exists pre suf,
    complete_post h (c * 2 ^ (N.of_nat h + 1)) =
      pre ++ complete_post (N.to_nat (level x)) (sp_node_start x) ++ suf /\
    N.of_nat (length pre) + (c * 2 ^ (N.of_nat h + 1) - popcount c) =
      sp_node_start x - popcount (sp_index x).
Proof.
  induction h as [|h IH]; intros c x Hlo Hhi.
  - change (N.of_nat 0 + 1) with 1 in *. rewrite N.pow_1_r in *.
    assert (Ex : x = c * 2) by lia. subst x.
    assert (D : c * 2 + 1 = (2 * c + 1) * 2 ^ 0) by (rewrite N.pow_0_r; lia).
    destruct (decomp_unique _ _ _ D) as [L K].
    exists [], []. rewrite start_eq, L, K, N.pow_0_r. change (N.to_nat 0) with 0%nat.
    cbn [complete_post app length]. split; [f_equal; lia|lia].
  - rewrite of_nat_S_pow in *. rewrite complete_post_S.
    assert (HQ : 2 <= 2 ^ (N.of_nat h + 1)).
    { rewrite pow2_succ. pose proof (pow2_pos (N.of_nat h)). lia. }
    assert (Len : forall off, length (complete_post h off) = N.to_nat (2 ^ (N.of_nat h + 1) - 1))
      by (intros; apply complete_post_length).
    remember (2 ^ (N.of_nat h + 1)) as Q eqn:EQ in *.
    pose proof (popcount_le c) as Hc.
    replace (c * (2 * Q)) with (2 * c * Q) in * by lia.
    destruct (N.lt_trichotomy x (2 * c * Q + Q - 1)) as [Lt|[Eq|Gt]].
    + destruct (IH (2 * c) x) as (pre & suf & Hs & Hl); [lia|lia|].
      rewrite popcount_double in Hl.
      exists pre, (suf ++ complete_post h (2 * c * Q + Q) ++ [2 * c * Q + Q - 1]).
      split; [|exact Hl]. rewrite Hs. now rewrite <- !app_assoc.
    + assert (D : x + 1 = (2 * c + 1) * 2 ^ (N.of_nat h + 1)) by (rewrite <- EQ; lia).
      destruct (decomp_unique _ _ _ D) as [L K].
      exists [], []. rewrite start_eq, L, K, <- EQ.
      replace (N.to_nat (N.of_nat h + 1)) with (S h) by lia.
      rewrite complete_post_S, <- EQ. cbn [app length]. rewrite app_nil_r.
      split; [reflexivity|lia].
    + destruct (IH (2 * c + 1) x) as (pre & suf & Hs & Hl); [lia|lia|].
      rewrite popcount_double1 in Hl.
      replace (2 * c * Q + Q) with ((2 * c + 1) * Q) by lia.
      exists (complete_post h (2 * c * Q) ++ pre), (suf ++ [(2 * c + 1) * Q - 1]).
      split; [rewrite Hs; now rewrite <- !app_assoc|].
      rewrite app_length, Len. nia.
Qed.

Lemma gap_subtree_enum_segment (h : nat) x : x < 2 ^ (N.of_nat h + 1) - 1 ->
  exists pre suf,
    complete_post h 0 = pre ++ complete_post (N.to_nat (level x)) (sp_node_start x) ++ suf /\
    N.of_nat (length pre) = sp_post_offset x - (2 ^ (level x + 1) - 2).
Proof.
  intros Hx. destruct (post_seg_gen h 0 x) as (pre & suf & Hs & Hl); [lia|lia|].
  rewrite N.mul_0_l in Hs, Hl. cbn [popcount] in Hl.
  exists pre, suf. split; [exact Hs|].
  unfold sp_post_offset. rewrite <- level_is_sp_level. lia.
Qed.

(* post_order_range cuts exactly the subtree enumeration out of the enumeration of the tree *)
Lemma gap_post_order_range_enum (h : nat) x : (h <= 63)%nat -> x < 2 ^ (N.of_nat h + 1) - 1 ->
  firstn (N.to_nat (snd (post_order_range x) - fst (post_order_range x)))
         (skipn (N.to_nat (fst (post_order_range x))) (complete_post h 0)) =
  complete_post (N.to_nat (level x)) (sp_node_start x).
Proof.
  intros Hh Hx. pose proof (lt_pow_u64 h x Hh Hx) as X64.
  rewrite gap_post_order_range by assumption. cbn [fst snd].
  destruct (gap_subtree_enum_segment h x Hx) as (pre & suf & Hs & Hl).
  rewrite Hs.
  pose proof (complete_post_length (N.to_nat (level x)) (sp_node_start x)) as Lm.
  rewrite N2Nat.id in Lm.
  assert (T2 : 2 <= 2 ^ (level x + 1)) by (rewrite pow2_succ; pose proof (pow2_pos (level x)); lia).
  assert (Ge : 2 ^ (level x + 1) - 2 <= sp_post_offset x)
    by (unfold sp_post_offset; rewrite <- level_is_sp_level; lia).
  remember (complete_post (N.to_nat (level x)) (sp_node_start x)) as M eqn:EM.
  replace (N.to_nat (sp_post_offset x - (2 ^ (level x + 1) - 2))) with (length pre) by lia.
  rewrite skipn_app, skipn_all, Nat.sub_diag. cbn [skipn app].
  replace (N.to_nat (sp_post_offset x + 1 - (sp_post_offset x - (2 ^ (level x + 1) - 2))))
    with (length M + 0)%nat by lia.
  rewrite firstn_app_2. cbn [firstn]. apply app_nil_r.
Qed.

Lemma gap_post_order_range_enum_nonvacuous :
  (3 <= 63)%nat /\ 9 < 2 ^ (N.of_nat 3 + 1) - 1 /\ post_order_range 9 = (7, 10) /\
  complete_post 3 0 = [0; 2; 1; 4; 6; 5; 3; 8; 10; 9; 12; 14; 13; 11; 7] /\
  complete_post (N.to_nat (level 9)) (sp_node_start 9) = [8; 10; 9].
Proof. vm_compute. repeat split. lia. Qed.
