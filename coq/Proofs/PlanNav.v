(* Navigation in the shifted tree as used by the pre-order chunk iterator: the shifted id of the node
   over groups [ga, ga + capof n), its left child, its right descendant, the root, and the chunk
   geometry of the corresponding unshifted node. *)
From BaoV Require Import Model.Iter Spec.PlanSpec Spec.PlanWf Proofs.NodeLevel Proofs.NodeBits Proofs.NodeAlgebra
  Proofs.NodeRestricted Proofs.PlanBase.
From Coq Require Import ZArith Lia.
Open Scope N_scope.
Arguments N.add : simpl never.
Arguments N.sub : simpl never.
Arguments N.mul : simpl never.
Arguments N.pow : simpl never.
Arguments N.shiftl : simpl never.
Arguments N.shiftr : simpl never.
Arguments N.land : simpl never.
Arguments N.div : simpl never.
Arguments N.modulo : simpl never.
Arguments N.log2 : simpl never.
Arguments N.min : simpl never.
Arguments N.max : simpl never.
Ltac Zify.zify_post_hook ::= Z.to_euclidean_division_equations.

(* shifted id of the node over groups [ga, ga + capof n) *)
Definition sid (ga n : N) : N := ga + capof n / 2 - 1.

Definition filled_of (B : N) : N := let n := div_ceil2 B in n + (n - 1).

Lemma half_pow2 n : 1 <= n -> capof n / 2 = 2 ^ cexp n.
Proof.
  intro H. rewrite (capof_pow2 n H), pow2_succ. pose proof (pow2_pos (cexp n)).
  rewrite N.mul_comm, N.div_mul by lia. reflexivity.
Qed.

Lemma sid_succ ga n k : 1 <= n -> ga = k * capof n -> sid ga n + 1 = (2 * k + 1) * 2 ^ cexp n.
Proof.
  intros H A. unfold sid. rewrite half_pow2 by assumption. rewrite A, (capof_pow2 n H), pow2_succ.
  pose proof (pow2_pos (cexp n)). lia.
Qed.

Lemma sid_level ga n k : 1 <= n -> ga = k * capof n -> level (sid ga n) = cexp n /\ sp_index (sid ga n) = k.
Proof. intros H A. apply decomp_unique. now apply sid_succ. Qed.

Lemma cexp_small n : n <= 2 -> cexp n = 0.
Proof. intro H. unfold cexp. rewrite capof_small by assumption. reflexivity. Qed.

Lemma cexp_inner n : 3 <= n -> 0 < cexp n.
Proof.
  intro H. destruct (capof_inner n H) as (k & E & _). unfold cexp. rewrite E, N.log2_pow2 by lia. lia.
Qed.

Lemma cexp_half n : 3 <= n -> cexp (capof n / 2) = cexp n - 1.
Proof.
  intro H. destruct (capof_inner n H) as (k & E & Eh & _ & _ & C1 & _). unfold cexp.
  rewrite Eh, C1, E, !N.log2_pow2 by lia. lia.
Qed.

Lemma is_leaf_sid ga n rm size bs : node_ok size bs ga n rm -> is_leaf (sid ga n) = (n <=? 2).
Proof.
  intros [P [k A] _ _]. rewrite is_leaf_level. destruct (sid_level ga n k P A) as [L _]. rewrite L.
  destruct (N.leb_spec n 2) as [H|H].
  - rewrite cexp_small by assumption. reflexivity.
  - apply N.eqb_neq. pose proof (cexp_inner n ltac:(lia)). lia.
Qed.

(* ---- left child ---- *)
Lemma left_child_sid size bs ga n rm : node_ok size bs ga n rm -> 3 <= n ->
  left_child (sid ga n) = Some (sid ga (capof n / 2)).
Proof.
  intros [P [k A] _ _] H. destruct (sid_level ga n k P A) as [L K].
  pose proof (cexp_inner n H) as Hc.
  rewrite left_child_spec by lia. f_equal.
  unfold sp_left, sp_node. rewrite <- level_is_sp_level, L, K.
  destruct (capof_inner n H) as (j & E & Eh & _ & _ & C1 & _).
  unfold sid. rewrite Eh, C1.
  assert (Ec : cexp n = j + 1) by (unfold cexp; rewrite E, N.log2_pow2 by lia; lia).
  rewrite Ec, A, E. replace (j + 1 - 1) with j by lia. replace (j + 2) with (j + 1 + 1) by lia.
  rewrite !pow2_succ. pose proof (pow2_pos j). rewrite (N.mul_comm 2 (2 ^ j)), N.div_mul by lia. lia.
Qed.

(* ---- right descendant ---- *)
Lemma rd_loop B : forall fuel i g0 k n',
  i < N.of_nat fuel -> g0 = k * 2 ^ (i + 1) -> 1 <= n' -> n' <= 2 ^ (i + 1) -> g0 + n' <= B ->
  (n' = 2 ^ (i + 1) \/ g0 + n' = B) ->
  right_descendant_loop fuel (g0 + 2 ^ i - 1) (filled_of B) = Some (sid g0 n').
Proof.
  induction fuel as [|f IH]; intros i g0 k n' Hf Hg Hn1 Hn2 HB Hc; [lia|].
  cbn [right_descendant_loop]. pose proof (pow2_pos i) as Hp. rewrite pow2_succ in *.
  unfold filled_of, div_ceil2.
  destruct (N.eq_dec i 0) as [->|Hi].
  - (* two groups: a leaf of the shifted tree *)
    rewrite N.pow_0_r in *. replace (g0 + 1 - 1) with g0 by lia.
    destruct (N.leb_spec ((B + 1) / 2 + ((B + 1) / 2 - 1)) g0) as [L|L]; [exfalso; lia|].
    f_equal. unfold sid. rewrite capof_small by lia. change (2 / 2) with 1. lia.
  - assert (Ei : 2 ^ i = 2 * 2 ^ (i - 1)) by (apply pow2_pred; lia).
    pose proof (pow2_pos (i - 1)) as Hp'.
    destruct (N.lt_ge_cases (2 ^ i) n') as [Lt|Ge].
    + (* this is the node *)
      destruct (N.leb_spec ((B + 1) / 2 + ((B + 1) / 2 - 1)) (g0 + 2 ^ i - 1)) as [L|L]; [exfalso; lia|].
      f_equal. unfold sid.
      assert (Ecap : capof n' = 2 ^ (i + 1)).
      { unfold capof. destruct (N.leb_spec n' 2) as [L2|L2]; [lia|].
        apply next_pow2_unique; rewrite pow2_succ; lia. }
      rewrite Ecap, pow2_succ, (N.mul_comm 2 (2 ^ i)), N.div_mul by lia. reflexivity.
    + (* descend left *)
      assert (HBe : g0 + n' = B) by lia.
      destruct (N.leb_spec ((B + 1) / 2 + ((B + 1) / 2 - 1)) (g0 + 2 ^ i - 1)) as [L|L]; [|exfalso; lia].
      assert (Lv : level (g0 + 2 ^ i - 1) = i /\ sp_index (g0 + 2 ^ i - 1) = k).
      { apply decomp_unique. lia. }
      destruct Lv as [Lv Kv].
      rewrite left_child_spec by lia.
      assert (El : sp_left (g0 + 2 ^ i - 1) = g0 + 2 ^ (i - 1) - 1).
      { unfold sp_left, sp_node. rewrite <- level_is_sp_level, Lv, Kv. lia. }
      rewrite El. apply (IH (i - 1) g0 (2 * k) n'); try lia.
      * replace (i - 1 + 1) with i by lia. lia.
      * replace (i - 1 + 1) with i by lia. lia.
Qed.

Lemma right_descendant_sid size bs ga n rm : node_ok size bs ga n rm -> 3 <= n -> cexp n <= 64 ->
  right_descendant (sid ga n) (filled_of (sp_blocks size bs)) = Some (sid (ga + capof n / 2) (n - capof n / 2)).
Proof.
  intros [P [k A] I R] H Hc. destruct (sid_level ga n k P A) as [L K].
  pose proof (cexp_inner n H) as Hc0.
  unfold right_descendant. rewrite right_child_spec by lia.
  destruct (capof_inner n H) as (j & E & Eh & L1 & L2 & C1 & C2).
  assert (Ec : cexp n = j + 1) by (unfold cexp; rewrite E, N.log2_pow2 by lia; lia).
  assert (Er : sp_right (sid ga n) = ga + 2 ^ (j + 1) + 2 ^ j - 1).
  { unfold sp_right, sp_node. rewrite <- level_is_sp_level, L, K, Ec, A, E.
    replace (j + 1 - 1) with j by lia. replace (j + 2) with (j + 1 + 1) by lia.
    rewrite !pow2_succ. pose proof (pow2_pos j). lia. }
  rewrite Er, Eh.
  replace (j + 2) with (j + 1 + 1) in * by lia. rewrite (pow2_succ (j + 1)) in *.
  pose proof (pow2_pos (j + 1)).
  apply (rd_loop (sp_blocks size bs) 65 j (ga + 2 ^ (j + 1)) (2 * k + 1) (n - 2 ^ (j + 1))); try lia.
  destruct rm; [right; lia|left]. rewrite R, E. lia.
Qed.

(* ---- the root ---- *)
Lemma blocks_raw_sp size bs : N.max (blocks_raw size bs) 1 = sp_blocks size bs.
Proof.
  unfold blocks_raw, sp_blocks. rewrite N.shiftr_div_pow2, mask_ones, N.land_ones.
  rewrite (N.add_comm bs 10), pow2_add. change (2 ^ 10) with 1024.
  pose proof (pow2_pos bs). set (D := 1024 * 2 ^ bs). assert (0 < D) by (unfold D; lia).
  rewrite N.max_comm. f_equal.
  pose proof (N.div_mod size D ltac:(lia)). pose proof (N.mod_upper_bound size D ltac:(lia)).
  destruct (N.eqb_spec (size mod D) 0) as [E|E]; cbn [negb b2n].
  - apply N.div_unique with (r := D - 1); lia.
  - apply N.div_unique with (r := size mod D - 1); lia.
Qed.

Lemma shifted_eq size bs :
  shifted (mkTree size bs) = (sid 0 (sp_blocks size bs), filled_of (sp_blocks size bs)).
Proof.
  unfold shifted. cbn [tsize tbs]. rewrite blocks_raw_sp. unfold filled_of. f_equal.
  set (B := sp_blocks size bs). assert (HB : 1 <= B) by (unfold B, sp_blocks; lia).
  unfold sid, div_ceil2. rewrite N.add_0_l. f_equal.
  destruct (N.le_gt_cases B 2) as [L|L].
  - rewrite capof_small by assumption. replace ((B + 1) / 2) with 1 by lia. reflexivity.
  - destruct (capof_inner B ltac:(lia)) as (k & E & Eh & L1 & L2 & _). rewrite Eh.
    replace (k + 2) with (k + 1 + 1) in * by lia. rewrite (pow2_succ (k + 1)) in L2.
    pose proof (pow2_pos (k + 1)).
    apply next_pow2_unique; lia.
Qed.

(* the root id lies outside the id range of every other node *)
Definition root_out (root ga n : N) : Prop := root < ga \/ ga + capof n - 1 <= root \/ root = sid ga n.

Lemma root_out_left root ga n : 3 <= n -> root_out root ga n ->
  root_out root ga (capof n / 2) /\ sid ga (capof n / 2) <> root.
Proof.
  intros H R. destruct (capof_inner n H) as (j & E & Eh & L1 & L2 & C1 & C2).
  unfold root_out, sid in *. rewrite Eh, C1 in *. rewrite E in R.
  replace (j + 2) with (j + 1 + 1) in * by lia. rewrite (pow2_succ (j + 1)), (pow2_succ j) in *.
  pose proof (pow2_pos j). rewrite (N.mul_comm 2 (2 ^ j)), N.div_mul by lia. split; lia.
Qed.

Lemma root_out_right root ga n : 3 <= n -> root_out root ga n ->
  root_out root (ga + capof n / 2) (n - capof n / 2) /\ sid (ga + capof n / 2) (n - capof n / 2) <> root.
Proof.
  intros H R. destruct (capof_inner n H) as (j & E & Eh & L1 & L2 & C1 & C2).
  destruct (capof_spec (n - 2 ^ (j + 1)) ltac:(lia)) as (i & Ei & _).
  unfold root_out, sid in *. rewrite Eh in *. rewrite E in R. rewrite Ei in *.
  replace (j + 2) with (j + 1 + 1) in * by lia. rewrite (pow2_succ (j + 1)), (pow2_succ i) in *.
  pose proof (pow2_pos i). rewrite (N.mul_comm 2 (2 ^ i)), N.div_mul by lia. split; lia.
Qed.

(* ---- geometry of the unshifted node ---- *)
Lemma node_end_bound size bs ga n rm : size <= 2 ^ 63 -> bs <= 10 -> node_ok size bs ga n rm ->
  (ga + capof n) * 2 ^ bs <= 2 ^ 53.
Proof.
  intros Hs Hb [P [k A] I R].
  set (B := sp_blocks size bs) in *. assert (HB1 : 1 <= B) by (unfold B, sp_blocks; lia).
  (* B * g <= 2^53 *)
  assert (HBg : B <= 2 ^ (53 - bs)).
  { destruct (N.le_gt_cases B (2 ^ (53 - bs))) as [|G]; [assumption|exfalso].
    assert (L : B - 1 < B) by lia. apply sp_blocks_spec in L.
    assert (E53 : 2 ^ 53 = 2 ^ (53 - bs) * 2 ^ bs) by (rewrite <- pow2_add; f_equal; lia).
    change (2 ^ 63) with (2 ^ 53 * 1024) in Hs. pose proof (pow2_pos bs). pose proof (pow2_pos (53 - bs)).
    destruct L as [L|L]; [lia|]. rewrite E53 in Hs.
    set (g := 2 ^ bs) in *. set (M := 2 ^ (53 - bs)) in *. clearbody g M B. nia. }
  assert (HC : ga + capof n <= 2 ^ (53 - bs)).
  { destruct (capof_spec n P) as (j & Ej & _). rewrite Ej in *.
    destruct (N.le_gt_cases (j + 1) (53 - bs)) as [Lj|Lj].
    - destruct (pow2_divides (j + 1) (53 - bs) Lj) as (d & D). rewrite D in *.
      pose proof (pow2_pos (j + 1)). subst ga.
      assert (k < d) by nia. nia.
    - assert (n <= 2 ^ (52 - bs + 1)) by (replace (52 - bs + 1) with (53 - bs) by lia; lia).
      apply capof_le in H. rewrite Ej in H. replace (52 - bs + 1) with (53 - bs) in H by lia.
      apply pow2_le_inv in H. lia. }
  assert (E53 : 2 ^ 53 = 2 ^ (53 - bs) * 2 ^ bs) by (rewrite <- pow2_add; f_equal; lia).
  rewrite E53. apply N.mul_le_mono_r. exact HC.
Qed.

Lemma to_bytes_small c : c <= 2 ^ 53 -> to_bytes c = c * 1024.
Proof.
  intro H. unfold to_bytes, shl64. rewrite N.shiftl_mul_pow2. change (2 ^ 10) with 1024.
  apply N.mod_small. change (2 ^ 53) with 9007199254740992 in H. unfold W64. lia.
Qed.

Record node_geom (size bs ga n : N) : Prop := mk_node_geom {
  ng_unshift : subtract_block_size (sid ga n) bs = unshift bs (sid ga n);
  ng_level : level (unshift bs (sid ga n)) = cexp n + bs;
  ng_lvl : N.log2 (capof n * 2 ^ bs) - 1 = cexp n + bs;
  ng_range : chunk_range (unshift bs (sid ga n)) = (ga * 2 ^ bs, (ga + capof n) * 2 ^ bs);
  ng_mid : mid (unshift bs (sid ga n)) = (ga + capof n / 2) * 2 ^ bs }.

Lemma node_geom_ok size bs ga n rm : size <= 2 ^ 63 -> bs <= 10 -> node_ok size bs ga n rm ->
  node_geom size bs ga n.
Proof.
  intros Hs Hb Hok. pose proof (node_end_bound size bs ga n rm Hs Hb Hok) as HE.
  destruct Hok as [P [k A] I R]. pose proof (pow2_pos bs) as Hp.
  pose proof (half_pow2 n P) as Hh. pose proof (capof_pow2 n P) as Hc.
  pose proof (unshift_geom bs k (cexp n)) as G. cbn zeta in G.
  rewrite pow2_succ in Hc.
  assert (Eid : k * (2 * 2 ^ cexp n) + 2 ^ cexp n - 1 = sid ga n) by (unfold sid; rewrite Hh, A, Hc; reflexivity).
  rewrite Eid in G. destruct G as (G1 & G2 & G3 & G4).
  assert (Ega : k * (2 * 2 ^ cexp n) = ga) by (rewrite A, Hc; reflexivity).
  rewrite Ega in *. rewrite <- Hc in G3. rewrite <- Hh in G4.
  constructor.
  - rewrite subtract_block_size_gen; [unfold unshift; reflexivity|].
    pose proof (pow2_pos (cexp n)). unfold sid. rewrite Hh.
    assert ((ga + 2 ^ cexp n - 1 + 1) * 2 ^ bs <= (ga + capof n) * 2 ^ bs) by (apply N.mul_le_mono_r; lia).
    change (2 ^ 64) with 18446744073709551616. change (2 ^ 53) with 9007199254740992 in HE. lia.
  - exact G1.
  - rewrite Hc. replace (2 * 2 ^ cexp n * 2 ^ bs) with (2 ^ (cexp n + bs + 1)) by (rewrite !pow2_add, N.pow_1_r; lia).
    rewrite N.log2_pow2 by lia. lia.
  - rewrite chunk_range_gen, G2, G3. reflexivity.
  - unfold mid. exact G4.
Qed.
