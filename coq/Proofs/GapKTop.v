(* Gap audit (C01), part 3: the statements of Props/C01.v about decoders told ANY claimed size, their consequences for
   the target and the outboard of the decode_ranges drivers, the case of an equal chunk count, and witnesses. *)
From BaoV Require Import Model.Fsm Spec.HashAssm Spec.EncSpec Spec.RangeSpec Spec.PlanSpec Spec.PTree.
From BaoV Require Import Proofs.DecLoop Proofs.DecHash Proofs.DecForest Proofs.DecRanges Proofs.DecWitness.
From BaoV Require Import Proofs.BridgeBase Proofs.BridgeLeaves Proofs.PlanBase.
From BaoV Require Import Proofs.E2ERanges Proofs.GapTarget Proofs.GapPairs.
From BaoV Require Import Proofs.GapKInv Proofs.GapKRun.
From Coq Require Import Lia Arith.
Open Scope N_scope.

Lemma blen_zeros : forall HO n, blen HO (zeros HO (N.to_nat n)) = n.
Proof. intros HO n. unfold blen, zeros. rewrite repeat_length. apply N2Nat.id. Qed.

Lemma same_path_def : forall n' n,
  same_path n' n 0 n' 0 n /\
  (forall a' b' a b, same_path n' n a' b' a b -> 2 <= b' - a' -> 2 <= b - a ->
     same_path n' n a' (a' + next_pow2 (b' - a') / 2) a (a + next_pow2 (b - a) / 2) /\
     same_path n' n (a' + next_pow2 (b' - a') / 2) b' (a + next_pow2 (b - a) / 2) b) /\
  (forall P : N -> N -> N -> N -> Prop,
     P 0 n' 0 n ->
     (forall a' b' a b, P a' b' a b -> 2 <= b' - a' -> 2 <= b - a ->
        P a' (a' + next_pow2 (b' - a') / 2) a (a + next_pow2 (b - a) / 2) /\
        P (a' + next_pow2 (b' - a') / 2) b' (a + next_pow2 (b - a) / 2) b) ->
     forall a' b' a b, same_path n' n a' b' a b -> P a' b' a b) /\
  (* both intervals are nodes of their trees: aligned power-of-two blocks cut at the end (GapPairs.aligned) *)
  (1 <= n' -> 1 <= n -> forall a' b' a b, same_path n' n a' b' a b -> aligned n' a' b' /\ aligned n a b) /\
  (* trees with the same number of chunks: the same node *)
  (n' = n -> forall a' b' a b, same_path n' n a' b' a b -> a' = a /\ b' = b).
Proof.
  intros n' n. split; [constructor|]. split.
  { intros a' b' a b H H1 H2. split; [apply sp_left|apply sp_right]; assumption. }
  split.
  { intros P P0 PS a' b' a b H. induction H as [|a' b' a b _ I G1 G2|a' b' a b _ I G1 G2].
    - exact P0.
    - exact (proj1 (PS _ _ _ _ I G1 G2)).
    - exact (proj2 (PS _ _ _ _ I G1 G2)). }
  split.
  { intros H1 H2 a' b' a b H. apply same_path_aligned; assumption. }
  intros -> a' b' a b H. exact (same_path_same _ _ _ _ _ H).
Qed.

Lemma true_item_def : forall HO (data : bytes HO) (size' : N),
  (forall off d, true_item HO data size' (ILeaf off d) <->
     exists s e e', same_path (nchunks size') (nchunks (blen HO data)) s e' s e /\
       off = s * 1024 /\ s < e /\ e <= nchunks (blen HO data) /\
       d = chunk_bytes HO data s e /\ d = slice HO off (blen HO d) data /\
       off + blen HO d <= blen HO data /\ (blen HO data = 0 \/ 0 < blen HO d) /\
       blen HO d = span_bytes size' s e') /\
  (forall nd l r, true_item HO data size' (IParent nd l r) <->
     exists a' e' a e, same_path (nchunks size') (nchunks (blen HO data)) a' e' a e /\
       2 <= e' - a' /\ 2 <= e - a /\
       nd = a' + next_pow2 (e' - a') / 2 - 1 /\
       l = cv HO data a (a + next_pow2 (e - a) / 2) false /\
       r = cv HO data (a + next_pow2 (e - a) / 2) e false /\
       (l, r) = true_pair HO data (a + next_pow2 (e - a) / 2 - 1)).
Proof. intros HO data size'. split; intros; reflexivity. Qed.

(* ---------- the iterators ---------- *)
Theorem any_size_sync : forall HO, hash_ok HO ->
  forall (data : bytes HO) (size' bs : N) (q : ranges),
  size' <= 2 ^ 63 -> blen HO data <= 2 ^ 63 -> wf_ranges q = true ->
  forall (stream : bytes HO) ys o st,
  dec_run HO (dec_new HO (root_hash HO data) (mkTree size' bs) stream q) = (ys, o, st) ->
  forall i, In i ys -> true_item HO data size' i.
Proof.
  intros HO HOK data size' bs q Hs Hd Hwf stream ys o st H.
  pose proof (blen_zeros HO size') as E.
  remember (zeros HO (N.to_nat size')) as data' eqn:Hdata'. clear Hdata'. subst size'.
  apply Forall_forall.
  exact (any_size_sync_items HO HOK data data' bs q Hd Hs Hwf stream ys o st H).
Qed.

Theorem any_size_fsm : forall HO, hash_ok HO ->
  forall (data : bytes HO) (size' bs : N) (q : ranges),
  size' <= 2 ^ 63 -> blen HO data <= 2 ^ 63 -> wf_ranges q = true ->
  forall (stream : bytes HO) ys o st,
  rd_run HO (rd_new HO (root_hash HO data) q (mkTree size' bs) stream) = (ys, o, st) ->
  forall i, In i ys -> true_item HO data size' i.
Proof.
  intros HO HOK data size' bs q Hs Hd Hwf stream ys o st H.
  pose proof (blen_zeros HO size') as E.
  remember (zeros HO (N.to_nat size')) as data' eqn:Hdata'. clear Hdata'. subst size'.
  apply Forall_forall.
  exact (any_size_fsm_items HO HOK data data' bs q Hd Hs Hwf stream ys o st H).
Qed.

(* with the same NUMBER of chunks (in particular with the true size) a parent carries the true pair of ITS node *)
Lemma true_item_same_chunks : forall HO (data : bytes HO) size' nd l r,
  nchunks size' = nchunks (blen HO data) ->
  true_item HO data size' (IParent nd l r) -> (l, r) = true_pair HO data nd.
Proof.
  intros HO data size' nd l r En (a' & e' & a & e & Hsp & _ & _ & Hn & _ & _ & Hp).
  rewrite En in Hsp. destruct (same_path_same _ _ _ _ _ Hsp) as [-> ->]. rewrite Hn. exact Hp.
Qed.

Theorem any_size_same_chunks_pairs : forall HO, hash_ok HO ->
  forall (data : bytes HO) (size' bs : N) (q : ranges),
  size' <= 2 ^ 63 -> blen HO data <= 2 ^ 63 -> wf_ranges q = true ->
  nchunks size' = nchunks (blen HO data) ->
  forall (stream : bytes HO) ys o,
  (exists st, dec_run HO (dec_new HO (root_hash HO data) (mkTree size' bs) stream q) = (ys, o, st)) \/
  (exists st, rd_run HO (rd_new HO (root_hash HO data) q (mkTree size' bs) stream) = (ys, o, st)) ->
  forall nd l r, In (IParent nd l r) ys -> (l, r) = true_pair HO data nd.
Proof.
  intros HO HOK data size' bs q Hs Hd Hwf En stream ys o Hrun nd l r Hin.
  apply (true_item_same_chunks HO data size' nd l r En).
  destruct Hrun as [[st H]|[st H]].
  - exact (any_size_sync HO HOK data size' bs q Hs Hd Hwf stream ys o st H _ Hin).
  - exact (any_size_fsm HO HOK data size' bs q Hs Hd Hwf stream ys o st H _ Hin).
Qed.

(* ---------- the drivers ---------- *)
Theorem any_size_decode_ranges : forall HO, hash_ok HO ->
  forall (data : bytes HO) (size' bs : N) (q : ranges),
  size' <= 2 ^ 63 -> blen HO data <= 2 ^ 63 -> wf_ranges q = true ->
  forall (stream target : bytes HO) (ob : outboard HO),
  ob_root ob = root_hash HO data -> ob_tree ob = mkTree size' bs ->
  forall res target' ob',
  (exists st', decode_ranges HO stream q target ob = (res, target', ob', st')) \/
  (exists st', decode_ranges_fsm HO stream q target ob = (res, target', ob', st')) ->
  exists ys o, let a := apply_items HO ys target ob in
    res = ranges_result (a_res HO a) o /\ target' = a_target HO a /\ ob' = a_ob HO a /\
    forall i, In i ys -> true_item HO data size' i.
Proof.
  intros HO HOK data size' bs q Hs Hd Hwf stream target ob Hr Ht res target' ob' Hrun.
  pose proof (blen_zeros HO size') as E.
  remember (zeros HO (N.to_nat size')) as data' eqn:Hdata'. clear Hdata'. subst size'.
  destruct Hrun as [[st' H]|[st' H]].
  - destruct (any_size_decode_ranges_items HO HOK data data' bs q Hd Hs Hwf stream target ob res target' ob' st' Hr Ht H)
      as (ys & o & G). exists ys, o. cbv zeta in *. rewrite <- Forall_forall. exact G.
  - destruct (any_size_decode_ranges_fsm_items HO HOK data data' bs q Hd Hs Hwf stream target ob res target' ob' st' Hr Ht H)
      as (ys & o & G). exists ys, o. cbv zeta in *. rewrite <- Forall_forall. exact G.
Qed.

Lemma true_items_good_leaves : forall HO (data : bytes HO) size' (ys zs : list (item HO)),
  (forall i, In i ys -> true_item HO data size' i) -> is_prefix zs ys ->
  good_leaves HO data (fun _ => true) zs.
Proof.
  intros HO data size' ys zs G P off d Hin.
  apply (is_prefix_In _ _ _ P) in Hin. apply G in Hin.
  destruct Hin as (s & e & e' & _ & H1 & H2 & H3 & H4 & _).
  exists s, e. repeat split; assumption.
Qed.

(* every byte the drivers write is the blob's, at its offset, whatever the claimed size: nothing from the blob's
   length on is touched, and below it every chunk of the (padded) result is the (padded) old chunk or the blob's *)
Theorem any_size_decode_ranges_bytes : forall HO, hash_ok HO ->
  forall (data : bytes HO) (size' bs : N) (q : ranges),
  size' <= 2 ^ 63 -> blen HO data <= 2 ^ 63 -> wf_ranges q = true ->
  forall (stream target : bytes HO) (ob : outboard HO),
  ob_root ob = root_hash HO data -> ob_tree ob = mkTree size' bs ->
  forall res target' ob',
  (exists st', decode_ranges HO stream q target ob = (res, target', ob', st')) \/
  (exists st', decode_ranges_fsm HO stream q target ob = (res, target', ob', st')) ->
  let n := length data in
  skipn n target' = skipn n target /\
  (forall c, c < nchunks (blen HO data) ->
     chunk_bytes HO (pad HO n target') c (c + 1) = chunk_bytes HO (pad HO n target) c (c + 1) \/
     chunk_bytes HO (pad HO n target') c (c + 1) = chunk_bytes HO data c (c + 1)) /\
  (length target = length data ->
     length target' = length data /\
     forall c, c < nchunks (blen HO data) ->
       chunk_bytes HO target' c (c + 1) = chunk_bytes HO target c (c + 1) \/
       chunk_bytes HO target' c (c + 1) = chunk_bytes HO data c (c + 1)).
Proof.
  intros HO HOK data size' bs q Hs Hd Hwf stream target ob Hr Ht res target' ob' Hrun n.
  destruct (any_size_decode_ranges HO HOK data size' bs q Hs Hd Hwf stream target ob Hr Ht res target' ob' Hrun)
    as (ys & o & _ & -> & _ & G).
  destruct (apply_items_target HO ys target ob) as (zs & P1 & P2 & _). rewrite P2. clear P2.
  pose proof (true_items_good_leaves HO data size' ys zs G P1) as GL.
  destruct (write_leaves_pad HO data (fun _ => true) zs target GL) as [W1 W2]. fold n in W1, W2.
  assert (CS : chunk_state HO data (pad HO n target) (write_leaves HO (pad HO n target) zs) (fun _ => true)).
  { apply write_good_leaves; [exact GL|]. split; [apply pad_length|]. intros c _. now left. }
  destruct CS as [CL CC].
  split; [exact W2|]. split.
  - intros c Hc. rewrite W1. destruct (CC c Hc) as [C1|[_ C2]]; [left|right]; assumption.
  - intros Hlen.
    assert (Ep : pad HO n target = target) by (apply pad_id; exact Hlen).
    rewrite Ep in W1, CL, CC.
    assert (El : length (write_leaves HO target zs) = n).
    { clear CC. revert GL Hlen. clear. revert target. induction zs as [|[node l r|off d] zs IH]; intros target GL Hlen.
      - exact Hlen.
      - change (write_leaves HO target (IParent node l r :: zs)) with (write_leaves HO target zs).
        apply IH; [|exact Hlen]. intros off d Hin. apply GL. now right.
      - change (write_leaves HO target (ILeaf off d :: zs)) with (write_leaves HO (write_at HO target off d) zs).
        apply IH; [intros off' d' Hin; apply GL; now right|].
        destruct (GL off d (or_introl eq_refl)) as (s & e & -> & Hse & He & -> & _).
        destruct (write_chunks HO data target s e Hlen Hse He) as [L _]. exact L. }
    split; [exact El|].
    intros c Hc. destruct (CC c Hc) as [C1|[_ C2]]; [left|right]; assumption.
Qed.

(* ---------- witnesses (free term algebra: no collisions) ---------- *)
Notation H := term_hops.
Definition kdata3 : bytes H := repeat TZ 2049.          (* three chunks *)
Definition kq_all : ranges := [0].
Definition khon3 : list (item H) := honest H kdata3 0 kq_all.
Definition kstream3 : bytes H := flat H khon3.

Lemma triple_eta {A B C} (x : A * B * C) : x = (fst (fst x), snd (fst x), snd x).
Proof. destruct x as [[a b] c]. reflexivity. Qed.
Lemma quad_eta {A B C D} (x : A * B * C * D) : x = (fst (fst (fst x)), snd (fst (fst x)), snd (fst x), snd x).
Proof. destruct x as [[[a b] c] d]. reflexivity. Qed.
Lemma run_shape {A B C} (x : A * B * C) a b : fst (fst x) = a -> snd (fst x) = b -> x = (a, b, snd x).
Proof. destruct x as [[a0 b0] c]. cbn. intros -> ->. reflexivity. Qed.

(* claimed size 2048 (two chunks) for a blob of three: the root pair is yielded, and saved, under node 0, but it is
   the true pair of node 1 of the blob, and not that of node 0; the next item is rejected *)
Theorem any_size_node_id_witness :
  exists HO, hash_ok HO /\
  exists (data stream : bytes HO) (size' bs : N) (q : ranges) (l r : hash HO),
    size' <= 2 ^ 63 /\ blen HO data <= 2 ^ 63 /\ bs <= 10 /\ wf_ranges q = true /\
    (exists st c, dec_run HO (dec_new HO (root_hash HO data) (mkTree size' bs) stream q)
                  = ([IParent 0 l r], Failed (DLeafHashMismatch c), st)) /\
    (exists st c, rd_run HO (rd_new HO (root_hash HO data) q (mkTree size' bs) stream)
                  = ([IParent 0 l r], Failed (DLeafHashMismatch c), st)) /\
    (l, r) = true_pair HO data 1 /\ (l, r) <> true_pair HO data 0 /\
    (* the drivers store it in the slot of node 0 of an (initially empty) pre-order outboard file *)
    (let ob := mkOb PreIO (root_hash HO data) (mkTree size' bs) [] in
     ob_offset HO ob 0 = Some 0 /\
     (exists res target' ob' st', decode_ranges HO stream q [] ob = (res, target', ob', st') /\ ob_data ob' = l ++ r) /\
     (exists res target' ob' st', decode_ranges_fsm HO stream q [] ob = (res, target', ob', st') /\ ob_data ob' = l ++ r)).
Proof.
  exists H. split; [exact term_hops_ok|].
  pose (p := true_pair H kdata3 1).
  exists kdata3, kstream3, 2048, 0, kq_all, (fst p), (snd p).
  split; [vm_compute; discriminate|]. split; [vm_compute; discriminate|]. split; [lia|]. split; [reflexivity|].
  split.
  { pose (run := dec_run H (dec_new H (root_hash H kdata3) (mkTree 2048 0) kstream3 kq_all)).
    exists (snd run), 0. apply run_shape; vm_compute; reflexivity. }
  split.
  { pose (run := rd_run H (rd_new H (root_hash H kdata3) kq_all (mkTree 2048 0) kstream3)).
    exists (snd run), 0. apply run_shape; vm_compute; reflexivity. }
  split; [vm_compute; reflexivity|].
  split.
  { intro E. apply (f_equal (fun x => nth_error (fst x) 0)) in E. vm_compute in E. discriminate. }
  cbv zeta. split; [vm_compute; reflexivity|]. split.
  - pose (dr := decode_ranges H kstream3 kq_all [] (mkOb PreIO (root_hash H kdata3) (mkTree 2048 0) [])).
    exists (fst (fst (fst dr))), (snd (fst (fst dr))), (snd (fst dr)), (snd dr).
    split; [apply quad_eta|vm_compute; reflexivity].
  - pose (dr := decode_ranges_fsm H kstream3 kq_all [] (mkOb PreIO (root_hash H kdata3) (mkTree 2048 0) [])).
    exists (fst (fst (fst dr))), (snd (fst (fst dr))), (snd (fst dr)), (snd dr).
    split; [apply quad_eta|vm_compute; reflexivity].
Qed.

(* non-vacuity: a wrong claimed size (4096 for a blob of 2049 bytes) and a stream (the honest encoding of the blob)
   on which four items are yielded before the error *)
Theorem any_size_nonvacuous :
  exists HO, hash_ok HO /\
  exists (data stream : bytes HO) (size' bs : N) (q : ranges),
    size' <= 2 ^ 63 /\ blen HO data <= 2 ^ 63 /\ bs <= 10 /\ wf_ranges q = true /\ size' <> blen HO data /\
    nchunks size' <> nchunks (blen HO data) /\
    (exists ys e st, dec_run HO (dec_new HO (root_hash HO data) (mkTree size' bs) stream q) = (ys, Failed e, st) /\
                     length ys = 4%nat /\ ys = firstn 4 (honest HO data bs q)) /\
    (exists ys e st, rd_run HO (rd_new HO (root_hash HO data) q (mkTree size' bs) stream) = (ys, Failed e, st) /\
                     length ys = 4%nat /\ ys = firstn 4 (honest HO data bs q)).
Proof.
  exists H. split; [exact term_hops_ok|].
  exists kdata3, kstream3, 4096, 0, kq_all.
  split; [vm_compute; discriminate|]. split; [vm_compute; discriminate|]. split; [lia|]. split; [reflexivity|].
  split; [vm_compute; discriminate|]. split; [vm_compute; discriminate|].
  split.
  - pose (run := dec_run H (dec_new H (root_hash H kdata3) (mkTree 4096 0) kstream3 kq_all)).
    exists (firstn 4 (honest H kdata3 0 kq_all)), (DParentNotFound 2), (snd run).
    split; [apply run_shape; vm_compute; reflexivity|]. split; [vm_compute; reflexivity|reflexivity].
  - pose (run := rd_run H (rd_new H (root_hash H kdata3) kq_all (mkTree 4096 0) kstream3)).
    exists (firstn 4 (honest H kdata3 0 kq_all)), (DParentNotFound 2), (snd run).
    split; [apply run_shape; vm_compute; reflexivity|]. split; [vm_compute; reflexivity|reflexivity].
Qed.

(* C16: the side condition "the query selects the last claimed chunk" cannot be dropped: with a claimed size of
   another chunk count and a query that stays away from the end the decoders FINISH (every item yielded is a true
   item of the blob, by the theorems above) *)
Theorem wrong_size_finishes_witness :
  exists HO, hash_ok HO /\
  exists (data stream : bytes HO) (size' bs : N) (q : ranges),
    size' <= 2 ^ 63 /\ blen HO data <= 2 ^ 63 /\ bs <= 10 /\ wf_ranges q = true /\
    nchunks size' <> nchunks (blen HO data) /\ sel q size' (nchunks size' - 1) = false /\
    (exists st, dec_run HO (dec_new HO (root_hash HO data) (mkTree size' bs) stream q)
                = (honest HO data bs q, Finished, st)) /\
    (exists st, rd_run HO (rd_new HO (root_hash HO data) q (mkTree size' bs) stream)
                = (honest HO data bs q, Finished, st)).
Proof.
  exists H. split; [exact term_hops_ok|].
  exists kdata3, (flat H (honest H kdata3 0 [0; 1])), 4096, 0, [0; 1].
  split; [vm_compute; discriminate|]. split; [vm_compute; discriminate|]. split; [lia|]. split; [reflexivity|].
  split; [vm_compute; discriminate|]. split; [vm_compute; reflexivity|].
  split.
  - pose (run := dec_run H (dec_new H (root_hash H kdata3) (mkTree 4096 0) (flat H (honest H kdata3 0 [0; 1])) [0; 1])).
    exists (snd run). apply run_shape; vm_compute; reflexivity.
  - pose (run := rd_run H (rd_new H (root_hash H kdata3) [0; 1] (mkTree 4096 0) (flat H (honest H kdata3 0 [0; 1])))).
    exists (snd run). apply run_shape; vm_compute; reflexivity.
Qed.
