(* C06, gaps A and B: concrete instances (non-vacuity of the hypotheses) over the term-algebra hash instance
   term_hops (hash_ok holds), and one refutation.
   Blob: 5120 zero bytes, block size 0: 5 chunk groups, 4 stored pairs (256 bytes, pre-order: nodes 3, 1, 0, 2).
     ob_io keep   a PreIO outboard holding the first `keep` bytes of the intact pre-order outboard
     ob_io 256    intact;   ob_io 200: slots of nodes 3, 1, 0 complete, 8 bytes of the slot of node 2 *)
From BaoV Require Import Model.Sync Model.Fsm Spec.EncSpec Spec.HashAssm Spec.NodeSpec.
From BaoV Require Import Proofs.PlanBase Proofs.PlanNav Proofs.DecHash Proofs.ObBase Proofs.ShapeBase Proofs.DecWitness
  Proofs.ValSpec Proofs.ValPath Proofs.ValTrue Proofs.ValTop Proofs.ValSound Proofs.HistOb Proofs.HistPath
  Proofs.GapValFsmView Proofs.GapValFsm Proofs.GapValShort Proofs.GapValShortTop Proofs.GapValShortFsm.
From Coq Require Import ZArith Lia.
Open Scope N_scope.

Definition TH : hops := term_hops.
Definition pre_bytes (data : bytes TH) (size bs : N) : bytes TH :=
  flat_map (fun nd => let p := true_pair TH data nd in fst p ++ snd p)
           (filter (sp_persisted size bs) (sp_pre_nodes size bs)).
Definition dat (n : N) : bytes TH := repeat TZ (N.to_nat n).
Definition ob_io (keep : N) : outboard TH :=
  mkOb PreIO (root_hash TH (dat 5120)) (mkTree 5120 0) (firstn (N.to_nat keep) (pre_bytes (dat 5120) 5120 0)).

Lemma dat_len n : blen TH (dat n) = n.
Proof. unfold blen, dat. rewrite repeat_length. lia. Qed.

Lemma lt5 ga : ga < 5 -> ga = 0 \/ ga = 1 \/ ga = 2 \/ ga = 3 \/ ga = 4.
Proof. lia. Qed.

Ltac path_case Hin :=
  vm_compute in Hin;
  repeat (destruct Hin as [Hin|Hin]; [injection Hin as <- <-; vm_compute; reflexivity|]); contradiction.

(* ---- gap A: a truncated io-backed outboard.  load_sync fails inside the tree, the sync validator stops with
        UnexpectedEof, the fsm theorems apply (loads_ok_fsm holds) and the fsm validator reports more ---- *)
Lemma gapA_fsm_nonvacuous :
  exists (HO : hops) (data : bytes HO) (bs : N) (ob : outboard HO) (q : ranges),
    hash_ok HO /\ blen HO data <= 2 ^ 63 /\ bs <= 10 /\ ob_root ob = root_hash HO data /\ wf_ranges q = true /\
    ob_tree ob = mkTree (blen HO data) bs /\ ob_k ob = PreIO /\ 2 <= sp_blocks (blen HO data) bs /\
    blen HO (ob_data ob) < (sp_blocks (blen HO data) bs - 1) * 64 /\
    (exists nd, In nd (sp_pre_nodes (blen HO data) bs) /\
                load_sync HO ob nd = Err KUnexpectedEof /\ load_fsm HO ob nd = Ok (Some (zero_pair HO))) /\
    ~ loads_ok HO ob (blen HO data) bs /\
    loads_ok_fsm HO ob (blen HO data) bs /\
    valid_ranges HO ob data q = ([(0, 1); (1, 2)], Err KUnexpectedEof) /\
    valid_ranges_fsm HO ob data q = ([(0, 1); (1, 2); (4, 5)], Ok tt) /\
    valid_outboard_ranges HO ob q = ([(0, 1); (1, 2)], Err KUnexpectedEof) /\
    valid_outboard_ranges_fsm HO ob q = ([(0, 1); (1, 2); (4, 5)], Ok tt) /\
    In (4, 5) (fst (valid_ranges_fsm HO ob data q)) /\
    touched q (blen HO data) bs 4 /\ path_true_fsm HO data bs ob 4 /\
    chain_ok_fsm HO ob (blen HO data) bs 4 /\ leaf_ok_fsm HO data ob (blen HO data) bs 4 /\
    ~ chain_ok_fsm HO ob (blen HO data) bs 2.
Proof.
  exists TH, (dat 5120), 0, (ob_io 200), [0]. rewrite dat_len.
  assert (Hsize : 5120 <= 2 ^ 63) by (vm_compute; discriminate).
  assert (Hbs : 0 <= 10) by (vm_compute; discriminate).
  assert (Htree : ob_tree (ob_io 200) = mkTree 5120 0) by reflexivity.
  assert (HB : 2 <= sp_blocks 5120 0) by (vm_compute; discriminate).
  assert (Hbad : load_sync TH (ob_io 200) 2 = Err KUnexpectedEof) by (vm_compute; reflexivity).
  assert (Hin2 : In 2 (sp_pre_nodes 5120 0)) by (vm_compute; tauto).
  assert (V4 : grp_verdict_fsm TH true (ob_io 200) (dat 5120) 5120 0 4 = true) by (vm_compute; reflexivity).
  apply (fsm_grp_verdict_iff TH 5120 0 (ob_io 200) Hsize Hbs Htree true (dat 5120) 4 HB) in V4. destruct V4 as [C4 L4].
  split; [exact term_hops_ok|]. split; [exact Hsize|]. split; [exact Hbs|]. split; [reflexivity|].
  split; [reflexivity|]. split; [exact Htree|]. split; [reflexivity|]. split; [exact HB|].
  split; [vm_compute; reflexivity|].
  split; [exists 2; split; [exact Hin2|split; [exact Hbad|vm_compute; reflexivity]]|].
  split; [intro H; destruct (H 2 Hin2) as [x Hx]; rewrite Hbad in Hx; discriminate|].
  split; [apply (loads_ok_fsm_io TH 5120 0 Hsize Hbs (ob_io 200)); [left; reflexivity|exact Htree]|].
  split; [vm_compute; reflexivity|]. split; [vm_compute; reflexivity|].
  split; [vm_compute; reflexivity|]. split; [vm_compute; reflexivity|].
  split; [vm_compute; tauto|].
  split; [apply touched_iff; vm_compute; reflexivity|].
  split; [intros nd rt Hin; path_case Hin|].
  split; [exact C4|]. split; [exact (L4 eq_refl)|].
  intro C2. assert (V2 : grp_verdict_fsm TH false (ob_io 200) [] 5120 0 2 = true).
  { apply (fsm_grp_verdict_iff TH 5120 0 (ob_io 200) Hsize Hbs Htree false [] 2 HB). split; [exact C2|discriminate]. }
  vm_compute in V2. discriminate.
Qed.

(* an intact io-backed outboard: every path is true (the premise of fsm_intact_complete) *)
Lemma gapA_fsm_intact_nonvacuous :
  exists (HO : hops) (data : bytes HO) (bs : N) (ob : outboard HO) (q : ranges),
    hash_ok HO /\ blen HO data <= 2 ^ 63 /\ bs <= 10 /\ ob_root ob = root_hash HO data /\ wf_ranges q = true /\
    ob_tree ob = mkTree (blen HO data) bs /\ loads_ok_fsm HO ob (blen HO data) bs /\
    2 <= sp_blocks (blen HO data) bs /\
    (forall ga, ga < sp_blocks (blen HO data) bs -> path_true_fsm HO data bs ob ga) /\
    valid_ranges_fsm HO ob data q = ([(3, 4)], Ok tt).
Proof.
  exists TH, (dat 5120), 0, (ob_io 256), [3; 4]. rewrite dat_len.
  assert (Hsize : 5120 <= 2 ^ 63) by (vm_compute; discriminate).
  assert (Hbs : 0 <= 10) by (vm_compute; discriminate).
  split; [exact term_hops_ok|]. split; [exact Hsize|]. split; [exact Hbs|]. split; [reflexivity|].
  split; [reflexivity|]. split; [reflexivity|].
  split; [apply (loads_ok_fsm_io TH 5120 0 Hsize Hbs (ob_io 256)); [left; reflexivity|reflexivity]|].
  split; [vm_compute; discriminate|].
  split; [|vm_compute; reflexivity].
  intros ga Hga. change (sp_blocks 5120 0) with 5 in Hga.
  destruct (lt5 ga Hga) as [->|[->|[->|[->| ->]]]]; intros nd rt Hin; path_case Hin.
Qed.

(* a single group, fsm *)
Lemma gapA_fsm_single_nonvacuous :
  exists (HO : hops) (size bs : N) (q : ranges) (ob : outboard HO) (d : bytes HO),
    ob_tree ob = mkTree size bs /\ blen HO d = size /\ sp_blocks size bs = 1 /\ ob_k ob = PreIO /\
    valid_ranges_fsm HO ob d q = ([(0, 1)], Ok tt).
Proof.
  exists TH, 100, 0, [0], (mkOb PreIO (root_hash TH (dat 100)) (mkTree 100 0) []), (dat 100).
  split; [reflexivity|]. split; [apply dat_len|]. split; [reflexivity|]. split; [reflexivity|].
  vm_compute. reflexivity.
Qed.

(* ---- gap B: a data file shorter than the blob (4101 of 5120 bytes: group 4 cannot be read), intact outboard ---- *)
Lemma ob_io_sized : ob_sized TH (ob_io 256) 5120 0.
Proof. constructor; [left; reflexivity|reflexivity|vm_compute; reflexivity]. Qed.

Lemma gapB_short_nonvacuous :
  exists (HO : hops) (data : bytes HO) (bs : N) (ob : outboard HO) (q : ranges) (d : bytes HO),
    hash_ok HO /\ blen HO data <= 2 ^ 63 /\ bs <= 10 /\ ob_root ob = root_hash HO data /\ wf_ranges q = true /\
    ob_tree ob = mkTree (blen HO data) bs /\ loads_ok HO ob (blen HO data) bs /\
    2 <= sp_blocks (blen HO data) bs /\ blen HO d < blen HO data /\
    grp_eof HO ob d (blen HO data) bs q 4 = true /\
    (forall ga', ga' < 4 -> grp_eof HO ob d (blen HO data) bs q ga' = false) /\
    valid_ranges HO ob d q = ([(0, 1); (1, 2); (2, 3); (3, 4)], Err KUnexpectedEof) /\
    In (3, 4) (fst (valid_ranges HO ob d q)) /\
    touched q (blen HO data) bs 3 /\ path_true HO data bs ob 3 /\ grp_bend (blen HO data) bs 3 <= blen HO d /\
    chunk_bytes HO (take HO (blen HO data) d) (grp_start bs 3) (grp_end (blen HO data) bs 3)
    = chunk_bytes HO data (grp_start bs 3) (grp_end (blen HO data) bs 3) /\
    (* a query that does not touch the unreadable group: no error *)
    valid_ranges HO ob d [3; 4] = ([(3, 4)], Ok tt).
Proof.
  exists TH, (dat 5120), 0, (ob_io 256), [0], (dat 4101). rewrite !dat_len.
  assert (Hsize : 5120 <= 2 ^ 63) by (vm_compute; discriminate).
  assert (Hbs : 0 <= 10) by (vm_compute; discriminate).
  split; [exact term_hops_ok|]. split; [exact Hsize|]. split; [exact Hbs|]. split; [reflexivity|].
  split; [reflexivity|]. split; [reflexivity|].
  split; [intros nd Hin; exact (proj1 (sized_loads TH 5120 0 Hsize Hbs (ob_io 256) nd ob_io_sized Hin))|].
  split; [vm_compute; discriminate|]. split; [vm_compute; reflexivity|].
  split; [vm_compute; reflexivity|].
  split.
  { intros ga Hga. assert (H : ga = 0 \/ ga = 1 \/ ga = 2 \/ ga = 3) by lia.
    destruct H as [->|[->|[->| ->]]]; vm_compute; reflexivity. }
  split; [vm_compute; reflexivity|]. split; [vm_compute; tauto|].
  split; [apply touched_iff; vm_compute; reflexivity|].
  split; [intros nd rt Hin; path_case Hin|].
  split; [vm_compute; discriminate|].
  split; vm_compute; reflexivity.
Qed.

(* gap B, fsm: truncated outboard and short data file *)
Lemma gapB_short_fsm_nonvacuous :
  exists (HO : hops) (data : bytes HO) (bs : N) (ob : outboard HO) (q : ranges) (d : bytes HO),
    hash_ok HO /\ blen HO data <= 2 ^ 63 /\ bs <= 10 /\ ob_root ob = root_hash HO data /\ wf_ranges q = true /\
    ob_tree ob = mkTree (blen HO data) bs /\ loads_ok_fsm HO ob (blen HO data) bs /\
    blen HO (ob_data ob) < (sp_blocks (blen HO data) bs - 1) * 64 /\
    2 <= sp_blocks (blen HO data) bs /\ blen HO d < blen HO data /\
    grp_eof_fsm HO ob d (blen HO data) bs q 4 = true /\
    (forall ga', ga' < 4 -> grp_eof_fsm HO ob d (blen HO data) bs q ga' = false) /\
    valid_ranges_fsm HO ob d q = ([(0, 1); (1, 2)], Err KUnexpectedEof) /\
    In (1, 2) (fst (valid_ranges_fsm HO ob d q)) /\
    touched q (blen HO data) bs 1 /\ path_true_fsm HO data bs ob 1 /\ grp_bend (blen HO data) bs 1 <= blen HO d /\
    chunk_bytes HO (take HO (blen HO data) d) (grp_start bs 1) (grp_end (blen HO data) bs 1)
    = chunk_bytes HO data (grp_start bs 1) (grp_end (blen HO data) bs 1).
Proof.
  exists TH, (dat 5120), 0, (ob_io 200), [0], (dat 4101). rewrite !dat_len.
  assert (Hsize : 5120 <= 2 ^ 63) by (vm_compute; discriminate).
  assert (Hbs : 0 <= 10) by (vm_compute; discriminate).
  split; [exact term_hops_ok|]. split; [exact Hsize|]. split; [exact Hbs|]. split; [reflexivity|].
  split; [reflexivity|]. split; [reflexivity|].
  split; [apply (loads_ok_fsm_io TH 5120 0 Hsize Hbs (ob_io 200)); [left; reflexivity|reflexivity]|].
  split; [vm_compute; reflexivity|].
  split; [vm_compute; discriminate|]. split; [vm_compute; reflexivity|].
  split; [vm_compute; reflexivity|].
  split.
  { intros ga Hga. assert (H : ga = 0 \/ ga = 1 \/ ga = 2 \/ ga = 3) by lia.
    destruct H as [->|[->|[->| ->]]]; vm_compute; reflexivity. }
  split; [vm_compute; reflexivity|]. split; [vm_compute; tauto|].
  split; [apply touched_iff; vm_compute; reflexivity|].
  split; [intros nd rt Hin; path_case Hin|].
  split; [vm_compute; discriminate|].
  vm_compute; reflexivity.
Qed.

(* gap B, single group: a short file gives UnexpectedEof and nothing else *)
Lemma gapB_single_nonvacuous :
  exists (HO : hops) (size bs : N) (q : ranges) (ob : outboard HO) (d : bytes HO),
    ob_tree ob = mkTree size bs /\ sp_blocks size bs = 1 /\ blen HO d < size /\
    valid_ranges HO ob d q = ([], Err KUnexpectedEof) /\ valid_ranges_fsm HO ob d q = ([], Err KUnexpectedEof).
Proof.
  exists TH, 100, 0, [0], (mkOb PreIO (root_hash TH (dat 100)) (mkTree 100 0) []), (dat 50).
  split; [reflexivity|]. split; [reflexivity|]. split; [rewrite dat_len; reflexivity|].
  split; vm_compute; reflexivity.
Qed.

(* ---- refuted: for a data file LONGER than the blob the literal clause "chunk_bytes d a e = chunk_bytes data a e"
        fails for the last group when the blob does not end on a chunk boundary (the validator reads inside
        [0, size) only, chunk_bytes d takes the surplus bytes too).  The true statement is short_reported_is_true:
        chunk_bytes (take size d) a e = chunk_bytes data a e.  Not a defect of the crate. ---- *)
Definition ob_l : outboard TH :=
  mkOb PreIO (root_hash TH (dat 1025)) (mkTree 1025 0) (pre_bytes (dat 1025) 1025 0).

Lemma short_reported_long_refuted :
  exists (HO : hops) (data : bytes HO) (bs : N) (ob : outboard HO) (q : ranges) (d : bytes HO) (a e : N),
    hash_ok HO /\ blen HO data <= 2 ^ 63 /\ bs <= 10 /\ ob_root ob = root_hash HO data /\ wf_ranges q = true /\
    ob_tree ob = mkTree (blen HO data) bs /\ loads_ok HO ob (blen HO data) bs /\ loads_ok_fsm HO ob (blen HO data) bs /\
    2 <= sp_blocks (blen HO data) bs /\ blen HO data < blen HO d /\
    In (a, e) (fst (valid_ranges HO ob d q)) /\ In (a, e) (fst (valid_ranges_fsm HO ob d q)) /\
    chunk_bytes HO d a e <> chunk_bytes HO data a e /\
    chunk_bytes HO (take HO (blen HO data) d) a e = chunk_bytes HO data a e.
Proof.
  exists TH, (dat 1025), 0, ob_l, [0], (dat 1026), 1, 2. rewrite !dat_len.
  assert (Hsize : 1025 <= 2 ^ 63) by (vm_compute; discriminate).
  assert (Hbs : 0 <= 10) by (vm_compute; discriminate).
  assert (Hs : ob_sized TH ob_l 1025 0) by (constructor; [left; reflexivity|reflexivity|vm_compute; reflexivity]).
  split; [exact term_hops_ok|]. split; [exact Hsize|]. split; [exact Hbs|]. split; [reflexivity|].
  split; [reflexivity|]. split; [reflexivity|].
  split; [intros nd Hin; exact (proj1 (sized_loads TH 1025 0 Hsize Hbs ob_l nd Hs Hin))|].
  split; [exact (loads_ok_fsm_sized TH 1025 0 Hsize Hbs ob_l Hs)|].
  split; [vm_compute; discriminate|]. split; [vm_compute; reflexivity|].
  split; [vm_compute; tauto|]. split; [vm_compute; tauto|].
  split; [vm_compute; discriminate|vm_compute; reflexivity].
Qed.

Print Assumptions gapA_fsm_nonvacuous.
Print Assumptions gapA_fsm_intact_nonvacuous.
Print Assumptions gapA_fsm_single_nonvacuous.
Print Assumptions gapB_short_nonvacuous.
Print Assumptions gapB_short_fsm_nonvacuous.
Print Assumptions gapB_single_nonvacuous.
Print Assumptions short_reported_long_refuted.
