(* The parent nodes of the encoder's plan are a function of the selection: a recursive description
   over chunk intervals ([nspec]) that mentions the query only through sel. *)
From BaoV Require Import Model.Fsm Spec.RangeSpec Spec.NodeSpec Spec.PlanSpec Spec.EncSpec Spec.HashAssm.
From BaoV Require Import Proofs.RangeBase Proofs.RangeTrunc Proofs.PlanRs.
From BaoV Require Import Proofs.BridgeBase Proofs.BridgeTree Proofs.BridgePlan.
From BaoV Require Import Proofs.EncPlan Proofs.EncRec Proofs.EncGeom Proofs.EncLoop Proofs.EncMain Proofs.EncTop Proofs.EncThm.
From Coq Require Import Lia Arith PeanoNat ZArith ZifyN ZifyNat ZifyBool.
Ltac Zify.zify_post_hook ::= Z.div_mod_to_equations.
Arguments N.add : simpl never.
Arguments N.sub : simpl never.
Arguments N.mul : simpl never.
Arguments N.pow : simpl never.
Arguments N.div : simpl never.
Arguments N.modulo : simpl never.
Arguments N.log2 : simpl never.
Arguments N.min : simpl never.
Arguments N.max : simpl never.

Fixpoint nspec (fuel : nat) (bs : N) (S0 : N -> bool) (a b : N) : list N :=
  match fuel with
  | O => []
  | S f =>
    if b - a <=? 2 ^ bs then []
    else if negb (existsb S0 (chunk_range_list a b)) then []
    else let h := next_pow2 (b - a) / 2 in
         (a + h - 1) :: nspec f bs S0 a (a + h) ++ nspec f bs S0 (a + h) b
  end.

Definition sel_nodes (size bs : N) (S0 : N -> bool) : list N := nspec 64 bs S0 0 (nchunks size).

Lemma nspec_eq f bs S0 a b :
  nspec (S f) bs S0 a b =
    if b - a <=? 2 ^ bs then []
    else if negb (existsb S0 (chunk_range_list a b)) then []
    else (a + next_pow2 (b - a) / 2 - 1) :: nspec f bs S0 a (a + next_pow2 (b - a) / 2) ++ nspec f bs S0 (a + next_pow2 (b - a) / 2) b.
Proof. reflexivity. Qed.

Lemma nspec_none f bs S0 a b : existsb S0 (chunk_range_list a b) = false -> nspec f bs S0 a b = [].
Proof. intro H. destruct f; [reflexivity|]. rewrite nspec_eq, H. now destruct (b - a <=? 2 ^ bs). Qed.

Lemma nspec_ext bs (S1 S2 : N -> bool) : (forall c, S1 c = S2 c) ->
  forall f a b, nspec f bs S1 a b = nspec f bs S2 a b.
Proof.
  intros H. induction f as [|f IH]; intros a b; [reflexivity|].
  rewrite !nspec_eq. rewrite (existsb_ext' S1 S2) by (intros; apply H). now rewrite !IH.
Qed.

Section Nodes.
Variable HO : hops.
Variable data : bytes HO.
Variable bs : N.
Variable q : ranges.
Hypothesis Hwf : wf_ranges q = true.
Hypothesis Hsize : blen HO data <= 2 ^ 63.
Hypothesis Hbs : bs <= 10.
Local Notation size := (blen HO data).
Local Notation nn := (nchunks (blen HO data)).
Local Notation q' := (truncate_ranges q (blen HO data)).
Local Notation Sel := (sel q (blen HO data)).

Definition Pn (a E : N) (rm : bool) (rs : ranges) (ir : bool) (plan : list chunk) : Prop :=
  forall f : nat, E - a <= 2 ^ N.of_nat f -> plan_nodes plan = nspec (S f) bs Sel a E.

Lemma plan_nodes_spec : q <> [] ->
  plan_nodes (rplan size bs q') = sel_nodes size bs Sel.
Proof.
  intro Hne. pose proof (nchunks_small _ Hsize) as Hn.
  pose proof (rplan_ind_root size bs q' Hsize Hbs Pn) as H.
  assert (HP : Pn 0 nn true q' true (rplan size bs q')).
  { apply H; clear H.
    - intros a E rm rs ir Hl f Hf. destruct (leaf_group HO data bs q Hsize Hbs _ a E rm rs Hl) as [_ Hg].
      rewrite nspec_eq. assert (E1 : (E - a <=? 2 ^ bs) = true) by (apply N.leb_le; exact Hg). rewrite E1. reflexivity.
    - intros a m E rm rs ir l_rs r_rs pl pr Hpar Hrs Hrne H1 H2 Esp Hl Hr HPl HPr f Hf.
      destruct Hpar as [A1 A2 A3 A4 A5 A6 A7].
      assert (Hgt : 2 ^ bs < E - a).
      { destruct (N.lt_ge_cases (2 ^ bs) (E - a)) as [|G]; [assumption|exfalso].
        apply np2_le in G. lia. }
      destruct (pow2_ge2_fuel (E - a) f) as [f' ->]; [pose proof (pow2_ge1 bs); lia|exact Hf|].
      rewrite of_nat_S in Hf.
      pose proof (half_bounds (E - a) (N.of_nat f') ltac:(lia) Hf) as (B1 & B2 & B3 & B4 & B5). cbv zeta in B1, B2, B3, B4, B5.
      rewrite A4 in B1, B2, B3, B4, B5.
      rewrite nspec_eq. assert (E1 : (E - a <=? 2 ^ bs) = false) by (apply N.leb_gt; exact Hgt). rewrite E1.
      pose proof (empty_is_sel_trunc HO data q Hwf Hsize rs a E rm Hrs ltac:(lia) A3 H1 H2) as X.
      assert (Ex : existsb Sel (chunk_range_list a E) = true).
      { destruct rs; [congruence|]. cbn [r_is_empty] in X. now destruct (existsb Sel (chunk_range_list a E)). }
      rewrite Ex. cbn [negb]. rewrite A4. replace (a + (m - a)) with m by lia.
      unfold plan_nodes. cbn [flat_map app]. fold (plan_nodes (pl ++ pr)). rewrite plan_nodes_app. f_equal. f_equal.
      + pose proof (empty_is_sel_trunc HO data q Hwf Hsize l_rs a m false Hl A1 ltac:(lia) ltac:(discriminate) ltac:(intros _; lia)) as Y.
        destruct (r_is_empty l_rs).
        * subst pl. rewrite nspec_none; [reflexivity|]. now destruct (existsb Sel (chunk_range_list a m)).
        * apply HPl. lia.
      + pose proof (empty_is_sel_trunc HO data q Hwf Hsize r_rs m E rm Hr A2 A3 H1 H2) as Y.
        destruct (r_is_empty r_rs).
        * subst pr. rewrite nspec_none; [reflexivity|]. now destruct (existsb Sel (chunk_range_list m E)).
        * apply HPr. lia.
    - apply rs_ok_root. now apply truncate_wf.
    - now apply q'_nonempty. }
  unfold sel_nodes. change 64%nat with (S 63). apply HP. change (N.of_nat 63) with 63.
  assert (P : 2 ^ 53 <= 2 ^ 63) by (apply pow2_le_mono; lia). lia.
Qed.

Theorem enc_nodes_spec : enc_nodes size bs q = sel_nodes size bs Sel.
Proof.
  rewrite <- (nodes_eq HO data bs q Hwf Hsize Hbs).
  destruct q as [|x t] eqn:Eq.
  - rewrite truncate_nil, rplan_nil. unfold sel_nodes. symmetry. apply nspec_none.
    induction (chunk_range_list 0 nn) as [|c l IH]; [reflexivity|]. cbn [existsb]. now rewrite sel_nil, IH.
  - rewrite <- Eq in *. apply plan_nodes_spec. rewrite Eq. discriminate.
Qed.

End Nodes.

Theorem enc_nodes_of_selection (HO : hops) (data : bytes HO) (bs : N) (q1 q2 : ranges) :
  wf_ranges q1 = true -> wf_ranges q2 = true -> blen HO data <= 2 ^ 63 -> bs <= 10 ->
  (forall c, sel q1 (blen HO data) c = sel q2 (blen HO data) c) ->
  enc_nodes (blen HO data) bs q1 = enc_nodes (blen HO data) bs q2.
Proof.
  intros W1 W2 Hs Hb Hsel.
  rewrite (enc_nodes_spec HO data bs q1 W1 Hs Hb), (enc_nodes_spec HO data bs q2 W2 Hs Hb).
  unfold sel_nodes. now apply nspec_ext.
Qed.

(* the validating encoders depend on the query only through the selection (one intactness premise) *)
Theorem function_of_selection_one (HO : hops) (data : bytes HO) (bs : N) (q1 q2 : ranges) (ob : outboard HO) :
  wf_ranges q1 = true -> wf_ranges q2 = true -> blen HO data <= 2 ^ 63 -> bs <= 10 ->
  ob_tree ob = mkTree (blen HO data) bs -> ob_root ob = root_hash HO data -> beq_correct HO ->
  (forall c, sel q1 (blen HO data) c = sel q2 (blen HO data) c) ->
  (forall nd, In nd (enc_nodes (blen HO data) bs q1) -> stored_ok HO data ob nd) ->
  encode_ranges_validated HO data ob q1 = encode_ranges_validated HO data ob q2.
Proof.
  intros W1 W2 Hs Hb Ht Hr Hbeq Hsel S1.
  assert (S2 : forall nd, In nd (enc_nodes (blen HO data) bs q2) -> stored_ok HO data ob nd).
  { intros nd H. apply S1. now rewrite (enc_nodes_of_selection HO data bs q1 q2 W1 W2 Hs Hb Hsel). }
  rewrite (c02_sync HO data bs q1 W1 Hs Hb ob Ht Hr Hbeq S1), (c02_sync HO data bs q2 W2 Hs Hb ob Ht Hr Hbeq S2).
  now rewrite (bridge_function_of_selection HO data bs q1 q2 Hsel).
Qed.

Theorem function_of_selection_one_fsm (HO : hops) (data : bytes HO) (bs : N) (q1 q2 : ranges) (ob : outboard HO) :
  wf_ranges q1 = true -> wf_ranges q2 = true -> blen HO data <= 2 ^ 63 -> bs <= 10 ->
  ob_tree ob = mkTree (blen HO data) bs -> ob_root ob = root_hash HO data -> beq_correct HO ->
  (forall c, sel q1 (blen HO data) c = sel q2 (blen HO data) c) ->
  (forall nd, In nd (enc_nodes (blen HO data) bs q1) -> stored_ok_fsm HO data ob nd) ->
  encode_ranges_validated_fsm HO data ob q1 = encode_ranges_validated_fsm HO data ob q2.
Proof.
  intros W1 W2 Hs Hb Ht Hr Hbeq Hsel S1.
  assert (S2 : forall nd, In nd (enc_nodes (blen HO data) bs q2) -> stored_ok_fsm HO data ob nd).
  { intros nd H. apply S1. now rewrite (enc_nodes_of_selection HO data bs q1 q2 W1 W2 Hs Hb Hsel). }
  rewrite (c02_fsm HO data bs q1 W1 Hs Hb ob Ht Hr Hbeq S1), (c02_fsm HO data bs q2 W2 Hs Hb ob Ht Hr Hbeq S2).
  now rewrite (bridge_function_of_selection HO data bs q1 q2 Hsel).
Qed.
