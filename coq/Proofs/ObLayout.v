(* C03: byte layout of the io-backed outboards produced by create_sized: 64-byte pairs written at
   slots that cover 0..n-1 give the concatenation by slot. *)
From BaoV Require Import Model.Sync Model.Fsm Spec.EncSpec Spec.PlanSpec Spec.HashAssm
  Proofs.NodeLevel Proofs.NodeBits Proofs.RangeRound Proofs.ObBase Proofs.ObLoop Proofs.ObCreate Proofs.ObSize.
From Coq Require Import Lia Arith PeanoNat ZArith ZifyN ZifyNat ZifyBool.

Lemma map_nth_seq {A} (l : list A) d : map (fun i => nth i l d) (seq 0 (length l)) = l.
Proof.
  induction l as [|x l IH]; [reflexivity|].
  cbn [length seq map nth]. f_equal. rewrite <- seq_shift, map_map. exact IH.
Qed.

Section WriteAt.
Variable HO : hops.
Notation bytes := (bytes HO).
Notation hash := (hash HO).
Notation blen := (blen HO).
Notation take := (take HO).
Notation drop := (drop HO).
Notation slice := (slice HO).
Notation write_at := (write_at HO).

Lemma drop_app_ge n (a b : bytes) : blen a <= n -> drop n (a ++ b) = drop (n - blen a) b.
Proof.
  unfold Hash.drop, Hash.blen. intro H. rewrite skipn_app.
  rewrite (skipn_all2 a) by lia. cbn [app]. f_equal. lia.
Qed.

Definition ext_to (d : bytes) (off : N) : bytes :=
  if blen d <? off then d ++ zeros HO (N.to_nat (off - blen d)) else d.
Lemma write_at_eq d off b :
  write_at d off b = take off (ext_to d off) ++ b ++ drop (off + blen b) (ext_to d off).
Proof. reflexivity. Qed.
Lemma blen_ext_to d off : blen (ext_to d off) = N.max (blen d) off.
Proof.
  unfold ext_to. destruct (blen d <? off) eqn:E; [|lia].
  rewrite blen_app, blen_zeros. lia.
Qed.
Lemma slice_ext_to d off o len : o + len <= blen d -> slice o len (ext_to d off) = slice o len d.
Proof.
  intro H. unfold ext_to. destruct (blen d <? off); [|reflexivity].
  unfold Hash.slice. rewrite drop_app_le by lia. apply take_app_le. rewrite blen_drop. lia.
Qed.

Lemma blen_write_at d off b : blen (write_at d off b) = N.max (blen d) (off + blen b).
Proof.
  rewrite write_at_eq, !blen_app, blen_take, blen_drop, blen_ext_to. lia.
Qed.

Lemma slice_write_at_same d off b : slice off (blen b) (write_at d off b) = b.
Proof.
  rewrite write_at_eq. unfold Hash.slice.
  assert (Ht : blen (take off (ext_to d off)) = off) by (rewrite blen_take, blen_ext_to; lia).
  rewrite drop_app_ge by lia. rewrite Ht, N.sub_diag, (drop_0 HO). apply take_app_exact.
Qed.

Lemma slice_write_at_other d off b o len :
  0 < len -> o + len <= blen d -> (o + len <= off \/ off + blen b <= o) ->
  slice o len (write_at d off b) = slice o len d.
Proof.
  intros Hl Hin Hd. rewrite write_at_eq.
  assert (Ht : blen (take off (ext_to d off)) = off) by (rewrite blen_take, blen_ext_to; lia).
  destruct Hd as [Hd|Hd].
  - rewrite <- (slice_ext_to d off o len Hin). unfold Hash.slice.
    rewrite drop_app_le by lia. rewrite take_app_le by (rewrite blen_drop; lia).
    rewrite drop_take, take_take. f_equal. lia.
  - assert (E : ext_to d off = d) by (unfold ext_to; replace (blen d <? off) with false by lia; reflexivity).
    rewrite E in *. unfold Hash.slice.
    rewrite drop_app_ge by lia. rewrite Ht. rewrite drop_app_ge by lia.
    rewrite drop_drop. do 2 f_equal. lia.
Qed.

(* ---- slots ---- *)
Section Slots.
Variable F : N -> bytes.
Variable n : N.
Hypothesis HF : forall i, i < n -> blen (F i) = 64.

Definition slot_ok (d : bytes) (i : N) : Prop := slice (i * 64) 64 d = F i.

Lemma slot_ok_inside d i : i < n -> slot_ok d i -> i * 64 + 64 <= blen d.
Proof.
  intros Hi H. unfold slot_ok in H. pose proof (HF i Hi) as Hb. rewrite <- H in Hb.
  unfold Hash.slice in Hb. rewrite blen_take, blen_drop in Hb. lia.
Qed.

Lemma write_slot d o :
  o < n -> blen d <= 64 * n ->
  blen (write_at d (o * 64) (F o)) <= 64 * n /\
  slot_ok (write_at d (o * 64) (F o)) o /\
  (forall i, i < n -> slot_ok d i -> slot_ok (write_at d (o * 64) (F o)) i).
Proof.
  intros Ho Hd. pose proof (HF o Ho) as Hb.
  pose proof (slice_write_at_same d (o * 64) (F o)) as Hsame. rewrite Hb in Hsame.
  split; [|split].
  - rewrite blen_write_at. lia.
  - exact Hsame.
  - intros i Hi Hs. destruct (N.eq_dec i o) as [->|Hne].
    + exact Hsame.
    + unfold slot_ok. rewrite slice_write_at_other; [exact Hs|lia|exact (slot_ok_inside d i Hi Hs)|lia].
Qed.

Lemma slots_concat : forall (k : nat) d, N.of_nat k <= n ->
  blen d <= 64 * N.of_nat k -> (forall i, i < N.of_nat k -> slot_ok d i) ->
  d = concat (map (fun j => F (N.of_nat j)) (seq 0 k)).
Proof.
  induction k as [|k IH]; intros d Hk Hd Hs.
  - cbn [seq map concat]. destruct d; [reflexivity|]. unfold Hash.blen in Hd. cbn [length] in Hd. lia.
  - rewrite seq_S, map_app, concat_app. cbn [map concat Nat.add]. rewrite app_nil_r.
    rewrite <- (take_app_drop HO (64 * N.of_nat k) d) at 1.
    pose proof (Hs (N.of_nat k) ltac:(lia)) as Hlast.
    pose proof (slot_ok_inside d (N.of_nat k) ltac:(lia) Hlast) as Hin.
    f_equal.
    + apply IH; [lia|rewrite blen_take; lia|].
      intros i Hi. unfold slot_ok. rewrite <- (Hs i ltac:(lia)). unfold Hash.slice.
      rewrite drop_take, take_take. f_equal. lia.
    + unfold slot_ok, Hash.slice in Hlast. rewrite <- Hlast.
      replace (N.of_nat k * 64) with (64 * N.of_nat k) by lia.
      symmetry. apply take_all. rewrite blen_drop. lia.
Qed.
End Slots.
End WriteAt.

Section Layout.
Variable HO : hops.
Notation bytes := (bytes HO).
Notation hash := (hash HO).
Notation outboard := (outboard HO).
Notation blen := (blen HO).

Definition pflat (p : N * (hash * hash)) : bytes := fst (snd p) ++ snd (snd p).
Lemma flat_pairs_map l : flat_pairs HO l = concat (map pflat l).
Proof. reflexivity. Qed.

Variable kd : ob_kind.
Hypothesis Hkd : io_backed kd.
Variable r0 : hash.
Variable t : tree.
Definition off_of (nd : N) : option N := ob_offset HO (mkOb kd r0 t []) nd.

Lemma save_io_at d nd l r o : off_of nd = Some o ->
  save HO (mkOb kd r0 t d) nd l r = Ok (mkOb kd r0 t (write_at HO d (o * 64) (l ++ r))).
Proof.
  unfold off_of, ob_offset, save. cbn [ob_k ob_tree ob_root ob_data].
  destruct Hkd as [-> | ->]; unfold ob_offset; cbn [ob_k ob_tree]; intros ->; reflexivity.
Qed.

Variable P : list (N * (hash * hash)).      (* pairs in slot order *)
Hypothesis HP32 : Forall (pair32 HO) P.
Hypothesis HoffP : map off_of (map fst P) = map (fun i => Some (N.of_nat i)) (seq 0 (length P)).

Let dflt : N * (hash * hash) := (0, ([], [])).
Let n := N.of_nat (length P).
Let F (i : N) : bytes := pflat (nth (N.to_nat i) P dflt).

Lemma F_len i : i < n -> blen (F i) = 64.
Proof.
  intro Hi. unfold F. assert (Hin : In (nth (N.to_nat i) P dflt) P) by (apply nth_In; unfold n in Hi; lia).
  rewrite Forall_forall in HP32. destruct (HP32 _ Hin) as [H1 H2].
  unfold pflat, Hash.blen. rewrite app_length, H1, H2. reflexivity.
Qed.

Lemma off_nth (k : nat) : (k < length P)%nat -> off_of (fst (nth k P dflt)) = Some (N.of_nat k).
Proof.
  intro Hk. pose proof (f_equal (fun l => nth k l None) HoffP) as H. cbv beta in H.
  rewrite map_map in H.
  rewrite (nth_indep _ None (off_of (fst dflt))) in H by (rewrite map_length; exact Hk).
  rewrite (map_nth (fun x => off_of (fst x))) in H.
  rewrite (nth_indep _ None ((fun i => Some (N.of_nat i)) O)) in H by (rewrite map_length, seq_length; exact Hk).
  rewrite (map_nth (fun i => Some (N.of_nat i))) in H. rewrite seq_nth in H by exact Hk. exact H.
Qed.

Lemma in_P_slot p : In p P -> exists k, k < n /\ off_of (fst p) = Some k /\ pflat p = F k.
Proof.
  intro Hin. destruct (In_nth P p dflt Hin) as (k & Hk & E).
  exists (N.of_nat k). split; [unfold n; lia|]. split.
  - rewrite <- E. apply off_nth. exact Hk.
  - unfold F. rewrite Nat2N.id, E. reflexivity.
Qed.

Lemma save_all_slots : forall (S : list (N * (hash * hash))) d,
  (forall p, In p S -> In p P) -> blen d <= 64 * n ->
  exists d', save_all HO (mkOb kd r0 t d) S = Ok (mkOb kd r0 t d') /\ blen d' <= 64 * n /\
    (forall i, i < n -> slot_ok HO F d i -> slot_ok HO F d' i) /\
    (forall p, In p S -> forall k, off_of (fst p) = Some k -> slot_ok HO F d' k).
Proof.
  induction S as [|[nd [lh rh]] S IH]; intros d Hsub Hd.
  - exists d. cbn [save_all]. split; [reflexivity|split; [exact Hd|split; [auto|intros p []]]].
  - destruct (in_P_slot (nd, (lh, rh)) (Hsub _ (or_introl eq_refl))) as (k & Hk & Hoff & Hfl).
    cbn [fst] in Hoff. unfold pflat in Hfl. cbn [fst snd] in Hfl.
    cbn [save_all]. rewrite (save_io_at d nd lh rh k Hoff). rewrite Hfl.
    destruct (write_slot HO F n F_len d k Hk Hd) as (W1 & W2 & W3).
    destruct (IH (write_at HO d (k * 64) (F k)) (fun p Hp => Hsub p (or_intror Hp)) W1) as (d' & E & L & K1 & K2).
    exists d'. split; [exact E|split; [exact L|split]].
    + intros i Hi Hs. apply K1; [exact Hi|]. apply W3; assumption.
    + intros p [<-|Hp] k' Hk'.
      * cbn [fst] in Hk'. rewrite Hoff in Hk'. injection Hk' as <-. apply K1; assumption.
      * apply (K2 p Hp k' Hk').
Qed.

Theorem layout (S : list (N * (hash * hash))) :
  (forall p, In p S <-> In p P) ->
  save_all HO (mkOb kd r0 t []) S = Ok (mkOb kd r0 t (flat_pairs HO P)).
Proof.
  intro Heq.
  destruct (save_all_slots S [] (fun p Hp => proj1 (Heq p) Hp) ltac:(unfold Hash.blen; cbn [length]; lia))
    as (d' & E & L & _ & K).
  rewrite E. do 2 f_equal.
  rewrite flat_pairs_map. rewrite <- (map_nth_seq P dflt) at 1. rewrite map_map.
  rewrite (slots_concat HO F n F_len (length P) d' ltac:(unfold n; lia) L).
  - f_equal. apply map_ext. intro j. unfold F. rewrite Nat2N.id. reflexivity.
  - intros i Hi. fold n in Hi.
    assert (Hin : In (nth (N.to_nat i) P dflt) P) by (apply nth_In; unfold n in Hi; lia).
    apply (K _ (proj2 (Heq _) Hin)).
    rewrite off_nth by (unfold n in Hi; lia). f_equal. lia.
Qed.

End Layout.
