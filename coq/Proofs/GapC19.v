(* C19 gaps: decoder soundness, error cases, truncation, io-error text convention, JSON round trips *)
From BaoV Require Import Model.Serde Proofs.SerdeProofs.
From Coq Require Import Lia ZArith NArith List Bool.
Import ListNotations.
Ltac Zify.zify_post_hook ::= Z.to_euclidean_division_equations.
Open Scope N_scope.

Arguments N.mul : simpl never. Arguments N.pow : simpl never. Arguments N.div : simpl never.
Arguments N.modulo : simpl never. Arguments N.add : simpl never. Arguments N.sub : simpl never.

Definition bytes_ok (l : list N) : Prop := Forall (fun b => b < 256) l.

(* ------------------------------------------------------------------------------------------ *)
(* generic helpers *)

Definition suffix_of (r l : list N) : Prop := exists used, l = used ++ r.

Lemma suffix_refl l : suffix_of l l.
Proof. exists []. reflexivity. Qed.

Lemma suffix_trans a b c : suffix_of a b -> suffix_of b c -> suffix_of a c.
Proof. intros [u ->] [w ->]. exists (w ++ u). rewrite app_assoc. reflexivity. Qed.

Lemma bytes_ok_suffix r l : bytes_ok l -> suffix_of r l -> bytes_ok r.
Proof. intros H [u ->]. apply Forall_app in H. apply H. Qed.

Lemma take_n_inv n l a r : take_n n l = Some (a, r) -> length a = n /\ l = a ++ r.
Proof.
  unfold take_n. destruct (Nat.leb n (length l)) eqn:E; [|discriminate].
  intros H; inversion H; subst. apply Nat.leb_le in E.
  split; [apply firstn_length_le; exact E | symmetry; apply firstn_skipn].
Qed.

Lemma take_n_suffix n l a r : take_n n l = Some (a, r) -> suffix_of r l.
Proof. intros H. apply take_n_inv in H. destruct H as [_ ->]. exists a. reflexivity. Qed.

(* ------------------------------------------------------------------------------------------ *)
(* A1: the varint decoder only produces u64 values and consumes 1..10 bytes *)

Lemma pow_split i : (i <= 8)%nat -> 2 ^ (64 - 7 * N.of_nat i) = 128 * 2 ^ (64 - 7 * N.of_nat (S i)).
Proof.
  intros H. replace (64 - 7 * N.of_nat i) with (7 + (64 - 7 * N.of_nat (S i))) by lia.
  rewrite N.pow_add_r. reflexivity.
Qed.

Lemma varint_dec_sound : forall f i l n r, (i + f = 10)%nat -> bytes_ok l ->
  varint_dec i f l = Some (n, r) ->
  exists m, n = m * 2 ^ (7 * N.of_nat i) /\ m < 2 ^ (64 - 7 * N.of_nat i) /\
            exists used, l = used ++ r /\ (1 <= length used <= f)%nat.
Proof.
  induction f as [|f IH]; intros i l n r Hif Hl H; [discriminate|].
  cbn [varint_dec] in H. destruct l as [|b l']; [discriminate|].
  inversion Hl as [|? ? Hb Hl']; subst.
  destruct (b <? 128) eqn:E.
  - destruct (Nat.eqb i 9 && (1 <? b)) eqn:E2; [discriminate|]. inversion H; subst.
    exists b. split; [reflexivity|]. split.
    + apply N.ltb_lt in E. destruct (Nat.eqb i 9) eqn:Ei.
      * apply Nat.eqb_eq in Ei. subst i. cbn [andb] in E2. apply N.ltb_ge in E2.
        change (2 ^ (64 - 7 * N.of_nat 9)) with 2. lia.
      * apply Nat.eqb_neq in Ei.
        assert (Hp : 2 ^ 7 <= 2 ^ (64 - 7 * N.of_nat i)) by (apply N.pow_le_mono_r; lia).
        change (2 ^ 7) with 128 in Hp. lia.
    + exists [b]. split; [reflexivity|]. cbn [length]. lia.
  - destruct (varint_dec (S i) f l') as [[v r']|] eqn:Er; [|discriminate]. inversion H; subst. clear H.
    apply IH in Er; [|lia|exact Hl'].
    destruct Er as (m' & -> & Hm' & used & -> & Hlen).
    apply N.ltb_ge in E.
    exists (b - 128 + 128 * m'). split; [|split].
    + replace (7 * N.of_nat (S i)) with (7 + 7 * N.of_nat i) by lia.
      rewrite N.pow_add_r. change (2 ^ 7) with 128. ring.
    + rewrite pow_split by lia. lia.
    + exists (b :: used). split; [reflexivity|]. cbn [length]. lia.
Qed.

Theorem take_varint_bound : forall l n r, bytes_ok l -> take_varint l = Some (n, r) ->
  n < 2 ^ 64 /\ exists used, l = used ++ r /\ (1 <= length used <= 10)%nat.
Proof.
  intros l n r Hl H. unfold take_varint in H.
  apply varint_dec_sound in H; [|reflexivity|exact Hl].
  destruct H as (m & -> & Hm & used & -> & Hlen).
  change (2 ^ (7 * N.of_nat 0)) with 1. change (2 ^ (64 - 7 * N.of_nat 0)) with (2 ^ 64) in Hm.
  rewrite N.mul_1_r. split; [exact Hm|]. exists used. split; [reflexivity|exact Hlen].
Qed.

Lemma take_varint_suffix l n r : bytes_ok l -> take_varint l = Some (n, r) -> suffix_of r l.
Proof. intros Hl H. destruct (take_varint_bound _ _ _ Hl H) as (_ & u & -> & _). exists u. reflexivity. Qed.

Lemma take_varint_lt l n r : bytes_ok l -> take_varint l = Some (n, r) -> n < 2 ^ 64.
Proof. intros Hl H. apply (take_varint_bound _ _ _ Hl H). Qed.

(* A3: the decoder accepts non-canonical encodings, so ser (de l) = l fails in general *)
Theorem varint_not_canonical : take_varint [128; 0] = Some (0, []) /\ varint 0 = [0].
Proof. split; vm_compute; reflexivity. Qed.

(* ------------------------------------------------------------------------------------------ *)
(* A2: decoder soundness *)

Definition content_ok (c : content_v) : Prop :=
  match c with CParentV p => parent_ok p | CLeafV l => leaf_ok l end.

Lemma de_bytes_sound0 l d r : bytes_ok l -> de_bytes l = Some (d, r) ->
  N.of_nat (length d) < 2 ^ 64 /\ suffix_of r l.
Proof.
  intros Hl H. unfold de_bytes in H.
  destruct (take_varint l) as [[n r0]|] eqn:E0; cbn [obind] in H; [|discriminate].
  pose proof (take_varint_lt _ _ _ Hl E0) as Hn.
  pose proof (take_varint_suffix _ _ _ Hl E0) as S0.
  pose proof (take_n_suffix _ _ _ _ H) as S1.
  apply take_n_inv in H. destruct H as [Hlen _].
  split; [rewrite Hlen, N2Nat.id; exact Hn|]. eapply suffix_trans; eassumption.
Qed.

Lemma de_parent_sound0 l v r : bytes_ok l -> de_parent l = Some (v, r) -> parent_ok v /\ suffix_of r l.
Proof.
  intros Hl H. unfold de_parent in H.
  destruct (take_varint l) as [[len r0]|] eqn:E0; cbn [obind] in H; [|discriminate].
  destruct (len <? 1); [discriminate|].
  destruct (take_varint r0) as [[node r1]|] eqn:E1; cbn [obind] in H; [|discriminate].
  destruct (len <? 2); [discriminate|].
  destruct (take_n 32 r1) as [[lh r2]|] eqn:E2; cbn [obind] in H; [|discriminate].
  destruct (len <? 3); [discriminate|].
  destruct (take_n 32 r2) as [[rh r3]|] eqn:E3; cbn [obind] in H; [|discriminate].
  inversion H; subst. clear H.
  pose proof (take_varint_suffix _ _ _ Hl E0) as S0.
  pose proof (bytes_ok_suffix _ _ Hl S0) as Hr0.
  pose proof (take_varint_suffix _ _ _ Hr0 E1) as S1.
  pose proof (take_varint_lt _ _ _ Hr0 E1) as Hn.
  pose proof (take_n_suffix _ _ _ _ E2) as S2.
  pose proof (take_n_suffix _ _ _ _ E3) as S3.
  apply take_n_inv in E2. apply take_n_inv in E3.
  split.
  - unfold parent_ok. cbn [p_node p_l p_r]. split; [exact Hn|]. split; [apply E2|apply E3].
  - eapply suffix_trans; [exact S3|]. eapply suffix_trans; [exact S2|]. eapply suffix_trans; eassumption.
Qed.

Theorem de_parent_sound : forall l v r, bytes_ok l -> de_parent l = Some (v, r) ->
  parent_ok v /\ (exists used, l = used ++ r) /\ de_parent (ser_parent PARENT_HINT v ++ r) = Some (v, r).
Proof.
  intros l v r Hl H. destruct (de_parent_sound0 _ _ _ Hl H) as [Hok S].
  split; [exact Hok|]. split; [exact S|].
  apply de_parent_rt; [cbv; discriminate|cbv; reflexivity|exact Hok].
Qed.

Lemma de_leaf_sound0 l v r : bytes_ok l -> de_leaf l = Some (v, r) -> leaf_ok v /\ suffix_of r l.
Proof.
  intros Hl H. unfold de_leaf in H.
  destruct (take_varint l) as [[off r0]|] eqn:E0; cbn [obind] in H; [|discriminate].
  destruct (de_bytes r0) as [[d r1]|] eqn:E1; cbn [obind] in H; [|discriminate].
  inversion H; subst. clear H.
  pose proof (take_varint_suffix _ _ _ Hl E0) as S0.
  pose proof (bytes_ok_suffix _ _ Hl S0) as Hr0.
  destruct (de_bytes_sound0 _ _ _ Hr0 E1) as [Hd S1].
  split.
  - split; cbn [l_off l_data]; [exact (take_varint_lt _ _ _ Hl E0)|exact Hd].
  - eapply suffix_trans; eassumption.
Qed.

Theorem de_leaf_sound : forall l v r, bytes_ok l -> de_leaf l = Some (v, r) ->
  leaf_ok v /\ (exists used, l = used ++ r) /\ de_leaf (ser_leaf v ++ r) = Some (v, r).
Proof.
  intros l v r Hl H. destruct (de_leaf_sound0 _ _ _ Hl H) as [Hok S].
  split; [exact Hok|]. split; [exact S|]. apply de_leaf_rt. exact Hok.
Qed.

Lemma de_content_sound0 l v r : bytes_ok l -> de_content l = Some (v, r) -> content_ok v /\ suffix_of r l.
Proof.
  intros Hl H. unfold de_content in H.
  destruct (take_varint l) as [[t r0]|] eqn:E0; cbn [obind] in H; [|discriminate].
  pose proof (take_varint_suffix _ _ _ Hl E0) as S0.
  pose proof (bytes_ok_suffix _ _ Hl S0) as Hr0.
  destruct (t =? 0).
  - destruct (de_parent r0) as [[p r1]|] eqn:E1; cbn [obind] in H; [|discriminate].
    inversion H; subst. destruct (de_parent_sound0 _ _ _ Hr0 E1) as [Hok S1].
    split; [exact Hok|eapply suffix_trans; eassumption].
  - destruct (t =? 1); [|discriminate].
    destruct (de_leaf r0) as [[x r1]|] eqn:E1; cbn [obind] in H; [|discriminate].
    inversion H; subst. destruct (de_leaf_sound0 _ _ _ Hr0 E1) as [Hok S1].
    split; [exact Hok|eapply suffix_trans; eassumption].
Qed.

Theorem de_content_sound : forall l v r, bytes_ok l -> de_content l = Some (v, r) ->
  match v with CParentV p => parent_ok p | CLeafV x => leaf_ok x end /\ (exists used, l = used ++ r) /\
  de_content (ser_content PARENT_HINT v ++ r) = Some (v, r).
Proof.
  intros l v r Hl H. destruct (de_content_sound0 _ _ _ Hl H) as [Hok S].
  split; [exact Hok|]. split; [exact S|]. apply de_content_rt. exact Hok.
Qed.

Lemma de_eerr_sound0 l v r : bytes_ok l -> de_eerr l = Some (v, r) -> eerr_ok v /\ suffix_of r l.
Proof.
  intros Hl H. unfold de_eerr in H.
  destruct (take_varint l) as [[t r0]|] eqn:E0; cbn [obind] in H; [|discriminate].
  pose proof (take_varint_suffix _ _ _ Hl E0) as S0.
  pose proof (bytes_ok_suffix _ _ Hl S0) as Hr0.
  repeat match type of H with
  | (if ?b then _ else _) = Some _ => destruct b
  end;
  try discriminate;
  try (destruct (take_varint r0) as [[n r1]|] eqn:E1; cbn [obind] in H; [|discriminate];
       inversion H; subst; split;
       [exact (take_varint_lt _ _ _ Hr0 E1)
       |eapply suffix_trans; [exact (take_varint_suffix _ _ _ Hr0 E1)|exact S0]]).
  - inversion H; subst. split; [exact I|exact S0].
  - destruct (de_bytes r0) as [[d r1]|] eqn:E1; cbn [obind] in H; [|discriminate].
    inversion H; subst. destruct (de_bytes_sound0 _ _ _ Hr0 E1) as [Hd S1].
    split; [exact Hd|eapply suffix_trans; eassumption].
Qed.

Theorem de_eerr_sound : forall l v r, bytes_ok l -> de_eerr l = Some (v, r) ->
  eerr_ok v /\ (exists used, l = used ++ r) /\ de_eerr (ser_eerr v ++ r) = Some (v, r).
Proof.
  intros l v r Hl H. destruct (de_eerr_sound0 _ _ _ Hl H) as [Hok S].
  split; [exact Hok|]. split; [exact S|]. apply de_eerr_rt. exact Hok.
Qed.

Lemma de_eitem_sound0 l v r : bytes_ok l -> de_eitem l = Some (v, r) -> eitem_ok v /\ suffix_of r l.
Proof.
  intros Hl H. unfold de_eitem in H.
  destruct (take_varint l) as [[t r0]|] eqn:E0; cbn [obind] in H; [|discriminate].
  pose proof (take_varint_suffix _ _ _ Hl E0) as S0.
  pose proof (bytes_ok_suffix _ _ Hl S0) as Hr0.
  destruct (t =? 0).
  { destruct (take_varint r0) as [[n r1]|] eqn:E1; cbn [obind] in H; [|discriminate].
    inversion H; subst. split; [exact (take_varint_lt _ _ _ Hr0 E1)|].
    eapply suffix_trans; [exact (take_varint_suffix _ _ _ Hr0 E1)|exact S0]. }
  destruct (t =? 1).
  { destruct (de_parent r0) as [[p r1]|] eqn:E1; cbn [obind] in H; [|discriminate].
    inversion H; subst. destruct (de_parent_sound0 _ _ _ Hr0 E1) as [Hok S1].
    split; [exact Hok|eapply suffix_trans; eassumption]. }
  destruct (t =? 2).
  { destruct (de_leaf r0) as [[p r1]|] eqn:E1; cbn [obind] in H; [|discriminate].
    inversion H; subst. destruct (de_leaf_sound0 _ _ _ Hr0 E1) as [Hok S1].
    split; [exact Hok|eapply suffix_trans; eassumption]. }
  destruct (t =? 3).
  { destruct (de_eerr r0) as [[p r1]|] eqn:E1; cbn [obind] in H; [|discriminate].
    inversion H; subst. destruct (de_eerr_sound0 _ _ _ Hr0 E1) as [Hok S1].
    split; [exact Hok|eapply suffix_trans; eassumption]. }
  destruct (t =? 4); [|discriminate].
  inversion H; subst. split; [exact I|exact S0].
Qed.

Theorem de_eitem_sound : forall l v r, bytes_ok l -> de_eitem l = Some (v, r) ->
  eitem_ok v /\ (exists used, l = used ++ r) /\ de_eitem (ser_eitem PARENT_HINT v ++ r) = Some (v, r).
Proof.
  intros l v r Hl H. destruct (de_eitem_sound0 _ _ _ Hl H) as [Hok S].
  split; [exact Hok|]. split; [exact S|]. apply de_eitem_rt. exact Hok.
Qed.

(* ------------------------------------------------------------------------------------------ *)
(* B1: invalid variant tags *)

Theorem de_content_bad_tag : forall l v r, take_varint l = Some (v, r) -> 2 <= v -> de_content l = None.
Proof.
  intros l v r H Hv. unfold de_content. rewrite H. cbn [obind].
  destruct (v =? 0) eqn:E0; [apply N.eqb_eq in E0; lia|].
  destruct (v =? 1) eqn:E1; [apply N.eqb_eq in E1; lia|]. reflexivity.
Qed.

Theorem de_eerr_bad_tag : forall l v r, take_varint l = Some (v, r) -> 6 <= v -> de_eerr l = None.
Proof.
  intros l v r H Hv. unfold de_eerr. rewrite H. cbn [obind].
  repeat match goal with
  | |- (if ?a =? ?b then _ else _) = None =>
      let E := fresh "E" in destruct (a =? b) eqn:E; [apply N.eqb_eq in E; lia|]
  end. reflexivity.
Qed.

Theorem de_eitem_bad_tag : forall l v r, take_varint l = Some (v, r) -> 5 <= v -> de_eitem l = None.
Proof.
  intros l v r H Hv. unfold de_eitem. rewrite H. cbn [obind].
  repeat match goal with
  | |- (if ?a =? ?b then _ else _) = None =>
      let E := fresh "E" in destruct (a =? b) eqn:E; [apply N.eqb_eq in E; lia|]
  end. reflexivity.
Qed.

(* B2: a Parent sequence announced with fewer than 3 elements never deserialises *)
Theorem de_parent_short_seq : forall l len r, take_varint l = Some (len, r) -> len < 3 -> de_parent l = None.
Proof.
  intros l len r H Hlen. unfold de_parent. rewrite H. cbn [obind].
  destruct (len <? 1); [reflexivity|].
  destruct (take_varint r) as [[node r1]|]; cbn [obind]; [|reflexivity].
  destruct (len <? 2); [reflexivity|].
  destruct (take_n 32 r1) as [[lh r2]|]; cbn [obind]; [|reflexivity].
  destruct (len <? 3) eqn:E3; [reflexivity|]. apply N.ltb_ge in E3. lia.
Qed.

(* B4: a parent whose two hashes together have fewer than 64 bytes, with nothing following *)
Theorem de_parent_short_hashes : forall p, p_node p < 2 ^ 64 -> (length (p_l p) + length (p_r p) < 64)%nat ->
  de_parent (ser_parent PARENT_HINT p) = None.
Proof.
  intros p Hn Hlen. unfold de_parent, ser_parent.
  rewrite varint_roundtrip by (cbv; reflexivity). cbn [obind].
  change (PARENT_HINT <? 1) with false. cbv iota.
  rewrite varint_roundtrip by exact Hn. cbn [obind].
  change (PARENT_HINT <? 2) with false. cbv iota.
  destruct (take_n 32 (p_l p ++ p_r p)) as [[lh r2]|] eqn:E2; cbn [obind]; [|reflexivity].
  change (PARENT_HINT <? 3) with false. cbv iota.
  apply take_n_inv in E2. destruct E2 as [Hl Heq].
  assert (Hr2 : (length r2 < 32)%nat).
  { apply (f_equal (@length N)) in Heq. rewrite !app_length in Heq. lia. }
  unfold take_n. destruct (Nat.leb 32 (length r2)) eqn:E; [apply Nat.leb_le in E; lia|]. reflexivity.
Qed.

(* ------------------------------------------------------------------------------------------ *)
(* C: the io-error text convention *)

Definition io_text (kind msg : list N) : list N := kind ++ [58] ++ msg.
Definition infix_of (s t : list N) : Prop := exists a b, t = a ++ s ++ b.

Lemma io_text_infix kind msg : infix_of kind (io_text kind msg) /\ infix_of msg (io_text kind msg).
Proof.
  split.
  - exists [], ([58] ++ msg). reflexivity.
  - exists (kind ++ [58]), []. unfold io_text. rewrite app_nil_r, <- app_assoc. reflexivity.
Qed.

Theorem io_error_text_roundtrip : forall kind msg rest,
  N.of_nat (length (io_text kind msg)) < 2 ^ 64 ->
  de_eerr (ser_eerr (VIo (io_text kind msg)) ++ rest) = Some (VIo (io_text kind msg), rest) /\
  infix_of kind (io_text kind msg) /\ infix_of msg (io_text kind msg).
Proof.
  intros kind msg rest H. split; [apply de_eerr_rt; exact H|apply io_text_infix].
Qed.

Theorem io_error_item_text_roundtrip : forall kind msg rest,
  N.of_nat (length (io_text kind msg)) < 2 ^ 64 ->
  de_eitem (ser_eitem PARENT_HINT (VError (VIo (io_text kind msg))) ++ rest)
    = Some (VError (VIo (io_text kind msg)), rest) /\
  infix_of kind (io_text kind msg) /\ infix_of msg (io_text kind msg).
Proof.
  intros kind msg rest H. split; [apply de_eitem_rt; exact H|apply io_text_infix].
Qed.

(* ------------------------------------------------------------------------------------------ *)
(* B3: truncation.  Every decoder is stable under extension of its input; hence no strict prefix of a
   serialisation that decodes completely can decode. *)

Definition extensible {A} (de : list N -> option (A * list N)) : Prop :=
  forall l v r e, de l = Some (v, r) -> de (l ++ e) = Some (v, r ++ e).

Lemma trunc_none {A} (de : list N -> option (A * list N)) s v :
  extensible de -> de s = Some (v, []) -> forall n, (n < length s)%nat -> de (firstn n s) = None.
Proof.
  intros Hext Hs n Hn. destruct (de (firstn n s)) as [[v' r']|] eqn:E; [|reflexivity].
  apply (Hext _ _ _ (skipn n s)) in E. rewrite firstn_skipn in E. rewrite Hs in E.
  inversion E as [[Hv Hr]]. symmetry in Hr. apply app_eq_nil in Hr. destruct Hr as [_ Hr].
  apply (f_equal (@length N)) in Hr. rewrite skipn_length in Hr. cbn [length] in Hr. lia.
Qed.

Lemma varint_dec_ext : forall f i l n r e,
  varint_dec i f l = Some (n, r) -> varint_dec i f (l ++ e) = Some (n, r ++ e).
Proof.
  induction f as [|f IH]; intros i l n r e H; [discriminate|].
  destruct l as [|b l']; [discriminate|]. cbn [varint_dec app] in *.
  destruct (b <? 128).
  - destruct (Nat.eqb i 9 && (1 <? b)); [discriminate|]. inversion H; reflexivity.
  - destruct (varint_dec (S i) f l') as [[v r']|] eqn:E; [|discriminate].
    rewrite (IH _ _ _ _ e E). inversion H; reflexivity.
Qed.

Lemma take_varint_ext : extensible take_varint.
Proof. intros l v r e H. apply varint_dec_ext. exact H. Qed.

Lemma take_n_ext n : extensible (take_n n).
Proof.
  intros l a r e H. apply take_n_inv in H. destruct H as [Hl ->].
  rewrite <- app_assoc. apply take_n_app. exact Hl.
Qed.

Ltac ext_rw e E := fail.
Ltac ext_tac e :=
  repeat (cbn [obind];
  match goal with
  | |- None = Some _ -> _ => discriminate
  | |- Some _ = Some _ -> _ => let H := fresh in intro H; inversion H; subst; reflexivity
  | |- (if ?b then _ else _) = Some _ -> _ => destruct b
  | |- obind (?d ?l) _ = Some _ -> _ =>
      let E := fresh "E" in destruct (d l) as [[? ?]|] eqn:E; [ext_rw e E|discriminate]
  end).

Ltac ext_rw e E ::= first [rewrite (take_varint_ext _ _ _ e E) | rewrite (take_n_ext _ _ _ _ e E)].

Lemma de_bytes_ext : extensible de_bytes.
Proof. intros l v r e. unfold de_bytes. ext_tac e. apply take_n_ext. Qed.

Lemma de_parent_ext : extensible de_parent.
Proof. intros l v r e. unfold de_parent. ext_tac e. Qed.

Ltac ext_rw e E ::= first [rewrite (take_varint_ext _ _ _ e E) | rewrite (take_n_ext _ _ _ _ e E)
                          | rewrite (de_bytes_ext _ _ _ e E) | rewrite (de_parent_ext _ _ _ e E)].

Lemma de_leaf_ext : extensible de_leaf.
Proof. intros l v r e. unfold de_leaf. ext_tac e. Qed.

Ltac ext_rw e E ::= first [rewrite (take_varint_ext _ _ _ e E) | rewrite (take_n_ext _ _ _ _ e E)
                          | rewrite (de_bytes_ext _ _ _ e E) | rewrite (de_parent_ext _ _ _ e E)
                          | rewrite (de_leaf_ext _ _ _ e E)].

Lemma de_content_ext : extensible de_content.
Proof. intros l v r e. unfold de_content. ext_tac e. Qed.

Lemma de_eerr_ext : extensible de_eerr.
Proof. intros l v r e. unfold de_eerr. ext_tac e. Qed.

Ltac ext_rw e E ::= first [rewrite (take_varint_ext _ _ _ e E) | rewrite (take_n_ext _ _ _ _ e E)
                          | rewrite (de_bytes_ext _ _ _ e E) | rewrite (de_parent_ext _ _ _ e E)
                          | rewrite (de_leaf_ext _ _ _ e E) | rewrite (de_eerr_ext _ _ _ e E)].

Lemma de_eitem_ext : extensible de_eitem.
Proof. intros l v r e. unfold de_eitem. ext_tac e. Qed.

Theorem varint_truncated : forall n m, m < 2 ^ 64 -> (n < length (varint m))%nat ->
  take_varint (firstn n (varint m)) = None.
Proof.
  intros n m Hm Hn. apply (trunc_none take_varint (varint m) m take_varint_ext); [|exact Hn].
  rewrite <- (app_nil_r (varint m)). apply varint_roundtrip. exact Hm.
Qed.

Theorem parent_truncated : forall p n, parent_ok p -> (n < length (ser_parent PARENT_HINT p))%nat ->
  de_parent (firstn n (ser_parent PARENT_HINT p)) = None.
Proof.
  intros p n Hp Hn. apply (trunc_none de_parent _ p de_parent_ext); [|exact Hn].
  rewrite <- (app_nil_r (ser_parent _ _)).
  apply de_parent_rt; [cbv; discriminate|cbv; reflexivity|exact Hp].
Qed.

Theorem leaf_truncated : forall x n, leaf_ok x -> (n < length (ser_leaf x))%nat ->
  de_leaf (firstn n (ser_leaf x)) = None.
Proof.
  intros x n Hx Hn. apply (trunc_none de_leaf _ x de_leaf_ext); [|exact Hn].
  rewrite <- (app_nil_r (ser_leaf _)). apply de_leaf_rt. exact Hx.
Qed.

Theorem content_truncated : forall c n,
  match c with CParentV p => parent_ok p | CLeafV x => leaf_ok x end ->
  (n < length (ser_content PARENT_HINT c))%nat ->
  de_content (firstn n (ser_content PARENT_HINT c)) = None.
Proof.
  intros c n Hc Hn. apply (trunc_none de_content _ c de_content_ext); [|exact Hn].
  rewrite <- (app_nil_r (ser_content _ _)). apply de_content_rt. exact Hc.
Qed.

Theorem eerr_truncated : forall e n, eerr_ok e -> (n < length (ser_eerr e))%nat ->
  de_eerr (firstn n (ser_eerr e)) = None.
Proof.
  intros e n He Hn. apply (trunc_none de_eerr _ e de_eerr_ext); [|exact Hn].
  rewrite <- (app_nil_r (ser_eerr _)). apply de_eerr_rt. exact He.
Qed.

Theorem eitem_truncated : forall i n, eitem_ok i -> (n < length (ser_eitem PARENT_HINT i))%nat ->
  de_eitem (firstn n (ser_eitem PARENT_HINT i)) = None.
Proof.
  intros i n Hi Hn. apply (trunc_none de_eitem _ i de_eitem_ext); [|exact Hn].
  rewrite <- (app_nil_r (ser_eitem _ _)). apply de_eitem_rt. exact Hi.
Qed.

(* ------------------------------------------------------------------------------------------ *)
(* D: JSON.  Spec-side parsers for the text the model's JSON serialisers produce. *)

Definition is_digit (d : N) : bool := (48 <=? d) && (d <=? 57).
Definition dstep (a d : N) : N := a * 10 + (d - 48).
Definition no_digit_head (rest : list N) : Prop :=
  match rest with d :: _ => (48 <=? d) && (d <=? 57) = false | [] => True end.

(* D1: decimal numbers *)
Fixpoint pnum_acc (l : list N) (a : N) : N * list N :=
  match l with
  | d :: r => if (48 <=? d) && (d <=? 57) then pnum_acc r (a * 10 + (d - 48)) else (a, l)
  | [] => (a, [])
  end.
Definition pnum (l : list N) : N * list N := pnum_acc l 0.

Lemma dec_digits_spec : forall f n acc, (1 <= f)%nat -> n < 10 ^ N.of_nat f ->
  exists ds, dec_digits f n acc = ds ++ acc /\ Forall (fun d => is_digit d = true) ds /\ ds <> [] /\
    forall a, fold_left dstep ds a = a * 10 ^ N.of_nat (length ds) + n.
Proof.
  induction f as [|f IH]; intros n acc Hf Hn; [lia|].
  cbn [dec_digits]. destruct (n <? 10) eqn:E.
  - apply N.ltb_lt in E. exists [48 + n mod 10]. split; [reflexivity|]. split; [|split].
    + constructor; [|constructor]. unfold is_digit. apply andb_true_intro.
      split; apply N.leb_le; lia.
    + discriminate.
    + intros a. cbn [fold_left length]. unfold dstep. change (N.of_nat 1) with 1.
      rewrite N.pow_1_r. lia.
  - apply N.ltb_ge in E.
    destruct f as [|f']; [change (10 ^ N.of_nat 1) with 10 in Hn; lia|].
    assert (Hd : n / 10 < 10 ^ N.of_nat (S f')).
    { apply N.div_lt_upper_bound; [lia|]. rewrite <- N.pow_succ_r', <- Nat2N.inj_succ. exact Hn. }
    destruct (IH (n / 10) ((48 + n mod 10) :: acc) ltac:(lia) Hd) as (ds & Heq & Hds & Hne & Hfold).
    exists (ds ++ [48 + n mod 10]). split; [|split; [|split]].
    + rewrite Heq, <- app_assoc. reflexivity.
    + apply Forall_app. split; [exact Hds|]. constructor; [|constructor].
      unfold is_digit. apply andb_true_intro. split; apply N.leb_le; lia.
    + intros C. apply app_eq_nil in C. destruct C as [_ C]. discriminate.
    + intros a. rewrite fold_left_app, Hfold. cbn [fold_left]. unfold dstep.
      rewrite app_length. cbn [length]. rewrite Nat.add_1_r, Nat2N.inj_succ, N.pow_succ_r'.
      set (P := 10 ^ N.of_nat (length ds)). lia.
Qed.

Lemma pnum_acc_digits : forall ds rest a, Forall (fun d => is_digit d = true) ds ->
  pnum_acc (ds ++ rest) a = pnum_acc rest (fold_left dstep ds a).
Proof.
  induction ds as [|d ds IH]; intros rest a H; [reflexivity|].
  inversion H as [|? ? Hd Hds]; subst. cbn [app pnum_acc fold_left].
  unfold is_digit in Hd. rewrite Hd. rewrite IH by exact Hds. reflexivity.
Qed.

Lemma pnum_acc_stop rest a : no_digit_head rest -> pnum_acc rest a = (a, rest).
Proof. destruct rest as [|d r]; intros H; [reflexivity|]. cbn [pnum_acc]. cbn in H. rewrite H. reflexivity. Qed.

Theorem jnum_roundtrip : forall n rest, n < 10 ^ 25 ->
  (match rest with d :: _ => (48 <=? d) && (d <=? 57) = false | [] => True end) ->
  pnum (jnum n ++ rest) = (n, rest).
Proof.
  intros n rest Hn Hrest. unfold pnum, jnum.
  destruct (dec_digits_spec 25 n [] ltac:(lia) Hn) as (ds & Heq & Hds & _ & Hfold).
  rewrite Heq, app_nil_r, pnum_acc_digits by exact Hds.
  rewrite pnum_acc_stop by exact Hrest. rewrite Hfold. rewrite N.mul_0_l, N.add_0_l. reflexivity.
Qed.

Lemma lt64_lt1025 n : n < 2 ^ 64 -> n < 10 ^ 25.
Proof. intros H. eapply N.lt_trans; [exact H|]. vm_compute. reflexivity. Qed.

Lemma lt256_lt1025 n : n < 256 -> n < 10 ^ 25.
Proof. intros H. eapply N.lt_trans; [exact H|]. vm_compute. reflexivity. Qed.

Corollary jnum_roundtrip_u64 : forall n rest, n < 2 ^ 64 ->
  (match rest with d :: _ => (48 <=? d) && (d <=? 57) = false | [] => True end) ->
  pnum (jnum n ++ rest) = (n, rest).
Proof. intros n rest Hn. apply jnum_roundtrip. apply lt64_lt1025. exact Hn. Qed.

(* a number with at least one digit *)
Definition pnum1 (l : list N) : option (N * list N) :=
  match l with d :: _ => if is_digit d then Some (pnum l) else None | [] => None end.

Lemma jnum_head n : n < 10 ^ 25 -> exists d t, jnum n = d :: t /\ is_digit d = true.
Proof.
  intros Hn. unfold jnum.
  destruct (dec_digits_spec 25 n [] ltac:(lia) Hn) as (ds & Heq & Hds & Hne & _).
  rewrite Heq, app_nil_r. destruct ds as [|d t]; [congruence|].
  inversion Hds; subst. exists d, t. split; [reflexivity|assumption].
Qed.

Lemma pnum1_jnum n rest : n < 10 ^ 25 -> no_digit_head rest -> pnum1 (jnum n ++ rest) = Some (n, rest).
Proof.
  intros Hn Hrest. pose proof (jnum_roundtrip n rest Hn Hrest) as Hp.
  destruct (jnum_head n Hn) as (d & t & Heq & Hd). rewrite Heq in *.
  cbn [app] in *. unfold pnum1. rewrite Hd, Hp. reflexivity.
Qed.

(* D2: arrays of numbers *)
Fixpoint parr_items (fuel : nat) (l : list N) : option (list N * list N) :=
  match fuel with
  | O => None
  | S f =>
    do (x, r) <- pnum1 l;
    match r with
    | c :: r' =>
        if c =? 44 then do (xs, r'') <- parr_items f r'; Some (x :: xs, r'')
        else if c =? 93 then Some ([x], r') else None
    | [] => None
    end
  end.
Definition parr (fuel : nat) (l : list N) : option (list N * list N) :=
  match l with
  | c :: r =>
      if c =? 91 then
        match r with
        | c2 :: r2 => if c2 =? 93 then Some ([], r2) else parr_items fuel r
        | [] => None
        end
      else None
  | [] => None
  end.

Lemma jlist_body_cons2 x y l : jlist_body (x :: y :: l) = jnum x ++ [44] ++ jlist_body (y :: l).
Proof. reflexivity. Qed.

Lemma parr_items_rt : forall l fuel rest, l <> [] -> Forall (fun x => x < 10 ^ 25) l ->
  (length l <= fuel)%nat -> parr_items fuel (jlist_body l ++ 93 :: rest) = Some (l, rest).
Proof.
  induction l as [|x l IH]; intros fuel rest Hne Hall Hfuel; [congruence|].
  inversion Hall as [|? ? Hx Hl]; subst.
  destruct fuel as [|f]; [cbn [length] in Hfuel; lia|].
  destruct l as [|y l'].
  - cbn [jlist_body parr_items]. rewrite pnum1_jnum; [|exact Hx|reflexivity]. cbn [obind].
    change (93 =? 44) with false. change (93 =? 93) with true. reflexivity.
  - rewrite jlist_body_cons2. cbn [parr_items]. rewrite <- !app_assoc.
    rewrite pnum1_jnum; [|exact Hx|reflexivity]. cbn [obind app].
    change (44 =? 44) with true. cbv iota.
    rewrite IH; [reflexivity|discriminate|exact Hl|cbn [length] in *; lia].
Qed.

Lemma parr_rt l fuel rest : Forall (fun x => x < 10 ^ 25) l -> (length l <= fuel)%nat ->
  parr fuel (jarr l ++ rest) = Some (l, rest).
Proof.
  intros Hall Hfuel. unfold jarr. rewrite <- !app_assoc. cbn [app parr].
  change (91 =? 91) with true. cbv iota.
  destruct l as [|x l'].
  - cbn [jlist_body app]. change (93 =? 93) with true. reflexivity.
  - assert (Hhd : exists d t, jlist_body (x :: l') = d :: t /\ is_digit d = true).
    { inversion Hall as [|? ? Hx _]; subst. destruct (jnum_head x Hx) as (d & t & Heq & Hd).
      destruct l' as [|y l''].
      - exists d, t. split; [exact Heq|exact Hd].
      - rewrite jlist_body_cons2, Heq. exists d, (t ++ [44] ++ jlist_body (y :: l'')).
        split; [reflexivity|exact Hd]. }
    destruct Hhd as (d & t & Heq & Hd).
    pose proof (parr_items_rt (x :: l') fuel rest ltac:(discriminate) Hall Hfuel) as Hp.
    rewrite Heq in *. cbn [app] in *.
    assert (E : (d =? 93) = false).
    { apply N.eqb_neq. intros ->. vm_compute in Hd. discriminate. }
    rewrite E. exact Hp.
Qed.

Theorem jarr_roundtrip : forall l rest, Forall (fun x => x < 10 ^ 25) l ->
  parr (S (length l)) (jarr l ++ rest) = Some (l, rest).
Proof. intros l rest H. apply parr_rt; [exact H|lia]. Qed.

Corollary jarr_roundtrip_bytes : forall l rest, bytes_ok l -> parr (S (length l)) (jarr l ++ rest) = Some (l, rest).
Proof.
  intros l rest H. apply jarr_roundtrip. eapply Forall_impl; [|exact H]. intros a. apply lt256_lt1025.
Qed.

(* D3: parent and leaf items.  The array parser is run with the input length as fuel. *)
Definition parr_all (l : list N) : option (list N * list N) := parr (length l) l.

Fixpoint expect (lit l : list N) : option (list N) :=
  match lit with
  | [] => Some l
  | c :: lit' => match l with d :: l' => if c =? d then expect lit' l' else None | [] => None end
  end.

Lemma expect_app lit r : expect lit (lit ++ r) = Some r.
Proof. induction lit as [|c lit IH]; [reflexivity|]. cbn [expect app]. rewrite N.eqb_refl. exact IH. Qed.

Lemma jlist_body_length l : Forall (fun x => x < 10 ^ 25) l -> (length l <= length (jlist_body l))%nat.
Proof.
  induction l as [|x l IH]; intros H; [cbn; lia|].
  inversion H as [|? ? Hx Hl]; subst. destruct (jnum_head x Hx) as (d & t & Heq & _).
  destruct l as [|y l'].
  - cbn [jlist_body]. rewrite Heq. cbn [length]. lia.
  - rewrite jlist_body_cons2, Heq. specialize (IH Hl). rewrite !app_length. cbn [length] in *. lia.
Qed.

Lemma parr_all_rt l rest : Forall (fun x => x < 10 ^ 25) l -> parr_all (jarr l ++ rest) = Some (l, rest).
Proof.
  intros H. unfold parr_all. apply parr_rt; [exact H|].
  pose proof (jlist_body_length l H). unfold jarr. rewrite !app_length. lia.
Qed.

Definition pjson_parent (l : list N) : option (parent_v * list N) :=
  do r0 <- expect [91] l;
  do (node, r1) <- pnum1 r0;
  do r2 <- expect [44] r1;
  do (lh, r3) <- parr_all r2;
  do r4 <- expect [44] r3;
  do (rh, r5) <- parr_all r4;
  do r6 <- expect [93] r5;
  Some (mkParent node lh rh, r6).

Definition LIT_OFFSET : list N := [123; 34; 111; 102; 102; 115; 101; 116; 34; 58].   (* {"offset": *)
Definition LIT_DATA : list N := [44; 34; 100; 97; 116; 97; 34; 58].                   (* ,"data": *)

Definition pjson_leaf (l : list N) : option (leaf_v * list N) :=
  do r0 <- expect LIT_OFFSET l;
  do (off, r1) <- pnum1 r0;
  do r2 <- expect LIT_DATA r1;
  do (d, r3) <- parr_all r2;
  do r4 <- expect [125] r3;
  Some (mkLeaf off d, r4).

Definition nums_ok (l : list N) : Prop := Forall (fun x => x < 10 ^ 25) l.

Lemma bytes_nums_ok l : bytes_ok l -> nums_ok l.
Proof. intros H. eapply Forall_impl; [|exact H]. intros a. apply lt256_lt1025. Qed.

Lemma pjson_parent_rt p rest : p_node p < 10 ^ 25 -> nums_ok (p_l p) -> nums_ok (p_r p) ->
  pjson_parent (json_parent p ++ rest) = Some (p, rest).
Proof.
  intros Hn Hl Hr. unfold pjson_parent, json_parent. rewrite <- !app_assoc.
  rewrite expect_app. cbn [obind].
  rewrite pnum1_jnum; [|exact Hn|reflexivity]. cbn [obind].
  rewrite expect_app. cbn [obind].
  rewrite parr_all_rt by exact Hl. cbn [obind].
  rewrite expect_app. cbn [obind].
  rewrite parr_all_rt by exact Hr. cbn [obind].
  rewrite expect_app. cbn [obind]. destruct p; reflexivity.
Qed.

Theorem json_parent_roundtrip : forall p rest, p_node p < 2 ^ 64 -> bytes_ok (p_l p) -> bytes_ok (p_r p) ->
  pjson_parent (json_parent p ++ rest) = Some (p, rest).
Proof.
  intros p rest Hn Hl Hr. apply pjson_parent_rt; [apply lt64_lt1025; exact Hn| |]; apply bytes_nums_ok; assumption.
Qed.

Lemma pjson_leaf_rt x rest : l_off x < 10 ^ 25 -> nums_ok (l_data x) ->
  pjson_leaf (json_leaf x ++ rest) = Some (x, rest).
Proof.
  intros Hn Hd. unfold pjson_leaf, json_leaf.
  change [123; 34; 111; 102; 102; 115; 101; 116; 34; 58] with LIT_OFFSET.
  change [44; 34; 100; 97; 116; 97; 34; 58] with LIT_DATA.
  rewrite <- !app_assoc.
  rewrite expect_app. cbn [obind].
  rewrite pnum1_jnum; [|exact Hn|reflexivity]. cbn [obind].
  rewrite expect_app. cbn [obind].
  rewrite parr_all_rt by exact Hd. cbn [obind].
  rewrite expect_app. cbn [obind]. destruct x; reflexivity.
Qed.

Theorem json_leaf_roundtrip : forall x rest, l_off x < 2 ^ 64 -> bytes_ok (l_data x) ->
  pjson_leaf (json_leaf x ++ rest) = Some (x, rest).
Proof.
  intros x rest Hn Hd. apply pjson_leaf_rt; [apply lt64_lt1025; exact Hn|apply bytes_nums_ok; exact Hd].
Qed.

Corollary json_parent_injective : forall p p',
  p_node p < 2 ^ 64 -> bytes_ok (p_l p) -> bytes_ok (p_r p) ->
  p_node p' < 2 ^ 64 -> bytes_ok (p_l p') -> bytes_ok (p_r p') ->
  json_parent p = json_parent p' -> p = p'.
Proof.
  intros p p' Hn Hl Hr Hn' Hl' Hr' Heq.
  pose proof (json_parent_roundtrip p [] Hn Hl Hr) as H1.
  pose proof (json_parent_roundtrip p' [] Hn' Hl' Hr') as H2.
  rewrite Heq, H2 in H1. inversion H1. reflexivity.
Qed.

Corollary json_leaf_injective : forall x x',
  l_off x < 2 ^ 64 -> bytes_ok (l_data x) -> l_off x' < 2 ^ 64 -> bytes_ok (l_data x') ->
  json_leaf x = json_leaf x' -> x = x'.
Proof.
  intros x x' Hn Hd Hn' Hd' Heq.
  pose proof (json_leaf_roundtrip x [] Hn Hd) as H1.
  pose proof (json_leaf_roundtrip x' [] Hn' Hd') as H2.
  rewrite Heq, H2 in H1. inversion H1. reflexivity.
Qed.

(* ------------------------------------------------------------------------------------------ *)
Print Assumptions take_varint_bound.
Print Assumptions varint_not_canonical.
Print Assumptions de_parent_sound.
Print Assumptions de_leaf_sound.
Print Assumptions de_content_sound.
Print Assumptions de_eerr_sound.
Print Assumptions de_eitem_sound.
Print Assumptions de_content_bad_tag.
Print Assumptions de_eerr_bad_tag.
Print Assumptions de_eitem_bad_tag.
Print Assumptions de_parent_short_seq.
Print Assumptions de_parent_short_hashes.
Print Assumptions io_error_text_roundtrip.
Print Assumptions io_error_item_text_roundtrip.
Print Assumptions varint_truncated.
Print Assumptions parent_truncated.
Print Assumptions leaf_truncated.
Print Assumptions content_truncated.
Print Assumptions eerr_truncated.
Print Assumptions eitem_truncated.
Print Assumptions jnum_roundtrip.
Print Assumptions jnum_roundtrip_u64.
Print Assumptions jarr_roundtrip.
Print Assumptions jarr_roundtrip_bytes.
Print Assumptions json_parent_roundtrip.
Print Assumptions json_leaf_roundtrip.
Print Assumptions json_parent_injective.
Print Assumptions json_leaf_injective.

(* concrete sanity checks of the spec-side parsers: they compute, and they reject malformed text *)
Example pjson_leaf_ex : json_leaf (mkLeaf 1024 [1; 20; 255]) =
    [123; 34; 111; 102; 102; 115; 101; 116; 34; 58; 49; 48; 50; 52; 44; 34; 100; 97; 116; 97; 34; 58;
     91; 49; 44; 50; 48; 44; 50; 53; 53; 93; 125]
  /\ pjson_leaf (json_leaf (mkLeaf 1024 [1; 20; 255]) ++ [7]) = Some (mkLeaf 1024 [1; 20; 255], [7]).
Proof. split; vm_compute; reflexivity. Qed.
Example parr_rejects : parr 10 [91; 44; 93] = None /\ parr 10 [91; 49; 44; 93] = None /\ parr 10 [91; 49] = None
  /\ parr 10 [91; 93] = Some ([], []) /\ pnum1 [44] = None.
Proof. repeat split; vm_compute; reflexivity. Qed.
