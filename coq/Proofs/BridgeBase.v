(* Foundations for the bridge between the spec tree, the honest encoding and the decoder's plan:
   next_pow2, chunk lists, byte slices, chunk counts. *)
From BaoV Require Import Spec.RangeSpec Spec.PlanSpec Spec.EncSpec Spec.PTree Spec.SpecTree Spec.HashAssm.
From BaoV Require Import Proofs.RangeBase Proofs.RangeRound.
From Coq Require Import Lia Arith PeanoNat ZArith ZifyN ZifyNat ZifyBool.
Ltac Zify.zify_post_hook ::= Z.div_mod_to_equations.

(* ---- powers of two ---- *)
Lemma pow2_succ k : 2 ^ (k + 1) = 2 * 2 ^ k.
Proof. rewrite N.add_1_r, N.pow_succ_r'. reflexivity. Qed.

Lemma pow2_ge1 k : 1 <= 2 ^ k.
Proof. pose proof (pow2_pos k). lia. Qed.

Lemma pow2_le_mono j k : j <= k -> 2 ^ j <= 2 ^ k.
Proof. intro H. apply N.pow_le_mono_r; lia. Qed.

Lemma pow2_lt_inv j k : 2 ^ j < 2 ^ k -> j < k.
Proof. intro H. apply (N.pow_lt_mono_r_iff 2); [lia | assumption]. Qed.

Lemma pow2_le_inv j k : 2 ^ j <= 2 ^ k -> j <= k.
Proof. intro H. apply (N.pow_le_mono_r_iff 2); [lia | assumption]. Qed.

(* ---- next_pow2 ---- *)
Lemma np2_spec n : 1 <= n -> exists k, next_pow2 n = 2 ^ k /\ n <= 2 ^ k /\ 2 ^ k < 2 * n.
Proof.
  intro H. unfold next_pow2. destruct n as [|p]; [lia|].
  pose proof (N.log2_spec (N.pos p) ltac:(lia)) as [L1 L2].
  destruct (N.pos p =? 2 ^ N.log2 (N.pos p)) eqn:E.
  - apply N.eqb_eq in E. exists (N.log2 (N.pos p)). lia.
  - apply N.eqb_neq in E. exists (N.succ (N.log2 (N.pos p))).
    rewrite N.pow_succ_r' in *. lia.
Qed.

Lemma np2_half n : 2 <= n ->
  exists k, next_pow2 n = 2 ^ (k + 1) /\ next_pow2 n / 2 = 2 ^ k /\ 2 ^ k < n /\ n <= 2 ^ (k + 1).
Proof.
  intro H. destruct (np2_spec n ltac:(lia)) as (k & E & H1 & H2).
  destruct (N.eq_dec k 0) as [->|Hk]; [rewrite N.pow_0_r in *; lia|].
  exists (k - 1). replace (k - 1 + 1) with k by lia.
  assert (Ek : 2 ^ k = 2 * 2 ^ (k - 1)).
  { replace k with (k - 1 + 1) at 1 by lia. apply pow2_succ. }
  rewrite E. split; [reflexivity|]. split; [|lia].
  rewrite Ek. rewrite N.mul_comm, N.div_mul by lia. reflexivity.
Qed.

Lemma np2_le n k : n <= 2 ^ k -> next_pow2 n <= 2 ^ k.
Proof.
  intro H. destruct (N.eq_dec n 0) as [->|Hn].
  - cbn. apply pow2_ge1.
  - destruct (np2_spec n ltac:(lia)) as (j & E & H1 & H2). rewrite E.
    apply pow2_le_mono. assert (2 ^ j < 2 ^ (k + 1)) by (rewrite pow2_succ; lia).
    apply pow2_lt_inv in H0. lia.
Qed.

Lemma np2_pow2 k : next_pow2 (2 ^ k) = 2 ^ k.
Proof.
  unfold next_pow2. pose proof (pow2_pos k). destruct (2 ^ k) as [|p] eqn:E; [lia|].
  rewrite <- E, N.log2_pow2 by lia. rewrite N.eqb_refl. reflexivity.
Qed.

(* ---- chunk lists ---- *)
Lemma crl_nil a b : b <= a -> chunk_range_list a b = [].
Proof. intro H. unfold chunk_range_list. replace (b - a) with 0 by lia. reflexivity. Qed.

Lemma crl_in a b c : In c (chunk_range_list a b) <-> a <= c < b.
Proof.
  unfold chunk_range_list. rewrite in_map_iff. split.
  - intros (i & <- & Hi). apply in_seq in Hi. lia.
  - intros H. exists (N.to_nat (c - a)). split; [lia|]. apply in_seq. lia.
Qed.

Lemma map_seq_shift {A} (g : nat -> A) n : forall s, map g (seq s n) = map (fun i => g (s + i)%nat) (seq 0 n).
Proof.
  induction n as [|n IH]; intro s; [reflexivity|]. cbn [seq map]. rewrite Nat.add_0_r. f_equal.
  rewrite IH. rewrite <- (seq_shift n 0), map_map. apply map_ext. intro i. f_equal. lia.
Qed.

Lemma crl_app a m b : a <= m -> m <= b ->
  chunk_range_list a b = chunk_range_list a m ++ chunk_range_list m b.
Proof.
  intros H1 H2. unfold chunk_range_list.
  replace (N.to_nat (b - a)) with (N.to_nat (m - a) + N.to_nat (b - m))%nat by lia.
  rewrite seq_app, map_app. f_equal. cbn [plus].
  rewrite map_seq_shift. apply map_ext. intro i. lia.
Qed.

Lemma crl_single a : chunk_range_list a (a + 1) = [a].
Proof.
  unfold chunk_range_list. replace (a + 1 - a) with 1 by lia. change (N.to_nat 1) with 1%nat. cbn [seq map]. f_equal. lia.
Qed.

Lemma crl_snoc a b : a <= b -> chunk_range_list a (b + 1) = chunk_range_list a b ++ [b].
Proof. intro H. rewrite (crl_app a b (b + 1)) by lia. now rewrite crl_single. Qed.

Lemma crl_cons a b : a < b -> chunk_range_list a b = a :: chunk_range_list (a + 1) b.
Proof. intro H. rewrite (crl_app a (a + 1) b) by lia. now rewrite crl_single. Qed.

Lemma existsb_ext' {A} (f g : A -> bool) l : (forall x, In x l -> f x = g x) -> existsb f l = existsb g l.
Proof.
  induction l as [|x l IH]; intro H; [reflexivity|]. cbn [existsb].
  rewrite (H x (or_introl eq_refl)), IH; [reflexivity|]. intros y Hy. apply H. now right.
Qed.
Lemma forallb_ext' {A} (f g : A -> bool) l : (forall x, In x l -> f x = g x) -> forallb f l = forallb g l.
Proof.
  induction l as [|x l IH]; intro H; [reflexivity|]. cbn [forallb].
  rewrite (H x (or_introl eq_refl)), IH; [reflexivity|]. intros y Hy. apply H. now right.
Qed.

(* ---- chunk counts ---- *)
Lemma chunks_ceil size : chunks size = (size + 1023) / 1024.
Proof. rewrite chunks_eq. rewrite <- (cdiv_alt size 1024) by lia. f_equal. lia. Qed.

Lemma nchunks_bounds size :
  1 <= nchunks size /\ size <= nchunks size * 1024 /\
  ((nchunks size - 1) * 1024 < size \/ (size = 0 /\ nchunks size = 1)).
Proof. unfold nchunks. rewrite chunks_ceil. lia. Qed.

Lemma nchunks_le size k : size <= 2 ^ (k + 10) -> nchunks size <= 2 ^ k.
Proof.
  intro H. unfold nchunks. rewrite chunks_ceil.
  rewrite N.pow_add_r in H. change (2 ^ 10) with 1024 in H. pose proof (pow2_pos k). lia.
Qed.

Lemma sp_blocks_0 size : sp_blocks size 0 = nchunks size.
Proof. unfold sp_blocks, nchunks. rewrite chunks_ceil. change (2 ^ 0) with 1. rewrite N.mul_1_r. f_equal. f_equal. lia. Qed.

Lemma to_bytes_small a : a < 2 ^ 54 -> to_bytes a = a * 1024.
Proof.
  intro H. unfold to_bytes, shl64. rewrite N.shiftl_mul_pow2. change (2 ^ 10) with 1024.
  apply N.mod_small. unfold W64. change (2 ^ 54) with 18014398509481984 in H. lia.
Qed.

(* ---- byte slices ---- *)
Section Bytes.
Variable HO : hops.
Notation bytes := (bytes HO).

Lemma skipn_add {A} n m (l : list A) : skipn n (skipn m l) = skipn (m + n) l.
Proof.
  revert l. induction m as [|m IH]; intro l; [reflexivity|].
  destruct l as [|x l]; [now rewrite !skipn_nil|]. cbn [skipn plus]. apply IH.
Qed.

Lemma blen_chunk_bytes data a b :
  blen HO (chunk_bytes HO data a b) = N.min ((b - a) * 1024) (blen HO data - a * 1024).
Proof.
  unfold chunk_bytes, slice, take, drop, blen. rewrite firstn_length, skipn_length. lia.
Qed.

Lemma chunk_bytes_take data a m b : a <= m -> m <= b ->
  take HO ((m - a) * 1024) (chunk_bytes HO data a b) = chunk_bytes HO data a m.
Proof.
  intros H1 H2. unfold chunk_bytes, slice, take. rewrite firstn_firstn. f_equal. lia.
Qed.

Lemma chunk_bytes_drop data a m b : a <= m -> m <= b ->
  drop HO ((m - a) * 1024) (chunk_bytes HO data a b) = chunk_bytes HO data m b.
Proof.
  intros H1 H2. unfold chunk_bytes, slice, take, drop.
  rewrite skipn_firstn_comm, skipn_add. f_equal; [lia | f_equal; lia].
Qed.

Lemma chunk_bytes_app data a m b : a <= m -> m <= b ->
  chunk_bytes HO data a b = chunk_bytes HO data a m ++ chunk_bytes HO data m b.
Proof.
  intros H1 H2. rewrite <- (chunk_bytes_take data a m b), <- (chunk_bytes_drop data a m b) by assumption.
  unfold take, drop. now rewrite firstn_skipn.
Qed.

(* span_bytes of a node clipped to the blob = length of its bytes *)
Lemma span_chunk_bytes data a b e :
  let size := blen HO data in
  a < nchunks size -> a <= b -> (b = e \/ (b = nchunks size /\ b <= e)) -> b <= nchunks size ->
  span_bytes size a e = blen HO (chunk_bytes HO data a b).
Proof.
  cbn zeta. intros Ha Hab Hbe Hb. rewrite blen_chunk_bytes. unfold span_bytes.
  pose proof (nchunks_bounds (blen HO data)) as (B1 & B2 & B3).
  set (n := nchunks (blen HO data)) in *. set (size := blen HO data) in *. nia.
Qed.
End Bytes.

(* children of the split of an interval of n >= 2 chunks *)
Lemma half_bounds n F : 2 <= n -> n <= 2 ^ (F + 1) ->
  let h := next_pow2 n / 2 in
  1 <= h /\ h < n /\ n - h <= h /\ h <= 2 ^ F /\ n - h <= 2 ^ F.
Proof.
  intros H1 H2. cbn zeta. destruct (np2_half n H1) as (k & E & Eh & K1 & K2). rewrite Eh.
  rewrite pow2_succ in K2. pose proof (pow2_ge1 k).
  assert (2 ^ k < 2 ^ (F + 1)) by lia. apply pow2_lt_inv in H0.
  pose proof (pow2_le_mono k F ltac:(lia)). lia.
Qed.

Lemma of_nat_S f : N.of_nat (S f) = N.of_nat f + 1.
Proof. lia. Qed.

Lemma pow2_ge2_fuel n f : 2 <= n -> n <= 2 ^ N.of_nat f -> exists f', f = S f'.
Proof.
  intros H1 H2. destruct f as [|f']; [|now exists f']. change (2 ^ N.of_nat 0) with 1 in H2. lia.
Qed.
